#!/usr/bin/env python3
"""Regenerates /verif/MANIFEST.json from tools/claims.json (one entry per claimed property)."""
import json, os, subprocess
ROOT = os.path.dirname(os.path.dirname(os.path.abspath(__file__)))
props = [json.loads(l) for l in open(os.path.join(ROOT, 'properties.jsonl'))]
claims = json.load(open(os.path.join(ROOT, 'tools', 'claims.json')))
claimed = claims["claimed"]
na = claims.get("not_applicable", {})
hooks_commits = claims.get("hook_commits", [])
m = {
 "version": 1,
 "setup_cmd": "cd /verif && ./check --setup",
 "hooks": {"guard": "verif",
           "enable": "go test -c -tags verif (done by ./check for every harness package; module verifharness replaces github.com/blugelabs/bluge with /repo)",
           "baseline_off_cmd": "cd /repo && GOFLAGS=-mod=mod GOPROXY=off go test -vet=off -count=1 -timeout 25m ./...",
           "source_commits": hooks_commits, "add_only": True},
 "engines": [{"name": "harness", "path": "/verif/harness", "serves_properties": sorted(claimed.keys()),
              "kind_free_text": "Go module: rapid (pgregory.net/rapid v1.3.0) generators, native go fuzz targets, porcupine linearizability checker; explicit oracle per property; driver ./check builds from /repo's working tree with -tags verif, shards, merges evidence, maps exit codes"}],
 "checks": [],
 "notes": "./check <Cnn> quick|thorough [--replay file]; exit 0 held / 1 VIOLATION / 2 infrastructure. KNOWN_FINDINGS.txt lists known and fixed findings. VERIF_SEED selects the rapid seed (0 is remapped to 1).",
 "not_applicable": []
}
for p in props:
    pid = p['id']
    if pid in claimed:
        c = claimed[pid]
        m["checks"].append({"property_id": pid, "quick_cmd": "./check %s quick" % pid, "thorough_cmd": "./check %s thorough" % pid,
                            "evidence_file": "/verif/evidence/%s.json" % pid,
                            "replay_cmd_template": "./check %s --replay {path}" % pid, "engine": "harness",
                            "level_claimed": {"category": c["level"], "text": c["text"], "design_ref": c.get("ref", "DESIGN.md §4 " + pid)},
                            "level_note": c["note"], "technique": c["tech"]})
    else:
        m["not_applicable"].append({"property_id": pid, "reason": na.get(pid, "check not built yet (design in DESIGN.md §4 %s); will be claimed once its harness package exists" % pid)})
json.dump(m, open(os.path.join(ROOT, 'MANIFEST.json'), 'w'), indent=1)
print("claimed:", sorted(claimed.keys()))
