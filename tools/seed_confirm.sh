#!/bin/bash
# usage: tools/seed_confirm.sh <seed dir (patch.diff, demo_test.go)> <package dir rel. to repo, e.g. index> <TestRegex> [go test extra args...]
# Confirms in a scratch copy of /repo: demo passes without the patch, patch applies + builds, the repository's
# suite passes with the patch (demo excluded), demo fails with the patch.
set -u
SRC=$(readlink -f "$1"); PKG=$2; RX=$3; shift 3
export GOFLAGS=-mod=mod GOPROXY=off GOSUMDB=off GOTOOLCHAIN=local
D=/dev/shm/seedc_$$; rm -rf "$D"; mkdir -p "$D"; (cd /repo && git ls-files -z | xargs -0 cp --parents -t "$D")
DEMO=$(ls "$SRC"/demo*_test.go 2>/dev/null | head -1)
R1=FAIL; R2=pass; SUITE=FAIL; APPLY=ok
(cd "$D" && cp "$DEMO" "$PKG/zz_verifdemo_test.go" && go test -vet=off -count=1 "$@" -run "$RX" "./$PKG/" >/tmp/sc1_$$.log 2>&1) && R1=pass
rm -f "$D/$PKG/zz_verifdemo_test.go"
(cd "$D" && patch -p1 -s < "$SRC/patch.diff") || APPLY=FAILED
(cd "$D" && go build ./... && go test -vet=off -count=1 ./... >/tmp/sc2_$$.log 2>&1) && SUITE=pass
(cd "$D" && cp "$DEMO" "$PKG/zz_verifdemo_test.go" && go test -vet=off -count=1 "$@" -run "$RX" "./$PKG/" >/tmp/sc3_$$.log 2>&1) || R2=FAIL
echo "CONFIRM $(basename $(dirname $SRC))/$(basename $SRC): apply=$APPLY demo-without-patch=$R1 suite-with-patch=$SUITE demo-with-patch=$R2"
[ "$R1" != pass ] && tail -5 /tmp/sc1_$$.log
[ "$SUITE" != pass ] && grep -m5 "FAIL" /tmp/sc2_$$.log
[ "$R2" != FAIL ] && tail -3 /tmp/sc3_$$.log
rm -rf "$D" /tmp/sc[123]_$$.log
