#!/usr/bin/env python3
"""usage: mkmutant.py <out.diff> <file-relative-to-repo> <<< JSON [{"old":..., "new":...}, ...]
Builds a unified diff (a/ b/ prefixes) that replaces exact text in one file of /repo."""
import sys, json, difflib
out, rel = sys.argv[1], sys.argv[2]
edits = json.load(sys.stdin)
src = open('/repo/' + rel).read()
dst = src
for e in edits:
    assert dst.count(e["old"]) == 1, "pattern must match exactly once: %r (found %d)" % (e["old"][:60], dst.count(e["old"]))
    dst = dst.replace(e["old"], e["new"])
d = difflib.unified_diff(src.splitlines(True), dst.splitlines(True), 'a/' + rel, 'b/' + rel)
open(out, 'w').write(''.join(d))
print("wrote", out)
