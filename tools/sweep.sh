#!/bin/bash
# usage: tools/sweep.sh <tier> <seed> [parallel] [ids...]   - runs the registered checks on the unchanged tree, one line per check
TIER=${1:-quick}; SEED=${2:-1}; PAR=${3:-3}; shift 3 2>/dev/null
IDS=${@:-C01 C02 C03 C04 C05 C06 C07 C08 C09 C10 C11 C12 C13 C14 C15 C16 C17 C18 C19 C20}
cd /verif; mkdir -p .run/sweep
for id in $IDS; do echo $id; done | xargs -P $PAR -I{} bash -c "s=\$(date +%s); VERIF_SEED=$SEED ./check {} $TIER > .run/sweep/{}-$TIER-s$SEED.log 2>&1; rc=\$?; echo \"{} $TIER seed=$SEED exit=\$rc \$((\$(date +%s)-s))s \$(grep -c '^VIOLATION' .run/sweep/{}-$TIER-s$SEED.log) violations \$(grep -c '^KNOWN-FINDING' .run/sweep/{}-$TIER-s$SEED.log) known\""
