#!/usr/bin/env python3
"""Validates MANIFEST.json and every evidence/*.json against the schemas (needs jsonschema:
/opt/veriftools/pyvenv/bin/python tools/validate.py)."""
import glob, json, sys
import jsonschema
ok = True
m = json.load(open('/verif/MANIFEST.json'))
jsonschema.validate(m, json.load(open('/root/.vp/MANIFEST.schema.json')))
es = json.load(open('/root/.vp/EVIDENCE.schema.json'))
claimed = {c['property_id']: c for c in m['checks']}
for pid, c in sorted(claimed.items()):
    p = c['evidence_file']
    try:
        e = json.load(open(p))
        jsonschema.validate(e, es)
        assert e['property_id'] == pid and e['level'] == c['level_claimed']['category'], "level/property mismatch"
        cov = e['coverage']
        print("%s ok tier=%s evals=%s distinct_nontrivial=%s samples=%d wall=%ss viol=%s" % (pid, e['tier'], cov.get('evaluations'), cov.get('distinct_nontrivial'), len(cov.get('samples', [])), e['wall_s'], e.get('violations')))
    except Exception as ex:
        ok = False
        print("%s INVALID: %s" % (pid, str(ex)[:300]))
na = {x['property_id'] for x in m.get('not_applicable', [])}
print("claimed", len(claimed), "not_applicable", sorted(na))
sys.exit(0 if ok else 1)
