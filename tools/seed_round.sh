#!/bin/bash
# usage: tools/seed_round.sh <Cnn> <srcdir with change1/ change2/> <first new index> [tier]
# copies the deliverables of a seeding sub-agent to seeded/<Cnn>-<k>/, confirms each (seed_confirm.sh) and evaluates the
# property's check against it (seed_eval.sh); one line each into seeded/eval_logs/round4.log
PID=$1; SRC=$2; K=$3; TIER=${4:-quick}
cd /verif; mkdir -p seeded/eval_logs
for ch in change1 change2; do
  [ -f "$SRC/$ch/patch.diff" ] || { echo "$PID $ch: no patch" | tee -a seeded/eval_logs/round4.log; K=$((K+1)); continue; }
  D=seeded/$PID-$K; mkdir -p $D; cp $SRC/$ch/patch.diff $SRC/$ch/demo_test.go $SRC/$ch/HOWTO.txt $SRC/$ch/meta.json $D/ 2>/dev/null
  PKG=$(python3 -c "import json;print(json.load(open('$D/meta.json')).get('demo_pkg','index'))")
  RX=$(python3 -c "import json;print(json.load(open('$D/meta.json')).get('demo_run','TestVerifDemo'))")
  tools/seed_confirm.sh $D "$PKG" "$RX" 2>&1 | tee -a seeded/eval_logs/round4.log
  tools/seed_eval.sh $PID $D $TIER 2>&1 | grep "^SEED\|^--- FAIL\|^FAIL" | tee -a seeded/eval_logs/round4.log
  K=$((K+1))
done
