#!/bin/bash
# usage: tools/mutant.sh <Cnn> <patch.diff> [tier] [--test pkgs...]
# Applies a patch to a scratch copy of /repo, checks that the copy builds (and optionally that the
# given packages' own tests pass), runs the check against the copy, prints the verdict, cleans up.
set -u
PID=$1; PATCH=$(readlink -f "$2"); TIER=${3:-quick}; shift 3 2>/dev/null || shift $#
export GOFLAGS=-mod=mod GOPROXY=off GOSUMDB=off GOTOOLCHAIN=local
D=/dev/shm/mut_$$_$(basename "$PATCH" .diff)
rm -rf "$D"; mkdir -p "$D"; (cd /repo && git ls-files -z | xargs -0 cp --parents -t "$D") 
if ! (cd "$D" && patch -p1 -s < "$PATCH"); then echo "MUTANT $(basename $PATCH): PATCH FAILED"; rm -rf "$D"; exit 3; fi
if ! (cd "$D" && go build ./... 2>&1 | tail -5); then echo "MUTANT: BUILD FAILED"; fi
TESTRES="not-run"
if [ "${1:-}" = "--test" ]; then shift; if (cd "$D" && go test -vet=off -count=1 "$@" >/tmp/mut_test_$$.log 2>&1); then TESTRES="pass"; else TESTRES="FAIL"; fi; fi
OUT=$(cd /verif && VERIF_REPO="$D" ./check "$PID" "$TIER" 2>&1); RC=$?
echo "MUTANT $(basename $PATCH) property=$PID tier=$TIER own-tests=$TESTRES check-exit=$RC :: $(echo "$OUT" | grep -m1 '^VIOLATION\|^INFRA\|^OK' | cut -c1-260)"
rm -rf "$D" /verif/.build/*.$(echo -n "$D" | sha1sum | cut -c1-8).* /verif/.build/go.$(echo -n "$D" | sha1sum | cut -c1-8).* /verif/.run/*-$(echo -n "$D" | sha1sum | cut -c1-8)* 2>/dev/null
exit $RC
