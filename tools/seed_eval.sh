#!/bin/bash
# usage: tools/seed_eval.sh <Cnn> <dir with patch.diff + demo> [tier] [extra check ids...]
# Confirms a seeded change (applies, builds, repository suite still green, demo fails with / passes
# without) in a scratch copy of /repo, then runs the check(s) against that copy.
set -u
PID=$1; SRC=$(readlink -f "$2"); TIER=${3:-quick}
export GOFLAGS=-mod=mod GOPROXY=off GOSUMDB=off GOTOOLCHAIN=local
D=/dev/shm/seed_$$_$(basename "$SRC")
rm -rf "$D"; mkdir -p "$D"; (cd /repo && git ls-files -z | xargs -0 cp --parents -t "$D")
if ! (cd "$D" && git init -q . >/dev/null 2>&1 && git apply --whitespace=nowarn "$SRC/patch.diff"); then
  if ! (cd "$D" && patch -p1 -s < "$SRC/patch.diff"); then echo "SEED $SRC: PATCH DOES NOT APPLY"; rm -rf "$D"; exit 3; fi
fi
rm -rf "$D/.git"
if ! (cd "$D" && go build ./... ) ; then echo "SEED $SRC: BUILD FAILED"; rm -rf "$D"; exit 3; fi
SUITE=pass; (cd "$D" && go test -vet=off -count=1 ./... >/tmp/seed_suite_$$.log 2>&1) || SUITE=FAIL
OUT=$(cd /verif && VERIF_REPO="$D" ./check "$PID" "$TIER" 2>&1); RC=$?
echo "SEED $(basename $(dirname $SRC))/$(basename $SRC) property=$PID tier=$TIER suite=$SUITE check-exit=$RC :: $(echo "$OUT" | grep -m1 '^VIOLATION\|^INFRA\|^OK' | cut -c1-300)"
[ "$SUITE" = FAIL ] && grep -m5 "^--- FAIL\|^FAIL" /tmp/seed_suite_$$.log
H=$(echo -n "$D" | sha1sum | cut -c1-8)
rm -rf "$D" /verif/.build/*.$H.* /verif/.build/go.$H.* /verif/.run/*-$H* /tmp/seed_suite_$$.log 2>/dev/null
exit $RC
