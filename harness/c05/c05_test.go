// C05  Concurrent batches are linearizable; readers see a prefix of that order.
package c05

import (
	"encoding/json"
	"fmt"
	"os"
	"sort"
	"strings"
	"sync"
	"testing"
	"time"

	"github.com/anishathalye/porcupine"
	"github.com/blugelabs/bluge/index"
	"pgregory.net/rapid"

	"verifharness/vlib"
)

func TestMain(m *testing.M) { vlib.Main(m) }

var ev = vlib.NewEvidence("C05",
	"(a) free schedules: 2-8 writer goroutines x 1-3 conflicting batches over 3-4 shared ids plus 1-3 reader goroutines, seeded micro-delays, safe and unsafe mode; "+
		"(b) enumerated scenarios: 2-3 (thorough: up to 4) batches are each parked inside the stale-root window (at their first obsoletes computation, after the root was read) and then "+
		"released in EVERY permutation, optionally with a persist swap or a merge introduced while they are parked. Every recorded history (batch calls and reader acquisitions with "+
		"invocation/response stamps, each reader's content, one final read) is decided by the porcupine linearizability checker against the abstract index. "+
		"non-trivial = >= 2 overlapping batches name a common id and >= 1 read overlaps a batch (free), or all batches overlap and name a common id (enumerated)")

// ---------------------------------------------------------------------------------------------
// sequential model for porcupine: state = sorted "id#ver" keys joined by ','

type opIn struct {
	Batch *vlib.BatchSpec
	Read  bool
}

func applyState(state string, b *vlib.BatchSpec) string {
	var keys []string
	if state != "" {
		keys = strings.Split(state, ",")
	}
	names := map[string]bool{}
	for _, op := range b.Ops {
		if op.Kind == "update" || op.Kind == "delete" {
			names[op.ID] = true
		}
	}
	kept := keys[:0:0]
	for _, k := range keys {
		id := k[:strings.IndexByte(k, '#')]
		if !names[id] {
			kept = append(kept, k)
		}
	}
	for _, op := range b.Ops {
		if op.Kind == "insert" || op.Kind == "update" {
			kept = append(kept, op.Doc.Key())
		}
	}
	sort.Strings(kept)
	return strings.Join(kept, ",")
}

func linModel(initial string) porcupine.Model {
	return porcupine.Model{
		Init: func() interface{} { return initial },
		Step: func(state, input, output interface{}) (bool, interface{}) {
			in := input.(opIn)
			st := state.(string)
			if in.Read {
				return output.(string) == st, st
			}
			return true, applyState(st, in.Batch)
		},
		Equal: func(a, b interface{}) bool { return a.(string) == b.(string) },
		DescribeOperation: func(input, output interface{}) string {
			in := input.(opIn)
			if in.Read {
				return "read -> [" + output.(string) + "]"
			}
			return "batch " + vlib.Canon(in.Batch.Ops)
		},
	}
}

func describe(ops []porcupine.Operation) string {
	sorted := append([]porcupine.Operation(nil), ops...)
	sort.Slice(sorted, func(i, j int) bool { return sorted[i].Call < sorted[j].Call })
	var sb strings.Builder
	for _, o := range sorted {
		in := o.Input.(opIn)
		if in.Read {
			fmt.Fprintf(&sb, "[%d..%d] c%d read -> {%s}; ", o.Call, o.Return, o.ClientId, o.Output.(string))
		} else {
			var parts []string
			for _, op := range in.Batch.Ops {
				s := op.Kind + " " + op.ID
				if op.Doc != nil {
					s += fmt.Sprintf("#%d", op.Doc.Ver)
				}
				parts = append(parts, s)
			}
			fmt.Fprintf(&sb, "[%d..%d] c%d batch(%s); ", o.Call, o.Return, o.ClientId, strings.Join(parts, ", "))
		}
	}
	return sb.String()
}

func checkLin(initial string, ops []porcupine.Operation) *vlib.Failure {
	res := porcupine.CheckOperationsTimeout(linModel(initial), ops, 20*time.Second)
	switch res {
	case porcupine.Ok:
		return nil
	case porcupine.Unknown:
		return nil // search budget exhausted: inconclusive, never a violation
	}
	return vlib.Failf("not-linearizable", "history is not linearizable (initial {%s}): %s", initial, describe(ops))
}


// ---------------------------------------------------------------------------------------------
// (a) free schedules

type FreeCase struct {
	Conf    vlib.IdxConf       `json:"conf"`
	Seed    vlib.BatchSpec     `json:"seed"`
	Writers [][]vlib.BatchSpec `json:"writers"` // per goroutine
	Readers int                `json:"readers"`
	Reads   int                `json:"reads_per_reader"`
	Delays  []int              `json:"delays_us"` // micro-delays consumed round-robin by the goroutines
}

func smallBatch(t *rapid.T, g *vlib.HistGen) vlib.BatchSpec {
	var b vlib.BatchSpec
	n := rapid.IntRange(1, 2).Draw(t, "ops")
	ids := rapid.Permutation(append([]string(nil), g.IDPool...)).Draw(t, "ids")[:n]
	for _, id := range ids {
		kind := rapid.SampledFrom([]string{"update", "update", "update", "delete", "insert"}).Draw(t, "kind")
		op := vlib.Op{Kind: kind, ID: id}
		if kind != "delete" {
			d := g.Doc(t, id)
			d.T, d.K, d.N = nil, nil, nil // content is irrelevant here; keep segments tiny
			op.Doc = d
		}
		b.Ops = append(b.Ops, op)
	}
	return b
}

func genFree(t *rapid.T) FreeCase {
	c := FreeCase{Conf: vlib.IdxConf{Dir: rapid.SampledFrom([]string{"mem", "fs"}).Draw(t, "dir"), SegVer: 1,
		Unsafe: rapid.Bool().Draw(t, "unsafe"), Merge: rapid.SampledFrom([]string{"default", "pairs", "none"}).Draw(t, "merge")}}
	g := vlib.NewHistGen(rapid.IntRange(3, 4).Draw(t, "ids"))
	for _, id := range g.IDPool[:2] {
		c.Seed.Ops = append(c.Seed.Ops, vlib.Op{Kind: "update", ID: id, Doc: &vlib.DocSpec{ID: id, Ver: 1000 + len(c.Seed.Ops)}})
	}
	nw := rapid.IntRange(2, 8).Draw(t, "writers")
	for w := 0; w < nw; w++ {
		nb := rapid.IntRange(1, 3).Draw(t, "batches")
		var bs []vlib.BatchSpec
		for i := 0; i < nb; i++ {
			bs = append(bs, smallBatch(t, g))
		}
		c.Writers = append(c.Writers, bs)
	}
	c.Readers = rapid.IntRange(1, 3).Draw(t, "readers")
	c.Reads = rapid.IntRange(1, 4).Draw(t, "reads")
	nd := rapid.IntRange(4, 24).Draw(t, "nDelays")
	for i := 0; i < nd; i++ {
		c.Delays = append(c.Delays, rapid.SampledFrom([]int{0, 0, 0, 1, 5, 20, 100, 400}).Draw(t, "delay"))
	}
	return c
}

type freeStats struct{ overlapConflict, readOverlap bool }

func propFree(c FreeCase, st *freeStats) *vlib.Failure {
	path := ""
	if c.Conf.Dir == "fs" {
		path = vlib.NewScratchDir("c05")
		defer os.RemoveAll(path)
	}
	x, f := vlib.OpenIdx(c.Conf, path, nil)
	if f != nil {
		return f
	}
	defer x.Destroy()
	if f := x.Batch(c.Seed); f != nil {
		return f
	}
	initial := applyState("", &c.Seed)
	var clock vlib.Clock
	var mu sync.Mutex
	var ops []porcupine.Operation
	var fails []*vlib.Failure
	record := func(o porcupine.Operation) { mu.Lock(); ops = append(ops, o); mu.Unlock() }
	fail := func(f *vlib.Failure) { mu.Lock(); fails = append(fails, f); mu.Unlock() }
	delay := func(i int) {
		if d := c.Delays[i%len(c.Delays)]; d > 0 {
			time.Sleep(time.Duration(d) * time.Microsecond)
		}
	}
	var wg sync.WaitGroup
	start := make(chan struct{})
	for w, bs := range c.Writers {
		wg.Add(1)
		go func(w int, bs []vlib.BatchSpec) {
			defer wg.Done()
			<-start
			for i := range bs {
				delay(w*7 + i)
				b := bs[i]
				batch := vlib.BuildBatch(b)
				call := clock.Tick()
				err := x.W.Batch(batch)
				ret := clock.Tick()
				if err != nil {
					fail(vlib.Failf("batch-error", "writer %d batch %d: %v", w, i, err))
					return
				}
				record(porcupine.Operation{ClientId: w, Input: opIn{Batch: &b}, Call: call, Return: ret})
			}
		}(w, bs)
	}
	ids := append([]string(nil), vlib.NewHistGen(4).IDPool...)
	for r := 0; r < c.Readers; r++ {
		wg.Add(1)
		go func(r int) {
			defer wg.Done()
			<-start
			for i := 0; i < c.Reads; i++ {
				delay(100 + r*5 + i)
				call := clock.Tick()
				rd, err := x.W.Reader()
				ret := clock.Tick()
				if err != nil {
					fail(vlib.Failf("reader-error", "%v", err))
					return
				}
				o, err := vlib.Observe(rd, ids)
				_ = rd.Close()
				if err != nil {
					fail(vlib.Failf("observe-error", "%v", err))
					return
				}
				record(porcupine.Operation{ClientId: 100 + r, Input: opIn{Read: true}, Output: strings.Join(o.Keys(), ","), Call: call, Return: ret})
			}
		}(r)
	}
	done := make(chan struct{})
	go func() { wg.Wait(); close(done) }()
	close(start)
	select {
	case <-done:
	case <-time.After(vlib.CallBound):
		return vlib.Failf("hang@concurrent-batches", "writers/readers did not finish within %v", vlib.CallBound)
	}
	if len(fails) > 0 {
		return fails[0]
	}
	// final read: the final index equals the abstract index after the found order
	call := clock.Tick()
	o, f := x.ObserveNow(ids)
	if f != nil {
		return f
	}
	ops = append(ops, porcupine.Operation{ClientId: 999, Input: opIn{Read: true}, Output: strings.Join(o.Keys(), ","), Call: call, Return: clock.Tick()})
	// classification
	for i := range ops {
		for j := range ops {
			if i >= j || ops[i].Return < ops[j].Call || ops[j].Return < ops[i].Call {
				continue
			}
			a, b := ops[i].Input.(opIn), ops[j].Input.(opIn)
			if a.Read != b.Read {
				st.readOverlap = true
			}
			if !a.Read && !b.Read && shareID(a.Batch, b.Batch) {
				st.overlapConflict = true
			}
		}
	}
	return checkLin(initial, ops)
}

func shareID(a, b *vlib.BatchSpec) bool {
	for _, x := range a.Ops {
		for _, y := range b.Ops {
			if x.ID == y.ID {
				return true
			}
		}
	}
	return false
}

func TestC05Free(t *testing.T) {
	vlib.Check(t, 120, 800, func(rt *rapid.T) {
		c := genFree(rt)
		var st freeStats
		f := vlib.Guard("free", func() *vlib.Failure { return propFree(c, &st) })
		nt := st.overlapConflict && st.readOverlap
		cls := []string{"free", "free:dir:" + c.Conf.Dir}
		if c.Conf.Unsafe {
			cls = append(cls, "free:unsafe")
		} else {
			cls = append(cls, "free:safe")
		}
		if st.overlapConflict {
			cls = append(cls, "free:overlapping-conflicting-batches")
		}
		ev.Case(vlib.Canon(c), nt, cls...)
		if len(c.Writers) <= 2 {
			ev.Sample(map[string]interface{}{"kind": "free", "case": c}, nt)
		}
		vlib.Report(rt, ev, "free", c, f)
	})
}

// ---------------------------------------------------------------------------------------------
// (b) enumerated release orders inside the stale-root window

type EnumCase struct {
	Unsafe  bool             `json:"unsafe"`
	Between string           `json:"between"` // "" | "persist-swap" | "merge"
	Batches []vlib.BatchSpec `json:"batches"`
	Order   []int            `json:"order,omitempty"` // set by the enumeration (for replay of one order)
}

func genEnum(t *rapid.T) EnumCase {
	c := EnumCase{Unsafe: rapid.Bool().Draw(t, "unsafe"), Between: rapid.SampledFrom([]string{"", "", "persist-swap", "merge"}).Draw(t, "between")}
	if c.Between == "persist-swap" {
		c.Unsafe = true
	}
	max := 3
	if vlib.Thorough() {
		max = 4
	}
	n := rapid.IntRange(2, max).Draw(t, "n")
	ver := 10
	for i := 0; i < n; i++ {
		var b vlib.BatchSpec
		pat := rapid.SampledFrom([]string{"upd-a", "upd-a", "del-a", "ins-a", "upd-b", "upd-a+del-b", "del-a+upd-b", "upd-a+upd-b"}).Draw(t, "pattern")
		for _, p := range strings.Split(pat, "+") {
			id := p[len(p)-1:]
			ver++
			switch p[:3] {
			case "upd":
				b.Ops = append(b.Ops, vlib.Op{Kind: "update", ID: id, Doc: &vlib.DocSpec{ID: id, Ver: ver}})
			case "ins":
				b.Ops = append(b.Ops, vlib.Op{Kind: "insert", ID: id, Doc: &vlib.DocSpec{ID: id, Ver: ver}})
			case "del":
				b.Ops = append(b.Ops, vlib.Op{Kind: "delete", ID: id})
			}
		}
		c.Batches = append(c.Batches, b)
	}
	return c
}

func permutations(n int) [][]int {
	var res [][]int
	var rec func(cur []int, used []bool)
	rec = func(cur []int, used []bool) {
		if len(cur) == n {
			res = append(res, append([]int(nil), cur...))
			return
		}
		for i := 0; i < n; i++ {
			if !used[i] {
				used[i] = true
				rec(append(cur, i), used)
				used[i] = false
			}
		}
	}
	rec(nil, make([]bool, n))
	return res
}

type enumStats struct{ orders, allParked, betweenDone int }

func runOrder(c EnumCase, order []int, st *enumStats) (fail *vlib.Failure) {
	dir := vlib.NewScratchDir("c05e")
	defer os.RemoveAll(dir)
	gates := vlib.NewGates()
	conf := vlib.IdxConf{Dir: "fs", SegVer: 1, Unsafe: c.Unsafe, Merge: "default"}
	if c.Between == "persist-swap" {
		gates.Hold("persister:persist.seg:begin")
	}
	if c.Between == "merge" {
		gates.Hold("merger:ev7")
	}
	rr, f := vlib.StartRecordedRun(conf, dir, nil, func(ic index.Config, d *vlib.RecDir) index.Config {
		return gates.Install(ic, d, true)
	})
	if f != nil {
		return f
	}
	closed := false
	defer func() {
		gates.OpenAll()
		if !closed {
			_ = rr.Finish(false)
		}
		if fail != nil {
			fail.Msg += " | gate log tail: " + strings.Join(gates.LogTail(30), "; ")
		}
	}()
	// seed: documents a and b in the root
	seeds := []vlib.BatchSpec{{Ops: []vlib.Op{{Kind: "update", ID: "a", Doc: &vlib.DocSpec{ID: "a", Ver: 1}}, {Kind: "update", ID: "b", Doc: &vlib.DocSpec{ID: "b", Ver: 2}}}}}
	if c.Between == "merge" {
		seeds = append(seeds, vlib.BatchSpec{Ops: []vlib.Op{{Kind: "update", ID: "c", Doc: &vlib.DocSpec{ID: "c", Ver: 3}}}})
	}
	initial := ""
	for i := range seeds {
		if f := rr.Batch(seeds[i]); f != nil {
			return f
		}
		initial = applyState(initial, &seeds[i])
	}
	var between *vlib.Parked
	switch c.Between {
	case "persist-swap":
		between = gates.WaitParked("persister:persist.seg:begin", 2*time.Second)
	case "merge":
		between = gates.WaitParked("merger:ev7", 2*time.Second)
	}
	// park every batch inside the stale-root window
	gates.HoldFirst("client:docsMatchingTerms")
	clock := rr.Dir.Clock
	var mu sync.Mutex
	var ops []porcupine.Operation
	errs := make([]error, len(c.Batches))
	dones := make([]chan struct{}, len(c.Batches))
	for i := range c.Batches {
		dones[i] = make(chan struct{})
		go func(i int) {
			defer close(dones[i])
			b := c.Batches[i]
			call := clock.Tick()
			err := rr.X.W.Batch(vlib.BuildBatch(b))
			ret := clock.Tick()
			errs[i] = err
			mu.Lock()
			ops = append(ops, porcupine.Operation{ClientId: i, Input: opIn{Batch: &b}, Call: call, Return: ret})
			mu.Unlock()
		}(i)
	}
	// wait until all are parked (each goroutine parks once)
	parkedAll := gates.WaitPasses("client:docsMatchingTerms", len(c.Batches), 2*time.Second)
	time.Sleep(2 * time.Millisecond)
	pl := gates.ParkedList()
	var clients []*vlib.Parked
	for _, p := range pl {
		if p.Point == "client:docsMatchingTerms" {
			clients = append(clients, p)
		}
	}
	if parkedAll && len(clients) == len(c.Batches) {
		st.allParked++
	}
	// the background step lands while the batches hold their stale root
	if between != nil {
		gates.Unhold("persister:persist.seg:begin", "merger:ev7")
		gates.Release(between)
		if c.Between == "merge" {
			gates.WaitPasses("merger:ev8", 1, 2*time.Second)
		} else {
			gates.WaitPasses("persister:persist.snp:begin", 1, 2*time.Second)
		}
		st.betweenDone++
	}
	ids := []string{"a", "b", "c"}
	read := func() *vlib.Failure {
		call := clock.Tick()
		r, f := rr.X.Reader()
		ret := clock.Tick()
		if f != nil {
			return f
		}
		o, err := vlib.Observe(r, ids)
		_ = r.Close()
		if err != nil {
			return vlib.Failf("observe-error", "%v", err)
		}
		mu.Lock()
		ops = append(ops, porcupine.Operation{ClientId: 50, Input: opIn{Read: true}, Output: strings.Join(o.Keys(), ","), Call: call, Return: ret})
		mu.Unlock()
		return nil
	}
	// release in the given order; which goroutine a parked entry belongs to is unknown, so the
	// order is over parked entries (every permutation of them is run by the caller)
	for k, pi := range order {
		if pi < len(clients) {
			gates.Release(clients[pi])
		}
		// let the released batch run to completion (or as far as it gets) before the next one
		if !c.Unsafe || k == len(order)-1 {
			time.Sleep(3 * time.Millisecond)
		} else {
			time.Sleep(1 * time.Millisecond)
		}
		if f := read(); f != nil {
			return f
		}
	}
	gates.OpenAll()
	for i, d := range dones {
		select {
		case <-d:
		case <-time.After(vlib.CallBound):
			return vlib.Failf("hang@Batch", "batch %d did not return within %v after all gates were opened", i, vlib.CallBound)
		}
		if errs[i] != nil {
			return vlib.Failf("batch-error", "batch %d: %v", i, errs[i])
		}
	}
	if f := read(); f != nil {
		return f
	}
	st.orders++
	mu.Lock()
	hist := append([]porcupine.Operation(nil), ops...)
	mu.Unlock()
	return checkLin(initial, hist)
}

func propEnum(c EnumCase, st *enumStats) *vlib.Failure {
	if len(c.Order) > 0 {
		return runOrder(c, c.Order, st)
	}
	for _, order := range permutations(len(c.Batches)) {
		if f := runOrder(c, order, st); f != nil {
			f.Msg = fmt.Sprintf("release order %v: %s", order, f.Msg)
			return f
		}
	}
	return nil
}

func TestC05Enumerated(t *testing.T) {
	vlib.Check(t, 25, 120, func(rt *rapid.T) {
		c := genEnum(rt)
		var st enumStats
		f := vlib.Guard("enum", func() *vlib.Failure { return propEnum(c, &st) })
		common := false
		for i := range c.Batches {
			for j := i + 1; j < len(c.Batches); j++ {
				if shareID(&c.Batches[i], &c.Batches[j]) {
					common = true
				}
			}
		}
		nt := common && st.allParked > 0
		cls := []string{"enum", "enum:between:" + c.Between, fmt.Sprintf("enum:batches:%d", len(c.Batches))}
		ev.Case(vlib.Canon(c), nt, cls...)
		ev.AddExtra("enumerated_release_orders_run", st.orders)
		ev.AddExtra("orders_with_all_batches_parked_in_window", st.allParked)
		ev.Sample(map[string]interface{}{"kind": "enumerated", "case": c, "orders": st.orders}, nt)
		vlib.Report(rt, ev, "enum", c, f)
	})
}

var replayFns = map[string]vlib.ReplayFn{
	"free": func(raw json.RawMessage) *vlib.Failure {
		var c FreeCase
		if f := vlib.Decode(raw, &c); f != nil {
			return f
		}
		var st freeStats
		return propFree(c, &st)
	},
	"enum": func(raw json.RawMessage) *vlib.Failure {
		var c EnumCase
		if f := vlib.Decode(raw, &c); f != nil {
			return f
		}
		var st enumStats
		return propEnum(c, &st)
	},
}

func TestReplay(t *testing.T)  { vlib.ReplayMain(t, ev, replayFns) }
func TestRegress(t *testing.T) { vlib.RegressMain(t, ev, replayFns) }
