// C01, document shapes and hostile ids: the history check of c01_test.go draws documents of one
// shape (text / keyword / numeric) over ids d0..d7.  The property quantifies over "document
// shapes" and over any id; this test draws
//   - ids that are prefixes / extensions of each other, contain NUL, 0xff, multi-byte runes,
//     spaces, are long (300 bytes) or look like internal names ("_id"),
//   - documents built from every public field constructor (text, keyword, numeric, date, geo
//     point, stored-only with arbitrary bytes from 0 to beyond one stored-field chunk, composite
//     field), with repeated field names, empty values, documents that carry nothing but their id,
// and compares, after every step, count, match-all enumeration, id lookups and the *complete
// stored field list* of every live document (names and bytes, as a multiset) with the model.
package c01

import (
	"context"
	"encoding/json"
	"fmt"
	"sort"
	"strconv"
	"strings"
	"testing"
	"time"

	"github.com/blugelabs/bluge"
	"github.com/blugelabs/bluge/index"
	"github.com/blugelabs/bluge/search"
	"pgregory.net/rapid"

	"verifharness/vlib"
)

// SField is one field of a generated document.
type SField struct {
	Kind  string  `json:"kind"` // text keyword numeric date geo stored composite
	Name  string  `json:"name"`
	S     string  `json:"s,omitempty"`
	F     float64 `json:"f,omitempty"`
	TS    int64   `json:"ts,omitempty"`
	Lon   float64 `json:"lon,omitempty"`
	Lat   float64 `json:"lat,omitempty"`
	BLen  int     `json:"blen,omitempty"`  // stored-only: length of the value
	BSeed int     `json:"bseed,omitempty"` // stored-only: content generator
	Store bool    `json:"store,omitempty"`
	Opt   int     `json:"opt,omitempty"` // bit 0 positions, bit 1 sortable, bit 2 aggregatable, bit 3 highlight
}

// SDoc is one generated document.
type SDoc struct {
	ID     string   `json:"id"`
	Ver    int      `json:"ver"`
	Fields []SField `json:"fields,omitempty"`
}

// SOp is one batch operation.
type SOp struct {
	Kind string `json:"op"`
	ID   string `json:"id"`
	Doc  *SDoc  `json:"doc,omitempty"`
}

// SStep is a batch or a reopen.
type SStep struct {
	Reopen bool  `json:"reopen,omitempty"`
	Ops    []SOp `json:"ops,omitempty"`
}

// SCase is a history over hostile ids and rich documents.
type SCase struct {
	Conf vlib.IdxConf `json:"conf"`
	// Virtual: the configuration declares a stored virtual field (Config.WithVirtualField): every
	// document then behaves as if it carried vf=vv - it is reported among the stored fields and a
	// term query on it selects exactly the live documents
	Virtual bool `json:"virtual,omitempty"`
	Steps []SStep      `json:"steps"`
}

var hostileIDs = []string{
	// (no id contains the byte 0xff: the bundled segment formats use it as the separator of document
	// values, so such an id cannot be read back through a sort key - which is how this test names
	// the documents it enumerates; valid UTF-8 never contains that byte)
	"a", "a\x00", "a\x00b", "aa", "a\xc3", "ab", "b", "\u00e9", "e\u0301", "a b", " a", "_id", "0", "00", "\xc3\xa9\xc3", "\xfe\xfe",
	"a*", "a?", "A", strings.Repeat("a", 300), strings.Repeat("a", 299) + "b", "d1", "d10", "\U0001F600", "\t", "\n",
}

func storedBytes(n, seed int) []byte {
	b := make([]byte, n)
	x := uint32(seed)*2654435761 + 12345
	for i := range b {
		x = x*1664525 + 1013904223
		switch seed % 3 {
		case 0:
			b[i] = byte(x >> 24) // incompressible
		case 1:
			b[i] = byte('a' + (x>>28)%3) // compressible
		default:
			b[i] = 0
		}
	}
	return b
}

func buildSDoc(d SDoc) *bluge.Document {
	doc := bluge.NewDocument(d.ID)
	doc.AddField(bluge.NewStoredOnlyField("ver", []byte(strconv.Itoa(d.Ver))))
	doc.AddField(bluge.NewKeywordField("v", strconv.Itoa(d.Ver)).Sortable())
	for _, f := range d.Fields {
		switch f.Kind {
		case "text":
			tf := bluge.NewTextField(f.Name, f.S)
			if f.Store {
				tf = tf.StoreValue()
			}
			if f.Opt&1 != 0 {
				tf = tf.SearchTermPositions()
			}
			if f.Opt&8 != 0 {
				tf = tf.HighlightMatches()
			}
			doc.AddField(tf)
		case "keyword":
			kf := bluge.NewKeywordField(f.Name, f.S)
			if f.Store {
				kf = kf.StoreValue()
			}
			if f.Opt&2 != 0 {
				kf = kf.Sortable()
			}
			if f.Opt&4 != 0 {
				kf = kf.Aggregatable()
			}
			doc.AddField(kf)
		case "numeric":
			nf := bluge.NewNumericField(f.Name, f.F)
			if f.Store {
				nf = nf.StoreValue()
			}
			if f.Opt&2 != 0 {
				nf = nf.Sortable()
			}
			doc.AddField(nf)
		case "date":
			df := bluge.NewDateTimeField(f.Name, time.Unix(0, f.TS).UTC())
			if f.Store {
				df = df.StoreValue()
			}
			if f.Opt&2 != 0 {
				df = df.Sortable()
			}
			doc.AddField(df)
		case "geo":
			gf := bluge.NewGeoPointField(f.Name, f.Lon, f.Lat)
			if f.Store {
				gf = gf.StoreValue()
			}
			doc.AddField(gf)
		case "stored":
			doc.AddField(bluge.NewStoredOnlyField(f.Name, storedBytes(f.BLen, f.BSeed)))
		case "composite":
			doc.AddField(bluge.NewCompositeFieldExcluding(f.Name, []string{"_id", "v"}))
		}
	}
	return doc
}

// expectedStored is the stored-field multiset of a document: what its own fields declare as
// stored, taken from the document before it is handed to the writer.
func expectedStored(d SDoc) []string {
	var out []string
	doc := buildSDoc(d)
	for _, f := range *doc {
		if f.Store() {
			out = append(out, f.Name()+"="+string(f.Value()))
		}
	}
	sort.Strings(out)
	return out
}

var shapeNames = []string{"t", "k", "n", "x", "_all2", "ver2"}
var shapeWords = []string{"alpha", "beta", "", " ", "épsilon", "alpha beta", "\xff", "a\x00b", "ß"}

func genSDoc(t *rapid.T, id string, ver int) *SDoc {
	d := &SDoc{ID: id, Ver: ver}
	nf := rapid.SampledFrom([]int{0, 0, 1, 2, 3, 5, 9}).Draw(t, "nFields")
	hasComposite := false
	for i := 0; i < nf; i++ {
		f := SField{Kind: rapid.SampledFrom([]string{"text", "text", "keyword", "keyword", "numeric", "date", "geo", "stored", "stored", "composite"}).Draw(t, "kind")}
		f.Name = rapid.SampledFrom(shapeNames).Draw(t, "name")
		f.Store = rapid.IntRange(0, 3).Draw(t, "store") != 0
		f.Opt = rapid.IntRange(0, 15).Draw(t, "opt")
		switch f.Kind {
		case "text", "keyword":
			nw := rapid.IntRange(0, 3).Draw(t, "nWords")
			var ws []string
			for j := 0; j < nw; j++ {
				ws = append(ws, rapid.SampledFrom(shapeWords).Draw(t, "word"))
			}
			f.S = strings.Join(ws, " ")
		case "numeric":
			f.F = rapid.SampledFrom([]float64{0, -1, 1, 1e300, -1e300, 0.5, 12}).Draw(t, "num")
		case "date":
			f.TS = rapid.SampledFrom([]int64{0, 1, -1, 1600000000000000000, -1600000000000000000}).Draw(t, "ts")
		case "geo":
			f.Lon = rapid.SampledFrom([]float64{0, -180, 180, 12.5, -77.03}).Draw(t, "lon")
			f.Lat = rapid.SampledFrom([]float64{0, -90, 90, 55.7, -12.04}).Draw(t, "lat")
		case "stored":
			f.BLen = rapid.SampledFrom([]int{0, 1, 2, 127, 128, 1000, 4096, 16383, 16384, 70000, 200000}).Draw(t, "blen")
			f.BSeed = rapid.IntRange(0, 8).Draw(t, "bseed")
			f.Store = true
		case "composite":
			if hasComposite {
				f.Kind, f.S = "keyword", "c"
			} else {
				hasComposite = true
				f.Name = "_comp"
			}
		}
		d.Fields = append(d.Fields, f)
	}
	return d
}

func genShapes(t *rapid.T) SCase {
	c := SCase{Conf: vlib.GenIdxConf(t, true), Virtual: rapid.Bool().Draw(t, "virtual")}
	pool := rapid.Permutation(append([]string(nil), hostileIDs...)).Draw(t, "pool")[:rapid.IntRange(3, 8).Draw(t, "nIDs")]
	ver := 0
	n := rapid.IntRange(1, 14).Draw(t, "nSteps")
	for i := 0; i < n; i++ {
		if c.Conf.Dir == "fs" && rapid.IntRange(0, 7).Draw(t, "reopen") == 0 {
			c.Steps = append(c.Steps, SStep{Reopen: true})
			continue
		}
		nOps := rapid.IntRange(0, 4).Draw(t, "nOps")
		if nOps > len(pool) {
			nOps = len(pool)
		}
		ids := rapid.Permutation(append([]string(nil), pool...)).Draw(t, "ids")[:nOps]
		var s SStep
		for _, id := range ids {
			kind := rapid.SampledFrom([]string{"insert", "update", "update", "update", "delete", "delete"}).Draw(t, "kind")
			op := SOp{Kind: kind, ID: id}
			if kind != "delete" {
				ver++
				op.Doc = genSDoc(t, id, ver)
			}
			s.Ops = append(s.Ops, op)
		}
		c.Steps = append(c.Steps, s)
	}
	return c
}

type shapesModel struct {
	live []SDoc
	ids  map[string]bool
}

func (m *shapesModel) apply(ops []SOp) {
	named := map[string]bool{}
	for _, op := range ops {
		m.ids[op.ID] = true
		if op.Kind != "insert" {
			named[op.ID] = true
		}
	}
	var keep []SDoc
	for _, d := range m.live {
		if !named[d.ID] {
			keep = append(keep, d)
		}
	}
	for _, op := range ops {
		if op.Kind != "delete" {
			keep = append(keep, *op.Doc)
		}
	}
	m.live = keep
}

// observeShapes returns, per live document key "id#ver", its sorted stored field list (nil when
// stored is false), plus the id -> versions map of the lookups.
func observeShapes(r *bluge.Reader, ids []string, stored bool) (count uint64, docs map[string][]string, byID map[string][]string, err error) {
	docs, byID = map[string][]string{}, map[string][]string{}
	if count, err = r.Count(); err != nil {
		return
	}
	run := func(q bluge.Query) (keys []string, e error) {
		it, e := r.Search(context.Background(), bluge.NewTopNSearch(100000, q).SortBy([]string{"_id", "v"}))
		if e != nil {
			return nil, e
		}
		for {
			m, e := it.Next()
			if e != nil {
				return nil, e
			}
			if m == nil {
				return keys, nil
			}
			if len(m.SortValue) != 2 {
				return nil, fmt.Errorf("%d sort values", len(m.SortValue))
			}
			id, ver := string(m.SortValue[0]), string(m.SortValue[1])
			key := fmt.Sprintf("%q#%s", id, ver)
			keys = append(keys, key)
			if stored {
				var fields []string
				var sid, sver string
				e = r.VisitStoredFields(m.Number, func(field string, value []byte) bool {
					switch field {
					case "_id":
						sid = string(value)
						fields = append(fields, field+"="+string(value))
					case "ver":
						sver = string(value)
						fields = append(fields, field+"="+string(value))
					default:
						fields = append(fields, field+"="+string(value))
					}
					return true
				})
				if e != nil {
					return nil, fmt.Errorf("stored fields of %s: %w", key, e)
				}
				if sid != id || sver != ver {
					return nil, fmt.Errorf("document %s (by sort keys) stores _id %q ver %q", key, sid, sver)
				}
				sort.Strings(fields)
				if _, dup := docs[key]; !dup {
					docs[key] = fields
				}
			}
		}
	}
	all, e := run(bluge.NewMatchAllQuery())
	if e != nil {
		return 0, nil, nil, fmt.Errorf("match-all: %w", e)
	}
	for _, k := range all {
		if _, ok := docs[k]; !ok {
			docs[k] = nil
		}
	}
	if len(all) != len(docs) {
		return 0, nil, nil, fmt.Errorf("match-all enumerates %d documents, %d distinct id#ver keys: %v", len(all), len(docs), all)
	}
	for _, id := range ids {
		keys, e := run(bluge.NewTermQuery(id).SetField("_id"))
		if e != nil {
			return 0, nil, nil, fmt.Errorf("lookup %q: %w", id, e)
		}
		sort.Strings(keys)
		if len(keys) > 0 {
			byID[id] = keys
		}
	}
	return
}

func compareShapes(site string, m *shapesModel, r *bluge.Reader, stored, virtual bool) *vlib.Failure {
	var ids []string
	for id := range m.ids {
		ids = append(ids, id)
	}
	sort.Strings(ids)
	var count uint64
	var docs map[string][]string
	var byID map[string][]string
	var err error
	if f := vlib.Watchdog("observe", vlib.CallBound, func() *vlib.Failure {
		count, docs, byID, err = observeShapes(r, ids, stored)
		return nil
	}); f != nil {
		return f
	}
	if err != nil {
		return vlib.Failf("observe-error", "%s: %v", site, err)
	}
	if int(count) != len(m.live) {
		return vlib.Failf("count-mismatch", "%s: Count() = %d, abstract index holds %d documents", site, count, len(m.live))
	}
	want := map[string]SDoc{}
	wantByID := map[string][]string{}
	for _, d := range m.live {
		k := fmt.Sprintf("%q#%d", d.ID, d.Ver)
		want[k] = d
		wantByID[d.ID] = append(wantByID[d.ID], k)
	}
	for k := range want {
		if _, ok := docs[k]; !ok {
			return vlib.Failf("document-lost", "%s: live document %s is not enumerated", site, k)
		}
	}
	for k := range docs {
		if _, ok := want[k]; !ok {
			return vlib.Failf("document-extra", "%s: enumerated document %s is not live in the abstract index", site, k)
		}
	}
	for _, id := range ids {
		w := wantByID[id]
		sort.Strings(w)
		if strings.Join(w, ",") != strings.Join(byID[id], ",") {
			return vlib.Failf("id-lookup-mismatch", "%s: lookup of id %q returns %v, abstract index has %v", site, id, byID[id], w)
		}
	}
	if virtual {
		n := 0
		it, err := r.Search(context.Background(), bluge.NewAllMatches(bluge.NewTermQuery("vv").SetField("vf")))
		for err == nil {
			var dm *search.DocumentMatch
			if dm, err = it.Next(); dm == nil {
				break
			}
			n++
		}
		if err != nil {
			return vlib.Failf("observe-error", "%s: term query on the virtual field: %v", site, err)
		}
		if n != len(m.live) {
			return vlib.Failf("virtual-field-mismatch", "%s: term query on the virtual field returns %d documents, the abstract index holds %d", site, n, len(m.live))
		}
	}
	if stored {
		for k, d := range want {
			exp := expectedStored(d)
			if virtual {
				exp = append(exp, "vf=vv")
				sort.Strings(exp)
			}
			got := docs[k]
			if strings.Join(exp, "\x01") != strings.Join(got, "\x01") {
				return vlib.Failf("stored-fields-mismatch", "%s: document %s stores %d fields %s, its definition stores %d fields %s", site, k, len(got), clipList(got), len(exp), clipList(exp))
			}
		}
	}
	return nil
}

func clipList(l []string) string {
	var out []string
	for _, s := range l {
		if len(s) > 40 {
			s = fmt.Sprintf("%q...(%d bytes)", s[:40], len(s))
		} else {
			s = fmt.Sprintf("%q", s)
		}
		out = append(out, s)
	}
	return "[" + strings.Join(out, " ") + "]"
}

type shapeStats struct {
	kinds                            map[string]bool
	bigStored, emptyDoc, prefixIDs   bool
	touchOlder, reopens, observation int
}

func propShapes(c SCase, st *shapeStats) *vlib.Failure {
	path := ""
	if c.Conf.Dir == "fs" {
		path = vlib.NewScratchDir("c01s")
	}
	var wrap func(ic index.Config, base func() index.Directory) index.Config
	if c.Virtual {
		wrap = func(ic index.Config, base func() index.Directory) index.Config {
			vf := bluge.NewKeywordField("vf", "vv").StoreValue()
			_ = vf.Analyze(0)
			return ic.WithVirtualField(vf)
		}
	}
	x, f := vlib.OpenIdx(c.Conf, path, wrap)
	if f != nil {
		return f
	}
	defer x.Destroy()
	m := &shapesModel{ids: map[string]bool{}}
	wrote := false
	for i, s := range c.Steps {
		if s.Reopen {
			st.reopens++
			if f := x.Reopen(); f != nil {
				return f
			}
		} else {
			batch := bluge.NewBatch()
			liveIDs := map[string]bool{}
			for _, d := range m.live {
				liveIDs[d.ID] = true
			}
			for _, op := range s.Ops {
				if op.Kind != "insert" && liveIDs[op.ID] {
					st.touchOlder++
				}
				switch op.Kind {
				case "insert":
					batch.Insert(buildSDoc(*op.Doc))
				case "update":
					batch.Update(bluge.Identifier(op.ID), buildSDoc(*op.Doc))
				case "delete":
					batch.Delete(bluge.Identifier(op.ID))
				}
				if op.Doc != nil {
					wrote = true
					if len(op.Doc.Fields) == 0 {
						st.emptyDoc = true
					}
					for _, fl := range op.Doc.Fields {
						st.kinds[fl.Kind] = true
						if fl.Kind == "stored" && fl.BLen >= 16384 {
							st.bigStored = true
						}
					}
				}
			}
			if f := shapesBatch(x, batch); f != nil {
				return f
			}
			m.apply(s.Ops)
		}
		r, f := x.Reader()
		if f != nil {
			return f
		}
		st.observation++
		f = x.TolerateIceV2("shapes", ev, func() *vlib.Failure {
			return compareShapes(fmt.Sprintf("after step %d", i), m, r, !x.NoStored(), c.Virtual)
		})
		_ = r.Close()
		if f != nil {
			return f
		}
	}
	if c.Conf.Dir == "fs" && wrote {
		if f := x.WaitPersisted(); f != nil {
			return f
		}
		if f := x.Close(); f != nil {
			return f
		}
		r, err := bluge.OpenReader(x.Config())
		if err != nil {
			return vlib.Failf("open-reader-error", "OpenReader after Close: %v", err)
		}
		defer r.Close()
		return compareShapes("OpenReader after Close", m, r, true, c.Virtual)
	}
	return nil
}

func shapesBatch(x *vlib.Idx, batch *index.Batch) *vlib.Failure {
	var cb chan error
	if x.Conf.Unsafe {
		cb = make(chan error, 1)
		batch.SetPersistedCallback(func(err error) { cb <- err })
	}
	var err error
	if f := vlib.Watchdog("Batch", vlib.CallBound, func() *vlib.Failure { err = x.W.Batch(batch); return nil }); f != nil {
		return f
	}
	if err != nil {
		return vlib.Failf("batch-error", "Batch returned %v", err)
	}
	if cb != nil {
		select {
		case err := <-cb:
			if err != nil {
				return vlib.Failf("persist-callback-error", "persisted callback reported %v", err)
			}
		case <-time.After(vlib.CallBound):
			return vlib.Failf("hang@persisted-callback", "persisted callback not invoked within %v", vlib.CallBound)
		}
	}
	return nil
}

func hasPrefixPair(c SCase) bool {
	ids := map[string]bool{}
	for _, s := range c.Steps {
		for _, op := range s.Ops {
			ids[op.ID] = true
		}
	}
	for a := range ids {
		for b := range ids {
			if a != b && strings.HasPrefix(b, a) {
				return true
			}
		}
	}
	return false
}

func TestC01Shapes(t *testing.T) {
	vlib.Check(t, 150, 1500, func(rt *rapid.T) {
		c := genShapes(rt)
		st := shapeStats{kinds: map[string]bool{}}
		f := vlib.Guard("shapes", func() *vlib.Failure { return propShapes(c, &st) })
		st.prefixIDs = hasPrefixPair(c)
		nt := st.touchOlder > 0 && st.prefixIDs && len(st.kinds) >= 3
		cls := []string{"shapes"}
		if st.bigStored {
			cls = append(cls, "shapes:stored>=16KiB")
		}
		if st.emptyDoc {
			cls = append(cls, "shapes:id-only-document")
		}
		if st.prefixIDs {
			cls = append(cls, "shapes:ids-prefix-of-each-other")
		}
		if c.Virtual {
			cls = append(cls, "shapes:virtual-field")
		}
		for k := range st.kinds {
			cls = append(cls, "shapes:field:"+k)
		}
		sort.Strings(cls)
		ev.Case(vlib.Canon(c), nt, cls...)
		ev.AddExtra("shape_observations", st.observation)
		vlib.Report(rt, ev, "shapes", c, f)
	})
}

func init() {
	replayFns["shapes"] = func(raw json.RawMessage) *vlib.Failure {
		var c SCase
		if f := vlib.Decode(raw, &c); f != nil {
			return f
		}
		st := shapeStats{kinds: map[string]bool{}}
		return propShapes(c, &st)
	}
}
