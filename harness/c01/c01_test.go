// C01  Batches apply atomically and exactly as the abstract index says.
package c01

import (
	"encoding/json"
	"fmt"
	"testing"

	"pgregory.net/rapid"

	"verifharness/vlib"
)

func TestMain(m *testing.M) { vlib.Main(m) }

var ev = vlib.NewEvidence("C01",
	"rapid-generated histories of batches (0-12 ops each over a pool of 8 ids, distinct ids per batch; inserts, updates, deletes, empty and delete-only batches; "+
		"reopen steps) x directory kind x segment version x safe/unsafe x merge policy; after every step a fresh reader is compared with the abstract index "+
		"(count, match-all enumeration, lookup of every id ever named, stored fields). non-trivial = the history updates or deletes a document written by an "+
		"EARLIER batch and contains at least one of: delete-only batch that removes a live document, id re-inserted after delete, batch with >= 3 ops")

// Step is one rule application.
type Step struct {
	Kind  string          `json:"kind"` // "batch" | "reopen"
	Batch *vlib.BatchSpec `json:"batch,omitempty"`
}

// Case is a whole history.
type Case struct {
	Conf  vlib.IdxConf `json:"conf"`
	Steps []Step       `json:"steps"`
}

func gen(t *rapid.T) Case {
	c := Case{Conf: vlib.GenIdxConf(t, true)}
	g := vlib.NewHistGen(8)
	n := rapid.IntRange(1, 25).Draw(t, "nSteps")
	for i := 0; i < n; i++ {
		if c.Conf.Dir == "fs" && rapid.IntRange(0, 9).Draw(t, "reopen") == 0 {
			c.Steps = append(c.Steps, Step{Kind: "reopen"})
			continue
		}
		maxOps := 3
		if rapid.IntRange(0, 3).Draw(t, "bigBatch") == 0 {
			maxOps = 12
		}
		b := g.Batch(t, maxOps)
		c.Steps = append(c.Steps, Step{Kind: "batch", Batch: &b})
	}
	return c
}

type stats struct {
	touchOlder, deleteOnlyHit, reinsert, bigBatch, reopens, maxSegs, observations int
}

func (s stats) nontrivial() bool {
	return s.touchOlder > 0 && (s.deleteOnlyHit > 0 || s.reinsert > 0 || s.bigBatch > 0)
}

func classify(c Case) stats {
	var st stats
	m := vlib.NewModel()
	deleted := map[string]bool{}
	for _, s := range c.Steps {
		if s.Kind != "batch" {
			st.reopens++
			continue
		}
		live := map[string]bool{}
		for _, d := range m.Live {
			live[d.ID] = true
		}
		delOnly := len(s.Batch.Ops) > 0
		hit := false
		for _, op := range s.Batch.Ops {
			if op.Kind != "delete" {
				delOnly = false
			}
			if (op.Kind == "update" || op.Kind == "delete") && live[op.ID] {
				st.touchOlder++
				hit = true
			}
			if op.Kind == "delete" && live[op.ID] {
				deleted[op.ID] = true
			}
			if op.Kind != "delete" && deleted[op.ID] {
				st.reinsert++
				delete(deleted, op.ID)
			}
		}
		if delOnly && hit {
			st.deleteOnlyHit++
		}
		if len(s.Batch.Ops) >= 3 {
			st.bigBatch++
		}
		m.Apply(*s.Batch)
	}
	return st
}

func prop(c Case, st *stats) *vlib.Failure {
	path := ""
	if c.Conf.Dir == "fs" {
		path = vlib.NewScratchDir("c01")
	}
	x, f := vlib.OpenIdx(c.Conf, path, nil)
	if f != nil {
		return f
	}
	defer x.Destroy()
	m := vlib.NewModel()
	check := func(site string) *vlib.Failure {
		st.observations++
		return x.CheckModel(site, m, ev)
	}
	for i, s := range c.Steps {
		switch s.Kind {
		case "batch":
			if f := x.Batch(*s.Batch); f != nil {
				return f
			}
			m.Apply(*s.Batch)
		case "reopen":
			if f := x.Reopen(); f != nil {
				return f
			}
		}
		if f := check(fmt.Sprintf("after step %d (%s)", i, s.Kind)); f != nil {
			return f
		}
		if r, f := x.Reader(); f == nil {
			if n := len(r.VerifSnapshot().Segments()); n > st.maxSegs {
				st.maxSegs = n
			}
			_ = r.Close()
		}
	}
	if c.Conf.Dir == "fs" && len(m.Docs) > 0 {
		// final: everything is durable after a clean close, a read-only open sees the same state
		// (only when a document was ever written: a directory that never saw a commit has no snapshot)
		if f := x.WaitPersisted(); f != nil {
			return f
		}
		if f := x.Close(); f != nil {
			return f
		}
		o, f := x.OpenReaderObserve(m.SortedIDs())
		if f != nil {
			return f
		}
		if f := vlib.CompareModel("OpenReader after Close", m, o); f != nil {
			return f
		}
	}
	return nil
}

func TestC01History(t *testing.T) {
	vlib.Check(t, 300, 2500, func(rt *rapid.T) {
		c := gen(rt)
		st := classify(c)
		f := vlib.Guard("history", func() *vlib.Failure { return prop(c, &st) })
		cls := []string{"dir:" + c.Conf.Dir, fmt.Sprintf("segver:%d", c.Conf.SegVer), "merge:" + c.Conf.Merge}
		if c.Conf.Unsafe {
			cls = append(cls, "unsafe")
		} else {
			cls = append(cls, "safe")
		}
		if st.reopens > 0 {
			cls = append(cls, "with-reopen")
		}
		if st.maxSegs >= 3 {
			cls = append(cls, "segments>=3")
		}
		ev.Case(vlib.Canon(c), st.nontrivial(), cls...)
		ev.AddExtra("observations", st.observations)
		if len(c.Steps) <= 6 {
			ev.Sample(c, st.nontrivial())
		}
		vlib.Report(rt, ev, "history", c, f)
	})
}

// ---------------------------------------------------------------------------------------------
// dedicated probe: a batch that names one id in two operations (outside the generated domain)

type DupCase struct {
	Conf  vlib.IdxConf     `json:"conf"`
	Setup []vlib.BatchSpec `json:"setup"`
	Dup   vlib.BatchSpec   `json:"dup"`
	Name  string           `json:"name"`
}

func propDup(c DupCase) *vlib.Failure {
	x, f := vlib.OpenIdx(c.Conf, "", nil)
	if f != nil {
		return f
	}
	defer x.Destroy()
	m := vlib.NewModel()
	for _, b := range c.Setup {
		if f := x.Batch(b); f != nil {
			return f
		}
		m.Apply(b)
	}
	if f := x.Batch(c.Dup); f != nil {
		return f
	}
	m.Apply(c.Dup)
	// the abstract index keeps both documents of an Update,Update batch; the property's last clause
	// ("an id written only through Update always has exactly one live document") is what is probed
	o, f := x.ObserveNow(m.SortedIDs())
	if f != nil {
		return f
	}
	for id, vers := range o.ByID {
		if len(vers) > 1 {
			return vlib.Failf("dup-update-in-batch", "%s: id %q written only through Update has %d live documents (versions %v)", c.Name, id, len(vers), vers)
		}
	}
	return nil
}

func dupCases() []DupCase {
	d := func(id string, ver int) *vlib.DocSpec { return &vlib.DocSpec{ID: id, Ver: ver, T: []string{"alpha"}} }
	conf := vlib.IdxConf{Dir: "mem", SegVer: 1}
	return []DupCase{
		{Conf: conf, Name: "Update,Update", Dup: vlib.BatchSpec{Ops: []vlib.Op{{Kind: "update", ID: "a", Doc: d("a", 1)}, {Kind: "update", ID: "a", Doc: d("a", 2)}}}},
		{Conf: conf, Name: "seed; Update,Update", Setup: []vlib.BatchSpec{{Ops: []vlib.Op{{Kind: "update", ID: "a", Doc: d("a", 1)}}}},
			Dup: vlib.BatchSpec{Ops: []vlib.Op{{Kind: "update", ID: "a", Doc: d("a", 2)}, {Kind: "update", ID: "a", Doc: d("a", 3)}}}},
		{Conf: conf, Name: "Delete,Update", Setup: []vlib.BatchSpec{{Ops: []vlib.Op{{Kind: "update", ID: "a", Doc: d("a", 1)}}}},
			Dup: vlib.BatchSpec{Ops: []vlib.Op{{Kind: "delete", ID: "a"}, {Kind: "update", ID: "a", Doc: d("a", 2)}}}},
		{Conf: conf, Name: "Update,Delete", Setup: []vlib.BatchSpec{{Ops: []vlib.Op{{Kind: "update", ID: "a", Doc: d("a", 1)}}}},
			Dup: vlib.BatchSpec{Ops: []vlib.Op{{Kind: "update", ID: "a", Doc: d("a", 2)}, {Kind: "delete", ID: "a"}}}},
	}
}

func TestC01DupProbe(t *testing.T) {
	if sh, _ := vlib.Shard(); sh != 0 {
		t.Skip("probe runs in shard 0")
	}
	var first *vlib.Failure
	var firstCase DupCase
	for _, c := range dupCases() {
		f := vlib.Guard("dup-probe", func() *vlib.Failure { return propDup(c) })
		ev.Class("dup-probe", 1)
		if f != nil && first == nil {
			first, firstCase = f, c
		}
	}
	vlib.KnownProbe(t, ev, "dup", "dup-update-in-batch", firstCase, first)
}

var replayFns = map[string]vlib.ReplayFn{
	"history": func(raw json.RawMessage) *vlib.Failure {
		var c Case
		if f := vlib.Decode(raw, &c); f != nil {
			return f
		}
		var st stats
		return prop(c, &st)
	},
	"dup": func(raw json.RawMessage) *vlib.Failure {
		var c DupCase
		if f := vlib.Decode(raw, &c); f != nil {
			return f
		}
		return propDup(c)
	},
}

func TestReplay(t *testing.T)  { vlib.ReplayMain(t, ev, replayFns) }
func TestRegress(t *testing.T) { vlib.RegressMain(t, ev, replayFns) }
