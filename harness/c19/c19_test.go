// C19  Merge plans are well-formed and keep the segment count bounded.
package c19

import (
	"encoding/json"
	"fmt"
	"os"
	"reflect"
	"sort"
	"testing"
	"time"

	"github.com/blugelabs/bluge/index/mergeplan"
	"pgregory.net/rapid"

	"verifharness/vlib"
)

func TestMain(m *testing.M) { vlib.Main(m) }

var ev = vlib.NewEvidence("C19",
	"plan cases: generated segment lists (0-3000 segments, sizes anchored at 0, floor, max/2±1, max, 2·max, arbitrary deleted fractions, duplicate sizes) x options around the defaults, judged by the validity predicate, determinism and permutation invariance; non-trivial = the planner returned >= 1 task for a list with >= 12 eligible segments. "+
		"history cases: simulated arrivals/deletions/plan-execute loops on sizes only; non-trivial = >= 100 arrivals and >= 1 deletion step and >= 5 executed tasks")

type Seg struct {
	Id   uint64 `json:"id"`
	Full int64  `json:"full"`
	Live int64  `json:"live"`
}

func (s *Seg) ID() uint64      { return s.Id }
func (s *Seg) FullSize() int64 { return s.Full }
func (s *Seg) LiveSize() int64 { return s.Live }

type Opts struct {
	MaxSegmentsPerTier   int     `json:"max_segments_per_tier"`
	MaxSegmentSize       int64   `json:"max_segment_size"`
	TierGrowth           float64 `json:"tier_growth"`
	SegmentsPerMergeTask int     `json:"segments_per_merge_task"`
	FloorSegmentSize     int64   `json:"floor_segment_size"`
	ReclaimDeletesWeight float64 `json:"reclaim_deletes_weight"`
}

func (o Opts) real() *mergeplan.Options {
	return &mergeplan.Options{MaxSegmentsPerTier: o.MaxSegmentsPerTier, MaxSegmentSize: o.MaxSegmentSize,
		TierGrowth: o.TierGrowth, SegmentsPerMergeTask: o.SegmentsPerMergeTask, FloorSegmentSize: o.FloorSegmentSize,
		ReclaimDeletesWeight: o.ReclaimDeletesWeight}
}

type PlanCase struct {
	Opts Opts   `json:"opts"`
	Segs []Seg  `json:"segs"`
	Perm []int  `json:"perm,omitempty"` // second presentation order of the same list
	Note string `json:"note,omitempty"`
}

func genOpts(t *rapid.T) Opts {
	if rapid.IntRange(0, 3).Draw(t, "defaultOpts") == 0 || os.Getenv("C19_DEFAULT_ONLY") != "" {
		d := mergeplan.DefaultMergePlanOptions
		return Opts{d.MaxSegmentsPerTier, d.MaxSegmentSize, d.TierGrowth, d.SegmentsPerMergeTask, d.FloorSegmentSize, d.ReclaimDeletesWeight}
	}
	per := rapid.IntRange(2, 20).Draw(t, "segmentsPerMergeTask")
	o := Opts{
		SegmentsPerMergeTask: per,
		// "Should be >= SegmentsPerMergeTask, else you'll have too much merging" (doc comment)
		MaxSegmentsPerTier:   rapid.IntRange(per, per+20).Draw(t, "maxSegmentsPerTier"),
		MaxSegmentSize:       rapid.SampledFrom([]int64{20, 100, 1000, 50000, 5000000, 5000000, 1 << 30}).Draw(t, "maxSegmentSize"),
		TierGrowth:           rapid.SampledFrom([]float64{1.5, 2, 3, 10, 10, 20}).Draw(t, "tierGrowth"),
		ReclaimDeletesWeight: rapid.SampledFrom([]float64{0, 0.5, 2, 2, 3}).Draw(t, "reclaim"),
	}
	o.FloorSegmentSize = rapid.SampledFrom([]int64{1, 2, o.MaxSegmentSize / 2500, o.MaxSegmentSize / 100, o.MaxSegmentSize / 10}).Draw(t, "floor")
	if o.FloorSegmentSize < 1 {
		o.FloorSegmentSize = 1
	}
	return o
}

func genSize(t *rapid.T, o Opts, label string) int64 {
	m := o.MaxSegmentSize
	anchors := []int64{0, 1, o.FloorSegmentSize - 1, o.FloorSegmentSize, o.FloorSegmentSize + 1, m/2 - 1, m / 2, m/2 + 1, m - 1, m, m + 1, 2 * m,
		m / 4, m / 10, m / 20, m / 3}
	switch rapid.IntRange(0, 9).Draw(t, label+"Kind") {
	case 0, 1, 2:
		v := rapid.SampledFrom(anchors).Draw(t, label+"Anchor")
		if v < 0 {
			v = 0
		}
		return v
	case 3, 4, 5, 6:
		// small, around the floor (the common case of fresh batches)
		return rapid.Int64Range(0, 4*o.FloorSegmentSize).Draw(t, label+"Small")
	case 7, 8:
		return rapid.Int64Range(0, m/2).Draw(t, label+"Mid")
	default:
		return rapid.Int64Range(0, 2*m).Draw(t, label+"Any")
	}
}

func genSegs(t *rapid.T, o Opts) []Seg {
	var n int
	switch rapid.IntRange(0, 19).Draw(t, "countKind") {
	case 0, 1:
		n = rapid.IntRange(0, 3).Draw(t, "n")
	case 2:
		n = rapid.IntRange(300, 3000).Draw(t, "n")
	default:
		n = rapid.IntRange(2, 120).Draw(t, "n")
	}
	dupSize := int64(-1)
	if rapid.Bool().Draw(t, "manyEqual") {
		dupSize = genSize(t, o, "dup")
	}
	segs := make([]Seg, 0, n)
	idBase := rapid.Uint64Range(0, 1<<40).Draw(t, "idBase")
	idStep := rapid.Uint64Range(1, 3).Draw(t, "idStep")
	bulk := n > 200
	var bulkFull []int64
	if bulk {
		// draw a palette once; large lists pick from it (keeps generation cheap)
		for i := 0; i < 12; i++ {
			bulkFull = append(bulkFull, genSize(t, o, "pal"))
		}
	}
	for i := 0; i < n; i++ {
		var full int64
		switch {
		case bulk:
			full = bulkFull[rapid.IntRange(0, len(bulkFull)-1).Draw(t, "palIdx")]
		case dupSize >= 0 && rapid.IntRange(0, 2).Draw(t, "useDup") > 0:
			full = dupSize
		default:
			full = genSize(t, o, "full")
		}
		live := full
		switch rapid.IntRange(0, 5).Draw(t, "delKind") {
		case 0:
			live = 0 // fully deleted
		case 1:
			live = rapid.Int64Range(0, full).Draw(t, "live")
		case 2:
			if full > 0 {
				live = full - 1
			}
		}
		segs = append(segs, Seg{Id: idBase + uint64(i)*idStep, Full: full, Live: live})
	}
	// shuffle the presentation order
	perm := rapid.Permutation(idx(n)).Draw(t, "order")
	out := make([]Seg, n)
	for i, p := range perm {
		out[i] = segs[p]
	}
	return out
}

func idx(n int) []int {
	r := make([]int, n)
	for i := range r {
		r[i] = i
	}
	return r
}

func toIface(segs []Seg) []mergeplan.Segment {
	r := make([]mergeplan.Segment, len(segs))
	for i := range segs {
		r[i] = &segs[i]
	}
	return r
}

func planIDs(p *mergeplan.MergePlan) [][]uint64 {
	if p == nil {
		return nil
	}
	var r [][]uint64
	for _, t := range p.Tasks {
		var ids []uint64
		for _, s := range t.Segments {
			ids = append(ids, s.ID())
		}
		r = append(r, ids)
	}
	return r
}

// validate applies the validity predicate of the property to one plan.
func validate(segs []Seg, o Opts, p *mergeplan.MergePlan) *vlib.Failure {
	if p == nil {
		return nil
	}
	in := map[uint64]*Seg{}
	for i := range segs {
		in[segs[i].Id] = &segs[i]
	}
	seen := map[uint64]int{}
	for ti, task := range p.Tasks {
		var live int64
		if len(task.Segments) == 0 {
			return vlib.Failf("empty-task", "task %d has no segments", ti)
		}
		for _, s := range task.Segments {
			orig, ok := in[s.ID()]
			if !ok {
				return vlib.Failf("foreign-segment", "task %d contains segment %d that is not in the input", ti, s.ID())
			}
			if s.LiveSize() != orig.Live || s.FullSize() != orig.Full {
				return vlib.Failf("foreign-segment", "task %d segment %d differs from the input segment", ti, s.ID())
			}
			if prev, dup := seen[s.ID()]; dup {
				return vlib.Failf("segment-in-two-tasks", "segment %d is in task %d and task %d", s.ID(), prev, ti)
			}
			seen[s.ID()] = ti
			if s.LiveSize() >= o.MaxSegmentSize/2 && s.LiveSize() > 0 {
				return vlib.Failf("touches-large-segment", "task %d touches segment %d with live size %d >= max/2 = %d", ti, s.ID(), s.LiveSize(), o.MaxSegmentSize/2)
			}
			live += s.LiveSize()
		}
		if live >= o.MaxSegmentSize && live > 0 {
			return vlib.Failf("task-too-large", "task %d combines %d live >= MaxSegmentSize %d", ti, live, o.MaxSegmentSize)
		}
	}
	return nil
}

func eligibleCount(segs []Seg, o Opts) (n int, total, min int64) {
	min = int64(1) << 62
	for _, s := range segs {
		if s.Live < min {
			min = s.Live
		}
		if s.Live < o.MaxSegmentSize/2 {
			n++
			total += s.Live
		}
	}
	return
}

func propPlan(c PlanCase) *vlib.Failure {
	o := c.Opts
	var p1, p2, p3 *mergeplan.MergePlan
	var err error
	if f := vlib.Watchdog("mergeplan.Plan", 60*time.Second, func() *vlib.Failure {
		segs := append([]Seg(nil), c.Segs...)
		p1, err = mergeplan.Plan(toIface(segs), o.real())
		if err != nil {
			return vlib.Failf("plan-error", "Plan returned %v for valid options", err)
		}
		if f := validate(segs, o, p1); f != nil {
			return f
		}
		// the input must not be disturbed
		if len(segs) > 0 && !reflect.DeepEqual(segs, c.Segs) {
			return vlib.Failf("input-mutated", "Plan changed its input list")
		}
		segs2 := append([]Seg(nil), c.Segs...)
		p2, _ = mergeplan.Plan(toIface(segs2), o.real())
		if len(c.Perm) == len(c.Segs) {
			segs3 := make([]Seg, len(c.Segs))
			for i, pi := range c.Perm {
				segs3[i] = c.Segs[pi]
			}
			p3, _ = mergeplan.Plan(toIface(segs3), o.real())
		}
		return nil
	}); f != nil {
		return f
	}
	a, b := planIDs(p1), planIDs(p2)
	if !reflect.DeepEqual(a, b) {
		return vlib.Failf("nondeterministic", "same input, two plans: %v vs %v", a, b)
	}
	if len(c.Perm) == len(c.Segs) {
		if d := planIDs(p3); !reflect.DeepEqual(a, d) {
			return vlib.Failf("order-dependent", "same list presented in another order gives another plan: %v vs %v", a, d)
		}
	}
	return nil
}

func TestC19Plan(t *testing.T) {
	vlib.Check(t, 1500, 8000, func(rt *rapid.T) {
		o := genOpts(rt)
		c := PlanCase{Opts: o, Segs: genSegs(rt, o)}
		c.Perm = rapid.Permutation(idx(len(c.Segs))).Draw(rt, "perm")
		f := propPlan(c)
		ne, _, _ := eligibleCount(c.Segs, o)
		p, _ := mergeplan.Plan(toIface(append([]Seg(nil), c.Segs...)), o.real())
		ntasks := 0
		if p != nil {
			ntasks = len(p.Tasks)
		}
		nt := ne >= 12 && ntasks >= 1
		cls := []string{"plan"}
		if ntasks > 0 {
			cls = append(cls, "plan:with-tasks")
		}
		if len(c.Segs) > 200 {
			cls = append(cls, "plan:large-list")
		}
		ev.Case(vlib.Canon(c), nt, cls...)
		if len(c.Segs) <= 16 {
			ev.Sample(map[string]interface{}{"kind": "plan", "case": c, "tasks": planIDs(p)}, nt)
		}
		vlib.Report(rt, ev, "plan", c, f)
	})
}

// ---------------------------------------------------------------------------------------------
// histories: arrivals, deletions, plan/execute until no task

type HistStep struct {
	Kind  string  `json:"kind"`            // "arrive" | "delete"
	Sizes []int64 `json:"sizes,omitempty"` // arrive: sizes of new segments
	Pick  []int   `json:"pick,omitempty"`  // delete: (index modulo count, per-mille deleted) pairs
}

type HistCase struct {
	Opts  Opts       `json:"opts"`
	Steps []HistStep `json:"steps"`
}

type histStats struct{ arrivals, deletes, tasks, fixpoints, maxSegs int }

func propHistory(c HistCase, st *histStats) *vlib.Failure {
	o := c.Opts
	var segs []Seg
	nextID := uint64(1)
	settle := func(step int) *vlib.Failure {
		// plan/execute until no task; bound proportional to the segment count
		bound := 4*len(segs) + 50
		for round := 0; ; round++ {
			if round > bound {
				return vlib.Failf("no-fixpoint", "step %d: plan/execute loop still produces tasks after %d rounds (%d segments)", step, round, len(segs))
			}
			cur := append([]Seg(nil), segs...)
			var p *mergeplan.MergePlan
			if f := vlib.Watchdog("mergeplan.Plan", 60*time.Second, func() *vlib.Failure {
				var err error
				p, err = mergeplan.Plan(toIface(cur), o.real())
				if err != nil {
					return vlib.Failf("plan-error", "Plan returned %v", err)
				}
				return validate(cur, o, p)
			}); f != nil {
				return f
			}
			if p == nil || len(p.Tasks) == 0 {
				break
			}
			gone := map[uint64]bool{}
			for _, task := range p.Tasks {
				var live int64
				for _, s := range task.Segments {
					gone[s.ID()] = true
					live += s.LiveSize()
				}
				st.tasks++
				if live > 0 {
					segs = append(segs, Seg{Id: nextID, Full: live, Live: live})
					nextID++
				}
			}
			kept := segs[:0]
			for _, s := range segs {
				if !gone[s.Id] {
					kept = append(kept, s)
				}
			}
			segs = kept
		}
		st.fixpoints++
		// at a fixpoint the mergeable segments are within the planner's logarithmic budget
		ne, total, min := eligibleCount(segs, o)
		if len(segs) > 1 {
			budget := mergeplan.CalcBudget(total, o.real().RaiseToFloorSegmentSize(min), o.real())
			if ne > budget && ne > 0 {
				// the planner stops early only when no roster can be formed
				return vlib.Failf("over-budget-at-fixpoint", "step %d: %d mergeable segments at the fixpoint, budget %d (total %d, first tier %d)", step, ne, budget, total, o.real().RaiseToFloorSegmentSize(min))
			}
		}
		if len(segs) > st.maxSegs {
			st.maxSegs = len(segs)
		}
		return nil
	}
	for i, s := range c.Steps {
		switch s.Kind {
		case "arrive":
			for _, sz := range s.Sizes {
				segs = append(segs, Seg{Id: nextID, Full: sz, Live: sz})
				nextID++
				st.arrivals++
			}
		case "delete":
			for j := 0; j+1 < len(s.Pick) && len(segs) > 0; j += 2 {
				k := s.Pick[j] % len(segs)
				segs[k].Live = segs[k].Live * int64(1000-s.Pick[j+1]) / 1000
				st.deletes++
			}
		}
		if f := settle(i); f != nil {
			return f
		}
	}
	return nil
}

func genHistory(t *rapid.T) HistCase {
	o := genOpts(t)
	// Convergence is judged for floors up to 50x the default (see DESIGN.md C19: with floors of
	// 10^7 and more next to byte-sized segments the scorer prefers single-segment rosters and
	// plan/execute becomes stationary; that region is far from "around the defaults").
	if o.FloorSegmentSize > 100000 {
		o.FloorSegmentSize = 100000
	}
	// ... except for the one large-floor configuration the repository itself documents: the
	// "single segment" policy of TestCalcBudgetForSingleSegmentMergePolicy (one segment per tier,
	// floor = maximum size), under which every small segment counts as floor-sized, the budget is
	// one segment and the loop must merge everything into one (since seeded change C19-6)
	single := rapid.IntRange(0, 9).Draw(t, "singleSegmentPolicy") == 0
	if single {
		o = Opts{MaxSegmentsPerTier: 1, MaxSegmentSize: 1 << 30, TierGrowth: 10, SegmentsPerMergeTask: rapid.SampledFrom([]int{2, 10}).Draw(t, "singlePer"),
			FloorSegmentSize: rapid.SampledFrom([]int64{1 << 30, 1 << 29, 1<<29 + 1<<28}).Draw(t, "singleFloor"), ReclaimDeletesWeight: 2}
	}
	var c HistCase
	c.Opts = o
	long := rapid.IntRange(0, 19).Draw(t, "long") == 0
	maxSteps := 150
	if long {
		maxSteps = 800
	}
	n := rapid.IntRange(5, maxSteps).Draw(t, "steps")
	small := rapid.SampledFrom([]int64{1, o.FloorSegmentSize, 2 * o.FloorSegmentSize, o.MaxSegmentSize / 50}).Draw(t, "typical")
	if small < 1 {
		small = 1
	}
	if single {
		small = rapid.SampledFrom([]int64{1, 100, 1000}).Draw(t, "singleTypical")
	}
	for i := 0; i < n; i++ {
		if rapid.IntRange(0, 5).Draw(t, "stepKind") == 0 {
			k := rapid.IntRange(1, 4).Draw(t, "ndel")
			var pick []int
			for j := 0; j < k; j++ {
				pick = append(pick, rapid.IntRange(0, 1<<20).Draw(t, "which"), rapid.SampledFrom([]int{1000, 1000, 500, 100, 999, 1}).Draw(t, "permille"))
			}
			c.Steps = append(c.Steps, HistStep{Kind: "delete", Pick: pick})
			continue
		}
		k := rapid.IntRange(1, 3).Draw(t, "narrive")
		var sizes []int64
		for j := 0; j < k; j++ {
			var sz int64
			switch rapid.IntRange(0, 7).Draw(t, "sizeKind") {
			case 0:
				if single {
					sz = rapid.Int64Range(0, 5000).Draw(t, "arrSingle")
				} else {
					sz = genSize(t, o, "arr")
				}
			case 1:
				sz = rapid.Int64Range(0, 3*small).Draw(t, "arrVar")
			default:
				sz = small
			}
			sizes = append(sizes, sz)
		}
		c.Steps = append(c.Steps, HistStep{Kind: "arrive", Sizes: sizes})
	}
	return c
}

func TestC19History(t *testing.T) {
	vlib.Check(t, 400, 2500, func(rt *rapid.T) {
		c := genHistory(rt)
		var st histStats
		f := propHistory(c, &st)
		nt := st.arrivals >= 100 && st.deletes >= 1 && st.tasks >= 5
		hcls := []string{"history"}
		if c.Opts.FloorSegmentSize >= c.Opts.MaxSegmentSize/2 {
			hcls = append(hcls, "history:single-segment-policy")
		}
		ev.Case(vlib.Canon(c), nt, hcls...)
		ev.AddExtra("history_fixpoints_checked", st.fixpoints)
		ev.AddExtra("history_tasks_executed", st.tasks)
		if len(c.Steps) <= 12 {
			ev.Sample(map[string]interface{}{"kind": "history", "case": c, "tasks_executed": st.tasks, "max_segments": st.maxSegs}, nt)
		} else if nt {
			ev.Sample(map[string]interface{}{"kind": "history-summary", "opts": c.Opts, "steps": len(c.Steps), "arrivals": st.arrivals,
				"deletes": st.deletes, "tasks_executed": st.tasks, "max_segments_at_fixpoint": st.maxSegs, "first_steps": c.Steps[:6]}, nt)
		}
		vlib.Report(rt, ev, "history", c, f)
	})
}

// ---------------------------------------------------------------------------------------------
// budget staircase: the number of tiers climbed must stay logarithmic in the total size

type BudgetCase struct {
	Total      int64   `json:"total"`
	FirstTier  int64   `json:"first_tier"`
	PerTier    int     `json:"max_segments_per_tier"`
	TierGrowth float64 `json:"tier_growth"`
}

func propBudget(c BudgetCase) *vlib.Failure {
	o := &mergeplan.Options{MaxSegmentsPerTier: c.PerTier, TierGrowth: c.TierGrowth}
	var got int
	if f := vlib.Watchdog("mergeplan.CalcBudget", 20*time.Second, func() *vlib.Failure {
		got = mergeplan.CalcBudget(c.Total, c.FirstTier, o)
		return nil
	}); f != nil {
		f.Msg = fmt.Sprintf("CalcBudget(total=%d, firstTier=%d, perTier=%d, growth=%v): %s", c.Total, c.FirstTier, c.PerTier, c.TierGrowth, f.Msg)
		return f
	}
	// own staircase: tiers grow geometrically (at least by one unit), so for growth > 1 the
	// budget is bounded by perTier x (number of tiers needed to cover the total)
	if c.TierGrowth > 1 && c.Total > 0 {
		tier, covered, tiers := float64(c.FirstTier), float64(0), 0
		if tier < 1 {
			tier = 1
		}
		for covered < float64(c.Total) && tiers < 1<<20 {
			covered += float64(c.PerTier) * tier
			next := float64(int64(tier * c.TierGrowth))
			if next <= tier {
				next = tier + 1
			}
			tier = next
			tiers++
		}
		if got > c.PerTier*tiers || got < 1 {
			return vlib.Failf("budget-not-logarithmic", "CalcBudget(total=%d, firstTier=%d, perTier=%d, growth=%v) = %d, a geometric staircase needs at most %d tiers x %d", c.Total, c.FirstTier, c.PerTier, c.TierGrowth, got, tiers, c.PerTier)
		}
	}
	return nil
}

func TestC19Budget(t *testing.T) {
	vlib.Check(t, 2000, 20000, func(rt *rapid.T) {
		c := BudgetCase{
			Total:      rapid.SampledFrom([]int64{0, 1, 2, 1000, 1 << 20, 1 << 31, 1 << 40, 1 << 50}).Draw(rt, "total"),
			FirstTier:  rapid.SampledFrom([]int64{0, 1, 1, 2, 3, 7, 2000, 1 << 20}).Draw(rt, "firstTier"),
			PerTier:    rapid.IntRange(1, 30).Draw(rt, "perTier"),
			TierGrowth: rapid.SampledFrom([]float64{1.1, 1.25, 1.5, 1.5, 1.99, 2, 3, 10, 20}).Draw(rt, "growth"),
		}
		if rapid.Bool().Draw(rt, "anyTotal") {
			c.Total = rapid.Int64Range(0, 1<<50).Draw(rt, "totalAny")
		}
		f := propBudget(c)
		nt := c.FirstTier <= 3 && c.TierGrowth < 2 && c.Total >= 1<<20
		ev.Case(vlib.Canon(c), nt, "budget")
		ev.Sample(map[string]interface{}{"kind": "budget", "case": c}, nt)
		vlib.Report(rt, ev, "budget", c, f)
	})
}

var replayFns = map[string]vlib.ReplayFn{
	"budget": func(raw json.RawMessage) *vlib.Failure {
		var c BudgetCase
		if f := vlib.Decode(raw, &c); f != nil {
			return f
		}
		return propBudget(c)
	},
	"plan": func(raw json.RawMessage) *vlib.Failure {
		var c PlanCase
		if f := vlib.Decode(raw, &c); f != nil {
			return f
		}
		return propPlan(c)
	},
	"history": func(raw json.RawMessage) *vlib.Failure {
		var c HistCase
		if f := vlib.Decode(raw, &c); f != nil {
			return f
		}
		var st histStats
		return propHistory(c, &st)
	},
}

func TestReplay(t *testing.T)  { vlib.ReplayMain(t, ev, replayFns) }
func TestRegress(t *testing.T) { vlib.RegressMain(t, ev, replayFns) }

var _ = fmt.Sprint
var _ = sort.Ints
