// C20  Highlighted fragments are faithful to the stored text.
package c20

import (
	"context"
	"encoding/json"
	"fmt"
	"strings"
	"testing"
	"time"
	"unicode/utf8"

	"github.com/blugelabs/bluge"
	"github.com/blugelabs/bluge/analysis"
	"github.com/blugelabs/bluge/analysis/analyzer"
	"github.com/blugelabs/bluge/analysis/lang/cjk"
	"github.com/blugelabs/bluge/analysis/lang/en"
	"github.com/blugelabs/bluge/analysis/lang/fr"
	"github.com/blugelabs/bluge/analysis/lang/ru"
	"github.com/blugelabs/bluge/analysis/token"
	"github.com/blugelabs/bluge/analysis/tokenizer"
	"pgregory.net/rapid"

	"verifharness/vlib"
)

func TestMain(m *testing.M) { vlib.Main(m) }

var ev = vlib.NewEvidence("C20",
	"search cases: 1-3 documents of generated valid UTF-8 text (multi-script words incl. 2/3/4-byte runes, combining marks, U+FFFD, HTML special characters; 0 to 6x the fragment size long) in an in-memory index, a match/term/phrase/fuzzy/prefix/boolean/match-all query built from the text's own tokens (first and last token favoured), "+
		"bundled analyzers standard/simple/web/en/fr/ru/cjk/keyword, IncludeLocations; every hit is highlighted with 1-3 requests (fragment size 1/2/5/20/200, 0-5 fragments, HTML default/custom tags, ANSI) and every returned fragment is parsed back and placed in the stored text. "+
		"raw cases: hand-made location maps (0 <= Start <= End <= len+20, overlapping, unsorted, mid-rune) over arbitrary bytes for the no-panic part; the faithfulness oracle is applied to those that look like search output. "+
		"non-trivial = judged evaluation with text longer (runes) than the fragment size, >= 2 matched occurrences and a multi-byte rune inside a returned fragment")

// ---------------------------------------------------------------------------------------------
// analyzers

// "shingle", "ngram" and "edge" produce NESTED term locations (a word and the shingles around it,
// the n-grams inside a word): the longer location starts before or with the shorter one and ends
// after it (since seeded change C20-6; the bundled language analyzers only produce chains of
// overlapping CJK bigrams)
var analyzerNames = []string{"standard", "standard", "standard", "simple", "web", "en", "fr", "ru", "cjk", "cjk", "keyword", "shingle", "shingle", "ngram", "edge"}

func analyzerOf(name string) *analysis.Analyzer {
	switch name {
	case "simple":
		return analyzer.NewSimpleAnalyzer()
	case "web":
		return analyzer.NewWebAnalyzer()
	case "en":
		return en.NewAnalyzer()
	case "fr":
		return fr.Analyzer()
	case "ru":
		return ru.Analyzer()
	case "cjk":
		return cjk.Analyzer()
	case "keyword":
		return analyzer.NewKeywordAnalyzer()
	case "shingle":
		return &analysis.Analyzer{Tokenizer: tokenizer.NewUnicodeTokenizer(),
			TokenFilters: []analysis.TokenFilter{token.NewLowerCaseFilter(), token.NewShingleFilter(2, 3, true, " ", "_")}}
	case "ngram":
		return &analysis.Analyzer{Tokenizer: tokenizer.NewUnicodeTokenizer(),
			TokenFilters: []analysis.TokenFilter{token.NewLowerCaseFilter(), token.NewNgramFilter(1, 3)}}
	case "edge":
		return &analysis.Analyzer{Tokenizer: tokenizer.NewUnicodeTokenizer(),
			TokenFilters: []analysis.TokenFilter{token.NewLowerCaseFilter(), token.NewEdgeNgramFilter(token.FRONT, 1, 4)}}
	}
	return analyzer.NewStandardAnalyzer()
}

// ---------------------------------------------------------------------------------------------
// texts

var vocab = [][]string{
	{"alpha", "beta", "gamma", "delta", "a", "I", "x", "run", "running", "runs", "quick", "Quick", "QUICK", "fox", "the", "of", "to", "it's", "don't", "l'avion", "foo_bar", "x-ray"},
	{"über", "naïve", "café", "coöperate", "étude", "ﬁne", "İstanbul", "straße", "Ångström", "ñu"},
	{"привет", "мир", "миры", "тест", "ё", "бегущий"},
	{"λόγος", "αβγ", "ς", "Ωμέγα"},
	{"東京", "京都", "東京都", "大阪", "北海道", "你好", "世界", "日本語", "語", "東京都大阪府京都市"},
	{"こんにちは", "カタカナ", "ｶﾀｶﾅ", "ラーメン", "한국어", "서울"},
	{"مرحبا", "سلام", "שלום", "สวัสดี", "नमस्ते"},
	{"😀", "𝒳𝒴", "👍🏽", "a😀b"},
	{"\uFFFD", "x\uFFFDy", "\uFFFD\uFFFD", "z\u200bz", "n\u00a0n"},
	{"10", "3.14", "2024", "١٢٣", "v1.2"},
	{"&", "<", ">", "a<b", "\"q\"", "'s", "&amp;", "<mark>", "</mark>", "R&D", "&lt;", "&#39;"},
	{"user@example.com", "http://x.io/a?b=c&d", "#tag", "@me"},
}

var separators = []string{" ", " ", " ", " ", "  ", ", ", ". ", "\n", "-", "/", "　", "", "", "; ", " — ", "\t", "(", ") "}

func genWord(t *rapid.T, pool []string, label string) string {
	if len(pool) > 0 && rapid.IntRange(0, 9).Draw(t, label+"FromPool") < 8 {
		return rapid.SampledFrom(pool).Draw(t, label+"Pool")
	}
	g := rapid.SampledFrom(vocab).Draw(t, label+"Group")
	return rapid.SampledFrom(g).Draw(t, label)
}

// genText makes a text of about targetRunes runes from a small pool of words (so that words repeat).
func genText(t *rapid.T, pool []string, targetRunes int, label string) string {
	var sb strings.Builder
	n := 0
	for n < targetRunes {
		w := genWord(t, pool, label+"Word")
		s := rapid.SampledFrom(separators).Draw(t, label+"Sep")
		if n == 0 && rapid.IntRange(0, 3).Draw(t, label+"LeadSep") == 0 {
			sb.WriteString(s)
			n += utf8.RuneCountInString(s)
		}
		sb.WriteString(w)
		n += utf8.RuneCountInString(w)
		if n < targetRunes || rapid.IntRange(0, 3).Draw(t, label+"TrailSep") == 0 {
			sb.WriteString(s)
			n += utf8.RuneCountInString(s)
		}
	}
	return sb.String()
}

// (3, 8, 12, 14, 50 since seeded change C20-6: sizes between the length of a word and of the shingle around it)
var sizes = []int{1, 2, 5, 20, 200, 3, 8, 12, 14, 50}

func genHL(t *rapid.T, label string) HL {
	return HL{
		Size: rapid.SampledFrom(sizes).Draw(t, label+"Size"),
		Num:  rapid.SampledFrom([]int{0, 1, 1, 1, 2, 3, 3, 4, 5}).Draw(t, label+"Num"),
		Fmt:  rapid.SampledFrom(formats).Draw(t, label+"Fmt"),
	}
}

func genTargetRunes(t *rapid.T, size int, label string) int {
	// rapid favours small draws: the common kinds come first
	switch k := rapid.IntRange(0, 39).Draw(t, label+"LenKind"); {
	case k <= 14 && size < 20:
		// small fragment sizes: also texts with room for many matches
		return rapid.IntRange(2*size, 80).Draw(t, label+"VeryLong")
	case k <= 22:
		return rapid.IntRange(2*size, 6*size).Draw(t, label+"Long")
	case k <= 31:
		return rapid.IntRange(size, 2*size+2).Draw(t, label+"Around")
	case k == 35:
		return 0
	default:
		return rapid.IntRange(1, size).Draw(t, label+"Short")
	}
}

// ---------------------------------------------------------------------------------------------
// search cases

type Query struct {
	Kind      string   `json:"kind"` // match | term | phrase | fuzzy | prefix | should | all
	Text      string   `json:"text,omitempty"`
	Terms     []string `json:"terms,omitempty"`
	Fuzziness int      `json:"fuzziness,omitempty"`
	Slop      int      `json:"slop,omitempty"`
}

type Case struct {
	Analyzer string   `json:"analyzer"`
	Docs     []string `json:"docs"`
	Query    Query    `json:"query"`
	HLs      []HL     `json:"hls"`
}

func (q Query) build(a *analysis.Analyzer) bluge.Query {
	switch q.Kind {
	case "match":
		return bluge.NewMatchQuery(q.Text).SetField("t").SetAnalyzer(a)
	case "term":
		return bluge.NewTermQuery(q.Text).SetField("t")
	case "phrase":
		return bluge.NewMatchPhraseQuery(q.Text).SetField("t").SetAnalyzer(a).SetSlop(q.Slop)
	case "fuzzy":
		return bluge.NewFuzzyQuery(q.Text).SetField("t").SetFuzziness(q.Fuzziness)
	case "prefix":
		return bluge.NewPrefixQuery(q.Text).SetField("t")
	case "should":
		b := bluge.NewBooleanQuery()
		for _, term := range q.Terms {
			b.AddShould(bluge.NewTermQuery(term).SetField("t"))
		}
		return b
	}
	return bluge.NewMatchAllQuery()
}

func pickToken(t *rapid.T, n int, label string) int {
	switch rapid.IntRange(0, 5).Draw(t, label+"Where") {
	case 0:
		return 0
	case 1:
		return n - 1
	}
	return rapid.IntRange(0, n-1).Draw(t, label)
}

func mutateTerm(t *rapid.T, term string) string {
	r := []rune(term)
	if len(r) == 0 {
		return term
	}
	i := rapid.IntRange(0, len(r)-1).Draw(t, "mutAt")
	switch rapid.IntRange(0, 3).Draw(t, "mutKind") {
	case 0:
		if len(r) > 1 {
			return string(append(append([]rune{}, r[:i]...), r[i+1:]...))
		}
	case 1:
		r[i] = rapid.SampledFrom([]rune{'a', 'z', 'é', '京', 'я'}).Draw(t, "mutRune")
		return string(r)
	case 2:
		return string(append(append(append([]rune{}, r[:i]...), 'q'), r[i:]...))
	}
	return term
}

func genQuery(t *rapid.T, a *analysis.Analyzer, docs []string, nestedAnalyzer bool) Query {
	// the query is built from the tokens of the first document that has any
	var ok analysis.TokenStream
	var text string
	for _, d := range docs {
		var toks analysis.TokenStream
		_ = vlib.Guard("analyze", func() *vlib.Failure { toks = a.Analyze([]byte(d)); return nil })
		// only tokens whose offsets are usable as a surface form
		for _, tk := range toks {
			if tk != nil && tk.Start >= 0 && tk.Start < tk.End && tk.End <= len(d) && len(tk.Term) > 0 {
				ok = append(ok, tk)
			}
		}
		if len(ok) > 0 {
			text = d
			break
		}
	}
	if len(ok) == 0 || rapid.IntRange(0, 29).Draw(t, "matchAll") == 23 {
		return Query{Kind: "all"}
	}
	n := len(ok)
	qk := rapid.IntRange(0, 13).Draw(t, "queryKind")
	if nestedAnalyzer && qk < 8 && qk%2 == 0 {
		qk = 13 // analyzers with nested locations: half of the queries are disjunctions of neighbouring tokens
	}
	switch qk {
	case 0, 1, 2, 3:
		// surface text from token i to token j (for the CJK analyzer: a chain of bigrams)
		i := pickToken(t, n, "from")
		j := i + rapid.IntRange(0, 4).Draw(t, "span")
		if j >= n {
			j = n - 1
		}
		s := text[ok[i].Start:ok[j].End]
		if rapid.IntRange(0, 2).Draw(t, "second") == 0 {
			k := pickToken(t, n, "also")
			s += " " + text[ok[k].Start:ok[k].End]
		}
		return Query{Kind: "match", Text: s}
	case 4, 5:
		return Query{Kind: "term", Text: string(ok[pickToken(t, n, "term")].Term)}
	case 6, 7:
		i := pickToken(t, n, "from")
		j := i + rapid.IntRange(1, 2).Draw(t, "span")
		if j >= n {
			j = n - 1
		}
		return Query{Kind: "phrase", Text: text[ok[i].Start:ok[j].End], Slop: rapid.SampledFrom([]int{0, 0, 1, 3}).Draw(t, "slop")}
	case 8, 9:
		term := string(ok[pickToken(t, n, "term")].Term)
		if rapid.IntRange(0, 3).Draw(t, "mutate") > 0 {
			term = mutateTerm(t, term)
		}
		return Query{Kind: "fuzzy", Text: term, Fuzziness: rapid.IntRange(1, 2).Draw(t, "fuzziness")}
	case 10, 11:
		r := []rune(string(ok[pickToken(t, n, "term")].Term))
		k := rapid.IntRange(1, 3).Draw(t, "prefixLen")
		if k > len(r) {
			k = len(r)
		}
		return Query{Kind: "prefix", Text: string(r[:k])}
	default:
		var terms []string
		k := rapid.IntRange(2, 4).Draw(t, "nterms")
		if rapid.Bool().Draw(t, "adjacentTerms") {
			// neighbours in the token stream: with shingles / n-grams these are nested or share a start
			for i, j := 0, pickToken(t, n, "firstTerm"); i < k && j < n; i, j = i+1, j+1 {
				terms = append(terms, string(ok[j].Term))
			}
			return Query{Kind: "should", Terms: terms}
		}
		for i := 0; i < k; i++ {
			terms = append(terms, string(ok[pickToken(t, n, "term")].Term))
		}
		return Query{Kind: "should", Terms: terms}
	}
}

func genCase(t *rapid.T) Case {
	var c Case
	c.Analyzer = rapid.SampledFrom(analyzerNames).Draw(t, "analyzer")
	a := analyzerOf(c.Analyzer)
	nh := rapid.IntRange(1, 3).Draw(t, "nHL")
	nested := c.Analyzer == "shingle" || c.Analyzer == "ngram" || c.Analyzer == "edge"
	for i := 0; i < nh; i++ {
		hl := genHL(t, "hl")
		if nested && rapid.Bool().Draw(t, "midSize") {
			hl.Size = rapid.IntRange(3, 18).Draw(t, "hlMidSize")
		}
		c.HLs = append(c.HLs, hl)
	}
	// a small pool of words; the CJK analyzer gets mostly CJK words
	var pool []string
	for i, k := 0, rapid.IntRange(1, 7).Draw(t, "poolSize"); i < k; i++ {
		if c.Analyzer == "cjk" && rapid.IntRange(0, 3).Draw(t, "cjkWord") > 0 {
			pool = append(pool, rapid.SampledFrom(vocab[4]).Draw(t, "poolCJK"))
		} else {
			pool = append(pool, genWord(t, nil, "pool"))
		}
	}
	nd := rapid.SampledFrom([]int{1, 1, 1, 2, 3}).Draw(t, "nDocs")
	for i := 0; i < nd; i++ {
		target := genTargetRunes(t, c.HLs[0].Size, "doc")
		if c.Analyzer == "keyword" && target > 40 {
			target = rapid.IntRange(1, 12).Draw(t, "keywordLen")
		}
		c.Docs = append(c.Docs, genText(t, pool, target, "doc"))
	}
	c.Query = genQuery(t, a, c.Docs, nested)
	return c
}

type caseStats struct {
	evals, hits, judged int
	nontrivial          bool
	classes             map[string]bool
	sample              map[string]interface{}
}

func (cs *caseStats) class(s string) { cs.classes[s] = true }

// propSearch indexes the documents, runs the query and judges the highlighting of every hit.
func propSearch(c Case, cs *caseStats) *vlib.Failure {
	if cs == nil {
		cs = &caseStats{}
	}
	if cs.classes == nil {
		cs.classes = map[string]bool{}
	}
	return vlib.Watchdog("index+search+highlight", 120*time.Second, func() *vlib.Failure {
		a := analyzerOf(c.Analyzer)
		w, err := bluge.OpenWriter(bluge.InMemoryOnlyConfig())
		if err != nil {
			return vlib.Failf("harness-open", "%v", err)
		}
		defer w.Close()
		b := bluge.NewBatch()
		for i, text := range c.Docs {
			d := bluge.NewDocument(fmt.Sprintf("d%d", i)).
				AddField(bluge.NewTextField("t", text).StoreValue().HighlightMatches().WithAnalyzer(a))
			b.Update(d.ID(), d)
		}
		if err := w.Batch(b); err != nil {
			return vlib.Failf("harness-batch", "%v", err)
		}
		r, err := w.Reader()
		if err != nil {
			return vlib.Failf("harness-reader", "%v", err)
		}
		defer r.Close()
		it, err := r.Search(context.Background(), bluge.NewTopNSearch(10, c.Query.build(a)).IncludeLocations())
		if err != nil {
			// a query the library refuses (e.g. fuzziness on an over-long term) is not C20's business
			cs.class("search-error")
			return nil
		}
		for {
			m, err := it.Next()
			if err != nil {
				cs.class("search-error")
				return nil
			}
			if m == nil {
				break
			}
			cs.hits++
			var stored []byte
			if err := m.VisitStoredFields(func(field string, value []byte) bool {
				if field == "t" {
					stored = append([]byte{}, value...)
				}
				return true
			}); err != nil {
				return vlib.Failf("harness-stored", "%v", err)
			}
			tlm := m.Locations["t"]
			locs := snapshotLocs(tlm)
			for _, hl := range c.HLs {
				var st hlStats
				f := checkHL(stored, locs, tlm, hl, &st)
				cs.evals++
				cs.note(c, stored, locs, hl, &st)
				if f != nil {
					return f
				}
			}
		}
		if cs.hits == 0 {
			cs.class("no-hit")
		}
		return nil
	})
}

func (cs *caseStats) note(c Case, text []byte, locs []Loc, hl HL, st *hlStats) {
	cs.class("fmt:" + hl.Fmt)
	cs.class(fmt.Sprintf("size:%d", hl.Size))
	cs.class(fmt.Sprintf("num:%d", hl.Num))
	if !st.judged {
		cs.class("not-judged:" + st.skipReason)
		return
	}
	cs.judged++
	if st.nontrivial(hl, len(locs)) {
		cs.nontrivial = true
		cs.class("nontrivial-evaluation")
	} else {
		switch {
		case st.textRunes <= hl.Size:
			cs.class("trivial-because:text-within-size")
		case len(locs) < 2:
			cs.class("trivial-because:fewer-than-2-matches")
		default:
			cs.class("trivial-because:no-multibyte-rune-in-fragments")
		}
	}
	if len(locs) == 0 {
		cs.class("no-locations")
	} else {
		if locs[0].Start == 0 {
			cs.class("match-at-text-start")
		}
		if locs[len(locs)-1].End == len(text) {
			cs.class("match-at-text-end")
		}
	}
	flag := func(b bool, s string) {
		if b {
			cs.class(s)
		}
	}
	flag(len(text) == 0, "empty-text")
	flag(st.textRunes > hl.Size, "text-longer-than-size")
	flag(st.textRunes > 0 && st.textRunes <= hl.Size, "text-within-size")
	flag(strings.Contains(string(text), "\uFFFD"), "text-with-u+fffd")
	flag(strings.ContainsAny(string(text), "<>&'\""), "text-with-html-special")
	flag(st.overlapLocs, "overlapping-locations")
	flag(st.touchingLocs, "touching-locations")
	flag(st.fragments >= 2, "several-fragments")
	flag(st.fragments == 0 && hl.Num > 0, "no-fragment")
	flag(st.leadSep, "leading-separator")
	flag(st.trailSep, "trailing-separator")
	flag(st.multiByte, "multibyte-in-fragment")
	flag(st.bestMarked, "best-fragment-marked")
	flag(len(locs) > 0 && !st.fits, "no-match-fits")
	flag(st.undecided, "placement-undecided")
	flag(st.sepOdd, "observed:separator-vs-offset")
	flag(st.unmarked, "observed:match-inside-fragment-unmarked")
	if cs.sample == nil || (st.nontrivial(hl, len(locs)) && len(text) < 200) {
		cs.sample = map[string]interface{}{"kind": "search", "analyzer": c.Analyzer, "query": c.Query, "text": clip(text), "locations": clipLocs(locs), "hl": hl, "fragments": st.fragments, "marks": st.marks}
	}
}

func record(cs *caseStats, canon string, prefix string, extra ...string) {
	cl := []string{prefix}
	for _, e := range extra {
		cl = append(cl, e)
	}
	for k := range cs.classes {
		cl = append(cl, prefix+":"+k)
	}
	ev.Case(canon, cs.nontrivial, cl...)
	if cs.evals > 1 {
		ev.Evals(cs.evals - 1)
	}
	ev.AddExtra(prefix+"_highlight_calls", cs.evals)
	ev.AddExtra(prefix+"_highlight_calls_judged", cs.judged)
	if cs.sample != nil {
		ev.Sample(cs.sample, cs.nontrivial)
	}
}

func TestC20Search(t *testing.T) {
	vlib.Check(t, 3000, 20000, func(rt *rapid.T) {
		c := genCase(rt)
		var cs caseStats
		f := propSearch(c, &cs)
		record(&cs, vlib.Canon(c), "search", "search:analyzer:"+c.Analyzer, "search:query:"+c.Query.Kind)
		vlib.Report(rt, ev, "search", c, f)
	})
}

// ---------------------------------------------------------------------------------------------
// raw cases: location maps made by hand

type RawCase struct {
	Text []byte `json:"text"` // base64 in JSON
	Locs []Loc  `json:"locs"`
	HLs  []HL   `json:"hls"`
}

func propRaw(c RawCase, cs *caseStats) *vlib.Failure {
	return vlib.Watchdog("highlight", 60*time.Second, func() *vlib.Failure { return propRawDirect(c, cs) })
}

func propRawDirect(c RawCase, cs *caseStats) *vlib.Failure {
	if cs == nil {
		cs = &caseStats{}
	}
	if cs.classes == nil {
		cs.classes = map[string]bool{}
	}
	for _, hl := range c.HLs {
		var st hlStats
		tlm := tlmOf(c.Locs)
		locs := snapshotLocs(tlm)
		f := checkHL(c.Text, locs, tlm, hl, &st)
		cs.evals++
		cs.note(Case{Analyzer: "-"}, c.Text, locs, hl, &st)
		if st.judged && cs.sample != nil {
			cs.sample["kind"] = "raw"
		}
		if f != nil {
			return f
		}
	}
	return nil
}

func snapBack(text []byte, i int) int {
	if i > len(text) {
		i = len(text)
	}
	for i > 0 && i < len(text) && !utf8.RuneStart(text[i]) {
		i--
	}
	return i
}

func genRaw(t *rapid.T) RawCase {
	var c RawCase
	nh := rapid.IntRange(1, 3).Draw(t, "nHL")
	for i := 0; i < nh; i++ {
		c.HLs = append(c.HLs, genHL(t, "hl"))
	}
	textKind := rapid.IntRange(0, 5).Draw(t, "textKind")
	switch textKind {
	case 0:
		c.Text = rapid.SliceOfN(rapid.Byte(), 0, 60).Draw(t, "bytes")
	case 1:
		// valid words with invalid bytes sprinkled in
		s := []byte(genText(t, nil, rapid.IntRange(0, 40).Draw(t, "runes"), "raw"))
		for i, k := 0, rapid.IntRange(1, 4).Draw(t, "nBad"); i < k; i++ {
			at := rapid.IntRange(0, len(s)).Draw(t, "badAt")
			bad := rapid.SampledFrom([]byte{0xff, 0xc0, 0x80, 0xe2, 0xf0, 0xed}).Draw(t, "bad")
			s = append(s[:at], append([]byte{bad}, s[at:]...)...)
		}
		c.Text = s
	default:
		c.Text = []byte(genText(t, nil, genTargetRunes(t, c.HLs[0].Size%50+1, "raw"), "raw"))
	}
	n := rapid.IntRange(0, 12).Draw(t, "nLocs")
	// 0: anything within [0,len+20]; 1: in range, snapped to rune boundaries; 2: snapped, staggered
	// like tokens of a search (starts and ends increasing)
	shape := rapid.IntRange(0, 2).Draw(t, "shape")
	if textKind <= 1 && shape == 2 {
		shape = 1
	}
	terms := []string{"t0", "t1", "t2", "東"}
	prevS, prevE := 0, 0
	var bounds []int // rune boundaries of a valid text, including len
	if shape == 2 {
		for i := range string(c.Text) {
			bounds = append(bounds, i)
		}
		bounds = append(bounds, len(c.Text))
	}
	for i := 0; i < n; i++ {
		term := rapid.SampledFrom(terms).Draw(t, "term")
		var s, e int
		switch shape {
		case 0:
			s = rapid.IntRange(0, len(c.Text)+20).Draw(t, "start")
			e = rapid.IntRange(s, len(c.Text)+20).Draw(t, "end")
			if rapid.IntRange(0, 2).Draw(t, "short") > 0 && e > s+8 {
				e = s + rapid.IntRange(0, 8).Draw(t, "len")
			}
		case 1:
			s = snapBack(c.Text, rapid.IntRange(0, len(c.Text)).Draw(t, "start"))
			e = snapBack(c.Text, s+rapid.IntRange(0, 10).Draw(t, "len"))
		default:
			// token-like: starts and ends (as indices into the rune boundaries) both strictly increasing
			nb := len(bounds)
			var si, ei int
			if i == 0 {
				si = rapid.IntRange(0, maxInt(0, minInt(nb-2, 6))).Draw(t, "firstStart")
				if rapid.IntRange(0, 2).Draw(t, "atZero") == 0 {
					si = 0
				}
				ei = si + rapid.IntRange(1, 8).Draw(t, "len")
			} else {
				switch rapid.IntRange(0, 3).Draw(t, "gap") {
				case 0: // overlapping the previous one
					si = prevS + rapid.IntRange(1, maxInt(1, prevE-prevS-1)).Draw(t, "overlapAt")
				case 1: // touching
					si = prevE
				default:
					si = prevE + rapid.IntRange(1, 7).Draw(t, "apart")
				}
				ei = maxInt(prevE+1, si+1) + rapid.IntRange(0, 6).Draw(t, "len")
			}
			if rapid.IntRange(0, 5).Draw(t, "toEnd") == 0 && i == n-1 {
				ei = nb - 1
			}
			if ei > nb-1 {
				ei = nb - 1
			}
			if si >= ei || (i > 0 && (si <= prevS || ei <= prevE)) {
				continue
			}
			prevS, prevE = si, ei
			s, e = bounds[si], bounds[ei]
		}
		c.Locs = append(c.Locs, Loc{term, s, e})
	}
	if shape != 2 || rapid.Bool().Draw(t, "shuffle") {
		c.Locs = rapid.Permutation(c.Locs).Draw(t, "order")
	}
	if n == 0 && rapid.Bool().Draw(t, "nilMap") {
		c.Locs = nil
	}
	return c
}

func minInt(a, b int) int {
	if a < b {
		return a
	}
	return b
}

func maxInt(a, b int) int {
	if a > b {
		return a
	}
	return b
}

func TestC20Raw(t *testing.T) {
	vlib.Check(t, 4000, 30000, func(rt *rapid.T) {
		c := genRaw(rt)
		var cs caseStats
		f := propRaw(c, &cs)
		record(&cs, vlib.Canon(c), "raw")
		vlib.Report(rt, ev, "raw", c, f)
	})
}

// ---------------------------------------------------------------------------------------------
// replay

var replayFns = map[string]vlib.ReplayFn{
	"search": func(raw json.RawMessage) *vlib.Failure {
		var c Case
		if f := vlib.Decode(raw, &c); f != nil {
			return f
		}
		return propSearch(c, nil)
	},
	"raw": func(raw json.RawMessage) *vlib.Failure {
		var c RawCase
		if f := vlib.Decode(raw, &c); f != nil {
			return f
		}
		return propRaw(c, nil)
	},
}

func TestReplay(t *testing.T)  { vlib.ReplayMain(t, ev, replayFns) }
func TestRegress(t *testing.T) { vlib.RegressMain(t, ev, replayFns) }
