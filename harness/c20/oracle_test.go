package c20

// The oracle of C20: everything here works on the *output strings* of the highlighter, on the
// text and on the list of matched locations.  Nothing of bluge's highlight package is used to
// judge (only to produce the output).

import (
	"bytes"
	"fmt"
	"sort"
	"strings"
	"unicode/utf8"

	"github.com/blugelabs/bluge/search"
	"github.com/blugelabs/bluge/search/highlight"

	"verifharness/vlib"
)

// Loc is one matched term occurrence (byte offsets into the stored text).
type Loc struct {
	Term  string `json:"term"`
	Start int    `json:"start"`
	End   int    `json:"end"`
}

// HL is one highlighting request.
type HL struct {
	Size int    `json:"size"` // fragment size (runes)
	Num  int    `json:"num"`  // number of fragments asked for; 1 goes through BestFragment
	Fmt  string `json:"fmt"`  // html | html-tags | html-brackets | ansi | ansi-red
}

const sep = "…" // the separator the highlighters are built with (spelled out, not taken from bluge)

type markup struct {
	open, close string
	html        bool // text pieces are HTML-escaped
}

var formats = []string{"html", "html-tags", "html-brackets", "ansi", "ansi-red"}

func markupOf(name string) markup {
	switch name {
	case "html":
		return markup{"<mark>", "</mark>", true}
	case "html-tags":
		return markup{`<b class="hl">`, `</b>`, true}
	case "html-brackets":
		return markup{"[[", "]]", true}
	case "ansi":
		return markup{"\x1b[43m", "\x1b[0m", false}
	case "ansi-red":
		return markup{"\x1b[31m", "\x1b[0m", false}
	}
	return markup{}
}

func highlighterOf(hl HL) highlight.Highlighter {
	m := markupOf(hl.Fmt)
	// the convenience constructors where they describe the same configuration
	if hl.Size == 200 {
		switch hl.Fmt {
		case "html":
			return highlight.NewHTMLHighlighter()
		case "html-tags", "html-brackets":
			return highlight.NewHTMLHighlighterTags(m.open, m.close)
		case "ansi":
			return highlight.NewANSIHighlighter()
		}
	}
	var f highlight.FragmentFormatter
	switch hl.Fmt {
	case "html":
		f = highlight.NewHTMLFragmentFormatter()
	case "html-tags", "html-brackets":
		f = highlight.NewHTMLFragmentFormatterTags(m.open, m.close)
	case "ansi":
		f = highlight.NewANSIFragmentFormatter()
	default:
		f = highlight.NewANSIFragmentFormatterColor(m.open)
	}
	return highlight.NewSimpleHighlighter(highlight.NewSimpleFragmenterSized(hl.Size), f, sep)
}

// ambiguousText says why fragments of this text could not be parsed back unambiguously under
// the given markup ("" = parsing is unambiguous).
func ambiguousText(text []byte, m markup) string {
	if bytes.Contains(text, []byte(sep)) {
		return "text-contains-separator"
	}
	for _, tag := range []string{m.open, m.close} {
		c := tag[0]
		if m.html && (c == '<' || c == '>' || c == '"' || c == '\'') {
			continue // escaped in the text pieces, cannot be produced by the text
		}
		if bytes.IndexByte(text, c) >= 0 {
			return "text-contains-markup-alphabet"
		}
	}
	return ""
}

type parsed struct {
	plain       []byte
	marks       [][2]int // offsets into plain
	lead, trail bool
}

var entities = []struct{ esc, raw string }{
	{"&lt;", "<"}, {"&gt;", ">"}, {"&amp;", "&"}, {"&#39;", "'"}, {"&#34;", "\""},
}

// parseFragment strips separators, splits at the markup and undoes the escaping, strictly: a
// raw character that the formatter must escape, an unknown entity, nested or unbalanced
// markup are errors.
func parseFragment(s string, m markup) (parsed, string) {
	var p parsed
	if strings.HasPrefix(s, sep) {
		p.lead = true
		s = s[len(sep):]
	}
	if strings.HasSuffix(s, sep) {
		p.trail = true
		s = s[:len(s)-len(sep)]
	}
	inside := false
	markStart := 0
	for i := 0; i < len(s); {
		rest := s[i:]
		if strings.HasPrefix(rest, m.close) && inside {
			p.marks = append(p.marks, [2]int{markStart, len(p.plain)})
			inside = false
			i += len(m.close)
			continue
		}
		if strings.HasPrefix(rest, m.open) {
			if inside {
				return p, fmt.Sprintf("nested opening markup at byte %d", i)
			}
			inside = true
			markStart = len(p.plain)
			i += len(m.open)
			continue
		}
		if strings.HasPrefix(rest, m.close) {
			return p, fmt.Sprintf("closing markup without opening at byte %d", i)
		}
		c := s[i]
		if m.html {
			if c == '&' {
				ok := false
				for _, e := range entities {
					if strings.HasPrefix(rest, e.esc) {
						p.plain = append(p.plain, e.raw...)
						i += len(e.esc)
						ok = true
						break
					}
				}
				if !ok {
					return p, fmt.Sprintf("unescaped '&' at byte %d", i)
				}
				continue
			}
			if c == '<' || c == '>' || c == '"' || c == '\'' {
				return p, fmt.Sprintf("unescaped %q at byte %d", c, i)
			}
		}
		p.plain = append(p.plain, c)
		i++
	}
	if inside {
		return p, "markup not closed"
	}
	return p, ""
}

// spanIndex answers "is [x,y) one matched occurrence or the union of a run of overlapping ones".
type spanIndex struct {
	iv [][2]int // distinct, sorted by (start,end)
}

func newSpanIndex(locs []Loc) *spanIndex {
	seen := map[[2]int]bool{}
	si := &spanIndex{}
	for _, l := range locs {
		k := [2]int{l.Start, l.End}
		if !seen[k] {
			seen[k] = true
			si.iv = append(si.iv, k)
		}
	}
	sort.Slice(si.iv, func(i, j int) bool {
		if si.iv[i][0] != si.iv[j][0] {
			return si.iv[i][0] < si.iv[j][0]
		}
		return si.iv[i][1] < si.iv[j][1]
	})
	return si
}

// isRun: grow from the occurrences starting exactly at x, using only occurrences inside [x,y)
// that overlap (share >= 1 byte with) what has been covered so far; the union must reach y.
func (si *spanIndex) isRun(x, y int) bool {
	if x >= y {
		return false
	}
	first := sort.Search(len(si.iv), func(i int) bool { return si.iv[i][0] >= x })
	e := -1
	for i := first; i < len(si.iv) && si.iv[i][0] == x; i++ {
		if si.iv[i][1] <= y && si.iv[i][1] > e {
			e = si.iv[i][1]
		}
	}
	if e < 0 {
		return false
	}
	for changed := true; changed && e < y; {
		changed = false
		for i := first; i < len(si.iv) && si.iv[i][0] < e; i++ {
			if si.iv[i][1] <= y && si.iv[i][1] > e {
				e = si.iv[i][1]
				changed = true
			}
		}
	}
	return e == y
}

func onRuneBoundary(text []byte, i int) bool {
	return i == len(text) || (i < len(text) && utf8.RuneStart(text[i]))
}

// unrealistic says why a location set is outside the class "what a search with a bundled
// analyzer reports for a valid UTF-8 text" ("" = inside): in range, non-empty, on rune
// boundaries, no occurrence properly containing another one.
func unrealistic(text []byte, locs []Loc) string {
	if !utf8.Valid(text) {
		return "invalid-utf8-text"
	}
	for _, l := range locs {
		if l.Start < 0 || l.End > len(text) || l.Start > l.End {
			return "location-out-of-range"
		}
		if l.Start == l.End {
			// the keyword analyzer reports the empty term at [0,0) for an empty text (a fuzzy query
			// can match it); there is nothing to highlight
			return "empty-location"
		}
		if !onRuneBoundary(text, l.Start) || !onRuneBoundary(text, l.End) {
			return "location-inside-a-rune"
		}
	}
	si := newSpanIndex(locs)
	// sorted by (start,end): proper containment <=> some earlier interval ends later than a later
	// one, or equal starts with different ends
	maxEnd := -1
	for i, v := range si.iv {
		// distinct intervals sorted by (start,end): starts and ends must both increase strictly
		if i > 0 && (si.iv[i-1][0] == v[0] || v[1] <= maxEnd) {
			return "nested-locations"
		}
		maxEnd = v[1]
	}
	return ""
}

func snapshotLocs(tlm search.TermLocationMap) []Loc {
	var locs []Loc
	for term, ls := range tlm {
		for _, l := range ls {
			if l != nil {
				locs = append(locs, Loc{term, l.Start, l.End})
			}
		}
	}
	sort.Slice(locs, func(i, j int) bool {
		a, b := locs[i], locs[j]
		if a.Start != b.Start {
			return a.Start < b.Start
		}
		if a.End != b.End {
			return a.End < b.End
		}
		return a.Term < b.Term
	})
	return locs
}

func tlmOf(locs []Loc) search.TermLocationMap {
	if locs == nil {
		return nil
	}
	tlm := search.TermLocationMap{}
	for i, l := range locs {
		tlm[l.Term] = append(tlm[l.Term], &search.Location{Pos: i + 1, Start: l.Start, End: l.End})
	}
	return tlm
}

// hlStats is what one evaluation measured (for the evidence).
type hlStats struct {
	judged       bool // the faithfulness oracle was applied
	skipReason   string
	fragments    int
	marks        int
	multiByte    bool // some returned fragment contains a multi-byte rune
	textRunes    int
	fits         bool
	bestMarked   bool
	leadSep      bool
	trailSep     bool
	sepOdd       bool // separator present/absent although the placement says otherwise (observed, not judged)
	undecided    bool // joint placement gave up (budget)
	overlapLocs  bool
	touchingLocs bool
	unmarked     bool // a matched occurrence lying inside a fragment has an unmarked byte (observed, not judged)
}

func (st *hlStats) nontrivial(hl HL, nlocs int) bool {
	return st.judged && st.textRunes > hl.Size && nlocs >= 2 && st.multiByte
}

func inputClass(text []byte, locs []Loc) string {
	var cl []string
	if bytes.Contains(text, []byte("\uFFFD")) {
		cl = append(cl, "u+fffd")
	}
	for i := range locs {
		for j := range locs {
			if i != j && locs[j].Start >= locs[i].Start && locs[j].Start < locs[i].End && locs[j] != locs[i] {
				cl = append(cl, "overlap-run")
				return strings.Join(cl, "+")
			}
		}
		if len(locs) > 400 {
			break
		}
	}
	return strings.Join(cl, "+")
}

func keyAt(key string, text []byte, locs []Loc) string {
	if c := inputClass(text, locs); c != "" {
		return key + "@" + c
	}
	return key
}

// checkHL runs one highlighting request and judges the result.  locs is the harness's own
// snapshot of tlm.
func checkHL(text []byte, locs []Loc, tlm search.TermLocationMap, hl HL, st *hlStats) *vlib.Failure {
	orig := append([]byte(nil), text...)
	var out []string
	if f := vlib.Guard("BestFragments", func() *vlib.Failure {
		h := highlighterOf(hl)
		if hl.Num == 1 {
			if s := h.BestFragment(tlm, orig); s != "" {
				out = []string{s}
			}
		} else {
			out = h.BestFragments(tlm, orig, hl.Num)
		}
		return nil
	}); f != nil {
		return f
	}
	if !bytes.Equal(orig, text) {
		return vlib.Failf("text-mutated", "the highlighter changed the stored bytes it was given")
	}
	st.fragments = len(out)
	want := hl.Num
	if want < 0 {
		want = 0
	}
	if len(out) > want {
		return vlib.Failf("too-many-fragments", "%d fragments returned, %d asked for: %q", len(out), hl.Num, out)
	}
	m := markupOf(hl.Fmt)
	if why := unrealistic(text, locs); why != "" {
		st.skipReason = why
		return nil
	}
	if why := ambiguousText(text, m); why != "" {
		st.skipReason = why
		return nil
	}
	st.judged = true
	st.textRunes = utf8.RuneCount(text)
	si := newSpanIndex(locs)
	for i := 1; i < len(si.iv); i++ {
		if si.iv[i][0] < si.iv[i-1][1] {
			st.overlapLocs = true
		}
		if si.iv[i][0] == si.iv[i-1][1] {
			st.touchingLocs = true
		}
	}
	for _, l := range locs {
		if utf8.RuneCount(text[l.Start:l.End]) <= hl.Size {
			st.fits = true
			break
		}
	}

	type placed struct {
		p    parsed
		cand []int
	}
	frs := make([]placed, len(out))
	for i, s := range out {
		p, perr := parseFragment(s, m)
		if perr != "" {
			return vlib.Failf("fragment-markup-malformed", "fragment %d %q: %s (text %q)", i, s, perr, clip(text))
		}
		frs[i].p = p
		st.marks += len(p.marks)
		if len(p.plain) != utf8.RuneCount(p.plain) {
			st.multiByte = true
		}
		if p.lead {
			st.leadSep = true
		}
		if p.trail {
			st.trailSep = true
		}
		// every offset where the plain text occurs and every mark is a matched occurrence or a run
		occurs := 0
		badMark := [2]int{-1, -1}
		for o := 0; o+len(p.plain) <= len(text); o++ {
			if len(p.plain) > 0 {
				k := bytes.Index(text[o:], p.plain)
				if k < 0 {
					break
				}
				o += k
			}
			occurs++
			ok := true
			for _, mk := range p.marks {
				if !si.isRun(o+mk[0], o+mk[1]) {
					ok = false
					badMark = [2]int{o + mk[0], o + mk[1]}
					break
				}
			}
			if ok {
				frs[i].cand = append(frs[i].cand, o)
			}
			if len(p.plain) == 0 {
				break // an empty fragment occupies nothing; one candidate is enough
			}
		}
		if occurs == 0 {
			return vlib.Failf("fragment-not-a-piece-of-the-text", "fragment %d %q: without markup %q does not occur in the text %q", i, s, p.plain, clip(text))
		}
		if len(frs[i].cand) == 0 {
			return vlib.Failf(keyAt("mark-is-not-a-match", text, locs), "fragment %d %q: at none of its %d possible offsets are all marked spans matched occurrences or runs of overlapping ones (e.g. span [%d,%d) %q); locations %v; text %q",
				i, s, occurs, badMark[0], badMark[1], safeSlice(text, badMark[0], badMark[1]), clipLocs(locs), clip(text))
		}
		if n := utf8.RuneCount(p.plain); n > hl.Size {
			return vlib.Failf("fragment-exceeds-size", "fragment %d %q holds %d runes, fragment size %d", i, s, n, hl.Size)
		}
	}

	// joint placement: one offset per fragment, pairwise disjoint.  First among the offsets that
	// agree with the separators (leading separator <=> offset > 0, trailing <=> text goes on),
	// then among all offsets; the separators themselves are observed, not judged.
	order := make([]int, 0, len(frs))
	for i := range frs {
		if len(frs[i].p.plain) > 0 {
			order = append(order, i)
		}
	}
	sort.SliceStable(order, func(a, b int) bool { return len(frs[order[a]].cand) < len(frs[order[b]].cand) })
	chosen := make([]int, len(frs))
	agree := func(i, o int) bool {
		p := frs[i].p
		return p.lead == (o != 0) && p.trail == (o+len(p.plain) != len(text))
	}
	budget := 0
	var place func(k int, strict bool) bool
	place = func(k int, strict bool) bool {
		if k == len(order) {
			return true
		}
		i := order[k]
		n := len(frs[i].p.plain)
		for _, o := range frs[i].cand {
			if strict && !agree(i, o) {
				continue
			}
			budget--
			if budget < 0 {
				return false
			}
			free := true
			for _, j := range order[:k] {
				if o < chosen[j]+len(frs[j].p.plain) && chosen[j] < o+n {
					free = false
					break
				}
			}
			if free {
				chosen[i] = o
				if place(k+1, strict) {
					return true
				}
			}
		}
		return false
	}
	budget = 200000
	placedOK := place(0, true)
	if !placedOK {
		strictGaveUp := budget < 0
		budget = 300000
		placedOK = place(0, false)
		if placedOK && !strictGaveUp {
			st.sepOdd = true
		}
	}
	if !placedOK {
		if budget < 0 {
			st.undecided = true
		} else {
			return vlib.Failf("fragments-overlap", "the %d fragments %q cannot be placed in the text without overlapping each other; text %q", len(out), out, clip(text))
		}
	} else {
		for _, i := range order {
			p := frs[i].p
			o := chosen[i]
			// observation: matched bytes inside the fragment that are not marked
			for _, l := range locs {
				if l.Start >= o && l.End <= o+len(p.plain) {
					covered := false
					for _, mk := range p.marks {
						if o+mk[0] <= l.Start && l.End <= o+mk[1] {
							covered = true
						}
					}
					if !covered {
						st.unmarked = true
					}
				}
			}
		}
	}

	// the best fragment shows a match when one fits
	if hl.Num >= 1 && st.fits {
		if len(out) == 0 {
			return vlib.Failf(keyAt("best-fragment-without-match", text, locs), "no fragment returned although a matched occurrence fits into the fragment size %d; locations %v; text %q", hl.Size, clipLocs(locs), clip(text))
		}
		if len(frs[0].p.marks) == 0 {
			return vlib.Failf(keyAt("best-fragment-without-match", text, locs), "best fragment %q marks nothing although a matched occurrence fits into the fragment size %d; locations %v; text %q", out[0], hl.Size, clipLocs(locs), clip(text))
		}
		st.bestMarked = true
	}
	return nil
}

func clip(b []byte) string {
	if len(b) > 240 {
		return string(b[:240]) + "…(" + fmt.Sprint(len(b)) + " bytes)"
	}
	return string(b)
}

func clipLocs(l []Loc) string {
	if len(l) > 12 {
		return fmt.Sprintf("%v …(%d)", l[:12], len(l))
	}
	return fmt.Sprint(l)
}

func safeSlice(b []byte, x, y int) string {
	if x < 0 || y > len(b) || x > y {
		return ""
	}
	return string(b[x:y])
}
