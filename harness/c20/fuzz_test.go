package c20

import (
	"encoding/binary"
	"fmt"
	"os"
	"path/filepath"
	"sort"
	"strconv"
	"strings"
	"testing"
	"unicode/utf8"

	"verifharness/vlib"
)

// Fuzz input: text bytes, an encoded location list (5 bytes per location: term selector,
// 16-bit start, 16-bit length, both reduced so that 0 <= Start <= End <= len+20) and a
// configuration word (fragment size, number of fragments, formatter, "snap to rune boundaries").

var fuzzTerms = []string{"t0", "t1", "t2", "東"}

func decodeFuzz(text, enc []byte, cfg uint16) RawCase {
	c := RawCase{Text: text}
	c.HLs = []HL{{
		Size: sizes[int(cfg&7)%len(sizes)],
		Num:  int(cfg>>3&7) % 6,
		Fmt:  formats[int(cfg>>6&7)%len(formats)],
	}}
	snap := cfg>>9&1 == 1 && utf8.Valid(text)
	lim := len(text) + 21
	for i := 0; i+5 <= len(enc) && len(c.Locs) < 40; i += 5 {
		s := int(binary.BigEndian.Uint16(enc[i+1:])) % lim
		e := s + int(binary.BigEndian.Uint16(enc[i+3:]))%(lim-s)
		if snap {
			s, e = snapBack(text, s), snapBack(text, e)
		}
		c.Locs = append(c.Locs, Loc{fuzzTerms[int(enc[i])%len(fuzzTerms)], s, e})
	}
	return c
}

func encodeLocs(locs ...[3]int) []byte {
	var b []byte
	for _, l := range locs {
		b = append(b, byte(l[0]), byte(l[1]>>8), byte(l[1]), byte((l[2]-l[1])>>8), byte(l[2]-l[1]))
	}
	return b
}

func fuzzCfg(sizeIdx, num, fmtIdx int, snap bool) uint16 {
	v := uint16(sizeIdx) | uint16(num)<<3 | uint16(fmtIdx)<<6
	if snap {
		v |= 1 << 9
	}
	return v
}

type fuzzSeed struct {
	text, locs []byte
	cfg        uint16
}

var fuzzSeeds = []fuzzSeed{
	{[]byte("alpha � beta gamma"), encodeLocs([3]int{0, 10, 14}), fuzzCfg(4, 1, 0, false)},
	{[]byte("日本語 тест"), encodeLocs([3]int{0, 0, 6}, [3]int{1, 3, 9}, [3]int{2, 10, 18}), fuzzCfg(1, 1, 0, false)},
	{[]byte("a<b & \"q\" R&D it's <mark>x</mark>"), encodeLocs([3]int{0, 0, 3}, [3]int{1, 11, 14}, [3]int{2, 20, 26}), fuzzCfg(3, 3, 0, false)},
	{[]byte("one two three two one"), encodeLocs([3]int{0, 4, 7}, [3]int{0, 14, 17}, [3]int{1, 30, 40}, [3]int{2, 21, 41}), fuzzCfg(2, 5, 3, false)},
	{[]byte("\xff\xfe東\xe6\x9d京 x"), encodeLocs([3]int{3, 1, 5}, [3]int{0, 3, 4}, [3]int{1, 0, 30}), fuzzCfg(0, 2, 4, false)},
	{[]byte("你好世界 你好 世界你好"), encodeLocs([3]int{0, 0, 3}, [3]int{1, 3, 6}, [3]int{0, 13, 16}, [3]int{1, 16, 19}, [3]int{0, 26, 29}), fuzzCfg(1, 3, 2, true)},
	{[]byte(""), nil, fuzzCfg(4, 1, 1, false)},
	{[]byte("😀 a😀b 👍🏽"), encodeLocs([3]int{0, 5, 11}, [3]int{1, 2, 7}), fuzzCfg(2, 2, 3, true)},
}

func checkFuzzInput(text, locs []byte, cfg uint16) *vlib.Failure {
	if len(text) > 4096 || len(locs) > 400 {
		return nil
	}
	c := decodeFuzz(text, locs, cfg)
	f := propRawDirect(c, nil)
	if f != nil {
		if _, known := vlib.IsKnown(ev.Property, f.Key); known {
			return nil
		}
	}
	return f
}

// FuzzHighlight: arbitrary text bytes and location lists never make the highlighter panic; the
// faithfulness oracle is applied whenever text and locations look like the output of a search.
func FuzzHighlight(f *testing.F) {
	for _, s := range fuzzSeeds {
		f.Add(s.text, s.locs, s.cfg)
	}
	f.Fuzz(func(t *testing.T, text, locs []byte, cfg uint16) {
		if fl := checkFuzzInput(text, locs, cfg); fl != nil {
			t.Fatalf("%s: %s", fl.Key, fl.Msg)
		}
	})
}

// parseCorpusFile reads a "go test fuzz v1" corpus entry of FuzzHighlight.
func parseCorpusFile(path string) (text, locs []byte, cfg uint16, err error) {
	b, err := os.ReadFile(path)
	if err != nil {
		return nil, nil, 0, err
	}
	lines := strings.Split(strings.TrimSpace(string(b)), "\n")
	if len(lines) != 4 || !strings.HasPrefix(lines[0], "go test fuzz v1") {
		return nil, nil, 0, fmt.Errorf("%s: not a 3-value corpus entry", path)
	}
	bytesOf := func(l string) ([]byte, error) {
		l = strings.TrimSpace(l)
		if !strings.HasPrefix(l, "[]byte(") || !strings.HasSuffix(l, ")") {
			return nil, fmt.Errorf("%s: expected []byte(...), got %q", path, l)
		}
		s, err := strconv.Unquote(l[len("[]byte(") : len(l)-1])
		return []byte(s), err
	}
	if text, err = bytesOf(lines[1]); err != nil {
		return
	}
	if locs, err = bytesOf(lines[2]); err != nil {
		return
	}
	l := strings.TrimSpace(lines[3])
	if !strings.HasPrefix(l, "uint16(") || !strings.HasSuffix(l, ")") {
		return nil, nil, 0, fmt.Errorf("%s: expected uint16(...), got %q", path, l)
	}
	v, err := strconv.ParseUint(l[len("uint16("):len(l)-1], 0, 16)
	return text, locs, uint16(v), err
}

// TestC20FuzzCorpus judges the in-code seeds and the committed corpus of FuzzHighlight in
// every tier (the driver selects tests with -run ^Test, which skips the seed run of Fuzz targets).
func TestC20FuzzCorpus(t *testing.T) {
	if sh, _ := vlib.Shard(); sh != 0 {
		t.Skip("corpus is replayed by shard 0")
	}
	type entry struct {
		name string
		fuzzSeed
	}
	var all []entry
	for i, s := range fuzzSeeds {
		all = append(all, entry{fmt.Sprintf("seed#%d", i), s})
	}
	root := os.Getenv("VERIF_ROOT")
	if root == "" {
		root = "/verif"
	}
	files, _ := filepath.Glob(filepath.Join(root, "harness", "c20", "testdata", "fuzz", "FuzzHighlight", "*"))
	sort.Strings(files)
	for _, p := range files {
		text, locs, cfg, err := parseCorpusFile(p)
		if err != nil {
			t.Errorf("corpus: %v", err)
			continue
		}
		all = append(all, entry{filepath.Base(p), fuzzSeed{text, locs, cfg}})
	}
	for _, e := range all {
		c := decodeFuzz(e.text, e.locs, e.cfg)
		var cs caseStats
		f := propRaw(c, &cs)
		record(&cs, vlib.Canon(c), "corpus")
		if f != nil {
			f.Msg = "fuzz corpus entry " + e.name + ": " + f.Msg
		}
		vlib.Report(t, ev, "raw", c, f)
	}
}
