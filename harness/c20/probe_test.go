package c20

import (
	"context"
	"fmt"
	"testing"

	"github.com/blugelabs/bluge"
	"github.com/blugelabs/bluge/analysis/lang/cjk"
	"github.com/blugelabs/bluge/search/highlight"
)

func TestProbe(t *testing.T) {
	a := cjk.Analyzer()
	for _, tc := range []struct{ text, q string }{
		{"東京都大阪府京都市北海道 xx 大阪府京", "東京都大阪府京都市北海道"},
		{"alpha � beta gamma", "beta"},
		{"東京都大阪 yy 北海道北海 zz", "東京都大阪 北海道北海"},
	} {
		cfg := bluge.InMemoryOnlyConfig()
		w, err := bluge.OpenWriter(cfg)
		if err != nil {
			t.Fatal(err)
		}
		doc := bluge.NewDocument("d").AddField(bluge.NewTextField("t", tc.text).StoreValue().HighlightMatches().WithAnalyzer(a))
		b := bluge.NewBatch()
		b.Update(doc.ID(), doc)
		if err := w.Batch(b); err != nil {
			t.Fatal(err)
		}
		r, _ := w.Reader()
		q := bluge.NewMatchQuery(tc.q).SetField("t").SetAnalyzer(a)
		it, err := r.Search(context.Background(), bluge.NewTopNSearch(10, q).IncludeLocations())
		if err != nil {
			t.Fatal(err)
		}
		m, err := it.Next()
		for ; m != nil && err == nil; m, err = it.Next() {
			for term, locs := range m.Locations["t"] {
				for _, l := range locs {
					fmt.Printf("  %q pos %d [%d,%d)\n", term, l.Pos, l.Start, l.End)
				}
			}
			for _, size := range []int{2, 3, 5, 200} {
				h := highlight.NewSimpleHighlighter(highlight.NewSimpleFragmenterSized(size), highlight.NewHTMLFragmentFormatter(), "…")
				fmt.Printf("size %d: %q\n", size, h.BestFragments(m.Locations["t"], []byte(tc.text), 3))
			}
		}
		r.Close()
		w.Close()
	}
}
