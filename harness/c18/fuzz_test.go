package c18

// Native fuzz target of C18 plus its fixed subject table, seed inputs and deterministic probes.

import (
	"fmt"
	"hash/fnv"
	"os"
	"path/filepath"
	"strconv"
	"testing"

	"github.com/blugelabs/bluge/analysis"

	"verifharness/vlib"
)

// fuzzSubjects is the table FuzzAnalyze indexes with `which % len`.  Append only: the committed
// corpus refers to positions.
func fuzzSubjects() []Spec {
	var out []Spec
	for _, n := range analyzerNames() { // 0..23
		out = append(out, Spec{Kind: "analyzer", Analyzer: n})
	}
	tok := func(name, s1, s2 string) *FilterSpec { return &FilterSpec{Name: name, S1: s1, S2: s2} }
	for _, n := range simpleTokenizers {
		out = append(out, Spec{Kind: "tokenizer", Tokenizer: tok(n, "", "")})
	}
	for _, p := range regexpPatterns {
		out = append(out, Spec{Kind: "tokenizer", Tokenizer: tok("regexp", p, "")})
	}
	for _, p := range predicateNames() {
		out = append(out, Spec{Kind: "tokenizer", Tokenizer: tok("character", p, "")})
	}
	rest := []string{"unicode", "whitespace", "letter", "single"}
	for i, p := range exceptionPatterns {
		out = append(out, Spec{Kind: "tokenizer", Tokenizer: tok("exception", p, rest[i%len(rest)])})
	}
	// char filters
	for _, n := range []string{"asciifolding", "html", "zwnj"} {
		out = append(out, Spec{Kind: "charfilter", Tokenizer: tok("unicode", "", ""), Char: []FilterSpec{{Name: n}}})
	}
	for _, p := range charRegexps {
		out = append(out, Spec{Kind: "charfilter", Tokenizer: tok("whitespace", "", ""), Char: []FilterSpec{{Name: "regexp", S1: p[0], S2: p[1]}}})
	}
	// every parameterless filter, alternating the tokenizer
	tks := []*FilterSpec{tok("unicode", "", ""), tok("single", "", ""), tok("regexp", `\S+`, "")}
	for i, n := range plainFilterNames() {
		out = append(out, Spec{Kind: "filter", Tokenizer: tks[i%len(tks)], Filters: []FilterSpec{{Name: n}}})
	}
	// configurable filters at representative parameters
	gap := &FilterSpec{Name: "stop", Words: []string{"a", "the", "b", "世", "и"}}
	kw := &FilterSpec{Name: "keyword_marker", Words: []string{"running", "walking", "a"}}
	dict := []string{"soft", "ball", "a", "ab", "世界", "schiff", "dampf", "é", "�"}
	conf := []Spec{
		{Kind: "filter", Tokenizer: tks[0], Filters: []FilterSpec{{Name: "cjk_bigram", F1: false}}},
		{Kind: "filter", Tokenizer: tks[0], Filters: []FilterSpec{{Name: "cjk_bigram", F1: true}}},
		{Kind: "filter", Tokenizer: tks[2], Filters: []FilterSpec{{Name: "cjk_bigram", F1: true}}},
		{Kind: "filter", Tokenizer: tks[1], Filters: []FilterSpec{{Name: "camelcase"}}},
		{Kind: "filter", Tokenizer: tks[2], Filters: []FilterSpec{{Name: "reverse"}}},
		{Kind: "filter", Tokenizer: tks[0], Filters: []FilterSpec{{Name: "dict_compound", Words: dict, A: 3, B: 1, C: 6, F1: false}}},
		{Kind: "filter", Tokenizer: tks[2], Filters: []FilterSpec{{Name: "dict_compound", Words: dict, A: 1, B: 2, C: 15, F1: true}}},
		{Kind: "filter", Tokenizer: tks[0], Filters: []FilterSpec{{Name: "edge_ngram", A: 1, B: 3}}},
		{Kind: "filter", Tokenizer: tks[2], Filters: []FilterSpec{{Name: "edge_ngram", A: 2, B: 6, F1: true}}},
		{Kind: "filter", Tokenizer: tks[0], Filters: []FilterSpec{{Name: "ngram", A: 1, B: 2}}},
		{Kind: "filter", Tokenizer: tks[1], Filters: []FilterSpec{{Name: "ngram", A: 3, B: 6}}},
		{Kind: "filter", Tokenizer: tks[0], Filters: []FilterSpec{{Name: "shingle", A: 2, B: 2, F1: true, S1: " ", S2: "_"}}},
		{Kind: "filter", Tokenizer: tks[0], Pre: gap, Filters: []FilterSpec{{Name: "shingle", A: 2, B: 5, F1: false, S1: "", S2: ""}}},
		{Kind: "filter", Tokenizer: tks[2], Pre: gap, Filters: []FilterSpec{{Name: "shingle", A: 3, B: 4, F1: true, S1: "_", S2: "x"}}},
		{Kind: "filter", Tokenizer: tks[0], Filters: []FilterSpec{{Name: "truncate", A: 1}}},
		{Kind: "filter", Tokenizer: tks[2], Filters: []FilterSpec{{Name: "truncate", A: 5}}},
		{Kind: "filter", Tokenizer: tks[0], Filters: []FilterSpec{{Name: "length", A: 2, B: 5}}},
		{Kind: "filter", Tokenizer: tks[0], Filters: []FilterSpec{{Name: "length", A: 0, B: 0}}},
		{Kind: "filter", Tokenizer: tks[2], Filters: []FilterSpec{{Name: "elision", Words: []string{"l", "d", "qu", "", "\x80"}}}},
		{Kind: "filter", Tokenizer: tks[0], Filters: []FilterSpec{{Name: "stop", Words: []string{"a", "the", "世", ""}}}},
		{Kind: "filter", Tokenizer: tks[0], Pre: kw, Filters: []FilterSpec{{Name: "porter"}}},
		{Kind: "filter", Tokenizer: tks[0], Pre: kw, Filters: []FilterSpec{{Name: "stemmer_hi"}}},
		{Kind: "filter", Tokenizer: tks[0], Pre: kw, Filters: []FilterSpec{{Name: "stemmer_ckb"}}},
		{Kind: "filter", Tokenizer: tks[0], Filters: []FilterSpec{{Name: "unicode_normalize", S1: "nfc"}}},
		{Kind: "filter", Tokenizer: tks[1], Filters: []FilterSpec{{Name: "unicode_normalize", S1: "nfd"}}},
		{Kind: "filter", Tokenizer: tks[2], Filters: []FilterSpec{{Name: "unicode_normalize", S1: "nfkc"}}},
		{Kind: "filter", Tokenizer: tks[0], Filters: []FilterSpec{{Name: "unicode_normalize", S1: "nfkd"}}},
	}
	out = append(out, conf...)
	// pipelines (totality, determinism, round trip only)
	pipe := func(t *FilterSpec, cfs []FilterSpec, fs ...FilterSpec) Spec {
		return Spec{Kind: "pipeline", Tokenizer: t, Char: cfs, Filters: fs}
	}
	out = append(out,
		pipe(tks[0], nil, FilterSpec{Name: "unicode_normalize", S1: "nfd"}, FilterSpec{Name: "camelcase"}, FilterSpec{Name: "lowercase"}),
		pipe(tks[2], nil, FilterSpec{Name: "lowercase"}, FilterSpec{Name: "cjk_width"}, FilterSpec{Name: "cjk_bigram", F1: true}),
		pipe(tks[0], []FilterSpec{{Name: "html"}, {Name: "asciifolding"}}, FilterSpec{Name: "lowercase"}, FilterSpec{Name: "stop_en"}, FilterSpec{Name: "porter"}),
		pipe(tks[0], nil, FilterSpec{Name: "stop_en"}, FilterSpec{Name: "shingle", A: 2, B: 3, F1: true, S1: " ", S2: "_"}, FilterSpec{Name: "unique"}),
		pipe(tks[1], nil, FilterSpec{Name: "ngram", A: 2, B: 3}, FilterSpec{Name: "reverse"}, FilterSpec{Name: "truncate", A: 2}),
		pipe(tks[2], nil, FilterSpec{Name: "camelcase"}, FilterSpec{Name: "edge_ngram", A: 1, B: 4, F1: true}, FilterSpec{Name: "length", A: 2, B: 3}, FilterSpec{Name: "unique"}),
		pipe(tks[0], []FilterSpec{{Name: "zwnj"}}, FilterSpec{Name: "normalize_ar"}, FilterSpec{Name: "normalize_fa"}, FilterSpec{Name: "stemmer_ar"}, FilterSpec{Name: "reverse"}),
		pipe(tks[0], nil, FilterSpec{Name: "normalize_in"}, FilterSpec{Name: "normalize_hi"}, FilterSpec{Name: "stemmer_hi"}, FilterSpec{Name: "truncate", A: 3}),
		pipe(tks[0], nil, FilterSpec{Name: "elision_fr"}, FilterSpec{Name: "light_stemmer_fr"}, FilterSpec{Name: "minimal_stemmer_fr"}, FilterSpec{Name: "stemmer_fr"}),
		pipe(tks[0], nil, FilterSpec{Name: "apostrophe"}, FilterSpec{Name: "possessive_en"}, FilterSpec{Name: "dict_compound", Words: dict, A: 2, B: 1, C: 4}, FilterSpec{Name: "cjk_bigram"}),
		pipe(tks[2], nil, FilterSpec{Name: "reverse"}, FilterSpec{Name: "lowercase"}, FilterSpec{Name: "reverse"}),
		pipe(tks[0], nil, FilterSpec{Name: "truncate", A: 1}, FilterSpec{Name: "stemmer_ckb"}, FilterSpec{Name: "normalize_ckb"}),
	)
	return out
}

// fuzzSeeds: phrases of the repository's own analysis tests plus hostile constants.
var fuzzSeeds = []string{
	"",
	"Hello World",
	"the quick brown fox jumps over the lazy dog",
	"The Quick Brown Fox's JUMPING camelCaseXMLParser 3.14 user@example.com http://x.io/a?b=c #tag @me",
	"l'avion qu'il d'une dell'arte un'altra John's cats’ İstanbul'a",
	"softball basketball Rindfleischetikettierungsüberwachungsaufgabenübertragungsgesetz",
	"<html><b class=\"x\">bold</b> &amp; <br/> text</html>",
	"كبيرة مشروبات أمريكيين والكتاب الكتابُ",
	"می‌خورد خورده‌ای کتاب‌ها",
	"پیاوەکە پیاوێکی ناوچەکان دەستەکانمان",
	"километрах вместе с тем силой знанием",
	"हिंदी हिन्दी लडकों किताबें अँगरेज़ी क़िताब",
	"こんにちは世界 多くの学生が試験に落ちた ｶﾞｷﾞｸﾞ ﾊﾟﾋﾟ Ｔｅｓｔ １２３４ 한국어",
	"一二三四五六七八九十",
	"👨‍👩‍👧‍👦 🇩🇪🇫🇷 1️⃣ ☝🏽 a😀b",
	"ΟΔΥΣΣΕΥΣ Σίσυφος ΑΣ Σ",
	"ȺȾ İI ıi K Å ẞ ǅ",
	"é́ ä⃝ ́lone",
	"\x80",
	"a\x80bé́c",
	"世界\x80こん",
	"世\xe4\xb8界",
	"ab\xffcd \xc0\x80 \xed\xa0\x80 \xf4\x90\x80\x80 end",
	"x�y �� z",
	"nul\x00inside \x00 \x00\x00",
	"\xef\xbb\xbfbom first",
	"ｶ\x80ﾞ 日本\xe8\xaa",
	"aB\x80cD XMLHttp\xffRequest",
	"   ",
	"\n\t\r\n",
	"a",
	"'",
	"’s 's s' '' ＇s",
	"a b c d e f g h i j k l m n o p q r s t u v w x y z",
	"wi-fi state_of_the_art 3.14.15 1,000 a.b.c",
}

// probes: deterministic cases for the C18 defects of DESIGN.md §6.
func probes() []Case {
	single := &FilterSpec{Name: "single"}
	ws := &FilterSpec{Name: "regexp", S1: `\S+`}
	uni := &FilterSpec{Name: "unicode"}
	mk := func(s Spec, in string) Case { return mkCase(s, []byte(in), true, true) }
	return []Case{
		// #20 reverse filter: widths measured on the re-decoded runes
		mk(Spec{Kind: "filter", Tokenizer: single, Filters: []FilterSpec{{Name: "reverse"}}}, "a\x80bé́c"),
		mk(Spec{Kind: "filter", Tokenizer: single, Filters: []FilterSpec{{Name: "reverse"}}}, "\x80"),
		mk(Spec{Kind: "filter", Tokenizer: ws, Filters: []FilterSpec{{Name: "reverse"}}}, "abc\xe4\xb8 \xffz"),
		// #21 camel-case filter: offsets from the re-encoded term
		mk(Spec{Kind: "filter", Tokenizer: single, Filters: []FilterSpec{{Name: "camelcase"}}}, "\x80"),
		mk(Spec{Kind: "filter", Tokenizer: ws, Filters: []FilterSpec{{Name: "camelcase"}}}, "aB\x80cD XMLHttp\xffRequest"),
		// #11 CJK bigram filter: sub-token widths from the re-encoded rune
		mk(Spec{Kind: "filter", Tokenizer: ws, Filters: []FilterSpec{{Name: "cjk_bigram", F1: true}}}, "世\x80界 日本\xe8\xaa"),
		mk(Spec{Kind: "filter", Tokenizer: ws, Filters: []FilterSpec{{Name: "cjk_bigram", F1: false}}}, "世\x80"),
		mk(Spec{Kind: "filter", Tokenizer: uni, Filters: []FilterSpec{{Name: "cjk_bigram", F1: false}}}, "世界\x80こん"),
		mk(Spec{Kind: "analyzer", Analyzer: "cjk"}, "世界\x80こん"),
		mk(Spec{Kind: "analyzer", Analyzer: "cjk"}, "l'avion\xe3\xc0\x80"),
		mk(Spec{Kind: "filter", Tokenizer: uni, Filters: []FilterSpec{{Name: "cjk_bigram", F1: true}}}, "l'avion\xe3\xc0\x80"),
		mk(Spec{Kind: "analyzer", Analyzer: "cjk"}, "\xe3\x81\xe3\x81\x82\xe3 \xe4\xb8\xe4\xb8\x96"),
	}
}

func dataHash(b []byte) uint32 {
	h := fnv.New32a()
	_, _ = h.Write(b)
	return h.Sum32()
}

// FuzzAnalyze: coverage-guided search over (subject index, bytes) with the oracle of the check.
func FuzzAnalyze(f *testing.F) {
	subjects := fuzzSubjects()
	for i, s := range fuzzSeeds {
		f.Add(uint8((i*7)%len(subjects)), []byte(s))
	}
	built := make([]*analysis.Analyzer, len(subjects)) // one per subject and worker process
	f.Fuzz(func(t *testing.T, which uint8, data []byte) {
		if len(data) > 1<<16 {
			return
		}
		si := int(which) % len(subjects)
		s := subjects[si]
		h := dataHash(data)
		if built[si] == nil {
			a, err := build(s)
			if err != nil {
				t.Fatalf("harness: %v", err)
			}
			built[si] = a
		}
		// the round trip costs ~100x the analysis and constructing the analyzers ~10x: both are judged
		// on a deterministic fraction of the inputs
		c := Case{Spec: s, Input: data, RoundTrip: len(data) <= 512 && h%64 == 0, Store: h%128 == 0}
		fail, st := evaluateWith(c, built[si], h%16 == 1)
		c.Quoted = strconv.Quote(string(data))
		if os.Getenv("VERIF_FUZZING") == "" {
			// quick/thorough tier replaying the seed corpus as plain tests: account and report like any case
			record("fuzz-seeds", c, nil, fail, st, subjectClasses(s)...)
			vlib.Report(t, ev, "case", c, fail)
			return
		}
		if fail == nil {
			return
		}
		if _, known := vlib.IsKnown("C18", fail.Key); known {
			return
		}
		t.Fatalf("VERIF-VIOLATION property=C18 key=%s subject=%d (%s) input=%q: %s", fail.Key, si, s.subject(), data, fail.Msg)
	})
}

// TestWriteCorpus (C18_WRITE_CORPUS=<dir>) writes the seed corpus files from fuzzSeeds.
func TestWriteCorpus(t *testing.T) {
	dir := os.Getenv("C18_WRITE_CORPUS")
	if dir == "" {
		t.Skip("C18_WRITE_CORPUS not set")
	}
	subjects := fuzzSubjects()
	if len(subjects) > 256 {
		t.Fatalf("%d subjects do not fit the uint8 selector", len(subjects))
	}
	_ = os.MkdirAll(dir, 0o755)
	for i, s := range fuzzSeeds {
		which := (i*37 + 5) % len(subjects) // a different pairing than f.Add above
		body := fmt.Sprintf("go test fuzz v1\nuint8(%d)\n[]byte(%s)\n", which, strconv.Quote(s))
		if err := os.WriteFile(filepath.Join(dir, fmt.Sprintf("seed-%02d", i)), []byte(body), 0o644); err != nil {
			t.Fatal(err)
		}
	}
	t.Logf("%d subjects, %d seeds", len(subjects), len(fuzzSeeds))
}
