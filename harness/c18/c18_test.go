// C18  Analysis is total, deterministic and offset-correct on any bytes.
package c18

import (
	"bytes"
	"context"
	"encoding/json"
	"fmt"
	"os"
	"regexp"
	"runtime"
	"sort"
	"strconv"
	"strings"
	"testing"
	"time"
	"unicode/utf8"

	"github.com/blugelabs/bluge"
	"github.com/blugelabs/bluge/analysis"
	"pgregory.net/rapid"

	"verifharness/vlib"
)

func TestMain(m *testing.M) {
	if os.Getenv("VERIF_FUZZING") == "" {
		// the cases run one after the other; with many Ps the garbage collector's workers only
		// fight the other checks for the cores (measured: 2 Ps halve the CPU time of a shard)
		runtime.GOMAXPROCS(2)
	}
	vlib.Main(m)
}

var ev = vlib.NewEvidence("C18",
	"case = (subject, input bytes): subject is one of the 24 bundled analyzers, a bundled tokenizer, a tokenizer + char filter, a tokenizer (+ optional gap-making stop/length/keyword stage) + ONE token filter with generated parameters, or a pipeline of 2-4 filters; "+
		"input is assembled from script-aware words (Latin, Arabic/Persian/Sorani, Cyrillic, Devanagari/Indic, CJK incl. half/full-width, emoji, Greek/Armenian), separators and hostile pieces (raw bytes, truncated runes, U+FFFD, NUL, >4096-byte tokens, empty). "+
		"non-trivial = the analysis produced >= 2 tokens AND the input holds >= 1 non-ASCII rune or invalid byte")

// ---------------------------------------------------------------------------------------------
// cases

// FilterSpec names one component (tokenizer, char filter or token filter) and its parameters.
type FilterSpec struct {
	Name  string   `json:"name"`
	A     int      `json:"a,omitempty"`
	B     int      `json:"b,omitempty"`
	C     int      `json:"c,omitempty"`
	F1    bool     `json:"f1,omitempty"`
	S1    string   `json:"s1,omitempty"`
	S2    string   `json:"s2,omitempty"`
	Words []string `json:"words,omitempty"`
}

func (f FilterSpec) label() string { return f.Name }

// Spec describes the subject of a case.
type Spec struct {
	Kind      string       `json:"kind"` // analyzer | tokenizer | charfilter | filter | pipeline
	Analyzer  string       `json:"analyzer,omitempty"`
	Tokenizer *FilterSpec  `json:"tokenizer,omitempty"`
	Char      []FilterSpec `json:"char,omitempty"`
	Pre       *FilterSpec  `json:"pre,omitempty"` // stop/length/keyword stage that only thins or marks the stream
	Filters   []FilterSpec `json:"filters,omitempty"`
}

// subject returns the label used in failure keys and histograms.
func (s Spec) subject() string {
	switch s.Kind {
	case "analyzer":
		return "an:" + s.Analyzer
	case "tokenizer":
		return "tok:" + s.Tokenizer.Name
	case "charfilter":
		n := []string{}
		for _, c := range s.Char {
			n = append(n, c.Name)
		}
		return "cf:" + strings.Join(n, "+")
	case "filter":
		if len(s.Filters) == 1 {
			return "flt:" + s.Filters[0].Name
		}
	}
	n := []string{}
	for _, c := range s.Filters {
		n = append(n, c.Name)
	}
	return "pipe:" + strings.Join(n, "+")
}

// judged tells which clauses apply: pipelines of several configurable filters are judged for
// totality, determinism and increments only (see DESIGN.md C18).
func (s Spec) offsetsJudged() bool { return s.Kind != "pipeline" }

// sliceJudged: Term == text[Start:End] is stated for pure tokenizers (here also behind char filters,
// against the text the tokenizer saw).
func (s Spec) sliceJudged() bool { return s.Kind == "tokenizer" || s.Kind == "charfilter" }

type Case struct {
	Spec      Spec   `json:"spec"`
	Input     []byte `json:"input"`            // base64 in JSON
	Quoted    string `json:"quoted,omitempty"` // strconv.Quote(Input), for the reader only
	RoundTrip bool   `json:"round_trip"`
	Store     bool   `json:"store,omitempty"` // round trip: the field also stores its value
}

// Tok is a snapshot of one token (terms are copied at once: filters reuse buffers).
type Tok struct {
	Term  string
	Start int
	End   int
	Incr  int
	Type  int
	KW    bool
}

func snapshot(ts analysis.TokenStream) []Tok {
	out := make([]Tok, len(ts))
	for i, t := range ts {
		if t == nil {
			out[i] = Tok{Term: "<nil token>", Start: -1 << 30}
			continue
		}
		out[i] = Tok{Term: string(t.Term), Start: t.Start, End: t.End, Incr: t.PositionIncr, Type: int(t.Type), KW: t.KeyWord}
	}
	return out
}

func (t Tok) String() string {
	return fmt.Sprintf("{%q %d..%d +%d type=%d kw=%v}", t.Term, t.Start, t.End, t.Incr, t.Type, t.KW)
}

func firstDiff(a, b []Tok) string {
	n := len(a)
	if len(b) < n {
		n = len(b)
	}
	for i := 0; i < n; i++ {
		if a[i] != b[i] {
			return fmt.Sprintf("token %d: %v vs %v (of %d / %d tokens)", i, a[i], b[i], len(a), len(b))
		}
	}
	if len(a) != len(b) {
		return fmt.Sprintf("%d vs %d tokens", len(a), len(b))
	}
	return ""
}

func sameToks(a, b []Tok) bool {
	if len(a) != len(b) {
		return false
	}
	for i := range a {
		if a[i] != b[i] {
			return false
		}
	}
	return true
}

// ---------------------------------------------------------------------------------------------
// oracle

type Stats struct {
	Tokens     int
	Seen       int // length of the text the tokenizer saw
	RoundTrip  bool
	Excluded   string // known class this case belongs to (clause not judged), if any
	NonASCII   bool
	InvalidUTF bool
}

const guardLen = 48

var frameRe = regexp.MustCompile(`github\.com/(?:blugelabs/bluge|blevesearch)/[^\s(]*?([\w-]+)\.((?:\(\*?\w+\)\.)?\w+)[^\s(]*\(`)

// refine turns vlib's panic@site into panic@<package.function of the first bluge/blevesearch frame>.
func refine(f *vlib.Failure) *vlib.Failure {
	if f == nil || !strings.HasPrefix(f.Key, "panic@") {
		return f
	}
	// skip to the frames below the panic itself
	msg := f.Msg
	if i := strings.Index(msg, "panic("); i >= 0 {
		msg = msg[i:]
	}
	if m := frameRe.FindStringSubmatch(msg); m != nil {
		fn := strings.NewReplacer("(", "", ")", "", "*", "").Replace(m[2])
		f.Key = "panic@" + m[1] + "." + fn
	}
	return f
}

func embed(in []byte) (buf, view []byte) {
	buf = make([]byte, len(in)+2*guardLen)
	for i := range buf {
		buf[i] = 'Z'
	}
	copy(buf[guardLen:], in)
	return buf, buf[guardLen : guardLen+len(in)]
}

func guardsIntact(buf []byte, n int) bool {
	for i := 0; i < guardLen; i++ {
		if buf[i] != 'Z' || buf[guardLen+n+i] != 'Z' {
			return false
		}
	}
	return true
}

// evaluate applies the property to one case.
func evaluate(c Case) (*vlib.Failure, Stats) { return evaluateWith(c, nil, true) }

// evaluateWith: reuse is an analyzer built earlier from the same spec (the fuzz target keeps one
// per subject; a stateful analyzer would show as nondeterminism), fresh tells whether the
// "freshly constructed analyzer" clause is judged on this case.
func evaluateWith(c Case, reuse *analysis.Analyzer, fresh bool) (*vlib.Failure, Stats) {
	var st Stats
	st.NonASCII, st.InvalidUTF = classifyBytes(c.Input)
	sub := c.Spec.subject()
	a1 := reuse
	if a1 == nil {
		var err error
		a1, err = build(c.Spec)
		if err != nil {
			return vlib.Failf("harness-bad-spec", "%v", err), st
		}
	}
	a2 := a1
	if fresh {
		a2, _ = build(c.Spec)
	}
	orig := append([]byte(nil), c.Input...)

	var r1, r2, r3, r4 []Tok
	var seen []byte
	var guardBroken bool
	f := vlib.Watchdog("analyze", 10*time.Second, func() *vlib.Failure {
		// the text the tokenizer sees: the analyzer's own char filters, fresh instances
		seen = append([]byte(nil), orig...)
		a3 := a1
		if fresh {
			a3, _ = build(c.Spec)
		}
		for _, cf := range a3.CharFilters {
			seen = cf.Filter(seen)
		}
		seen = append([]byte(nil), seen...)
		// run 1: exact-capacity copy
		in1 := make([]byte, len(orig))
		copy(in1, orig)
		r1 = snapshot(a1.Analyze(in1))
		// run 2: same analyzer, the input sits in the middle of a larger buffer
		buf, in2 := embed(orig)
		r2 = snapshot(a1.Analyze(in2))
		guardBroken = !guardsIntact(buf, len(orig))
		// run 3: freshly constructed analyzer
		in3 := make([]byte, len(orig))
		copy(in3, orig)
		r3 = snapshot(a2.Analyze(in3))
		if !sameToks(r1, r2) {
			in4 := make([]byte, len(orig))
			copy(in4, orig)
			r4 = snapshot(a1.Analyze(in4))
		}
		return nil
	})
	if f != nil {
		f = refine(f)
		if strings.HasPrefix(f.Key, "hang@") {
			f.Key = "hang@" + sub
		}
		f.Msg = sub + ": " + f.Msg
		return f, st
	}
	st.Tokens = len(r1)
	st.Seen = len(seen)
	if guardBroken {
		return vlib.Failf("writes-outside-input@"+sub, "%s: analysis wrote outside the %d input bytes it was given (bytes before/after the slice changed)", sub, len(orig)), st
	}
	if !sameToks(r1, r2) {
		if !sameToks(r1, r4) {
			return vlib.Failf("nondeterministic@"+sub, "%s: two runs of the same analyzer on equal bytes differ: %s", sub, firstDiff(r1, r4)), st
		}
		return vlib.Failf("reads-outside-input@"+sub, "%s: the result depends on the bytes around the input slice (exact-capacity copy vs. slice of a larger buffer): %s", sub, firstDiff(r1, r2)), st
	}
	if !sameToks(r1, r3) {
		return vlib.Failf("fresh-analyzer-differs@"+sub, "%s: a freshly constructed analyzer gives another stream: %s", sub, firstDiff(r1, r3)), st
	}
	for i, t := range r1 {
		if t.Start == -1<<30 {
			return vlib.Failf("nil-token@"+sub, "%s: token %d is nil", sub, i), st
		}
		if t.Incr < 0 {
			return vlib.Failf("negative-increment@"+sub, "%s: token %d %v has a negative position increment", sub, i, t), st
		}
	}
	if c.Spec.offsetsJudged() {
		excl := excludedOffsetClass(c.Spec, st)
		st.Excluded = excl
		for i, t := range r1 {
			if !(0 <= t.Start && t.Start <= t.End && t.End <= len(seen)) {
				if excl != "" {
					return vlib.Failf(excl, "%s: token %d %v violates 0 <= start <= end <= %d (text the tokenizer saw; input %d bytes)", sub, i, t, len(seen), len(orig)), st
				}
				return vlib.Failf("offset-range@"+sub, "%s: token %d %v violates 0 <= start <= end <= %d (text the tokenizer saw; input %d bytes)", sub, i, t, len(seen), len(orig)), st
			}
		}
	}
	if c.Spec.Kind == "filter" && removalFilter(c.Spec.Filters[0].Name) {
		// a filter that only removes tokens must leave the survivors at their positions: the
		// increments of the removed tokens are carried over (this is what makes "non-negative
		// position increments" meaningful for the positions TokenFrequency accumulates)
		base := c.Spec
		base.Filters = nil
		base.Kind = "pipeline"
		var r0 []Tok
		if f := vlib.Watchdog("analyze", 10*time.Second, func() *vlib.Failure {
			a0, err := build(base)
			if err != nil {
				return vlib.Failf("harness-bad-spec", "%v", err)
			}
			r0 = snapshot(a0.Analyze(append([]byte(nil), orig...)))
			return nil
		}); f != nil {
			return refine(f), st
		}
		if f := positionsPreserved(sub, r0, r1); f != nil {
			return f, st
		}
	}
	if c.Spec.sliceJudged() {
		for i, t := range r1 {
			if t.Term != string(seen[t.Start:t.End]) {
				return vlib.Failf("term-not-input-slice@"+sub, "%s: token %d %v is not text[%d:%d] = %q", sub, i, t, t.Start, t.End, seen[t.Start:t.End]), st
			}
		}
	}
	if c.RoundTrip && len(r1) > 0 {
		st.RoundTrip = true
		if f := roundTrip(a1, orig, c.Store, sub); f != nil {
			return f, st
		}
	}
	return nil, st
}

func removalFilter(name string) bool {
	return name == "stop" || name == "length" || name == "unique" || strings.HasPrefix(name, "stop_")
}

// positionsPreserved: out must be a subsequence of in (same term and offsets) and every survivor
// keeps its absolute position (sum of increments).
func positionsPreserved(sub string, in, out []Tok) *vlib.Failure {
	j, posIn, posOut := 0, 0, 0
	for i, o := range out {
		posOut += o.Incr
		found := false
		for j < len(in) && !found {
			posIn += in[j].Incr
			found = in[j].Term == o.Term && in[j].Start == o.Start && in[j].End == o.End
			j++
		}
		if !found {
			return vlib.Failf("removal-filter-invents-token@"+sub, "%s: output token %d %v is not a token of the input stream (in order)", sub, i, o)
		}
		if posIn != posOut {
			return vlib.Failf("position-shift@"+sub, "%s: token %d %v stood at position %d before the filter and stands at %d after it (increments of removed tokens lost)", sub, i, o, posIn, posOut)
		}
	}
	return nil
}

func classifyBytes(b []byte) (nonASCII, invalid bool) {
	for i := 0; i < len(b); {
		if b[i] < utf8.RuneSelf {
			i++
			continue
		}
		r, w := utf8.DecodeRune(b[i:])
		if r == utf8.RuneError && w == 1 {
			invalid = true
		} else {
			nonASCII = true
		}
		i += w
	}
	return
}

// excludedOffsetClass names the known-finding class a case belongs to, "" if none.  (Nothing is
// excluded at present: the two offset defects were repaired, see NOTES.md.)
func excludedOffsetClass(s Spec, st Stats) string { return "" }

// roundTrip: a one-document in-memory index whose text field holds x, analysed by a; the all-terms
// match query on x in the same analyzer must find the document.
func roundTrip(a *analysis.Analyzer, x []byte, store bool, sub string) *vlib.Failure {
	return vlib.Watchdog("roundtrip", 30*time.Second, func() *vlib.Failure {
		w, err := bluge.OpenWriter(bluge.InMemoryOnlyConfig())
		if err != nil {
			return vlib.Failf("harness-open-writer", "%v", err)
		}
		defer w.Close()
		fld := bluge.NewTextField("f", string(x)).WithAnalyzer(a)
		if store {
			fld = fld.StoreValue()
		}
		doc := bluge.NewDocument("d").AddField(fld)
		if err := w.Update(doc.ID(), doc); err != nil {
			return vlib.Failf("roundtrip-index-error@"+sub, "%s: Update failed: %v", sub, err)
		}
		r, err := w.Reader()
		if err != nil {
			return vlib.Failf("roundtrip-index-error@"+sub, "%s: Reader failed: %v", sub, err)
		}
		defer r.Close()
		q := bluge.NewMatchQuery(string(x)).SetField("f").SetAnalyzer(a).SetOperator(bluge.MatchQueryOperatorAnd)
		it, err := r.Search(context.Background(), bluge.NewTopNSearch(3, q))
		if err != nil {
			return vlib.Failf("roundtrip-search-error@"+sub, "%s: Search failed: %v", sub, err)
		}
		m, err := it.Next()
		if err != nil {
			return vlib.Failf("roundtrip-search-error@"+sub, "%s: Next failed: %v", sub, err)
		}
		if m == nil {
			return vlib.Failf("roundtrip-miss@"+sub, "%s: the all-terms match query on the document's own field text does not find the document", sub)
		}
		if store {
			var got []byte
			found := false
			err := m.VisitStoredFields(func(field string, value []byte) bool {
				if field == "f" {
					got = append([]byte(nil), value...)
					found = true
				}
				return true
			})
			if err != nil {
				return vlib.Failf("roundtrip-search-error@"+sub, "%s: VisitStoredFields failed: %v", sub, err)
			}
			if !found || !bytes.Equal(got, x) {
				return vlib.Failf("stored-value-changed@"+sub, "%s: the stored field value is %q, the document held %q (in-place filters ran on the stored bytes)", sub, got, x)
			}
		}
		if m2, _ := it.Next(); m2 != nil {
			return vlib.Failf("roundtrip-extra-hit@"+sub, "%s: two hits in a one-document index", sub)
		}
		return nil
	})
}

// ---------------------------------------------------------------------------------------------
// tests

func inputClasses(c Case, tx *Text, st Stats) []string {
	cls := []string{}
	switch {
	case len(c.Input) == 0:
		cls = append(cls, "in:empty")
	case st.InvalidUTF:
		cls = append(cls, "in:invalid-utf8")
	case st.NonASCII:
		cls = append(cls, "in:valid-non-ascii")
	default:
		cls = append(cls, "in:ascii")
	}
	if len(c.Input) > 4096 {
		cls = append(cls, "in:longer-than-4096")
	}
	if tx != nil {
		names := []string{}
		for s := range tx.Scripts {
			names = append(names, s)
		}
		sort.Strings(names)
		for _, s := range names {
			cls = append(cls, "script:"+s)
		}
	}
	switch {
	case st.Tokens == 0:
		cls = append(cls, "tokens:0")
	case st.Tokens == 1:
		cls = append(cls, "tokens:1")
	case st.Tokens < 20:
		cls = append(cls, "tokens:2-19")
	default:
		cls = append(cls, "tokens:20+")
	}
	if st.RoundTrip {
		cls = append(cls, "round-trip-judged")
	}
	if st.Excluded != "" {
		cls = append(cls, "excluded:"+st.Excluded)
	}
	return cls
}

func record(test string, c Case, tx *Text, f *vlib.Failure, st Stats, subjects ...string) bool {
	nt := st.Tokens >= 2 && (st.NonASCII || st.InvalidUTF)
	cls := inputClasses(c, tx, st)
	cls = append(cls, "test:"+test)
	for _, s := range subjects {
		cls = append(cls, s)
		if nt {
			cls = append(cls, "nt:"+s)
		}
	}
	ev.Case(vlib.Canon(c), nt, cls...)
	if len(c.Input) <= 80 {
		ev.Sample(map[string]interface{}{"test": test, "subject": c.Spec.subject(), "spec": c.Spec, "input": c.Quoted, "tokens": st.Tokens, "round_trip": st.RoundTrip}, nt)
	}
	return nt
}

func mkCase(s Spec, in []byte, rt, store bool) Case {
	return Case{Spec: s, Input: in, Quoted: strconv.Quote(string(in)), RoundTrip: rt, Store: store}
}

// TestC18Analyzers: the 24 bundled analyzers, all clauses incl. the round trip.
func TestC18Analyzers(t *testing.T) {
	names := analyzerNames()
	vlib.Check(t, 9000, 30000, func(rt *rapid.T) {
		name := pickFrom(rt, "analyzer", names)
		tx := genText(rt)
		c := mkCase(Spec{Kind: "analyzer", Analyzer: name}, tx.Bytes, pick(rt, "rt", 6) == 0, rapid.Bool().Draw(rt, "store"))
		f, st := evaluate(c)
		record("analyzers", c, &tx, f, st, "an:"+name)
		vlib.Report(rt, ev, "case", c, f)
	})
}

// TestC18Tokenizers: each bundled tokenizer on its own; Term == input[Start:End].
func TestC18Tokenizers(t *testing.T) {
	vlib.Check(t, 2500, 10000, func(rt *rapid.T) {
		tx := genText(rt)
		tk := genTokenizer(rt)
		c := mkCase(Spec{Kind: "tokenizer", Tokenizer: &tk}, tx.Bytes, pick(rt, "rt", 10) == 0, rapid.Bool().Draw(rt, "store"))
		f, st := evaluate(c)
		record("tokenizers", c, &tx, f, st, "tok:"+tk.Name)
		vlib.Report(rt, ev, "case", c, f)
	})
}

// TestC18CharFilters: char filters (one or two) in front of a tokenizer.
func TestC18CharFilters(t *testing.T) {
	vlib.Check(t, 1500, 6000, func(rt *rapid.T) {
		tx := genText(rt)
		tk := genTokenizer(rt)
		n := 1
		if pick(rt, "twoCharFilters", 5) == 0 {
			n = 2
		}
		var cfs []FilterSpec
		subs := []string{"tok:" + tk.Name}
		for i := 0; i < n; i++ {
			cf := genCharFilter(rt)
			cfs = append(cfs, cf)
			subs = append(subs, "cf:"+cf.Name)
		}
		c := mkCase(Spec{Kind: "charfilter", Tokenizer: &tk, Char: cfs}, tx.Bytes, pick(rt, "rt", 10) == 0, rapid.Bool().Draw(rt, "store"))
		f, st := evaluate(c)
		record("charfilters", c, &tx, f, st, subs...)
		vlib.Report(rt, ev, "case", c, f)
	})
}

// TestC18Filters: one token filter with generated parameters on the stream of a tokenizer
// (optionally behind a char filter and a gap-making/marking stage); all clauses.
func TestC18Filters(t *testing.T) {
	vlib.Check(t, 6000, 30000, func(rt *rapid.T) {
		tx := genText(rt)
		tk := genTokenizer(rt)
		s := Spec{Kind: "filter", Tokenizer: &tk}
		subs := []string{}
		if pick(rt, "withCharFilter", 6) == 0 {
			cf := genCharFilter(rt)
			s.Char = []FilterSpec{cf}
			subs = append(subs, "cf:"+cf.Name)
		}
		fl := genFilter(rt, tx)
		s.Filters = []FilterSpec{fl}
		subs = append(subs, "flt:"+fl.Name, "tok:"+tk.Name)
		preP := 5
		if fl.Name == "shingle" || fl.Name == "porter" || fl.Name == "stemmer_ckb" || fl.Name == "stemmer_hi" || fl.Name == "cjk_bigram" {
			preP = 1
		}
		if pick(rt, "withPre", preP+1) == 0 {
			p := genPre(rt, tx)
			s.Pre = &p
			subs = append(subs, "pre:"+p.Name)
		}
		c := mkCase(s, tx.Bytes, pick(rt, "rt", 10) == 0, rapid.Bool().Draw(rt, "store"))
		f, st := evaluate(c)
		record("filters", c, &tx, f, st, subs...)
		vlib.Report(rt, ev, "case", c, f)
	})
}

// TestC18Pipelines: 2-4 token filters behind a tokenizer and 0-2 char filters; judged for
// totality, determinism, increments and the round trip, not for offsets.
func TestC18Pipelines(t *testing.T) {
	vlib.Check(t, 2000, 10000, func(rt *rapid.T) {
		tx := genText(rt)
		tk := genTokenizer(rt)
		s := Spec{Kind: "pipeline", Tokenizer: &tk}
		subs := []string{"tok:" + tk.Name}
		for i, n := 0, pick(rt, "charFilters", 3); i < n; i++ {
			cf := genCharFilter(rt)
			s.Char = append(s.Char, cf)
			subs = append(subs, "cf:"+cf.Name)
		}
		for i, n := 0, 2+pick(rt, "filters", 3); i < n; i++ {
			fl := genFilter(rt, tx)
			s.Filters = append(s.Filters, fl)
			subs = append(subs, "pipe-flt:"+fl.Name)
		}
		c := mkCase(s, tx.Bytes, pick(rt, "rt", 10) == 0, rapid.Bool().Draw(rt, "store"))
		f, st := evaluate(c)
		record("pipelines", c, &tx, f, st, subs...)
		vlib.Report(rt, ev, "case", c, f)
	})
}

// TestC18Seeds: every seed of the fuzz corpus through every subject of the fuzz table (the
// driver's quick tier selects tests with -run ^Test, which does not run Fuzz seed corpora).
func TestC18Seeds(t *testing.T) {
	sh, n := vlib.Shard()
	subjects := fuzzSubjects()
	k := 0
	for si, s := range subjects {
		for _, seed := range fuzzSeeds {
			k++
			if k%n != sh {
				continue
			}
			c := mkCase(s, []byte(seed), len(seed) <= 64 && si%3 == 0, si%2 == 0)
			f, st := evaluate(c)
			record("seeds", c, nil, f, st, subjectClasses(s)...)
			if vlib.Report(t, ev, "case", c, f) {
				return
			}
		}
	}
}

func subjectClasses(s Spec) []string {
	var out []string
	if s.Analyzer != "" {
		out = append(out, "an:"+s.Analyzer)
	}
	if s.Tokenizer != nil {
		out = append(out, "tok:"+s.Tokenizer.Name)
	}
	for _, c := range s.Char {
		out = append(out, "cf:"+c.Name)
	}
	for _, f := range s.Filters {
		if s.Kind == "pipeline" {
			out = append(out, "pipe-flt:"+f.Name)
		} else {
			out = append(out, "flt:"+f.Name)
		}
	}
	return out
}

// TestC18Probes: deterministic probes for the defects of DESIGN.md §6 that belong to C18
// (#11, #20, #21); they hold on a repaired tree and fail when a repair is reverted.
func TestC18Probes(t *testing.T) {
	if sh, _ := vlib.Shard(); sh != 0 {
		t.Skip("probes run on shard 0")
	}
	for _, p := range probes() {
		f, st := evaluate(p)
		record("probes", p, nil, f, st, subjectClasses(p.Spec)...)
		if vlib.Report(t, ev, "case", p, f) {
			return
		}
	}
}

// ---------------------------------------------------------------------------------------------
// replay

var replayFns = map[string]vlib.ReplayFn{
	"case": func(raw json.RawMessage) *vlib.Failure {
		var c Case
		if f := vlib.Decode(raw, &c); f != nil {
			return f
		}
		f, _ := evaluate(c)
		return f
	},
	"shared": func(raw json.RawMessage) *vlib.Failure {
		var c SharedCase
		if f := vlib.Decode(raw, &c); f != nil {
			return f
		}
		f, _ := evaluateShared(c)
		return f
	},
}

func TestReplay(t *testing.T)  { vlib.ReplayMain(t, ev, replayFns) }
func TestRegress(t *testing.T) { vlib.RegressMain(t, ev, replayFns) }
