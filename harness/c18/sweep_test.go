package c18

// Rune sweep.  Several bundled components are tables over single code points (the ASCII folding
// character filter has 1 242 cases, the width / normalisation / stemming filters of the language
// packages a few dozen each); a defect in ONE entry is a one-in-a-million input for a generator
// that draws words.  The sweep enumerates the code points instead: every valid rune of the swept
// ranges is put, in chunks, through every subject of the fuzz table in three contexts (a token of
// its own, inside an ASCII word, glued to its neighbours so that one of them ends the input), with
// the full oracle of evaluate().  A failing chunk is narrowed to a single rune when one rune alone
// reproduces the failure.
//
// Added by the main agent after seeded change C18-3 (one entry of the ASCII folding table, U+FB04,
// grows the output by one rune too few) was missed by the generated inputs.

import (
	"fmt"
	"testing"
	"unicode/utf8"

	"verifharness/vlib"
)

func sweepRanges() [][2]rune {
	if vlib.Thorough() {
		return [][2]rune{{0x80, 0x10FFFF}}
	}
	return [][2]rune{
		{0x80, 0xFFFF},       // the BMP: every table of the bundled components lives here
		{0x10000, 0x107FF},   // Linear B ... (first supplementary scripts)
		{0x1D400, 0x1D7FF},   // mathematical alphanumerics (NFKC/NFKD fold them to ASCII)
		{0x1F100, 0x1F2FF},   // enclosed alphanumerics supplement
		{0x1F600, 0x1F64F},   // emoticons
		{0x20000, 0x203FF},   // CJK extension B, start
		{0x2F800, 0x2FA1F},   // CJK compatibility ideographs supplement (normalisation)
		{0xE0000, 0xE01EF},   // tags, variation selectors supplement
		{0x10FF00, 0x10FFFF}, // the end of the code space
	}
}

const sweepChunk = 256

type sweepInput struct {
	form      string
	lo, hi    rune // runes of the chunk: lo..hi (valid ones)
	bytes     []byte
	runeCount int
}

func sweepForms(rs []rune) []sweepInput {
	var own, word, glued []byte
	for _, r := range rs {
		own = utf8.AppendRune(own, r)
		own = append(own, ' ')
		word = append(word, 'a')
		word = utf8.AppendRune(word, r)
		word = append(word, 'b', ' ')
		glued = utf8.AppendRune(glued, r)
	}
	lo, hi := rs[0], rs[len(rs)-1]
	return []sweepInput{
		{"own-token", lo, hi, own[:len(own)-1], len(rs)},
		{"inside-word", lo, hi, word[:len(word)-1], len(rs)},
		{"glued", lo, hi, glued, len(rs)},
	}
}

// narrow looks for a single rune of the chunk that alone (in the same form) fails with the same key.
func narrow(s Spec, in sweepInput, key string) (Case, *vlib.Failure, bool) {
	for r := in.lo; r <= in.hi; r++ {
		if !utf8.ValidRune(r) {
			continue
		}
		for _, f := range sweepForms([]rune{r}) {
			if f.form != in.form {
				continue
			}
			c := mkCase(s, f.bytes, false, false)
			if g, _ := evaluate(c); g != nil && g.Key == key {
				g.Msg = fmt.Sprintf("rune sweep, U+%04X %s: %s", r, f.form, g.Msg)
				return c, g, true
			}
		}
	}
	return Case{}, nil, false
}

func TestC18RuneSweep(t *testing.T) {
	sh, n := vlib.Shard()
	subjects := fuzzSubjects()
	swept, chunks, k := 0, 0, 0
	for _, rg := range sweepRanges() {
		for base := rg[0]; base <= rg[1]; base += sweepChunk {
			var rs []rune
			for r := base; r < base+sweepChunk && r <= rg[1]; r++ {
				if utf8.ValidRune(r) { // not a surrogate
					rs = append(rs, r)
				}
			}
			if len(rs) == 0 {
				continue
			}
			k++
			if k%n != sh {
				continue
			}
			chunks++
			swept += len(rs)
			for _, in := range sweepForms(rs) {
				for _, s := range subjects {
					c := mkCase(s, in.bytes, false, false)
					f, st := evaluate(c)
					nt := st.Tokens >= 2
					ev.Case(vlib.Canon(c), nt, "test:rune-sweep", "sweep:"+in.form)
					if f != nil {
						if c1, f1, ok := narrow(s, in, f.Key); ok {
							c, f = c1, f1
						} else {
							f.Msg = fmt.Sprintf("rune sweep, U+%04X..U+%04X %s: %s", in.lo, in.hi, in.form, f.Msg)
						}
					}
					if vlib.Report(t, ev, "case", c, f) {
						return
					}
				}
			}
		}
	}
	ev.AddExtra("rune_sweep_code_points_this_run", swept)
	ev.AddExtra("rune_sweep_chunks_this_run", chunks)
	if sh == 0 {
		ev.Extra("rune_sweep_ranges", fmt.Sprintf("%X", sweepRanges()))
		ev.Extra("rune_sweep_subjects", len(subjects))
	}
}
