package c18

import (
	"fmt"
	"testing"

	"github.com/blugelabs/bluge/analysis"
	"github.com/blugelabs/bluge/analysis/analyzer"
	"github.com/blugelabs/bluge/analysis/lang/cjk"
	"github.com/blugelabs/bluge/analysis/token"
	"github.com/blugelabs/bluge/analysis/tokenizer"
)

func dump(ts analysis.TokenStream) string {
	s := ""
	for _, t := range ts {
		s += fmt.Sprintf("[%q %d..%d +%d t%d k%v] ", t.Term, t.Start, t.End, t.PositionIncr, t.Type, t.KeyWord)
	}
	return s
}

func TestProbe(t *testing.T) {
	ins := []string{"Hello World", "世界\x80こん", "\x80", "ab\x80cd ef", "世\x80", "ｶﾞｷ\x80ｸ", "abc\xe4\xb8", "\xe4\xb8世界", "日本\xff語", "a\x80bé́c", "x�y z"}
	for _, in := range ins {
		b := []byte(in)
		fmt.Printf("in=%q len=%d\n", in, len(in))
		fmt.Printf("  unicode : %s\n", dump(tokenizer.NewUnicodeTokenizer().Tokenize([]byte(in))))
		fmt.Printf("  ws      : %s\n", dump(tokenizer.NewWhitespaceTokenizer().Tokenize([]byte(in))))
		fmt.Printf("  cjk     : %s\n", dump(cjk.Analyzer().Analyze([]byte(in))))
		fmt.Printf("  std     : %s  (input now %q)\n", dump(analyzer.NewStandardAnalyzer().Analyze(b)), b)
		func() {
			defer func() {
				if r := recover(); r != nil {
					fmt.Printf("  PANIC %v\n", r)
				}
			}()
			fmt.Printf("  camel   : %s\n", dump(token.NewCamelCaseFilter().Filter(tokenizer.NewWhitespaceTokenizer().Tokenize([]byte(in)))))
			fmt.Printf("  bigramU : %s\n", dump(cjk.NewBigramFilter(true).Filter(tokenizer.NewUnicodeTokenizer().Tokenize([]byte(in)))))
			fmt.Printf("  reverse : %s\n", dump(token.NewReverseFilter().Filter(tokenizer.NewSingleTokenTokenizer().Tokenize([]byte(in)))))
		}()
	}
}
