package c18

// Construction of the subjects of C18 from their JSON-able specs, and the generators of specs.

import (
	"fmt"
	"regexp"
	"sort"
	"strings"
	"unicode"

	"github.com/blugelabs/bluge/analysis"
	"github.com/blugelabs/bluge/analysis/analyzer"
	"github.com/blugelabs/bluge/analysis/char"
	"github.com/blugelabs/bluge/analysis/lang/ar"
	"github.com/blugelabs/bluge/analysis/lang/bg"
	"github.com/blugelabs/bluge/analysis/lang/ca"
	"github.com/blugelabs/bluge/analysis/lang/cjk"
	"github.com/blugelabs/bluge/analysis/lang/ckb"
	"github.com/blugelabs/bluge/analysis/lang/cs"
	"github.com/blugelabs/bluge/analysis/lang/da"
	"github.com/blugelabs/bluge/analysis/lang/de"
	"github.com/blugelabs/bluge/analysis/lang/el"
	"github.com/blugelabs/bluge/analysis/lang/en"
	"github.com/blugelabs/bluge/analysis/lang/es"
	"github.com/blugelabs/bluge/analysis/lang/eu"
	"github.com/blugelabs/bluge/analysis/lang/fa"
	"github.com/blugelabs/bluge/analysis/lang/fi"
	"github.com/blugelabs/bluge/analysis/lang/fr"
	"github.com/blugelabs/bluge/analysis/lang/ga"
	"github.com/blugelabs/bluge/analysis/lang/gl"
	"github.com/blugelabs/bluge/analysis/lang/hi"
	"github.com/blugelabs/bluge/analysis/lang/hu"
	"github.com/blugelabs/bluge/analysis/lang/hy"
	"github.com/blugelabs/bluge/analysis/lang/id"
	indic "github.com/blugelabs/bluge/analysis/lang/in"
	"github.com/blugelabs/bluge/analysis/lang/it"
	"github.com/blugelabs/bluge/analysis/lang/nl"
	"github.com/blugelabs/bluge/analysis/lang/no"
	"github.com/blugelabs/bluge/analysis/lang/pt"
	"github.com/blugelabs/bluge/analysis/lang/ro"
	"github.com/blugelabs/bluge/analysis/lang/ru"
	"github.com/blugelabs/bluge/analysis/lang/sv"
	"github.com/blugelabs/bluge/analysis/lang/tr"
	"github.com/blugelabs/bluge/analysis/token"
	"github.com/blugelabs/bluge/analysis/tokenizer"
	"golang.org/x/text/unicode/norm"
	"pgregory.net/rapid"
)

// ---------------------------------------------------------------------------------------------
// the 24 bundled analyzers (every exported analyzer constructor under analysis/analyzer and
// analysis/lang/*)

var analyzers = map[string]func() *analysis.Analyzer{
	"keyword":  analyzer.NewKeywordAnalyzer,
	"simple":   analyzer.NewSimpleAnalyzer,
	"standard": analyzer.NewStandardAnalyzer,
	"web":      analyzer.NewWebAnalyzer,
	"ar":       ar.Analyzer,
	"cjk":      cjk.Analyzer,
	"ckb":      ckb.Analyzer,
	"da":       da.Analyzer,
	"de":       de.Analyzer,
	"en":       en.NewAnalyzer,
	"es":       es.Analyzer,
	"fa":       fa.Analyzer,
	"fi":       fi.Analyzer,
	"fr":       fr.Analyzer,
	"hi":       hi.Analyzer,
	"hu":       hu.Analyzer,
	"it":       it.Analyzer,
	"nl":       nl.Analyzer,
	"no":       no.Analyzer,
	"pt":       pt.Analyzer,
	"ro":       ro.Analyzer,
	"ru":       ru.Analyzer,
	"sv":       sv.Analyzer,
	"tr":       tr.Analyzer,
}

func analyzerNames() []string {
	var n []string
	for k := range analyzers {
		n = append(n, k)
	}
	sort.Strings(n)
	return n
}

// ---------------------------------------------------------------------------------------------
// tokenizers

var regexpPatterns = []string{`\w+`, `\S+`, `[^\s,;.]+`, `\p{L}+|\p{N}+`, `\p{Han}|\p{L}+`, `.`, `(?s).`, `[a-z]*`, `(?i)[a-zé]+`, `[^ ]*`, `\pL\pM*`, `[\x00-\x7f]+`, `[^\x00-\x7f]+`}
var exceptionPatterns = []string{`[A-Z]\w+`, `\d+(\.\d+)?`, `\S+@\S+`, `'\w+`, `\p{Han}+`, `x*`, `[^\x00-\x7f]`, `(?s).`}
var predicates = map[string]func(rune) bool{
	"letter-or-digit": func(r rune) bool { return unicode.IsLetter(r) || unicode.IsDigit(r) },
	"not-punct":       func(r rune) bool { return !unicode.IsPunct(r) && !unicode.IsSpace(r) },
	"letter-or-mark":  func(r rune) bool { return unicode.IsLetter(r) || unicode.IsMark(r) },
	"any":             func(r rune) bool { return true },
	"none":            func(r rune) bool { return false },
	"non-ascii":       func(r rune) bool { return r >= 0x80 },
}

func predicateNames() []string {
	var n []string
	for k := range predicates {
		n = append(n, k)
	}
	sort.Strings(n)
	return n
}

var simpleTokenizers = []string{"single", "letter", "whitespace", "unicode", "web"}

func buildTokenizer(s FilterSpec) (analysis.Tokenizer, error) {
	switch s.Name {
	case "single":
		return tokenizer.NewSingleTokenTokenizer(), nil
	case "letter":
		return tokenizer.NewLetterTokenizer(), nil
	case "whitespace":
		return tokenizer.NewWhitespaceTokenizer(), nil
	case "unicode":
		return tokenizer.NewUnicodeTokenizer(), nil
	case "web":
		return tokenizer.NewWebTokenizer(), nil
	case "character":
		p, ok := predicates[s.S1]
		if !ok {
			return nil, fmt.Errorf("unknown predicate %q", s.S1)
		}
		return tokenizer.NewCharacterTokenizer(p), nil
	case "regexp":
		re, err := regexp.Compile(s.S1)
		if err != nil {
			return nil, err
		}
		return tokenizer.NewRegexpTokenizer(re), nil
	case "exception":
		re, err := regexp.Compile(s.S1)
		if err != nil {
			return nil, err
		}
		rest, err := buildTokenizer(FilterSpec{Name: s.S2})
		if err != nil {
			return nil, err
		}
		return tokenizer.NewExceptionsTokenizer(re, rest), nil
	}
	return nil, fmt.Errorf("unknown tokenizer %q", s.Name)
}

func genTokenizer(t *rapid.T) FilterSpec {
	switch k := pick(t, "tokenizerKind", 12); {
	case k <= 6:
		// unicode is what the bundled analyzers use: weight it
		return FilterSpec{Name: pickFrom(t, "tokenizer", []string{"single", "letter", "whitespace", "unicode", "unicode", "web", "whitespace"})}
	case k <= 8:
		return FilterSpec{Name: "regexp", S1: pickFrom(t, "pattern", regexpPatterns)}
	case k == 9:
		return FilterSpec{Name: "character", S1: pickFrom(t, "predicate", predicateNames())}
	default:
		return FilterSpec{Name: "exception", S1: pickFrom(t, "exceptions", exceptionPatterns),
			S2: pickFrom(t, "remaining", []string{"unicode", "whitespace", "letter", "single"})}
	}
}

// ---------------------------------------------------------------------------------------------
// char filters

var charRegexps = [][2]string{{`\s+`, " "}, {`[aeiou]`, ""}, {`\d`, "##"}, {`(\w)(\w)`, "$2$1"}, {`[^\x00-\x7f]`, "?"}, {`\pM`, ""}, {`x*`, "-"}, {`(?s).`, "$0$0"}}

func buildCharFilter(s FilterSpec) (analysis.CharFilter, error) {
	switch s.Name {
	case "asciifolding":
		return char.NewASCIIFoldingFilter(), nil
	case "html":
		return char.NewHTMLCharFilter(), nil
	case "zwnj":
		return char.NewZeroWidthNonJoinerCharFilter(), nil
	case "regexp":
		re, err := regexp.Compile(s.S1)
		if err != nil {
			return nil, err
		}
		return char.NewRegexpCharFilter(re, []byte(s.S2)), nil
	}
	return nil, fmt.Errorf("unknown char filter %q", s.Name)
}

func genCharFilter(t *rapid.T) FilterSpec {
	n := pickFrom(t, "charFilter", []string{"asciifolding", "asciifolding", "html", "html", "zwnj", "regexp", "regexp"})
	if n == "regexp" {
		p := pickFrom(t, "charPattern", charRegexps)
		return FilterSpec{Name: n, S1: p[0], S2: p[1]}
	}
	return FilterSpec{Name: n}
}

// ---------------------------------------------------------------------------------------------
// token filters

var plainFilters = map[string]func() analysis.TokenFilter{
	"apostrophe":         func() analysis.TokenFilter { return token.NewApostropheFilter() },
	"camelcase":          func() analysis.TokenFilter { return token.NewCamelCaseFilter() },
	"lowercase":          func() analysis.TokenFilter { return token.NewLowerCaseFilter() },
	"porter":             func() analysis.TokenFilter { return token.NewPorterStemmer() },
	"reverse":            func() analysis.TokenFilter { return token.NewReverseFilter() },
	"unique":             func() analysis.TokenFilter { return token.NewUniqueTermFilter() },
	"possessive_en":      func() analysis.TokenFilter { return en.NewPossessiveFilter() },
	"cjk_width":          func() analysis.TokenFilter { return cjk.NewWidthFilter() },
	"normalize_ar":       func() analysis.TokenFilter { return ar.NormalizeFilter() },
	"normalize_ckb":      func() analysis.TokenFilter { return ckb.NormalizeFilter() },
	"normalize_de":       func() analysis.TokenFilter { return de.NormalizeFilter() },
	"normalize_fa":       func() analysis.TokenFilter { return fa.NormalizeFilter() },
	"normalize_hi":       func() analysis.TokenFilter { return hi.NormalizeFilter() },
	"normalize_in":       func() analysis.TokenFilter { return indic.NormalizeFilter() },
	"stemmer_ar":         func() analysis.TokenFilter { return ar.StemmerFilter() },
	"stemmer_ckb":        func() analysis.TokenFilter { return ckb.StemmerFilter() },
	"stemmer_da":         func() analysis.TokenFilter { return da.StemmerFilter() },
	"stemmer_de":         func() analysis.TokenFilter { return de.StemmerFilter() },
	"stemmer_en":         func() analysis.TokenFilter { return en.StemmerFilter() },
	"stemmer_es":         func() analysis.TokenFilter { return es.StemmerFilter() },
	"stemmer_fi":         func() analysis.TokenFilter { return fi.StemmerFilter() },
	"stemmer_fr":         func() analysis.TokenFilter { return fr.StemmerFilter() },
	"stemmer_hi":         func() analysis.TokenFilter { return hi.StemmerFilter() },
	"stemmer_hu":         func() analysis.TokenFilter { return hu.StemmerFilter() },
	"stemmer_it":         func() analysis.TokenFilter { return it.StemmerFilter() },
	"stemmer_nl":         func() analysis.TokenFilter { return nl.StemmerFilter() },
	"stemmer_no":         func() analysis.TokenFilter { return no.StemmerFilter() },
	"stemmer_ro":         func() analysis.TokenFilter { return ro.StemmerFilter() },
	"stemmer_ru":         func() analysis.TokenFilter { return ru.StemmerFilter() },
	"stemmer_sv":         func() analysis.TokenFilter { return sv.StemmerFilter() },
	"stemmer_tr":         func() analysis.TokenFilter { return tr.StemmerFilter() },
	"light_stemmer_de":   func() analysis.TokenFilter { return de.LightStemmerFilter() },
	"light_stemmer_es":   func() analysis.TokenFilter { return es.LightStemmerFilter() },
	"light_stemmer_fr":   func() analysis.TokenFilter { return fr.LightStemmerFilter() },
	"light_stemmer_it":   func() analysis.TokenFilter { return it.LightStemmerFilter() },
	"light_stemmer_pt":   func() analysis.TokenFilter { return pt.LightStemmerFilter() },
	"minimal_stemmer_fr": func() analysis.TokenFilter { return fr.MinimalStemmerFilter() },
	"elision_ca":         func() analysis.TokenFilter { return ca.ElisionFilter() },
	"elision_fr":         func() analysis.TokenFilter { return fr.ElisionFilter() },
	"elision_ga":         func() analysis.TokenFilter { return ga.ElisionFilter() },
	"elision_it":         func() analysis.TokenFilter { return it.ElisionFilter() },
	"stop_ar":            func() analysis.TokenFilter { return ar.StopWordsFilter() },
	"stop_bg":            func() analysis.TokenFilter { return bg.StopWordsFilter() },
	"stop_ca":            func() analysis.TokenFilter { return ca.StopWordsFilter() },
	"stop_ckb":           func() analysis.TokenFilter { return ckb.StopWordsFilter() },
	"stop_cs":            func() analysis.TokenFilter { return cs.StopWordsFilter() },
	"stop_da":            func() analysis.TokenFilter { return da.StopWordsFilter() },
	"stop_de":            func() analysis.TokenFilter { return de.StopWordsFilter() },
	"stop_el":            func() analysis.TokenFilter { return el.StopWordsFilter() },
	"stop_en":            func() analysis.TokenFilter { return en.StopWordsFilter() },
	"stop_es":            func() analysis.TokenFilter { return es.StopWordsFilter() },
	"stop_eu":            func() analysis.TokenFilter { return eu.StopWordsFilter() },
	"stop_fa":            func() analysis.TokenFilter { return fa.StopWordsFilter() },
	"stop_fi":            func() analysis.TokenFilter { return fi.StopWordsFilter() },
	"stop_fr":            func() analysis.TokenFilter { return fr.StopWordsFilter() },
	"stop_ga":            func() analysis.TokenFilter { return ga.StopWordsFilter() },
	"stop_gl":            func() analysis.TokenFilter { return gl.StopWordsFilter() },
	"stop_hi":            func() analysis.TokenFilter { return hi.StopWordsFilter() },
	"stop_hu":            func() analysis.TokenFilter { return hu.StopWordsFilter() },
	"stop_hy":            func() analysis.TokenFilter { return hy.StopWordsFilter() },
	"stop_id":            func() analysis.TokenFilter { return id.StopWordsFilter() },
	"stop_it":            func() analysis.TokenFilter { return it.StopWordsFilter() },
	"stop_nl":            func() analysis.TokenFilter { return nl.StopWordsFilter() },
	"stop_no":            func() analysis.TokenFilter { return no.StopWordsFilter() },
	"stop_pt":            func() analysis.TokenFilter { return pt.StopWordsFilter() },
	"stop_ro":            func() analysis.TokenFilter { return ro.StopWordsFilter() },
	"stop_ru":            func() analysis.TokenFilter { return ru.StopWordsFilter() },
	"stop_sv":            func() analysis.TokenFilter { return sv.StopWordsFilter() },
	"stop_tr":            func() analysis.TokenFilter { return tr.StopWordsFilter() },
}

// configurable filters (parameters in the spec)
var paramFilters = []string{"cjk_bigram", "dict_compound", "edge_ngram", "ngram", "shingle", "truncate", "length", "elision", "stop", "keyword_marker", "unicode_normalize"}

var normForms = map[string]norm.Form{"nfc": norm.NFC, "nfd": norm.NFD, "nfkc": norm.NFKC, "nfkd": norm.NFKD}

func plainFilterNames() []string {
	var n []string
	for k := range plainFilters {
		n = append(n, k)
	}
	sort.Strings(n)
	return n
}

// langFilterNames lists the parameterless filters: the bundled stop filters (stop=true) or the rest.
func langFilterNames(stop bool) []string {
	var n []string
	for _, k := range plainFilterNames() {
		if strings.HasPrefix(k, "stop_") == stop {
			n = append(n, k)
		}
	}
	return n
}

func tokenMap(words []string) analysis.TokenMap {
	m := analysis.NewTokenMap()
	for _, w := range words {
		m.AddToken(w)
	}
	return m
}

func buildFilter(s FilterSpec) (analysis.TokenFilter, error) {
	if f, ok := plainFilters[s.Name]; ok {
		return f(), nil
	}
	switch s.Name {
	case "cjk_bigram":
		return cjk.NewBigramFilter(s.F1), nil
	case "dict_compound":
		return token.NewDictionaryCompoundFilter(tokenMap(s.Words), s.A, s.B, s.C, s.F1), nil
	case "edge_ngram":
		side := token.FRONT
		if s.F1 {
			side = token.BACK
		}
		return token.NewEdgeNgramFilter(side, s.A, s.B), nil
	case "ngram":
		return token.NewNgramFilter(s.A, s.B), nil
	case "shingle":
		return token.NewShingleFilter(s.A, s.B, s.F1, s.S1, s.S2), nil
	case "truncate":
		return token.NewTruncateTokenFilter(s.A), nil
	case "length":
		return token.NewLengthFilter(s.A, s.B), nil
	case "elision":
		return token.NewElisionFilter(tokenMap(s.Words)), nil
	case "stop":
		return token.NewStopTokensFilter(tokenMap(s.Words)), nil
	case "keyword_marker":
		return token.NewKeyWordMarkerFilter(tokenMap(s.Words)), nil
	case "unicode_normalize":
		f, ok := normForms[s.S1]
		if !ok {
			return nil, fmt.Errorf("unknown normalisation form %q", s.S1)
		}
		return token.NewUnicodeNormalizeFilter(f), nil
	}
	return nil, fmt.Errorf("unknown token filter %q", s.Name)
}

// genFilter draws one token filter with parameters over their sane ranges.
func genFilter(t *rapid.T, tx Text) FilterSpec {
	// half of the draws go to the configurable filters and the generic ones of analysis/token,
	// the rest to the language filters
	generic := []string{"apostrophe", "camelcase", "camelcase", "lowercase", "lowercase", "porter", "reverse", "reverse", "unique",
		"cjk_bigram", "cjk_bigram", "cjk_width", "dict_compound", "dict_compound", "edge_ngram", "edge_ngram", "ngram", "ngram", "shingle", "shingle", "shingle",
		"truncate", "length", "elision", "stop", "keyword_marker", "unicode_normalize", "possessive_en"}
	var name string
	switch fam := pick(t, "filterFamily", 20); {
	case fam < 10:
		name = pickFrom(t, "filter", generic)
	case fam < 18:
		name = pickFrom(t, "langFilter", langFilterNames(false))
	default:
		name = pickFrom(t, "stopFilter", langFilterNames(true))
	}
	s := FilterSpec{Name: name}
	switch name {
	case "cjk_bigram":
		s.F1 = rapid.Bool().Draw(t, "outputUnigram")
	case "dict_compound":
		s.Words = wordsFromText(t, tx, "dict")
		s.A = rapid.IntRange(1, 8).Draw(t, "minWordSize")
		s.B = rapid.IntRange(1, 4).Draw(t, "minSubWordSize")
		s.C = rapid.IntRange(s.B, 15).Draw(t, "maxSubWordSize")
		s.F1 = rapid.Bool().Draw(t, "onlyLongestMatch")
	case "edge_ngram":
		s.F1 = rapid.Bool().Draw(t, "back")
		s.A = rapid.IntRange(1, 6).Draw(t, "min")
		s.B = rapid.IntRange(s.A, 6).Draw(t, "max")
	case "ngram":
		s.A = rapid.IntRange(1, 6).Draw(t, "min")
		s.B = rapid.IntRange(s.A, 6).Draw(t, "max")
	case "shingle":
		s.A = rapid.IntRange(2, 5).Draw(t, "min")
		s.B = rapid.IntRange(s.A, 5).Draw(t, "max")
		s.F1 = rapid.Bool().Draw(t, "outputOriginal")
		s.S1 = rapid.SampledFrom([]string{" ", " ", "", "_", "　"}).Draw(t, "separator")
		s.S2 = rapid.SampledFrom([]string{"_", "_", "", "x", "é"}).Draw(t, "filler")
	case "truncate":
		s.A = rapid.IntRange(1, 10).Draw(t, "length")
	case "length":
		s.A = rapid.IntRange(0, 10).Draw(t, "min")
		s.B = rapid.IntRange(0, 10).Draw(t, "max")
	case "elision":
		s.Words = append(wordsFromText(t, tx, "articles"), rapid.SampledFrom([][]string{{"l", "d", "qu"}, {"dell", "un"}, {"m", "b"}, {""}, nil}).Draw(t, "articleSet")...)
	case "stop", "keyword_marker":
		s.Words = wordsFromText(t, tx, "words")
	case "unicode_normalize":
		s.S1 = pickFrom(t, "form", []string{"nfc", "nfd", "nfkc", "nfkd"})
	}
	return s
}

// genPre draws a stage that only removes or marks tokens (terms and offsets stay what the
// tokenizer produced), so that the filter under test also sees position gaps and keyword flags.
func genPre(t *rapid.T, tx Text) FilterSpec {
	switch pick(t, "preKind", 4) {
	case 0:
		return FilterSpec{Name: "length", A: rapid.IntRange(0, 4).Draw(t, "preMin"), B: rapid.IntRange(0, 8).Draw(t, "preMax")}
	case 1:
		return FilterSpec{Name: "keyword_marker", Words: wordsFromText(t, tx, "preKeywords")}
	default:
		w := wordsFromText(t, tx, "preStop")
		if len(tx.Words) > 0 {
			w = append(w, rapid.SampledFrom(tx.Words).Draw(t, "preStopWord"))
		}
		return FilterSpec{Name: "stop", Words: w}
	}
}

// build constructs a fresh analyzer for a spec.
func build(s Spec) (*analysis.Analyzer, error) {
	if s.Kind == "analyzer" {
		f, ok := analyzers[s.Analyzer]
		if !ok {
			return nil, fmt.Errorf("unknown analyzer %q", s.Analyzer)
		}
		return f(), nil
	}
	if s.Tokenizer == nil {
		return nil, fmt.Errorf("spec without tokenizer")
	}
	a := &analysis.Analyzer{}
	tk, err := buildTokenizer(*s.Tokenizer)
	if err != nil {
		return nil, err
	}
	a.Tokenizer = tk
	for _, c := range s.Char {
		cf, err := buildCharFilter(c)
		if err != nil {
			return nil, err
		}
		a.CharFilters = append(a.CharFilters, cf)
	}
	if s.Pre != nil {
		switch s.Pre.Name {
		case "stop", "length", "keyword_marker":
		default:
			return nil, fmt.Errorf("stage %q is not allowed in front of the filter under test", s.Pre.Name)
		}
		f, err := buildFilter(*s.Pre)
		if err != nil {
			return nil, err
		}
		a.TokenFilters = append(a.TokenFilters, f)
	}
	if s.Kind == "filter" && len(s.Filters) != 1 {
		return nil, fmt.Errorf("a filter case holds exactly one filter")
	}
	for _, fs := range s.Filters {
		f, err := buildFilter(fs)
		if err != nil {
			return nil, err
		}
		a.TokenFilters = append(a.TokenFilters, f)
	}
	return a, nil
}
