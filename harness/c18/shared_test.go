package c18

// One analyzer instance, several goroutines.  Writer.Batch analyses the documents of a batch in
// parallel analysis workers and every field without an analyzer of its own shares the writer's
// default analyzer; searches running in parallel share the query's analyzer.  "Gives the same
// tokens every time" therefore includes: the same tokens as a sequential run when the instance is
// used by several goroutines at once (each goroutine with its own input buffer).
//
// Added by the main agent after seeded change C18-4 (CJK bigram filter keeps its ring buffer in
// the filter value) was missed by the sequential clauses.

import (
	"fmt"
	"strconv"
	"sync"
	"testing"

	"github.com/blugelabs/bluge/analysis"
	"pgregory.net/rapid"

	"verifharness/vlib"
)

type SharedCase struct {
	Spec    Spec     `json:"spec"`
	Inputs  [][]byte `json:"inputs"`
	Quoted  []string `json:"quoted"`
	Workers int      `json:"workers"`
	Rounds  int      `json:"rounds"`
}

func evaluateShared(c SharedCase) (*vlib.Failure, int) {
	sub := c.Spec.subject()
	a, err := build(c.Spec)
	if err != nil {
		return vlib.Failf("harness-bad-spec", "%v", err), 0
	}
	// sequential baseline on a fresh instance
	base := make([][]Tok, len(c.Inputs))
	var analysed int
	f := vlib.Watchdog("analyze", CallBoundShared, func() *vlib.Failure {
		b, _ := build(c.Spec)
		for i, in := range c.Inputs {
			base[i] = snapshot(b.Analyze(append([]byte(nil), in...)))
		}
		return nil
	})
	if f != nil {
		return refine(f), 0
	}
	var mu sync.Mutex
	var first *vlib.Failure
	f = vlib.Watchdog("analyze(shared)", CallBoundShared, func() *vlib.Failure {
		var wg sync.WaitGroup
		start := make(chan struct{})
		for w := 0; w < c.Workers; w++ {
			wg.Add(1)
			go func(w int) {
				defer wg.Done()
				g := vlib.Guard("analyze(shared)", func() *vlib.Failure {
					<-start
					for r := 0; r < c.Rounds; r++ {
						for k := range c.Inputs {
							i := (k + w) % len(c.Inputs)
							got := snapshot(a.Analyze(append([]byte(nil), c.Inputs[i]...)))
							mu.Lock()
							analysed++
							stop := first != nil
							mu.Unlock()
							if stop {
								return nil
							}
							if !sameToks(got, base[i]) {
								return vlib.Failf("shared-analyzer-differs@"+sub, "input %d (%s) analysed by one instance from %d goroutines at once differs from the sequential run: %s", i, strconv.Quote(string(c.Inputs[i])), c.Workers, firstDiff(base[i], got))
							}
						}
					}
					return nil
				})
				if g != nil {
					mu.Lock()
					if first == nil {
						first = refine(g)
					}
					mu.Unlock()
				}
			}(w)
		}
		close(start)
		wg.Wait()
		return nil
	})
	if f != nil {
		return refine(f), analysed
	}
	return first, analysed
}

// CallBoundShared bounds one shared-analyzer case (µs..ms normally).
const CallBoundShared = vlib.CallBound

func sharedSpecs() []Spec {
	var specs []Spec
	for _, n := range analyzerNames() {
		specs = append(specs, Spec{Kind: "analyzer", Analyzer: n})
	}
	return specs
}

func TestC18SharedAnalyzer(t *testing.T) {
	specs := sharedSpecs()
	subjects := fuzzSubjects()
	vlib.Check(t, 600, 3000, func(rt *rapid.T) {
		var s Spec
		if pick(rt, "fromFuzzTable", 3) == 0 {
			s = pickFrom(rt, "subject", subjects)
		} else {
			s = pickFrom(rt, "analyzer", specs)
		}
		n := 2 + pick(rt, "nInputs", 5)
		c := SharedCase{Spec: s, Workers: 4, Rounds: 6}
		tokens := 0
		var tx Text
		for i := 0; i < n; i++ {
			tx = genText(rt)
			c.Inputs = append(c.Inputs, tx.Bytes)
			c.Quoted = append(c.Quoted, strconv.Quote(string(tx.Bytes)))
		}
		f, analysed := evaluateShared(c)
		for _, in := range c.Inputs {
			if len(in) > 0 {
				tokens++
			}
		}
		nt := analysed >= c.Workers*len(c.Inputs) && tokens >= 2
		ev.Case(vlib.Canon(c), nt, "shared-analyzer", "shared:"+s.subject())
		ev.Evals(analysed)
		ev.AddExtra("analyses_run_concurrently_on_a_shared_instance", analysed)
		if nt && len(c.Inputs) <= 3 {
			ev.Sample(map[string]interface{}{"shared": fmt.Sprintf("%s: %d goroutines x %d rounds over %d inputs", s.subject(), c.Workers, c.Rounds, len(c.Inputs)), "inputs": c.Quoted}, nt)
		}
		vlib.Report(rt, ev, "shared", c, f)
	})
}

var _ = analysis.TokenStream(nil)
