package c18

// Text generators for C18: script-aware words mixed with hostile byte sequences.  All randomness
// is drawn from rapid, so failing cases shrink.

import (
	"sort"
	"strings"
	"unicode/utf8"

	"github.com/blugelabs/bluge/analysis"
	"github.com/blugelabs/bluge/analysis/lang/ar"
	"github.com/blugelabs/bluge/analysis/lang/ckb"
	"github.com/blugelabs/bluge/analysis/lang/de"
	"github.com/blugelabs/bluge/analysis/lang/en"
	"github.com/blugelabs/bluge/analysis/lang/es"
	"github.com/blugelabs/bluge/analysis/lang/fa"
	"github.com/blugelabs/bluge/analysis/lang/fr"
	"github.com/blugelabs/bluge/analysis/lang/hi"
	"github.com/blugelabs/bluge/analysis/lang/it"
	"github.com/blugelabs/bluge/analysis/lang/ru"
	"github.com/blugelabs/bluge/analysis/lang/tr"
	"pgregory.net/rapid"
)

// pick draws an index in [0,n) (nearly) uniformly.  rapid's integer generators favour small
// values and range ends (index 0 of 24 came up four times as often as index 20), which is good
// for sizes but wrong for choosing a subject; two draws are scrambled together (one scrambled draw
// still gave a 3.5:1 spread, two give 1.2:1).
func pick(t *rapid.T, label string, n int) int {
	x := mix64(rapid.Uint64().Draw(t, label)) + rapid.Uint64().Draw(t, label+"'")
	return int(mix64(x) % uint64(n))
}

func mix64(x uint64) uint64 {
	x += 0x9e3779b97f4a7c15
	x = (x ^ (x >> 30)) * 0xbf58476d1ce4e5b9
	x = (x ^ (x >> 27)) * 0x94d049bb133111eb
	return x ^ (x >> 31)
}

func pickFrom[T any](t *rapid.T, label string, xs []T) T { return xs[pick(t, label, len(xs))] }

type script struct {
	name     string
	letters  []rune   // base letters
	marks    []rune   // combining marks / diacritics / joiners that may follow a letter
	words    []string // whole words worth meeting (stop words, stemmable forms, elisions)
	suffixes []string // endings the stemmers of this script look for
	prefixes []string
}

func rr(lo, hi rune) []rune {
	var r []rune
	for c := lo; c <= hi; c++ {
		r = append(r, c)
	}
	return r
}

func cat(rs ...[]rune) []rune {
	var r []rune
	for _, x := range rs {
		r = append(r, x...)
	}
	return r
}

func someWords(m analysis.TokenMap, n int) []string {
	var all []string
	for w := range m {
		all = append(all, w)
	}
	sort.Strings(all)
	if len(all) <= n {
		return all
	}
	// spread over the sorted list (deterministic)
	out := make([]string, 0, n)
	for i := 0; i < n; i++ {
		out = append(out, all[i*len(all)/n])
	}
	return out
}

var scripts = buildScripts()

func buildScripts() []script {
	latin := script{
		name: "latin",
		letters: cat(rr('a', 'z'), rr('a', 'z'), rr('A', 'Z'), rr('0', '9'),
			[]rune("éèêëàâäáãåçñöôóòõøüûúùïîíìÿßæœšžčřěůđłńśźżőűășțğşıİ"),
			[]rune("ÉÈÀÄÖÜÑÇØÅÆŒŠŽ"),
			[]rune("\u023a\u023e\u212a\u212b\u03a3\u03c3\u03c2\u01c5\u1e9e\u017f\u0149\u01f0\u0390\u0130\u0131")), // case-special runes (other case has another width)
		marks: []rune{0x0301, 0x0300, 0x0308, 0x0327, 0x20DD, 0x0483},
		words: append(append(append(append(append(append([]string{
			"l'avion", "L’Avion", "d'une", "dell'arte", "un'altra", "qu'il", "j'aime", "m'encanta", "b'fhearr", "d’aon",
			"John's", "JOHN'S", "cat’s", "boss＇s", "'s", "s", "’S", "it's",
			"İstanbul'a", "Türkiye'nin", "kapı'yı",
			"camelCase", "CamelCASEParser", "XMLHttpRequest", "iPhone6s", "snake_case_9x", "ABCdef123GHI", "aB", "Ab1",
			"running", "generously", "nationalization", "conditional", "happiness", "babies", "agreed", "sensational",
			"Rindfleischetikettierungsüberwachungsaufgabenübertragungsgesetz", "Häuser", "Straße", "Mädchen", "größer", "aeiou", "Bauer", "queue",
			"softball", "basketball", "fußballschuhe", "dampfschiff", "Donaudampfschiff",
			"chevaux", "journaux", "heureuses", "nationale", "bellissimo", "abbandonata", "ciudades", "habitaciones", "felices", "ações", "cães", "quilométricas",
			"katten", "kattene", "lopen", "löparen", "talossa", "házakban", "copiilor", "evlerinde",
			"user@example.com", "http://example.com/a_b?q=1", "www.site.org/path", "@handle_1", "#hashTag9", "a.b@c", "ftp://x",
			"<b>", "</i>", "<a href=\"x\">", "<br/>", "<!doctype html>", "<p class='q'>", "<>", "<", "&amp;",
			"3.14", "1e9", "-7", "0x1F", "１２３", "ＡＢＣ", "ｆｕｌｌ",
		}, someWords(en.StopWords(), 12)...), someWords(fr.StopWords(), 8)...), someWords(de.StopWords(), 8)...),
			someWords(es.StopWords(), 6)...), someWords(it.StopWords(), 6)...), someWords(tr.StopWords(), 6)...),
		suffixes: []string{"ing", "ed", "s", "es", "ly", "ness", "ation", "ational", "ization", "ement", "mente", "ungen", "ern", "est", "en", "ene", "erne", "heden",
			"ssa", "ban", "ului", "lerinde", "ità", "zione", "eaux", "aux", "ées", "ção", "ões", "'s", "’s", "ismo", "ista", "amente"},
		prefixes: []string{"l'", "d’", "dell'", "qu'", "un'", "m'", "ge", "un", "re"},
	}
	arabic := script{
		name: "arabic",
		letters: cat(rr(0x0621, 0x063A), rr(0x0641, 0x064A),
			[]rune{0x067E, 0x0686, 0x0698, 0x06AF, 0x06A9, 0x06CC, 0x06C0, 0x06D5, 0x06D2, 0x06C1, // Persian
				0x0695, 0x06B5, 0x06CE, 0x06C6, 0x06BE, 0x0692, // Sorani
				0x0660, 0x0661, 0x0669, 0x06F1, 0x06F9}),
		marks: []rune{0x064B, 0x064C, 0x064D, 0x064E, 0x064F, 0x0650, 0x0651, 0x0652, 0x0640, 0x200C, 0x0654, 0x0670, 0x200D, 0x200E},
		words: append(append(append([]string{
			"الكتاب", "والكتاب", "بالكتاب", "كالكتاب", "فالكتاب", "للكتاب", "مشروبات", "أمريكيين", "ساهدهات", "كبيرة", "وحسن",
			"می‌خورد", "کتاب‌ها", "خورده‌ای", "بوده‌است", "ۀ", "ہے",
			"پیاوەکە", "پیاوێکی", "ناوچەکان", "دەستەکانمان", "کتێبەکانیان", "نەتەوەیەکی", "ژمارەیەک", "بەرزاییانە", "ڕۆژ", "ره‌", "ههٔ",
		}, someWords(ar.StopWords(), 8)...), someWords(fa.StopWords(), 8)...), someWords(ckb.StopWords(), 8)...),
		suffixes: []string{"ها", "ان", "ات", "ون", "ين", "يه", "ية", "ه", "ة", "ي", "دا", "نا", "ەوە", "مان", "یان", "تان", "ێکی", "یەکی", "ێک", "یەک", "ەکە", "کە", "ەکان", "کان", "یانی", "انی", "یانە", "انە", "ایە", "ەیە", "ە", "ی"},
		prefixes: []string{"ال", "وال", "بال", "كال", "فال", "لل", "و"},
	}
	cyr := script{
		name:     "cyrillic",
		letters:  cat(rr(0x0430, 0x044F), rr(0x0430, 0x044F), rr(0x0410, 0x042F), []rune{0x0451, 0x0401, 0x0456, 0x0457, 0x0454, 0x0491, 0x045E}),
		marks:    []rune{0x0301, 0x0483, 0x0488},
		words:    append([]string{"километрах", "вместе", "силой", "знанием", "красивые", "бегущими", "России", "българи", "ЁЖИК"}, someWords(ru.StopWords(), 10)...),
		suffixes: []string{"ами", "ого", "ыми", "ость", "ться", "ешь", "ия", "ов", "ах", "ий", "ую"},
	}
	deva := script{
		name:    "devanagari",
		letters: cat(rr(0x0905, 0x0939), rr(0x0958, 0x0961), rr(0x0966, 0x096F), []rune{0x0972, 0x0950}),
		marks: cat(rr(0x093E, 0x094D), []rune{0x093C, 0x0901, 0x0902, 0x0903, 0x0962, 0x0963, 0x200D, 0x200C, 0x0951},
			[]rune{0x094D, 0x094D, 0x093C}),
		words: append([]string{"हिंदी", "हिन्दी", "क़िताब", "लडकों", "लड़कियाँ", "जाऊंगा", "खाएगी", "करेंगे", "किताबें", "अँगरेज़ी", "ऑस्ट्रेलिया", "ख़ुशी", "न्", "क्‍ष", "र्‌क", "अंग्रेजी", "अाैर",
			"বাংলা", "கதை", "ਪੰਜਾਬੀ", "ગુજરાતી", "ଓଡ଼ିଆ", "తెలుగు", "ಕನ್ನಡ", "മലയാളം", "ৎ", "র‍্য", "ਆ", "ଏ୍ୗ"}, someWords(hi.StopWords(), 10)...),
		suffixes: []string{"ाएंगी", "ाऊंगा", "ाइयों", "ाएगी", "ेंगे", "ियाँ", "ियों", "ाकर", "ाया", "ेगा", "ाती", "ाओं", "कर", "ना", "ते", "ता", "ों", "ें", "ो", "े", "ी", "ा"},
	}
	cjkS := script{
		name: "cjk",
		letters: cat([]rune("世界日本語中文漢字東京大阪北京上海学校電話会社人間時間"), rr(0x3041, 0x3096), rr(0x30A1, 0x30FA),
			rr(0xFF66, 0xFF9D), rr(0xFF66, 0xFF9D), // half-width katakana
			[]rune{0xFF9E, 0xFF9F, 0xFF9E, 0xFF9F, 0xFF65, 0xFF70}, // half-width (semi-)voiced marks, middle dot, prolonged
			rr(0xFF21, 0xFF3A), rr(0xFF41, 0xFF5A), rr(0xFF10, 0xFF19), []rune{0xFF01, 0xFF0C, 0xFF5E, 0xFF07}, // full-width ASCII
			[]rune("한국어조선말"), []rune{0x3000, 0x3001, 0x3002, 0x30FB, 0x30FC, 0x3005, 0x20BB7, 0x2F800}),
		marks: []rune{0xFF9E, 0xFF9F, 0x3099, 0x309A, 0x30FC},
		words: []string{"こんにちは世界", "ｶﾞｷﾞｸﾞ", "ﾊﾟﾋﾟﾌﾟ", "ｳﾞ", "ﾞ", "ｶﾟ", "ｺﾝﾆﾁﾊ", "Ｔｅｓｔ　１２３４", "一二三四五六七八九十", "東京ﾀﾜｰ", "abc世界def", "한국어", "世 界", "一", "ヽﾞ", "ヷ", "ﾜﾞ", "ヲﾞ"},
	}
	emoji := script{
		name:    "emoji",
		letters: []rune{0x1F600, 0x1F468, 0x1F469, 0x1F467, 0x2764, 0x1F1E9, 0x1F1EA, 0x1F3FD, 0x261D, 0x00A9, 0x2603, 0x1F4A9, 0x2122, 0x1F170},
		marks:   []rune{0x200D, 0xFE0F, 0x1F3FB, 0x20E3, 0xFE0E, 0xE0067},
		words:   []string{"👨‍👩‍👧‍👦", "🇩🇪🇫🇷", "1️⃣", "☝🏽", "❤️", "👍🏿ok", "a😀b"},
	}
	greek := script{
		name:     "greek-armenian",
		letters:  cat(rr(0x03B1, 0x03C9), rr(0x0391, 0x03A9), []rune("άέήίόύώϊϋΐΰ"), rr(0x0561, 0x0586), rr(0x0531, 0x0556)),
		marks:    []rune{0x0301, 0x0308, 0x0342, 0x0345},
		words:    []string{"ΟΔΥΣΣΕΥΣ", "Σίσυφος", "ΑΣ", "ΣΣ", "Σ", "και", "το", "είναι", "այդ", "է", "եմ", "ΐ", "և"},
		suffixes: []string{"ος", "ΟΣ", "ες", "ων"},
	}
	return []script{latin, arabic, cyr, deva, cjkS, emoji, greek}
}

// separators between pieces
var separators = []string{" ", " ", " ", " ", "", "", "  ", "\t", "\n", "\r\n", ".", ",", ", ", ". ", ";", "-", "_", "/", ":", "'", "\u2019", "!", "?", "(", ")", "\"", "@", "#", "&", "=", "<", ">",
	"\u00a0", "\u3000", "\u200c", "\u200b", "\u2009", "\u0085", "\u200d", "\u00ad", "\ufeff", "\u2028"}

// hostile constants: invalid, truncated and odd encodings
var hostile = []string{
	"\x80", "\xbf", "\xc0", "\xc0\x80", "\xc1\xbf", "\xc2", "\xe0\x80\x80", "\xe4\xb8", "\xe4", "\xed\xa0\x80", "\xed\xbf\xbf", "\xef\xbf", "\xef\xbf\xbd", "\xef\xbf\xbe",
	"\xf0\x9f\x98", "\xf0\x9f", "\xf0", "\xf4\x90\x80\x80", "\xf5", "\xf8\x88\x80\x80\x80", "\xfe", "\xff", "\xfe\xff", "\xff\xfe", "\x00", "\x00\x00", "\x7f", "\x1b[0m", "\x01",
	"\xd9", "\xe0\xa4", "\xd0", "\xef\xbe", "\xe3\x81", "\xce", "\u0301", "\u094d", "\u200c", "\u200d", "\ufe0f", "\uff9e",
}

// Text is a generated input plus the words it was assembled from (for dictionaries).
type Text struct {
	Bytes   []byte
	Words   []string
	Scripts map[string]bool
}

func genWord(t *rapid.T, sc *script) string {
	k := pick(t, "wordKind", 10)
	switch {
	case k <= 2 && len(sc.words) > 0:
		return pickFrom(t, "word", sc.words)
	case k == 3 && len(sc.suffixes) > 0:
		// stem + an ending the stemmers look for (+ optional prefix)
		var b strings.Builder
		if len(sc.prefixes) > 0 && rapid.Bool().Draw(t, "withPrefix") {
			b.WriteString(pickFrom(t, "prefix", sc.prefixes))
		}
		n := rapid.IntRange(0, 7).Draw(t, "stemLen")
		for i := 0; i < n; i++ {
			b.WriteRune(rapid.SampledFrom(sc.letters).Draw(t, "letter"))
		}
		b.WriteString(pickFrom(t, "suffix", sc.suffixes))
		if rapid.IntRange(0, 3).Draw(t, "twoSuffixes") == 0 {
			b.WriteString(pickFrom(t, "suffix2", sc.suffixes))
		}
		return b.String()
	default:
		n := rapid.IntRange(1, 12).Draw(t, "wordLen")
		var b strings.Builder
		for i := 0; i < n; i++ {
			b.WriteRune(rapid.SampledFrom(sc.letters).Draw(t, "letter"))
			if len(sc.marks) > 0 && rapid.IntRange(0, 5).Draw(t, "mark") == 0 {
				b.WriteRune(rapid.SampledFrom(sc.marks).Draw(t, "markRune"))
			}
		}
		return b.String()
	}
}

func genHostile(t *rapid.T) string {
	switch pick(t, "hostileKind", 6) {
	case 0, 1, 2:
		return pickFrom(t, "hostileConst", hostile)
	case 3:
		// raw bytes
		return string(rapid.SliceOfN(rapid.Byte(), 1, 4).Draw(t, "rawBytes"))
	case 4:
		// a rune of some script cut short
		sc := &scripts[pick(t, "cutScript", len(scripts))]
		r := rapid.SampledFrom(sc.letters).Draw(t, "cutRune")
		var buf [4]byte
		n := utf8.EncodeRune(buf[:], r)
		if n == 1 {
			return string(buf[:1]) + "\x80"
		}
		return string(buf[:rapid.IntRange(1, n-1).Draw(t, "cutAt")])
	default:
		// high bytes only
		return string(rapid.SliceOfN(rapid.ByteRange(0x80, 0xff), 1, 3).Draw(t, "highBytes"))
	}
}

// genText draws an input.  hostility: 0 = valid UTF-8 only, 1 = default mix, 2 = mostly hostile.
func genText(t *rapid.T) Text {
	var tx Text
	tx.Scripts = map[string]bool{}
	shape := pick(t, "shape", 200)
	switch {
	case shape == 0:
		return tx // the empty input
	case shape == 1:
		// one very long token (> 4096 bytes), optionally with a neighbour
		sc := &scripts[pick(t, "longScript", len(scripts))]
		unit := genWord(t, sc)
		if unit == "" || strings.TrimSpace(unit) == "" {
			unit = "x"
		}
		var b strings.Builder
		for b.Len() <= 4096+rapid.IntRange(0, 600).Draw(t, "longExtra") {
			b.WriteString(unit)
		}
		if rapid.Bool().Draw(t, "longTail") {
			b.WriteString(" ")
			b.WriteString(genWord(t, sc))
			if rapid.Bool().Draw(t, "longTailBad") {
				b.WriteString(genHostile(t))
			}
		}
		tx.Bytes = []byte(b.String())
		tx.Words = []string{unit}
		tx.Scripts[sc.name] = true
		tx.Scripts["long-token"] = true
		return tx
	}
	hostility := pick(t, "hostility", 10) // 0-2: none, 3-8: some, 9: mostly
	mainScript := pick(t, "mainScript", len(scripts))
	n := 1 + pick(t, "pieces", 14)
	if shape < 14 {
		n = 15 + pick(t, "manyPieces", 46)
	}
	var b []byte
	for i := 0; i < n; i++ {
		h := pick(t, "pieceKind", 20)
		bad := false
		switch {
		case hostility >= 9:
			bad = h < 12
		case hostility >= 3:
			bad = h < 3
		}
		if bad {
			s := genHostile(t)
			b = append(b, s...)
			tx.Scripts["hostile"] = true
			if rapid.Bool().Draw(t, "glue") {
				continue // no separator: the bad bytes sit inside or next to a word
			}
		} else {
			si := mainScript
			if pick(t, "otherScript", 5) == 0 {
				si = pick(t, "script", len(scripts))
			}
			sc := &scripts[si]
			w := genWord(t, sc)
			b = append(b, w...)
			tx.Words = append(tx.Words, w)
			tx.Scripts[sc.name] = true
		}
		b = append(b, pickFrom(t, "sep", separators)...)
	}
	tx.Bytes = b
	return tx
}

// wordsFromText draws a word list related to the text: whole words, rune substrings of words,
// lower-cased forms and a few unrelated entries; used for stop lists, keyword lists, dictionaries.
func wordsFromText(t *rapid.T, tx Text, label string) []string {
	n := rapid.IntRange(0, 6).Draw(t, label+"N")
	seen := map[string]bool{}
	var out []string
	add := func(s string) {
		if !seen[s] {
			seen[s] = true
			out = append(out, s)
		}
	}
	for i := 0; i < n; i++ {
		if len(tx.Words) == 0 || rapid.IntRange(0, 5).Draw(t, label+"Foreign") == 0 {
			sc := &scripts[pick(t, label+"Script", len(scripts))]
			add(genWord(t, sc))
			continue
		}
		w := pickFrom(t, label+"Word", tx.Words)
		rs := []rune(w)
		switch rapid.IntRange(0, 3).Draw(t, label+"Form") {
		case 0:
			add(w)
		case 1:
			add(strings.ToLower(w))
		default:
			if len(rs) > 0 {
				a := rapid.IntRange(0, len(rs)-1).Draw(t, label+"From")
				z := rapid.IntRange(a+1, min(len(rs), a+8)).Draw(t, label+"To")
				add(string(rs[a:z]))
			}
		}
	}
	return out
}
