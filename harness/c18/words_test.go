package c18

// Short-word sweep (exhaustive small scope for the word-rewriting components).  Stemmers and
// normalisers are chains of suffix rules that index from the end of the rune slice; a rule that
// forgets to re-check the length after an earlier rule shortened the word fails for ONE word shape
// (seeded change C18-5: the French light stemmer on words shaped [^e]erie, e.g. "série").  A word
// generator meets such a shape by luck; the sweep enumerates every word up to a length bound over a
// small alphabet of the letters those rules look at, per script, and puts the words - in chunks,
// whitespace separated - through the 24 analyzers and every stemming / normalising / elision
// filter of the fuzz table with the full oracle of evaluate().  A failing chunk is narrowed to a
// single word when one word alone reproduces the key.

import (
	"fmt"
	"strings"
	"testing"

	"verifharness/vlib"
)

type wordAlphabet struct {
	name     string
	letters  []rune
	maxQuick int // longest word in the quick tier
	maxFull  int // ... in the thorough tier
}

var wordAlphabets = []wordAlphabet{
	// vowels, the consonants of the common Romance / Germanic endings, one accented vowel
	{"latin", []rune("aeiourstnlé"), 5, 6},
	{"latin-2", []rune("aeimngdcxzy"), 4, 5},
	// alef, lam, ta, ya, nun, ha, waw, mim, ta marbuta, kaf, tatweel
	{"arabic", []rune("التينهومةكـ"), 4, 5},
	{"cyrillic", []rune("аеиоуйятснь"), 4, 5},
	// ka, ra, na, ya + the matras and signs the Hindi stemmer / normaliser look at
	{"devanagari", []rune("करनयाीोेंँ्"), 4, 5},
}

func wordSubjects() []Spec {
	var out []Spec
	for _, s := range fuzzSubjects() {
		switch {
		case s.Kind == "analyzer":
			out = append(out, s)
		case s.Kind == "filter" && len(s.Filters) == 1:
			n := s.Filters[0].Name
			if strings.Contains(n, "stemmer") || strings.HasPrefix(n, "normalize_") || strings.HasPrefix(n, "elision") || n == "porter" || n == "possessive_en" || n == "apostrophe" {
				out = append(out, s)
			}
		}
	}
	return out
}

// eachWord calls f with every word of 1..max letters over the alphabet, in a fixed order.
func eachWord(letters []rune, max int, f func(w []rune)) {
	buf := make([]rune, 0, max)
	var rec func()
	rec = func() {
		if len(buf) > 0 {
			f(buf)
		}
		if len(buf) == max {
			return
		}
		for _, r := range letters {
			buf = append(buf, r)
			rec()
			buf = buf[:len(buf)-1]
		}
	}
	rec()
}

const wordsPerChunk = 3000

func narrowWord(s Spec, words []string, key string) (Case, *vlib.Failure, bool) {
	// bisect while one half alone reproduces the key
	for len(words) > 1 {
		h := len(words) / 2
		left, right := words[:h], words[h:]
		if g, _ := evaluate(mkCase(s, []byte(strings.Join(left, " ")), false, false)); g != nil && g.Key == key {
			words = left
			continue
		}
		if g, _ := evaluate(mkCase(s, []byte(strings.Join(right, " ")), false, false)); g != nil && g.Key == key {
			words = right
			continue
		}
		return Case{}, nil, false
	}
	c := mkCase(s, []byte(words[0]), false, false)
	g, _ := evaluate(c)
	if g != nil && g.Key == key {
		g.Msg = fmt.Sprintf("short-word sweep, word %q: %s", words[0], g.Msg)
		return c, g, true
	}
	return Case{}, nil, false
}

func TestC18ShortWords(t *testing.T) {
	sh, n := vlib.Shard()
	subjects := wordSubjects()
	words, chunks, k := 0, 0, 0
	for _, al := range wordAlphabets {
		max := al.maxQuick
		if vlib.Thorough() {
			max = al.maxFull
		}
		var chunk []string
		stop := false
		flush := func() {
			if len(chunk) == 0 || stop {
				chunk = chunk[:0]
				return
			}
			k++
			mine := k%n == sh
			ws := chunk
			chunk = nil
			if !mine {
				return
			}
			chunks++
			words += len(ws)
			in := []byte(strings.Join(ws, " "))
			for _, s := range subjects {
				c := mkCase(s, in, false, false)
				f, st := evaluate(c)
				ev.Case(vlib.Canon(c), st.Tokens >= 2, "test:short-words", "words:"+al.name)
				if f != nil {
					if c1, f1, ok := narrowWord(s, ws, f.Key); ok {
						c, f = c1, f1
					} else {
						f.Msg = fmt.Sprintf("short-word sweep, alphabet %s, %d words from %q: %s", al.name, len(ws), ws[0], f.Msg)
					}
				}
				if vlib.Report(t, ev, "case", c, f) {
					stop = true
					return
				}
			}
		}
		eachWord(al.letters, max, func(w []rune) {
			if stop {
				return
			}
			chunk = append(chunk, string(w))
			if len(chunk) == wordsPerChunk {
				flush()
			}
		})
		flush()
		if stop {
			return
		}
	}
	ev.AddExtra("short_word_sweep_words_this_run", words)
	ev.AddExtra("short_word_sweep_chunks_this_run", chunks)
	if sh == 0 {
		ev.Extra("short_word_sweep_subjects", len(subjects))
		var desc []string
		for _, al := range wordAlphabets {
			max := al.maxQuick
			if vlib.Thorough() {
				max = al.maxFull
			}
			desc = append(desc, fmt.Sprintf("%s: %q up to %d letters", al.name, string(al.letters), max))
		}
		ev.Extra("short_word_sweep_alphabets", desc)
	}
}
