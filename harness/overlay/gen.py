#!/usr/bin/env python3
"""Build overlay for C13: makes (*os.File).Sync / Truncate / Close observable (and failable) from a test
without changing bluge.

  python3 gen.py <outdir>

Writes <outdir>/file_posix.go, a copy of the toolchain's own os/file_posix.go in which
  * (*File).Sync     calls  VerifSyncHook(f)      after checkValid, before the fsync;
  * (*File).Truncate calls  VerifTruncateHook(f, size) after checkValid, before the ftruncate;
  * (*File).Close    calls  VerifCloseHook(f, err) after the descriptor was closed;
a non-nil error returned by a hook becomes the result of the call (fault injection; the real
fsync / ftruncate is then not issued; the real close always is).  All three hooks are nil unless a
test sets them, so every other user of package os behaves as before.  Also writes
<outdir>/overlay.json for `go build -overlay`.  Exits non-zero if any pattern is not found exactly
once (another toolchain): the driver then reports an infrastructure error instead of running a
check that observes nothing.
"""
import json
import os
import subprocess
import sys

SYNC_OLD = '''func (f *File) Sync() error {
	if err := f.checkValid("sync"); err != nil {
		return err
	}
'''
SYNC_NEW = SYNC_OLD + '''	if VerifSyncHook != nil {
		if herr := VerifSyncHook(f); herr != nil {
			return herr
		}
	}
'''
TRUNC_OLD = '''func (f *File) Truncate(size int64) error {
	if err := f.checkValid("truncate"); err != nil {
		return err
	}
'''
TRUNC_NEW = TRUNC_OLD + '''	if VerifTruncateHook != nil {
		if herr := VerifTruncateHook(f, size); herr != nil {
			return herr
		}
	}
'''
CLOSE_OLD = '''func (f *File) Close() error {
	if f == nil {
		return ErrInvalid
	}
	return f.file.close()
}
'''
CLOSE_NEW = '''func (f *File) Close() error {
	if f == nil {
		return ErrInvalid
	}
	verifErr := f.file.close()
	if VerifCloseHook != nil {
		if herr := VerifCloseHook(f, verifErr); herr != nil {
			return herr
		}
	}
	return verifErr
}
'''
DECL = '''
// Hooks of the bluge verification harness (present only in builds with the C13 overlay).
var (
	// VerifSyncHook is called by (*File).Sync on a valid file before the flush is issued.
	VerifSyncHook func(f *File) error
	// VerifTruncateHook is called by (*File).Truncate on a valid file before the truncation.
	VerifTruncateHook func(f *File, size int64) error
	// VerifCloseHook is called by (*File).Close after the descriptor was closed with the
	// result of that close.
	VerifCloseHook func(f *File, err error) error
)
'''


def die(msg):
    sys.stderr.write("overlay/gen.py: " + msg + "\n")
    sys.exit(1)


def main():
    if len(sys.argv) != 2:
        die("usage: gen.py <outdir>")
    outdir = os.path.abspath(sys.argv[1])
    os.makedirs(outdir, exist_ok=True)
    r = subprocess.run(["go", "env", "GOROOT"], stdout=subprocess.PIPE, stderr=subprocess.PIPE, text=True)
    goroot = r.stdout.strip()
    if r.returncode != 0 or not goroot:
        die("cannot determine GOROOT: " + r.stderr.strip())
    src = os.path.join(goroot, "src", "os", "file_posix.go")
    # the overlay key must be the path the go command uses; resolve nothing, GOROOT is what it prints
    try:
        text = open(src, encoding="utf-8").read()
    except OSError as e:
        die("cannot read %s: %s" % (src, e))
    if "VerifSyncHook" in text:
        die("%s already mentions VerifSyncHook" % src)
    for name, old, new in (("Sync", SYNC_OLD, SYNC_NEW), ("Truncate", TRUNC_OLD, TRUNC_NEW), ("Close", CLOSE_OLD, CLOSE_NEW)):
        n = text.count(old)
        if n != 1:
            die("pattern for (*File).%s found %d times in %s (expected exactly once); this toolchain needs an adapted patch" % (name, n, src))
        text = text.replace(old, new)
    text += DECL
    dst = os.path.join(outdir, "file_posix.go")
    ov = os.path.join(outdir, "overlay.json")
    # write only when changed: keeps the go build cache key (content based anyway) and mtimes stable
    def put(path, content):
        try:
            if open(path, encoding="utf-8").read() == content:
                return
        except OSError:
            pass
        tmp = path + ".tmp%d" % os.getpid()
        with open(tmp, "w", encoding="utf-8") as f:
            f.write(content)
        os.replace(tmp, path)
    put(dst, text)
    put(ov, json.dumps({"Replace": {src: dst}}, indent=1) + "\n")
    print("overlay: %s -> %s" % (src, dst))


if __name__ == "__main__":
    main()
