// C06  Background merges and persists never change logical content.
package c06

import (
	"encoding/json"
	"fmt"
	"os"
	"strings"
	"testing"
	"time"

	"github.com/blugelabs/bluge/index"
	"pgregory.net/rapid"

	"verifharness/vlib"
)

func TestMain(m *testing.M) { vlib.Main(m) }

var ev = vlib.NewEvidence("C06",
	"scripted-gate scenarios: the merger (file merge: planned -> written -> loaded -> introduced) or the persister (in-memory merge, segment written -> loaded -> swapped -> snapshot written) "+
		"is driven to a chosen phase and parked there through directory / segment-plugin / event gates; inside the window rapid chooses batches (updates and deletes over a pool of 6 ids, "+
		"'delete everything a seed batch wrote', 'delete every live document'), observations and 'advance to the next phase'; every observation and the final state after all gates open, "+
		"after Close and after reopening must equal the abstract index. non-trivial = a background goroutine was parked and >= 1 batch that deletes or updates a live document landed "+
		"inside the window before the parked step was introduced")

var mergerChain = []string{"merger:merge", "merger:persist.seg:end", "merger:ev7", "merger:ev8"}
var persisterChain = []string{"persister:persist.seg:begin", "persister:persist.seg:end", "persister:load.seg:end", "persister:persist.snp:begin", "persister:persist.snp:end"}
var memMergeChain = []string{"persister:merge", "persister:persist.seg:end", "persister:load.seg:end", "persister:persist.snp:begin", "persister:persist.snp:end"}

// Action is one step inside the window.
type Action struct {
	Kind  string          `json:"kind"` // batch | observe | advance | delete-seed | delete-all
	Batch *vlib.BatchSpec `json:"batch,omitempty"`
	K     int             `json:"k,omitempty"`
}

// Case is one scenario.
type Case struct {
	Conf   vlib.IdxConf     `json:"conf"`
	Chain  string           `json:"chain"` // merger | persister | memmerge
	Start  int              `json:"start"` // index of the first hold point in the chain
	Seed   []vlib.BatchSpec `json:"seed"`
	Window []Action         `json:"window"`
	After  []vlib.BatchSpec `json:"after"`
}

func chainOf(name string) []string {
	switch name {
	case "persister":
		return persisterChain
	case "memmerge":
		return memMergeChain
	}
	return mergerChain
}

func gen(t *rapid.T) Case {
	c := Case{Chain: rapid.SampledFrom([]string{"merger", "merger", "merger", "persister", "memmerge"}).Draw(t, "chain")}
	c.Conf = vlib.IdxConf{Dir: "fs", SegVer: rapid.SampledFrom([]int{1, 1, 1, 2}).Draw(t, "segVer"),
		Merge:     rapid.SampledFrom([]string{"default", "pairs"}).Draw(t, "merge"),
		Unsafe:    rapid.Bool().Draw(t, "unsafe"),
		Retention: rapid.SampledFrom([]int{1, 1, 2}).Draw(t, "retention")}
	if c.Chain != "merger" {
		c.Conf.Unsafe = true // a parked persister would block a safe Batch call for good
	}
	if c.Chain == "persister" {
		c.Conf.Merge = rapid.SampledFrom([]string{"default", "nomem"}).Draw(t, "mergeP")
	}
	ch := chainOf(c.Chain)
	c.Start = rapid.IntRange(0, len(ch)-2).Draw(t, "start")
	g := vlib.NewHistGen(6)
	nSeed := rapid.IntRange(2, 5).Draw(t, "nSeed")
	for i := 0; i < nSeed; i++ {
		// seed batches write (not delete) so that segments exist
		var b vlib.BatchSpec
		n := rapid.IntRange(1, 3).Draw(t, "seedOps")
		ids := rapid.Permutation(append([]string(nil), g.IDPool...)).Draw(t, "seedIds")[:n]
		for _, id := range ids {
			b.Ops = append(b.Ops, vlib.Op{Kind: "update", ID: id, Doc: g.Doc(t, id)})
		}
		c.Seed = append(c.Seed, b)
	}
	nw := rapid.IntRange(1, 8).Draw(t, "nWindow")
	for i := 0; i < nw; i++ {
		switch rapid.SampledFrom([]string{"batch", "batch", "batch", "observe", "advance", "advance", "delete-seed", "delete-all"}).Draw(t, "action") {
		case "batch":
			b := g.Batch(t, 3)
			c.Window = append(c.Window, Action{Kind: "batch", Batch: &b})
		case "observe":
			c.Window = append(c.Window, Action{Kind: "observe"})
		case "advance":
			c.Window = append(c.Window, Action{Kind: "advance"})
		case "delete-seed":
			c.Window = append(c.Window, Action{Kind: "delete-seed", K: rapid.IntRange(0, nSeed-1).Draw(t, "seedK")})
		case "delete-all":
			c.Window = append(c.Window, Action{Kind: "delete-all"})
		}
	}
	na := rapid.IntRange(0, 3).Draw(t, "nAfter")
	for i := 0; i < na; i++ {
		c.After = append(c.After, g.Batch(t, 3))
	}
	return c
}

type stats struct {
	parked       bool
	inWindowHits int // batches inside the window that removed a live document
	advances     int
	reached      []string
	allDeleted   bool
	mergeSkipped bool
}

const stepWait = 3 * time.Second

func prop(c Case, st *stats) (fail *vlib.Failure) {
	dir := vlib.NewScratchDir("c06")
	defer os.RemoveAll(dir)
	gates := vlib.NewGates()
	chain := chainOf(c.Chain)
	cur := c.Start
	gates.Hold(chain[cur])
	rr, f := vlib.StartRecordedRun(c.Conf, dir, nil, func(ic index.Config, d *vlib.RecDir) index.Config {
		return gates.Install(ic, d, false)
	})
	if f != nil {
		return f
	}
	m := vlib.NewModel()
	seed := c.Seed
	closed := false
	defer func() {
		gates.OpenAll()
		if !closed {
			_ = rr.Finish(false)
		}
		if fail != nil {
			fail.Msg += " | gate log tail: " + strings.Join(gates.LogTail(40), "; ")
		}
	}()
	apply := func(b vlib.BatchSpec) *vlib.Failure {
		if f := rr.Batch(b); f != nil {
			return f
		}
		j := len(rr.Rec.CallErr) - 1
		if e := rr.Rec.CallErr[j]; e != "" {
			return vlib.Failf("batch-error", "batch returned %s", e)
		}
		m.Apply(b)
		return nil
	}
	observe := func(site string) *vlib.Failure { return rr.X.CheckModel(site, m, ev) }

	// drive: feed the seed until the hold point is reached
	var parked *vlib.Parked
	if c.Chain == "memmerge" && c.Start == 0 {
		// an in-memory merge needs >= 2 unpersisted segments in the snapshot the persister picks
		// up: keep the persister at its first segment write until the whole seed is applied
		gates.Hold("persister:persist.seg:begin")
		for _, b := range c.Seed {
			if f := apply(b); f != nil {
				return f
			}
		}
		p0 := gates.WaitParked("persister:persist.seg:begin", 300*time.Millisecond)
		gates.Unhold("persister:persist.seg:begin")
		if p0 != nil {
			gates.Release(p0)
		}
		parked = gates.WaitParked(chain[cur], 500*time.Millisecond)
		c.Seed = nil
	}
	for i, b := range c.Seed {
		if f := apply(b); f != nil {
			return f
		}
		if p := gates.WaitParked(chain[cur], 40*time.Millisecond); p != nil {
			parked = p
			// remaining seed batches land inside the window as well
			for _, b2 := range c.Seed[i+1:] {
				if f := apply(b2); f != nil {
					return f
				}
			}
			break
		}
	}
	if parked == nil {
		parked = gates.WaitParked(chain[cur], 300*time.Millisecond)
	}
	st.parked = parked != nil
	if parked != nil {
		st.reached = append(st.reached, chain[cur])
	}
	if f := observe("after drive"); f != nil {
		return f
	}
	// explore inside the window
	liveBefore := func(b vlib.BatchSpec) bool {
		live := map[string]bool{}
		for _, d := range m.Live {
			live[d.ID] = true
		}
		for _, op := range b.Ops {
			if (op.Kind == "update" || op.Kind == "delete") && live[op.ID] {
				return true
			}
		}
		return false
	}
	for i, a := range c.Window {
		site := fmt.Sprintf("window step %d (%s)", i, a.Kind)
		var b *vlib.BatchSpec
		switch a.Kind {
		case "batch":
			b = a.Batch
		case "delete-seed":
			bb := vlib.BatchSpec{}
			seen := map[string]bool{}
			for _, op := range seed[a.K%len(seed)].Ops {
				if !seen[op.ID] {
					seen[op.ID] = true
					bb.Ops = append(bb.Ops, vlib.Op{Kind: "delete", ID: op.ID})
				}
			}
			b = &bb
		case "delete-all":
			bb := vlib.BatchSpec{}
			for _, id := range m.SortedIDs() {
				bb.Ops = append(bb.Ops, vlib.Op{Kind: "delete", ID: id})
			}
			b = &bb
			st.allDeleted = true
		case "observe":
			if f := observe(site); f != nil {
				return f
			}
		case "advance":
			if parked == nil {
				continue
			}
			st.advances++
			if cur+1 < len(chain) {
				gates.Hold(chain[cur+1])
			}
			gates.Unhold(chain[cur])
			gates.Release(parked)
			parked = nil
			if cur+1 < len(chain) {
				cur++
				parked = gates.WaitParked(chain[cur], stepWait)
				if parked != nil {
					st.reached = append(st.reached, chain[cur])
				}
			}
			if f := observe(site); f != nil {
				return f
			}
		}
		if b != nil {
			if parked != nil && liveBefore(*b) {
				st.inWindowHits++
			}
			if f := apply(*b); f != nil {
				return f
			}
			if f := observe(site); f != nil {
				return f
			}
		}
	}
	// open everything, let the background work finish
	gates.OpenAll()
	for _, b := range c.After {
		if f := apply(b); f != nil {
			return f
		}
	}
	gates.WaitStable(25*time.Millisecond, 3*time.Second)
	if f := observe("after all gates opened"); f != nil {
		return f
	}
	closed = true
	if f := rr.Finish(true); f != nil {
		return f
	}
	if len(m.Docs) > 0 {
		o, f := rr.X.OpenReaderObserve(m.SortedIDs())
		if f != nil {
			return f
		}
		if f := vlib.CompareModel("reopened after Close", m, o); f != nil {
			return f
		}
	}
	return nil
}

func TestC06Windows(t *testing.T) {
	vlib.Check(t, 40, 500, func(rt *rapid.T) {
		c := gen(rt)
		var st stats
		f := vlib.Guard("scenario", func() *vlib.Failure { return prop(c, &st) })
		nt := st.parked && st.inWindowHits > 0
		cls := []string{"chain:" + c.Chain, fmt.Sprintf("segver:%d", c.Conf.SegVer)}
		if st.parked {
			cls = append(cls, "parked")
		} else {
			cls = append(cls, "hold-point-not-reached")
		}
		for _, r := range st.reached {
			cls = append(cls, "reached:"+r)
		}
		if st.allDeleted && st.parked {
			cls = append(cls, "all-docs-deleted-in-window")
		}
		ev.Case(vlib.Canon(c), nt, cls...)
		ev.AddExtra("batches_landed_in_window_hitting_live_docs", st.inWindowHits)
		if len(c.Window) <= 4 {
			ev.Sample(map[string]interface{}{"case": c, "reached": st.reached}, nt)
		}
		vlib.Report(rt, ev, "window", c, f)
	})
}

var replayFns = map[string]vlib.ReplayFn{
	"window": func(raw json.RawMessage) *vlib.Failure {
		var c Case
		if f := vlib.Decode(raw, &c); f != nil {
			return f
		}
		var st stats
		return prop(c, &st)
	},
}

func TestReplay(t *testing.T)  { vlib.ReplayMain(t, ev, replayFns) }
func TestRegress(t *testing.T) { vlib.RegressMain(t, ev, replayFns) }
