package c14

// Deterministic probe for the defect found by the thorough tier (seed 3): a writer that opens with
// an older snapshot because the load of the newest one failed handed out epochs BELOW the epoch of
// the snapshot it had skipped; that snapshot, intact on disk, stayed the newest one, and the next
// open returned to it - dropping every batch acknowledged in between.
//
// Scenario: snapshots 1..4 survive their removal (an injected remove failure, which bluge
// tolerates by design), then 12 more safe batches; a clean open/close lets the deletion policy
// remove everything else but the newest snapshot; the next open fails the load of that newest
// snapshot once and falls back to snapshot 4; one batch is applied and acknowledged (safe mode);
// Close; a fresh reader must show the state the writer opened with plus that batch.

import (
	"os"
	"testing"

	"github.com/blugelabs/bluge/index"

	"verifharness/vlib"
)

func probeStaleSnapshot() *vlib.Failure {
	dir := vlib.NewScratchDir("c14probe")
	defer os.RemoveAll(dir)
	conf := vlib.IdxConf{Dir: "fs", SegVer: 1, Merge: "none", Retention: 1}
	keepOld := func(ic index.Config, base func() index.Directory) index.Config {
		d := vlib.NewRecDir(dir, nil)
		d.FaultFn = func(op, kind string, id uint64, _ int) *vlib.Fault {
			if op == "remove" && kind == index.ItemKindSnapshot && id <= 4 {
				return &vlib.Fault{Place: "before", Err: vlib.ErrInjected}
			}
			return nil
		}
		ic.DirectoryFunc = func() index.Directory { return d }
		return ic
	}
	mk := func(id string, ver int) vlib.BatchSpec {
		return vlib.BatchSpec{Ops: []vlib.Op{{Kind: "update", ID: id, Doc: &vlib.DocSpec{ID: id, Ver: ver}}}}
	}
	var all []vlib.BatchSpec
	x, f := vlib.OpenIdx(conf, dir, keepOld)
	if f != nil {
		return f
	}
	for i, id := range []string{"d1", "d2", "d3"} {
		all = append(all, mk(id, i+1))
	}
	for i := 0; i < 12; i++ {
		all = append(all, mk("d3", 10+i))
	}
	for _, b := range all {
		if f := x.Batch(b); f != nil {
			return f
		}
	}
	if f := x.Close(); f != nil {
		return f
	}
	// a clean open and close: the deletion policy removes what it may
	x, f = vlib.OpenIdx(conf, dir, keepOld)
	if f != nil {
		return f
	}
	if f := x.Close(); f != nil {
		return f
	}
	// the faulted open
	fired := false
	wrap := func(ic index.Config, base func() index.Directory) index.Config {
		d := vlib.NewRecDir(dir, nil)
		ids, _ := d.Inner.List(index.ItemKindSnapshot)
		d.FaultFn = func(op, kind string, id uint64, _ int) *vlib.Fault {
			if op == "load" && kind == index.ItemKindSnapshot && len(ids) > 0 && id == ids[0] && !fired {
				fired = true
				return &vlib.Fault{Place: "before", Err: vlib.ErrInjected}
			}
			return nil
		}
		ic.DirectoryFunc = func() index.Directory { return d }
		return ic
	}
	x2, f := vlib.OpenIdx(conf, dir, wrap)
	if f != nil {
		if fired && f.Key == "open-writer-error" {
			return nil // reported instead of falling back: contained
		}
		return f
	}
	ids := []string{"d1", "d2", "d3", "d9"}
	o, f := x2.ObserveNow(ids)
	if f != nil {
		return f
	}
	m := vlib.NewModel()
	for _, b := range all {
		m.Apply(b)
	}
	p, why := vlib.MatchState(m.States, o.Keys(), 0, len(m.States)-1)
	if why != "" {
		return vlib.Failf("reopen-"+why, "probe: the writer opens with %v", o.Keys())
	}
	m = vlib.NewModel()
	for _, b := range all[:p] {
		m.Apply(b)
	}
	tail := mk("d9", 99)
	if f := x2.Batch(tail); f != nil { // safe mode: returns once persisted
		return f
	}
	m.Apply(tail)
	if f := x2.Close(); f != nil {
		return f
	}
	o2, f := x2.OpenReaderObserve(ids)
	if f != nil {
		return f
	}
	if f := vlib.CompareModel("probe: reader opened after the writer that fell back to an older snapshot applied one acknowledged batch and was closed", m, o2); f != nil {
		f.Key = "acknowledged-batch-lost-after-fallback"
		f.Msg += " (the writer had opened with state S_" + itoa(p) + " after the load of the newest snapshot failed)"
		return f
	}
	return nil
}

func itoa(i int) string {
	if i == 0 {
		return "0"
	}
	s := ""
	for i > 0 {
		s = string(rune('0'+i%10)) + s
		i /= 10
	}
	return s
}

func TestC14StaleSnapshotProbe(t *testing.T) {
	if sh, _ := vlib.Shard(); sh != 0 {
		t.Skip("probe runs on shard 0")
	}
	f := vlib.Guard("probe", probeStaleSnapshot)
	ev.Evals(1)
	ev.Class("probe:stale-newer-snapshot-after-fallback", 1)
	vlib.Report(t, ev, "probe-stale-snapshot", struct{}{}, f)
}
