// C14  I/O failures are reported, contained and recovered from.
package c14

import (
	"sort"
	"encoding/json"
	"fmt"
	"os"
	"strings"
	"sync"
	"testing"

	"github.com/blugelabs/bluge"
	"github.com/blugelabs/bluge/index"
	"pgregory.net/rapid"

	"verifharness/vlib"
)

func TestMain(m *testing.M) { vlib.Main(m) }

var ev = vlib.NewEvidence("C14",
	"fault enumeration: a generated batch history runs on the real file-system directory behind a recording wrapper that fails the i-th directory operation (persist / load / remove / list of "+
		"persister, merger, clean-up) at a generated placement (before any byte, after k bytes of the item, after the full write) once or for several consecutive operations of that kind; "+
		"quick: one fault window per run, thorough: also two. Oracle: no panic, every client call returns within the bound; in safe mode a persister fault makes the waiting Batch return the "+
		"error and the asynchronous error callback fire; readers taken during and after the fault equal the abstract index of ALL applied batches (including those whose call returned the "+
		"error); a failed persist leaves no file under the item's name; after the fault clears the next acknowledgement covers everything applied before it: the crash-image prefix oracle "+
		"of C02/C03 is applied to every crash image of the whole faulty trace; Close returns and reopening shows an admissible prefix. evaluations = runs + crash images opened; "+
		"non-trivial = runs in which an injected fault hit a persister or merger operation while a batch was waiting or pending and >= 2 later batches were acknowledged")

// FaultSpec is one fault window.
type FaultSpec struct {
	Seq   int    `json:"seq"`   // ordinal of the first failing directory operation (all kinds counted)
	Ops   string `json:"ops"`   // which operations may fail: "persist" | "load" | "remove" | "any"
	Place string `json:"place"` // before | partial | after
	Bytes int    `json:"bytes"` // partial: bytes written before the error
	Count int    `json:"count"` // consecutive matching operations that fail
	// Sticky (remove only): the removals keep failing until the writer is closed - what is left in
	// the directory then is judged
	Sticky bool `json:"sticky,omitempty"`
	// Kind, if set, restricts the fault to items of that kind (".snp" / ".seg")
	Kind string `json:"kind,omitempty"`
}

// Case is one faulty run.
type Case struct {
	Conf    vlib.IdxConf     `json:"conf"`
	Batches []vlib.BatchSpec `json:"batches"`
	Faults  []FaultSpec      `json:"faults"`
	// HoldAfter: a reader is taken after these batch indexes and held to the end ("open and new
	// Readers keep answering according to the batches applied so far")
	HoldAfter []int `json:"hold_after,omitempty"`
	// ReopenFault, if set, fails one directory operation (list or load, the Seq-th of the reopen)
	// while the writer is opened again after the run; the reopened writer must either report the
	// error or work correctly, and two further batches must be accepted
	ReopenFault *FaultSpec     `json:"reopen_fault,omitempty"`
	Tail        []vlib.BatchSpec `json:"tail,omitempty"`
}

func gen(t *rapid.T) Case {
	c := Case{Conf: vlib.IdxConf{Dir: "fs", SegVer: rapid.SampledFrom([]int{1, 1, 2}).Draw(t, "segVer"),
		Unsafe:    rapid.IntRange(0, 2).Draw(t, "unsafe") == 0,
		Merge:     rapid.SampledFrom([]string{"default", "default", "pairs", "nomem", "none"}).Draw(t, "merge"),
		Retention: rapid.SampledFrom([]int{1, 1, 2}).Draw(t, "retention")}}
	g := vlib.NewHistGen(6)
	n := rapid.IntRange(6, 12).Draw(t, "nBatches")
	for i := 0; i < n; i++ {
		c.Batches = append(c.Batches, g.Batch(t, 3))
	}
	if rapid.Bool().Draw(t, "reopenFault") {
		c.ReopenFault = &FaultSpec{Ops: rapid.SampledFrom([]string{"list", "load", "any"}).Draw(t, "reopenOps"), Place: "before", Count: 1}
		if c.ReopenFault.Ops == "list" {
			c.ReopenFault.Seq = rapid.IntRange(1, 2).Draw(t, "reopenSeq") // an open lists snapshots, then segments
			if rapid.Bool().Draw(t, "keepSegments") {
				c.Conf.Merge = "none" // early segment files stay in the directory
			}
		} else {
			c.ReopenFault.Seq = rapid.IntRange(1, 10).Draw(t, "reopenSeq")
		}
		// the first batch after the reopen always writes a document (a new segment)
		first := vlib.BatchSpec{Ops: []vlib.Op{{Kind: "update", ID: g.IDPool[0], Doc: g.Doc(t, g.IDPool[0])}}}
		c.Tail = []vlib.BatchSpec{first, g.Batch(t, 3)}
	}
	nh := rapid.IntRange(0, 3).Draw(t, "nHeld")
	for i := 0; i < nh; i++ {
		c.HoldAfter = append(c.HoldAfter, rapid.IntRange(0, n-1).Draw(t, "holdAfter"))
	}
	nf := 1
	if vlib.Thorough() && rapid.Bool().Draw(t, "two") {
		nf = 2
	} else if !vlib.Thorough() && rapid.IntRange(0, 2).Draw(t, "twoQuick") == 0 {
		nf = 2 // two separate failure episodes in one writer lifetime
	}
	for i := 0; i < nf; i++ {
		f := FaultSpec{Seq: rapid.IntRange(4, 70).Draw(t, "seq"),
			Ops:   rapid.SampledFrom([]string{"persist", "persist", "persist", "load", "remove", "any"}).Draw(t, "ops"),
			Place: rapid.SampledFrom([]string{"before", "partial", "after"}).Draw(t, "place"),
			Bytes: rapid.SampledFrom([]int{0, 1, 2, 7, 16, 100, 4095, 4096}).Draw(t, "bytes"),
			Count: rapid.SampledFrom([]int{1, 1, 1, 2, 3, 5}).Draw(t, "count")}
		if f.Ops == "remove" && rapid.Bool().Draw(t, "sticky") {
			f.Sticky, f.Count, f.Place = true, 1<<20, "before"
			// mostly snapshots only: their segments can then be removed while they stay
			f.Kind = rapid.SampledFrom([]string{index.ItemKindSnapshot, index.ItemKindSnapshot, index.ItemKindSnapshot, ""}).Draw(t, "stickyKind")
		}
		c.Faults = append(c.Faults, f)
	}
	return c
}

type stats struct {
	injected, injectedBg, errBatches, asyncErrs, images, ackedAfter, heldUses, reopenErr, reopenSurvived, reopenFellBack, leftoverSnaps int
	ntKeys                                                         []string
	kinds                                                          map[string]int
}

func prop(c Case, st *stats) (fail *vlib.Failure) {
	st.kinds = map[string]int{}
	dir := vlib.NewScratchDir("c14")
	defer os.RemoveAll(dir)
	var mu sync.Mutex
	remaining := make([]int, len(c.Faults))
	for i, f := range c.Faults {
		remaining[i] = f.Count
	}
	firstInjectedAt := int64(0)
	var rr *vlib.RecordedRun
	faultFn := func(op, kind string, id uint64, seq int) *vlib.Fault {
		if op != "persist" && op != "load" && op != "remove" && op != "list" {
			return nil
		}
		mu.Lock()
		defer mu.Unlock()
		for i, f := range c.Faults {
			if remaining[i] <= 0 || seq < f.Seq {
				continue
			}
			if f.Ops != "any" && f.Ops != op {
				continue
			}
			if f.Kind != "" && f.Kind != kind {
				continue
			}
			remaining[i]--
			st.injected++
			role := vlib.Role()
			st.kinds[role+":"+op+kind+":"+f.Place]++
			if role == "persister" || role == "merger" {
				st.injectedBg++
			}
			if firstInjectedAt == 0 && rr != nil {
				firstInjectedAt = rr.Dir.Clock.Now()
			}
			return &vlib.Fault{Place: f.Place, Bytes: f.Bytes, Err: vlib.ErrInjected}
		}
		return nil
	}
	rr0, f := vlib.StartRecordedRun(c.Conf, dir, nil, func(ic index.Config, d *vlib.RecDir) index.Config {
		d.FaultFn = faultFn
		return ic
	})
	if f != nil {
		if f.Key == "open-writer-error" && st.injected > 0 {
			return nil // a fault while opening is reported through the error: contained
		}
		return f
	}
	rr = rr0
	closed := false
	defer func() {
		if !closed {
			mu.Lock()
			for i := range remaining {
				remaining[i] = 0
			}
			mu.Unlock()
			_ = rr.Finish(false)
		}
	}()
	m := vlib.NewModel()
	type heldReader struct {
		r     *bluge.Reader
		model *vlib.Model
		after int
	}
	var held []*heldReader
	defer func() {
		for _, h := range held {
			_ = h.r.Close()
		}
	}()
	useHeld := func(site string) *vlib.Failure {
		for _, h := range held {
			var o *vlib.Obs
			var err error
			if f := vlib.Watchdog("use-held-reader", vlib.CallBound, func() *vlib.Failure {
				if rr.X.NoStored() {
					o, err = vlib.ObserveNoStored(h.r, h.model.SortedIDs())
				} else {
					o, err = vlib.Observe(h.r, h.model.SortedIDs())
				}
				return nil
			}); f != nil {
				return f
			}
			if err != nil {
				return vlib.Failf("held-reader-error", "%s: reader held since batch %d fails: %v", site, h.after, err)
			}
			if f := vlib.CompareModel(fmt.Sprintf("%s (reader held since batch %d)", site, h.after), h.model, o); f != nil {
				f.Key = "held-reader-after-fault:" + f.Key
				return f
			}
			st.heldUses++
		}
		return nil
	}
	for j, b := range c.Batches {
		if f := rr.Batch(b); f != nil {
			return f // hang or panic
		}
		e := rr.Rec.CallErr[j]
		if e != "" {
			st.errBatches++
			if !strings.Contains(e, vlib.ErrInjected.Error()) {
				return vlib.Failf("unexpected-batch-error", "batch %d returned %q which is not the injected error", j, e)
			}
			if c.Conf.Unsafe {
				return vlib.Failf("unsafe-batch-error", "unsafe batch %d returned %q", j, e)
			}
		}
		// a batch whose call returned the persist error is applied all the same
		m.Apply(b)
		if f := rr.X.CheckModel(fmt.Sprintf("reader after batch %d (call error %q)", j, e), m, ev); f != nil {
			f.Key = "reader-after-fault:" + f.Key
			return f
		}
		for _, ha := range c.HoldAfter {
			if ha == j && len(held) < 3 {
				r, f := rr.X.Reader()
				if f != nil {
					return f
				}
				held = append(held, &heldReader{r: r, model: m.Clone(), after: j})
			}
		}
		if f := useHeld(fmt.Sprintf("after batch %d", j)); f != nil {
			return f
		}
	}
	// faults clear now at the latest (sticky removal faults stay to the end)
	mu.Lock()
	for i := range remaining {
		if !(c.Faults[i].Sticky && c.Faults[i].Ops == "remove") {
			remaining[i] = 0
		}
	}
	mu.Unlock()
	// one more (empty-effect) acknowledged round so that "the next acknowledgement covers everything"
	tail := vlib.BatchSpec{Ops: []vlib.Op{{Kind: "delete", ID: "never-existed"}}}
	if f := rr.Batch(tail); f != nil {
		return f
	}
	if e := rr.Rec.CallErr[len(rr.Rec.CallErr)-1]; e != "" {
		return vlib.Failf("error-after-fault-cleared", "the batch issued after all faults were cleared returned %q", e)
	}
	m.Apply(tail)
	if f := useHeld("after the faults cleared"); f != nil {
		return f
	}
	for _, h := range held {
		_ = h.r.Close()
	}
	held = nil
	closed = true
	if f := rr.Finish(true); f != nil {
		return f
	}
	rr.Lock()
	st.asyncErrs = len(rr.AsyncErrs)
	rr.Unlock()
	// surfaced twice: the waiting Batch returned the error AND the async callback fired (the
	// persister hands the error to the waiting call first and fires the callback right after, so
	// this is judged once the writer is closed, not at the moment the call returns)
	if st.errBatches > 0 && st.asyncErrs == 0 {
		return vlib.Failf("async-error-missing", "%d batches returned the persist error but the asynchronous error callback never fired", st.errBatches)
	}
	// batches are issued one after the other: each one that returned the error waited for a
	// persist attempt of its own, and every failed attempt fires the callback
	bgFailed := 0
	for k, n := range st.kinds {
		if (strings.HasPrefix(k, "persister:") || strings.HasPrefix(k, "merger:")) && (strings.Contains(k, ":persist") || strings.Contains(k, ":load")) {
			bgFailed += n
		}
	}
	if st.asyncErrs < bgFailed {
		// every failed persist / load of the persister or merger ends one attempt, and every failed
		// attempt is reported through the callback - also the second failure with the same text
		return vlib.Failf("async-error-missing", "%d persist/load operations of the persister and merger failed (%v) but the asynchronous error callback fired only %d times", bgFailed, st.kinds, st.asyncErrs)
	}
	if st.asyncErrs < st.errBatches {
		return vlib.Failf("async-error-missing", "%d batches (issued one after the other) returned the persist error but the asynchronous error callback fired only %d times", st.errBatches, st.asyncErrs)
	}
	if !c.Conf.Unsafe && st.errBatches == 0 && st.injectedBg > 0 {
		// a fault on a persister/merger operation in safe mode: either a batch saw it, or it hit
		// the merger / clean-up (then the async callback must have fired, except for removes,
		// which are retried silently)
		persistOrLoad := 0
		for k, n := range st.kinds {
			if strings.Contains(k, ":persist") || strings.Contains(k, ":load") {
				persistOrLoad += n
			}
		}
		if persistOrLoad > 0 && st.asyncErrs == 0 {
			return vlib.Failf("fault-not-surfaced", "%d persist/load faults were injected on background operations but neither a Batch call nor the async error callback reported one (%v)", persistOrLoad, st.kinds)
		}
	}
	if c.Conf.Unsafe {
		for j, a := range rr.Rec.Ack {
			if a == 0 {
				return vlib.Failf("callback-missing", "unsafe batch %d: its persisted callback was never invoked with nil although the faults cleared and the writer was closed after waiting", j)
			}
		}
	}
	// a failed persist leaves nothing under the item's name
	var prevListing map[string]string
	for i, e := range rr.Rec.Trace {
		if e.Op == "persist" && e.Err != "" && e.After != nil {
			// a file of that name may legitimately be there if it is the untouched, complete item of
			// an earlier successful Persist of the same id (a retried round whose failure was
			// injected before the directory was called)
			if h, ok := e.After[e.Name]; ok && !(prevListing != nil && prevListing[e.Name] == h && len(e.Data) == 0) {
				return vlib.Failf("partial-file-left", "trace event %d: Persist(%s) failed (%s) but a file of that name is left behind (%d bytes written)", i, e.Name, e.Err, len(e.Data))
			}
		}
		if e.After != nil {
			prevListing = e.After
		}
	}
	// crash atomicity and durability on every image of the faulty trace
	images := vlib.BuildImages(rr.Rec.Trace, rr.Rec.Blobs, vlib.ImageOpts{})
	ids := m.SortedIDs()
	imgDir := dir + "-img"
	defer os.RemoveAll(imgDir)
	for _, im := range images {
		recd, f := vlib.OpenImage(c.Conf, im, rr.Rec.Blobs, imgDir, ids)
		if f != nil {
			return f
		}
		st.images++
		if _, f := vlib.CheckRecovered(rr.Rec, m, im, recd); f != nil {
			f.Msg = "(faulty run) " + f.Msg
			return f
		}
	}
	// every snapshot file left in the directory after Close is what it looks like: a complete
	// item, i.e. it opens with all the segments it names (a snapshot whose removal failed stays
	// until the removal is retried - and so must its segments; "nothing on disk can be mistaken
	// for a complete item")
	var final map[string]string
	for i := len(rr.Rec.Trace) - 1; i >= 0 && final == nil; i-- {
		final = rr.Rec.Trace[i].After
	}
	var snaps []string
	for name := range final {
		if strings.HasSuffix(name, index.ItemKindSnapshot) {
			snaps = append(snaps, name)
		}
	}
	sort.Strings(snaps)
	if len(snaps) > 1 {
		for _, sn := range snaps[:len(snaps)-1] { // the newest one is what the images above opened
			sub := &vlib.Image{Files: map[string]string{sn: final[sn]}, Kind: "boundary", Note: "only snapshot " + sn + " of the directory left after Close"}
			for name, h := range final {
				if !strings.HasSuffix(name, index.ItemKindSnapshot) {
					sub.Files[name] = h
				}
			}
			recd, f := vlib.OpenImage(c.Conf, sub, rr.Rec.Blobs, imgDir, ids)
			if f != nil {
				return f
			}
			st.leftoverSnaps++
			if recd.Obs == nil {
				return vlib.Failf("leftover-snapshot-unloadable", "after the faulty run and Close the directory still lists snapshot %s (next to %s), but it cannot be opened: %s", sn, snaps[len(snaps)-1], recd.OpenErr)
			}
			if _, why := vlib.MatchState(m.States, recd.Obs.Keys(), 0, len(m.States)-1); why != "" {
				return vlib.Failf("leftover-snapshot-"+why, "snapshot %s left in the directory after Close opens with %v", sn, recd.Obs.Keys())
			}
		}
	}
	for j, a := range rr.Rec.Ack {
		if a != 0 && firstInjectedAt != 0 && a > firstInjectedAt && j < len(c.Batches) {
			st.ackedAfter++
		}
	}
	// reopen: everything acknowledged is there (the final image check above covers the state
	// after Close; here the writer path), optionally with a fault on a directory operation of
	// the open itself
	lo, hi := rr.Rec.StateRange(vlib.Interval{Lo: 0, Hi: 1 << 61})
	var x2 *vlib.Idx
	reopenLoadFaultSurvived := false
	if c.ReopenFault != nil {
		seq := 0
		fired := false
		firedOp := ""
		armed := true
		wrap := func(ic index.Config, base func() index.Directory) index.Config {
			d := vlib.NewRecDir(dir, nil)
			d.FaultFn = func(op, kind string, id uint64, _ int) *vlib.Fault {
				if !armed || (op != "list" && op != "load") {
					return nil
				}
				if c.ReopenFault.Ops != "any" && c.ReopenFault.Ops != op {
					return nil
				}
				seq++
				if seq == c.ReopenFault.Seq && !fired {
					fired = true
					firedOp = op
					st.kinds["reopen:"+op+kind]++
					return &vlib.Fault{Place: "before", Err: vlib.ErrInjected}
				}
				return nil
			}
			ic.DirectoryFunc = func() index.Directory { return d }
			return ic
		}
		var f *vlib.Failure
		x2, f = vlib.OpenIdx(c.Conf, dir, wrap)
		armed = false
		if f != nil {
			if f.Key != "open-writer-error" || !fired {
				f.Key = "reopen-failed"
				return f
			}
			st.reopenErr++
			x2 = nil // the fault was reported through the error: contained; open again without it
		} else if fired {
			st.reopenSurvived++
			reopenLoadFaultSurvived = firedOp == "load"
		}
	}
	if x2 == nil {
		var f *vlib.Failure
		x2, f = vlib.OpenIdx(c.Conf, dir, nil)
		if f != nil {
			f.Key = "reopen-failed"
			return f
		}
	}
	defer x2.Close()
	o, f := x2.ObserveNow(ids)
	if f != nil {
		return f
	}
	rlo := lo
	if reopenLoadFaultSurvived {
		// a failed load of the newest snapshot (or of a segment it names) makes OpenWriter skip that
		// snapshot and fall back to an older retained one: the mechanism property C03 names
		// ("unloadable snapshots are skipped, older ones tried"); the property does not promise the
		// newest state then, only a prefix state
		rlo = 0
	}
	p, why := vlib.MatchState(m.States, o.Keys(), rlo, hi)
	if why != "" {
		return vlib.Failf("reopen-"+why, "after the faulty run and Close the writer reopens with %v; admissible states S_%d..S_%d", o.Keys(), rlo, hi)
	}
	if p < lo {
		// fell back: continue from the state it opened with
		st.reopenFellBack++
		all := append(append([]vlib.BatchSpec{}, c.Batches...), tail)
		m = vlib.NewModel()
		for _, b := range all[:p] {
			m.Apply(b)
		}
	}
	// the reopened writer accepts further batches (no fault is pending any more)
	if len(c.Tail) > 0 && lo == hi {
		for i, b := range c.Tail {
			if f := x2.Batch(b); f != nil {
				f.Msg = fmt.Sprintf("batch %d after reopening (reopen fault %+v): %s", i, *c.ReopenFault, f.Msg)
				f.Key = "batch-error-after-reopen"
				return f
			}
			m.Apply(b)
			if f := x2.CheckModel(fmt.Sprintf("after reopen, batch %d", i), m, ev); f != nil {
				return f
			}
		}
		if f := x2.WaitPersisted(); f != nil {
			return f
		}
		if f := x2.Close(); f != nil {
			return f
		}
		o2, f := x2.OpenReaderObserve(m.SortedIDs())
		if f != nil {
			return f
		}
		if f := vlib.CompareModel("after reopen, tail batches, Close", m, o2); f != nil {
			return f
		}
	}
	return nil
}

func TestC14Faults(t *testing.T) {
	vlib.Check(t, 15, 250, func(rt *rapid.T) {
		c := gen(rt)
		var st stats
		f := vlib.Guard("run", func() *vlib.Failure { return prop(c, &st) })
		nt := st.injectedBg > 0 && st.ackedAfter >= 2
		cls := []string{"runs"}
		if c.Conf.Unsafe {
			cls = append(cls, "unsafe")
		} else {
			cls = append(cls, "safe")
		}
		if st.injected == 0 {
			cls = append(cls, "fault-not-reached")
		}
		if st.errBatches > 0 {
			cls = append(cls, "batch-returned-injected-error")
		}
		for k, n := range st.kinds {
			ev.Class("fault@"+k, n)
		}
		ev.Case(vlib.Canon(c), nt, cls...)
		ev.Evals(st.images)
		ev.AddExtra("faults_injected", st.injected)
		ev.AddExtra("reopen_faults_reported_by_OpenWriter", st.reopenErr)
		ev.AddExtra("reopen_faults_survived_by_OpenWriter", st.reopenSurvived)
		ev.AddExtra("older_snapshots_left_after_Close_opened_on_their_own", st.leftoverSnaps)
		ev.AddExtra("reopen_load_faults_answered_by_falling_back_to_an_older_snapshot", st.reopenFellBack)
		ev.AddExtra("uses_of_readers_held_across_faults", st.heldUses)
		ev.AddExtra("faults_on_persister_or_merger", st.injectedBg)
		ev.AddExtra("batches_returning_the_injected_error", st.errBatches)
		ev.AddExtra("crash_images_of_faulty_traces_opened", st.images)
		if len(c.Batches) <= 7 {
			ev.Sample(map[string]interface{}{"case": c, "injected": st.kinds, "error_batches": st.errBatches}, nt)
		}
		vlib.Report(rt, ev, "faults", c, f)
	})
}

var replayFns = map[string]vlib.ReplayFn{
	"probe-stale-snapshot": func(json.RawMessage) *vlib.Failure { return vlib.Guard("probe", probeStaleSnapshot) },
	"faults": func(raw json.RawMessage) *vlib.Failure {
		var c Case
		if f := vlib.Decode(raw, &c); f != nil {
			return f
		}
		var st stats
		return prop(c, &st)
	},
}

func TestReplay(t *testing.T)  { vlib.ReplayMain(t, ev, replayFns) }
func TestRegress(t *testing.T) { vlib.RegressMain(t, ev, replayFns) }
