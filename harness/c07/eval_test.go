// eval_test.go: the reference evaluator - the documented meaning of every query kind evaluated
// directly over the harness's own analysed model.  Nothing in this file searches a bluge index.
package c07

import (
	"math"
	"regexp"
	"regexp/syntax"
	"strconv"
	"strings"
	"unicode/utf8"
)

// res bounds the result set of a node: lo ⊆ result ⊆ hi (bit i = model document i).  lo != hi
// only where the meaning is classified instead of judged (geo points near an edge, a term that
// holds a newline under a wildcard, the empty term under an exclusive open start).
type res struct{ lo, hi uint64 }

type evalCtx struct {
	m          *model
	classes    map[string]bool
	mayReject  string // non-empty: a clean error is an acceptable answer for this tree (why)
	skip       string // non-empty: the tree must not be executed (why)
	nontrivial bool   // some compound node has >= 2 children, all non-empty, not all identical
}

func newEvalCtx(m *model) *evalCtx { return &evalCtx{m: m, classes: map[string]bool{}} }

func (c *evalCtx) class(s string) { c.classes[s] = true }

func (c *evalCtx) each(f func(i int) (lo, hi bool)) res {
	var r res
	for i := range c.m.docs {
		lo, hi := f(i)
		if lo {
			r.lo |= 1 << uint(i)
		}
		if hi || lo {
			r.hi |= 1 << uint(i)
		}
	}
	return r
}

func (c *evalCtx) eachTerm(field string, pred func(term string) bool) res {
	return c.each(func(i int) (bool, bool) {
		for term := range c.m.termsOf(i, field) {
			if pred(term) {
				return true, true
			}
		}
		return false, false
	})
}

func (c *evalCtx) eval(q *Q) res {
	m := c.m
	switch q.Kind {
	case "all":
		return res{m.all(), m.all()}
	case "none":
		return res{}
	case "term":
		return c.eachTerm(q.Field, func(t string) bool { return t == q.Text })
	case "fuzzy":
		return c.fuzzy(q.Field, q.Text, q.Fuzz, q.Pfx)
	case "match":
		terms, _ := tokenize(q.Text)
		if len(terms) == 0 {
			return res{}
		}
		var acc res
		for i, t := range terms {
			var r res
			if q.Fuzz == 0 {
				t := t
				r = c.eachTerm(q.Field, func(x string) bool { return x == t })
			} else {
				r = c.fuzzy(q.Field, t, q.Fuzz, q.Pfx)
			}
			switch {
			case i == 0:
				acc = r
			case q.And:
				acc = res{acc.lo & r.lo, acc.hi & r.hi}
			default:
				acc = res{acc.lo | r.lo, acc.hi | r.hi}
			}
		}
		return acc
	case "matchphrase":
		terms, incrs := tokenize(q.Text)
		if len(terms) == 0 {
			return res{}
		}
		// tokens -> one slot per position between the first and the last position
		pos, first, last := 0, math.MaxInt32, 0
		ps := make([]int, len(terms))
		for i := range terms {
			pos += incrs[i]
			ps[i] = pos
			if pos < first {
				first = pos
			}
			if pos > last {
				last = pos
			}
		}
		slots := make([][]string, last-first+1)
		for i, t := range terms {
			slots[ps[i]-first] = append(slots[ps[i]-first], t)
		}
		return c.phrase(q.Field, slots, q.Slop)
	case "multiphrase":
		return c.phrase(q.Field, q.Terms, q.Slop)
	case "prefix":
		if q.Text == "" {
			c.class("prefix:empty-outside-domain")
			return res{0, m.all()}
		}
		return c.eachTerm(q.Field, func(t string) bool { return strings.HasPrefix(t, q.Text) })
	case "wildcard":
		return c.wildcard(q.Field, q.Text)
	case "regexp":
		return c.regexp(q.Field, q.Text)
	case "termrange":
		return c.termRange(q)
	case "numrange":
		lo, hi, empty := numInterval(q)
		if math.IsNaN(float64(q.NLo)) || math.IsNaN(float64(q.NHi)) {
			c.class("numrange:nan-bound")
			return res{0, m.all()}
		}
		return c.intRange(lo, hi, empty, func(d *mdoc) []int64 { return d.nums })
	case "daterange":
		lo, hi, empty := dateInterval(q)
		return c.intRange(lo, hi, empty, func(d *mdoc) []int64 { return d.dates })
	case "geobox":
		return c.geoBox(q.Geo)
	case "geodist":
		return c.geoDist(q.Geo, q.Dist)
	case "bool":
		return c.boolean(q)
	}
	panic("harness: unknown kind " + q.Kind)
}

// ---------------------------------------------------------------------------------------------
// boolean

func (c *evalCtx) boolean(q *Q) res {
	all := c.m.all()
	var kids []res
	must := res{all, all}
	for _, ch := range q.Must {
		r := c.eval(ch)
		kids = append(kids, r)
		must = res{must.lo & r.lo, must.hi & r.hi}
	}
	var shoulds []res
	for _, ch := range q.Should {
		r := c.eval(ch)
		kids = append(kids, r)
		shoulds = append(shoulds, r)
	}
	var not res
	for _, ch := range q.MustNot {
		r := c.eval(ch)
		kids = append(kids, r)
		not = res{not.lo | r.lo, not.hi | r.hi}
	}
	if len(kids) >= 2 {
		nonEmpty, distinct := true, false
		for _, k := range kids {
			if k.lo == 0 {
				nonEmpty = false
			}
			if k.lo != kids[0].lo {
				distinct = true
			}
		}
		if nonEmpty && distinct {
			c.nontrivial = true
		}
	}
	if len(kids) == 0 {
		return res{} // nothing => none
	}
	// how many should clauses a document has to match
	required := 0
	if len(shoulds) > 0 {
		required = q.MinShould
		if len(q.Must) == 0 && required < 1 {
			required = 1 // without a must clause at least one should clause selects the document
		}
	}
	sat := res{all, all}
	if required > 0 {
		sat = res{}
		for i := range c.m.docs {
			bit := uint64(1) << uint(i)
			nlo, nhi := 0, 0
			for _, s := range shoulds {
				if s.lo&bit != 0 {
					nlo++
				}
				if s.hi&bit != 0 {
					nhi++
				}
			}
			if nlo >= required {
				sat.lo |= bit
			}
			if nhi >= required {
				sat.hi |= bit
			}
		}
	}
	return res{must.lo & sat.lo &^ not.hi, must.hi & sat.hi &^ not.lo}
}

// ---------------------------------------------------------------------------------------------
// phrases

// phrase: a document matches when positions p1..pk exist in the field with term(pi) in slot i,
// no (term, position) used for two slots, and the sum over consecutive filled slots of
// |p_prev + (slot distance) - p_next| at most slop.  Slots that are empty (or hold only "") are
// "don't care" positions: they only widen the slot distance.
func (c *evalCtx) phrase(field string, slots [][]string, slop int) res {
	type slot struct {
		off  int
		alts map[string]bool
	}
	var real []slot
	for i, s := range slots {
		alts := map[string]bool{}
		for _, t := range s {
			if t != "" {
				alts[t] = true
			}
		}
		if len(alts) > 0 {
			real = append(real, slot{i, alts})
		} else if len(s) > 1 {
			// several alternatives, all empty strings: the code builds an empty disjunction
			c.class("phrase:all-empty-alternatives")
			return res{0, c.m.all()}
		} else {
			c.class("phrase:dont-care-slot")
		}
	}
	if len(real) == 0 {
		c.class("phrase:no-term-outside-domain")
		return res{0, c.m.all()}
	}
	if field != "t" {
		// only t is indexed with positions; phrases elsewhere are outside the query's domain
		c.class("phrase:field-without-positions")
		return res{0, c.m.all()}
	}
	return c.each(func(di int) (bool, bool) {
		toks := c.m.docs[di].toks
		if len(toks) > 64 {
			panic("harness: more than 64 tokens in one document")
		}
		type state struct {
			last int
			used uint64
		}
		cur := map[state]int{}
		for i, tk := range toks {
			if real[0].alts[tk.term] {
				cur[state{i, 1 << uint(i)}] = 0
			}
		}
		for si := 1; si < len(real) && len(cur) > 0; si++ {
			gap := real[si].off - real[si-1].off
			nxt := map[state]int{}
			for st, cost := range cur {
				want := toks[st.last].pos + gap
				for j, tk := range toks {
					if !real[si].alts[tk.term] || st.used&(1<<uint(j)) != 0 {
						continue
					}
					d := want - tk.pos
					if d < 0 {
						d = -d
					}
					if cost+d > slop {
						continue
					}
					ns := state{j, st.used | 1<<uint(j)}
					if old, ok := nxt[ns]; !ok || cost+d < old {
						nxt[ns] = cost + d
					}
				}
			}
			cur = nxt
		}
		ok := len(cur) > 0
		return ok, ok
	})
}

// ---------------------------------------------------------------------------------------------
// fuzzy

// editDistances returns the Levenshtein, the optimal-string-alignment and the unrestricted
// Damerau-Levenshtein distance of two strings over runes.
func editDistances(a, b string) (lev, osa, dam int) {
	x, y := []rune(a), []rune(b)
	n, m := len(x), len(y)
	mk := func() [][]int {
		d := make([][]int, n+1)
		for i := range d {
			d[i] = make([]int, m+1)
			d[i][0] = i
		}
		for j := 0; j <= m; j++ {
			d[0][j] = j
		}
		return d
	}
	min3 := func(a, b, c int) int {
		if b < a {
			a = b
		}
		if c < a {
			a = c
		}
		return a
	}
	L, O := mk(), mk()
	for i := 1; i <= n; i++ {
		for j := 1; j <= m; j++ {
			cost := 1
			if x[i-1] == y[j-1] {
				cost = 0
			}
			L[i][j] = min3(L[i-1][j]+1, L[i][j-1]+1, L[i-1][j-1]+cost)
			O[i][j] = min3(O[i-1][j]+1, O[i][j-1]+1, O[i-1][j-1]+cost)
			if i > 1 && j > 1 && x[i-1] == y[j-2] && x[i-2] == y[j-1] && O[i-2][j-2]+1 < O[i][j] {
				O[i][j] = O[i-2][j-2] + 1
			}
		}
	}
	// unrestricted Damerau-Levenshtein (Lowrance-Wagner)
	da := map[rune]int{}
	inf := n + m
	D := make([][]int, n+2)
	for i := range D {
		D[i] = make([]int, m+2)
	}
	D[0][0] = inf
	for i := 0; i <= n; i++ {
		D[i+1][0] = inf
		D[i+1][1] = i
	}
	for j := 0; j <= m; j++ {
		D[0][j+1] = inf
		D[1][j+1] = j
	}
	for i := 1; i <= n; i++ {
		db := 0
		for j := 1; j <= m; j++ {
			k, l := da[y[j-1]], db
			cost := 1
			if x[i-1] == y[j-1] {
				cost = 0
				db = j
			}
			D[i+1][j+1] = min3(D[i][j]+cost, D[i+1][j]+1, D[i][j+1]+1)
			if t := D[k][l] + (i - k - 1) + 1 + (j - l - 1); t < D[i+1][j+1] {
				D[i+1][j+1] = t
			}
		}
		da[x[i-1]] = i
	}
	return L[n][m], O[n][m], D[n+1][m+1]
}

// fuzzyPrefix: the leading part of the query term a candidate has to share - the runes that
// start before byte offset p (so a multi-byte rune straddling the offset belongs to it).
func fuzzyPrefix(term string, p int) string {
	s := ""
	for i, r := range term {
		if i >= p {
			break
		}
		s += string(r)
	}
	return s
}

func (c *evalCtx) fuzzy(field, term string, f, p int) res {
	if f < 0 || f > 2 {
		c.mayReject = "fuzziness outside 0..2"
		return res{0, c.m.all()}
	}
	pre := fuzzyPrefix(term, p)
	if r := []rune(term); p > 0 && p < len(term) && pre != string(r[:minInt(p, len(r))]) {
		c.class("fuzzy:prefix-inside-multibyte-rune")
	}
	if f == 0 {
		c.class("fuzzy:fuzziness-0")
	}
	return c.eachTerm(field, func(t string) bool {
		if !strings.HasPrefix(t, pre) {
			return false
		}
		lev, osa, dam := editDistances(term, t)
		if (lev <= f) != (osa <= f) || (osa <= f) != (dam <= f) {
			c.class("fuzzy:metrics-disagree")
		}
		return osa <= f
	})
}

func minInt(a, b int) int {
	if a < b {
		return a
	}
	return b
}

// ---------------------------------------------------------------------------------------------
// wildcard, regexp

// wildcardNewlineStrict: '*' and '?' match every character, a newline included ("'*' will match
// any sequence of 0 or more characters").
const wildcardNewlineStrict = true

func (c *evalCtx) wildcard(field, pat string) res {
	var strict, lax strings.Builder
	for _, r := range pat {
		switch r {
		case '*':
			strict.WriteString("(?s:.*)")
			lax.WriteString(".*")
		case '?':
			strict.WriteString("(?s:.)")
			lax.WriteString(".")
		default:
			q := regexp.QuoteMeta(string(r))
			strict.WriteString(q)
			lax.WriteString(q)
		}
	}
	re, err := regexp.Compile("^(?:" + strict.String() + ")$")
	re2, err2 := regexp.Compile("^(?:" + lax.String() + ")$")
	if err != nil || err2 != nil {
		panic("harness: wildcard translation does not compile: " + pat)
	}
	return c.each(func(i int) (bool, bool) {
		lo, hi := false, false
		for t := range c.m.termsOf(i, field) {
			a, b := re.MatchString(t), re2.MatchString(t)
			if a != b {
				c.class("newline-in-term")
				if !wildcardNewlineStrict {
					hi = true
					continue
				}
			}
			if a {
				lo, hi = true, true
			}
		}
		return lo, hi
	})
}

// outsideVellumSubset reports whether the parsed pattern uses an operator the automaton compiler
// rejects (anchors, word boundaries, lazy repetition) or mis-handles (an empty character class).
func outsideVellumSubset(re *syntax.Regexp) bool {
	if re.Flags&syntax.NonGreedy != 0 {
		return true
	}
	switch re.Op {
	case syntax.OpBeginLine, syntax.OpEndLine, syntax.OpBeginText, syntax.OpEndText,
		syntax.OpWordBoundary, syntax.OpNoWordBoundary, syntax.OpNoMatch:
		return true
	case syntax.OpCharClass:
		if len(re.Rune) == 0 {
			return true
		}
	}
	for _, s := range re.Sub {
		if outsideVellumSubset(s) {
			return true
		}
	}
	return false
}

func (c *evalCtx) regexp(field, pat string) res {
	// the query strips one leading '^' (the match is anchored to the whole term anyway)
	parsed, perr := syntax.Parse(strings.TrimPrefix(pat, "^"), syntax.Perl)
	re, err := regexp.Compile("^(?:" + pat + ")$")
	if perr != nil || err != nil {
		c.mayReject = "pattern does not parse"
		c.class("regexp:unparsable")
		return res{0, c.m.all()}
	}
	if outsideVellumSubset(parsed) {
		c.mayReject = "pattern outside the supported operator subset"
		c.class("regexp:outside-subset")
		return res{0, c.m.all()}
	}
	return c.eachTerm(field, func(t string) bool {
		if !utf8.ValidString(t) {
			panic("harness: term is not valid UTF-8")
		}
		return re.MatchString(t)
	})
}

// ---------------------------------------------------------------------------------------------
// ranges

func (c *evalCtx) termRange(q *Q) res {
	if q.Lo != "" && q.Hi != "" && (q.Lo > q.Hi || (q.Lo == q.Hi && !(q.IncLo && q.IncHi))) {
		c.class("termrange:empty-interval")
	}
	return c.each(func(i int) (bool, bool) {
		lo, hi := false, false
		for t := range c.m.termsOf(i, q.Field) {
			above := q.Lo == "" || t > q.Lo || (q.IncLo && t == q.Lo)
			below := q.Hi == "" || t < q.Hi || (q.IncHi && t == q.Hi)
			if !(above && below) {
				continue
			}
			if t == "" && q.Lo == "" && !q.IncLo {
				// open start written as an exclusive bound at the empty term
				c.class("termrange:empty-term-ambiguous")
				hi = true
				continue
			}
			lo, hi = true, true
		}
		return lo, hi
	})
}

// numInterval returns the closed interval of sortable values a numeric range selects.
func numInterval(q *Q) (lo, hi int64, empty bool) {
	lo, hi = math.MinInt64, math.MaxInt64
	if !math.IsInf(float64(q.NLo), -1) {
		lo = sortable(float64(q.NLo))
		if !q.IncLo {
			if lo == math.MaxInt64 {
				return 0, 0, true
			}
			lo++
		}
	}
	if !math.IsInf(float64(q.NHi), 1) {
		hi = sortable(float64(q.NHi))
		if !q.IncHi {
			if hi == math.MinInt64 {
				return 0, 0, true
			}
			hi--
		}
	}
	return lo, hi, lo > hi
}

func dateInterval(q *Q) (lo, hi int64, empty bool) {
	lo, hi = math.MinInt64, math.MaxInt64
	if q.DLo != nil {
		lo = *q.DLo
		if !q.IncLo {
			if lo == math.MaxInt64 {
				return 0, 0, true
			}
			lo++
		}
	}
	if q.DHi != nil {
		hi = *q.DHi
		if !q.IncHi {
			if hi == math.MinInt64 {
				return 0, 0, true
			}
			hi--
		}
	}
	return lo, hi, lo > hi
}

func (c *evalCtx) intRange(lo, hi int64, empty bool, vals func(*mdoc) []int64) res {
	if empty {
		c.class("range:empty-interval")
		return res{}
	}
	if steps := predictSteps(lo, hi); steps > stepLimit {
		c.skip = "range-enumeration-blowup"
		return res{0, c.m.all()}
	}
	return c.each(func(i int) (bool, bool) {
		for _, v := range vals(&c.m.docs[i]) {
			if v >= lo && v <= hi {
				return true, true
			}
		}
		return false, false
	})
}

// ---------------------------------------------------------------------------------------------
// geo

const geoAbsTol = 2e-6 // degrees: quantisation to 32 bits per axis is 8.4e-8, the code compares with 1e-6

func within(v, lo, hi, tol float64) (in, maybe bool) {
	return v >= lo+tol && v <= hi-tol, v >= lo-tol && v <= hi+tol
}

func (c *evalCtx) geoBox(g []float64) res {
	tlLon, tlLat, brLon, brLat := g[0], g[1], g[2], g[3]
	for _, v := range g {
		if math.IsNaN(v) || math.IsInf(v, 0) {
			c.class("geo:bad-coordinate")
			return res{0, c.m.all()}
		}
	}
	width := brLon - tlLon
	if width < 0 {
		width += 360
	}
	tolLon := math.Max(1e-3*width, geoAbsTol)
	tolLat := math.Max(1e-3*math.Abs(tlLat-brLat), geoAbsTol)
	return c.each(func(i int) (bool, bool) {
		lo, hi := false, false
		for _, p := range c.m.docs[i].geos {
			latIn, latMaybe := within(p[1], brLat, tlLat, tolLat)
			var lonIn, lonMaybe bool
			if brLon >= tlLon {
				lonIn, lonMaybe = within(p[0], tlLon, brLon, tolLon)
			} else { // across the date line: east of the left edge or west of the right edge
				// (the meridian itself is no edge of such a box)
				lonIn = p[0] >= tlLon+tolLon || p[0] <= brLon-tolLon
				lonMaybe = p[0] >= tlLon-tolLon || p[0] <= brLon+tolLon
			}
			if latIn && lonIn {
				lo = true
			}
			if latMaybe && lonMaybe {
				hi = true
			}
		}
		if hi && !lo {
			c.class("geo:edge")
		}
		return lo, hi
	})
}

// parseDistance understands the spellings the generator produces: a number followed by m, km,
// mi, nm, ft or nothing (metres).
func parseDistance(s string) (metres float64, ok bool) {
	units := []struct {
		suffix string
		conv   float64
	}{{"km", 1000}, {"nm", 1852}, {"mi", 1609.344}, {"ft", 0.3048}, {"m", 1}, {"", 1}}
	for _, u := range units {
		if strings.HasSuffix(s, u.suffix) {
			v, err := strconv.ParseFloat(strings.TrimSuffix(s, u.suffix), 64)
			if err != nil || v < 0 || math.IsNaN(v) || math.IsInf(v, 0) {
				return 0, false
			}
			return v * u.conv, true
		}
	}
	return 0, false
}

const (
	earthPolarRadius      = 6356752.3 // metres
	earthEquatorialRadius = 6378137.0
)

func (c *evalCtx) geoDist(g []float64, dist string) res {
	lon, lat := g[0], g[1]
	if math.IsNaN(lon) || math.IsNaN(lat) || lon < -180 || lon > 180 || lat < -90 || lat > 90 {
		c.mayReject = "centre outside the coordinate space"
		return res{0, c.m.all()}
	}
	th, ok := parseDistance(dist)
	if !ok {
		c.mayReject = "distance does not parse"
		return res{0, c.m.all()}
	}
	// the threshold band: 1e-3 relative, plus half a metre for the approximate trigonometry of
	// the implementation and the quantisation of the stored point
	tol := 1e-3*th + 0.5
	rad := math.Pi / 180
	return c.each(func(i int) (bool, bool) {
		lo, hi := false, false
		for _, p := range c.m.docs[i].geos {
			dphi := (p[1] - lat) * rad
			dlam := (p[0] - lon) * rad
			a := math.Pow(math.Sin(dphi/2), 2) + math.Cos(lat*rad)*math.Cos(p[1]*rad)*math.Pow(math.Sin(dlam/2), 2)
			angle := 2 * math.Asin(math.Min(1, math.Sqrt(a)))
			// any reasonable earth radius lies between the polar and the equatorial one
			dMin, dMax := angle*earthPolarRadius, angle*earthEquatorialRadius
			if dMax <= th-tol {
				lo = true
			}
			if dMin <= th+tol {
				hi = true
			}
		}
		if hi && !lo {
			c.class("geo:edge")
		}
		return lo, hi
	})
}
