// C07  Every query returns exactly the documents its meaning selects.
package c07

import (
	"context"
	"encoding/json"
	"fmt"
	"os"
	"runtime"
	"runtime/debug"
	"sort"
	"strings"
	"testing"
	"time"

	"github.com/blugelabs/bluge"
	"pgregory.net/rapid"

	"verifharness/vlib"
)

// One shard is one sequential stream of searches; bluge's background goroutines, the watchdog
// goroutine of every search and the garbage collector's workers only get in each other's way on
// more processors (measured on the shared 16-core build machine: 38 corpora take 5.6 s of wall time
// on one processor and 13 s on sixteen, the exhaustive sample 1.5 s against 4.6 s).  The shards
// themselves run in parallel.
func TestMain(m *testing.M) {
	runtime.GOMAXPROCS(vlib.EnvInt("C07_GOMAXPROCS", 1))
	// the live heap is a few MB while every search allocates its pools afresh: with the default
	// GOGC the collector and the scavenger (madvise, page faults) take 40 % of the CPU time
	// (exhaustive sample: 5.8 CPU-s at GOGC=100, 3.7 at 400; the heap stays below 40 MB)
	debug.SetGCPercent(vlib.EnvInt("C07_GOGC", 400))
	vlib.Main(m)
}

var ev = vlib.NewEvidence("C07",
	"corpus cases: generated corpora (5-40 documents in 2-6 batches with updates and deletes; text with positions, keyword, numeric, date and geo fields, missing or multi-valued, values on encoding boundaries; in-memory / file system / offline writer (merged), merger off or on, segment version 1 or 2) x generated query trees (depth <= 4, up to 14 clauses, every public query kind of the property); "+
		"one evaluation = one query on one corpus, observed through AllMatches, TopNSearch, TopNSearch.SetScore(none) and AllMatches.IncludeLocations and compared with the reference evaluator (own analysed model); non-trivial = the query was executed and judged, has a compound node with >= 2 children whose reference result sets are all non-empty and not all identical, and the reader has >= 2 segments and >= 1 pending deletion (both measured on the reader). "+
		"exhaustive cases: every assignment of 3 terms to 5 documents in 2 segments (4 split points; a sixth document holding all terms is deleted by the second batch, so every index has a pending deletion) x every boolean shape of depth <= 2 over the three term leaves (327 shapes), AllMatches and SetScore(none) for every pair; an index counts as one distinct non-trivial item when the rule above holds for at least one of its shapes; merged twins (same documents through the offline writer) are extra evaluations outside the scope")

// Case is one corpus with the queries run against one reader of it, in this order.
type Case struct {
	Corpus  Corpus `json:"corpus"`
	Queries []*Q   `json:"queries"`
}

// ---------------------------------------------------------------------------------------------
// observation

type mode struct {
	name string
	req  func(q bluge.Query, n int) bluge.SearchRequest
}

var modes = []mode{
	{"all", func(q bluge.Query, n int) bluge.SearchRequest { return bluge.NewAllMatches(q) }},
	{"topn", func(q bluge.Query, n int) bluge.SearchRequest { return bluge.NewTopNSearch(n, q) }},
	{"score-none", func(q bluge.Query, n int) bluge.SearchRequest { return bluge.NewTopNSearch(n, q).SetScore("none") }},
	{"locations", func(q bluge.Query, n int) bluge.SearchRequest { return bluge.NewAllMatches(q).IncludeLocations() }},
}

// searchRaw runs one request and returns the document numbers in delivery order.
func searchRaw(r *bluge.Reader, req bluge.SearchRequest) (nums []uint64, err error) {
	it, err := r.Search(context.Background(), req)
	if err != nil {
		return nil, err
	}
	for {
		dm, err := it.Next()
		if err != nil {
			return nil, err
		}
		if dm == nil {
			return nums, nil
		}
		nums = append(nums, dm.Number)
	}
}

// search is searchRaw under the watchdog.  err is the clean error of the search, a Failure is a
// panic or a hang.
func search(r *bluge.Reader, site string, req bluge.SearchRequest) (nums []uint64, err error, f *vlib.Failure) {
	f = vlib.Watchdog(site, callBound, func() *vlib.Failure {
		nums, err = searchRaw(r, req)
		return nil
	})
	return
}

var slowMS = vlib.EnvInt("C07_SLOW_MS", 0)

// env is one opened corpus with its model.
type env struct {
	o       *opened
	m       *model
	culprit *Q // smallest failing sub-query found by the last classify
	// unguarded: the caller already runs under vlib.Watchdog (one watchdog for all searches of an
	// index of the exhaustive scope instead of one goroutine hand-over per search)
	unguarded bool
	nq        int // number of the query within the case (selects the observation modes)
}

// observe runs q in one mode and returns the result as a mask over the model's documents.
func (e *env) observe(q *Q, md mode) (mask uint64, err error, f *vlib.Failure) {
	var nums []uint64
	if e.unguarded {
		nums, err = searchRaw(e.o.reader, md.req(q.build(), len(e.m.docs)+5))
	} else {
		t0 := time.Now()
		nums, err, f = search(e.o.reader, "Reader.Search("+md.name+")", md.req(q.build(), len(e.m.docs)+5))
		if slowMS > 0 { // diagnostics only (C07_SLOW_MS): never part of a verdict
			if d := time.Since(t0); d > time.Duration(slowMS)*time.Millisecond {
				fmt.Fprintf(os.Stderr, "C07 slow search %v mode %s: %s\n", d, md.name, q)
			}
		}
	}
	if f != nil || err != nil {
		return 0, err, f
	}
	seen := map[uint64]bool{}
	for _, n := range nums {
		id, ok := e.o.ids[n]
		if !ok {
			return 0, nil, vlib.Failf("dead-hit", "mode %s: hit with document number %d which no live document has (deleted or unknown); query %s", md.name, n, q)
		}
		if seen[n] {
			return 0, nil, vlib.Failf("duplicate-hit", "mode %s: document %q (number %d) is returned twice; query %s", md.name, id, n, q)
		}
		seen[n] = true
		mask |= 1 << uint(e.m.byID[id])
	}
	return mask, nil, nil
}

func (e *env) idsOfMask(mask uint64) []string {
	var r []string
	for i, d := range e.m.docs {
		if mask&(1<<uint(i)) != 0 {
			r = append(r, d.id)
		}
	}
	return r
}

// verdict of one query
type qstat struct {
	executed   bool
	skipped    string
	rejected   bool
	accepted   bool // outside the judged subset, not rejected: no verdict
	partial    bool // lo != hi somewhere: some documents unjudged
	nontrivial bool // the tree has a qualifying compound node (layout not considered)
	classes    []string
	expect     res
	searches   int
}

// judge compares one observation with the reference bounds.
func judge(r res, got uint64) (missed, extra uint64) { return r.lo &^ got, got &^ r.hi }

func (e *env) checkQuery(q *Q, st *qstat) *vlib.Failure {
	if err := q.wellFormed(); err != nil {
		return vlib.Failf("harness-bad-query", "%v", err)
	}
	ctx := newEvalCtx(e.m)
	r := ctx.eval(q)
	st.expect = r
	st.nontrivial = ctx.nontrivial
	for c := range ctx.classes {
		st.classes = append(st.classes, c)
	}
	sort.Strings(st.classes)
	if ctx.skip != "" {
		st.skipped = ctx.skip
		return nil
	}
	st.executed = true
	st.partial = r.lo != r.hi
	for mi, md := range modes {
		// AllMatches and TopNSearch without scoring always; the scoring TopNSearch (same searchers as
		// AllMatches, other collector) for every second query, the term-vector path for every third
		if (md.name == "topn" && e.nq%2 == 1) || (md.name == "locations" && e.nq%3 != 0) {
			continue
		}
		got, err, f := e.observe(q, md)
		st.searches++
		if f != nil {
			return e.classify(q, md, mi, f, ctx)
		}
		if err != nil {
			if ctx.mayReject != "" {
				st.rejected = true
				continue
			}
			return vlib.Failf("unexpected-error@"+e.blame(q, md, func(s *Q) bool {
				_, serr, sf := e.observe(s, md)
				return serr != nil && sf == nil
			}).Kind, "mode %s: search returned an error for a query inside its domain: %v; query %s", md.name, err, q)
		}
		if ctx.mayReject != "" {
			st.accepted = true
			continue
		}
		missed, extra := judge(r, got)
		if missed != 0 || extra != 0 {
			what := "extra"
			switch {
			case missed != 0 && extra != 0:
				what = "wrong"
			case missed != 0:
				what = "missed"
			}
			f := vlib.Failf(what+"-hit", "mode %s: query %s returns %v; reference: must contain %v, may contain %v; missed %v, not selected %v (reader: %d segments, %d pending deletions)",
				md.name, q, e.idsOfMask(got), e.idsOfMask(r.lo), e.idsOfMask(r.hi&^r.lo), e.idsOfMask(missed), e.idsOfMask(extra), e.o.segments, e.o.pending)
			return e.classify(q, md, mi, f, ctx)
		}
	}
	return nil
}

// blame descends to a smallest sub-tree that still shows the behaviour (bad reports it for a
// stand-alone sub-query); its kind names the failure.
func (e *env) blame(q *Q, md mode, bad func(*Q) bool) *Q {
	for {
		var next *Q
		for _, c := range q.children() {
			if bad(c) {
				next = c
				break
			}
		}
		if next == nil {
			return q
		}
		q = next
	}
}

func hasKind(q *Q, pred func(*Q) bool) bool {
	found := false
	q.walk(func(n *Q) {
		if pred(n) {
			found = true
		}
	})
	return found
}

// classify turns a raw failure into one keyed by the root-cause class.
func (e *env) classify(q *Q, md mode, mi int, f *vlib.Failure, ctx *evalCtx) *vlib.Failure {
	vlib.ClassifyThirdParty(f)
	if strings.HasPrefix(f.Key, "hang@") || f.Key == vlib.IceV2OffsetsPanicKey {
		return f
	}
	if strings.HasPrefix(f.Key, "panic@") {
		culprit := e.blame(q, md, func(s *Q) bool {
			_, _, sf := e.observe(s, md)
			return sf != nil && strings.HasPrefix(sf.Key, "panic@")
		})
		if culprit.Kind == "fuzzy" && culprit.Fuzz == 0 {
			f.Key = "fuzziness-zero-panic"
		} else {
			f.Key = "panic@" + culprit.Kind
		}
		f.Msg = fmt.Sprintf("mode %s: query %s (sub-query %s): %s", md.name, q, culprit, f.Msg)
		e.culprit = culprit
		return f
	}
	if f.Key == "dead-hit" || f.Key == "duplicate-hit" {
		f.Key += "/" + md.name
		return f
	}
	culprit := e.blame(q, md, func(s *Q) bool {
		sctx := newEvalCtx(e.m)
		sr := sctx.eval(s)
		if sctx.skip != "" || sctx.mayReject != "" {
			return false
		}
		got, serr, sf := e.observe(s, md)
		if serr != nil || sf != nil {
			return true
		}
		missed, extra := judge(sr, got)
		return missed != 0 || extra != 0
	})
	cctx := newEvalCtx(e.m)
	cr := cctx.eval(culprit)
	got, _, _ := e.observe(culprit, md)
	missed, extra := judge(cr, got)
	suffix := ""
	if mi > 0 {
		// earlier modes agreed with the reference on the whole query: the mode matters
		if g0, err0, f0 := e.observe(culprit, modes[0]); err0 == nil && f0 == nil {
			if m0, x0 := judge(cr, g0); m0 == 0 && x0 == 0 {
				suffix = "/" + md.name
			}
		}
	}
	switch {
	case culprit.Kind == "termrange" && cctx.classes["termrange:empty-interval"] && missed == 0 && extra != 0:
		f.Key = "term-range-empty-interval"
	case culprit.Kind == "bool" && md.name == "score-none" && suffix != "" && missed == 0 && extra != 0 &&
		len(culprit.Should) > 1 && culprit.MinShould == 1 && (len(culprit.Must) > 0 || len(culprit.MustNot) > 0):
		f.Key = "unadorned-disjunction-drops-min"
	case culprit.Kind == "wildcard" && cctx.classes["newline-in-term"] && missed != 0 && extra == 0:
		f.Key = "newline-in-term"
	default:
		f.Key = f.Key + "@" + culprit.Kind + suffix
	}
	e.culprit = culprit
	if culprit != q {
		f.Msg += fmt.Sprintf(" | smallest failing sub-query: %s returns %v, reference %v..%v", culprit, e.idsOfMask(got), e.idsOfMask(cr.lo), e.idsOfMask(cr.hi))
	}
	return f
}

// ---------------------------------------------------------------------------------------------
// the property on one case

type caseStats struct {
	q        []qstat
	segments int
	pending  int
	live     int
	ran      int // queries reached
	searches int
}

func openEnv(c Corpus) (*env, *vlib.Failure) {
	live := c.liveDocs()
	if len(live) > 64 {
		return nil, vlib.Failf("harness-corpus-too-large", "%d live documents (the evaluator handles 64)", len(live))
	}
	m := newModel(live)
	o, f := openCorpus(c)
	if f != nil {
		return nil, f
	}
	if f := o.mapIDs(c, m); f != nil {
		o.cleanup()
		return nil, f
	}
	return &env{o: o, m: m}, nil
}

// prop runs the queries of the case in order on one reader.  On a violation it also returns the
// smallest case that shows it: the failing query alone when it fails on a fresh reader too,
// otherwise the queries up to it (the answer then depends on the searches that ran before).
func prop(c Case, st *caseStats) (*vlib.Failure, Case) {
	e, f := openEnv(c.Corpus)
	if f != nil {
		return f, Case{Corpus: c.Corpus}
	}
	hung := false
	defer func() {
		// after a hang the search goroutine is still running inside the index: closing the reader
		// (unmapping its files) under it would turn the reported hang into a crash of the process
		if !hung {
			e.o.cleanup()
		}
	}()
	st.segments, st.pending, st.live = e.o.segments, e.o.pending, len(e.m.docs)
	st.q = make([]qstat, len(c.Queries))
	for qi, q := range c.Queries {
		st.ran = qi + 1
		e.nq = qi
		f := e.checkQuery(q, &st.q[qi])
		st.searches += st.q[qi].searches
		if f == nil {
			continue
		}
		if strings.HasPrefix(f.Key, "hang@") {
			hung = true
			f.Msg += "; query " + q.String()
			return f, Case{Corpus: c.Corpus, Queries: []*Q{q}}
		}
		// alone, on a fresh reader?  the smallest failing sub-query alone?
		alone := func(s *Q) *vlib.Failure {
			e2, f2 := openEnv(c.Corpus)
			if f2 != nil {
				return nil
			}
			defer e2.o.cleanup()
			var s2 qstat
			return e2.checkQuery(s, &s2)
		}
		if e.culprit != nil && e.culprit != q {
			if fc := alone(e.culprit); fc != nil && fc.Key == f.Key {
				return fc, Case{Corpus: c.Corpus, Queries: []*Q{e.culprit}}
			}
		}
		if qi > 0 {
			if fa := alone(q); fa == nil {
				f.Key = "state-dependent:" + f.Key
				f.Msg = fmt.Sprintf("query %d of the case fails only after the %d searches before it on the same reader (alone on a fresh reader it agrees with the reference): %s", qi, qi, f.Msg)
				return f, Case{Corpus: c.Corpus, Queries: c.Queries[:qi+1]}
			}
		}
		return f, Case{Corpus: c.Corpus, Queries: []*Q{q}}
	}
	return nil, c
}

func corpusClasses(c Corpus, st *caseStats) []string {
	cls := []string{"corpus"}
	add := func(b bool, s string) {
		if b {
			cls = append(cls, s)
		}
	}
	add(c.Offline > 0, "corpus:offline-writer-merged")
	add(c.FS, "corpus:file-system")
	add(!c.FS && c.Offline == 0, "corpus:in-memory")
	add(c.Reopen, "corpus:open-reader")
	add(c.Merge, "corpus:merger-on")
	add(c.SegV2, "corpus:segment-v2")
	add(st.segments >= 2, "corpus:segments>=2")
	add(st.segments >= 4, "corpus:segments>=4")
	add(st.pending >= 1, "corpus:pending-deletions")
	multi := false
	for _, d := range c.liveDocs() {
		if len(d.T) > 1 {
			multi = true
		}
	}
	add(multi, "corpus:multi-valued-text")
	return cls
}

func queryClasses(q *Q, s *qstat) []string {
	var cls []string
	kinds := map[string]bool{}
	heap := false
	q.walk(func(n *Q) {
		kinds[n.Kind] = true
		if len(n.Should) > 10 || len(n.MustNot) > 10 {
			heap = true
		}
	})
	for _, k := range allKinds {
		if kinds[k] {
			cls = append(cls, "kind:"+k)
		}
	}
	cls = append(cls, "root:"+q.Kind, fmt.Sprintf("depth:%d", q.depth()))
	if heap {
		cls = append(cls, "bool:more-than-10-clauses")
	}
	switch {
	case s.skipped != "":
		cls = append(cls, "not-executed:"+s.skipped)
	case s.rejected:
		cls = append(cls, "rejected-cleanly")
	case s.accepted:
		cls = append(cls, "unjudged:outside-subset-accepted")
	default:
		cls = append(cls, "judged")
		if s.partial {
			cls = append(cls, "judged:some-documents-unjudged")
		}
		switch {
		case s.expect.lo == 0:
			cls = append(cls, "result:empty")
		default:
			cls = append(cls, "result:non-empty")
		}
	}
	for _, c := range s.classes {
		cls = append(cls, "class:"+c)
	}
	return cls
}

const queriesPerCorpus = 50

func TestC07Corpus(t *testing.T) {
	// quick: 4 shards x 60 corpora x 50 queries; thorough: 16 shards x 400 corpora
	vlib.Check(t, 60, 400, func(rt *rapid.T) {
		p := genPools(rt)
		corpus := genCorpus(rt, p)
		m := newModel(corpus.liveDocs())
		c := Case{Corpus: corpus}
		for i := 0; i < queriesPerCorpus; i++ {
			c.Queries = append(c.Queries, genQuery(rt, p, m, !vlib.Thorough()))
		}
		var st caseStats
		f, reduced := prop(c, &st)
		for _, cl := range corpusClasses(corpus, &st) {
			ev.Class(cl, 1)
		}
		layout := st.segments >= 2 && st.pending >= 1
		ckey := vlib.Canon(corpus)
		for qi := 0; qi < st.ran && qi < len(st.q); qi++ {
			s := &st.q[qi]
			nt := s.executed && !s.rejected && !s.accepted && s.nontrivial && layout
			ev.Case(ckey+vlib.Canon(c.Queries[qi]), nt, queryClasses(c.Queries[qi], s)...)
			if s.skipped == "range-enumeration-blowup" {
				ev.AddExtra("range_enumeration_blowup_not_executed", 1)
			}
			if qi < 3 && len(corpus.liveDocs()) <= 8 {
				ev.Sample(map[string]interface{}{"kind": "corpus-query", "query": c.Queries[qi].String(), "live_documents": corpus.liveDocs(),
					"segments": st.segments, "pending_deletions": st.pending, "expected": idsOfMaskModel(m, s.expect.lo)}, nt)
			}
		}
		ev.AddExtra("searches", st.searches)
		vlib.Report(rt, ev, "corpus", reduced, f)
	})
}

func idsOfMaskModel(m *model, mask uint64) []string {
	r := []string{}
	for i, d := range m.docs {
		if mask&(1<<uint(i)) != 0 {
			r = append(r, d.id)
		}
	}
	return r
}

// ---------------------------------------------------------------------------------------------
// replay

var replayFns = map[string]vlib.ReplayFn{
	"corpus": func(raw json.RawMessage) *vlib.Failure {
		var c Case
		if f := vlib.Decode(raw, &c); f != nil {
			return f
		}
		var st caseStats
		f, _ := prop(c, &st)
		return f
	},
	"exhaustive": func(raw json.RawMessage) *vlib.Failure {
		var c ExhCase
		if f := vlib.Decode(raw, &c); f != nil {
			return f
		}
		var st exhStats
		return propExhaustive(c, &st)
	},
}

func TestReplay(t *testing.T)  { vlib.ReplayMain(t, ev, replayFns) }
func TestRegress(t *testing.T) { vlib.RegressMain(t, ev, replayFns) }
