// query_test.go: the query AST, its generator, and the derivation of the bluge query.
package c07

import (
	"fmt"
	"math"
	"strconv"
	"strings"
	"time"

	"github.com/blugelabs/bluge"
	"pgregory.net/rapid"
)

// Q is one node of a query tree.  Both the bluge query and the reference evaluation are derived
// from it.
type Q struct {
	Kind  string `json:"kind"`
	Field string `json:"field,omitempty"`

	// term, prefix, wildcard, regexp, fuzzy: the term / pattern; match, matchphrase: the text
	Text  string     `json:"text,omitempty"`
	Terms [][]string `json:"terms,omitempty"` // multiphrase
	Slop  int        `json:"slop,omitempty"`
	Fuzz  int        `json:"fuzz,omitempty"`   // fuzzy, match
	Pfx   int        `json:"prefix,omitempty"` // fuzzy, match
	And   bool       `json:"and,omitempty"`    // match operator

	// termrange (Lo/Hi are terms, "" = open), numrange (NLo/NHi), daterange (DLo/DHi, nil = open)
	Lo    string `json:"lo,omitempty"`
	Hi    string `json:"hi,omitempty"`
	NLo   Num    `json:"nlo,omitempty"`
	NHi   Num    `json:"nhi,omitempty"`
	DLo   *int64 `json:"dlo,omitempty"`
	DHi   *int64 `json:"dhi,omitempty"`
	IncLo bool   `json:"inc_lo,omitempty"`
	IncHi bool   `json:"inc_hi,omitempty"`

	// geobox: top-left lon, lat, bottom-right lon, lat; geodist: lon, lat and Dist ("5km")
	Geo  []float64 `json:"geo,omitempty"`
	Dist string    `json:"dist,omitempty"`

	// bool
	Must      []*Q `json:"must,omitempty"`
	Should    []*Q `json:"should,omitempty"`
	MustNot   []*Q `json:"must_not,omitempty"`
	MinShould int  `json:"min_should,omitempty"`
}

var allKinds = []string{"term", "match", "matchphrase", "multiphrase", "prefix", "wildcard", "regexp", "fuzzy",
	"termrange", "numrange", "daterange", "geobox", "geodist", "all", "none", "bool"}

func (q *Q) children() []*Q {
	var r []*Q
	r = append(r, q.Must...)
	r = append(r, q.Should...)
	r = append(r, q.MustNot...)
	return r
}

func (q *Q) walk(f func(*Q)) {
	f(q)
	for _, c := range q.children() {
		c.walk(f)
	}
}

func (q *Q) size() int {
	n := 0
	q.walk(func(*Q) { n++ })
	return n
}

func (q *Q) depth() int {
	d := 0
	for _, c := range q.children() {
		if cd := c.depth(); cd > d {
			d = cd
		}
	}
	if q.Kind == "bool" {
		return d + 1
	}
	return 0
}

// String renders the tree compactly for messages.
func (q *Q) String() string {
	switch q.Kind {
	case "term", "prefix", "wildcard", "regexp":
		return fmt.Sprintf("%s(%s:%q)", q.Kind, q.Field, q.Text)
	case "fuzzy":
		return fmt.Sprintf("fuzzy(%s:%q~%d p%d)", q.Field, q.Text, q.Fuzz, q.Pfx)
	case "match":
		op := "or"
		if q.And {
			op = "and"
		}
		return fmt.Sprintf("match(%s:%q %s ~%d p%d)", q.Field, q.Text, op, q.Fuzz, q.Pfx)
	case "matchphrase":
		return fmt.Sprintf("matchphrase(%s:%q slop %d)", q.Field, q.Text, q.Slop)
	case "multiphrase":
		return fmt.Sprintf("multiphrase(%s:%q slop %d)", q.Field, q.Terms, q.Slop)
	case "termrange":
		return fmt.Sprintf("termrange(%s:%s%q,%q%s)", q.Field, brk(q.IncLo, "[", "("), q.Lo, q.Hi, brk(q.IncHi, "]", ")"))
	case "numrange":
		return fmt.Sprintf("numrange(%s:%s%v,%v%s)", q.Field, brk(q.IncLo, "[", "("), float64(q.NLo), float64(q.NHi), brk(q.IncHi, "]", ")"))
	case "daterange":
		return fmt.Sprintf("daterange(%s:%s%s,%s%s)", q.Field, brk(q.IncLo, "[", "("), optInt(q.DLo), optInt(q.DHi), brk(q.IncHi, "]", ")"))
	case "geobox":
		return fmt.Sprintf("geobox(%s:%v)", q.Field, q.Geo)
	case "geodist":
		return fmt.Sprintf("geodist(%s:%v %s)", q.Field, q.Geo, q.Dist)
	case "all", "none":
		return q.Kind
	case "bool":
		var parts []string
		list := func(name string, qs []*Q) {
			if len(qs) == 0 {
				return
			}
			var s []string
			for _, c := range qs {
				s = append(s, c.String())
			}
			parts = append(parts, name+"["+strings.Join(s, ", ")+"]")
		}
		list("must", q.Must)
		list("should", q.Should)
		if len(q.Should) > 0 || q.MinShould != 0 {
			parts = append(parts, "min="+strconv.Itoa(q.MinShould))
		}
		list("not", q.MustNot)
		return "bool{" + strings.Join(parts, " ") + "}"
	}
	return "?" + q.Kind
}

func brk(b bool, y, n string) string {
	if b {
		return y
	}
	return n
}

func optInt(p *int64) string {
	if p == nil {
		return "*"
	}
	return strconv.FormatInt(*p, 10)
}

// build derives a fresh bluge query (bluge queries cache scorers lazily: never shared between
// two searches).
func (q *Q) build() bluge.Query {
	switch q.Kind {
	case "term":
		return bluge.NewTermQuery(q.Text).SetField(q.Field)
	case "match":
		mq := bluge.NewMatchQuery(q.Text).SetField(q.Field)
		if q.And {
			mq.SetOperator(bluge.MatchQueryOperatorAnd)
		}
		if q.Fuzz != 0 {
			mq.SetFuzziness(q.Fuzz)
		}
		if q.Pfx != 0 {
			mq.SetPrefix(q.Pfx)
		}
		return mq
	case "matchphrase":
		return bluge.NewMatchPhraseQuery(q.Text).SetField(q.Field).SetSlop(q.Slop)
	case "multiphrase":
		terms := make([][]string, len(q.Terms))
		for i, ts := range q.Terms {
			terms[i] = append([]string(nil), ts...)
		}
		return bluge.NewMultiPhraseQuery(terms).SetField(q.Field).SetSlop(q.Slop)
	case "prefix":
		return bluge.NewPrefixQuery(q.Text).SetField(q.Field)
	case "wildcard":
		return bluge.NewWildcardQuery(q.Text).SetField(q.Field)
	case "regexp":
		return bluge.NewRegexpQuery(q.Text).SetField(q.Field)
	case "fuzzy":
		return bluge.NewFuzzyQuery(q.Text).SetField(q.Field).SetFuzziness(q.Fuzz).SetPrefix(q.Pfx)
	case "termrange":
		return bluge.NewTermRangeInclusiveQuery(q.Lo, q.Hi, q.IncLo, q.IncHi).SetField(q.Field)
	case "numrange":
		return bluge.NewNumericRangeInclusiveQuery(float64(q.NLo), float64(q.NHi), q.IncLo, q.IncHi).SetField(q.Field)
	case "daterange":
		var lo, hi time.Time
		if q.DLo != nil {
			lo = time.Unix(0, *q.DLo)
		}
		if q.DHi != nil {
			hi = time.Unix(0, *q.DHi)
		}
		return bluge.NewDateRangeInclusiveQuery(lo, hi, q.IncLo, q.IncHi).SetField(q.Field)
	case "geobox":
		return bluge.NewGeoBoundingBoxQuery(q.Geo[0], q.Geo[1], q.Geo[2], q.Geo[3]).SetField(q.Field)
	case "geodist":
		return bluge.NewGeoDistanceQuery(q.Geo[0], q.Geo[1], q.Dist).SetField(q.Field)
	case "all":
		return bluge.NewMatchAllQuery()
	case "none":
		return bluge.NewMatchNoneQuery()
	case "bool":
		bq := bluge.NewBooleanQuery()
		for _, c := range q.Must {
			bq.AddMust(c.build())
		}
		for _, c := range q.Should {
			bq.AddShould(c.build())
		}
		for _, c := range q.MustNot {
			bq.AddMustNot(c.build())
		}
		if q.MinShould != 0 {
			bq.SetMinShould(q.MinShould)
		}
		return bq
	}
	panic("harness: unknown query kind " + q.Kind)
}

// wellFormed rejects trees that a replay file could contain but the evaluator cannot handle.
func (q *Q) wellFormed() error {
	var err error
	q.walk(func(n *Q) {
		ok := false
		for _, k := range allKinds {
			if k == n.Kind {
				ok = true
			}
		}
		switch {
		case !ok:
			err = fmt.Errorf("unknown kind %q", n.Kind)
		case (n.Kind == "geobox" && len(n.Geo) != 4) || (n.Kind == "geodist" && len(n.Geo) != 2):
			err = fmt.Errorf("%s needs %d coordinates", n.Kind, map[string]int{"geobox": 4, "geodist": 2}[n.Kind])
		case n.Kind == "bool" && n.MinShould < 0:
			err = fmt.Errorf("negative min_should")
		}
	})
	return err
}

// ---------------------------------------------------------------------------------------------
// generator

type qgen struct {
	t      *rapid.T
	p      *pools
	m      *model
	quick  bool
	budget int // nodes left for this tree
	// reject: this tree may hold leaves outside the accepted domain (fuzziness 3, unsupported
	// regexp operators, unparsable distance).  One such leaf makes the whole search an error, so
	// only few trees get them.
	reject bool
}

func (g *qgen) flip(n int, label string) bool { return uni(g.t, n, label) == 0 }

// leafWeights: geo leaves are rare (20-50 ms each).
var leafKinds = []struct {
	kind string
	w    int
}{
	{"term", 18}, {"match", 8}, {"matchphrase", 8}, {"multiphrase", 8}, {"prefix", 7}, {"wildcard", 7}, {"regexp", 7},
	{"fuzzy", 9}, {"termrange", 8}, {"numrange", 7}, {"daterange", 6}, {"geobox", 2}, {"geodist", 2}, {"all", 2}, {"none", 1},
}

func (g *qgen) leafKind() string {
	total := 0
	for _, k := range leafKinds {
		total += k.w
	}
	x := uni(g.t, total, "leafKind")
	for _, k := range leafKinds {
		if x < k.w {
			if g.quick && strings.HasPrefix(k.kind, "geo") && g.flip(2, "geoQuick") {
				return "term" // quick tier: half as many geo leaves
			}
			return k.kind
		}
		x -= k.w
	}
	return "term"
}

func (g *qgen) fuzziness(ok []int) int {
	if g.reject && g.flip(3, "fuzzTooLarge") {
		return 3
	}
	return pick(g.t, ok, "fuzz")
}

func (g *qgen) termField() string {
	if g.flip(3, "fieldK") {
		return "k"
	}
	return "t"
}

// word draws a term for a term-valued field: mostly one that live documents hold, sometimes one of
// the field's vocabulary that may be absent, rarely a foreign one.
func (g *qgen) word(field string) string {
	switch x := uni(g.t, 16, "termSource"); {
	case x == 0:
		return pick(g.t, []string{"zzz", "c", "a", "bca"}, "foreignTerm")
	case x <= 3 || len(g.m.terms[field]) == 0:
		if field == "k" {
			return pick(g.t, g.p.kws, "vocabTerm")
		}
		return pick(g.t, tWords, "vocabTerm")
	default:
		return pick(g.t, g.m.terms[field], "liveTerm")
	}
}

func (g *qgen) phraseText() (string, int) {
	// mostly a window of a live document's text (so that the phrase occurs), sometimes words at random
	n := rapid.IntRange(1, 4).Draw(g.t, "phraseLen")
	var ws []string
	if len(g.m.docs) > 0 && !g.flip(3, "phraseRandom") {
		d := g.m.docs[rapid.IntRange(0, len(g.m.docs)-1).Draw(g.t, "phraseDoc")]
		if len(d.toks) > 0 {
			start := rapid.IntRange(0, len(d.toks)-1).Draw(g.t, "phraseStart")
			for i := start; i < len(d.toks) && len(ws) < n; i++ {
				ws = append(ws, d.toks[i].term)
			}
			// perturb: swap two words or drop one (slop decides)
			if len(ws) >= 2 && g.flip(3, "phraseSwap") {
				i := rapid.IntRange(0, len(ws)-2).Draw(g.t, "swapAt")
				ws[i], ws[i+1] = ws[i+1], ws[i]
			}
			if len(ws) >= 3 && g.flip(4, "phraseDrop") {
				i := rapid.IntRange(1, len(ws)-2).Draw(g.t, "dropAt")
				ws = append(ws[:i], ws[i+1:]...)
			}
		}
	}
	for len(ws) < 1 || (len(ws) < n && g.flip(2, "phrasePad")) {
		ws = append(ws, pick(g.t, tWords, "phraseWord"))
	}
	return strings.Join(ws, " "), len(ws)
}

func (g *qgen) slop() int {
	return pick(g.t, []int{0, 0, 0, 1, 2, 3, 5, 99, 100, 101, 102, 200, 203}, "slop")
}

// (patterns with '.' or a negated class cost a large UTF-8 automaton each: kept few)
var regexpSubset = []string{"ab.*", "a\\.c", "a[bc]+", "(ab|ba)c?", "a{1,2}b", "ab|zz", "[a-b]{2,3}", "a b", "a\\*c", "ab\\+",
	"(a|b)(b|c)d?", "[a-zü]+", "a[bc]?[a-d]*", "(a|ü)b?", "a.c", "ü.?", "[^a]b?", ".*c", "..", "zz|a[a-c]"}

// patterns outside the subset vellum supports: a clean error is expected, no verdict otherwise
var regexpOutside = []string{"ab$", "\\bab", "a*?b", "a\\B", "(?m)^a$"}

func (g *qgen) leaf() *Q {
	t := g.t
	kind := g.leafKind()
	switch kind {
	case "all", "none":
		return &Q{Kind: kind}
	case "term":
		f := g.termField()
		if g.flip(20, "termOnID") && len(g.m.docs) > 0 {
			return &Q{Kind: "term", Field: "_id", Text: pick(t, append(idsOf(g.m), "d999"), "idTerm")}
		}
		return &Q{Kind: "term", Field: f, Text: g.word(f)}
	case "match":
		f := g.termField()
		n := rapid.IntRange(1, 3).Draw(t, "matchWords")
		var ws []string
		for i := 0; i < n; i++ {
			w := g.word(f)
			if g.flip(6, "matchUpper") {
				w = strings.ToUpper(w)
			}
			ws = append(ws, w)
		}
		q := &Q{Kind: "match", Field: f, Text: strings.Join(ws, " "), And: rapid.Bool().Draw(t, "matchAnd")}
		if g.flip(3, "matchFuzzy") {
			q.Fuzz = g.fuzziness([]int{1, 2})
			q.Pfx = pick(t, []int{0, 0, 1, 2}, "matchPfx")
		}
		return q
	case "matchphrase":
		txt, _ := g.phraseText()
		if g.flip(8, "phraseUpper") {
			txt = strings.ToUpper(txt)
		}
		return &Q{Kind: "matchphrase", Field: "t", Text: txt, Slop: g.slop()}
	case "multiphrase":
		txt, n := g.phraseText()
		ws := strings.Fields(txt)
		terms := make([][]string, 0, n)
		for _, w := range ws {
			alts := []string{w}
			for g.flip(3, "alt") && len(alts) < 3 {
				alts = append(alts, pick(t, tWords, "altWord"))
			}
			terms = append(terms, alts)
		}
		// a "don't care" position inside the phrase now and then
		if len(terms) >= 2 && g.flip(6, "hole") {
			i := rapid.IntRange(1, len(terms)-1).Draw(t, "holeAt")
			hole := [][]string{{}}
			if g.flip(2, "holeAsEmptyString") {
				hole = [][]string{{""}}
			}
			terms = append(terms[:i], append(hole, terms[i:]...)...)
		}
		return &Q{Kind: "multiphrase", Field: "t", Terms: terms, Slop: g.slop()}
	case "prefix":
		f := g.termField()
		w := g.word(f)
		for w == "" {
			w = g.word(f)
		}
		r := []rune(w)
		n := rapid.IntRange(1, len(r)).Draw(t, "prefixLen")
		return &Q{Kind: "prefix", Field: f, Text: string(r[:n])}
	case "wildcard":
		f := g.termField()
		w := []rune(g.word(f))
		var sb strings.Builder
		for _, r := range w {
			switch uni(t, 6, "wc") {
			case 0:
				sb.WriteString("?")
			case 1:
				sb.WriteString("*")
			default:
				sb.WriteRune(r)
			}
		}
		if g.flip(3, "wcTail") {
			sb.WriteString("*")
		}
		if g.flip(12, "wcStar") {
			return &Q{Kind: "wildcard", Field: f, Text: pick(t, []string{"*", "?", "??", "*?*", "a?*", "*.*"}, "wcFixed")}
		}
		return &Q{Kind: "wildcard", Field: f, Text: sb.String()}
	case "regexp":
		f := g.termField()
		if g.reject && g.flip(3, "regexpOutside") {
			return &Q{Kind: "regexp", Field: f, Text: pick(t, regexpOutside, "regexpOut")}
		}
		if g.flip(10, "regexpAnchored") {
			return &Q{Kind: "regexp", Field: f, Text: "^" + pick(t, regexpSubset, "regexp")}
		}
		return &Q{Kind: "regexp", Field: f, Text: pick(t, regexpSubset, "regexp")}
	case "fuzzy":
		f := g.termField()
		w := g.word(f)
		if g.flip(4, "fuzzyEdit") {
			// a term one edit away from a vocabulary term
			r := []rune(w)
			switch {
			case len(r) >= 2 && g.flip(2, "fuzzySwap"):
				i := rapid.IntRange(0, len(r)-2).Draw(t, "fswap")
				r[i], r[i+1] = r[i+1], r[i]
			case len(r) >= 1:
				i := rapid.IntRange(0, len(r)-1).Draw(t, "fsub")
				r[i] = pick(t, []rune("abcüz"), "frune")
			}
			w = string(r)
		}
		return &Q{Kind: "fuzzy", Field: f, Text: w, Fuzz: g.fuzziness([]int{0, 0, 1, 1, 1, 1, 1, 2, 2, 2, 2, 2, 1, 2}), Pfx: pick(t, []int{0, 0, 0, 1, 2, 3, 9}, "fpfx")}
	case "termrange":
		f := g.termField()
		q := &Q{Kind: "termrange", Field: f, Lo: g.word(f), Hi: g.word(f), IncLo: rapid.Bool().Draw(t, "incLo"), IncHi: rapid.Bool().Draw(t, "incHi")}
		switch uni(t, 20, "trShape") {
		case 0, 1:
			q.Hi = q.Lo // degenerate
		case 2, 3:
			q.Lo = "" // open start
		case 4, 5:
			q.Hi = "" // open end
		case 6, 7: // as drawn: inverted half of the time
		default:
			if q.Lo > q.Hi && q.Hi != "" { // mostly ordered
				q.Lo, q.Hi = q.Hi, q.Lo
			}
		}
		if q.Lo == "" && q.Hi == "" {
			q.Hi = "b" // both open is outside the query's domain (Validate)
		}
		return q
	case "numrange":
		return g.numRange()
	case "daterange":
		return g.dateRange()
	case "geobox":
		return g.geoBox()
	case "geodist":
		return g.geoDist()
	}
	return &Q{Kind: "none"}
}

func idsOf(m *model) []string {
	r := make([]string, 0, len(m.docs))
	for _, d := range m.docs {
		r = append(r, d.id)
	}
	return r
}

func (g *qgen) numBound() float64 {
	t := g.t
	var pool []float64
	for _, d := range g.m.docs {
		for _, s := range d.nums {
			pool = append(pool, unsortable(s))
		}
	}
	var v float64
	if len(pool) > 0 && !g.flip(4, "numBoundFree") {
		v = pick(t, pool, "numFrom")
	} else {
		v = g.p.num(t)
	}
	switch uni(t, 8, "numNudge") {
	case 0:
		v = math.Nextafter(v, math.Inf(1))
	case 1:
		v = math.Nextafter(v, math.Inf(-1))
	case 2:
		v += float64(rapid.IntRange(-3, 3).Draw(t, "numShift"))
	}
	return v
}

func unsortable(s int64) float64 {
	if s < 0 {
		return math.Float64frombits(^uint64(s) ^ 1<<63)
	}
	return math.Float64frombits(uint64(s))
}

// cheapSteps: ranges predicted above this many dictionary look-ups are drawn again (a preference
// of the generator, 0.36 us per look-up; what must not run at all is decided by stepLimit).
func (g *qgen) cheapSteps() int64 {
	if g.quick {
		return 20000
	}
	return 60000
}

func (g *qgen) numRange() *Q {
	t := g.t
	for try := 0; ; try++ {
		q := &Q{Kind: "numrange", Field: "n", NLo: Num(g.numBound()), NHi: Num(g.numBound()), IncLo: rapid.Bool().Draw(t, "incLo"), IncHi: rapid.Bool().Draw(t, "incHi")}
		switch uni(t, 24, "nrShape") {
		case 0, 1:
			q.NHi = q.NLo
		case 2, 3:
			q.NLo = Num(math.Inf(-1))
		case 4, 5:
			q.NHi = Num(math.Inf(1))
		case 6:
			q.NLo = Num(math.Inf(1)) // nothing is >= +Inf among finite values
		case 7:
			q.NHi = Num(math.Inf(-1))
		case 8, 9: // as drawn: inverted half of the time
		default:
			if sortable(float64(q.NLo)) > sortable(float64(q.NHi)) {
				q.NLo, q.NHi = q.NHi, q.NLo
			}
		}
		if math.IsInf(float64(q.NLo), -1) && math.IsInf(float64(q.NHi), 1) {
			q.NHi = Num(7) // both open is outside the query's domain (Validate)
		}
		lo, hi, empty := numInterval(q)
		if empty || try >= 6 {
			return q
		}
		steps := predictSteps(lo, hi)
		if steps <= g.cheapSteps() {
			return q
		}
		if steps > stepLimit {
			ev.Class("gen:range-enumeration-blowup-redrawn", 1)
		}
	}
}

func (g *qgen) dateBound() int64 {
	t := g.t
	var pool []int64
	for _, d := range g.m.docs {
		pool = append(pool, d.dates...)
	}
	var v int64
	if len(pool) > 0 && !g.flip(4, "dateBoundFree") {
		v = pick(t, pool, "dateFrom")
	} else {
		v = g.p.date(t)
	}
	switch uni(t, 8, "dateNudge") {
	case 0:
		if v < math.MaxInt64 {
			v++
		}
	case 1:
		if v > math.MinInt64 {
			v--
		}
	case 2:
		d := int64(rapid.IntRange(-3, 3).Draw(t, "dateShift")) * 86400000000000
		if (d > 0 && v < math.MaxInt64-d) || (d < 0 && v > math.MinInt64-d) {
			v += d
		}
	}
	return v
}

func (g *qgen) dateRange() *Q {
	t := g.t
	for try := 0; ; try++ {
		lo, hi := g.dateBound(), g.dateBound()
		q := &Q{Kind: "daterange", Field: "d", DLo: &lo, DHi: &hi, IncLo: rapid.Bool().Draw(t, "incLo"), IncHi: rapid.Bool().Draw(t, "incHi")}
		switch uni(t, 24, "drShape") {
		case 0, 1:
			h := lo
			q.DHi = &h
		case 2, 3:
			q.DLo = nil
		case 4, 5:
			q.DHi = nil
		case 8, 9: // as drawn: inverted half of the time
		default:
			if lo > hi {
				q.DLo, q.DHi = &hi, &lo
			}
		}
		a, b, empty := dateInterval(q)
		if empty || try >= 6 {
			return q
		}
		steps := predictSteps(a, b)
		if steps <= g.cheapSteps() {
			return q
		}
		if steps > stepLimit {
			ev.Class("gen:range-enumeration-blowup-redrawn", 1)
		}
	}
}

func (g *qgen) geoCentre() (lon, lat float64) {
	t := g.t
	var pool [][2]float64
	for _, d := range g.m.docs {
		pool = append(pool, d.geos...)
	}
	if len(pool) > 0 && !g.flip(5, "geoCentreFree") {
		p := pick(t, pool, "geoFrom")
		return p[0], p[1]
	}
	p := g.p.geo(t)
	return p[0], p[1]
}

// Geo queries are dear: a box is searched cell by cell (0.1 ms for 0.01 degrees, 20 ms for one
// degree, 200 ms for 20 degrees on the busy build machine), a distance query searches the box
// around its circle - and when a pole lies inside the circle that box spans all longitudes (100 ms
// for one metre at the pole, above a second for 12 km).  Sizes are kept small, pole circles rare.
func (g *qgen) geoBox() *Q {
	t := g.t
	lon, lat := g.geoCentre()
	sizes := []float64{0.0005, 0.004, 0.03, 0.2}
	if !g.quick {
		sizes = append(sizes, 1, 3)
	}
	side := func(label string) float64 {
		s := pick(t, sizes, label)
		if s >= 1 {
			return s * float64(rapid.IntRange(1, 2).Draw(t, label+"Mul"))
		}
		return s * float64(rapid.IntRange(1, 4).Draw(t, label+"Mul"))
	}
	w, h := side("boxW"), side("boxH")
	// the centre is placed off the middle so that points sit at various distances from the edges
	fx := float64(rapid.IntRange(0, 10).Draw(t, "boxFx")) / 10
	fy := float64(rapid.IntRange(0, 10).Draw(t, "boxFy")) / 10
	tlLon, brLon := lon-w*fx, lon+w*(1-fx)
	brLat, tlLat := lat-h*fy, lat+h*(1-fy)
	// wrap across the date line instead of leaving the value space
	if tlLon < -180 {
		tlLon += 360
	}
	if brLon > 180 {
		brLon -= 360
	}
	tlLat, brLat = clamp(tlLat, -90, 90), clamp(brLat, -90, 90)
	if g.flip(25, "boxInvertedLat") {
		tlLat, brLat = brLat, tlLat
	}
	return &Q{Kind: "geobox", Field: "g", Geo: []float64{tlLon, tlLat, brLon, brLat}}
}

func (g *qgen) geoDist() *Q {
	t := g.t
	lon, lat := g.geoCentre()
	// move the centre a little so that points are at various distances
	lon = clamp(lon+float64(rapid.IntRange(-20, 20).Draw(t, "distDLon"))/1000, -180, 180)
	lat = clamp(lat+float64(rapid.IntRange(-20, 20).Draw(t, "distDLat"))/1000, -90, 90)
	dists := []string{"1m", "150m", "2km", "5000", "3mi", "12km", "0.5nm", "4000ft"}
	if !g.quick {
		dists = append(dists, "60km")
	}
	d := pick(t, dists, "dist")
	if math.Abs(lat) > 80 {
		// close to a pole even a modest circle spans many degrees of longitude
		d = pick(t, []string{"1m", "150m", "2km", "0.5nm", "4000ft"}, "polarDist")
	}
	if math.Abs(lat) > 89 {
		// a circle around (or over) a pole
		if !g.quick && g.flip(8, "poleCircle") {
			d = pick(t, []string{"1m", "150m", "2km"}, "poleDist")
		} else {
			lat = math.Copysign(89, lat) - math.Copysign(float64(rapid.IntRange(0, 100).Draw(t, "offPole"))/100, lat)
		}
	}
	if g.reject && g.flip(3, "distBad") {
		d = pick(t, []string{"5 parsecs", "km", ""}, "distBadText")
	}
	if g.reject && g.flip(3, "distBadCentre") {
		lat = 91
	}
	return &Q{Kind: "geodist", Field: "g", Geo: []float64{lon, lat}, Dist: d}
}

// tree draws a query tree of depth <= maxDepth.
func (g *qgen) tree(maxDepth int) *Q {
	t := g.t
	g.budget--
	if maxDepth == 0 || g.budget <= 0 || g.flip(3, "leafHere") {
		return g.leaf()
	}
	q := &Q{Kind: "bool"}
	sub := func(label string) *Q {
		d := maxDepth - 1
		if d > 0 && !g.flip(3, label+"Deep") {
			d = 0
		}
		return g.tree(d)
	}
	var nMust, nShould, nNot int
	switch uni(t, 20, "boolShape") {
	case 0: // wide should: the heap disjunction takes over above 10 clauses
		nShould = rapid.IntRange(11, 14).Draw(t, "wideShould")
		nMust = rapid.IntRange(0, 1).Draw(t, "wideMust")
	case 1: // wide must-not
		nNot = rapid.IntRange(11, 12).Draw(t, "wideNot")
		nMust = rapid.IntRange(0, 2).Draw(t, "wideNotMust")
	case 2: // only must-nots
		nNot = rapid.IntRange(1, 3).Draw(t, "onlyNot")
	case 3: // nothing at all
	default:
		nMust = rapid.IntRange(0, 3).Draw(t, "nMust")
		nShould = rapid.IntRange(0, 4).Draw(t, "nShould")
		nNot = pick(t, []int{0, 0, 0, 1, 1, 2}, "nNot")
	}
	wide := nShould > 10 || nNot > 10
	for i := 0; i < nMust; i++ {
		q.Must = append(q.Must, sub("must"))
	}
	for i := 0; i < nShould; i++ {
		if wide {
			g.budget--
			q.Should = append(q.Should, g.leaf())
		} else {
			q.Should = append(q.Should, sub("should"))
		}
	}
	for i := 0; i < nNot; i++ {
		if wide {
			g.budget--
			q.MustNot = append(q.MustNot, g.leaf())
		} else {
			q.MustNot = append(q.MustNot, sub("not"))
		}
	}
	if nShould > 0 {
		q.MinShould = pick(t, []int{0, 0, 1, 1, 1, 2, 2, 3, nShould, nShould + 1}, "minShould")
	} else if g.flip(8, "minWithoutShould") {
		q.MinShould = rapid.IntRange(1, 2).Draw(t, "minNoShould")
	}
	return q
}

func genQuery(t *rapid.T, p *pools, m *model, quick bool) *Q {
	g := &qgen{t: t, p: p, m: m, quick: quick, budget: 40}
	g.reject = g.flip(25, "mayHoldRejectedLeaf")
	depth := pick(t, []int{0, 1, 1, 2, 2, 2, 3, 3, 4}, "depth")
	if depth == 0 {
		return g.leaf()
	}
	// force a compound root
	q := g.tree(depth)
	for try := 0; q.Kind != "bool" && try < 4; try++ {
		g.budget = 40
		q = g.tree(depth)
	}
	return q
}
