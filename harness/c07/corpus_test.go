// corpus_test.go: corpus specification, generator, index construction and the harness's own
// analysed model of the live documents.
package c07

import (
	"context"
	"fmt"
	"math"
	"os"
	"path/filepath"
	"sort"
	"strconv"
	"sync/atomic"
	"time"

	"github.com/blugelabs/bluge"
	"github.com/blugelabs/bluge/analysis/analyzer"
	"github.com/blugelabs/bluge/index"
	"pgregory.net/rapid"

	"verifharness/vlib"
)

// Num is a float64 that survives JSON exactly (−0, denormals, ±Inf).
type Num float64

func (n Num) MarshalJSON() ([]byte, error) {
	return []byte(strconv.Quote(strconv.FormatFloat(float64(n), 'g', -1, 64))), nil
}

func (n *Num) UnmarshalJSON(b []byte) error {
	s, err := strconv.Unquote(string(b))
	if err != nil {
		s = string(b)
	}
	f, err := strconv.ParseFloat(s, 64)
	if err != nil {
		return err
	}
	*n = Num(f)
	return nil
}

// Doc is the logical content of one document version.
type Doc struct {
	ID string       `json:"id"`
	T  []string     `json:"t,omitempty"` // values of the analysed text field t (positions indexed)
	K  []string     `json:"k,omitempty"` // values of the keyword field k
	N  []Num        `json:"n,omitempty"` // values of the numeric field n
	D  []int64      `json:"d,omitempty"` // values of the date field d (unix nanoseconds)
	G  [][2]float64 `json:"g,omitempty"` // values of the geo point field g (lon, lat)
}

// Op is one batch operation.
type Op struct {
	Kind string `json:"op"` // ins | upd | del
	Doc  Doc    `json:"doc"`
}

// Corpus is an index recipe.
type Corpus struct {
	FS      bool   `json:"fs,omitempty"`     // file-system directory instead of in-memory
	Reopen  bool   `json:"reopen,omitempty"` // FS only: close the writer, search through OpenReader
	SegV2   bool   `json:"seg_v2,omitempty"` // ice segment version 2
	Merge   bool   `json:"merge,omitempty"`  // leave the default merger on
	// Offline > 0: the live documents (what the batches leave) are written through
	// bluge.OpenOfflineWriter with this batch size and searched through OpenReader: the segments of
	// the batches are merged when the writer is closed, deterministically - merged segments use
	// encodings fresh ones never have (one-document postings lists inside the dictionary)
	Offline int    `json:"offline,omitempty"`
	Batches [][]Op `json:"batches"`
}

// ---------------------------------------------------------------------------------------------
// vocabularies

// words of the text field: few, short, sharing prefixes and within edit distance 1-2 of each
// other (transposition pairs ab/ba, abc/acb; "ca"/"abc" separates OSA from Damerau), one with a
// multi-byte rune; upper case variants are folded by the standard analyzer
var tWords = []string{"ab", "ba", "abc", "acb", "ca", "aüc", "zz", "abcd"}
var tWordsUpper = []string{"Ab", "BA", "aBc", "ZZ", "AÜC"}

// keyword terms: shared prefixes, a multi-byte rune, regexp meta characters that a wildcard must
// take literally, a blank
var kWords = []string{"a", "ab", "abc", "abd", "b", "ba", "ü", "üb", "zz", "a.c", "a b", "a*c", "ab+"}

const kEmpty = ""       // class empty-term
const kNewline = "a\nb" // class newline-in-term

var numBoundary = []float64{0, math.Copysign(0, -1), 1, -1, math.MaxFloat64, -math.MaxFloat64,
	math.SmallestNonzeroFloat64, -math.SmallestNonzeroFloat64, 7, math.Nextafter(7, 0), math.Nextafter(7, 8),
	0.1, -0.1, 1 << 53, -(1 << 53), 1e300, 255, 256, 127, 128, math.Nextafter(1, 2), 2, 16, 15}

var dateBoundary = []int64{0, 1, -1, math.MinInt64, math.MaxInt64, math.MinInt64 + 1, math.MaxInt64 - 1,
	1 << 35, 1<<35 - 1, 1<<35 + 1, -(1 << 35), 1 << 62, -(1 << 62), 1 << 28, 1<<28 - 1,
	1577836800000000000, 1577836800000000001, 1577836799999999999,
	-9218868437227405313, 9218868437227405312, // bit patterns of the infinities read as int64
	127, 128, 16383, 16384}

var lonBoundary = []float64{-180, 180, 0, 90, -90, 179.999999, -179.999999, 1e-6, 45, -135}
var latBoundary = []float64{-90, 90, 0, 45, -45, 89.999999, -89.999999, 1e-6}

// pools describes what the generated documents of one corpus draw from; the query generator
// draws from the same pools so that queries hit.
type pools struct {
	nums  []float64
	dates []int64
	cLon  float64 // centre of the geo cluster
	cLat  float64
	kws   []string
	cases []string // documents may use upper-case variants
}

// uni draws a number below n without rapid's bias towards small values and the maximum (weights
// written down in the generators are meant as written): a multiplicative hash of a raw draw.
func uni(t *rapid.T, n int, label string) int {
	x := rapid.Uint64().Draw(t, label)
	return int(((x + 1) * 0x9E3779B97F4A7C15 >> 32) % uint64(n))
}

func pick[T any](t *rapid.T, s []T, label string) T {
	return s[uni(t, len(s), label)]
}

func genPools(t *rapid.T) *pools {
	p := &pools{}
	p.kws = append(p.kws, kWords...)
	if uni(t, 4, "withEmptyKw") == 0 {
		p.kws = append(p.kws, kEmpty)
	}
	if uni(t, 4, "withNewlineKw") == 0 {
		p.kws = append(p.kws, kNewline)
	}
	p.cLon = float64(rapid.IntRange(-1700, 1700).Draw(t, "clusterLon")) / 10
	p.cLat = float64(rapid.IntRange(-800, 800).Draw(t, "clusterLat")) / 10
	return p
}

func (p *pools) num(t *rapid.T) float64 {
	if rapid.Bool().Draw(t, "numBoundary") {
		return pick(t, numBoundary, "numB")
	}
	switch uni(t, 3, "numKind") {
	case 0:
		return float64(rapid.IntRange(-3, 12).Draw(t, "numInt"))
	case 1:
		return float64(rapid.IntRange(-40, 40).Draw(t, "numQ")) / 4
	default:
		return rapid.Float64Range(-1e6, 1e6).Draw(t, "numF")
	}
}

func (p *pools) date(t *rapid.T) int64 {
	if rapid.Bool().Draw(t, "dateBoundary") {
		return pick(t, dateBoundary, "dateB")
	}
	switch uni(t, 3, "dateKind") {
	case 0:
		return 1577836800000000000 + int64(rapid.IntRange(-5, 20).Draw(t, "dateDay"))*86400000000000
	case 1:
		return int64(rapid.IntRange(-50, 50).Draw(t, "dateNs"))
	default:
		return rapid.Int64Range(-(1 << 61), 1<<61).Draw(t, "dateAny")
	}
}

func (p *pools) geo(t *rapid.T) [2]float64 {
	if rapid.Bool().Draw(t, "geoBoundary") {
		return [2]float64{pick(t, lonBoundary, "lonB"), pick(t, latBoundary, "latB")}
	}
	// cluster: within about half a degree of the centre, on a grid of 1e-3 degrees
	lon := p.cLon + float64(rapid.IntRange(-500, 500).Draw(t, "dLon"))/1000
	lat := p.cLat + float64(rapid.IntRange(-500, 500).Draw(t, "dLat"))/1000
	return [2]float64{clamp(lon, -180, 180), clamp(lat, -90, 90)}
}

func clamp(v, lo, hi float64) float64 {
	if v < lo {
		return lo
	}
	if v > hi {
		return hi
	}
	return v
}

func (p *pools) text(t *rapid.T) string {
	n := rapid.IntRange(2, 12).Draw(t, "nWords")
	if uni(t, 3, "shortText") == 0 {
		n = rapid.IntRange(1, 4).Draw(t, "nWordsShort")
	}
	s := ""
	for i := 0; i < n; i++ {
		w := pick(t, tWords, "word")
		if uni(t, 10, "upper") == 0 {
			w = pick(t, tWordsUpper, "wordUpper")
		}
		if i > 0 {
			s += pick(t, []string{" ", " ", " ", ", ", "  ", "-"}, "sep")
		}
		s += w
	}
	return s
}

func count(t *rapid.T, label string) int {
	// 0: missing (1/4), 1: single (1/2), 2-3: multi-valued (1/4)
	switch uni(t, 8, label) {
	case 0, 1:
		return 0
	case 2, 3, 4, 5:
		return 1
	case 6:
		return 2
	default:
		return 3
	}
}

func genDoc(t *rapid.T, p *pools, id string) Doc {
	d := Doc{ID: id}
	nt := count(t, "tCount")
	if nt == 0 && rapid.Bool().Draw(t, "tAnyway") {
		nt = 1
	}
	for i := 0; i < nt; i++ {
		d.T = append(d.T, p.text(t))
	}
	for i, n := 0, count(t, "kCount"); i < n; i++ {
		d.K = append(d.K, pick(t, p.kws, "kw"))
	}
	for i, n := 0, count(t, "nCount"); i < n; i++ {
		d.N = append(d.N, Num(p.num(t)))
	}
	for i, n := 0, count(t, "dCount"); i < n; i++ {
		d.D = append(d.D, p.date(t))
	}
	for i, n := 0, count(t, "gCount"); i < n; i++ {
		d.G = append(d.G, p.geo(t))
	}
	return d
}

// genCorpus draws 5-40 documents written in 2-6 batches with updates and deletes (each id at most
// once per batch: two updates of one id in a batch are finding #9, outside this property).
func genCorpus(t *rapid.T, p *pools) Corpus {
	var c Corpus
	switch uni(t, 12, "layout") {
	case 0, 1:
		c.FS = true
	case 2:
		c.FS, c.Reopen = true, true
	}
	c.Merge = uni(t, 10, "merger") < 3
	// segment version 2 only with the merger off: merging v2 segments reads their stored fields,
	// and the bundled ice/v2 panics on the last document of a segment with short stored entries
	// (getDocStoredOffsets, third-party, vlib.IceV2OffsetsPanicKey) - in the merger's goroutine,
	// which ends the process
	c.SegV2 = uni(t, 20, "segV2") == 0 && !c.Merge
	if uni(t, 12, "offline") == 0 {
		c = Corpus{Offline: rapid.IntRange(1, 9).Draw(t, "offlineBatch")}
	}
	nDocs := rapid.IntRange(5, 40).Draw(t, "nDocs")
	nBatches := rapid.IntRange(2, 6).Draw(t, "nBatches")
	var live []string
	next := 0
	remaining := nDocs
	for b := 0; b < nBatches; b++ {
		var ops []Op
		// new documents of this batch
		share := remaining / (nBatches - b)
		nNew := share
		if b < nBatches-1 && share > 0 {
			nNew = rapid.IntRange((share+1)/2, share+share/2).Draw(t, "nNew")
			if nNew > remaining {
				nNew = remaining
			}
		} else if b == nBatches-1 {
			nNew = remaining
		}
		if b == 0 && nNew == 0 {
			nNew = 1
		}
		touched := map[string]bool{}
		// updates and deletes of documents of earlier batches
		if b > 0 && len(live) > 0 {
			k := rapid.IntRange(0, (len(live)+2)/3).Draw(t, "nTouch")
			perm := rapid.Permutation(append([]string(nil), live...)).Draw(t, "touchOrder")
			for _, id := range perm[:k] {
				touched[id] = true
				if uni(t, 3, "touchKind") == 0 {
					ops = append(ops, Op{Kind: "del", Doc: Doc{ID: id}})
				} else {
					ops = append(ops, Op{Kind: "upd", Doc: genDoc(t, p, id)})
				}
			}
		}
		for i := 0; i < nNew; i++ {
			id := "d" + strconv.Itoa(next)
			next++
			kind := "ins"
			if uni(t, 4, "insAsUpdate") == 0 {
				kind = "upd"
			}
			ops = append(ops, Op{Kind: kind, Doc: genDoc(t, p, id)})
		}
		remaining -= nNew
		if len(ops) > 1 {
			perm := rapid.Permutation(idx(len(ops))).Draw(t, "opOrder")
			shuffled := make([]Op, len(ops))
			for i, pi := range perm {
				shuffled[i] = ops[pi]
			}
			ops = shuffled
		}
		c.Batches = append(c.Batches, ops)
		live = applyLive(live, ops)
	}
	return c
}

func idx(n int) []int {
	r := make([]int, n)
	for i := range r {
		r[i] = i
	}
	return r
}

func applyLive(live []string, ops []Op) []string {
	gone := map[string]bool{}
	for _, op := range ops {
		if op.Kind == "del" || op.Kind == "upd" {
			gone[op.Doc.ID] = true
		}
	}
	var out []string
	for _, id := range live {
		if !gone[id] {
			out = append(out, id)
		}
	}
	for _, op := range ops {
		if op.Kind != "del" {
			out = append(out, op.Doc.ID)
		}
	}
	return out
}

// liveDocs applies the batches to the abstract index (C01's rule) and returns the live
// documents sorted by id.
func (c Corpus) liveDocs() []Doc {
	m := map[string]Doc{}
	for _, ops := range c.Batches {
		for _, op := range ops {
			if op.Kind == "del" || op.Kind == "upd" {
				delete(m, op.Doc.ID)
			}
		}
		for _, op := range ops {
			if op.Kind != "del" {
				m[op.Doc.ID] = op.Doc
			}
		}
	}
	ids := make([]string, 0, len(m))
	for id := range m {
		ids = append(ids, id)
	}
	sort.Strings(ids)
	out := make([]Doc, 0, len(ids))
	for _, id := range ids {
		out = append(out, m[id])
	}
	return out
}

// ---------------------------------------------------------------------------------------------
// the harness's own analysed model

type tok struct {
	term string
	pos  int
}

// mdoc is one live document as the reference evaluator sees it.
type mdoc struct {
	id    string
	toks  []tok           // field t: terms with positions (own accumulation)
	tset  map[string]bool // terms of t
	kset  map[string]bool // terms of k
	nums  []int64         // sortable images of n
	dates []int64
	geos  [][2]float64
}

// model is the analysed view of the live documents; bit i of a result mask is docs[i].
type model struct {
	docs  []mdoc
	byID  map[string]int
	terms map[string][]string // field -> sorted distinct terms of the live documents
}

var stdAnalyzer = analyzer.NewStandardAnalyzer()

// positionGap is the documented distance between the values of a multi-valued field.
const positionGap = 100

// tokenize splits one text value into (term, position increment) pairs.  Tokenisation itself is
// C18's subject, so the analyzer the field uses is called; the positions are the harness's.
func tokenize(s string) (terms []string, incrs []int) {
	for _, tk := range stdAnalyzer.Analyze([]byte(s)) {
		terms = append(terms, string(tk.Term))
		incrs = append(incrs, tk.PositionIncr)
	}
	return
}

// analyseText accumulates the positions of a multi-valued text field: the first value starts at
// position 1, every further value continues 100 positions after the last position used so far.
func analyseText(values []string) []tok {
	var out []tok
	last := 0
	for _, v := range values {
		base := last
		if base > 0 {
			base += positionGap
		}
		terms, incrs := tokenize(v)
		pos := base
		for i := range terms {
			pos += incrs[i]
			out = append(out, tok{terms[i], pos})
		}
		last = pos
	}
	return out
}

// sortable is the order-preserving int64 image of a float64 (−0 below +0).
func sortable(f float64) int64 {
	b := math.Float64bits(f)
	if b>>63 == 1 {
		return int64(^b ^ 1<<63)
	}
	return int64(b)
}

func newModel(live []Doc) *model {
	m := &model{byID: map[string]int{}, terms: map[string][]string{}}
	tt, kk := map[string]bool{}, map[string]bool{}
	for i, d := range live {
		md := mdoc{id: d.ID, tset: map[string]bool{}, kset: map[string]bool{}}
		md.toks = analyseText(d.T)
		for _, tk := range md.toks {
			md.tset[tk.term] = true
			tt[tk.term] = true
		}
		for _, k := range d.K {
			md.kset[k] = true
			kk[k] = true
		}
		for _, n := range d.N {
			md.nums = append(md.nums, sortable(float64(n)))
		}
		md.dates = append(md.dates, d.D...)
		md.geos = append(md.geos, d.G...)
		m.docs = append(m.docs, md)
		m.byID[d.ID] = i
	}
	for t := range tt {
		m.terms["t"] = append(m.terms["t"], t)
	}
	for k := range kk {
		m.terms["k"] = append(m.terms["k"], k)
	}
	sort.Strings(m.terms["t"])
	sort.Strings(m.terms["k"])
	return m
}

func (m *model) all() uint64 {
	if len(m.docs) == 64 {
		return ^uint64(0)
	}
	return uint64(1)<<uint(len(m.docs)) - 1
}

// termsOf returns the term set of document i in a term-valued field.
func (m *model) termsOf(i int, field string) map[string]bool {
	switch field {
	case "t":
		return m.docs[i].tset
	case "k":
		return m.docs[i].kset
	case "_id":
		return map[string]bool{m.docs[i].id: true}
	}
	return nil
}

// ---------------------------------------------------------------------------------------------
// building the index

func buildDoc(d Doc) *bluge.Document {
	doc := bluge.NewDocument(d.ID)
	for _, v := range d.T {
		doc.AddField(bluge.NewTextField("t", v).SearchTermPositions())
	}
	for _, v := range d.K {
		doc.AddField(bluge.NewKeywordField("k", v))
	}
	for _, v := range d.N {
		doc.AddField(bluge.NewNumericField("n", float64(v)))
	}
	for _, v := range d.D {
		doc.AddField(bluge.NewDateTimeField("d", time.Unix(0, v)))
	}
	for _, v := range d.G {
		doc.AddField(bluge.NewGeoPointField("g", v[0], v[1]))
	}
	return doc
}

var scratchSeq int64

func scratchDir() (string, error) {
	base := "/dev/shm"
	if st, err := os.Stat(base); err != nil || !st.IsDir() {
		base = os.Getenv("VERIF_SCRATCH")
		if base == "" {
			base = os.TempDir()
		}
	}
	p := filepath.Join(base, fmt.Sprintf("verif-%d", os.Getpid()), fmt.Sprintf("c07-%d", atomic.AddInt64(&scratchSeq, 1)))
	_ = os.RemoveAll(p)
	return p, os.MkdirAll(p, 0o755)
}

const callBound = 20 * time.Second

// opened is a searchable index together with what was measured on it.
type opened struct {
	reader   *bluge.Reader
	cleanup  func()
	ids      map[uint64]string // document number -> id of every live document
	segments int               // segments of the reader's snapshot
	pending  int               // documents marked deleted but still occupying a number
}

func noMerge(cfg bluge.Config) bluge.Config {
	ic := cfg.VerifIndexConfig()
	ic.MergePlanOptions.MaxSegmentSize = 1
	ic.MinSegmentsForInMemoryMerge = 1 << 30
	return cfg.VerifWithIndexConfig(ic)
}

func openCorpus(c Corpus) (*opened, *vlib.Failure) {
	var o *opened
	f := vlib.Watchdog("build-index", 3*callBound, func() *vlib.Failure {
		var f *vlib.Failure
		o, f = openCorpusUnguarded(c)
		return f
	})
	if f != nil {
		return nil, f
	}
	return o, nil
}

func openCorpusUnguarded(c Corpus) (*opened, *vlib.Failure) {
	o := &opened{}
	var cfg bluge.Config
	var dir string
	if c.Offline > 0 {
		return openOffline(c)
	}
	if c.FS {
		var err error
		dir, err = scratchDir()
		if err != nil {
			return nil, vlib.Failf("harness-scratch", "%v", err)
		}
		cfg = bluge.DefaultConfig(dir)
	} else {
		cfg = bluge.InMemoryOnlyConfig()
	}
	if !c.Merge {
		cfg = noMerge(cfg)
	}
	if c.SegV2 {
		cfg = cfg.WithSegmentVersion(2)
	}
	rm := func() {
		if dir != "" {
			_ = os.RemoveAll(dir)
		}
	}
	w, err := bluge.OpenWriter(cfg)
	if err != nil {
		rm()
		return nil, vlib.Failf("open-writer", "OpenWriter: %v", err)
	}
	for bi, ops := range c.Batches {
		if len(ops) == 0 {
			continue
		}
		b := index.NewBatch()
		for i := range ops {
			op := &ops[i]
			switch op.Kind {
			case "ins":
				b.Insert(buildDoc(op.Doc))
			case "upd":
				b.Update(bluge.Identifier(op.Doc.ID), buildDoc(op.Doc))
			case "del":
				b.Delete(bluge.Identifier(op.Doc.ID))
			}
		}
		if err := w.Batch(b); err != nil {
			_ = w.Close()
			rm()
			return nil, vlib.Failf("batch-error", "batch %d: %v", bi, err)
		}
	}
	if c.FS && c.Reopen {
		if err := w.Close(); err != nil {
			rm()
			return nil, vlib.Failf("writer-close", "Close: %v", err)
		}
		r, err := bluge.OpenReader(cfg)
		if err != nil {
			rm()
			return nil, vlib.Failf("open-reader", "OpenReader: %v", err)
		}
		o.reader = r
		o.cleanup = func() { _ = r.Close(); rm() }
	} else {
		r, err := w.Reader()
		if err != nil {
			_ = w.Close()
			rm()
			return nil, vlib.Failf("open-reader", "Writer.Reader: %v", err)
		}
		o.reader = r
		o.cleanup = func() { _ = r.Close(); _ = w.Close(); rm() }
	}
	for _, s := range o.reader.VerifSnapshot().VerifSegmentInfo() {
		o.segments++
		if s.Deleted != nil {
			o.pending += int(s.Deleted.GetCardinality())
		}
	}
	return o, nil
}

func openOffline(c Corpus) (*opened, *vlib.Failure) {
	dir, err := scratchDir()
	if err != nil {
		return nil, vlib.Failf("harness-scratch", "%v", err)
	}
	rm := func() { _ = os.RemoveAll(dir) }
	cfg := bluge.DefaultConfig(dir)
	w, err := bluge.OpenOfflineWriter(cfg, c.Offline, 10)
	if err != nil {
		rm()
		return nil, vlib.Failf("open-writer", "OpenOfflineWriter: %v", err)
	}
	for _, d := range c.liveDocs() {
		if err := w.Insert(buildDoc(d)); err != nil {
			rm()
			return nil, vlib.Failf("batch-error", "offline Insert: %v", err)
		}
	}
	if err := w.Close(); err != nil {
		rm()
		return nil, vlib.Failf("writer-close", "offline Close: %v", err)
	}
	r, err := bluge.OpenReader(cfg)
	if err != nil {
		rm()
		return nil, vlib.Failf("open-reader", "OpenReader: %v", err)
	}
	o := &opened{reader: r, cleanup: func() { _ = r.Close(); rm() }}
	for _, s := range r.VerifSnapshot().VerifSegmentInfo() {
		o.segments++
		if s.Deleted != nil {
			o.pending += int(s.Deleted.GetCardinality())
		}
	}
	return o, nil
}

// mapIDs establishes document number -> id for the reader and checks that the reader shows exactly
// the model's live documents, each once (match-all is itself one of the queries of the property).
// Segment version 1: stored _id of every match-all hit.  Segment version 2: the sort key of an
// _id-sorted match-all (no stored fields: third-party ice/v2 stored-field defects, see
// vlib.IceV2OffsetsPanicKey / vlib.IceV2RaceKey).
func (o *opened) mapIDs(c Corpus, m *model) *vlib.Failure {
	o.ids = map[uint64]string{}
	seen := map[string]uint64{}
	f := vlib.Watchdog("Reader.Search(match-all)", callBound, func() *vlib.Failure {
		var req bluge.SearchRequest
		if c.SegV2 {
			req = bluge.NewTopNSearch(len(m.docs)+10, bluge.NewMatchAllQuery()).SortBy([]string{"_id"})
		} else {
			req = bluge.NewAllMatches(bluge.NewMatchAllQuery())
		}
		it, err := o.reader.Search(context.Background(), req)
		if err != nil {
			return vlib.Failf("search-error", "match-all: %v", err)
		}
		for {
			dm, err := it.Next()
			if err != nil {
				return vlib.Failf("search-error", "match-all Next: %v", err)
			}
			if dm == nil {
				return nil
			}
			var id string
			if c.SegV2 {
				if len(dm.SortValue) != 1 {
					return vlib.Failf("search-error", "_id-sorted match-all returned %d sort values", len(dm.SortValue))
				}
				id = string(dm.SortValue[0])
			} else {
				err = dm.VisitStoredFields(func(field string, value []byte) bool {
					if field == "_id" {
						id = string(value)
					}
					return true
				})
				if err != nil {
					return vlib.Failf("search-error", "VisitStoredFields(%d): %v", dm.Number, err)
				}
			}
			if _, ok := m.byID[id]; !ok {
				return vlib.Failf("dead-hit@all", "match-all returns document number %d with id %q which is not live in the model", dm.Number, id)
			}
			if prev, dup := seen[id]; dup {
				return vlib.Failf("duplicate-hit@all", "match-all returns id %q twice (document numbers %d and %d)", id, prev, dm.Number)
			}
			if prev, dup := o.ids[dm.Number]; dup {
				return vlib.Failf("duplicate-hit@all", "match-all returns document number %d twice (ids %q, %q)", dm.Number, prev, id)
			}
			seen[id] = dm.Number
			o.ids[dm.Number] = id
		}
	})
	if f != nil {
		return f
	}
	if len(seen) != len(m.docs) {
		var missing []string
		for _, d := range m.docs {
			if _, ok := seen[d.id]; !ok {
				missing = append(missing, d.id)
			}
		}
		return vlib.Failf("missed-hit@all", "match-all returns %d documents, the model has %d live; missing %v", len(seen), len(m.docs), missing)
	}
	return nil
}
