// exhaustive_test.go: the exhaustive small scope - every assignment of three terms to five
// documents in two segments (four split points) against every boolean shape of depth <= 2 over
// the three term leaves.
package c07

import (
	"math/bits"
	"strconv"
	"strings"
	"testing"

	"pgregory.net/rapid"

	"verifharness/vlib"
)

const (
	exhDocs    = 5
	exhIndexes = 4 << (3 * exhDocs) // 4 split points x 8^5 assignments = 131072
)

var exhTerms = []string{"a", "b", "c"}

// exhField: half of the indexes (odd number of one bits in the index number) hold the three terms
// as values of the keyword field k - postings without frequencies and positions, with the
// segment's one-document ("1-hit") encoding -, the other half as words of the text field t.
func exhField(index int) string {
	if bits.OnesCount(uint(index))%2 == 1 {
		return "k"
	}
	return "t"
}

// exhShapes enumerates the boolean shapes once.
//
// depth 1: each of the three leaves is absent, a must, a should or a must-not clause (not all
// absent); minimum-should 0, 1, 2 whenever there is a should clause.
// depth 2: an inner boolean over the leaves a and b (every unordered pair of roles; minimum 0..1,
// 0..2 for two shoulds) sits as must, should or must-not clause of an outer boolean next to the
// leaf c as must, should, must-not or absent (minimum 0..1, 0..2 for two shoulds).  Permuting the
// leaves adds nothing: every assignment of the terms to the documents is enumerated.
func exhShapes(field string) []*Q {
	leafQ := func(i int) *Q { return &Q{Kind: "term", Field: field, Text: exhTerms[i]} }
	var out []*Q
	add := func(q *Q, role int, child *Q) {
		switch role {
		case 1:
			q.Must = append(q.Must, child)
		case 2:
			q.Should = append(q.Should, child)
		case 3:
			q.MustNot = append(q.MustNot, child)
		}
	}
	// flat: minimum 0..2 whenever there is a should clause; nested: 0..1 for one should clause,
	// 0..2 for two
	withMins := func(q *Q, flat bool, emit func(*Q)) {
		maxMin := 0
		switch {
		case len(q.Should) == 0:
		case flat || len(q.Should) > 1:
			maxMin = 2
		default:
			maxMin = 1
		}
		for m := 0; m <= maxMin; m++ {
			c := *q
			c.MinShould = m
			emit(&c)
		}
	}
	// depth 1
	for code := 1; code < 64; code++ {
		q := &Q{Kind: "bool"}
		for i := 0; i < 3; i++ {
			add(q, (code>>(2*uint(i)))&3, leafQ(i))
		}
		withMins(q, true, func(c *Q) { out = append(out, c) })
	}
	// depth 2
	rolePairs := [][2]int{{1, 1}, {1, 2}, {1, 3}, {2, 2}, {2, 3}, {3, 3}}
	for _, rp := range rolePairs {
		inner := &Q{Kind: "bool"}
		add(inner, rp[0], leafQ(0))
		add(inner, rp[1], leafQ(1))
		withMins(inner, false, func(in *Q) {
			for r1 := 1; r1 <= 3; r1++ {
				for r2 := 0; r2 <= 3; r2++ {
					outer := &Q{Kind: "bool"}
					add(outer, r1, in)
					add(outer, r2, leafQ(2))
					withMins(outer, false, func(c *Q) { out = append(out, c) })
				}
			}
		})
	}
	return out
}

var exhShapeLists = map[string][]*Q{"t": exhShapes("t"), "k": exhShapes("k")}
var exhShapeCount = len(exhShapeLists["t"])

// ExhCase names one index of the scope (and optionally a subset of the shapes).
type ExhCase struct {
	Index  int   `json:"index"`
	Shapes []int `json:"shapes,omitempty"`
	// Merged: the "merged twin" of the index - the same five documents written through the offline
	// writer (batches of split+1 and the rest, merged into one segment when the writer closes,
	// searched through OpenReader).  Not part of the exhaustive scope proper (one segment, nothing
	// deleted); it puts every shape on the encodings only merged segments have.
	Merged bool `json:"merged,omitempty"`
}

// exhCorpus decodes an index number: bits 0-14 the term subsets of the five documents, bits
// 15-16 the split point.  A sixth document holding all three terms is written with the first
// segment and deleted by the second batch, so that every index has a pending deletion.
func exhCorpus(index int) Corpus {
	split := (index>>15)&3 + 1 // documents in the first segment
	keyword := exhField(index) == "k"
	var docs []Doc
	for j := 0; j < exhDocs; j++ {
		sub := (index >> (3 * uint(j))) & 7
		var terms []string
		for b := 0; b < 3; b++ {
			if sub&(1<<uint(b)) != 0 {
				terms = append(terms, exhTerms[b])
			}
		}
		d := Doc{ID: "d" + strconv.Itoa(j)}
		switch {
		case keyword:
			d.K = terms
		case len(terms) > 0:
			d.T = []string{strings.Join(terms, " ")}
		}
		docs = append(docs, d)
	}
	ghost := Doc{ID: "x", T: []string{"a b c"}}
	if keyword {
		ghost = Doc{ID: "x", K: []string{"a", "b", "c"}}
	}
	var first, second []Op
	at := index % (split + 1) // where the doomed document sits inside the first segment
	for j := 0; j < split; j++ {
		if j == at {
			first = append(first, Op{Kind: "ins", Doc: ghost})
		}
		first = append(first, Op{Kind: "ins", Doc: docs[j]})
	}
	if at == split {
		first = append(first, Op{Kind: "ins", Doc: ghost})
	}
	second = append(second, Op{Kind: "del", Doc: Doc{ID: "x"}})
	for j := split; j < exhDocs; j++ {
		second = append(second, Op{Kind: "ins", Doc: docs[j]})
	}
	return Corpus{Batches: [][]Op{first, second}}
}

type exhStats struct {
	evals      int
	nontrivial int
	searches   int
	segments   int
	pending    int
}

// exhModes: which observations every (index, shape) pair gets.
func exhModes(index int) []mode {
	if index%16 == 0 {
		return modes // all four
	}
	return []mode{modes[0], modes[2]} // AllMatches and TopNSearch without scoring
}

func propExhaustive(c ExhCase, st *exhStats) *vlib.Failure {
	if c.Index < 0 || c.Index >= exhIndexes {
		return vlib.Failf("harness-bad-case", "index %d outside 0..%d", c.Index, exhIndexes-1)
	}
	shapes := c.Shapes
	if len(shapes) == 0 {
		shapes = idx(exhShapeCount)
	}
	for _, si := range shapes {
		if si < 0 || si >= exhShapeCount {
			return vlib.Failf("harness-bad-case", "shape %d outside 0..%d", si, exhShapeCount-1)
		}
	}
	shapeList := exhShapeLists[exhField(c.Index)]
	corpus := exhCorpus(c.Index)
	if c.Merged {
		corpus.Offline = (c.Index>>15)&3 + 1
	}
	e, f := openEnv(corpus)
	if f != nil {
		return f
	}
	defer e.o.cleanup()
	st.segments, st.pending = e.o.segments, e.o.pending
	ms := exhModes(c.Index)
	layout := e.o.segments >= 2 && e.o.pending >= 1
	// one watchdog for all searches of this index (normal: 10 ms in total)
	e.unguarded = true
	return vlib.Watchdog("Reader.Search(exhaustive)", 3*callBound, func() *vlib.Failure {
		for _, si := range shapes {
			q := shapeList[si]
			ctx := newEvalCtx(e.m)
			r := ctx.eval(q)
			st.evals++
			if ctx.nontrivial && layout {
				st.nontrivial++
			}
			for mi, md := range ms {
				got, err, f := e.observe(q, md)
				st.searches++
				if f != nil {
					return e.classify(q, md, mi, f, ctx)
				}
				if err != nil {
					return vlib.Failf("unexpected-error@bool", "index %d shape %d mode %s: %v; query %s", c.Index, si, md.name, err, q)
				}
				if missed, extra := judge(r, got); missed != 0 || extra != 0 {
					what := "extra"
					switch {
					case missed != 0 && extra != 0:
						what = "wrong"
					case missed != 0:
						what = "missed"
					}
					twin := ""
					if c.Merged {
						twin = ", written through the offline writer (merged twin)"
					}
					f := vlib.Failf(what+"-hit", "exhaustive index %d (%v%s) shape %d, mode %s: query %s returns %v, reference %v",
						c.Index, exhDescribe(c.Index), twin, si, md.name, q, e.idsOfMask(got), e.idsOfMask(r.lo))
					return e.classify(q, md, mi, f, ctx)
				}
			}
		}
		return nil
	})
}

func exhDescribe(index int) []string {
	c := exhCorpus(index)
	var out []string
	for bi, ops := range c.Batches {
		for _, op := range ops {
			s := "seg" + strconv.Itoa(bi) + ":" + op.Kind + " " + op.Doc.ID
			if len(op.Doc.T) > 0 {
				s += "=" + op.Doc.T[0]
			}
			if len(op.Doc.K) > 0 {
				s += "=k" + strings.Join(op.Doc.K, ",")
			}
			out = append(out, s)
		}
	}
	return out
}

func exhRecord(c ExhCase, st *exhStats) {
	if c.Merged {
		ev.Evals(st.evals)
		ev.Class("exhaustive-merged-twin:evaluations", st.evals)
		ev.Class("exhaustive-merged-twin:indexes", 1)
		ev.AddExtra("searches", st.searches)
		return
	}
	ev.Evals(st.evals)
	ev.Class("exhaustive:evaluations", st.evals)
	ev.Class("exhaustive:indexes", 1)
	ev.Class("exhaustive:indexes-field-"+exhField(c.Index), 1)
	ev.AddExtra("searches", st.searches)
	if st.nontrivial > 0 {
		// one distinct non-trivial item per index (its shapes are the same list every time)
		ev.NonTrivial("exh:" + strconv.Itoa(c.Index))
		ev.Class("exhaustive:nontrivial-evaluations", st.nontrivial)
	}
}

func TestC07Exhaustive(t *testing.T) {
	ev.Extra("exhaustive_shapes", strconv.Itoa(exhShapeCount))
	if !vlib.Thorough() {
		// quick: a sample of the scope
		vlib.Check(t, 150, 1, func(rt *rapid.T) {
			c := ExhCase{Index: uni(rt, exhIndexes, "index")}
			var st exhStats
			f := propExhaustive(c, &st)
			exhRecord(c, &st)
			if f != nil {
				c.Shapes = nil
			}
			vlib.Report(rt, ev, "exhaustive", c, f)
			if c.Index%4 == 0 {
				twin := ExhCase{Index: c.Index, Merged: true}
				var st2 exhStats
				f2 := propExhaustive(twin, &st2)
				exhRecord(twin, &st2)
				vlib.Report(rt, ev, "exhaustive", twin, f2)
			}
		})
		return
	}
	shard, shards := vlib.Shard()
	pct := vlib.EnvInt("VERIF_SCALE_PCT", 100)
	done := 0
	complete := pct >= 100
	for index := shard; index < exhIndexes; index += shards {
		if pct < 100 && (index/shards)%100 >= pct {
			continue // scaled-down sensitivity run: not the complete scope
		}
		c := ExhCase{Index: index}
		var st exhStats
		f := propExhaustive(c, &st)
		exhRecord(c, &st)
		if vlib.Report(t, ev, "exhaustive", c, f) {
			return
		}
		done++
		if (index/shards)%16 == 0 {
			twin := ExhCase{Index: index, Merged: true}
			var st2 exhStats
			f2 := propExhaustive(twin, &st2)
			exhRecord(twin, &st2)
			if vlib.Report(t, ev, "exhaustive", twin, f2) {
				return
			}
		}
	}
	ev.AddExtra("exhaustive_indexes_enumerated", done)
	if complete {
		// this shard enumerated its whole residue class of the 131072 indexes
		ev.Extra("exhaustive", true)
	}
}
