// rangemodel_test.go: the harness's own precision-step split of a sortable interval and the
// prediction of how many byte strings the range searcher's base-256 walk visits for it (finding
// #17, listed as `known: property=C10 key=range-enumeration-blowup`).  Copied from
// harness/c10/model_test.go (validated there against the real searcher); nothing here calls bluge.
package c07

import (
	"math"
	"math/big"
)

// ord is the unsigned image of an int64 that the prefix coding spells out (offset binary).
func ord(v int64) uint64 { return uint64(v) ^ 1<<63 }

// codeLen is the number of 7-bit payload bytes of a term at the given shift.
func codeLen(shift uint) int { return int(63-shift)/7 + 1 }

type subRange struct {
	Shift  uint
	Lo, Hi uint64
}

const precisionStep = 4

// ownSplit decomposes the closed interval [lo,hi] (signed sortable values) the way a
// precision-step trie does.
func ownSplit(lo, hi int64) []subRange {
	if lo > hi {
		return nil
	}
	a, b := ord(lo), ord(hi)
	var out []subRange
	for shift := uint(0); ; shift += precisionStep {
		block := uint64(1)<<precisionStep - 1
		blockMask := block << shift
		ragLo := a&blockMask != 0
		ragHi := b&blockMask != blockMask
		last := shift+precisionStep >= 64
		var na, nb uint64
		wrapped := false
		if !last {
			width := uint64(1) << (shift + precisionStep)
			na = a
			if ragLo {
				na = a + width
				if na < a {
					wrapped = true
				}
			}
			na &^= blockMask
			nb = b
			if ragHi {
				nb = b - width
				if nb > b {
					wrapped = true
				}
			}
			nb &^= blockMask
		}
		if last || wrapped || na > nb {
			out = append(out, subRange{shift, a, b})
			return out
		}
		if ragLo {
			out = append(out, subRange{shift, a, a | blockMask})
		}
		if ragHi {
			out = append(out, subRange{shift, b &^ blockMask, b})
		}
		a, b = na, nb
	}
}

func payloadNumber(u uint64, shift uint) *big.Int {
	n := codeLen(shift)
	u >>= shift
	x := new(big.Int)
	for i := 0; i < n; i++ {
		group := uint(n-1-i) * 7
		x.Lsh(x, 8)
		x.Or(x, big.NewInt(int64((u>>group)&0x7f)))
	}
	return x
}

func walkSteps(r subRange) *big.Int {
	d := new(big.Int).Sub(payloadNumber(r.Hi, r.Shift), payloadNumber(r.Lo, r.Shift))
	return d.Add(d, big.NewInt(1))
}

// stepLimit: ranges predicted above this many dictionary look-ups are not executed in process.
const stepLimit = 200000

// predictSteps returns the predicted number of dictionary look-ups of the range search for the
// closed sortable interval [lo,hi] (saturating at MaxInt64).
func predictSteps(lo, hi int64) int64 {
	total := new(big.Int)
	for _, r := range ownSplit(lo, hi) {
		total.Add(total, walkSteps(r))
	}
	if total.IsInt64() {
		return total.Int64()
	}
	return math.MaxInt64
}
