// C17  Scores obey the BM25 laws and explanations derive the score.
//
// Three generators (see NOTES.md):
//   direct  (direct_test.go)   similarity.Scorer called with stub statistics at the boundaries
//   corpus  (corpus_test.go)   generated in-memory corpora searched with TermQuery: the laws end to end
//   explain (explain_test.go)  generated query trees with and without ExplainScores, every
//                              explanation node re-evaluated from its own message (interp_test.go)
package c17

import (
	"encoding/json"
	"testing"

	"verifharness/vlib"
)

func TestMain(m *testing.M) { vlib.Main(m) }

var ev = vlib.NewEvidence("C17",
	"direct cases: BM25 scorer called with stub statistics (freq 1..1e6, field length 1..2^31 through ComputeNorm, docFreq 1..N, N 1..1e9, boost 1e-30..1e6, default and custom k1/b), each case measures the freq, length, docFreq and boost laws against the exact formula and re-evaluates every explanation node; non-trivial = at least one of the freq/length/docFreq pairs differs by exactly one unit. "+
		"corpus cases: generated in-memory corpora (1-3 segments, merging off) searched with TermQuery per term with/without boost and ExplainScores; non-trivial = a unit-step pair was measured for each of tf, field length and docFreq. "+
		"explain cases: generated corpora x generated query trees (term, match, match-phrase, multi-phrase, prefix, wildcard, regexp, fuzzy, term range, numeric range, date range, match-all, boolean nests to depth 3 with boosts); non-trivial = an explanation whose deepest term-score node is at level >= 3 and that has >= 2 term-score nodes. "+
		"deletion cases: a generated corpus, then one batch deleting a generated subset (merging off), TermQuery per term with/without ExplainScores; judged without fixing how deleted documents are counted: finite positive scores, explanation derives the score, n <= N, live <= N <= ever written, live <= n <= ever written, avgdl between the shortest and longest field, dl/freq leaves exact, idf ordered by the reported n; non-trivial = a hit was judged where live and ever-written counts differ for both N and n and >= 1 term pair was compared")

var replayFns = map[string]vlib.ReplayFn{
	"direct": func(raw json.RawMessage) *vlib.Failure {
		var c DirectCase
		if f := vlib.Decode(raw, &c); f != nil {
			return f
		}
		var st directStats
		return propDirect(c, &st)
	},
	"corpus": func(raw json.RawMessage) *vlib.Failure {
		var c CorpusCase
		if f := vlib.Decode(raw, &c); f != nil {
			return f
		}
		var st corpusStats
		return propCorpus(c, &st)
	},
	"deletions": func(raw json.RawMessage) *vlib.Failure {
		var c DelCase
		if f := vlib.Decode(raw, &c); f != nil {
			return f
		}
		var st delStats
		return propDeletions(c, &st)
	},
	"explain": func(raw json.RawMessage) *vlib.Failure {
		var c ExplainCase
		if f := vlib.Decode(raw, &c); f != nil {
			return f
		}
		st := newExplainStats()
		return propExplain(c, st)
	},
}

func init() {
	ev.Assume("corpora of the corpus and explain generators have no deletions (the deletion generator judges only what holds for either way of counting deleted documents) and merging is switched off (MergePlanOptions.MaxSegmentSize=1, MinSegmentsForInMemoryMerge=1<<30): the N and avgdl leaves are compared with the live documents of the corpus, and ice rewrites the length sum when it merges (DESIGN finding #10)")
	ev.Assume("the field-length law is stated on the length the scorer decodes from the norm: ComputeNorm stores the length as float32 bits, lengths 0x7F800001..0x7FBFFFFF are signalling-NaN patterns that the float32->float64->float32 round trip quiets (length | 0x400000); pairs decoding to the same length are only required to score equally")
	ev.Assume("law comparisons: inversion beyond 32 ulp of the term weight boost*idf is a violation; strict order demanded when the exact values differ by more than 8 ulp of the weight (rounding analysis of weight - weight/(1+freq*x) bounds the error of one score by 3.5 ulp)")
	ev.Assume("query trees containing a fuzzy leaf with a candidate term at edit distance >= the shorter term's length are counted, not judged (known finding fuzzy-nonpositive-term-boost)")
	ev.Assume("a boolean query of must-not clauses only is required to score finite and positive and linearly in its boost; its base value (the implied match-all) is not fixed by the property")
}

func TestReplay(t *testing.T)  { vlib.ReplayMain(t, ev, replayFns) }
func TestRegress(t *testing.T) { vlib.RegressMain(t, ev, replayFns) }

// knownIdf is the onKnown callback of the interpreter: an idf node holding exactly the shipped
// expression of finding #7 is tolerated while the finding is listed in KNOWN_FINDINGS.txt and is a
// violation otherwise.  The tests count it (once per case) through noteKnown.
func knownIdf(msg string) *vlib.Failure {
	if _, ok := vlib.IsKnown("C17", keyIdf); ok {
		return nil
	}
	return vlib.Failf(keyIdf, "%s", msg)
}

func noteKnown(idfKnownNodes int) {
	if idfKnownNodes > 0 {
		desc, _ := vlib.IsKnown("C17", keyIdf)
		ev.Known(keyIdf, desc)
		ev.AddExtra("idf_nodes_holding_the_shipped_expression", idfKnownNodes)
	}
}
