package c17

import (
	"context"
	"fmt"
	"math"
	"testing"

	"github.com/blugelabs/bluge"
	"github.com/blugelabs/bluge/search/similarity"
)

func TestExploreNaN(t *testing.T) {
	sim := similarity.NewBM25Similarity()
	for _, l := range []int{1, 0x7F800000, 0x7F800001, 0x7FBFFFFF, 0x7FC00000, 0x7FFFFFFF, 1 << 31} {
		n := sim.ComputeNorm(l)
		f := float64(n)
		back := math.Float32bits(float32(f))
		fmt.Printf("len=%d bits=%x back=%x same=%v\n", l, uint32(l), back, uint32(l) == back)
	}
}

func TestExploreExplain(t *testing.T) {
	cfg := bluge.InMemoryOnlyConfig()
	w, err := bluge.OpenWriter(cfg)
	if err != nil {
		t.Fatal(err)
	}
	defer w.Close()
	b := bluge.NewBatch()
	docs := []string{"ta tb tc", "ta ta tb", "tb tc td te", "ta"}
	for i, d := range docs {
		doc := bluge.NewDocument(fmt.Sprintf("d%d", i)).AddField(bluge.NewTextField("body", d)).AddField(bluge.NewNumericField("num", float64(i)))
		b.Update(doc.ID(), doc)
	}
	if err := w.Batch(b); err != nil {
		t.Fatal(err)
	}
	r, _ := w.Reader()
	defer r.Close()
	qs := []bluge.Query{
		bluge.NewTermQuery("ta").SetField("body"),
		bluge.NewBooleanQuery().AddShould(bluge.NewTermQuery("ta").SetField("body").SetBoost(2), bluge.NewTermQuery("tb").SetField("body")).AddMust(bluge.NewMatchQuery("tb tc").SetField("body").SetBoost(3)).SetBoost(1.5),
		bluge.NewMatchPhraseQuery("ta tb").SetField("body").SetBoost(3),
		bluge.NewNumericRangeQuery(0, 3).SetField("num").SetBoost(2.5),
		bluge.NewBooleanQuery().AddMustNot(bluge.NewTermQuery("ta").SetField("body")).SetBoost(4),
		bluge.NewMatchAllQuery().SetBoost(3),
		bluge.NewPrefixQuery("t").SetField("body").SetBoost(2),
	}
	for _, q := range qs {
		it, err := r.Search(context.Background(), bluge.NewTopNSearch(10, q).ExplainScores())
		if err != nil {
			t.Fatal(err)
		}
		m, _ := it.Next()
		if m != nil {
			fmt.Printf("score=%v\n%s\n", m.Score, m.Explanation)
		}
	}
}
