package c17

import (
	"encoding/json"
	"fmt"
	"os"
	"testing"

	"verifharness/vlib"
)

func TestDbg2(t *testing.T) {
	b, _ := os.ReadFile(os.Getenv("DBG_REPLAY"))
	var r vlib.Replay
	_ = json.Unmarshal(b, &r)
	var c ExplainCase
	_ = json.Unmarshal(r.Case, &c)
	x, f := buildIndex(c.Corpus)
	if f != nil {
		t.Fatal(f)
	}
	defer x.close()
	var qs []Q
	_ = json.Unmarshal([]byte(os.Getenv("DBG_QS")), &qs)
	for _, q := range qs {
		hits, f := x.run("dbg", q.build(), false)
		fmt.Println(vlib.Canon(q), f)
		for _, k := range sortedKeys(hits) {
			fmt.Printf("   doc %d %v score %v\n", k, c.Corpus.Docs[k].Body, hits[k].Score)
		}
	}
}
