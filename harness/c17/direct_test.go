package c17

// (a) direct calls of the BM25 similarity with stub statistics.

import (
	"fmt"
	"math"
	"math/big"
	"testing"

	"github.com/blugelabs/bluge/search"
	"github.com/blugelabs/bluge/search/similarity"
	segment "github.com/blugelabs/bluge_segment_api"
	"pgregory.net/rapid"

	"verifharness/vlib"
)

// stub statistics (the interfaces the term searcher hands to Similarity.Scorer)
type stubColl struct{ total, docs, sum uint64 }

func (c *stubColl) TotalDocumentCount() uint64          { return c.total }
func (c *stubColl) DocumentCount() uint64               { return c.docs }
func (c *stubColl) SumTotalTermFrequency() uint64       { return c.sum }
func (c *stubColl) Merge(o segment.CollectionStats)     { panic("Merge called on the stub statistics") }

type stubTerm struct{ df uint64 }

func (t *stubTerm) DocumentFrequency() uint64 { return t.df }

// DirectCase is one point of the statistics space plus one alternative value per law.
type DirectCase struct {
	Custom bool    `json:"custom"` // NewBM25SimilarityBK1(B, K1) instead of the defaults
	K1     float64 `json:"k1"`
	B      float64 `json:"b"`
	Boost  float64 `json:"boost"`
	N      uint64  `json:"n_docs"`
	DF     uint64  `json:"doc_freq"`
	SumTTF uint64  `json:"sum_ttf"`
	Freq   int     `json:"freq"`
	Len    int     `json:"len"`
	Freq2  int     `json:"freq2"`    // 0 = no freq pair
	Len2   int     `json:"len2"`     // 0 = no length pair
	DF2    uint64  `json:"doc_freq2"` // 0 = no docFreq pair
	Mul    float64 `json:"boost_mul"` // 0 = no boost pair
}

const (
	maxFreq = 1000000
	maxLen  = 1 << 31
	maxN    = 1000000000
)

var lenAnchors = []int{1, 2, 3, 127, 128, 255, 256, 65535, 65536, 1<<23 - 1, 1 << 23, 1<<23 + 1, 1<<24 - 1, 1 << 24, 1<<24 + 1,
	0x3F800000, 0x7F7FFFFF, 0x7F800000, 0x7F800001, 0x7FBFFFFF, 0x7FC00000, 0x7FC00001, 0x7FFFFFFE, 0x7FFFFFFF, 1 << 31}

func logUniform(t *rapid.T, lo, hi float64, label string) float64 {
	x := rapid.Float64Range(math.Log(lo), math.Log(hi)).Draw(t, label)
	v := math.Exp(x)
	if v < lo {
		v = lo
	}
	if v > hi {
		v = hi
	}
	return v
}

func genLen(t *rapid.T, label string) int {
	switch rapid.IntRange(0, 5).Draw(t, label+"Kind") {
	case 0, 1:
		return rapid.IntRange(1, 200).Draw(t, label+"Small")
	case 2:
		return rapid.SampledFrom(lenAnchors).Draw(t, label+"Anchor")
	case 3:
		return rapid.IntRange(1, maxLen).Draw(t, label+"Any")
	default:
		return int(logUniform(t, 1, maxLen, label+"Log"))
	}
}

func genFreq(t *rapid.T, label string) int {
	switch rapid.IntRange(0, 5).Draw(t, label+"Kind") {
	case 0, 1:
		return rapid.IntRange(1, 20).Draw(t, label+"Small")
	case 2:
		return rapid.SampledFrom([]int{1, 2, 3, 255, 256, 65535, 65536, maxFreq - 1, maxFreq}).Draw(t, label+"Anchor")
	case 3:
		return rapid.IntRange(1, maxFreq).Draw(t, label+"Any")
	default:
		return int(logUniform(t, 1, maxFreq, label+"Log"))
	}
}

func genBoost(t *rapid.T, label string) float64 {
	switch rapid.IntRange(0, 7).Draw(t, label+"Kind") {
	case 0, 1:
		return 1
	case 2:
		return float64(rapid.IntRange(2, 10).Draw(t, label+"Int"))
	case 3:
		return rapid.SampledFrom([]float64{1e6, 1e-6, 1e-30, math.Nextafter(1, 2), math.Nextafter(1, 0), 0.1, 0.5, 2, 1e6 - 1, 999999.9999999999, 1e-3, 1.5}).Draw(t, label+"Anchor")
	case 4:
		return rapid.Float64Range(0.01, 100).Draw(t, label+"Mid")
	default:
		return logUniform(t, 1e-6, 1e6, label+"Log")
	}
}

func genDirect(t *rapid.T) DirectCase {
	c := DirectCase{K1: 1.2, B: 0.75}
	if rapid.IntRange(0, 3).Draw(t, "customSim") == 0 {
		c.Custom = true
		c.K1 = rapid.SampledFrom([]float64{1.2, 0.5, 1, 2, 3, 0.01, 10}).Draw(t, "k1")
		c.B = rapid.SampledFrom([]float64{0.75, 0, 1, 0.5, 0.1, 0.99}).Draw(t, "b")
	}
	c.Boost = genBoost(t, "boost")
	switch rapid.IntRange(0, 5).Draw(t, "nKind") {
	case 0:
		c.N = uint64(rapid.IntRange(1, 20).Draw(t, "nSmall"))
	case 1:
		c.N = rapid.SampledFrom([]uint64{1, 2, 3, maxN - 1, maxN, 1 << 24, 1<<24 + 1, 1 << 29}).Draw(t, "nAnchor")
	case 2:
		c.N = uint64(rapid.IntRange(1, maxN).Draw(t, "nAny"))
	default:
		c.N = uint64(logUniform(t, 1, maxN, "nLog"))
	}
	genDF := func(label string) uint64 {
		switch rapid.IntRange(0, 5).Draw(t, label+"Kind") {
		case 0:
			return 1
		case 1:
			return c.N
		case 2:
			if c.N > 1 {
				return c.N - 1
			}
			return 1
		case 3:
			return uint64(rapid.Int64Range(1, int64(c.N)).Draw(t, label+"Any"))
		default:
			return uint64(logUniform(t, 1, float64(c.N), label+"Log"))
		}
	}
	c.DF = genDF("df")
	if c.DF < 1 {
		c.DF = 1
	}
	if c.DF > c.N {
		c.DF = c.N
	}
	c.Len = genLen(t, "len")
	c.Freq = genFreq(t, "freq")
	consistent := rapid.Bool().Draw(t, "consistent")
	if consistent && c.Freq > c.Len {
		c.Freq = c.Len // a term cannot occur more often than the field has tokens
	}
	// the other value of each law; one unit away in half of the cases
	unit := func(label string) bool { return rapid.Bool().Draw(t, label) }
	if unit("freqUnit") {
		c.Freq2 = c.Freq + 1
		if c.Freq2 > maxFreq {
			c.Freq2 = c.Freq - 1
		}
	} else {
		c.Freq2 = genFreq(t, "freq2")
	}
	if consistent && c.Freq2 > c.Len {
		c.Freq2 = c.Freq - 1 // may become 0 = no pair
	}
	if c.Freq2 == c.Freq || c.Freq2 < 1 {
		c.Freq2 = 0
	}
	if unit("lenUnit") {
		c.Len2 = c.Len + 1
		if c.Len2 > maxLen {
			c.Len2 = c.Len - 1
		}
	} else {
		c.Len2 = genLen(t, "len2")
	}
	if consistent && c.Len2 < c.Freq {
		c.Len2 = c.Len + 1
		if c.Len2 > maxLen {
			c.Len2 = 0
		}
	}
	if c.Len2 == c.Len || c.Len2 < 1 {
		c.Len2 = 0
	}
	if c.N > 1 {
		if unit("dfUnit") {
			c.DF2 = c.DF + 1
			if c.DF2 > c.N {
				c.DF2 = c.DF - 1
			}
		} else {
			c.DF2 = genDF("df2")
		}
		if c.DF2 == c.DF || c.DF2 < 1 || c.DF2 > c.N {
			c.DF2 = 0
		}
	}
	// collection length: avgdl = SumTTF / N >= 1; in the consistent half it accounts for this document
	maxL := c.Len
	if c.Len2 > maxL {
		maxL = c.Len2
	}
	var other uint64 // average length of the other documents
	switch rapid.IntRange(0, 4).Draw(t, "avgKind") {
	case 0:
		other = 1
	case 1:
		other = uint64(rapid.IntRange(1, 300).Draw(t, "avgSmall"))
	case 2:
		other = uint64(maxL)
	case 3:
		other = rapid.SampledFrom([]uint64{1, 2, 1 << 23, 1 << 31, 1<<31 - 1}).Draw(t, "avgAnchor")
	default:
		other = uint64(logUniform(t, 1, maxLen, "avgLog"))
	}
	if consistent {
		c.SumTTF = uint64(maxL) + (c.N-1)*other
	} else {
		c.SumTTF = c.N * other
		if extra := rapid.IntRange(0, 2).Draw(t, "avgFrac"); extra > 0 && c.N > 1 {
			c.SumTTF += uint64(rapid.Int64Range(0, int64(c.N)-1).Draw(t, "avgRem"))
		}
	}
	c.Mul = rapid.SampledFrom([]float64{2, 3, 0.5, 10, 1.0 / 3, 0.1, 7, 1000, 1e-3, 1.0000000000000002}).Draw(t, "boostMul")
	if rapid.IntRange(0, 3).Draw(t, "mulAny") == 0 {
		c.Mul = logUniform(t, 1e-3, 1e3, "mulLog")
	}
	return c
}

type directStats struct {
	explStats
	unit        map[string]bool
	strict      map[string]bool // pairs whose exact separation demanded a strict order
	collapsed   bool            // the two lengths reach the scorer as the same length
	maxErrUlp   float64         // |score - exact| in ulp of the weight
	lenReceived [2]uint32
}

func (c DirectCase) similarity() *similarity.BM25Similarity {
	if c.Custom {
		return similarity.NewBM25SimilarityBK1(c.B, c.K1)
	}
	return similarity.NewBM25Similarity()
}

// receivedLen is the field length the scorer decodes from the norm it is handed: the norm is a
// float32 whose bit pattern is the length (ComputeNorm), widened to float64 by the postings
// iterator and narrowed again by the scorer.
func receivedLen(sim *similarity.BM25Similarity, l int) (norm float64, dl uint32) {
	n32 := sim.ComputeNorm(l)
	norm = float64(n32)
	return norm, math.Float32bits(float32(norm))
}

// lawPair judges one law on a pair: lo is the side the law expects to score lower.
//   - an inversion beyond 32 ulp of the weight is a violation whatever the separation;
//   - when the exact values are separated by more than strictUlp ulp of the weight the computed
//     scores must be strictly ordered.
const tolUlp = 32

var strictUlp = float64(vlib.EnvInt("C17_STRICT_ULP", 8)) // the env knob is for calibration runs only (NOTES.md)

func lawPair(law string, sLo, sHi float64, eLo, eHi *big.Float, weight float64, detail string) (strict bool, f *vlib.Failure) {
	u := ulp(weight)
	if eLo.Cmp(eHi) > 0 {
		return false, vlib.Failf("law-inverted@"+law, "%s law: the formula the explanation states is itself not monotone: %v (should be lower) > %v; %s", law, f64(eLo), f64(eHi), detail)
	}
	if sLo-sHi > tolUlp*u {
		return false, vlib.Failf("law-inverted@"+law, "%s law inverted: %v (should be lower) > %v by %.3g ulp of the weight %v; %s", law, sLo, sHi, (sLo-sHi)/u, weight, detail)
	}
	sep := f64(bsub(eHi, eLo))
	if sep > strictUlp*u {
		if !(sHi > sLo) {
			return true, vlib.Failf("law-not-strict@"+law, "%s law: exact values differ by %.3g ulp of the weight %v but the scores are %v (should be lower) and %v; %s", law, sep/u, weight, sLo, sHi, detail)
		}
		return true, nil
	}
	return false, nil
}

func propDirect(c DirectCase, st *directStats) *vlib.Failure {
	return vlib.Guard("similarity.Scorer", func() *vlib.Failure { return propDirect1(c, st) })
}

func propDirect1(c DirectCase, st *directStats) *vlib.Failure {
	st.unit, st.strict = map[string]bool{}, map[string]bool{}
	sim := c.similarity()
	coll := &stubColl{total: c.N, docs: c.N, sum: c.SumTTF}
	scorerFor := func(boost float64, df uint64) search.Scorer {
		return sim.Scorer(boost, coll, &stubTerm{df: df})
	}
	norm, dl := receivedLen(sim, c.Len)
	st.lenReceived[0] = dl
	detail := fmt.Sprintf("boost=%v N=%d df=%d sumTTF=%d freq=%d len=%d(received %d) k1=%v b=%v", c.Boost, c.N, c.DF, c.SumTTF, c.Freq, c.Len, dl, c.K1, c.B)

	sc := scorerFor(c.Boost, c.DF)
	s := sc.Score(c.Freq, norm)
	if !finitePos(s) {
		return vlib.Failf("score-not-finite-positive", "Score = %v; %s", s, detail)
	}
	ex := sc.Explain(c.Freq, norm)
	truth := &termTruth{Freq: float64(c.Freq), DL: float64(dl), DF: float64(c.DF), N: float64(c.N), SumTTF: float64(c.SumTTF), K1: c.K1, B: c.B, Boost: c.Boost}
	if f := checkExplanation(ex, truth, &st.explStats, knownIdf); f != nil {
		f.Msg += "; " + detail
		return f
	}
	idfNode, _ := childByName(ex, "idf")
	if idfNode == nil || !finitePos(idfNode.Value) {
		return vlib.Failf("explain-missing-child", "term explanation without a positive idf child; %s", detail)
	}
	idf := idfNode.Value
	weight := c.Boost * idf
	u := ulp(weight)
	if d := math.Abs(ex.Value - s); d > 1e-12*math.Abs(s) && d > tolUlp*u {
		return vlib.Failf("explain-value-vs-score", "Explain(...).Value = %v, Score(...) = %v; %s", ex.Value, s, detail)
	}
	// the score is what the messages say: boost * idf * tf, the tf formula of the tf node's own
	// message applied to the true leaves (k1, b, avgdl were just compared with the truth)
	tfNode, _ := childByName(ex, "tf")
	if tfNode == nil {
		return vlib.Failf("explain-missing-child", "term explanation without a tf child; %s", detail)
	}
	var exactErr *vlib.Failure
	tfOf := func(freq int, dl uint32) *big.Float {
		v, f := formulaValue(tfNode, map[string]float64{"freq": float64(freq), "dl": float64(dl)})
		if f != nil {
			exactErr = f
			return bf(0)
		}
		return v
	}
	exact := func(boost, idf float64, freq int, dl uint32) *big.Float {
		return bmul(bmul(bf(boost), bf(idf)), tfOf(freq, dl))
	}
	e := exact(c.Boost, idf, c.Freq, dl)
	if exactErr != nil {
		return exactErr
	}
	errUlp := math.Abs(f64(bsub(bf(s), e))) / u
	if errUlp > st.maxErrUlp {
		st.maxErrUlp = errUlp
	}
	if errUlp > tolUlp {
		return vlib.Failf("score-vs-formula", "Score = %v but boost*idf*tf = %v (%.3g ulp of the weight %v apart); %s", s, f64(e), errUlp, weight, detail)
	}

	// law: more occurrences score higher
	if c.Freq2 > 0 {
		s2 := sc.Score(c.Freq2, norm)
		if !finitePos(s2) {
			return vlib.Failf("score-not-finite-positive", "Score = %v at freq %d; %s", s2, c.Freq2, detail)
		}
		e2 := exact(c.Boost, idf, c.Freq2, dl)
		var strict bool
		var f *vlib.Failure
		if c.Freq2 > c.Freq {
			strict, f = lawPair("freq", s, s2, e, e2, weight, fmt.Sprintf("freq %d vs %d; %s", c.Freq, c.Freq2, detail))
		} else {
			strict, f = lawPair("freq", s2, s, e2, e, weight, fmt.Sprintf("freq %d vs %d; %s", c.Freq2, c.Freq, detail))
		}
		if f != nil {
			return f
		}
		st.strict["freq"] = strict
		st.unit["freq"] = c.Freq2-c.Freq == 1 || c.Freq-c.Freq2 == 1
	}
	// law: a longer field scores lower (stated on the length the scorer receives)
	if c.Len2 > 0 {
		norm2, dl2 := receivedLen(sim, c.Len2)
		st.lenReceived[1] = dl2
		s2 := sc.Score(c.Freq, norm2)
		if !finitePos(s2) {
			return vlib.Failf("score-not-finite-positive", "Score = %v at len %d; %s", s2, c.Len2, detail)
		}
		if dl2 == dl {
			st.collapsed = true
			if s2 != s {
				return vlib.Failf("score-nondeterministic", "two norms decoding to the same length %d score %v and %v; %s", dl, s, s2, detail)
			}
		} else if c.B > 0 {
			e2 := exact(c.Boost, idf, c.Freq, dl2)
			var strict bool
			var f *vlib.Failure
			if dl2 > dl {
				strict, f = lawPair("len", s2, s, e2, e, weight, fmt.Sprintf("len %d vs %d; %s", dl2, dl, detail))
			} else {
				strict, f = lawPair("len", s, s2, e, e2, weight, fmt.Sprintf("len %d vs %d; %s", dl, dl2, detail))
			}
			if f != nil {
				return f
			}
			st.strict["len"] = strict
			st.unit["len"] = (dl2 > dl && dl2-dl == 1) || (dl > dl2 && dl-dl2 == 1)
		}
	}
	// law: a rarer term weighs more
	if c.DF2 > 0 {
		sc2 := scorerFor(c.Boost, c.DF2)
		s2 := sc2.Score(c.Freq, norm)
		if !finitePos(s2) {
			return vlib.Failf("score-not-finite-positive", "Score = %v at docFreq %d; %s", s2, c.DF2, detail)
		}
		ex2 := sc2.Explain(c.Freq, norm)
		var st2 explStats
		t2 := *truth
		t2.DF = float64(c.DF2)
		if f := checkExplanation(ex2, &t2, &st2, knownIdf); f != nil {
			f.Msg += fmt.Sprintf("; docFreq %d; %s", c.DF2, detail)
			return f
		}
		st.explStats.add(&st2)
		idfNode2, _ := childByName(ex2, "idf")
		if idfNode2 == nil || !finitePos(idfNode2.Value) {
			return vlib.Failf("explain-missing-child", "term explanation without a positive idf child; docFreq %d; %s", c.DF2, detail)
		}
		idf2 := idfNode2.Value
		// the weights themselves: idf is decreasing in docFreq.  Exact values: the stated formula and
		// the shipped expression are both decreasing; the order is demanded strictly when both
		// separate the two document frequencies by more than strictUlp ulp.
		lo, hi, idfLo, idfHi := c.DF, c.DF2, idf, idf2 // lo = smaller docFreq = larger idf
		if c.DF2 < c.DF {
			lo, hi, idfLo, idfHi = c.DF2, c.DF, idf2, idf
		}
		sepStated := idfStated(float64(lo), float64(c.N)) - idfStated(float64(hi), float64(c.N))
		sepShipped := shippedIdf(float64(lo), float64(c.N)) - shippedIdf(float64(hi), float64(c.N))
		ui := ulp(idfLo)
		d := fmt.Sprintf("docFreq %d vs %d; %s", lo, hi, detail)
		if idfHi-idfLo > tolUlp*ui {
			return vlib.Failf("law-inverted@idf", "idf(%d) = %v < idf(%d) = %v; %s", lo, idfLo, hi, idfHi, d)
		}
		if math.Min(sepStated, sepShipped) > 2*strictUlp*ui+16*0x1p-53 {
			if !(idfLo > idfHi) {
				return vlib.Failf("law-not-strict@idf", "idf(%d) = %v is not above idf(%d) = %v; %s", lo, idfLo, hi, idfHi, d)
			}
			st.strict["idf"] = true
		}
		// and the scores, everything else equal
		wmax := c.Boost * idfLo
		tf := tfOf(c.Freq, dl)
		eLo, eHi := bmul(bmul(bf(c.Boost), bf(idfHi)), tf), bmul(bmul(bf(c.Boost), bf(idfLo)), tf)
		sLo, sHi := s2, s
		if c.DF2 < c.DF {
			sLo, sHi = s, s2
		}
		if idfLo >= idfHi {
			strict, f := lawPair("df", sLo, sHi, eLo, eHi, wmax, d)
			if f != nil {
				return f
			}
			st.strict["df"] = strict
		}
		st.unit["df"] = hi-lo == 1
	}
	// law: the boost scales the score linearly
	if c.Mul > 0 {
		b3 := c.Boost * c.Mul
		if b3 > 0 && !math.IsInf(b3, 0) && b3 >= 1e-300 {
			sc3 := scorerFor(b3, c.DF)
			s3 := sc3.Score(c.Freq, norm)
			if !finitePos(s3) {
				return vlib.Failf("score-not-finite-positive", "Score = %v at boost %v; %s", s3, b3, detail)
			}
			// s3/b3 and s/boost are both idf*tf up to the rounding of the weight and of the score
			n1, n3 := bquo(bf(s), bf(c.Boost)), bquo(bf(s3), bf(b3))
			if d := math.Abs(f64(bsub(n1, n3))); d > 2*tolUlp*ulp(idf) {
				return vlib.Failf("boost-not-linear@scorer", "score(boost %v) = %v, score(boost %v) = %v: per unit of boost %v vs %v (%.3g ulp of idf apart); %s", c.Boost, s, b3, s3, f64(n1), f64(n3), d/ulp(idf), detail)
			}
		}
	}
	return nil
}

func TestC17Direct(t *testing.T) {
	vlib.Check(t, 15000, 200000, func(rt *rapid.T) {
		c := genDirect(rt)
		var st directStats
		f := propDirect(c, &st)
		nt := st.unit["freq"] || st.unit["len"] || st.unit["df"]
		cls := []string{"direct"}
		for _, law := range []string{"freq", "len", "df"} {
			if st.unit[law] {
				cls = append(cls, "direct:"+law+":unit-step")
			}
			if st.strict[law] {
				cls = append(cls, "direct:"+law+":strict-demanded")
			}
		}
		if st.strict["idf"] {
			cls = append(cls, "direct:idf:strict-demanded")
		}
		if st.collapsed {
			cls = append(cls, "direct:len:same-received-length")
		}
		if c.Custom {
			cls = append(cls, "direct:custom-k1-b")
		}
		if c.Boost != 1 {
			cls = append(cls, "direct:boosted")
		}
		if c.Len >= 0x7F800000 {
			cls = append(cls, "direct:len-in-float32-inf-nan-range")
		}
		if c.DF == c.N {
			cls = append(cls, "direct:df-equals-n")
		}
		ev.Case(vlib.Canon(c), nt, cls...)
		ev.AddExtra("direct_explanation_nodes_reevaluated", st.nodes)
		noteKnown(st.idfKnown)
		if st.maxErrUlp > 4 {
			ev.Class("direct:score-error-above-4-ulp-of-weight", 1)
		}
		ev.Sample(map[string]interface{}{"kind": "direct", "case": c}, nt)
		vlib.Report(rt, ev, "direct", c, f)
	})
}
