package c17

// Deterministic probes of the known findings of C17 (KNOWN-FINDING lines while the defects are present).

import (
	"fmt"
	"math"
	"testing"

	"github.com/blugelabs/bluge/search/similarity"

	"verifharness/vlib"
)

// finding #7: the idf node states one formula and holds another.
func TestC17IdfProbe(t *testing.T) {
	type probe struct {
		N  uint64 `json:"n_docs"`
		DF uint64 `json:"doc_freq"`
	}
	p := probe{N: 10, DF: 3}
	var f *vlib.Failure
	if g := vlib.Guard("similarity.Scorer", func() *vlib.Failure {
		sc := similarity.NewBM25Similarity().Scorer(1, &stubColl{total: p.N, docs: p.N, sum: 40}, &stubTerm{df: p.DF})
		ex := sc.Explain(1, float64(similarity.NewBM25Similarity().ComputeNorm(4)))
		idf, _ := childByName(ex, "idf")
		if idf == nil {
			return vlib.Failf("explain-missing-child", "no idf node")
		}
		stated, shipped := idfStated(float64(p.DF), float64(p.N)), shippedIdf(float64(p.DF), float64(p.N))
		switch {
		case math.Abs(idf.Value-stated) <= 32*ulp(stated):
		case ulpDist(idf.Value, shipped) <= 2:
			f = vlib.Failf(keyIdf, "idf node %q with n=%d N=%d holds %v = log(1 + (N-n) + 0.5/(n+0.5)); its own formula gives %v", idf.Message, p.DF, p.N, idf.Value, stated)
		default:
			return vlib.Failf("explain-node-value@idf", "idf node holds %v, neither the stated formula (%v) nor the shipped expression (%v)", idf.Value, stated, shipped)
		}
		return nil
	}); g != nil {
		vlib.Report(t, ev, "idf-probe", p, g)
		return
	}
	ev.Evals(1)
	ev.Class("probe:idf", 1)
	vlib.KnownProbe(t, ev, "idf-probe", keyIdf, p, f)
}

// fuzzy candidates at an edit distance >= the shorter term's length are boosted by <= 0.
func TestC17FuzzyProbe(t *testing.T) {
	c := ExplainCase{Corpus: Corpus{Docs: []Doc{{Body: []string{"wab"}}, {Body: []string{"wc"}}, {Body: []string{"wab", "wc"}}}, SegVer: 1},
		Queries: []Q{{Kind: "fuzzy", Field: "body", Text: "wab", Fuzz: 2}}}
	deg, why := degenerateFuzzy(c.Queries[0], c.Corpus)
	if !deg {
		t.Fatalf("harness: the probe query is not in the class of %s", keyFuzzy)
	}
	x, f := buildIndex(c.Corpus)
	if f != nil {
		vlib.Report(t, ev, "explain", c, f)
		return
	}
	defer x.close()
	hits, f := x.run("fuzzy", c.Queries[0].build(), false)
	if f != nil {
		vlib.Report(t, ev, "explain", c, f)
		return
	}
	ev.Evals(1)
	ev.Class("probe:fuzzy", 1)
	var found *vlib.Failure
	for _, k := range sortedKeys(hits) {
		if !finitePos(hits[k].Score) {
			found = vlib.Failf(keyFuzzy, "%s: document %d (%v) scores %v", why, k, c.Corpus.Docs[k].Body, hits[k].Score)
			break
		}
	}
	vlib.KnownProbe(t, ev, "explain", keyFuzzy, c, found)
}

var _ = fmt.Sprint
