package c17

// The explanation interpreter: every node of a search.Explanation is re-evaluated from the
// formula printed in its own message, applied to the values of its children.
//
// Message formats of the pinned tree (search/similarity/{bm25,composite,constant}.go):
//   "<name>, computed as <expr> from:"      name = idf | tf ; children are the variables of <expr>
//   "score(freq=<d>), computed as boost * idf * tf from:"   (the boost child is omitted when boost == 1)
//   "computed as boost * sum"               children "boost" and "sum of:"
//   "sum of:"                               value = sum of the children
//   "boost" | "constant" | "<name>, <description>"          leaves
// A child is named by the first identifier of the text before the first comma of its message
// ("sum of:" -> sum, "score(freq=3), ..." -> score, "n, number of ..." -> n).

import (
	"fmt"
	"math"
	"math/big"
	"strconv"
	"strings"

	"github.com/blugelabs/bluge/search"

	"verifharness/vlib"
)

const prec = 256

func bf(x float64) *big.Float     { return new(big.Float).SetPrec(prec).SetFloat64(x) }
func bu(x uint64) *big.Float      { return new(big.Float).SetPrec(prec).SetUint64(x) }
func bnew() *big.Float            { return new(big.Float).SetPrec(prec) }
func badd(a, b *big.Float) *big.Float { return bnew().Add(a, b) }
func bsub(a, b *big.Float) *big.Float { return bnew().Sub(a, b) }
func bmul(a, b *big.Float) *big.Float { return bnew().Mul(a, b) }
func bquo(a, b *big.Float) *big.Float { return bnew().Quo(a, b) }
func babs(a *big.Float) *big.Float    { return bnew().Abs(a) }
func f64(a *big.Float) float64        { f, _ := a.Float64(); return f }

// ulp is the spacing of float64 at |x| (never 0).
func ulp(x float64) float64 {
	x = math.Abs(x)
	if math.IsInf(x, 0) || math.IsNaN(x) {
		return math.NaN()
	}
	return math.Nextafter(x, math.Inf(1)) - x
}

func finitePos(x float64) bool { return !math.IsNaN(x) && !math.IsInf(x, 0) && x > 0 }

// bigLog returns ln(a) for a > 0, accurate to about 1 ulp also for a close to 1.
func bigLog(a *big.Float) (float64, bool) {
	if a.Sign() <= 0 {
		return 0, false
	}
	d := bsub(a, bf(1))
	if babs(d).Cmp(bf(0.5)) < 0 {
		return math.Log1p(f64(d)), true
	}
	return math.Log(f64(a)), true
}

// ---------------------------------------------------------------------------------------------
// expressions

type expr struct {
	op   byte // 'n' number, 'v' variable, '+', '-', '*', '/', 'l' log, 'm' unary minus
	num  float64
	name string
	a, b *expr
}

type parser struct {
	toks []string
	pos  int
}

func tokenize(s string) ([]string, error) {
	var toks []string
	i := 0
	for i < len(s) {
		c := s[i]
		switch {
		case c == ' ' || c == '\t':
			i++
		case strings.ContainsRune("()+-*/", rune(c)):
			toks = append(toks, string(c))
			i++
		case c >= '0' && c <= '9' || c == '.':
			j := i
			for j < len(s) && (s[j] >= '0' && s[j] <= '9' || s[j] == '.' || s[j] == 'e' || s[j] == 'E') {
				j++
			}
			toks = append(toks, s[i:j])
			i = j
		case c == '_' || c >= 'a' && c <= 'z' || c >= 'A' && c <= 'Z':
			j := i
			for j < len(s) && (s[j] == '_' || s[j] >= 'a' && s[j] <= 'z' || s[j] >= 'A' && s[j] <= 'Z' || s[j] >= '0' && s[j] <= '9') {
				j++
			}
			toks = append(toks, s[i:j])
			i = j
		default:
			return nil, fmt.Errorf("unexpected character %q in %q", c, s)
		}
	}
	return toks, nil
}

func parseExpr(s string) (*expr, error) {
	toks, err := tokenize(s)
	if err != nil {
		return nil, err
	}
	p := &parser{toks: toks}
	e, err := p.sum()
	if err != nil {
		return nil, err
	}
	if p.pos != len(p.toks) {
		return nil, fmt.Errorf("trailing input %q in %q", p.toks[p.pos], s)
	}
	return e, nil
}

func (p *parser) peek() string {
	if p.pos < len(p.toks) {
		return p.toks[p.pos]
	}
	return ""
}

func (p *parser) sum() (*expr, error) {
	l, err := p.product()
	if err != nil {
		return nil, err
	}
	for p.peek() == "+" || p.peek() == "-" {
		op := p.toks[p.pos][0]
		p.pos++
		r, err := p.product()
		if err != nil {
			return nil, err
		}
		l = &expr{op: op, a: l, b: r}
	}
	return l, nil
}

func (p *parser) product() (*expr, error) {
	l, err := p.unary()
	if err != nil {
		return nil, err
	}
	for p.peek() == "*" || p.peek() == "/" {
		op := p.toks[p.pos][0]
		p.pos++
		r, err := p.unary()
		if err != nil {
			return nil, err
		}
		l = &expr{op: op, a: l, b: r}
	}
	return l, nil
}

func (p *parser) unary() (*expr, error) {
	if p.peek() == "-" {
		p.pos++
		a, err := p.unary()
		if err != nil {
			return nil, err
		}
		return &expr{op: 'm', a: a}, nil
	}
	return p.atom()
}

func (p *parser) atom() (*expr, error) {
	t := p.peek()
	switch {
	case t == "":
		return nil, fmt.Errorf("unexpected end of formula")
	case t == "(":
		p.pos++
		e, err := p.sum()
		if err != nil {
			return nil, err
		}
		if p.peek() != ")" {
			return nil, fmt.Errorf("missing )")
		}
		p.pos++
		return e, nil
	case t[0] >= '0' && t[0] <= '9' || t[0] == '.':
		v, err := strconv.ParseFloat(t, 64)
		if err != nil {
			return nil, err
		}
		p.pos++
		return &expr{op: 'n', num: v}, nil
	case t[0] == '_' || t[0] >= 'a' && t[0] <= 'z' || t[0] >= 'A' && t[0] <= 'Z':
		p.pos++
		if p.peek() == "(" {
			if t != "log" && t != "ln" {
				return nil, fmt.Errorf("unknown function %q", t)
			}
			p.pos++
			a, err := p.sum()
			if err != nil {
				return nil, err
			}
			if p.peek() != ")" {
				return nil, fmt.Errorf("missing ) after %s(", t)
			}
			p.pos++
			return &expr{op: 'l', a: a}, nil
		}
		return &expr{op: 'v', name: t}, nil
	}
	return nil, fmt.Errorf("unexpected token %q", t)
}

// vars lists the variables of e.
func (e *expr) vars(into map[string]bool) {
	if e == nil {
		return
	}
	if e.op == 'v' {
		into[e.name] = true
	}
	e.a.vars(into)
	e.b.vars(into)
}

// factors returns the variables that are top-level multiplicative factors of e.
func (e *expr) factors(into map[string]bool) {
	if e == nil {
		return
	}
	switch e.op {
	case '*':
		e.a.factors(into)
		e.b.factors(into)
	case 'v':
		into[e.name] = true
	}
}

type evalResult struct {
	v     *big.Float
	slack float64 // absolute allowance: a log whose argument (>= 1 here) is rounded to float64 first
}

func (e *expr) eval(env map[string]float64) (evalResult, error) {
	switch e.op {
	case 'n':
		return evalResult{v: bf(e.num)}, nil
	case 'v':
		v, ok := env[e.name]
		if !ok {
			return evalResult{}, fmt.Errorf("variable %q has no child", e.name)
		}
		if math.IsNaN(v) || math.IsInf(v, 0) {
			return evalResult{}, fmt.Errorf("variable %q is %v", e.name, v)
		}
		return evalResult{v: bf(v)}, nil
	case 'm':
		a, err := e.a.eval(env)
		if err != nil {
			return a, err
		}
		return evalResult{v: bnew().Neg(a.v), slack: a.slack}, nil
	case 'l':
		a, err := e.a.eval(env)
		if err != nil {
			return a, err
		}
		l, ok := bigLog(a.v)
		if !ok {
			return evalResult{}, fmt.Errorf("log of a non-positive value %v", a.v)
		}
		// d ln(x) = dx/x: an argument rounded to float64 (relative 2^-53, a few operations)
		// moves the logarithm by a few 2^-53 absolutely, whatever the size of ln(x)
		return evalResult{v: bf(l), slack: 8 * 0x1p-53}, nil
	}
	a, err := e.a.eval(env)
	if err != nil {
		return a, err
	}
	b, err := e.b.eval(env)
	if err != nil {
		return b, err
	}
	r := evalResult{}
	switch e.op {
	case '+':
		r.v = badd(a.v, b.v)
		r.slack = a.slack + b.slack
	case '-':
		r.v = bsub(a.v, b.v)
		r.slack = a.slack + b.slack
	case '*':
		r.v = bmul(a.v, b.v)
		r.slack = a.slack*math.Abs(f64(b.v)) + b.slack*math.Abs(f64(a.v))
	case '/':
		if b.v.Sign() == 0 {
			return evalResult{}, fmt.Errorf("division by zero")
		}
		r.v = bquo(a.v, b.v)
		r.slack = a.slack/math.Abs(f64(b.v)) + b.slack*math.Abs(f64(r.v))/math.Abs(f64(b.v))
	}
	return r, nil
}

// ---------------------------------------------------------------------------------------------
// node walk

// nodeName is the first identifier of the text before the first comma of the message.
func nodeName(msg string) string {
	if i := strings.IndexByte(msg, ','); i >= 0 {
		msg = msg[:i]
	}
	msg = strings.TrimSpace(msg)
	j := 0
	for j < len(msg) && (msg[j] == '_' || msg[j] >= 'a' && msg[j] <= 'z' || msg[j] >= 'A' && msg[j] <= 'Z' || (j > 0 && msg[j] >= '0' && msg[j] <= '9')) {
		j++
	}
	return msg[:j]
}

// formulaOf extracts "<expr>" from "... computed as <expr>[ from:]".
func formulaOf(msg string) (string, bool) {
	i := strings.Index(msg, "computed as ")
	if i < 0 {
		return "", false
	}
	f := strings.TrimSpace(msg[i+len("computed as "):])
	f = strings.TrimSuffix(f, "from:")
	f = strings.TrimSuffix(strings.TrimSpace(f), ":")
	return strings.TrimSpace(f), true
}

// termTruth is what the harness knows about the posting a term explanation talks about.
type termTruth struct {
	Freq   float64
	DL     float64
	DF     float64
	N      float64
	SumTTF float64 // avgdl = SumTTF / N
	K1, B  float64
	Boost  float64
}

type explStats struct {
	nodes      int
	formula    int
	sums       int
	leaves     int
	termNodes  int
	termDepth  int // deepest term-score node (root = 1)
	idfNodes   int
	idfKnown   int // idf nodes holding the shipped (mis-parenthesised) expression
	idfExact   int // idf nodes equal to the stated formula (N == n)
	unusedKids int
	constants  int
	kinds      map[string]int
}

func (s *explStats) add(o *explStats) {
	s.nodes += o.nodes
	s.formula += o.formula
	s.sums += o.sums
	s.leaves += o.leaves
	s.termNodes += o.termNodes
	s.idfNodes += o.idfNodes
	s.idfKnown += o.idfKnown
	s.idfExact += o.idfExact
	s.unusedKids += o.unusedKids
	s.constants += o.constants
}

const keyIdf = "idf-node-formula"

// shippedIdf is the expression the pinned tree evaluates (finding #7): the parenthesis of the
// stated formula is lost, `1 + (N-n) + 0.5/(n+0.5)`.
func shippedIdf(n, N float64) float64 {
	return math.Log(1.0 + (N - n) + 0.5/(n+0.5))
}

func ulpDist(a, b float64) float64 {
	if a == b {
		return 0
	}
	return math.Abs(a-b) / ulp(math.Max(math.Abs(a), math.Abs(b)))
}

// checkExplanation walks the tree.  truth, if not nil, applies to every term-score node of the
// tree (callers pass it only for single-term explanations).  onKnown is called for every idf
// node that holds exactly the shipped expression of finding #7; it returns a Failure when the
// finding is not listed.
func checkExplanation(e *search.Explanation, truth *termTruth, st *explStats, onKnown func(msg string) *vlib.Failure) *vlib.Failure {
	if e == nil {
		return vlib.Failf("explain-missing", "no explanation on a match of an explained search")
	}
	return walk(e, 1, truth, st, onKnown)
}

func childByName(e *search.Explanation, name string) (*search.Explanation, int) {
	var found *search.Explanation
	n := 0
	for _, c := range e.Children {
		if c != nil && nodeName(c.Message) == name {
			if found == nil {
				found = c
			}
			n++
		}
	}
	return found, n
}

func walk(e *search.Explanation, depth int, truth *termTruth, st *explStats, onKnown func(string) *vlib.Failure) *vlib.Failure {
	st.nodes++
	if depth > 200 {
		return vlib.Failf("explain-too-deep", "explanation deeper than 200 levels")
	}
	if math.IsNaN(e.Value) || math.IsInf(e.Value, 0) {
		return vlib.Failf("explain-node-not-finite", "node %q has value %v", e.Message, e.Value)
	}
	for _, c := range e.Children {
		if c == nil {
			return vlib.Failf("explain-nil-child", "node %q has a nil child", e.Message)
		}
	}
	name := nodeName(e.Message)
	if st.kinds != nil {
		st.kinds[name]++
	}
	formula, hasFormula := formulaOf(e.Message)
	switch {
	case hasFormula:
		st.formula++
		ast, err := parseExpr(formula)
		if err != nil {
			return vlib.Failf("explain-unparsed-node", "node %q: formula %q: %v", e.Message, formula, err)
		}
		vars := map[string]bool{}
		ast.vars(vars)
		env := map[string]float64{}
		for v := range vars {
			c, n := childByName(e, v)
			switch {
			case n == 1:
				env[v] = c.Value
			case n > 1:
				return vlib.Failf("explain-ambiguous-child", "node %q: %d children named %q", e.Message, n, v)
			case v == "boost":
				env[v] = 1 // the scorer omits the boost child when the boost is 1
			default:
				return vlib.Failf("explain-missing-child", "node %q: formula %q uses %q but no child has that name", e.Message, formula, v)
			}
		}
		for _, c := range e.Children {
			if !vars[nodeName(c.Message)] {
				st.unusedKids++
			}
		}
		r, err := ast.eval(env)
		if err != nil {
			return vlib.Failf("explain-formula-error", "node %q: %v", e.Message, err)
		}
		want := f64(r.v)
		// scale of the comparison: the saturation term tf is computed as 1 - 1/(1+freq*x), i.e. with an
		// absolute error of a few 2^-53 whatever its size; everything multiplied by it inherits that
		scale := math.Abs(want)
		if name == "tf" {
			scale = math.Max(scale, 1)
		}
		fs := map[string]bool{}
		ast.factors(fs)
		if fs["tf"] {
			if tfv := env["tf"]; tfv > 0 && tfv < 1 {
				scale = math.Max(scale, math.Abs(want)/tfv)
			}
		}
		tol := 32*ulp(scale) + r.slack
		diff := math.Abs(f64(bsub(bf(e.Value), r.v)))
		if name == "idf" {
			st.idfNodes++
			if diff <= tol {
				st.idfExact++
			} else {
				nC, _ := childByName(e, "n")
				NC, _ := childByName(e, "N")
				if nC != nil && NC != nil && ulpDist(e.Value, shippedIdf(nC.Value, NC.Value)) <= 2 {
					st.idfKnown++
					if f := onKnown(fmt.Sprintf("idf node with n=%v N=%v holds %v = log(1 + (N-n) + 0.5/(n+0.5)); its message %q gives %v", nC.Value, NC.Value, e.Value, formula, want)); f != nil {
						return f
					}
				} else {
					return vlib.Failf("explain-node-value@idf", "node %q holds %v, the formula applied to its children gives %v (and the value is not the shipped expression of finding #7 either)", e.Message, e.Value, want)
				}
			}
		} else if !(diff <= tol) {
			return vlib.Failf("explain-node-value@"+orName(name), "node %q holds %v, the formula applied to its children %v gives %v (difference %.3g, allowed %.3g)", e.Message, e.Value, env, want, diff, tol)
		}
		if name == "score" {
			st.termNodes++
			if depth > st.termDepth {
				st.termDepth = depth
			}
			if f := checkTermNode(e, truth); f != nil {
				return f
			}
		}
	case strings.TrimSpace(e.Message) == "sum of:":
		st.sums++
		sum := bf(0)
		mag := 0.0
		for _, c := range e.Children {
			sum = badd(sum, bf(c.Value))
			mag += math.Abs(c.Value)
		}
		n := float64(len(e.Children))
		tol := math.Max(32, 4*n) * ulp(math.Max(mag, math.Abs(e.Value)))
		if diff := math.Abs(f64(bsub(bf(e.Value), sum))); !(diff <= tol) {
			return vlib.Failf("explain-node-value@sum", "node \"sum of:\" holds %v, its %d children sum to %v", e.Value, len(e.Children), f64(sum))
		}
	case len(e.Children) == 0:
		st.leaves++
		if name == "constant" {
			st.constants++
		}
	default:
		return vlib.Failf("explain-unparsed-node", "node %q has %d children but states no formula the interpreter understands", e.Message, len(e.Children))
	}
	for _, c := range e.Children {
		if f := walk(c, depth+1, truth, st, onKnown); f != nil {
			return f
		}
	}
	return nil
}

func orName(n string) string {
	if n == "" {
		return "composite"
	}
	return n
}

// checkTermNode checks what a term-score node says about itself: "score(freq=<d>)" agrees with
// the freq leaf of its tf child, and (when the harness knows the posting) every leaf holds what
// its description says.
func checkTermNode(e *search.Explanation, truth *termTruth) *vlib.Failure {
	tf, _ := childByName(e, "tf")
	idf, _ := childByName(e, "idf")
	if tf == nil || idf == nil {
		return nil
	}
	freqLeaf, _ := childByName(tf, "freq")
	if i := strings.Index(e.Message, "(freq="); i >= 0 && freqLeaf != nil {
		rest := e.Message[i+len("(freq="):]
		if j := strings.IndexByte(rest, ')'); j >= 0 {
			if d, err := strconv.ParseInt(rest[:j], 10, 64); err == nil && float64(d) != freqLeaf.Value {
				return vlib.Failf("explain-leaf@freq", "node %q but its tf child has freq leaf %v", e.Message, freqLeaf.Value)
			}
		}
	}
	if truth == nil {
		return nil
	}
	leaf := func(parent *search.Explanation, name string, want float64, rel float64) *vlib.Failure {
		c, n := childByName(parent, name)
		if n != 1 {
			return vlib.Failf("explain-leaf@"+name, "node %q has %d children named %q", parent.Message, n, name)
		}
		if math.Abs(c.Value-want) > rel*math.Abs(want) {
			return vlib.Failf("explain-leaf@"+name, "leaf %q holds %v, the posting/collection has %v", c.Message, c.Value, want)
		}
		return nil
	}
	for _, f := range []*vlib.Failure{
		leaf(tf, "freq", truth.Freq, 0),
		leaf(tf, "dl", truth.DL, 0),
		leaf(tf, "k1", truth.K1, 0),
		leaf(tf, "b", truth.B, 0),
		leaf(tf, "avgdl", truth.SumTTF/truth.N, 4*0x1p-52),
		leaf(idf, "n", truth.DF, 0),
		leaf(idf, "N", truth.N, 0),
	} {
		if f != nil {
			return f
		}
	}
	b, nb := childByName(e, "boost")
	switch {
	case truth.Boost == 1 && nb == 0:
	case nb == 1 && b.Value == truth.Boost:
	default:
		got := "none"
		if b != nil {
			got = fmt.Sprint(b.Value)
		}
		return vlib.Failf("explain-leaf@boost", "term scored with boost %v, explanation has %d boost children (value %s)", truth.Boost, nb, got)
	}
	return nil
}

// depthOf returns the number of levels of the tree.
func depthOf(e *search.Explanation) int {
	if e == nil {
		return 0
	}
	d := 0
	for _, c := range e.Children {
		if x := depthOf(c); x > d {
			d = x
		}
	}
	return d + 1
}

// formulaValue evaluates the formula stated in the message of node n in 256 bits, taking the
// variables from n's children except those given in over.  This is how the laws and the
// score-equals-formula comparison obtain their exact values: from the implementation's own
// statement of what it computes, not from a second copy of BM25 in the harness.
func formulaValue(n *search.Explanation, over map[string]float64) (*big.Float, *vlib.Failure) {
	formula, ok := formulaOf(n.Message)
	if !ok {
		return nil, vlib.Failf("explain-unparsed-node", "node %q states no formula", n.Message)
	}
	ast, err := parseExpr(formula)
	if err != nil {
		return nil, vlib.Failf("explain-unparsed-node", "node %q: formula %q: %v", n.Message, formula, err)
	}
	vars := map[string]bool{}
	ast.vars(vars)
	env := map[string]float64{}
	for v := range vars {
		if x, ok := over[v]; ok {
			env[v] = x
			continue
		}
		c, k := childByName(n, v)
		if k != 1 {
			return nil, vlib.Failf("explain-missing-child", "node %q: formula %q uses %q, %d children have that name", n.Message, formula, v, k)
		}
		env[v] = c.Value
	}
	r, err := ast.eval(env)
	if err != nil {
		return nil, vlib.Failf("explain-formula-error", "node %q: %v", n.Message, err)
	}
	return r.v, nil
}

// idfStated is ln(1 + (N - n + 0.5)/(n + 0.5)).
func idfStated(n, N float64) float64 {
	a := badd(bf(1), bquo(badd(bsub(bf(N), bf(n)), bf(0.5)), badd(bf(n), bf(0.5))))
	l, _ := bigLog(a)
	return l
}
