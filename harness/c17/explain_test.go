package c17

// (c) generated query trees, run with and without ExplainScores:
//   * Explanation.Value equals the score of the unexplained run, every node is re-evaluated;
//   * a compound scores (sum of its matching parts) x its boost -- judged by a reference evaluator
//     that only uses the scores of the leaves, each observed by running the leaf on its own;
//   * the boost of the root scales every score linearly (for every query kind).

import (
	"fmt"
	"math"
	"os"
	"sort"
	"strings"
	"testing"

	"github.com/blugelabs/bluge"
	"pgregory.net/rapid"

	"verifharness/vlib"
)

// Q is a JSON-serialisable query tree.
type Q struct {
	Kind      string     `json:"kind"`
	Field     string     `json:"field,omitempty"`
	Text      string     `json:"text,omitempty"`  // term, match text, phrase, prefix, pattern
	Terms     [][]string `json:"terms,omitempty"` // multi-phrase
	Op        string     `json:"op,omitempty"`    // match: "or" | "and"
	Slop      int        `json:"slop,omitempty"`
	Fuzz      int        `json:"fuzz,omitempty"`
	PrefixLen int        `json:"prefix_len,omitempty"`
	Min       float64    `json:"min,omitempty"`
	Max       float64    `json:"max,omitempty"`
	MinS      string     `json:"min_s,omitempty"`
	MaxS      string     `json:"max_s,omitempty"`
	IncMin    bool       `json:"inc_min,omitempty"`
	IncMax    bool       `json:"inc_max,omitempty"`
	Boost     float64    `json:"boost,omitempty"` // 0 = SetBoost not called
	Must      []Q        `json:"must,omitempty"`
	Should    []Q        `json:"should,omitempty"`
	MustNot   []Q        `json:"must_not,omitempty"`
	MinShould int        `json:"min_should,omitempty"`
}

func (q Q) boost() float64 {
	if q.Boost == 0 {
		return 1
	}
	return q.Boost
}

func (q Q) build() bluge.Query {
	switch q.Kind {
	case "term":
		r := bluge.NewTermQuery(q.Text).SetField(q.Field)
		if q.Boost != 0 {
			r.SetBoost(q.Boost)
		}
		return r
	case "match":
		r := bluge.NewMatchQuery(q.Text).SetField(q.Field)
		if q.Op == "and" {
			r.SetOperator(bluge.MatchQueryOperatorAnd)
		}
		if q.Boost != 0 {
			r.SetBoost(q.Boost)
		}
		return r
	case "matchphrase":
		r := bluge.NewMatchPhraseQuery(q.Text).SetField(q.Field).SetSlop(q.Slop)
		if q.Boost != 0 {
			r.SetBoost(q.Boost)
		}
		return r
	case "multiphrase":
		r := bluge.NewMultiPhraseQuery(q.Terms).SetField(q.Field).SetSlop(q.Slop)
		if q.Boost != 0 {
			r.SetBoost(q.Boost)
		}
		return r
	case "prefix":
		r := bluge.NewPrefixQuery(q.Text).SetField(q.Field)
		if q.Boost != 0 {
			r.SetBoost(q.Boost)
		}
		return r
	case "wildcard":
		r := bluge.NewWildcardQuery(q.Text).SetField(q.Field)
		if q.Boost != 0 {
			r.SetBoost(q.Boost)
		}
		return r
	case "regexp":
		r := bluge.NewRegexpQuery(q.Text).SetField(q.Field)
		if q.Boost != 0 {
			r.SetBoost(q.Boost)
		}
		return r
	case "fuzzy":
		r := bluge.NewFuzzyQuery(q.Text).SetField(q.Field).SetFuzziness(q.Fuzz).SetPrefix(q.PrefixLen)
		if q.Boost != 0 {
			r.SetBoost(q.Boost)
		}
		return r
	case "termrange":
		r := bluge.NewTermRangeInclusiveQuery(q.MinS, q.MaxS, q.IncMin, q.IncMax).SetField(q.Field)
		if q.Boost != 0 {
			r.SetBoost(q.Boost)
		}
		return r
	case "numrange":
		r := bluge.NewNumericRangeInclusiveQuery(q.Min, q.Max, q.IncMin, q.IncMax).SetField("num")
		if q.Boost != 0 {
			r.SetBoost(q.Boost)
		}
		return r
	case "daterange":
		r := bluge.NewDateRangeInclusiveQuery(dayZero.AddDate(0, 0, int(q.Min)).Add(-6*3600e9), dayZero.AddDate(0, 0, int(q.Max)).Add(6*3600e9), true, true).SetField("day")
		if q.Boost != 0 {
			r.SetBoost(q.Boost)
		}
		return r
	case "geobox":
		// Min/Max are the west/east longitudes, MinS/MaxS unused; the box spans Slop degrees of latitude around 0
		r := bluge.NewGeoBoundingBoxQuery(q.Min, float64(q.Slop), q.Max, -float64(q.Slop)).SetField("loc")
		if q.Boost != 0 {
			r.SetBoost(q.Boost)
		}
		return r
	case "geodist":
		r := bluge.NewGeoDistanceQuery(q.Min, q.Max, fmt.Sprintf("%dkm", q.Slop)).SetField("loc")
		if q.Boost != 0 {
			r.SetBoost(q.Boost)
		}
		return r
	case "matchall":
		r := bluge.NewMatchAllQuery()
		if q.Boost != 0 {
			r.SetBoost(q.Boost)
		}
		return r
	case "matchnone":
		return bluge.NewMatchNoneQuery()
	case "bool":
		r := bluge.NewBooleanQuery()
		for _, c := range q.Must {
			r.AddMust(c.build())
		}
		for _, c := range q.Should {
			r.AddShould(c.build())
		}
		for _, c := range q.MustNot {
			r.AddMustNot(c.build())
		}
		r.SetMinShould(q.MinShould)
		if q.Boost != 0 {
			r.SetBoost(q.Boost)
		}
		return r
	}
	panic("harness: unknown query kind " + q.Kind)
}

var boostChoices = []float64{2, 3, 0.5, 10, 0.25, 1.5, 7, 0.01, 1000, 1.1}

func genBoostQ(t *rapid.T) float64 {
	if rapid.Bool().Draw(t, "boosted") {
		return rapid.SampledFrom(boostChoices).Draw(t, "boostQ")
	}
	return 0
}

func distinctWords(t *rapid.T, n int) []string { return distinctWordsN(t, n) }

// phraseFrom picks adjacent tokens of some document (so the phrase has a chance to match).
func phraseFrom(t *rapid.T, c Corpus, field string, n int) []string {
	var cands []int
	for i, d := range c.Docs {
		if len(d.tokens(field)) >= n {
			cands = append(cands, i)
		}
	}
	if len(cands) == 0 || rapid.IntRange(0, 5).Draw(t, "phraseRandom") == 0 {
		out := make([]string, n)
		for i := range out {
			out[i] = rapid.SampledFrom(vocab).Draw(t, "phraseWord")
		}
		return out
	}
	toks := c.Docs[rapid.SampledFrom(cands).Draw(t, "phraseDoc")].tokens(field)
	at := rapid.IntRange(0, len(toks)-n).Draw(t, "phraseAt")
	return append([]string(nil), toks[at:at+n]...)
}

var leafKinds = []string{"term", "term", "term", "term", "match", "match", "matchphrase", "multiphrase", "prefix", "wildcard", "regexp", "fuzzy",
	"termrange", "numrange", "numrange", "daterange", "matchall",
	"term", "term", "match", "matchphrase", "prefix", "wildcard", "regexp", "fuzzy", "termrange", "numrange", "daterange", "matchall", "term", "match", "geo"}

func genLeaf(t *rapid.T, c Corpus) Q {
	q := Q{Kind: rapid.SampledFrom(leafKinds).Draw(t, "leafKind"), Field: rapid.SampledFrom([]string{"body", "body", "title"}).Draw(t, "field"), Boost: genBoostQ(t)}
	if q.Kind == "geo" { // geo queries cost tens of milliseconds each: about 3 % of the leaves
		q.Kind = rapid.SampledFrom([]string{"geobox", "geodist"}).Draw(t, "geoKind")
	}
	switch q.Kind {
	case "geobox":
		w := rapid.IntRange(-10, 6).Draw(t, "west")
		q.Min, q.Max = float64(w), float64(rapid.IntRange(w+2, 10).Draw(t, "east"))
		q.Slop = rapid.IntRange(2, 10).Draw(t, "latSpan")
	case "geodist":
		q.Min, q.Max = float64(rapid.IntRange(-8, 8).Draw(t, "lon")), float64(rapid.IntRange(-8, 8).Draw(t, "lat"))
		q.Slop = rapid.SampledFrom([]int{200, 500, 1000}).Draw(t, "km")
	case "term":
		q.Text = rapid.SampledFrom(vocab).Draw(t, "term")
	case "match":
		q.Text = strings.Join(distinctWords(t, rapid.IntRange(1, 3).Draw(t, "matchWords")), " ")
		q.Op = rapid.SampledFrom([]string{"or", "or", "and"}).Draw(t, "matchOp")
	case "matchphrase":
		q.Text = strings.Join(phraseFrom(t, c, q.Field, rapid.IntRange(2, 3).Draw(t, "phraseLen")), " ")
		q.Slop = rapid.SampledFrom([]int{0, 0, 1, 2}).Draw(t, "slop")
	case "multiphrase":
		ph := phraseFrom(t, c, q.Field, 2)
		q.Terms = [][]string{{ph[0]}, {ph[1]}}
		if alt := rapid.SampledFrom(vocab).Draw(t, "altWord"); alt != ph[0] {
			q.Terms[0] = append(q.Terms[0], alt)
		}
		q.Slop = rapid.SampledFrom([]int{0, 0, 1}).Draw(t, "slop")
	case "prefix":
		q.Text = rapid.SampledFrom([]string{"w", "wa", "wb", "x", "xy", "wab"}).Draw(t, "prefix")
	case "wildcard":
		q.Text = rapid.SampledFrom([]string{"w?", "wa*", "x*", "*b", "w*d", "?a", "wa?"}).Draw(t, "wildcard")
	case "regexp":
		q.Text = rapid.SampledFrom([]string{"w[ab]", "wa.*", "x.+", "w.", "(wa|xb)", "w[a-c]d?"}).Draw(t, "regexp")
	case "fuzzy":
		q.Text = rapid.SampledFrom([]string{"wa", "wab", "wbd", "xa", "xyz", "wc", "wad"}).Draw(t, "fuzzyTerm")
		q.Fuzz = rapid.IntRange(1, 2).Draw(t, "fuzz")
		q.PrefixLen = rapid.IntRange(0, 1).Draw(t, "fuzzPrefix")
	case "termrange":
		ws := append([]string(nil), vocab...)
		sort.Strings(ws)
		a := rapid.IntRange(0, len(ws)-2).Draw(t, "rangeLo")
		b := rapid.IntRange(a+1, len(ws)-1).Draw(t, "rangeHi")
		q.MinS, q.MaxS = ws[a], ws[b]
		q.IncMin, q.IncMax = rapid.Bool().Draw(t, "incMin"), rapid.Bool().Draw(t, "incMax")
	case "numrange":
		a := rapid.IntRange(-3, 38).Draw(t, "numLo")
		q.Min, q.Max = float64(a), float64(rapid.IntRange(a+1, 44).Draw(t, "numHi"))
		q.IncMin, q.IncMax = rapid.Bool().Draw(t, "incMin"), rapid.Bool().Draw(t, "incMax")
	case "daterange":
		a := rapid.IntRange(0, 2800).Draw(t, "dayLo")
		q.Min, q.Max = float64(a), float64(rapid.IntRange(a+30, 3100).Draw(t, "dayHi"))
	}
	return q
}

func genQ(t *rapid.T, c Corpus, depth int) Q {
	if depth <= 0 || rapid.IntRange(0, 9).Draw(t, "leafHere") < 3 {
		return genLeaf(t, c)
	}
	q := Q{Kind: "bool", Boost: genBoostQ(t)}
	nm := rapid.SampledFrom([]int{0, 0, 1, 1, 2}).Draw(t, "nMust")
	ns := rapid.SampledFrom([]int{0, 1, 2, 2, 3}).Draw(t, "nShould")
	nn := rapid.SampledFrom([]int{0, 0, 0, 1}).Draw(t, "nMustNot")
	if nm+ns == 0 {
		ns = 2
	}
	for i := 0; i < nm; i++ {
		q.Must = append(q.Must, genQ(t, c, depth-1))
	}
	for i := 0; i < ns; i++ {
		q.Should = append(q.Should, genQ(t, c, depth-1))
	}
	for i := 0; i < nn; i++ {
		q.MustNot = append(q.MustNot, genLeaf(t, c))
	}
	if ns > 0 {
		q.MinShould = rapid.SampledFrom([]int{0, 0, 1, 1, 2}).Draw(t, "minShould")
		if q.MinShould > ns {
			q.MinShould = ns
		}
	}
	return q
}

func genRootQ(t *rapid.T, c Corpus) Q {
	switch rapid.IntRange(0, 9).Draw(t, "rootKind") {
	case 0, 1:
		q := genLeaf(t, c)
		if q.Boost == 0 {
			q.Boost = rapid.SampledFrom(boostChoices).Draw(t, "rootBoost")
		}
		return q
	case 2:
		// a boolean of must-nots only (scored through an implied match-all)
		return Q{Kind: "bool", MustNot: []Q{genLeaf(t, c)}, Boost: genBoostQ(t)}
	default:
		return genQ(t, c, rapid.IntRange(1, 3).Draw(t, "depth"))
	}
}

type ExplainCase struct {
	Corpus  Corpus `json:"corpus"`
	Queries []Q    `json:"queries"`
}

func genExplainCase(t *rapid.T) ExplainCase {
	c := ExplainCase{Corpus: genCorpus(t)}
	n := rapid.IntRange(12, 24).Draw(t, "nQueries")
	for i := 0; i < n; i++ {
		c.Queries = append(c.Queries, genRootQ(t, c.Corpus))
	}
	return c
}

type queryStat struct {
	kind       string
	hits       int
	nontrivial bool
	termNodes  int
	termDepth  int
	judgedSum  bool
	judgedLin  bool
	excluded   string // key of the known finding whose class this query belongs to
}

type explainStats struct {
	explStats
	perQuery []queryStat
	searches int
	kinds    map[string]int // query kinds occurring anywhere in the trees
}

func newExplainStats() *explainStats {
	return &explainStats{kinds: map[string]int{}, explStats: explStats{kinds: map[string]int{}}}
}

func countKinds(q Q, into map[string]int) {
	into[q.Kind]++
	for _, l := range [][]Q{q.Must, q.Should, q.MustNot} {
		for _, c := range l {
			countKinds(c, into)
		}
	}
}

// evaluator runs queries on one index, memoising standalone runs.
type evaluator struct {
	corpus Corpus
	x    *idx
	memo map[string]map[int]float64
	st   *explainStats
}

func (e *evaluator) scores(q Q) (map[int]float64, *vlib.Failure) {
	key := vlib.Canon(q)
	if m, ok := e.memo[key]; ok {
		return m, nil
	}
	hits, f := e.x.run(q.Kind, q.build(), false)
	if f != nil {
		return nil, f
	}
	e.st.searches++
	m := make(map[int]float64, len(hits))
	for k, h := range hits {
		m[k] = h.Score
	}
	e.memo[key] = m
	return m, nil
}

func tokensOf(text string) []string { return strings.Fields(text) }

// ref computes what the property says a compound scores, from the scores of its leaves.
// judged is false for shapes whose score the property does not determine (a boolean of
// must-nots only: any finite positive score).
func (e *evaluator) ref(q Q) (m map[int]float64, judged bool, f *vlib.Failure) {
	switch q.Kind {
	case "match":
		toks := tokensOf(q.Text)
		out := map[int]float64{}
		cnt := map[int]int{}
		for _, w := range toks {
			s, f := e.scores(Q{Kind: "term", Field: q.Field, Text: w})
			if f != nil {
				return nil, false, f
			}
			for k, v := range s {
				out[k] += v
				cnt[k]++
			}
		}
		for k := range out {
			if q.Op == "and" && cnt[k] < len(toks) {
				delete(out, k)
				continue
			}
			out[k] *= q.boost()
		}
		return out, true, nil
	case "bool":
		if len(q.Must)+len(q.Should) == 0 {
			s, f := e.scores(q)
			return s, false, f
		}
		judged = true
		var musts, shoulds, nots []map[int]float64
		for _, group := range []struct {
			qs  []Q
			dst *[]map[int]float64
		}{{q.Must, &musts}, {q.Should, &shoulds}, {q.MustNot, &nots}} {
			for _, c := range group.qs {
				s, j, f := e.ref(c)
				if f != nil {
					return nil, false, f
				}
				if !j && group.dst != &nots {
					judged = false
				}
				*group.dst = append(*group.dst, s)
			}
		}
		out := map[int]float64{}
		for k := 0; k < e.x.n; k++ {
			ok := true
			sum := 0.0
			for _, m := range musts {
				v, hit := m[k]
				if !hit {
					ok = false
					break
				}
				sum += v
			}
			if !ok {
				continue
			}
			for _, m := range nots {
				if _, hit := m[k]; hit {
					ok = false
				}
			}
			if !ok {
				continue
			}
			cnt := 0
			for _, m := range shoulds {
				if v, hit := m[k]; hit {
					cnt++
					sum += v
				}
			}
			need := q.MinShould
			if len(musts) == 0 && need < 1 {
				need = 1
			}
			if cnt < need {
				continue
			}
			out[k] = sum * q.boost()
		}
		return out, judged, nil
	}
	s, f := e.scores(q)
	return s, true, f
}

func relClose(a, b, rel float64) bool {
	return math.Abs(a-b) <= rel*math.Max(math.Abs(a), math.Abs(b))
}

var skipKeys = map[string]bool{}

func init() {
	for _, k := range strings.Split(os.Getenv("C17_SKIP_KEYS"), ",") {
		if k != "" {
			skipKeys[k] = true
		}
	}
}

func propExplain(c ExplainCase, st *explainStats) *vlib.Failure {
	x, f := buildIndex(c.Corpus)
	if f != nil {
		return f
	}
	defer x.close()
	e := &evaluator{corpus: c.Corpus, x: x, memo: map[string]map[int]float64{}, st: st}
	for qi, q := range c.Queries {
		countKinds(q, st.kinds)
		qs := queryStat{kind: q.Kind}
		f := propQuery(e, q, &qs)
		st.perQuery = append(st.perQuery, qs)
		if f != nil {
			if skipKeys[f.Key] {
				fmt.Printf("C17-SKIPPED %s: %s\n", f.Key, f.Msg)
				continue
			}
			f.Msg = fmt.Sprintf("query %d %s: %s", qi, vlib.Canon(q), f.Msg)
			return f
		}
	}
	return nil
}

const keyFuzzy = "fuzzy-nonpositive-term-boost"

// osa is the optimal-string-alignment distance (insert, delete, substitute, transpose adjacent),
// the distance of the Levenshtein automata the fuzzy searcher builds (transpositions enabled).
func osa(a, b string) int {
	ra, rb := []rune(a), []rune(b)
	d := make([][]int, len(ra)+1)
	for i := range d {
		d[i] = make([]int, len(rb)+1)
		d[i][0] = i
	}
	for j := range d[0] {
		d[0][j] = j
	}
	for i := 1; i <= len(ra); i++ {
		for j := 1; j <= len(rb); j++ {
			cost := 1
			if ra[i-1] == rb[j-1] {
				cost = 0
			}
			v := d[i-1][j] + 1
			if x := d[i][j-1] + 1; x < v {
				v = x
			}
			if x := d[i-1][j-1] + cost; x < v {
				v = x
			}
			if i > 1 && j > 1 && ra[i-1] == rb[j-2] && ra[i-2] == rb[j-1] {
				if x := d[i-2][j-2] + 1; x < v {
					v = x
				}
			}
			d[i][j] = v
		}
	}
	return d[len(ra)][len(rb)]
}

// degenerateFuzzy reports whether q contains a fuzzy leaf one of whose candidate terms in this
// corpus lies at an edit distance >= the length of the shorter of the two terms: the fuzzy
// searcher boosts such a candidate by 1 - distance/minLen <= 0 (known finding keyFuzzy).
func degenerateFuzzy(q Q, c Corpus) (bool, string) {
	if q.Kind == "fuzzy" {
		seen := map[string]bool{}
		for _, d := range c.Docs {
			for _, w := range d.tokens(q.Field) {
				if seen[w] || w == q.Text {
					continue
				}
				seen[w] = true
				if q.PrefixLen > 0 && (len(q.Text) < q.PrefixLen || !strings.HasPrefix(w, q.Text[:q.PrefixLen])) {
					continue
				}
				minLen := len([]rune(w))
				if l := len([]rune(q.Text)); l < minLen {
					minLen = l
				}
				if dist := osa(q.Text, w); dist <= q.Fuzz && dist >= minLen {
					return true, fmt.Sprintf("fuzzy %q (fuzziness %d) reaches the indexed term %q at distance %d >= min length %d", q.Text, q.Fuzz, w, dist, minLen)
				}
			}
		}
		return false, ""
	}
	for _, l := range [][]Q{q.Must, q.Should, q.MustNot} {
		for _, ch := range l {
			if deg, why := degenerateFuzzy(ch, c); deg {
				return true, why
			}
		}
	}
	return false, ""
}

func propQuery(e *evaluator, q Q, qs *queryStat) *vlib.Failure {
	if deg, why := degenerateFuzzy(q, e.corpus); deg {
		if _, listed := vlib.IsKnown("C17", keyFuzzy); listed {
			qs.excluded = keyFuzzy
			return nil // the class of the known finding: counted, not judged
		}
		f := propQuery1(e, q, qs)
		if f != nil && (f.Key == "score-not-finite-positive" || strings.HasPrefix(f.Key, "boost-") || strings.HasPrefix(f.Key, "compound-")) {
			f.Key, f.Msg = keyFuzzy, why+": "+f.Msg
		}
		return f
	}
	return propQuery1(e, q, qs)
}

func propQuery1(e *evaluator, q Q, qs *queryStat) *vlib.Failure {
	x, st := e.x, e.st
	plain, f := e.scores(q)
	if f != nil {
		return f
	}
	expl, f := x.run(q.Kind, q.build(), true)
	if f != nil {
		return f
	}
	st.searches++
	qs.hits = len(plain)
	if len(expl) != len(plain) {
		return vlib.Failf("explain-changes-hits", "%d hits without ExplainScores, %d with", len(plain), len(expl))
	}
	for _, k := range sortedKeys(expl) {
		h := expl[k]
		s, ok := plain[k]
		if !ok {
			return vlib.Failf("explain-changes-hits", "document %d is a hit only with ExplainScores", k)
		}
		if !finitePos(s) {
			return vlib.Failf("score-not-finite-positive", "document %d scores %v", k, s)
		}
		if h.Expl == nil {
			return vlib.Failf("explain-missing", "document %d has no explanation", k)
		}
		if h.Score != h.Expl.Value {
			return vlib.Failf("explain-value-vs-score", "document %d: explained run has Score %v but Explanation.Value %v", k, h.Score, h.Expl.Value)
		}
		if !relClose(h.Expl.Value, s, 1e-12) {
			return vlib.Failf("explain-value-vs-score", "document %d: Explanation.Value %v, score without ExplainScores %v\n%s", k, h.Expl.Value, s, h.Expl)
		}
		var one explStats
		one.kinds = st.explStats.kinds
		if f := checkExplanation(h.Expl, nil, &one, knownIdf); f != nil {
			f.Msg = fmt.Sprintf("document %d: %s", k, f.Msg)
			return f
		}
		st.explStats.add(&one)
		if one.termNodes > qs.termNodes {
			qs.termNodes = one.termNodes
		}
		if one.termDepth > qs.termDepth {
			qs.termDepth = one.termDepth
		}
		if one.termNodes >= 2 && one.termDepth >= 3 {
			qs.nontrivial = true
		}
	}
	// the boost of the root scales the score linearly
	if q.Boost != 0 && q.Boost != 1 {
		base := q
		base.Boost = 0
		unb, f := e.scores(base)
		if f != nil {
			return f
		}
		qs.judgedLin = true
		if len(unb) != len(plain) {
			return vlib.Failf("boost-changes-hits@"+q.Kind, "%d hits with boost %v, %d without", len(plain), q.Boost, len(unb))
		}
		for _, k := range sortedKeysF(plain) {
			u, ok := unb[k]
			if !ok {
				return vlib.Failf("boost-changes-hits@"+q.Kind, "document %d is a hit only with boost %v", k, q.Boost)
			}
			if !relClose(plain[k], q.Boost*u, 1e-12) {
				return vlib.Failf("boost-not-linear@"+q.Kind, "document %d scores %v with boost %v and %v without: factor %v", k, plain[k], q.Boost, u, plain[k]/u)
			}
		}
	}
	// a compound scores (sum of its matching parts) * boost
	if q.Kind == "bool" || q.Kind == "match" {
		want, judged, f := e.ref(q)
		if f != nil {
			return f
		}
		if judged {
			qs.judgedSum = true
			for k := 0; k < x.n; k++ {
				w, okW := want[k]
				g, okG := plain[k]
				if okW != okG {
					return vlib.Failf("compound-hits@"+q.Kind, "document %d: hit=%v, the parts say hit=%v", k, okG, okW)
				}
				if okW && !relClose(w, g, 1e-12) {
					return vlib.Failf("compound-sum@"+q.Kind, "document %d scores %v, (sum of the matching parts) x boost = %v (ratio %v)", k, g, w, g/w)
				}
			}
		}
	}
	return nil
}

func sortedKeysF(m map[int]float64) []int {
	ks := make([]int, 0, len(m))
	for k := range m {
		ks = append(ks, k)
	}
	sort.Ints(ks)
	return ks
}

func TestC17Explain(t *testing.T) {
	vlib.Check(t, 45, 400, func(rt *rapid.T) {
		c := genExplainCase(rt)
		st := newExplainStats()
		f := propExplain(c, st)
		corpusHash := fmt.Sprintf("%x", vlib.Hash64(vlib.Canon(c.Corpus)))
		for i, qs := range st.perQuery {
			cls := []string{"explain", "explain:root:" + qs.kind}
			if qs.excluded != "" {
				desc, _ := vlib.IsKnown("C17", qs.excluded)
				ev.Known(qs.excluded, desc)
				ev.Case(corpusHash+vlib.Canon(c.Queries[i]), false, "explain:excluded:"+qs.excluded)
				continue
			}
			if qs.hits == 0 {
				cls = append(cls, "explain:no-hits")
			}
			if qs.judgedSum {
				cls = append(cls, "explain:compound-sum-judged")
			}
			if qs.judgedLin {
				cls = append(cls, "explain:root-boost-judged")
			}
			if qs.termDepth > 0 {
				cls = append(cls, fmt.Sprintf("explain:term-node-level:%d", qs.termDepth))
			}
			ev.Case(corpusHash+vlib.Canon(c.Queries[i]), qs.nontrivial, cls...)
			if qs.nontrivial && len(c.Corpus.Docs) <= 8 {
				ev.Sample(map[string]interface{}{"kind": "explain", "corpus": c.Corpus, "query": c.Queries[i], "term_nodes": qs.termNodes, "deepest_term_node_level": qs.termDepth}, true)
			}
		}
		for k, n := range st.kinds {
			ev.Class("explain:query-kind:"+k, n)
		}
		for k, n := range st.explStats.kinds {
			ev.Class("explain:node:"+orName(k), n)
		}
		ev.Evals(st.searches)
		ev.AddExtra("explain_nodes_reevaluated", st.nodes)
		ev.AddExtra("explain_idf_nodes", st.idfNodes)
		noteKnown(st.idfKnown)
		vlib.Report(rt, ev, "explain", c, f)
	})
}
