package c17

// Corpora with deleted documents.  Generators (b) and (c) compare the statistics leaves of an
// explanation with the live corpus and therefore run without deletions (a segment keeps counting
// its deleted documents until it is merged; which of the two a leaf shows is not fixed by the
// property).  What the property does fix also holds with deletions, whichever way an implementation
// counts: scores are finite and positive, the explanation derives the score, a document frequency
// never exceeds the collection size it is compared with, the statistics lie between those of the
// live documents and those of all documents ever written, an average length is an average (between
// the shortest and the longest field), and among the terms of one field the one reported in fewer
// documents weighs more.
//
// Added by the main agent after seeded change C17-3 (collection statistics minus ALL deleted
// documents of a segment, also those that never had the field: N drops below n and the unsigned
// N-n wraps) was missed: it needs deletions, which no generator produced.

import (
	"context"
	"fmt"
	"math"
	"sort"
	"testing"

	"github.com/blugelabs/bluge"
	"pgregory.net/rapid"

	"verifharness/vlib"
)

type DelCase struct {
	Corpus  Corpus `json:"corpus"`
	Deleted []int  `json:"deleted"` // indexes into Corpus.Docs, deleted in one batch after the corpus was written
}

type delStats struct {
	explStats
	queries, hits, termPairs int
	gapN, gapDF              int // leaves where "ever written" and "live" differ (the deletion is visible in the bound)
}

func genDelCase(t *rapid.T) DelCase {
	c := DelCase{Corpus: genCorpus(t)}
	n := len(c.Corpus.Docs)
	p := rapid.SampledFrom([]int{2, 3, 3, 5}).Draw(t, "deleteOneIn")
	for i := 0; i < n; i++ {
		if rapid.IntRange(0, p-1).Draw(t, "deleted") == 0 {
			c.Deleted = append(c.Deleted, i)
		}
	}
	if len(c.Deleted) == 0 {
		c.Deleted = []int{rapid.IntRange(0, n-1).Draw(t, "theDeleted")}
	}
	if len(c.Deleted) == n && n > 1 {
		c.Deleted = c.Deleted[1:]
	}
	return c
}

// remap rebuilds the document-number table of the reader (a fully deleted segment leaves the root).
func (x *idx) remap(n int) *vlib.Failure {
	x.docOf = map[uint64]int{}
	it, err := x.r.Search(context.Background(), bluge.NewTopNSearch(n+5, bluge.NewMatchAllQuery()))
	if err != nil {
		return vlib.Failf("harness-matchall", "%v", err)
	}
	for {
		m, err := it.Next()
		if err != nil {
			return vlib.Failf("harness-matchall", "%v", err)
		}
		if m == nil {
			return nil
		}
		id := ""
		if err := m.VisitStoredFields(func(field string, value []byte) bool {
			if field == "_id" {
				id = string(value)
			}
			return true
		}); err != nil {
			return vlib.Failf("harness-stored", "%v", err)
		}
		var k int
		if _, err := fmt.Sscanf(id, "d%d", &k); err != nil || k < 0 || k >= n {
			return vlib.Failf("harness-doc-id", "unexpected _id %q", id)
		}
		x.docOf[m.Number] = k
	}
}

func propDeletions(c DelCase, st *delStats) *vlib.Failure {
	x, f := buildIndex(c.Corpus)
	if f != nil {
		return f
	}
	defer x.close()
	gone := map[int]bool{}
	f = vlib.Watchdog("delete-batch", callTimeout, func() *vlib.Failure {
		b := bluge.NewBatch()
		for _, k := range c.Deleted {
			if k < 0 || k >= len(c.Corpus.Docs) {
				return vlib.Failf("harness-bad-case", "deleted index %d", k)
			}
			gone[k] = true
			b.Delete(bluge.Identifier(fmt.Sprintf("d%03d", k)))
		}
		if err := x.w.Batch(b); err != nil {
			return vlib.Failf("harness-batch", "%v", err)
		}
		_ = x.r.Close()
		r, err := x.w.Reader()
		if err != nil {
			return vlib.Failf("harness-reader", "%v", err)
		}
		x.r = r
		return x.remap(len(c.Corpus.Docs))
	})
	if f != nil {
		return f
	}
	if want := len(c.Corpus.Docs) - len(gone); len(x.docOf) != want {
		return vlib.Failf("match-all-after-delete", "match-all sees %d documents, %d were written and %d deleted", len(x.docOf), len(c.Corpus.Docs), len(gone))
	}
	live := Corpus{SegVer: c.Corpus.SegVer}
	for k, d := range c.Corpus.Docs {
		if gone[k] {
			d = Doc{} // keeps the indexes aligned; an empty document has no tokens
		}
		live.Docs = append(live.Docs, d)
	}
	for _, field := range textFields {
		ever, now := truthOf(c.Corpus, field), truthOf(live, field)
		minLen, maxLen := math.Inf(1), math.Inf(-1)
		for _, l := range ever.length {
			if l > 0 {
				minLen, maxLen = math.Min(minLen, float64(l)), math.Max(maxLen, float64(l))
			}
		}
		type seen struct{ n, N, idf float64 }
		perTerm := map[string]seen{}
		for _, term := range ever.terms() {
			q := func() bluge.Query { return bluge.NewTermQuery(term).SetField(field) }
			plain, f := x.run("term", q(), false)
			if f != nil {
				return f
			}
			expl, f := x.run("term", q(), true)
			if f != nil {
				return f
			}
			st.queries += 2
			where := fmt.Sprintf("term %q in field %q after deleting %v", term, field, c.Deleted)
			for k := range c.Corpus.Docs {
				_, got := plain[k]
				if want := now.tf[k][term] > 0; want != got {
					return vlib.Failf("term-match-set", "%s: document %d (deleted: %v) contains it %d times, hit=%v", where, k, gone[k], ever.tf[k][term], got)
				}
			}
			if len(expl) != len(plain) {
				return vlib.Failf("term-match-set", "%s: %d hits without and %d hits with explanation", where, len(plain), len(expl))
			}
			for _, k := range sortedKeys(plain) {
				h, e := plain[k], expl[k].Expl
				st.hits++
				w := fmt.Sprintf("%s, document %d (tf %d, length %d); documents with the field: %d live, %d ever written; containing the term: %d live, %d ever", where, k, now.tf[k][term], now.length[k], now.n, ever.n, now.df[term], ever.df[term])
				if !finitePos(h.Score) {
					return vlib.Failf("score-not-finite-positive", "score %v; %s", h.Score, w)
				}
				if e == nil {
					return vlib.Failf("explain-missing", "no explanation; %s", w)
				}
				if expl[k].Score != e.Value {
					return vlib.Failf("explain-value-vs-score", "explained run: Score %v, Explanation.Value %v; %s", expl[k].Score, e.Value, w)
				}
				if math.Abs(e.Value-h.Score) > 1e-12*math.Abs(h.Score) {
					return vlib.Failf("explain-value-vs-score", "Explanation.Value %v, score of the unexplained run %v; %s", e.Value, h.Score, w)
				}
				if f := checkExplanation(e, nil, &st.explStats, knownIdf); f != nil {
					f.Msg += "; " + w
					return f
				}
				idf, _ := childByName(e, "idf")
				tf, _ := childByName(e, "tf")
				if idf == nil || tf == nil || !finitePos(idf.Value) {
					return vlib.Failf("explain-missing-child", "term explanation without a positive idf child and a tf child; %s", w)
				}
				nL, _ := childByName(idf, "n")
				NL, _ := childByName(idf, "N")
				avg, _ := childByName(tf, "avgdl")
				dl, _ := childByName(tf, "dl")
				fr, _ := childByName(tf, "freq")
				if nL == nil || NL == nil || avg == nil || dl == nil || fr == nil {
					return vlib.Failf("explain-missing-child", "term explanation without n, N, avgdl, dl or freq leaves; %s", w)
				}
				switch {
				case nL.Value > NL.Value:
					return vlib.Failf("stats-df-exceeds-collection", "idf computed from n=%v documents containing the term out of N=%v documents with the field; %s", nL.Value, NL.Value, w)
				case NL.Value < float64(now.n) || NL.Value > float64(ever.n):
					return vlib.Failf("stats-collection-size", "N=%v is neither the %d live documents with the field nor the %d ever written, nor in between; %s", NL.Value, now.n, ever.n, w)
				case nL.Value < float64(now.df[term]) || nL.Value > float64(ever.df[term]):
					return vlib.Failf("stats-document-frequency", "n=%v is neither the %d live documents containing the term nor the %d ever written, nor in between; %s", nL.Value, now.df[term], ever.df[term], w)
				case avg.Value < minLen*(1-1e-12) || avg.Value > maxLen*(1+1e-12):
					return vlib.Failf("stats-average-length", "avgdl=%v is not an average of field lengths: they range from %v to %v; %s", avg.Value, minLen, maxLen, w)
				case dl.Value != float64(now.length[k]):
					return vlib.Failf("explain-leaf@dl", "dl leaf %v, the document's field has %d tokens; %s", dl.Value, now.length[k], w)
				case fr.Value != float64(now.tf[k][term]):
					return vlib.Failf("explain-leaf@freq", "freq leaf %v, the document has the term %d times; %s", fr.Value, now.tf[k][term], w)
				}
				if ever.n != now.n {
					st.gapN++
				}
				if ever.df[term] != now.df[term] {
					st.gapDF++
				}
				if prev, ok := perTerm[term]; ok && (prev.idf != idf.Value || prev.n != nL.Value || prev.N != NL.Value) {
					return vlib.Failf("idf-differs-between-documents", "idf %v (n %v, N %v) and %v (n %v, N %v) for the same term; %s", prev.idf, prev.n, prev.N, idf.Value, nL.Value, NL.Value, w)
				}
				perTerm[term] = seen{nL.Value, NL.Value, idf.Value}
			}
		}
		// a rarer term weighs more: by the document frequencies the scorer itself reports
		var ts []string
		for t := range perTerm {
			ts = append(ts, t)
		}
		sort.Strings(ts)
		for i, a := range ts {
			for _, b := range ts[i+1:] {
				A, B := perTerm[a], perTerm[b]
				if A.N != B.N {
					return vlib.Failf("stats-collection-size", "field %q after deleting %v: term %q is scored against N=%v, term %q against N=%v", field, c.Deleted, a, A.N, b, B.N)
				}
				st.termPairs++
				if (A.n < B.n && !(A.idf > B.idf)) || (A.n > B.n && !(A.idf < B.idf)) || (A.n == B.n && A.idf != B.idf) {
					return vlib.Failf("law-inverted@docfreq", "field %q after deleting %v: term %q in n=%v documents has idf %v, term %q in n=%v documents has idf %v (N=%v)", field, c.Deleted, a, A.n, A.idf, b, B.n, B.idf, A.N)
				}
			}
		}
	}
	return nil
}

func TestC17Deletions(t *testing.T) {
	vlib.Check(t, 150, 1500, func(rt *rapid.T) {
		c := genDelCase(rt)
		var st delStats
		f := propDeletions(c, &st)
		nt := st.gapN > 0 && st.gapDF > 0 && st.termPairs > 0
		cls := []string{"deletions"}
		if len(c.Corpus.Cuts) > 0 {
			cls = append(cls, "deletions:multi-segment")
		}
		ev.Case(vlib.Canon(c), nt, cls...)
		ev.Evals(st.queries)
		ev.AddExtra("deletions_term_hits_checked", st.hits)
		ev.AddExtra("deletions_hits_where_live_and_ever_written_collection_size_differ", st.gapN)
		ev.AddExtra("deletions_hits_where_live_and_ever_written_document_frequency_differ", st.gapDF)
		ev.AddExtra("deletions_term_pairs_docfreq_law", st.termPairs)
		noteKnown(st.idfKnown)
		if len(c.Corpus.Docs) <= 6 {
			ev.Sample(map[string]interface{}{"kind": "deletions", "case": c}, nt)
		}
		vlib.Report(rt, ev, "deletions", c, f)
	})
}
