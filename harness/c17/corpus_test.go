package c17

// (b) generated corpora searched with TermQuery: the BM25 laws end to end, the explanation of
// every hit against the true statistics of the corpus.  Also the corpus model shared with (c).

import (
	"context"
	"fmt"
	"math"
	"math/big"
	"sort"
	"strings"
	"testing"
	"time"

	"github.com/blugelabs/bluge"
	"github.com/blugelabs/bluge/search"
	"pgregory.net/rapid"

	"verifharness/vlib"
)

// small vocabulary; shared prefixes and near-equal spellings feed prefix, wildcard, regexp and fuzzy queries
var vocab = []string{"wa", "wb", "wc", "wd", "wab", "wac", "wbd", "xa", "xb", "xyz"}

var textFields = []string{"body", "title"}

type Doc struct {
	Body  []string  `json:"body,omitempty"`
	Title []string  `json:"title,omitempty"`
	Num   []float64 `json:"num,omitempty"`
	Day   int       `json:"day,omitempty"` // days after 2000-01-01; 0 = no date
	Loc   []float64 `json:"loc,omitempty"` // lon, lat
}

func (d Doc) tokens(field string) []string {
	if field == "title" {
		return d.Title
	}
	return d.Body
}

type Corpus struct {
	Docs   []Doc `json:"docs"`
	Cuts   []int `json:"cuts,omitempty"` // a new batch (= segment, merging is off) starts at these doc indexes
	SegVer int   `json:"seg_ver"`
	// All: every document also carries a composite field "_all" over body and title (the statistics
	// of body and title must not change by that)
	All bool `json:"all,omitempty"`
}

var dayZero = time.Date(2000, 1, 1, 12, 0, 0, 0, time.UTC)

func genTokens(t *rapid.T, label string, allowEmpty bool) []string {
	var n int
	switch rapid.IntRange(0, 11).Draw(t, label+"LenKind") {
	case 0:
		n = rapid.IntRange(20, 120).Draw(t, label+"Long")
	case 1:
		if allowEmpty {
			n = 0
		} else {
			n = 1
		}
	default:
		n = rapid.IntRange(1, 8).Draw(t, label+"Len")
	}
	// a document draws from a small sub-vocabulary so that terms repeat
	k := rapid.IntRange(1, 5).Draw(t, label+"Distinct")
	sub := make([]string, k)
	for i := range sub {
		sub[i] = rapid.SampledFrom(vocab).Draw(t, label+"Word")
	}
	out := make([]string, n)
	for i := range out {
		out[i] = sub[rapid.IntRange(0, k-1).Draw(t, label+"Pick")]
	}
	return out
}

func distinctWordsN(t *rapid.T, n int) []string {
	perm := rapid.Permutation(vocab).Draw(t, "distinctWords")
	return append([]string(nil), perm[:n]...)
}

func genCorpus(t *rapid.T) Corpus {
	n := rapid.IntRange(3, 28).Draw(t, "nDocs")
	// segment version 2 compresses with zstd and costs about five times as much per segment
	c := Corpus{SegVer: rapid.SampledFrom([]int{1, 1, 1, 1, 1, 1, 1, 2}).Draw(t, "segVer")}
	for i := 0; i < n; i++ {
		var d Doc
		if i > 0 && rapid.IntRange(0, 99).Draw(t, "variant") < 50 {
			// a variant of an earlier document: exactly one statistic moves by one unit
			src := c.Docs[rapid.IntRange(0, i-1).Draw(t, "variantOf")]
			d.Body = append([]string(nil), src.Body...)
			d.Title = append([]string(nil), src.Title...)
			field := rapid.SampledFrom(textFields).Draw(t, "variantField")
			toks := &d.Body
			if field == "title" {
				toks = &d.Title
			}
			switch rapid.IntRange(0, 2).Draw(t, "variantOp") {
			case 0: // same length, one more occurrence of a term (replaces another token)
				if len(*toks) > 0 {
					p := rapid.IntRange(0, len(*toks)-1).Draw(t, "variantPos")
					(*toks)[p] = rapid.SampledFrom(vocab).Draw(t, "variantWord")
				}
			case 1: // one token longer
				*toks = append(*toks, rapid.SampledFrom(vocab).Draw(t, "variantAppend"))
			default: // identical text
			}
		} else {
			d.Body = genTokens(t, "body", true)
			if rapid.Bool().Draw(t, "hasTitle") {
				d.Title = genTokens(t, "title", false)
				if len(d.Title) > 6 {
					d.Title = d.Title[:6]
				}
			}
		}
		switch rapid.IntRange(0, 9).Draw(t, "numKind") {
		case 0, 1:
		case 2:
			d.Num = []float64{float64(rapid.IntRange(0, 40).Draw(t, "num")), float64(rapid.IntRange(0, 40).Draw(t, "num2"))}
		default:
			d.Num = []float64{float64(rapid.IntRange(0, 40).Draw(t, "num"))}
		}
		if rapid.Bool().Draw(t, "hasDay") {
			d.Day = rapid.IntRange(1, 3000).Draw(t, "day")
		}
		if rapid.IntRange(0, 2).Draw(t, "hasLoc") == 0 {
			d.Loc = []float64{float64(rapid.IntRange(-20, 20).Draw(t, "lon")) / 2, float64(rapid.IntRange(-20, 20).Draw(t, "lat")) / 2}
		}
		c.Docs = append(c.Docs, d)
	}
	if rapid.IntRange(0, 9).Draw(t, "dfFixup") < 8 {
		// make sure two terms one document frequency apart share a document with equal tf:
		// a document holding both once, then single-token documents until the frequencies differ by one
		ws := distinctWordsN(t, 2)
		c.Docs = append(c.Docs, Doc{Body: []string{ws[0], ws[1]}})
		df := func(w string) int {
			k := 0
			for _, d := range c.Docs {
				for _, x := range d.Body {
					if x == w {
						k++
						break
					}
				}
			}
			return k
		}
		a, b := ws[0], ws[1]
		if df(a) < df(b) {
			a, b = b, a
		}
		for i := 0; i < 6 && df(a)-df(b) != 1; i++ {
			if df(a) == df(b) {
				c.Docs = append(c.Docs, Doc{Body: []string{a}})
			} else {
				c.Docs = append(c.Docs, Doc{Body: []string{b}})
			}
		}
		n = len(c.Docs)
	}
	if n >= 4 {
		switch rapid.IntRange(0, 4).Draw(t, "cuts") {
		case 0:
			c.Cuts = []int{rapid.IntRange(1, n-1).Draw(t, "cut1")}
		case 1:
			a := rapid.IntRange(1, n-2).Draw(t, "cut1")
			c.Cuts = []int{a, rapid.IntRange(a+1, n-1).Draw(t, "cut2")}
		}
	}
	c.All = rapid.IntRange(0, 2).Draw(t, "compositeAll") == 0
	return c
}

// ---------------------------------------------------------------------------------------------
// index

type idx struct {
	w     *bluge.Writer
	r     *bluge.Reader
	docOf map[uint64]int // document number of the reader -> index into Corpus.Docs
	n     int
}

func (x *idx) close() {
	if x.r != nil {
		_ = x.r.Close()
	}
	if x.w != nil {
		_ = x.w.Close()
	}
}

const callTimeout = 60 * time.Second

func buildIndex(c Corpus) (*idx, *vlib.Failure) {
	x := &idx{docOf: map[uint64]int{}, n: len(c.Docs)}
	f := vlib.Watchdog("index-build", callTimeout, func() *vlib.Failure {
		cfg := bluge.InMemoryOnlyConfig()
		ic := cfg.VerifIndexConfig()
		// no merging: scores are only comparable across documents while the collection statistics
		// are those of the segments as written (ice rewrites the length sum when it merges)
		ic.MergePlanOptions.MaxSegmentSize = 1
		ic.MinSegmentsForInMemoryMerge = 1 << 30
		if c.SegVer == 2 {
			ic.SegmentVersion = 2
		}
		cfg = cfg.VerifWithIndexConfig(ic)
		w, err := bluge.OpenWriter(cfg)
		if err != nil {
			return vlib.Failf("harness-open-writer", "%v", err)
		}
		x.w = w
		cut := map[int]bool{}
		for _, k := range c.Cuts {
			cut[k] = true
		}
		b := bluge.NewBatch()
		pending := 0
		flush := func() *vlib.Failure {
			if pending == 0 {
				return nil
			}
			if err := w.Batch(b); err != nil {
				return vlib.Failf("harness-batch", "%v", err)
			}
			b = bluge.NewBatch()
			pending = 0
			return nil
		}
		for i, d := range c.Docs {
			if cut[i] {
				if f := flush(); f != nil {
					return f
				}
			}
			doc := bluge.NewDocument(fmt.Sprintf("d%03d", i))
			if len(d.Body) > 0 {
				doc.AddField(bluge.NewTextField("body", strings.Join(d.Body, " ")).SearchTermPositions())
			}
			if len(d.Title) > 0 {
				doc.AddField(bluge.NewTextField("title", strings.Join(d.Title, " ")).SearchTermPositions())
			}
			for _, v := range d.Num {
				doc.AddField(bluge.NewNumericField("num", v))
			}
			if d.Day > 0 {
				doc.AddField(bluge.NewDateTimeField("day", dayZero.AddDate(0, 0, d.Day)))
			}
			if len(d.Loc) == 2 {
				doc.AddField(bluge.NewGeoPointField("loc", d.Loc[0], d.Loc[1]))
			}
			if c.All {
				doc.AddField(bluge.NewCompositeFieldIncluding("_all", []string{"body", "title"}))
			}
			b.Insert(doc)
			pending++
		}
		if f := flush(); f != nil {
			return f
		}
		r, err := w.Reader()
		if err != nil {
			return vlib.Failf("harness-reader", "%v", err)
		}
		x.r = r
		it, err := r.Search(context.Background(), bluge.NewTopNSearch(len(c.Docs)+5, bluge.NewMatchAllQuery()))
		if err != nil {
			return vlib.Failf("harness-matchall", "%v", err)
		}
		for {
			m, err := it.Next()
			if err != nil {
				return vlib.Failf("harness-matchall", "%v", err)
			}
			if m == nil {
				break
			}
			id := ""
			if err := m.VisitStoredFields(func(field string, value []byte) bool {
				if field == "_id" {
					id = string(value)
				}
				return true
			}); err != nil {
				return vlib.Failf("harness-stored", "%v", err)
			}
			var k int
			if _, err := fmt.Sscanf(id, "d%d", &k); err != nil || k < 0 || k >= len(c.Docs) {
				return vlib.Failf("harness-doc-id", "unexpected _id %q", id)
			}
			x.docOf[m.Number] = k
		}
		if len(x.docOf) != len(c.Docs) {
			return vlib.Failf("harness-doc-count", "match-all sees %d documents, %d were written", len(x.docOf), len(c.Docs))
		}
		return nil
	})
	if f != nil {
		x.close()
		return nil, f
	}
	return x, nil
}

type hit struct {
	Score float64
	Expl  *search.Explanation
}

// run executes q and returns the hits by index into Corpus.Docs.
func (x *idx) run(site string, q bluge.Query, explain bool) (map[int]hit, *vlib.Failure) {
	out := map[int]hit{}
	f := vlib.Watchdog(site, callTimeout, func() *vlib.Failure {
		req := bluge.NewTopNSearch(x.n+5, q)
		if explain {
			req = req.ExplainScores()
		}
		it, err := x.r.Search(context.Background(), req)
		if err != nil {
			return vlib.Failf("search-error@"+site, "%v", err)
		}
		for {
			m, err := it.Next()
			if err != nil {
				return vlib.Failf("search-error@"+site, "%v", err)
			}
			if m == nil {
				return nil
			}
			k, ok := x.docOf[m.Number]
			if !ok {
				return vlib.Failf("unknown-hit@"+site, "hit with document number %d that match-all did not return", m.Number)
			}
			if _, dup := out[k]; dup {
				return vlib.Failf("duplicate-hit@"+site, "document %d returned twice", k)
			}
			out[k] = hit{Score: m.Score, Expl: m.Explanation}
		}
	})
	return out, f
}

// ---------------------------------------------------------------------------------------------
// ground truth

type fieldTruth struct {
	n      int            // documents with at least one token in the field
	sum    int            // tokens over all documents
	df     map[string]int // documents containing the term
	tf     []map[string]int
	length []int
}

func truthOf(c Corpus, field string) *fieldTruth {
	ft := &fieldTruth{df: map[string]int{}}
	for _, d := range c.Docs {
		toks := d.tokens(field)
		m := map[string]int{}
		for _, w := range toks {
			m[w]++
		}
		for w := range m {
			ft.df[w]++
		}
		ft.tf = append(ft.tf, m)
		ft.length = append(ft.length, len(toks))
		if len(toks) > 0 {
			ft.n++
			ft.sum += len(toks)
		}
	}
	return ft
}

func (ft *fieldTruth) terms() []string {
	var ts []string
	for w := range ft.df {
		ts = append(ts, w)
	}
	sort.Strings(ts)
	return ts
}

// ---------------------------------------------------------------------------------------------
// the case

type CorpusCase struct {
	Corpus Corpus    `json:"corpus"`
	Boosts []float64 `json:"boosts"` // per vocabulary word: the boost of the boosted run
}

type corpusStats struct {
	explStats
	queries   int
	hits      int
	pairs     map[string]int // law -> pairs judged
	unitPairs map[string]int // law -> pairs one unit apart
	strict    int
	maxErrUlp float64
}

func genCorpusCase(t *rapid.T) CorpusCase {
	c := CorpusCase{Corpus: genCorpus(t)}
	for range vocab {
		c.Boosts = append(c.Boosts, rapid.SampledFrom([]float64{2, 3, 0.5, 10, 0.1, 1.5, 7.25, 1e-3, 1e6, 1.0 / 3}).Draw(t, "boost"))
	}
	return c
}

func sortedKeys(m map[int]hit) []int {
	ks := make([]int, 0, len(m))
	for k := range m {
		ks = append(ks, k)
	}
	sort.Ints(ks)
	return ks
}

func vocabIndex(w string) int {
	for i, v := range vocab {
		if v == w {
			return i
		}
	}
	return 0
}

func propCorpus(c CorpusCase, st *corpusStats) *vlib.Failure {
	st.pairs, st.unitPairs = map[string]int{}, map[string]int{}
	x, f := buildIndex(c.Corpus)
	if f != nil {
		return f
	}
	defer x.close()
	for _, field := range textFields {
		ft := truthOf(c.Corpus, field)
		terms := ft.terms()
		scores := map[string]map[int]float64{} // term -> doc -> score of the unboosted run
		exacts := map[string]map[int]*big.Float{}
		idfs := map[string]float64{}
		for _, term := range terms {
			site := "term"
			mk := func(boost float64) bluge.Query {
				q := bluge.NewTermQuery(term).SetField(field)
				if boost != 0 {
					q.SetBoost(boost)
				}
				return q
			}
			plain, f := x.run(site, mk(0), false)
			if f != nil {
				return f
			}
			expl, f := x.run(site, mk(0), true)
			if f != nil {
				return f
			}
			beta := 2.0
			if i := vocabIndex(term); i < len(c.Boosts) && c.Boosts[i] > 0 {
				beta = c.Boosts[i]
			}
			boosted, f := x.run(site, mk(beta), false)
			if f != nil {
				return f
			}
			boostedExpl, f := x.run(site, mk(beta), true)
			if f != nil {
				return f
			}
			st.queries += 4
			where := fmt.Sprintf("term %q in field %q", term, field)
			// the hits are the documents containing the term
			for k := range c.Corpus.Docs {
				_, got := plain[k]
				if want := ft.tf[k][term] > 0; want != got {
					return vlib.Failf("term-match-set", "%s: document %d contains it %d times, hit=%v", where, k, ft.tf[k][term], got)
				}
			}
			for _, other := range []map[int]hit{expl, boosted, boostedExpl} {
				if len(other) != len(plain) {
					return vlib.Failf("term-match-set", "%s: %d hits without and %d hits with explanation/boost", where, len(plain), len(other))
				}
			}
			scores[term] = map[int]float64{}
			exacts[term] = map[int]*big.Float{}
			for _, k := range sortedKeys(plain) {
				h := plain[k]
				st.hits++
				w := fmt.Sprintf("%s, document %d (tf %d, length %d; N %d, df %d, sum of lengths %d)", where, k, ft.tf[k][term], ft.length[k], ft.n, ft.df[term], ft.sum)
				if !finitePos(h.Score) {
					return vlib.Failf("score-not-finite-positive", "score %v; %s", h.Score, w)
				}
				truth := &termTruth{Freq: float64(ft.tf[k][term]), DL: float64(ft.length[k]), DF: float64(ft.df[term]), N: float64(ft.n),
					SumTTF: float64(ft.sum), K1: 1.2, B: 0.75, Boost: 1}
				for _, run := range []struct {
					h     hit
					plain float64
					boost float64
				}{{expl[k], h.Score, 1}, {boostedExpl[k], boosted[k].Score, beta}} {
					e := run.h.Expl
					if e == nil {
						return vlib.Failf("explain-missing", "no explanation; %s", w)
					}
					if run.h.Score != e.Value {
						return vlib.Failf("explain-value-vs-score", "explained run: Score %v, Explanation.Value %v; %s", run.h.Score, e.Value, w)
					}
					if math.Abs(e.Value-run.plain) > 1e-12*math.Abs(run.plain) {
						return vlib.Failf("explain-value-vs-score", "Explanation.Value %v, score of the unexplained run %v (boost %v); %s", e.Value, run.plain, run.boost, w)
					}
					tr := *truth
					tr.Boost = run.boost
					if f := checkExplanation(e, &tr, &st.explStats, knownIdf); f != nil {
						f.Msg += "; " + w
						return f
					}
				}
				idfNode, _ := childByName(expl[k].Expl, "idf")
				if idfNode == nil || !finitePos(idfNode.Value) {
					return vlib.Failf("explain-missing-child", "term explanation without a positive idf child; %s", w)
				}
				if prev, ok := idfs[term]; ok && prev != idfNode.Value {
					return vlib.Failf("idf-differs-between-documents", "idf %v and %v for the same term; %s", prev, idfNode.Value, w)
				}
				idfs[term] = idfNode.Value
				idf := idfNode.Value
				// the score is idf * tf: the formula of the tf node's own message on the true statistics
				tfNode, _ := childByName(expl[k].Expl, "tf")
				if tfNode == nil {
					return vlib.Failf("explain-missing-child", "term explanation without a tf child; %s", w)
				}
				tfv, f := formulaValue(tfNode, map[string]float64{"freq": truth.Freq, "dl": truth.DL})
				if f != nil {
					return f
				}
				e := bmul(bf(idf), tfv)
				errUlp := math.Abs(f64(bsub(bf(h.Score), e))) / ulp(idf)
				if errUlp > st.maxErrUlp {
					st.maxErrUlp = errUlp
				}
				if errUlp > tolUlp {
					return vlib.Failf("score-vs-formula", "score %v but idf*tf of the corpus statistics = %v (%.3g ulp of the weight apart); %s", h.Score, f64(e), errUlp, w)
				}
				// boost scales linearly
				sb := boosted[k].Score
				if !finitePos(sb) {
					return vlib.Failf("score-not-finite-positive", "score %v with boost %v; %s", sb, beta, w)
				}
				if d := math.Abs(f64(bsub(bquo(bf(sb), bf(beta)), bf(h.Score)))); d > 2*tolUlp*ulp(idf) {
					return vlib.Failf("boost-not-linear@term", "score %v with boost %v, %v without: %v per unit of boost; %s", sb, beta, h.Score, sb/beta, w)
				}
				scores[term][k] = h.Score
				exacts[term][k] = e
			}
		}
		// laws between documents: same term, exactly one of {tf, length} differs
		for _, term := range terms {
			ds := make([]int, 0, len(scores[term]))
			for k := range scores[term] {
				ds = append(ds, k)
			}
			sort.Ints(ds)
			for _, a := range ds {
				for _, b := range ds {
					tfa, tfb, la, lb := ft.tf[a][term], ft.tf[b][term], ft.length[a], ft.length[b]
					var law string
					switch {
					case la == lb && tfa < tfb: // a should score lower
						law = "freq"
						if tfb-tfa == 1 {
							st.unitPairs[law]++
						}
					case tfa == tfb && la > lb: // the longer one (a) should score lower
						law = "len"
						if la-lb == 1 {
							st.unitPairs[law]++
						}
					default:
						continue
					}
					st.pairs[law]++
					strict, f := lawPair(law, scores[term][a], scores[term][b], exacts[term][a], exacts[term][b], idfs[term],
						fmt.Sprintf("term %q field %q: document %d (tf %d, length %d) vs document %d (tf %d, length %d)", term, field, a, tfa, la, b, tfb, lb))
					if f != nil {
						return f
					}
					if strict {
						st.strict++
					}
				}
			}
		}
		// law between terms: same document, same tf, different document frequency
		for _, t1 := range terms {
			for _, t2 := range terms {
				if !(ft.df[t1] > ft.df[t2]) { // t1 is the more frequent term: it should weigh less
					continue
				}
				if !(idfs[t1] < idfs[t2]) {
					return vlib.Failf("law-not-strict@idf", "field %q: term %q (df %d) has idf %v, term %q (df %d) has idf %v", field, t1, ft.df[t1], idfs[t1], t2, ft.df[t2], idfs[t2])
				}
				for k := range c.Corpus.Docs {
					s1, ok1 := scores[t1][k]
					if !ok1 {
						continue
					}
					s2, ok := scores[t2][k]
					if !ok || ft.tf[k][t1] != ft.tf[k][t2] {
						continue
					}
					st.pairs["df"]++
					if ft.df[t1]-ft.df[t2] == 1 {
						st.unitPairs["df"]++
					}
					strict, f := lawPair("df", s1, s2, exacts[t1][k], exacts[t2][k], idfs[t2],
						fmt.Sprintf("field %q document %d (tf %d of both): term %q df %d vs term %q df %d", field, k, ft.tf[k][t1], t1, ft.df[t1], t2, ft.df[t2]))
					if f != nil {
						return f
					}
					if strict {
						st.strict++
					}
				}
			}
		}
	}
	return nil
}

func TestC17Corpus(t *testing.T) {
	vlib.Check(t, 30, 400, func(rt *rapid.T) {
		c := genCorpusCase(rt)
		var st corpusStats
		f := propCorpus(c, &st)
		nt := st.unitPairs["freq"] > 0 && st.unitPairs["len"] > 0 && st.unitPairs["df"] > 0
		cls := []string{"corpus"}
		if len(c.Corpus.Cuts) > 0 {
			cls = append(cls, "corpus:multi-segment")
		}
		if c.Corpus.SegVer == 2 {
			cls = append(cls, "corpus:segment-v2")
		}
		ev.Case(vlib.Canon(c), nt, cls...)
		ev.Evals(st.queries)
		for _, law := range []string{"freq", "len", "df"} {
			ev.AddExtra("corpus_pairs_"+law, st.pairs[law])
			ev.AddExtra("corpus_unit_step_pairs_"+law, st.unitPairs[law])
		}
		ev.AddExtra("corpus_pairs_strict_order_demanded", st.strict)
		ev.AddExtra("corpus_term_hits_checked", st.hits)
		ev.AddExtra("corpus_explanation_nodes_reevaluated", st.nodes)
		noteKnown(st.idfKnown)
		if len(c.Corpus.Docs) <= 6 {
			ev.Sample(map[string]interface{}{"kind": "corpus", "case": c, "pairs": st.pairs, "unit_pairs": st.unitPairs}, nt)
		}
		vlib.Report(rt, ev, "corpus", c, f)
	})
}
