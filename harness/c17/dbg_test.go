package c17

import (
	"encoding/json"
	"fmt"
	"os"
	"testing"

	"verifharness/vlib"
)

func TestDbg(t *testing.T) {
	b, _ := os.ReadFile(os.Getenv("DBG_REPLAY"))
	var r vlib.Replay
	_ = json.Unmarshal(b, &r)
	var c ExplainCase
	_ = json.Unmarshal(r.Case, &c)
	x, f := buildIndex(c.Corpus)
	if f != nil {
		t.Fatal(f)
	}
	defer x.close()
	var qi, doc int
	fmt.Sscanf(os.Getenv("DBG_Q"), "%d,%d", &qi, &doc)
	q := c.Queries[qi]
	hits, _ := x.run("dbg", q.build(), true)
	fmt.Println(vlib.Canon(q))
	fmt.Println(hits[doc].Score)
	fmt.Println(hits[doc].Expl)
}
