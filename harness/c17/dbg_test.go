package c17

import (
	"encoding/json"
	"fmt"
	"os"
	"testing"

	"verifharness/vlib"
)

func subtrees(q Q, out *[]Q) {
	*out = append(*out, q)
	for _, l := range [][]Q{q.Must, q.Should, q.MustNot} {
		for _, c := range l {
			subtrees(c, out)
		}
	}
}

func TestDbg(t *testing.T) {
	b, _ := os.ReadFile(os.Getenv("DBG_REPLAY"))
	var r vlib.Replay
	_ = json.Unmarshal(b, &r)
	var c ExplainCase
	_ = json.Unmarshal(r.Case, &c)
	var qi, pi int
	fmt.Sscanf(os.Getenv("DBG_Q"), "%d,%d", &qi, &pi)
	q := c.Queries[qi]
	var subs []Q
	subtrees(c.Queries[pi], &subs)
	for _, p := range subs {
		for _, pex := range []bool{false, true} {
			x, f := buildIndex(c.Corpus)
			if f != nil {
				t.Fatal(f)
			}
			before, _ := x.run("dbg", q.build(), false)
			_, f = x.run("dbg", p.build(), pex)
			after, _ := x.run("dbg", q.build(), false)
			same := len(before) == len(after)
			for k, h := range before {
				if after[k].Score != h.Score {
					same = false
				}
			}
			if !same {
				fmt.Println("POISON explain=", pex, len(vlib.Canon(p)), vlib.Canon(p), f)
			}
			x.close()
		}
	}
}
