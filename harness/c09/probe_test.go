package c09

import (
	"fmt"
	"testing"

	"github.com/blugelabs/bluge/search"

	"verifharness/vlib"
)

// Deterministic probe for finding #6 (DESIGN.md §6): TopNSearch.Before reversed the caller's
// search.SortOrder in place (SortOrder.Copy was shallow), so a search-before chain that re-uses one
// SortOrder value got its second page in the wrong direction and the caller's order stayed reversed.

func probeCase() IndexCase {
	s := func(v string) *string { return &v }
	var ops []Op
	vals := []*string{s("b"), s("a"), nil, s("c"), s("a"), s("b"), nil, s("c")}
	for i, v := range vals {
		ops = append(ops, Op{Kind: "ins", Doc: Doc{ID: fmt.Sprintf("p%d", i), Body: "aa", Cat: "x", K1: v}})
	}
	return IndexCase{
		Index:   IndexSpec{Batches: [][]Op{ops[:5], ops[5:]}},
		Queries: []QSpec{{Kind: "all"}},
		Chains:  []Chain{{Q: 0, Keys: []Key{{F: "k1"}}, All: true, Shared: true}},
	}
}

func probeSharedOrder() *vlib.Failure {
	c := probeCase()
	var cs caseStats
	if f := propIndex(c, &cs); f != nil {
		return f
	}
	// the caller's order object must still mean what it meant before a search-before used it
	return vlib.Guard("probe-shared-order", func() *vlib.Failure {
		o, f := openIndex(c.Index)
		if f != nil {
			return f
		}
		defer o.cleanup()
		e := &env{o: o, qs: c.Queries}
		if f := e.init(); f != nil {
			return f
		}
		keys := []Key{{F: "k1"}, {F: "_id"}}
		full, f := e.full(0)
		if f != nil {
			return f
		}
		exp := ranked(full, keys)
		shared, _ := buildOrder(keys, false)
		first, f := e.topN(buildQuery(c.Queries[0]), len(exp), 0, shared, nil, nil, nil)
		if f != nil {
			return f
		}
		if f := compareSlice("wrong-slice", "probe: complete listing", exp, first); f != nil {
			return f
		}
		if _, f := e.topN(buildQuery(c.Queries[0]), 2, 0, shared, nil, nil, first[len(first)-1].sv); f != nil {
			return f
		}
		again, f := e.topN(buildQuery(c.Queries[0]), len(exp), 0, shared, nil, nil, nil)
		if f != nil {
			return f
		}
		if f := compareSlice("before-mutates-sort-order", "probe: listing with the same search.SortOrder value after one search-before request used it", exp, again); f != nil {
			return f
		}
		// a copy must be independent of the original
		orig := search.SortOrder{search.SortBy(search.Field("k1"))}
		cp := orig.Copy()
		cp.Reverse()
		third, f := e.topN(buildQuery(c.Queries[0]), len(exp), 0, append(orig, search.SortBy(search.Field("_id"))), nil, nil, nil)
		if f != nil {
			return f
		}
		return compareSlice("before-mutates-sort-order", "probe: listing with a search.SortOrder after its Copy() was reversed", exp, third)
	})
}

func TestC09SharedOrderProbe(t *testing.T) {
	f := probeSharedOrder()
	ev.Evals(1)
	ev.Class("probe:shared-order", 1)
	if f != nil && f.Key != "before-mutates-sort-order" {
		vlib.Report(t, ev, "shared-order", struct{}{}, f)
		return
	}
	vlib.KnownProbe(t, ev, "shared-order", "before-mutates-sort-order", struct{}{}, f)
}

// Deterministic probe for the known finding keyEmptyKw: three documents (k1 = "", k1 = "a", no
// k1), sorted ascending with missing values first: the document without the field must come
// first; the shipped sentinel ("\x00") puts the empty string in front of it.
func probeEmptyKeyword() *vlib.Failure {
	s := func(v string) *string { return &v }
	var ops []Op
	for i, v := range []*string{s(""), s("a"), nil} {
		ops = append(ops, Op{Kind: "ins", Doc: Doc{ID: fmt.Sprintf("e%d", i), Body: "aa", Cat: "x", K1: v}})
	}
	c := IndexCase{
		Index:   IndexSpec{Batches: [][]Op{ops}},
		Queries: []QSpec{{Kind: "all"}},
		Reqs: []Req{
			{Q: 0, Keys: []Key{{F: "k1", MF: true}}, N: 10},
			{Q: 0, Keys: []Key{{F: "k1", Desc: true}}, N: 10},
		},
	}
	judgeEmptyKw = true
	defer func() { judgeEmptyKw = false }()
	var cs caseStats
	return propIndex(c, &cs)
}

func TestC09EmptyKeywordProbe(t *testing.T) {
	f := probeEmptyKeyword()
	ev.Evals(1)
	ev.Class("probe:empty-keyword", 1)
	if f != nil && f.Key != "wrong-slice" {
		vlib.Report(t, ev, "index", struct{}{}, f)
		return
	}
	vlib.KnownProbe(t, ev, "index", keyEmptyKw, struct{}{}, f)
}
