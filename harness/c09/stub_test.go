package c09

import (
	"context"
	"encoding/binary"
	"fmt"
	"math"
	"sort"
	"strings"
	"testing"

	"github.com/blugelabs/bluge/search"
	"github.com/blugelabs/bluge/search/collector"
	"pgregory.net/rapid"

	"verifharness/vlib"
)

// The collector driven directly: a stub searcher delivers matches number 1..len with generated
// scores; two further sort sources read generated small integers ("aux", may be missing) keyed by
// the document number, "num" is the document number itself (makes an order total).

type SKey struct {
	F    string `json:"f"` // score | aux | aux2 | num
	Desc bool   `json:"desc,omitempty"`
	MF   bool   `json:"mf,omitempty"`
}

type StubCase struct {
	Scores []float64 `json:"scores"`
	Aux    []int     `json:"aux"`  // -1 = missing
	Aux2   []int     `json:"aux2"` // -1 = missing
	Keys   []SKey    `json:"keys"`
	N      int       `json:"n"`
	Skip   int       `json:"skip"`
	Mode   string    `json:"mode"` // topn | after | before
	Pos    int       `json:"pos"`  // after/before: position in the expected order of the match whose sort value is the key
	Pool   int       `json:"pool"` // DocumentMatchPoolSize reported by the searcher
}

type stubSearcher struct {
	c   *StubCase
	i   int
	err error
}

func (s *stubSearcher) Next(ctx *search.Context) (*search.DocumentMatch, error) {
	if s.i < len(s.c.Scores) {
		rv := ctx.DocumentMatchPool.Get()
		rv.Number = uint64(s.i + 1)
		rv.Score = s.c.Scores[s.i]
		s.i++
		return rv, nil
	}
	return nil, nil
}
func (s *stubSearcher) DocumentMatchPoolSize() int { return s.c.Pool }
func (s *stubSearcher) Close() error               { return nil }

type auxSource struct{ vals []int }

func (a *auxSource) Fields() []string { return nil }
func (a *auxSource) Value(d *search.DocumentMatch) []byte {
	i := int(d.Number) - 1
	if i < 0 || i >= len(a.vals) || a.vals[i] < 0 {
		return nil
	}
	var b [2]byte
	binary.BigEndian.PutUint16(b[:], uint16(a.vals[i]))
	return b[:]
}

type numSource struct{}

func (numSource) Fields() []string { return nil }
func (numSource) Value(d *search.DocumentMatch) []byte {
	var b [8]byte
	binary.BigEndian.PutUint64(b[:], d.Number)
	return b[:]
}

func (c *StubCase) order(reversed bool) search.SortOrder {
	var o search.SortOrder
	for _, k := range c.Keys {
		var s *search.Sort
		switch k.F {
		case "score":
			s = search.SortBy(search.DocumentScore())
		case "aux":
			s = search.SortBy(&auxSource{c.Aux})
		case "aux2":
			s = search.SortBy(&auxSource{c.Aux2})
		default:
			s = search.SortBy(numSource{})
		}
		// reversed: what TopNSearch.Collector hands to the collector for a search-before
		if k.Desc != reversed {
			s.Desc()
		}
		if k.MF != reversed {
			s.MissingFirst()
		}
		o = append(o, s)
	}
	return o
}

type sHit struct {
	num   int // 1-based document number = delivery order
	score float64
}

func (c *StubCase) cmp(a, b sHit) int {
	for _, k := range c.Keys {
		var am, bm bool
		cc := 0
		switch k.F {
		case "score":
			cc = cmpFloatTotal(a.score, b.score)
		case "aux", "aux2":
			vals := c.Aux
			if k.F == "aux2" {
				vals = c.Aux2
			}
			av, bv := vals[a.num-1], vals[b.num-1]
			am, bm = av < 0, bv < 0
			if !am && !bm {
				cc = cmpInt64(int64(av), int64(bv))
			}
		default:
			cc = cmpInt64(int64(a.num), int64(b.num))
		}
		switch {
		case am && bm:
			continue
		case am:
			if k.MF {
				return -1
			}
			return 1
		case bm:
			if k.MF {
				return 1
			}
			return -1
		}
		if k.Desc {
			cc = -cc
		}
		if cc != 0 {
			return cc
		}
	}
	return 0
}

type sGot struct {
	num   int
	score float64
	sv    [][]byte
}

func collect(col *collector.TopNCollector, c *StubCase) ([]sGot, *vlib.Failure) {
	var out []sGot
	f := vlib.Guard("TopNCollector.Collect", func() *vlib.Failure {
		it, err := col.Collect(context.Background(), make(search.Aggregations), &stubSearcher{c: c})
		if err != nil {
			return vlib.Failf("collect-error", "Collect: %v", err)
		}
		for {
			m, err := it.Next()
			if err != nil {
				return vlib.Failf("collect-error", "Next: %v", err)
			}
			if m == nil {
				return nil
			}
			g := sGot{num: int(m.Number), score: m.Score}
			for _, v := range m.SortValue {
				g.sv = append(g.sv, append([]byte{}, v...))
			}
			out = append(out, g)
			if len(out) > len(c.Scores)+1 {
				return vlib.Failf("too-many-hits", "more hits than matches")
			}
		}
	})
	return out, f
}

func fmtS(hs []sHit, max int) string {
	var sb strings.Builder
	for i, h := range hs {
		if i >= max {
			sb.WriteString(" …")
			break
		}
		fmt.Fprintf(&sb, " %d(%g)", h.num, h.score)
	}
	return sb.String()
}

func fmtSG(hs []sGot, max int) string {
	var sb strings.Builder
	for i, h := range hs {
		if i >= max {
			sb.WriteString(" …")
			break
		}
		fmt.Fprintf(&sb, " %d(%g)", h.num, h.score)
	}
	return sb.String()
}

func cmpStub(key, what string, want []sHit, have []sGot) *vlib.Failure {
	if len(want) != len(have) {
		return vlib.Failf(key, "%s: expected %d hits, got %d; expected:%s; got:%s", what, len(want), len(have), fmtS(want, 30), fmtSG(have, 30))
	}
	for i := range want {
		if want[i].num != have[i].num || math.Float64bits(want[i].score) != math.Float64bits(have[i].score) {
			return vlib.Failf(key, "%s: position %d: expected match %d (score %g), got %d (score %g); expected:%s; got:%s", what, i,
				want[i].num, want[i].score, have[i].num, have[i].score, fmtS(want, 30), fmtSG(have, 30))
		}
	}
	return nil
}

type stubStats struct {
	tiesAcrossCut, storeSwitch bool
}

func propStub(c StubCase, st *stubStats) *vlib.Failure {
	count := len(c.Scores)
	if len(c.Aux) != count || len(c.Aux2) != count {
		return vlib.Failf("harness-bad-replay", "aux lengths differ from scores")
	}
	for _, s := range c.Scores {
		if math.IsNaN(s) {
			return vlib.Failf("harness-bad-replay", "NaN score")
		}
	}
	full := make([]sHit, count)
	for i := range full {
		full[i] = sHit{num: i + 1, score: c.Scores[i]}
	}
	exp := append([]sHit{}, full...)
	sort.SliceStable(exp, func(i, j int) bool { return c.cmp(exp[i], exp[j]) < 0 })
	desc := func() string {
		var ks []string
		for _, k := range c.Keys {
			s := k.F
			if k.Desc {
				s = "-" + s
			}
			if k.MF {
				s += "/missing-first"
			}
			ks = append(ks, s)
		}
		return fmt.Sprintf("sort [%s] over %d matches", strings.Join(ks, ","), count)
	}
	n, skip := c.N, c.Skip
	if n < 0 || skip < 0 {
		return vlib.Failf("harness-bad-replay", "negative n/skip")
	}
	switch c.Mode {
	case "topn":
		have, f := collect(collector.NewTopNCollector(n, skip, c.order(false)), &c)
		if f != nil {
			return f
		}
		lo, hi := clampSlice(n, skip, count)
		st.storeSwitch = (n+skip > 10) != (count > 10)
		cut := skip + n
		if cut > 0 && cut < count && skip < count && n > 0 && c.cmp(exp[cut-1], exp[cut]) == 0 {
			st.tiesAcrossCut = true
		}
		return cmpStub("stub-wrong-slice", fmt.Sprintf("NewTopNCollector(%d, %d) %s", n, skip, desc()), exp[lo:hi], have)
	case "after", "before":
		if count == 0 {
			return nil
		}
		for i := 1; i < count; i++ {
			if c.cmp(exp[i-1], exp[i]) == 0 {
				return vlib.Failf("harness-bad-replay", "after/before case whose order is not total")
			}
		}
		pos := c.Pos
		if pos < 0 || pos >= count {
			return vlib.Failf("harness-bad-replay", "pos out of range")
		}
		// the key: the sort value of the match at position pos, as delivered by a complete listing
		all, f := collect(collector.NewTopNCollector(count, 0, c.order(false)), &c)
		if f != nil {
			return f
		}
		if f := cmpStub("stub-wrong-slice", fmt.Sprintf("NewTopNCollector(%d, 0) %s", count, desc()), exp, all); f != nil {
			return f
		}
		key := all[pos].sv
		st.storeSwitch = (n > 10) != (count > 10)
		if c.Mode == "after" {
			have, f := collect(collector.NewTopNCollectorAfter(n, c.order(false), key, false), &c)
			if f != nil {
				return f
			}
			lo, hi := clampSlice(n, pos+1, count)
			return cmpStub("stub-after", fmt.Sprintf("NewTopNCollectorAfter(%d, after=key of position %d) %s", n, pos, desc()), exp[lo:hi], have)
		}
		have, f := collect(collector.NewTopNCollectorAfter(n, c.order(true), key, true), &c)
		if f != nil {
			return f
		}
		lo := pos - n
		if lo < 0 {
			lo = 0
		}
		return cmpStub("stub-before", fmt.Sprintf("NewTopNCollectorAfter(%d, reversed order, key of position %d, reverse) %s", n, pos, desc()), exp[lo:pos], have)
	}
	return vlib.Failf("harness-bad-replay", "unknown mode %q", c.Mode)
}

var scorePool = []float64{0, 0.5, 1, 1, 2.5, -1, 1e-300, 3, 11, 9, 9.5, 99, math.Copysign(0, -1)}

func genStub(t *rapid.T) StubCase {
	var c StubCase
	var count int
	switch rapid.IntRange(0, 39).Draw(t, "countKind") {
	case 0:
		count = rapid.IntRange(1001, 2300).Draw(t, "count")
	case 1, 2, 3:
		count = rapid.IntRange(40, 300).Draw(t, "count")
	case 4, 5:
		count = rapid.IntRange(0, 3).Draw(t, "count")
	default:
		count = rapid.IntRange(4, 40).Draw(t, "count")
	}
	scores := subset(t, scorePool, 1, 4, "scores")
	nAux := rapid.IntRange(1, 4).Draw(t, "auxVals")
	c.Scores = make([]float64, count)
	c.Aux = make([]int, count)
	c.Aux2 = make([]int, count)
	big := count > 300
	for i := 0; i < count; i++ {
		if big {
			// one draw per match
			v := rapid.IntRange(0, 1<<12-1).Draw(t, "m")
			c.Scores[i] = scores[v%len(scores)]
			c.Aux[i] = (v>>4)%(nAux+1) - 1
			c.Aux2[i] = (v>>8)%(nAux+1) - 1
			continue
		}
		c.Scores[i] = pick(t, scores, "score")
		c.Aux[i] = rapid.IntRange(-1, nAux-1).Draw(t, "aux")
		c.Aux2[i] = rapid.IntRange(-1, nAux-1).Draw(t, "aux2")
	}
	nk := rapid.IntRange(1, 3).Draw(t, "nkeys")
	for i := 0; i < nk; i++ {
		c.Keys = append(c.Keys, SKey{F: pick(t, []string{"score", "score", "aux", "aux2"}, "keyF"),
			Desc: rapid.Bool().Draw(t, "desc"), MF: rapid.Bool().Draw(t, "mf")})
	}
	c.Pool = rapid.IntRange(0, 3).Draw(t, "pool")
	nf := func(label string) int {
		switch rapid.IntRange(0, 9).Draw(t, label+"Kind") {
		case 0, 1, 2, 3:
			return pick(t, []int{0, 1, 2, 5, 9, 10, 11, 12}, label+"Anchor")
		case 4, 5:
			v := count + pick(t, []int{-1, 0, 5, -10, -11}, label+"Rel")
			if v < 0 {
				v = 0
			}
			return v
		default:
			return rapid.IntRange(0, count+5).Draw(t, label+"Any")
		}
	}
	switch rapid.IntRange(0, 3).Draw(t, "mode") {
	case 0:
		c.Mode = "after"
	case 1:
		c.Mode = "before"
	default:
		c.Mode = "topn"
	}
	c.N = nf("n")
	if c.Mode == "topn" {
		c.Skip = nf("skip")
		if rapid.IntRange(0, 2).Draw(t, "skip0") == 0 {
			c.Skip = 0
		}
		if count > 1000 && rapid.Bool().Draw(t, "beyondPrealloc") {
			// n+skip beyond the pre-allocation cap of 1000
			c.N = rapid.IntRange(990, 1200).Draw(t, "bigN")
		}
	} else {
		if count == 0 {
			c.Mode = "topn"
		} else {
			c.Keys = append(c.Keys, SKey{F: "num", Desc: rapid.Bool().Draw(t, "numDesc")})
			c.Pos = rapid.IntRange(0, count-1).Draw(t, "pos")
			if rapid.IntRange(0, 3).Draw(t, "posEdge") == 0 {
				c.Pos = pick(t, []int{0, count - 1}, "posEdgeV")
			}
		}
	}
	return c
}

func TestC09Stub(t *testing.T) {
	vlib.Check(t, 6000, 80000, func(rt *rapid.T) {
		c := genStub(rt)
		var st stubStats
		f := propStub(c, &st)
		nt := st.tiesAcrossCut || st.storeSwitch
		cls := []string{"stub", "stub:" + c.Mode}
		if st.tiesAcrossCut {
			cls = append(cls, "stub:ties-across-cut")
		}
		if st.storeSwitch {
			cls = append(cls, "stub:store-switch-side-differs")
		}
		if c.N+c.Skip > 1000 {
			cls = append(cls, "stub:beyond-prealloc-cap")
		}
		if len(c.Scores) > 1024 {
			cls = append(cls, "stub:matches>1024")
		}
		ev.Case(vlib.Canon(c), nt, cls...)
		if len(c.Scores) <= 16 {
			ev.Sample(map[string]interface{}{"kind": "stub", "case": c}, nt)
		}
		vlib.Report(rt, ev, "stub", c, f)
	})
}
