// C09  Top-N, sorting and paging return the right slice of the full ranking.
//
// Three families of cases (see NOTES.md):
//
//	index  real indexes (in memory / file system, several segments, pending deletions, heavy ties)
//	       x ~40 requests (sort order of 1-3 keys, n, from) + paging chains (After / Before)
//	stub   the collector driven directly (NewTopNCollector / NewTopNCollectorAfter) by a stub searcher
//	probe  deterministic chain that re-uses one search.SortOrder value (finding #6)
//
// Oracle: the full match list of AllMatches on the SAME reader (delivery order = index order, scores),
// stably sorted by the harness's own typed comparator on the model's values.
package c09

import (
	"context"
	"encoding/json"
	"fmt"
	"math"
	"os"
	"path/filepath"
	"sort"
	"strings"
	"sync/atomic"
	"testing"
	"time"

	"github.com/blugelabs/bluge"
	"github.com/blugelabs/bluge/index"
	"github.com/blugelabs/bluge/search"
	"pgregory.net/rapid"

	"verifharness/vlib"
)

func TestMain(m *testing.M) { vlib.Main(m) }

var ev = vlib.NewEvidence("C09",
	"index cases: generated indexes (in-memory or file-system directory, 20-200 documents written in 2-7 batches with updates and deletes, 3-5 distinct values per sort key, missing values) x ~40 top-N requests (1-3 sort keys of _score/_id/keyword/numeric/date/multi-valued, asc/desc, missing first/last, custom and string form; n and from from {0,1,2,9,10,11,12,count-1,count,count+5,random}) judged position by position against AllMatches on the same reader sorted by the harness's typed comparator (ties by delivery order); "+
		"a request is non-trivial when >= 2 matches tie on all keys across the cut at from+n, or n+from lies on the other side of 10 (slice/heap store switch) than the hit count. "+
		"paging chains (After and Before, every page size 1..count+1 for count <= 40, else a sample) under orders made total by _id: non-trivial with >= 3 pages. "+
		"stub cases: the collector driven directly by a stub searcher with few distinct scores/aux values: same non-trivial rule")

// ---------------------------------------------------------------------------------------------
// case types (JSON-serialisable)

type Doc struct {
	ID     string    `json:"id"`
	Body   string    `json:"body"`
	Cat    string    `json:"cat"`
	K1     *string   `json:"k1,omitempty"`
	K2     *string   `json:"k2,omitempty"`
	Num    *float64  `json:"num,omitempty"`
	Date   *int64    `json:"date,omitempty"` // unix nanoseconds
	MV     []string  `json:"mv,omitempty"`   // multi-valued keyword
	MN     []float64 `json:"mn,omitempty"`   // multi-valued numeric
	HasOdd bool      `json:"has_odd,omitempty"`
	Odd    []byte    `json:"odd,omitempty"` // keyword whose value may collide with the missing-value sentinels (unjudged)
}

type Op struct {
	Kind string `json:"kind"` // "ins" | "upd" | "del"
	Doc  Doc    `json:"doc"`  // del: only ID
}

type IndexSpec struct {
	FS      bool   `json:"fs"`               // file-system directory instead of in-memory
	Reopen  bool   `json:"reopen"`           // FS only: close the writer, read through OpenReader
	Merge   bool   `json:"merge"`            // leave the background merger enabled (layout then depends on timing; the oracle reads order from the reader)
	SegV2   bool   `json:"seg_v2,omitempty"` // ice segment version 2 instead of the default (only with the merger disabled, see NOTES.md)
	Batches [][]Op `json:"batches"`
}

type QSpec struct {
	Kind  string   `json:"kind"` // "all" | "term" | "or"
	Terms []string `json:"terms,omitempty"`
	Cat   string   `json:"cat,omitempty"` // additional must on the cat keyword
}

type Key struct {
	F    string `json:"f"` // _score _id k1 k2 num date mv mn odd
	Desc bool   `json:"desc,omitempty"`
	MF   bool   `json:"mf,omitempty"`   // missing first
	Plus bool   `json:"plus,omitempty"` // string form: "+field"
}

type Req struct {
	Q       int   `json:"q"`
	Keys    []Key `json:"keys"`
	Str     bool  `json:"str,omitempty"` // expressed through TopNSearch.SortBy([]string)
	N       int   `json:"n"`
	NRel    bool  `json:"n_rel,omitempty"` // n = count + N
	From    int   `json:"from"`
	FromRel bool  `json:"from_rel,omitempty"`
}

type Chain struct {
	Q      int   `json:"q"`
	Keys   []Key `json:"keys"`             // made total by appending _id when absent
	All    bool  `json:"all"`              // every page size 1..count+1 when count <= allPagesMaxCount
	Sizes  []int `json:"sizes"`            // absolute page sizes
	Rel    []int `json:"rel"`              // page sizes count+rel
	Shared bool  `json:"shared,omitempty"` // one search.SortOrder value re-used by every request of the chain
}

type IndexCase struct {
	Index   IndexSpec `json:"index"`
	Queries []QSpec   `json:"queries"`
	Reqs    []Req     `json:"reqs"`
	Chains  []Chain   `json:"chains"`
}

const allPagesMaxCount = 40

// ---------------------------------------------------------------------------------------------
// generator

var (
	words   = []string{"aa", "bb", "cc", "dd", "rr"}
	kwPool  = []string{"", "a", "b", "ab", "B", "z", "zz", "10", "9", " sp", "é", "~", "\u0001", "\U0010FFFF", "m", "mm"}
	numPool = []float64{-math.MaxFloat64, -1e9, -2.5, -1, -math.SmallestNonzeroFloat64, math.Copysign(0, -1), 0, math.SmallestNonzeroFloat64,
		0.5, 1, 1.5, 2, 10, 9, 100, 1e9, 1e300, math.MaxFloat64}
	datePool = []int64{-(1 << 62), -1e18, -(1 << 35) - 1, -(1 << 35), -1, 0, 1, 1 << 35, (1 << 35) + 1, 946684800e9, 1600000000e9, 1600000000e9 + 1, 1 << 62}
	oddPool  = [][]byte{{}, {0}, {0, 'a'}, {0xff}, {0xff, 'a'}, {0xff, 0xff, 0xff, 0xff, 0xff, 0xff, 0xff, 0xff, 0xff, 0xff},
		{0xff, 0xff, 0xff, 0xff, 0xff, 0xff, 0xff, 0xff, 0xff, 0xff, 0xff}, []byte("m"), []byte("a")}
)

type palette struct {
	bodies []string
	k1, k2 []string
	nums   []float64
	dates  []int64
}

func subset[T any](t *rapid.T, pool []T, lo, hi int, label string) []T {
	n := rapid.IntRange(lo, hi).Draw(t, label+"N")
	perm := rapid.Permutation(idx(len(pool))).Draw(t, label+"Perm")
	out := make([]T, 0, n)
	for _, p := range perm[:n] {
		out = append(out, pool[p])
	}
	return out
}

func idx(n int) []int {
	r := make([]int, n)
	for i := range r {
		r[i] = i
	}
	return r
}

func genPalette(t *rapid.T) palette {
	var p palette
	nb := rapid.IntRange(2, 5).Draw(t, "bodies")
	for i := 0; i < nb; i++ {
		nw := rapid.IntRange(1, 4).Draw(t, "bodyLen")
		ws := make([]string, nw)
		for j := range ws {
			// "rr" is rare
			k := rapid.IntRange(0, 12).Draw(t, "word")
			if k >= 12 {
				ws[j] = "rr"
			} else {
				ws[j] = words[k%4]
			}
		}
		p.bodies = append(p.bodies, strings.Join(ws, " "))
	}
	p.k1 = subset(t, kwPool, 3, 5, "k1")
	p.k2 = subset(t, kwPool, 2, 4, "k2")
	p.nums = subset(t, numPool, 3, 5, "num")
	p.dates = subset(t, datePool, 3, 5, "date")
	return p
}

func pick[T any](t *rapid.T, s []T, label string) T {
	return s[rapid.IntRange(0, len(s)-1).Draw(t, label)]
}

func genDoc(t *rapid.T, id string, p palette) Doc {
	d := Doc{ID: id, Body: pick(t, p.bodies, "body"), Cat: pick(t, []string{"x", "x", "y"}, "cat")}
	// one draw decides which optional fields are present (bit mask) to keep the number of draws low
	mask := rapid.IntRange(0, 1<<12-1).Draw(t, "present")
	has := func(bit int, outOf4 int) bool { return (mask>>(2*bit))&3 < outOf4 }
	if has(0, 3) {
		v := pick(t, p.k1, "k1v")
		d.K1 = &v
	}
	if has(1, 3) {
		v := pick(t, p.k2, "k2v")
		d.K2 = &v
	}
	if has(2, 3) {
		v := pick(t, p.nums, "numv")
		d.Num = &v
	}
	if has(3, 3) {
		v := pick(t, p.dates, "datev")
		d.Date = &v
	}
	if has(4, 3) {
		n := rapid.IntRange(1, 3).Draw(t, "mvN")
		for i := 0; i < n; i++ {
			d.MV = append(d.MV, pick(t, p.k1, "mvv"))
		}
		n = rapid.IntRange(0, 3).Draw(t, "mnN")
		for i := 0; i < n; i++ {
			d.MN = append(d.MN, pick(t, p.nums, "mnv"))
		}
	}
	if has(5, 2) {
		d.HasOdd = true
		d.Odd = pick(t, oddPool, "oddv")
	}
	return d
}

func genIndex(t *rapid.T) IndexSpec {
	var s IndexSpec
	s.FS = rapid.IntRange(0, 3).Draw(t, "fs") == 0
	if s.FS {
		s.Reopen = rapid.Bool().Draw(t, "reopen")
	}
	s.Merge = rapid.IntRange(0, 3).Draw(t, "merge") == 0
	if !s.Merge {
		s.SegV2 = rapid.IntRange(0, 9).Draw(t, "segV2") == 0 // building v2 segments is expensive (zstd encoder per field)
	}
	p := genPalette(t)
	var ndocs int
	switch rapid.IntRange(0, 9).Draw(t, "sizeKind") {
	case 0:
		ndocs = rapid.IntRange(100, 200).Draw(t, "ndocs")
	case 1, 2:
		ndocs = rapid.IntRange(40, 100).Draw(t, "ndocs")
	default:
		ndocs = rapid.IntRange(20, 45).Draw(t, "ndocs")
	}
	nb := rapid.IntRange(2, 7).Draw(t, "batches")
	s.Batches = make([][]Op, nb)
	var live []string // ids currently live (model)
	next := 0
	for b := 0; b < nb; b++ {
		// new documents of this batch
		remaining := ndocs - next
		cnt := remaining
		if b < nb-1 {
			cnt = remaining / (nb - b)
			if cnt > 0 {
				cnt = rapid.IntRange(cnt/2, cnt+cnt/2).Draw(t, "batchDocs")
				if cnt > remaining {
					cnt = remaining
				}
			}
		}
		touched := map[string]bool{}
		var ops []Op
		// updates / deletes of documents of earlier batches (each id at most once per batch)
		if b > 0 && len(live) > 0 {
			nmod := rapid.IntRange(0, 1+len(live)/4).Draw(t, "mods")
			for i := 0; i < nmod; i++ {
				id := live[rapid.IntRange(0, len(live)-1).Draw(t, "modWhich")]
				if touched[id] {
					continue
				}
				touched[id] = true
				if rapid.IntRange(0, 2).Draw(t, "modKind") == 0 {
					ops = append(ops, Op{Kind: "del", Doc: Doc{ID: id}})
				} else {
					ops = append(ops, Op{Kind: "upd", Doc: genDoc(t, id, p)})
				}
			}
		}
		for i := 0; i < cnt; i++ {
			id := fmt.Sprintf("d%03d", next)
			next++
			ops = append(ops, Op{Kind: "ins", Doc: genDoc(t, id, p)})
		}
		// the order of operations inside the batch is shuffled (index order != id order)
		perm := rapid.Permutation(idx(len(ops))).Draw(t, "opOrder")
		shuffled := make([]Op, len(ops))
		for i, pi := range perm {
			shuffled[i] = ops[pi]
		}
		s.Batches[b] = shuffled
		for _, op := range shuffled {
			switch op.Kind {
			case "ins":
				live = append(live, op.Doc.ID)
			case "del":
				for i, id := range live {
					if id == op.Doc.ID {
						live = append(live[:i:i], live[i+1:]...)
						break
					}
				}
			}
		}
	}
	return s
}

func genQueries(t *rapid.T) []QSpec {
	qs := []QSpec{{Kind: "all"}}
	n := rapid.IntRange(2, 4).Draw(t, "nq")
	for i := 0; i < n; i++ {
		var q QSpec
		switch rapid.IntRange(0, 5).Draw(t, "qKind") {
		case 0:
			q.Kind = "all"
			q.Cat = pick(t, []string{"x", "y"}, "qCat")
		case 1, 2:
			q.Kind = "term"
			q.Terms = []string{pick(t, []string{"aa", "bb", "cc", "dd", "rr", "rr", "zz"}, "qTerm")}
		default:
			q.Kind = "or"
			nt := rapid.IntRange(2, 3).Draw(t, "qTerms")
			for j := 0; j < nt; j++ {
				q.Terms = append(q.Terms, pick(t, words, "qTerm"))
			}
		}
		if q.Kind != "all" && rapid.IntRange(0, 2).Draw(t, "qWithCat") == 0 {
			q.Cat = pick(t, []string{"x", "y"}, "qCat")
		}
		qs = append(qs, q)
	}
	return qs
}

var keyFields = []string{"_score", "_score", "_id", "k1", "k1", "k2", "k2", "num", "num", "date", "date", "mv", "mn", "odd"}

func genKeys(t *rapid.T, str bool, allowOdd bool) []Key {
	n := rapid.IntRange(1, 3).Draw(t, "nkeys")
	var keys []Key
	for i := 0; i < n; i++ {
		k := Key{F: pick(t, keyFields, "keyField")}
		if k.F == "odd" && !allowOdd {
			k.F = "k1"
		}
		k.Desc = rapid.Bool().Draw(t, "desc")
		if str {
			// string form: no missing-first; "_score" is always descending
			if k.F == "_score" {
				k.Desc = true
				k.Plus = rapid.Bool().Draw(t, "bareScore") // "_score" without prefix (also descending)
			} else {
				k.Plus = !k.Desc && rapid.IntRange(0, 3).Draw(t, "plus") == 0
			}
		} else {
			k.MF = rapid.Bool().Draw(t, "mf")
		}
		keys = append(keys, k)
	}
	return keys
}

var anchors = []int{0, 1, 2, 9, 10, 11, 12}

func genNF(t *rapid.T, label string) (v int, rel bool) {
	switch rapid.IntRange(0, 9).Draw(t, label+"Kind") {
	case 0, 1, 2, 3:
		return pick(t, anchors, label+"Anchor"), false
	case 4, 5:
		return pick(t, []int{-1, 0, 5, -2, -10, -11, -9}, label+"Rel"), true
	case 6:
		return rapid.IntRange(0, 210).Draw(t, label+"Any"), false
	default:
		return rapid.IntRange(0, 30).Draw(t, label+"Small"), false
	}
}

func genReq(t *rapid.T, nq int) Req {
	r := Req{Q: rapid.IntRange(0, nq-1).Draw(t, "q")}
	r.Str = rapid.IntRange(0, 4).Draw(t, "str") == 0
	r.Keys = genKeys(t, r.Str, true)
	r.N, r.NRel = genNF(t, "n")
	r.From, r.FromRel = genNF(t, "from")
	if rapid.IntRange(0, 2).Draw(t, "from0") == 0 {
		r.From, r.FromRel = 0, false
	}
	return r
}

func genChain(t *rapid.T, nq int) Chain {
	c := Chain{Q: rapid.IntRange(0, nq-1).Draw(t, "chainQ")}
	c.Keys = genKeys(t, false, false)
	c.All = true
	ns := rapid.IntRange(1, 4).Draw(t, "chainSizes")
	for i := 0; i < ns; i++ {
		c.Sizes = append(c.Sizes, pick(t, []int{1, 2, 3, 5, 7, 9, 10, 11, 12, 17, 25, 50}, "chainSize"))
	}
	c.Rel = []int{-1, 0, 1}
	c.Shared = rapid.IntRange(0, 2).Draw(t, "chainShared") == 0
	return c
}

func genIndexCase(t *rapid.T) IndexCase {
	var c IndexCase
	c.Index = genIndex(t)
	c.Queries = genQueries(t)
	nr := vlib.EnvInt("C09_REQS", 40)
	for i := 0; i < nr; i++ {
		c.Reqs = append(c.Reqs, genReq(t, len(c.Queries)))
	}
	nc := rapid.IntRange(1, 2).Draw(t, "nchains")
	for i := 0; i < nc; i++ {
		c.Chains = append(c.Chains, genChain(t, len(c.Queries)))
	}
	return c
}

// ---------------------------------------------------------------------------------------------
// building the index

func buildDoc(d Doc) *bluge.Document {
	doc := bluge.NewDocument(d.ID)
	doc.AddField(bluge.NewTextField("body", d.Body))
	doc.AddField(bluge.NewKeywordField("cat", d.Cat))
	if d.K1 != nil {
		doc.AddField(bluge.NewKeywordField("k1", *d.K1).Sortable())
	}
	if d.K2 != nil {
		doc.AddField(bluge.NewKeywordField("k2", *d.K2).Sortable())
	}
	if d.Num != nil {
		doc.AddField(bluge.NewNumericField("num", *d.Num).Sortable())
	}
	if d.Date != nil {
		doc.AddField(bluge.NewDateTimeField("date", time.Unix(0, *d.Date)).Sortable())
	}
	for _, v := range d.MV {
		doc.AddField(bluge.NewKeywordField("mv", v).Sortable())
	}
	for _, v := range d.MN {
		doc.AddField(bluge.NewNumericField("mn", v).Sortable())
	}
	if d.HasOdd {
		doc.AddField(bluge.NewKeywordFieldBytes("odd", d.Odd).Sortable())
	}
	return doc
}

var scratchSeq int64

func scratchDir() (string, error) {
	base := os.Getenv("VERIF_SCRATCH")
	if base == "" {
		base = "/dev/shm"
	}
	p := filepath.Join(base, fmt.Sprintf("c09-idx-%d-%d", os.Getpid(), atomic.AddInt64(&scratchSeq, 1)))
	_ = os.RemoveAll(p)
	return p, os.MkdirAll(p, 0o755)
}

type opened struct {
	reader  *bluge.Reader
	cleanup func()
	model   map[string]*Doc // live documents
}

func noMerge(cfg bluge.Config) bluge.Config {
	ic := cfg.VerifIndexConfig()
	ic.MergePlanOptions.MaxSegmentSize = 1
	ic.MinSegmentsForInMemoryMerge = 1 << 30
	return cfg.VerifWithIndexConfig(ic)
}

func openIndex(s IndexSpec) (*opened, *vlib.Failure) {
	o := &opened{model: map[string]*Doc{}}
	var cfg bluge.Config
	var dir string
	if s.FS {
		var err error
		dir, err = scratchDir()
		if err != nil {
			return nil, vlib.Failf("harness-scratch", "%v", err)
		}
		cfg = bluge.DefaultConfig(dir)
	} else {
		cfg = bluge.InMemoryOnlyConfig()
	}
	if !s.Merge {
		cfg = noMerge(cfg)
	}
	if s.SegV2 {
		cfg = cfg.WithSegmentVersion(2)
	}
	rm := func() {
		if dir != "" {
			_ = os.RemoveAll(dir)
		}
	}
	w, err := bluge.OpenWriter(cfg)
	if err != nil {
		rm()
		return nil, vlib.Failf("open-writer", "OpenWriter: %v", err)
	}
	for bi, ops := range s.Batches {
		if len(ops) == 0 {
			continue
		}
		b := index.NewBatch()
		for i := range ops {
			op := &ops[i]
			switch op.Kind {
			case "ins":
				b.Insert(buildDoc(op.Doc))
				d := op.Doc
				o.model[d.ID] = &d
			case "upd":
				b.Update(bluge.Identifier(op.Doc.ID), buildDoc(op.Doc))
				d := op.Doc
				o.model[d.ID] = &d
			case "del":
				b.Delete(bluge.Identifier(op.Doc.ID))
				delete(o.model, op.Doc.ID)
			}
		}
		if err := w.Batch(b); err != nil {
			_ = w.Close()
			rm()
			return nil, vlib.Failf("batch-error", "batch %d: %v", bi, err)
		}
	}
	if s.FS && s.Reopen {
		if err := w.Close(); err != nil {
			rm()
			return nil, vlib.Failf("writer-close", "Close: %v", err)
		}
		r, err := bluge.OpenReader(cfg)
		if err != nil {
			rm()
			return nil, vlib.Failf("open-reader", "OpenReader: %v", err)
		}
		o.reader = r
		o.cleanup = func() { _ = r.Close(); rm() }
		return o, nil
	}
	r, err := w.Reader()
	if err != nil {
		_ = w.Close()
		rm()
		return nil, vlib.Failf("open-reader", "Writer.Reader: %v", err)
	}
	o.reader = r
	o.cleanup = func() { _ = r.Close(); _ = w.Close(); rm() }
	return o, nil
}

func buildQuery(q QSpec) bluge.Query {
	var base bluge.Query
	switch q.Kind {
	case "term":
		base = bluge.NewTermQuery(q.Terms[0]).SetField("body")
	case "or":
		bq := bluge.NewBooleanQuery()
		for _, w := range q.Terms {
			bq.AddShould(bluge.NewTermQuery(w).SetField("body"))
		}
		base = bq
	default:
		base = bluge.NewMatchAllQuery()
	}
	if q.Cat == "" {
		return base
	}
	bq := bluge.NewBooleanQuery()
	bq.AddMust(bluge.NewTermQuery(q.Cat).SetField("cat"))
	if q.Kind == "all" {
		return bq
	}
	if q.Kind == "or" {
		// category filter AND (at least one of the words)
		bq.AddMust(base)
		return bq
	}
	// term: optional scoring clause next to the filter (scores differ, match set = category)
	bq.AddShould(base)
	return bq
}

// ---------------------------------------------------------------------------------------------
// oracle

type hit struct {
	id    string
	num   uint64
	score float64
	doc   *Doc
}

func buildOrder(keys []Key, str bool) (search.SortOrder, []string) {
	if str {
		var ss []string
		for _, k := range keys {
			switch {
			case k.Desc && k.F == "_score" && k.Plus:
				ss = append(ss, "_score") // "_score" without prefix also means descending
			case k.Desc:
				ss = append(ss, "-"+k.F)
			case k.Plus:
				ss = append(ss, "+"+k.F)
			default:
				ss = append(ss, k.F)
			}
		}
		return nil, ss
	}
	var o search.SortOrder
	for _, k := range keys {
		var s *search.Sort
		if k.F == "_score" {
			s = search.SortBy(search.DocumentScore())
		} else {
			s = search.SortBy(search.Field(k.F))
		}
		if k.Desc {
			s.Desc()
		}
		if k.MF {
			s.MissingFirst()
		}
		o = append(o, s)
	}
	return o, nil
}

func cmpFloatTotal(a, b float64) int {
	switch {
	case a < b:
		return -1
	case a > b:
		return 1
	}
	// equal as numbers: -0 sorts below +0
	sa, sb := math.Signbit(a), math.Signbit(b)
	switch {
	case sa && !sb:
		return -1
	case !sa && sb:
		return 1
	}
	return 0
}

func cmpInt64(a, b int64) int {
	switch {
	case a < b:
		return -1
	case a > b:
		return 1
	}
	return 0
}

func minString(vs []string) string {
	m := vs[0]
	for _, v := range vs[1:] {
		if v < m {
			m = v
		}
	}
	return m
}

func minFloat(vs []float64) float64 {
	m := vs[0]
	for _, v := range vs[1:] {
		if cmpFloatTotal(v, m) < 0 {
			m = v
		}
	}
	return m
}

// cmpKey compares two hits on one key: typed comparison of the model's values; a document that
// lacks the field goes first or last as requested, whatever the direction.
func cmpKey(k Key, a, b *hit) int {
	var am, bm bool // missing
	c := 0
	switch k.F {
	case "_score":
		c = cmpFloatTotal(a.score, b.score)
	case "_id":
		c = strings.Compare(a.id, b.id)
	case "k1", "k2":
		av, bv := a.doc.K1, b.doc.K1
		if k.F == "k2" {
			av, bv = a.doc.K2, b.doc.K2
		}
		am, bm = av == nil, bv == nil
		if !am && !bm {
			c = strings.Compare(*av, *bv)
		}
	case "num":
		am, bm = a.doc.Num == nil, b.doc.Num == nil
		if !am && !bm {
			c = cmpFloatTotal(*a.doc.Num, *b.doc.Num)
		}
	case "date":
		am, bm = a.doc.Date == nil, b.doc.Date == nil
		if !am && !bm {
			c = cmpInt64(*a.doc.Date, *b.doc.Date)
		}
	case "mv":
		// multi-valued: the smallest term of the document, for both directions
		am, bm = len(a.doc.MV) == 0, len(b.doc.MV) == 0
		if !am && !bm {
			c = strings.Compare(minString(a.doc.MV), minString(b.doc.MV))
		}
	case "mn":
		am, bm = len(a.doc.MN) == 0, len(b.doc.MN) == 0
		if !am && !bm {
			c = cmpFloatTotal(minFloat(a.doc.MN), minFloat(b.doc.MN))
		}
	default:
		panic("harness: unknown key " + k.F)
	}
	switch {
	case am && bm:
		return 0
	case am:
		if k.MF {
			return -1
		}
		return 1
	case bm:
		if k.MF {
			return 1
		}
		return -1
	}
	if k.Desc {
		c = -c
	}
	return c
}

func cmpKeys(keys []Key, a, b *hit) int {
	for _, k := range keys {
		if c := cmpKey(k, a, b); c != 0 {
			return c
		}
	}
	return 0
}

// ranked returns the full list in the expected order: stable sort of the delivery order.
func ranked(full []hit, keys []Key) []*hit {
	out := make([]*hit, len(full))
	for i := range full {
		out[i] = &full[i]
	}
	sort.SliceStable(out, func(i, j int) bool { return cmpKeys(keys, out[i], out[j]) < 0 })
	return out
}

// keyEmptyKw: known finding.  The missing-value sentinel of a text key is "\x00" when missing
// values go to the low end (ascending + missing first, descending + missing last); the empty
// string is a legal keyword value below it, so a document whose value is "" lands on the wrong
// side of the documents that lack the field.  Identified by: such a key, and the match list holds
// both a document whose (smallest) value of the key is "" and a document without the field.
const keyEmptyKw = "empty-keyword-below-missing-sentinel"

// judgeEmptyKw: the probe judges such requests all the same.
var judgeEmptyKw = false

func emptyVsMissing(keys []Key, full []hit) bool {
	if judgeEmptyKw {
		return false
	}
	if _, ok := vlib.IsKnown("C09", keyEmptyKw); !ok {
		return false
	}
	for _, k := range keys {
		if (k.F != "k1" && k.F != "k2" && k.F != "mv") || k.Desc == k.MF {
			continue
		}
		empty, missing := false, false
		for i := range full {
			d := full[i].doc
			var v *string
			switch k.F {
			case "k1":
				v = d.K1
			case "k2":
				v = d.K2
			default:
				if len(d.MV) > 0 {
					m := minString(d.MV)
					v = &m
				}
			}
			if v == nil {
				missing = true
			} else if *v == "" {
				empty = true
			}
		}
		if empty && missing {
			return true
		}
	}
	return false
}

func judged(keys []Key) bool {
	for _, k := range keys {
		if k.F == "odd" {
			return false
		}
	}
	return true
}

type env struct {
	o        *opened
	ids      map[uint64]string // doc number -> id, from a match-all pass over the same reader
	fulls    map[int][]hit     // per query: AllMatches in delivery order
	qs       []QSpec
	nsearch  int
	noStored bool // do not read stored fields (segment version 2)
}

const searchSite = "Reader.Search"

func (e *env) allMatches(q bluge.Query, withIDs bool) ([]hit, *vlib.Failure) {
	var out []hit
	f := vlib.Guard("Reader.Search(AllMatches)", func() *vlib.Failure {
		it, err := e.o.reader.Search(context.Background(), bluge.NewAllMatches(q))
		if err != nil {
			return vlib.Failf("search-error", "AllMatches: %v", err)
		}
		for {
			m, err := it.Next()
			if err != nil {
				return vlib.Failf("search-error", "AllMatches.Next: %v", err)
			}
			if m == nil {
				break
			}
			h := hit{num: m.Number, score: m.Score}
			if withIDs {
				err = m.VisitStoredFields(func(field string, value []byte) bool {
					if field == "_id" {
						h.id = string(value)
					}
					return true
				})
				if err != nil {
					return vlib.Failf("search-error", "VisitStoredFields: %v", err)
				}
			}
			out = append(out, h)
		}
		return nil
	})
	e.nsearch++
	return out, f
}

// initByTerm maps document numbers to ids without reading stored fields (segment version 2: the
// bundled ice/v2 panics when the stored fields of the last document of a segment are read, third-party
// defect classified by vlib as icev2-stored-offsets-panic): one term search on _id per live id.
func (e *env) initByTerm() *vlib.Failure {
	all, f := e.allMatches(bluge.NewMatchAllQuery(), false)
	if f != nil {
		return f
	}
	e.ids = map[uint64]string{}
	ids := make([]string, 0, len(e.o.model))
	for id := range e.o.model {
		ids = append(ids, id)
	}
	sort.Strings(ids)
	for _, id := range ids {
		hs, f := e.allMatches(bluge.NewTermQuery(id).SetField("_id"), false)
		if f != nil {
			return f
		}
		if len(hs) != 1 {
			return vlib.Failf("precondition-live-set", "term search for _id %q delivers %d documents", id, len(hs))
		}
		if other, dup := e.ids[hs[0].num]; dup {
			return vlib.Failf("precondition-live-set", "document number %d is delivered for ids %q and %q", hs[0].num, other, id)
		}
		e.ids[hs[0].num] = id
	}
	if len(all) != len(e.o.model) {
		return vlib.Failf("precondition-live-set", "match-all delivers %d documents, the model has %d live", len(all), len(e.o.model))
	}
	for _, h := range all {
		if _, ok := e.ids[h.num]; !ok {
			return vlib.Failf("precondition-live-set", "match-all delivers document number %d which no live id maps to", h.num)
		}
	}
	e.fulls = map[int][]hit{}
	return nil
}

func (e *env) init() *vlib.Failure {
	if e.noStored {
		return e.initByTerm()
	}
	all, f := e.allMatches(bluge.NewMatchAllQuery(), true)
	if f != nil {
		return f
	}
	e.ids = map[uint64]string{}
	seen := map[string]bool{}
	for _, h := range all {
		if _, ok := e.o.model[h.id]; !ok || seen[h.id] {
			// the oracle's precondition (C01/C07 territory): the reader shows exactly the model's live documents once
			return vlib.Failf("precondition-live-set", "match-all delivers id %q which is not live in the model or is delivered twice", h.id)
		}
		seen[h.id] = true
		e.ids[h.num] = h.id
	}
	if len(all) != len(e.o.model) {
		return vlib.Failf("precondition-live-set", "match-all delivers %d documents, the model has %d live", len(all), len(e.o.model))
	}
	e.fulls = map[int][]hit{}
	return nil
}

func (e *env) full(qi int) ([]hit, *vlib.Failure) {
	if f, ok := e.fulls[qi]; ok {
		return f, nil
	}
	hs, f := e.allMatches(buildQuery(e.qs[qi]), false)
	if f != nil {
		return nil, f
	}
	seen := map[uint64]bool{}
	for i := range hs {
		id, ok := e.ids[hs[i].num]
		if !ok || seen[hs[i].num] {
			return nil, vlib.Failf("precondition-live-set", "AllMatches of query %d delivers document number %d (unknown or twice)", qi, hs[i].num)
		}
		seen[hs[i].num] = true
		hs[i].id = id
		hs[i].doc = e.o.model[id]
	}
	e.fulls[qi] = hs
	return hs, nil
}

type got struct {
	id    string
	num   uint64
	score float64
	sv    [][]byte
}

// topN runs one TopNSearch.  order/strs: exactly one is used.  after/before: at most one non-nil.
func (e *env) topN(q bluge.Query, n, from int, order search.SortOrder, strs []string, after, before [][]byte) ([]got, *vlib.Failure) {
	var out []got
	e.nsearch++
	f := vlib.Guard(searchSite, func() *vlib.Failure {
		req := bluge.NewTopNSearch(n, q)
		if from != 0 {
			req.SetFrom(from)
		}
		if strs != nil {
			req.SortBy(strs)
		} else {
			req.SortByCustom(order)
		}
		if after != nil {
			req.After(after)
		}
		if before != nil {
			req.Before(before)
		}
		it, err := e.o.reader.Search(context.Background(), req)
		if err != nil {
			return vlib.Failf("search-error", "TopNSearch: %v", err)
		}
		for {
			m, err := it.Next()
			if err != nil {
				return vlib.Failf("search-error", "TopN.Next: %v", err)
			}
			if m == nil {
				break
			}
			g := got{num: m.Number, score: m.Score, id: e.ids[m.Number]}
			for _, v := range m.SortValue {
				g.sv = append(g.sv, append([]byte{}, v...))
			}
			out = append(out, g)
			if len(out) > n+1000 {
				return vlib.Failf("too-many-hits", "more than n+1000 hits for n=%d", n)
			}
		}
		return nil
	})
	return out, f
}

func fmtHits(hs []*hit, max int) string {
	var sb strings.Builder
	for i, h := range hs {
		if i >= max {
			sb.WriteString(" …")
			break
		}
		fmt.Fprintf(&sb, " %s(%d,%.6g)", h.id, h.num, h.score)
	}
	return sb.String()
}

func fmtGot(gs []got, max int) string {
	var sb strings.Builder
	for i, g := range gs {
		if i >= max {
			sb.WriteString(" …")
			break
		}
		fmt.Fprintf(&sb, " %s(%d,%.6g)", g.id, g.num, g.score)
	}
	return sb.String()
}

func fmtKeys(keys []Key) string {
	var ss []string
	for _, k := range keys {
		s := k.F
		if k.Desc {
			s = "-" + s
		}
		if k.MF {
			s += "/missing-first"
		}
		ss = append(ss, s)
	}
	return strings.Join(ss, ",")
}

// compareSlice compares a result with the expected slice position by position.
func compareSlice(key, what string, want []*hit, have []got) *vlib.Failure {
	if len(want) != len(have) {
		return vlib.Failf(key, "%s: expected %d hits, got %d; expected:%s; got:%s", what, len(want), len(have), fmtHits(want, 30), fmtGot(have, 30))
	}
	for i := range want {
		if want[i].num != have[i].num {
			return vlib.Failf(key, "%s: position %d: expected %s (doc %d), got %q (doc %d); expected:%s; got:%s", what, i, want[i].id, want[i].num,
				have[i].id, have[i].num, fmtHits(want, 30), fmtGot(have, 30))
		}
		if math.Float64bits(want[i].score) != math.Float64bits(have[i].score) {
			return vlib.Failf("score-differs", "%s: position %d (%s): AllMatches score %v, top-N score %v", what, i, want[i].id, want[i].score, have[i].score)
		}
	}
	return nil
}

func clampSlice(n, from, count int) (lo, hi int) {
	lo = from
	if lo > count {
		lo = count
	}
	hi = from + n
	if hi > count {
		hi = count
	}
	if hi < lo {
		hi = lo
	}
	return
}

type reqStats struct {
	count, n, from int
	tiesAcrossCut  bool
	storeSwitch    bool
	judged         bool
	knownEmpty     bool // not judged: known finding keyEmptyKw applies
}

func (e *env) checkReq(r Req, st *reqStats) *vlib.Failure {
	full, f := e.full(r.Q)
	if f != nil {
		return f
	}
	count := len(full)
	n, from := r.N, r.From
	if r.NRel {
		n += count
	}
	if r.FromRel {
		from += count
	}
	if n < 0 {
		n = 0
	}
	if from < 0 {
		from = 0
	}
	st.count, st.n, st.from = count, n, from
	st.judged = judged(r.Keys)
	if st.judged && emptyVsMissing(r.Keys, full) {
		st.judged, st.knownEmpty = false, true
	}
	order, strs := buildOrder(r.Keys, r.Str) // a fresh order object per request
	have, f := e.topN(buildQuery(e.qs[r.Q]), n, from, order, strs, nil, nil)
	if f != nil {
		return f
	}
	lo, hi := clampSlice(n, from, count)
	what := fmt.Sprintf("query %d sort [%s]%s n=%d from=%d (%d matches)", r.Q, fmtKeys(r.Keys), map[bool]string{true: " (string form)", false: ""}[r.Str], n, from, count)
	st.storeSwitch = (n+from > 10) != (count > 10)
	if !st.judged {
		// values colliding with the missing-value sentinels: only what does not depend on the order
		if len(have) != hi-lo {
			return vlib.Failf("wrong-length", "%s: expected %d hits, got %d", what, hi-lo, len(have))
		}
		seen := map[uint64]bool{}
		for _, g := range have {
			if g.id == "" || seen[g.num] {
				return vlib.Failf("wrong-slice", "%s: hit %d is unknown or returned twice", what, g.num)
			}
			seen[g.num] = true
		}
		return nil
	}
	exp := ranked(full, r.Keys)
	cut := from + n
	if cut > 0 && cut < count && from < count && n > 0 && cmpKeys(r.Keys, exp[cut-1], exp[cut]) == 0 {
		st.tiesAcrossCut = true
	}
	return compareSlice("wrong-slice", what, exp[lo:hi], have)
}

// ---------------------------------------------------------------------------------------------
// paging chains

type chainStats struct {
	count    int
	pages    int // total pages fetched
	maxPages int // longest chain
	chains   int
	skipped  bool
	knownEmpty bool
}

func withID(keys []Key) []Key {
	for _, k := range keys {
		if k.F == "_id" {
			return keys
		}
	}
	out := append([]Key{}, keys...)
	return append(out, Key{F: "_id"})
}

func pageSizes(c Chain, count int) []int {
	set := map[int]bool{}
	add := func(p int) {
		if p >= 1 && p <= count+1 {
			set[p] = true
		}
	}
	if c.All && count <= allPagesMaxCount {
		for p := 1; p <= count+1; p++ {
			add(p)
		}
	}
	for _, p := range c.Sizes {
		add(p)
	}
	for _, r := range c.Rel {
		add(count + r)
	}
	var out []int
	for p := range set {
		out = append(out, p)
	}
	sort.Ints(out)
	return out
}

// runChains runs the After chain and the Before chain for every selected page size.  mk returns the
// order to use for one request: a fresh object every time, or the one shared object.
func (e *env) runChains(c Chain, mk func() search.SortOrder, keyPrefix string, st *chainStats) *vlib.Failure {
	full, f := e.full(c.Q)
	if f != nil {
		return f
	}
	keys := withID(c.Keys)
	if emptyVsMissing(keys, full) {
		st.skipped, st.knownEmpty = true, true
		return nil
	}
	exp := ranked(full, keys)
	count := len(exp)
	st.count = count
	q := func() bluge.Query { return buildQuery(e.qs[c.Q]) }
	desc := fmt.Sprintf("query %d sort [%s] (%d matches)", c.Q, fmtKeys(keys), count)
	for _, p := range pageSizes(c, count) {
		bound := count/p + 3
		// forward: first page without a key, then After(last hit of the previous page)
		var after [][]byte
		var lastKey [][]byte
		pos := 0
		pages := 0
		for {
			if pages > bound {
				return vlib.Failf(keyPrefix+"paging-no-end", "%s: After chain with page size %d has not ended after %d pages", desc, p, pages)
			}
			have, f := e.topN(q(), p, 0, mk(), nil, after, nil)
			if f != nil {
				return f
			}
			pages++
			if len(have) == 0 {
				break
			}
			lo, hi := clampSlice(p, pos, count)
			if f := compareSlice(keyPrefix+"after-chain", fmt.Sprintf("%s: After chain, page size %d, page %d (positions %d..%d)", desc, p, pages, lo, hi), exp[lo:hi], have); f != nil {
				return f
			}
			pos = hi
			after = have[len(have)-1].sv
			lastKey = after
		}
		if pos != count {
			return vlib.Failf(keyPrefix+"after-chain", "%s: After chain with page size %d ended after %d of %d matches", desc, p, pos, count)
		}
		st.pages += pages
		st.chains++
		if pages-1 > st.maxPages {
			st.maxPages = pages - 1
		}
		if count == 0 {
			continue
		}
		// backward: Before(key of the last match), then Before(first hit of the previous page)
		before := lastKey
		pos = count - 1
		pages = 0
		for {
			if pages > bound {
				return vlib.Failf(keyPrefix+"paging-no-end", "%s: Before chain with page size %d has not ended after %d pages", desc, p, pages)
			}
			have, f := e.topN(q(), p, 0, mk(), nil, nil, before)
			if f != nil {
				return f
			}
			pages++
			if len(have) == 0 {
				break
			}
			lo := pos - p
			if lo < 0 {
				lo = 0
			}
			if f := compareSlice(keyPrefix+"before-chain", fmt.Sprintf("%s: Before chain, page size %d, page %d (positions %d..%d, forward order)", desc, p, pages, lo, pos), exp[lo:pos], have); f != nil {
				return f
			}
			pos = lo
			before = have[0].sv
		}
		if pos != 0 {
			return vlib.Failf(keyPrefix+"before-chain", "%s: Before chain with page size %d ended with %d matches not visited", desc, p, pos)
		}
		st.pages += pages
		st.chains++
		if pages-1 > st.maxPages {
			st.maxPages = pages - 1
		}
	}
	return nil
}

func (e *env) checkChain(c Chain, st *chainStats) *vlib.Failure {
	keys := withID(c.Keys)
	fresh := func() search.SortOrder { o, _ := buildOrder(keys, false); return o }
	if !c.Shared {
		return e.runChains(c, fresh, "", st)
	}
	shared, _ := buildOrder(keys, false)
	f := e.runChains(c, func() search.SortOrder { return shared }, "", st)
	if f == nil {
		return nil
	}
	// the chain failed with one re-used search.SortOrder value: does it hold with a fresh one per request?
	var st2 chainStats
	if f2 := e.runChains(c, fresh, "", &st2); f2 != nil {
		return f2
	}
	return vlib.Failf("before-mutates-sort-order", "chain re-using one search.SortOrder value fails, the same chain with a fresh order per request holds: %s: %s", f.Key, f.Msg)
}

// ---------------------------------------------------------------------------------------------
// the property on one index case

type caseStats struct {
	reqs   []reqStats
	chains []chainStats
	live   int
	search int
}

func propIndex(c IndexCase, cs *caseStats) *vlib.Failure {
	return vlib.Watchdog("c09-index-case", 180*time.Second, func() *vlib.Failure {
		var o *opened
		if f := vlib.Guard("index-build", func() *vlib.Failure {
			var f *vlib.Failure
			o, f = openIndex(c.Index)
			return f
		}); f != nil {
			return f
		}
		defer o.cleanup()
		e := &env{o: o, qs: c.Queries, noStored: c.Index.SegV2}
		defer func() { cs.search = e.nsearch }()
		if f := e.init(); f != nil {
			return f
		}
		cs.live = len(o.model)
		for _, r := range c.Reqs {
			if r.Q < 0 || r.Q >= len(c.Queries) {
				return vlib.Failf("harness-bad-replay", "request refers to query %d", r.Q)
			}
			var st reqStats
			f := e.checkReq(r, &st)
			cs.reqs = append(cs.reqs, st)
			if f != nil {
				return f
			}
		}
		for _, ch := range c.Chains {
			if ch.Q < 0 || ch.Q >= len(c.Queries) {
				return vlib.Failf("harness-bad-replay", "chain refers to query %d", ch.Q)
			}
			var st chainStats
			f := e.checkChain(ch, &st)
			cs.chains = append(cs.chains, st)
			if f != nil {
				return f
			}
		}
		return nil
	})
}

func (c IndexCase) summary() map[string]interface{} {
	nops, ndel, nupd := 0, 0, 0
	for _, b := range c.Index.Batches {
		for _, op := range b {
			nops++
			switch op.Kind {
			case "del":
				ndel++
			case "upd":
				nupd++
			}
		}
	}
	var first []Op
	if len(c.Index.Batches) > 0 {
		first = c.Index.Batches[0]
		if len(first) > 3 {
			first = first[:3]
		}
	}
	reqs := c.Reqs
	if len(reqs) > 4 {
		reqs = reqs[:4]
	}
	return map[string]interface{}{"kind": "index-summary", "fs": c.Index.FS, "reopen": c.Index.Reopen, "merge": c.Index.Merge, "seg_v2": c.Index.SegV2,
		"batches": len(c.Index.Batches), "ops": nops, "updates": nupd, "deletes": ndel, "first_ops": first,
		"queries": c.Queries, "first_requests": reqs, "requests": len(c.Reqs), "chains": c.Chains}
}

func TestC09Index(t *testing.T) {
	vlib.Check(t, 100, 250, func(rt *rapid.T) {
		c := genIndexCase(rt)
		var cs caseStats
		f := propIndex(c, &cs)
		// evidence: one evaluation per request and per chain
		idxCanon := fmt.Sprintf("%x", vlib.Hash64(vlib.Canon(c.Index)))
		nbatches, ndel, nupd := 0, 0, 0
		for _, b := range c.Index.Batches {
			if len(b) > 0 {
				nbatches++
			}
			for _, op := range b {
				switch op.Kind {
				case "del":
					ndel++
				case "upd":
					nupd++
				}
			}
		}
		ev.Class("idx", 1)
		if c.Index.FS {
			ev.Class("idx:file-system", 1)
			if c.Index.Reopen {
				ev.Class("idx:file-system-reopened", 1)
			}
		} else {
			ev.Class("idx:in-memory", 1)
		}
		if c.Index.Merge {
			ev.Class("idx:merger-enabled", 1)
		}
		if c.Index.SegV2 {
			ev.Class("idx:segment-version-2", 1)
		}
		if nbatches >= 3 {
			ev.Class("idx:batches>=3", 1)
		}
		if ndel > 0 {
			ev.Class("idx:with-deletes", 1)
		}
		if nupd > 0 {
			ev.Class("idx:with-updates", 1)
		}
		if cs.live >= 100 {
			ev.Class("idx:live>=100", 1)
		}
		ev.AddExtra("searches_executed", cs.search)
		anyNT := false
		for i, st := range cs.reqs {
			r := c.Reqs[i]
			nt := st.judged && (st.tiesAcrossCut || st.storeSwitch)
			anyNT = anyNT || nt
			cls := []string{"req", fmt.Sprintf("req:keys=%d", len(r.Keys))}
			if st.knownEmpty {
				cls = append(cls, "req:unjudged-known-"+keyEmptyKw)
			} else if !st.judged {
				cls = append(cls, "req:unjudged-sentinel-collision")
			}
			if st.tiesAcrossCut {
				cls = append(cls, "req:ties-across-cut")
			}
			if st.storeSwitch {
				cls = append(cls, "req:store-switch-side-differs")
			}
			if r.Str {
				cls = append(cls, "req:string-form")
			}
			for _, k := range r.Keys {
				cls = append(cls, "req:key:"+k.F)
			}
			if hasField(r.Keys, "mv") || hasField(r.Keys, "mn") {
				cls = append(cls, "req:multi-valued-key")
			}
			switch {
			case st.n == 0:
				cls = append(cls, "req:n=0")
			case st.from >= st.count:
				cls = append(cls, "req:from>=count")
			case st.from+st.n >= st.count:
				cls = append(cls, "req:slice-reaches-end")
			}
			if st.n+st.from > 10 {
				cls = append(cls, "req:heap-store")
			} else {
				cls = append(cls, "req:slice-store")
			}
			if st.count == 0 {
				cls = append(cls, "req:no-match")
			}
			ev.Case(idxCanon+vlib.Canon(r), nt, cls...)
		}
		for i, st := range cs.chains {
			ch := c.Chains[i]
			nt := st.maxPages >= 3
			anyNT = anyNT || nt
			cls := []string{"chain"}
			if st.knownEmpty {
				cls = append(cls, "chain:not-run-known-"+keyEmptyKw)
			}
			if ch.Shared {
				cls = append(cls, "chain:shared-order")
			}
			if st.maxPages >= 3 {
				cls = append(cls, "chain:pages>=3")
			}
			if st.count <= allPagesMaxCount && !st.knownEmpty {
				cls = append(cls, "chain:every-page-size")
			}
			ev.Case(idxCanon+vlib.Canon(ch), nt, cls...)
			ev.AddExtra("chain_pages_fetched", st.pages)
			ev.AddExtra("chains_run", st.chains)
		}
		ev.Sample(c.summary(), anyNT)
		vlib.Report(rt, ev, "index", c, f)
	})
}

func hasField(keys []Key, f string) bool {
	for _, k := range keys {
		if k.F == f {
			return true
		}
	}
	return false
}

// ---------------------------------------------------------------------------------------------
// replay

var replayFns = map[string]vlib.ReplayFn{
	"index": func(raw json.RawMessage) *vlib.Failure {
		var c IndexCase
		if f := vlib.Decode(raw, &c); f != nil {
			return f
		}
		var cs caseStats
		return propIndex(c, &cs)
	},
	"stub": func(raw json.RawMessage) *vlib.Failure {
		var c StubCase
		if f := vlib.Decode(raw, &c); f != nil {
			return f
		}
		var st stubStats
		return propStub(c, &st)
	},
	"shared-order": func(raw json.RawMessage) *vlib.Failure {
		return probeSharedOrder()
	},
}

func TestReplay(t *testing.T)  { vlib.ReplayMain(t, ev, replayFns) }
func TestRegress(t *testing.T) { vlib.RegressMain(t, ev, replayFns) }
