// C02  An acknowledged batch survives any later crash.
package c02

import (
	"encoding/json"
	"fmt"
	"os"
	"testing"
	"time"

	"github.com/blugelabs/bluge/index"
	"pgregory.net/rapid"

	"verifharness/vlib"
)

func TestMain(m *testing.M) { vlib.Main(m) }

var ev = vlib.NewEvidence("C02",
	"fault enumeration over crash points: a rapid-generated batch history runs on the real file-system directory behind a recording wrapper; post hoc every crash image "+
		"(content after each persist/remove, and every torn variant of the persist in flight: each prefix length of a snapshot file, a boundary set of prefix lengths of a segment file, "+
		"zero-filled, old-file-intact) is materialised and opened; the recovered document multiset must equal the abstract index after a prefix of the batch sequence that contains "+
		"every batch acknowledged (safe: nil return; unsafe: persisted-callback(nil)) before the crash instant. evaluations = images opened; distinct non-trivial = distinct images "+
		"(by content hash, per run) whose crash instant lies after >= 1 acknowledgement and whose admissible state range excludes the empty state")

// Case is one recorded run.
type Case struct {
	Conf    vlib.IdxConf     `json:"conf"`
	Batches []vlib.BatchSpec `json:"batches"`
	// HoldSnapshots > 0: the persister's snapshot writes are delayed until that many more
	// batches were issued (unsafe mode only), so that several batches share one snapshot.
	HoldSnapshots int `json:"hold_snapshots,omitempty"`
	// Nudges delay a background step (named like a gate point: role:op.kind:phase) until N more
	// batches were issued or 30 ms passed: cheap schedule steering without blocking anything
	Nudges []Nudge `json:"nudges,omitempty"`
	// Window, if set, replaces the plain batch loop by a gated window scenario (unsafe mode):
	// crash points inside an in-memory merge, a file merge or a pending snapshot write
	Window *vlib.WindowScenario `json:"window,omitempty"`
}

// Nudge is one schedule nudge.
type Nudge struct {
	Point string `json:"point"`
	N     int    `json:"n"`
}

var nudgePoints = []string{"persister:persist.seg:begin", "persister:persist.snp:begin", "merger:persist.seg:begin", "merger:persist.seg:end",
	"merger:load.seg:begin", "persister:remove.snp:begin", "persister:remove.seg:begin", "persister:load.seg:begin"}

func gen(t *rapid.T) Case {
	c := Case{Conf: vlib.IdxConf{Dir: "fs",
		SegVer:    rapid.SampledFrom([]int{1, 1, 2}).Draw(t, "segVer"),
		Unsafe:    rapid.Bool().Draw(t, "unsafe"),
		Merge:     rapid.SampledFrom([]string{"default", "default", "pairs", "none", "nomem"}).Draw(t, "merge"),
		Retention: rapid.SampledFrom([]int{1, 1, 2, 3}).Draw(t, "retention")}}
	g := vlib.NewHistGen(6)
	n := rapid.IntRange(1, 15).Draw(t, "nBatches")
	for i := 0; i < n; i++ {
		maxOps := 3
		if rapid.IntRange(0, 4).Draw(t, "big") == 0 {
			maxOps = 6
		}
		c.Batches = append(c.Batches, g.Batch(t, maxOps))
	}
	if c.Conf.Unsafe && rapid.IntRange(0, 2).Draw(t, "window") > 0 {
		w := &vlib.WindowScenario{Hold: rapid.SampledFrom(vlib.WindowHolds).Draw(t, "windowHold")}
		if c.Conf.Merge == "none" || c.Conf.Merge == "nomem" {
			c.Conf.Merge = "default"
		}
		k := len(c.Batches)
		a, b := k/3+1, 2*k/3+1
		if a > k {
			a = k
		}
		if b > k {
			b = k
		}
		w.Seed, w.Window, w.After = c.Batches[:a], c.Batches[a:b], c.Batches[b:]
		if len(w.Seed) < 3 {
			// at least three seed batches so that segments pile up for the in-memory merge
			for len(w.Seed) < 3 {
				w.Seed = append(append([]vlib.BatchSpec(nil), w.Seed...), g.Batch(t, 2))
			}
		}
		c.Batches = nil
		c.Window = w
		return c
	}
	if c.Conf.Unsafe && rapid.Bool().Draw(t, "hold") {
		c.HoldSnapshots = rapid.IntRange(1, 3).Draw(t, "holdN")
	}
	if c.Conf.Unsafe {
		nn := rapid.IntRange(0, 2).Draw(t, "nNudges")
		for i := 0; i < nn; i++ {
			c.Nudges = append(c.Nudges, Nudge{Point: rapid.SampledFrom(nudgePoints).Draw(t, "nudgePoint"), N: rapid.IntRange(1, 3).Draw(t, "nudgeN")})
		}
	} else if rapid.Bool().Draw(t, "mergerNudge") {
		// in safe mode only the merger and clean-up can be delayed (the client waits for the persister)
		c.Nudges = append(c.Nudges, Nudge{Point: rapid.SampledFrom([]string{"merger:persist.seg:begin", "merger:persist.seg:end", "merger:load.seg:begin"}).Draw(t, "nudgePoint"), N: rapid.IntRange(1, 2).Draw(t, "nudgeN")})
	}
	return c
}

type stats struct {
	images, afterAck, torn, tornSnapshot, openFailedAllowed int
	windowParked                                            bool
	ntKeys                                                 []string
}

func prop(c Case, st *stats) *vlib.Failure {
	path := vlib.NewScratchDir("c02")
	defer os.RemoveAll(path)
	var rr *vlib.RecordedRun
	issued := make(chan struct{}, 64)
	tweak := func(ic index.Config, d *vlib.RecDir) index.Config {
		if len(c.Nudges) > 0 {
			d.Gate = func(phase string, e *vlib.DirEvent) {
				if e.Op != "persist" && e.Op != "load" && e.Op != "remove" {
					return
				}
				pt := fmt.Sprintf("%s:%s%s:%s", vlib.Role(), e.Op, e.Kind, phase)
				for _, n := range c.Nudges {
					if n.Point != pt {
						continue
					}
					for k := 0; k < n.N; k++ {
						select {
						case <-issued:
						case <-timeAfterShort():
							return
						}
					}
				}
			}
		} else if c.HoldSnapshots > 0 {
			d.Gate = func(phase string, e *vlib.DirEvent) {
				if phase == "begin" && e.Op == "persist" && e.Kind == index.ItemKindSnapshot {
					// wait (bounded) for more batches to be issued; purely a schedule nudge
					for k := 0; k < c.HoldSnapshots; k++ {
						select {
						case <-issued:
						case <-timeAfterShort():
							return
						}
					}
				}
			}
		}
		return ic
	}
	gates := vlib.NewGates()
	if c.Window != nil {
		tweak = vlib.WindowTweak(gates)
	}
	rr, f := vlib.StartRecordedRun(c.Conf, path, nil, tweak)
	if f != nil {
		return f
	}
	m := vlib.NewModel()
	if c.Window != nil {
		defer gates.OpenAll()
		parked, f := vlib.RunWindowScenario(rr, gates, *c.Window, func(b vlib.BatchSpec) *vlib.Failure {
			if f := rr.Batch(b); f != nil {
				return f
			}
			m.Apply(b)
			return nil
		})
		if f != nil {
			gates.OpenAll()
			_ = rr.Finish(false)
			return f
		}
		st.windowParked = parked
	}
	for _, b := range c.Batches {
		if f := rr.Batch(b); f != nil {
			_ = rr.Finish(false)
			return f
		}
		select {
		case issued <- struct{}{}:
		default:
		}
		m.Apply(b)
	}
	for j, e := range rr.Rec.CallErr {
		if e != "" {
			_ = rr.Finish(false)
			return vlib.Failf("batch-error", "batch %d returned %s without any injected fault", j, e)
		}
	}
	if f := rr.Finish(true); f != nil {
		return f
	}
	if c.Conf.Unsafe {
		for j, a := range rr.Rec.Ack {
			if a == 0 {
				return vlib.Failf("callback-missing", "unsafe batch %d: persisted callback was never invoked with nil although the writer was closed after waiting for it", j)
			}
		}
	}
	return checkImages(c.Conf, rr.Rec, m, st, path+"-img")
}

func checkImages(conf vlib.IdxConf, rec *vlib.RunRecord, m *vlib.Model, st *stats, imgDir string) *vlib.Failure {
	defer os.RemoveAll(imgDir)
	opt := vlib.ImageOpts{AllPrefixesUpTo: 0}
	if vlib.Thorough() {
		opt.AllPrefixesUpTo = 8 << 10
	}
	images := vlib.BuildImages(rec.Trace, rec.Blobs, opt)
	ids := m.SortedIDs()
	for _, im := range images {
		recd, f := vlib.OpenImage(conf, im, rec.Blobs, imgDir, ids)
		if f != nil {
			return f
		}
		st.images++
		if im.Kind != "boundary" {
			st.torn++
			if len(im.Note) > 16 && im.Note[12:16] == ".snp" {
				st.tornSnapshot++
			}
		}
		if recd.Obs == nil {
			st.openFailedAllowed++
		}
		_, f = vlib.CheckRecovered(rec, m, im, recd)
		if f != nil {
			return f
		}
		for _, iv := range im.Intervals {
			if lo, _ := rec.StateRange(iv); lo > 0 {
				st.afterAck++
				st.ntKeys = append(st.ntKeys, im.Key())
				break
			}
		}
	}
	return nil
}

func timeAfterShort() <-chan time.Time { return time.After(30 * time.Millisecond) }

func TestC02Durability(t *testing.T) {
	vlib.Check(t, 16, 24, func(rt *rapid.T) {
		c := gen(rt)
		var st stats
		f := vlib.Guard("run", func() *vlib.Failure { return prop(c, &st) })
		cls := []string{fmt.Sprintf("segver:%d", c.Conf.SegVer), "merge:" + c.Conf.Merge, fmt.Sprintf("retention:%d", c.Conf.Retention)}
		if c.Conf.Unsafe {
			cls = append(cls, "unsafe")
		} else {
			cls = append(cls, "safe")
		}
		if c.HoldSnapshots > 0 {
			cls = append(cls, "held-snapshots")
		}
		for _, n := range c.Nudges {
			cls = append(cls, "nudge:"+n.Point)
		}
		if c.Window != nil {
			cls = append(cls, "window:"+c.Window.Hold)
			if st.windowParked {
				cls = append(cls, "window-parked:"+c.Window.Hold)
			}
		}
		canon := vlib.Canon(c)
		ev.Case(canon, false, append(cls, "runs")...)
		ev.Evals(st.images - 1)
		for _, k := range st.ntKeys {
			ev.NonTrivial(canon + "|" + k)
		}
		ev.AddExtra("images_opened", st.images)
		ev.AddExtra("images_after_an_ack", st.afterAck)
		ev.AddExtra("torn_images", st.torn)
		ev.AddExtra("torn_snapshot_images", st.tornSnapshot)
		ev.AddExtra("open_failed_before_first_snapshot", st.openFailedAllowed)
		if len(c.Batches) <= 3 && c.Window == nil {
			ev.Sample(map[string]interface{}{"case": c, "images": st.images, "images_after_ack": st.afterAck}, st.afterAck > 0)
		}
		vlib.Report(rt, ev, "durability", c, f)
	})
}

var replayFns = map[string]vlib.ReplayFn{
	"durability": func(raw json.RawMessage) *vlib.Failure {
		var c Case
		if f := vlib.Decode(raw, &c); f != nil {
			return f
		}
		var st stats
		return prop(c, &st)
	},
}

func TestReplay(t *testing.T)  { vlib.ReplayMain(t, ev, replayFns) }
func TestRegress(t *testing.T) { vlib.RegressMain(t, ev, replayFns) }
