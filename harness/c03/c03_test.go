// C03  Crash recovery is atomic, prefix-consistent and repeatable.
package c03

import (
	"encoding/json"
	"fmt"
	"os"
	"strings"
	"testing"

	"github.com/blugelabs/bluge/index"
	"pgregory.net/rapid"

	"verifharness/vlib"
)

func TestMain(m *testing.M) { vlib.Main(m) }

var ev = vlib.NewEvidence("C03",
	"fault enumeration over crash points and crash/recover/continue/crash sequences: phase 1 runs a generated batch history on the real file-system directory behind a recording "+
		"wrapper; every crash image (boundary and torn variants: prefix lengths, zero-filled, prefix + stale tail when the implementation was observed to write over an old file, old file intact) "+
		"is opened read-only AND by a recovering writer; both must expose the abstract index after one prefix of the applied batch sequence (>= last acknowledged batch), never a partial batch, "+
		"a resurrected, duplicated or lost document. From selected images (torn snapshots preferred) a recovering writer applies a generated continuation history, whose own crash images "+
		"are checked the same way against the sequence [recovered prefix + continuation] (depth 2 quick, depth 3 thorough). evaluations = images opened; distinct non-trivial = distinct images "+
		"that are torn, or whose newest snapshot file is unloadable so that recovery falls back, or that belong to depth >= 2")

// Case is a crash/recover/continue tree.
type Case struct {
	Conf   vlib.IdxConf       `json:"conf"`
	Phases [][]vlib.BatchSpec `json:"phases"` // batches of phase 1, 2, (3)
	Picks  []int              `json:"picks"`  // which images to continue from (index modulo #candidates)
	// Window, if set, drives phase 1 as a gated window scenario (crash points inside an in-memory
	// merge, a file merge or a pending snapshot write); Phases[0] is then unused
	Window *vlib.WindowScenario `json:"window,omitempty"`
}

func gen(t *rapid.T) Case {
	c := Case{Conf: vlib.IdxConf{Dir: "fs",
		SegVer:    rapid.SampledFrom([]int{1, 1, 2}).Draw(t, "segVer"),
		Unsafe:    rapid.Bool().Draw(t, "unsafe"),
		Merge:     rapid.SampledFrom([]string{"default", "default", "pairs", "none"}).Draw(t, "merge"),
		Retention: rapid.SampledFrom([]int{1, 1, 2, 3}).Draw(t, "retention")}}
	g := vlib.NewHistGen(5)
	depth := 2
	if vlib.Thorough() && rapid.Bool().Draw(t, "depth3") {
		depth = 3
	}
	for d := 0; d < depth; d++ {
		lo, hi := 2, 10
		if d > 0 {
			lo, hi = 1, 6
		}
		n := rapid.IntRange(lo, hi).Draw(t, "nBatches")
		var bs []vlib.BatchSpec
		for i := 0; i < n; i++ {
			// continuation histories are biased to small batches so that the re-used snapshot
			// file name is written with fewer bytes than the stale file holds
			maxOps := 3
			if d > 0 {
				maxOps = 2
			}
			bs = append(bs, g.Batch(t, maxOps))
		}
		c.Phases = append(c.Phases, bs)
	}
	if c.Conf.Unsafe && rapid.IntRange(0, 2).Draw(t, "window") > 0 {
		if c.Conf.Merge == "none" {
			c.Conf.Merge = "default"
		}
		w := &vlib.WindowScenario{Hold: rapid.SampledFrom(vlib.WindowHolds).Draw(t, "windowHold")}
		for i := 0; i < 3; i++ {
			w.Seed = append(w.Seed, g.Batch(t, 2))
		}
		for i, n := 0, rapid.IntRange(1, 4).Draw(t, "nWindow"); i < n; i++ {
			w.Window = append(w.Window, g.Batch(t, 3))
		}
		for i, n := 0, rapid.IntRange(0, 2).Draw(t, "nAfter"); i < n; i++ {
			w.After = append(w.After, g.Batch(t, 3))
		}
		c.Window = w
	}
	np := rapid.IntRange(2, 5).Draw(t, "nPicks")
	for i := 0; i < np; i++ {
		c.Picks = append(c.Picks, rapid.IntRange(0, 1<<16).Draw(t, "pick"))
	}
	return c
}

type stats struct {
	images, torn, fallback, deep, writerOpens, continuations, openFailedAllowed, staleTail, windowParked, handlePairings int
	nt                                                                                  []string
}

// runPhase executes phase d on directory dir (holding a crash image, or empty), checks all its
// crash images, and recurses into selected images.
func runPhase(c Case, d int, dir string, prior []vlib.BatchSpec, hadSnapshot bool, st *stats) *vlib.Failure {
	var gates *vlib.Gates
	var tweak func(ic index.Config, d *vlib.RecDir) index.Config
	if d == 0 && c.Window != nil {
		gates = vlib.NewGates()
		tweak = vlib.WindowTweak(gates)
		defer gates.OpenAll()
	}
	rr, f := vlib.StartRecordedRun(c.Conf, dir, nil, tweak)
	if f != nil {
		if f.Key == "open-writer-error" && !hadSnapshot {
			st.openFailedAllowed++
			return nil
		}
		return f
	}
	// the recovering writer must see exactly the recovered prefix
	m := vlib.NewModel()
	for _, b := range prior {
		m.Apply(b)
	}
	if d > 0 {
		st.writerOpens++
		if f := rr.X.CheckModel(fmt.Sprintf("depth %d: recovering writer", d), m, ev); f != nil {
			_ = rr.Finish(false)
			if f.Key == "content-mismatch" || f.Key == "document-lost" || f.Key == "document-extra" {
				f.Key = "writer-reader-disagree"
			}
			return f
		}
	}
	rec := rr.Rec
	// the prior batches count as applied and acknowledged before this phase
	for _, b := range prior {
		rec.Batches = append(rec.Batches, b)
		rec.CallBegin = append(rec.CallBegin, 0)
		rec.CallEnd = append(rec.CallEnd, 0)
		rec.CallErr = append(rec.CallErr, "")
		rec.Ack = append(rec.Ack, -1) // "before everything"
	}
	phase := c.Phases[d]
	if gates != nil {
		phase = nil
		parked, f := vlib.RunWindowScenario(rr, gates, *c.Window, func(b vlib.BatchSpec) *vlib.Failure {
			if f := rr.Batch(b); f != nil {
				return f
			}
			m.Apply(b)
			return nil
		})
		if f != nil {
			gates.OpenAll()
			_ = rr.Finish(false)
			return f
		}
		if parked {
			st.windowParked++
		}
	}
	for _, b := range phase {
		if f := rr.Batch(b); f != nil {
			_ = rr.Finish(false)
			return f
		}
		m.Apply(b)
	}
	for j, e := range rec.CallErr {
		if e != "" {
			_ = rr.Finish(false)
			return vlib.Failf("batch-error", "depth %d: batch %d returned %s without any injected fault", d, j, e)
		}
	}
	if f := rr.Finish(true); f != nil {
		return f
	}
	// a writer that recovered from a crash image (torn snapshots included) and was closed has
	// given back every item it loaded: an item still held would refuse a later Persist or Remove
	// of its name
	if op, cl, dbl := rr.Dir.OpenHandles(); op != cl || dbl != 0 {
		return vlib.Failf("handle-pairing-after-close", "depth %d: the writer loaded %d items through the directory, %d were closed once, %d more than once after Close", d, op, cl, dbl)
	}
	st.handlePairings++
	rec.HadSnapshot = hadSnapshot

	opt := vlib.ImageOpts{}
	if vlib.Thorough() && d == 0 {
		opt.AllPrefixesUpTo = 16 << 10 // every prefix length of every file of the first phase
	}
	images := vlib.BuildImages(rec.Trace, rec.Blobs, opt)
	ids := m.SortedIDs()
	imgDir := dir + fmt.Sprintf("-i%d", d)
	defer os.RemoveAll(imgDir)
	type cand struct {
		im    *vlib.Image
		state int
		obs   bool
	}
	var tornSnap, others []cand
	for _, im := range images {
		recd, f := vlib.OpenImage(c.Conf, im, rec.Blobs, imgDir, ids)
		if f != nil {
			return f
		}
		st.images++
		state, f := vlib.CheckRecovered(rec, m, im, recd)
		if f != nil {
			f.Msg = fmt.Sprintf("depth %d: %s", d+1, f.Msg)
			return f
		}
		nontrivial := d > 0
		if im.Kind != "boundary" {
			st.torn++
			nontrivial = true
		}
		if im.Kind == "torn-stale" {
			st.staleTail++
		}
		if d > 0 {
			st.deep++
		}
		if recd.Obs == nil {
			st.openFailedAllowed++
		} else if newestSnapshotUnloadable(im, rec, state, m) {
			st.fallback++
			nontrivial = true
		}
		if nontrivial {
			st.nt = append(st.nt, fmt.Sprintf("d%d|%s", d, im.Key()))
		}
		cd := cand{im, state, recd.Obs != nil}
		if im.Kind != "boundary" && strings.Contains(im.Note, index.ItemKindSnapshot) {
			tornSnap = append(tornSnap, cd)
		} else {
			others = append(others, cd)
		}
	}
	if d+1 >= len(c.Phases) {
		return nil
	}
	// continue from selected images
	for pi, pick := range c.Picks {
		if d > 0 && pi >= 2 {
			break // keep the tree small below the first level
		}
		pool := others
		if pi%2 == 0 && len(tornSnap) > 0 {
			pool = tornSnap
		}
		if len(pool) == 0 {
			continue
		}
		cd := pool[pick%len(pool)]
		next := dir + fmt.Sprintf("-c%d_%d", d, pi)
		if err := vlib.Materialize(cd.im, rec.Blobs, next); err != nil {
			return vlib.Failf("harness-materialize", "%v", err)
		}
		var prefix []vlib.BatchSpec
		if cd.state > 0 {
			prefix = append(prefix, rec.Batches[:cd.state]...)
		}
		st.continuations++
		f := runPhase(c, d+1, next, prefix, cd.obs, st)
		_ = os.RemoveAll(next)
		if f != nil {
			f.Msg = fmt.Sprintf("[continuing from image %s (%s) of depth %d, recovered state S_%d] %s", cd.im.Kind, cd.im.Note, d+1, cd.state, f.Msg)
			return f
		}
	}
	return nil
}

// newestSnapshotUnloadable: the image holds a snapshot file newer than the one that was
// recovered (recovery had to fall back).
func newestSnapshotUnloadable(im *vlib.Image, rec *vlib.RunRecord, state int, m *vlib.Model) bool {
	if im.Kind == "boundary" {
		return false
	}
	return strings.Contains(im.Note, index.ItemKindSnapshot)
}

func prop(c Case, st *stats) *vlib.Failure {
	dir := vlib.NewScratchDir("c03")
	defer os.RemoveAll(dir)
	return runPhase(c, 0, dir, nil, false, st)
}

func TestC03Recovery(t *testing.T) {
	vlib.Check(t, 8, 10, func(rt *rapid.T) {
		c := gen(rt)
		var st stats
		f := vlib.Guard("run", func() *vlib.Failure { return prop(c, &st) })
		cls := []string{fmt.Sprintf("segver:%d", c.Conf.SegVer), "merge:" + c.Conf.Merge, fmt.Sprintf("retention:%d", c.Conf.Retention), fmt.Sprintf("depth:%d", len(c.Phases))}
		if c.Conf.Unsafe {
			cls = append(cls, "unsafe")
		} else {
			cls = append(cls, "safe")
		}
		if c.Window != nil {
			cls = append(cls, "window:"+c.Window.Hold)
			if st.windowParked > 0 {
				cls = append(cls, "window-parked:"+c.Window.Hold)
			}
		}
		canon := vlib.Canon(c)
		ev.Case(canon, false, append(cls, "trees")...)
		if st.images > 1 {
			ev.Evals(st.images - 1)
		}
		for _, k := range st.nt {
			ev.NonTrivial(canon + "|" + k)
		}
		ev.AddExtra("images_opened", st.images)
		ev.AddExtra("torn_images", st.torn)
		ev.AddExtra("torn_stale_tail_images", st.staleTail)
		ev.AddExtra("fallback_images", st.fallback)
		ev.AddExtra("images_at_depth_2_or_more", st.deep)
		ev.AddExtra("recovering_writer_opens", st.writerOpens)
		ev.AddExtra("writers_closed_with_every_loaded_item_released", st.handlePairings)
		ev.AddExtra("continuations", st.continuations)
		ev.AddExtra("open_failed_before_first_snapshot", st.openFailedAllowed)
		if len(c.Phases[0]) <= 3 {
			ev.Sample(map[string]interface{}{"case": c, "images": st.images, "continuations": st.continuations}, st.continuations > 0)
		}
		vlib.Report(rt, ev, "recovery", c, f)
	})
}

var replayFns = map[string]vlib.ReplayFn{
	"recovery": func(raw json.RawMessage) *vlib.Failure {
		var c Case
		if f := vlib.Decode(raw, &c); f != nil {
			return f
		}
		var st stats
		return prop(c, &st)
	},
}

func TestReplay(t *testing.T)  { vlib.ReplayMain(t, ev, replayFns) }
func TestRegress(t *testing.T) { vlib.RegressMain(t, ev, replayFns) }
