// C08  Search answers depend only on the logical documents, not the layout.
//
// model_test.go: the JSON-serialisable case (corpus, two build recipes, requests) and the
// generators.  All randomness is rapid draws.
package c08

import (
	"encoding/json"
	"fmt"
	"math"
	"sort"
	"strconv"
	"strings"

	"pgregory.net/rapid"

	"verifharness/vlib"
)

// ---------------------------------------------------------------------------------------------
// corpus

// Doc is the logical content of one document.
//
//	t  text, analysed by the standard analyser, stored, with positions (0-2 values)
//	u  text, analysed, without positions, not stored (0-1 value): terms that occur once in a
//	   merged segment get the "1-hit" postings encoding the optimised searchers special-case
//	k  keyword, stored, sortable, aggregatable (0-2 distinct values)
//	n  numeric on a quarter grid (exactly summable), stored, sortable, aggregatable (0-2 distinct)
//	x  numeric, arbitrary finite floats (tolerance class), sortable, aggregatable (0-1)
//	d  date (unix ns), sortable, aggregatable (0-1)
type Doc struct {
	ID string    `json:"id"`
	T  []string  `json:"t,omitempty"`
	U  []string  `json:"u,omitempty"`
	K  []string  `json:"k,omitempty"`
	N  []float64 `json:"n,omitempty"`
	X  []float64 `json:"x,omitempty"`
	D  []int64   `json:"d,omitempty"`
}

// Op is one operation of a batch: "ins" inserts corpus document I, "upd" rewrites corpus
// document I with identical content (bluge Update), "junk" inserts junk document I, "del"
// deletes junk document I.
type Op struct {
	K string `json:"k"`
	I int    `json:"i"`
}

// Recipe is one way of building an index (or k indexes) holding the corpus.
type Recipe struct {
	Kind string       `json:"kind"` // writer | offline | multi
	Conf vlib.IdxConf `json:"conf"`
	// Parts[p] is the batch list of index p (one part for writer/offline; k parts for multi).
	// For the offline writer the operations of Parts[0] are the insertion order.
	Parts     [][][]Op `json:"parts"`
	OffBatch  int      `json:"off_batch,omitempty"` // offline writer: batch size argument
	Open      string   `json:"open"`                // nrt | reopen | backup
	Settle    bool     `json:"settle,omitempty"`    // nrt on a merging writer: let the merger finish first (bounded)
	NoConj    bool     `json:"no_conj,omitempty"`   // DisableOptimizeConjunction
	NoConjU   bool     `json:"no_conj_u,omitempty"` // DisableOptimizeConjunctionUnadorned
	NoDisjU   bool     `json:"no_disj_u,omitempty"` // DisableOptimizeDisjunctionUnadorned
	ScoreNone bool     `json:"score_none,omitempty"`
}

// F is a float64 that survives JSON when infinite.
type F float64

func (f F) MarshalJSON() ([]byte, error) {
	v := float64(f)
	switch {
	case math.IsInf(v, 1):
		return []byte(`"+inf"`), nil
	case math.IsInf(v, -1):
		return []byte(`"-inf"`), nil
	}
	return []byte(strconv.FormatFloat(v, 'g', -1, 64)), nil
}

func (f *F) UnmarshalJSON(b []byte) error {
	if len(b) > 0 && b[0] == '"' {
		var s string
		if err := json.Unmarshal(b, &s); err != nil {
			return err
		}
		switch s {
		case "+inf":
			*f = F(math.Inf(1))
		case "-inf":
			*f = F(math.Inf(-1))
		default:
			return fmt.Errorf("bad float %q", s)
		}
		return nil
	}
	v, err := strconv.ParseFloat(string(b), 64)
	*f = F(v)
	return err
}

// Q is a query tree.
type Q struct {
	Kind      string  `json:"kind"` // term match phrase prefix wildcard fuzzy trange range all none bool
	Field     string  `json:"field,omitempty"`
	Text      string  `json:"text,omitempty"`
	Text2     string  `json:"text2,omitempty"` // trange: upper end
	And       bool    `json:"and,omitempty"`   // match: operator and
	Slop      int     `json:"slop,omitempty"`
	Fuzz      int     `json:"fuzz,omitempty"`
	Lo        F       `json:"lo,omitempty"`
	Hi        F       `json:"hi,omitempty"`
	LoInc     bool    `json:"lo_inc,omitempty"`
	HiInc     bool    `json:"hi_inc,omitempty"`
	Boost     float64 `json:"boost,omitempty"` // 0: not set
	Must      []Q     `json:"must,omitempty"`
	Should    []Q     `json:"should,omitempty"`
	MustNot   []Q     `json:"must_not,omitempty"`
	MinShould int     `json:"min_should,omitempty"`
}

// Rng is one numeric range bucket [Lo,Hi).
type Rng struct {
	Lo F `json:"lo"`
	Hi F `json:"hi"`
}

// Agg is one aggregation.
type Agg struct {
	Kind   string  `json:"kind"` // count sum min max terms ranges dranges
	Field  string  `json:"field,omitempty"`
	Size   int     `json:"size,omitempty"`
	Ranges []Rng   `json:"ranges,omitempty"`
	DCuts  []int64 `json:"dcuts,omitempty"` // dranges: boundaries, buckets (-inf,c0) [c0,c1) ... [cn,+inf)
}

// Req is one search request, evaluated on both sides.
type Req struct {
	Q    Q        `json:"q"`
	Sort []string `json:"sort,omitempty"` // empty: ids request (sorted by _id); "-_score" first: score sort
	N    int      `json:"n,omitempty"`    // 0: all
	From int      `json:"from,omitempty"`
	Aggs []Agg    `json:"aggs,omitempty"`
}

// Case is one generated case.
type Case struct {
	Docs []Doc   `json:"docs"`
	Junk []Doc   `json:"junk,omitempty"`
	A    Recipe  `json:"a"`
	B    Recipe  `json:"b"`
	Reqs []Req   `json:"reqs"`
	XAbs float64 `json:"-"`
}

// ---------------------------------------------------------------------------------------------
// recipe predicates (pure functions of the recipe)

func (r *Recipe) ops() (n int) {
	for _, p := range r.Parts {
		for _, b := range p {
			n += len(b)
		}
	}
	return
}

// hasDeletes: the build deletes something (identical rewrites, junk): deletions may be pending
// in the searched index, so scores are not comparable (document frequencies count deleted
// documents until a merge drops them).
func (r *Recipe) hasDeletes() bool {
	for _, p := range r.Parts {
		for _, b := range p {
			for _, o := range b {
				if o.K == "upd" || o.K == "del" {
					return true
				}
			}
		}
	}
	return false
}

// offlineSegments is the number of segments the offline writer creates before its final merge.
func (r *Recipe) offlineSegments() int {
	n := r.ops()
	if n == 0 {
		return 0
	}
	per := r.OffBatch + 1 // Insert flushes when batchCount > batchSize
	if per < 1 {
		per = 1
	}
	return (n + per - 1) / per
}

// mergeCapable: the searched index may contain a merged segment.  False only when merging is
// switched off through the index configuration (policy "none") and, for the offline writer, a
// single segment is written.
func (r *Recipe) mergeCapable() bool {
	switch r.Kind {
	case "offline":
		// two or more segments are merged by Close; a writer opened on the build may merge too
		return r.offlineSegments() >= 2 || (r.Open == "nrt" && r.Conf.Merge != "none")
	default:
		return r.Conf.Merge != "none"
	}
}

// batchesWithDocs counts the batches of part p that create a segment.
func (r *Recipe) batchesWithDocs(p int) int {
	n := 0
	for _, b := range r.Parts[p] {
		for _, o := range b {
			if o.K != "del" {
				n++
				break
			}
		}
	}
	return n
}

// dims renders the recipe dimensions; two recipes differ in a dimension when the strings differ.
func (r *Recipe) dims() map[string]string {
	nb := 0
	for p := range r.Parts {
		nb += len(r.Parts[p])
	}
	part := "many"
	switch {
	case r.Kind == "offline":
		part = "off" + strconv.Itoa(r.offlineSegments())
	case nb <= len(r.Parts):
		part = "one"
	case nb >= r.ops() && !r.hasDeletes():
		part = "per-doc"
	}
	merge := "merging"
	if !r.mergeCapable() {
		merge = "none"
	}
	upd, junk := false, false
	for _, p := range r.Parts {
		for _, b := range p {
			for _, o := range b {
				if o.K == "upd" {
					upd = true
				}
				if o.K == "junk" {
					junk = true
				}
			}
		}
	}
	return map[string]string{
		"kind":      r.Kind + strconv.Itoa(len(r.Parts)),
		"dir":       r.Conf.Dir,
		"segver":    strconv.Itoa(r.Conf.SegVer),
		"merge":     merge,
		"partition": part,
		"open":      r.Open,
		"rewrite":   strconv.FormatBool(upd),
		"junk":      strconv.FormatBool(junk),
		"optimize":  fmt.Sprintf("%v%v%v", r.NoConj, r.NoConjU, r.NoDisjU),
		"scoremode": strconv.FormatBool(r.ScoreNone),
	}
}

func dimNames() []string {
	return []string{"kind", "dir", "segver", "merge", "partition", "open", "rewrite", "junk", "optimize", "scoremode"}
}

func diffDims(a, b *Recipe) (n int, names []string) {
	da, db := a.dims(), b.dims()
	for _, k := range dimNames() {
		if da[k] != db[k] {
			n++
			names = append(names, k)
		}
	}
	return
}

// ---------------------------------------------------------------------------------------------
// generators

var words = []string{"ant", "bee", "cat", "dog", "eel", "fox", "gnu", "hen", "car", "cab", "Ant", "antler", "été", "東京"}
var kws = []string{"a", "ab", "abc", "b", "ba", "zz", "ü", "A b", "c", "d", "e"}
var xPool = []float64{0.1, 0.2, 0.3, 1.0 / 3, 2.5e10, -7.7, 1e-3, 123456.789, -0.5, 3.14159, 1e15 + 0.5, -2.5e10}

// skewed picks an index with a bias towards small values (common words) while leaving a tail
// of rare ones (1-hit postings lists).
func skewed(t *rapid.T, n int, label string) int {
	a := rapid.IntRange(0, n-1).Draw(t, label)
	b := rapid.IntRange(0, n-1).Draw(t, label+"2")
	if b < a {
		return b
	}
	return a
}

type params struct {
	nWords, nKws int
	origin       float64
	dateBase     int64
	dateStep     int64
}

func genParams(t *rapid.T) params {
	return params{
		nWords:   rapid.SampledFrom([]int{3, 5, 8, len(words)}).Draw(t, "nWords"),
		nKws:     rapid.SampledFrom([]int{2, 4, 7, len(kws)}).Draw(t, "nKws"),
		origin:   rapid.SampledFrom([]float64{-12, -5, 0, 3, 100}).Draw(t, "origin"),
		dateBase: rapid.SampledFrom([]int64{1577836800000000000, -315619200000000000, 951782400000000000}).Draw(t, "dateBase"),
		dateStep: rapid.SampledFrom([]int64{1000000000, 3600000000000, 86400000000000}).Draw(t, "dateStep"),
	}
}

func genDoc(t *rapid.T, p params, id string) Doc {
	d := Doc{ID: id}
	nt := rapid.SampledFrom([]int{0, 1, 1, 1, 2}).Draw(t, "nText")
	for i := 0; i < nt; i++ {
		nw := rapid.IntRange(1, 6).Draw(t, "nWords")
		var ws []string
		for j := 0; j < nw; j++ {
			ws = append(ws, words[skewed(t, p.nWords, "word")])
		}
		d.T = append(d.T, strings.Join(ws, " "))
	}
	if rapid.IntRange(0, 3).Draw(t, "hasU") > 0 {
		nw := rapid.IntRange(1, 4).Draw(t, "nUWords")
		var ws []string
		for j := 0; j < nw; j++ {
			ws = append(ws, words[skewed(t, p.nWords, "uword")])
		}
		d.U = append(d.U, strings.Join(ws, " "))
	}
	nk := rapid.SampledFrom([]int{0, 1, 1, 1, 2}).Draw(t, "nKw")
	for i := 0; i < nk; i++ {
		v := kws[skewed(t, p.nKws, "kw")]
		if !containsS(d.K, v) {
			d.K = append(d.K, v)
		}
	}
	nn := rapid.SampledFrom([]int{0, 1, 1, 1, 2}).Draw(t, "nNum")
	for i := 0; i < nn; i++ {
		v := p.origin + float64(rapid.IntRange(0, 40).Draw(t, "num"))/4
		if !containsF(d.N, v) {
			d.N = append(d.N, v)
		}
	}
	if rapid.IntRange(0, 2).Draw(t, "hasX") > 0 {
		d.X = append(d.X, rapid.SampledFrom(xPool).Draw(t, "x"))
	}
	if rapid.IntRange(0, 2).Draw(t, "hasD") > 0 {
		d.D = append(d.D, p.dateBase+int64(rapid.IntRange(0, 20).Draw(t, "date"))*p.dateStep)
	}
	return d
}

func containsS(s []string, v string) bool {
	for _, x := range s {
		if x == v {
			return true
		}
	}
	return false
}

func containsF(s []float64, v float64) bool {
	for _, x := range s {
		if x == v {
			return true
		}
	}
	return false
}

func idx(n int) []int {
	r := make([]int, n)
	for i := range r {
		r[i] = i
	}
	return r
}

func genCorpus(t *rapid.T, p params) (docs, junk []Doc) {
	var n int
	switch k := rapid.IntRange(0, 15).Draw(t, "sizeKind"); {
	case k == 0:
		n = 0
	case k <= 3:
		n = rapid.IntRange(1, 3).Draw(t, "nDocs")
	default:
		n = rapid.IntRange(4, 14).Draw(t, "nDocs")
	}
	for i := 0; i < n; i++ {
		docs = append(docs, genDoc(t, p, fmt.Sprintf("d%02d", i)))
	}
	// a multiset: now and then one document is present twice (same id, same content)
	if n >= 2 && rapid.IntRange(0, 7).Draw(t, "dup") == 0 {
		docs = append(docs, docs[rapid.IntRange(0, n-1).Draw(t, "dupOf")])
	}
	for i := 0; i < 3; i++ {
		junk = append(junk, genDoc(t, p, fmt.Sprintf("junk%d", i)))
	}
	return
}

// uniqueIdx lists the corpus positions whose id occurs once (only those may be rewritten by
// Update, which replaces every document of that id by one).
func uniqueIdx(docs []Doc) []int {
	cnt := map[string]int{}
	for _, d := range docs {
		cnt[d.ID]++
	}
	var r []int
	for i, d := range docs {
		if cnt[d.ID] == 1 {
			r = append(r, i)
		}
	}
	return r
}

// genBatches partitions the insertions of the given corpus positions and, when allowed, adds
// identical rewrites and junk insert/delete pairs.
func genBatches(t *rapid.T, label string, members []int, unique map[int]bool, allowDeletes bool) [][]Op {
	order := members
	if len(members) > 1 {
		order = rapid.Permutation(append([]int(nil), members...)).Draw(t, label+"Order")
	}
	var batches [][]Op
	switch style := rapid.IntRange(0, 5).Draw(t, label+"Partition"); {
	case len(order) == 0:
	case style <= 1: // one document per batch
		for _, i := range order {
			batches = append(batches, []Op{{"ins", i}})
		}
	case style == 2: // all at once
		var b []Op
		for _, i := range order {
			b = append(b, Op{"ins", i})
		}
		batches = append(batches, b)
	default:
		var b []Op
		for k, i := range order {
			b = append(b, Op{"ins", i})
			if k == len(order)-1 || rapid.IntRange(0, 2).Draw(t, label+"Cut") == 0 {
				batches = append(batches, b)
				b = nil
			}
		}
	}
	if allowDeletes {
		// identical rewrites: an Update of a document already inserted by an earlier batch
		if rapid.IntRange(0, 1).Draw(t, label+"Rewrites") == 0 && len(batches) > 0 {
			k := rapid.IntRange(1, 3).Draw(t, label+"NRewrites")
			for j := 0; j < k; j++ {
				bi := rapid.IntRange(0, len(batches)-1).Draw(t, label+"RwFrom")
				var cands []int
				for _, o := range batches[bi] {
					if o.K == "ins" && unique[o.I] {
						cands = append(cands, o.I)
					}
				}
				if len(cands) == 0 {
					continue
				}
				doc := cands[rapid.IntRange(0, len(cands)-1).Draw(t, label+"RwDoc")]
				at := rapid.IntRange(bi+1, len(batches)).Draw(t, label+"RwAt")
				batches = addOp(batches, at, Op{"upd", doc})
			}
		}
		// junk: inserted by some batch, deleted by a later one
		switch rapid.IntRange(0, 8).Draw(t, label+"Junk") {
		case 0, 1, 2:
			k := rapid.IntRange(1, 3).Draw(t, label+"NJunk")
			for j := 0; j < k; j++ {
				in := rapid.IntRange(0, len(batches)).Draw(t, label+"JunkIn")
				batches = addOp(batches, in, Op{"junk", j})
				out := rapid.IntRange(in+1, len(batches)).Draw(t, label+"JunkOut")
				batches = addOp(batches, out, Op{"del", j})
			}
		case 3:
			// churn: a junk insertion and its deletion in batches of their own after every
			// batch, so that segments with pending deletions exist while merges are introduced
			var churned [][]Op
			for bi, b := range batches {
				churned = append(churned, b, []Op{{"junk", bi % 3}}, []Op{{"del", bi % 3}})
			}
			batches = churned
		}
	}
	if rapid.IntRange(0, 11).Draw(t, label+"EmptyBatch") == 0 {
		at := rapid.IntRange(0, len(batches)).Draw(t, label+"EmptyAt")
		batches = append(batches[:at:at], append([][]Op{{}}, batches[at:]...)...)
	}
	return batches
}

// addOp appends op to batch at; at == len(batches) opens a new last batch.  A batch never names
// one id twice (that class belongs to the known finding of C01).
func addOp(batches [][]Op, at int, op Op) [][]Op {
	for at < len(batches) {
		clash := false
		for _, o := range batches[at] {
			if o.I == op.I && (o.K == "junk" || o.K == "del") == (op.K == "junk" || op.K == "del") {
				clash = true
			}
		}
		if !clash {
			batches[at] = append(batches[at], op)
			return batches
		}
		at++
	}
	return append(batches, []Op{op})
}

// genRecipe draws one recipe.  mode restricts it so that the score clause is decidable on the
// pair: "strict" = no merged segment possible (policy none / offline single batch), no deleting
// operation, scored, one index; "scored" = like strict but merging allowed; "merging" = scored
// and certainly merge-capable; "free" = anything.
func genRecipe(t *rapid.T, label string, docs []Doc, mode string) Recipe {
	n := len(docs)
	r := Recipe{}
	uniq := map[int]bool{}
	for _, i := range uniqueIdx(docs) {
		uniq[i] = true
	}
	free := mode == "free"
	switch k := rapid.IntRange(0, 9).Draw(t, label+"Kind"); {
	case k <= 5:
		r.Kind = "writer"
	case k <= 7:
		r.Kind = "offline"
	default:
		r.Kind = "multi"
		if !free {
			r.Kind = "writer"
		}
	}
	r.Conf = vlib.IdxConf{Dir: "fs", SegVer: 1, Merge: "none"}
	// version-2 segments cost about five times as much to build (one zstd encoder per segment)
	if rapid.IntRange(0, 13).Draw(t, label+"SegV2") == 0 {
		r.Conf.SegVer = 2
	}
	switch mode {
	case "strict":
	case "merging":
		r.Conf.Merge = rapid.SampledFrom([]string{"pairs", "pairs", "default", "nomem"}).Draw(t, label+"Merge")
	default:
		r.Conf.Merge = rapid.SampledFrom([]string{"none", "none", "pairs", "pairs", "default", "nomem"}).Draw(t, label+"Merge")
	}
	r.NoConj = rapid.Bool().Draw(t, label+"NoConj")
	r.NoConjU = rapid.Bool().Draw(t, label+"NoConjU")
	r.NoDisjU = rapid.Bool().Draw(t, label+"NoDisjU")
	if free {
		r.ScoreNone = rapid.Bool().Draw(t, label+"ScoreNone")
	}
	switch r.Kind {
	case "writer":
		if rapid.IntRange(0, 2).Draw(t, label+"Mem") == 0 {
			r.Conf.Dir = "mem"
		}
		r.Conf.Unsafe = rapid.IntRange(0, 3).Draw(t, label+"Unsafe") == 0
		r.Parts = [][][]Op{genBatches(t, label, idx(n), uniq, free)}
		opens := []string{"nrt", "reopen", "backup"}
		if r.Conf.Dir == "mem" {
			opens = []string{"nrt", "backup"}
		}
		r.Open = rapid.SampledFrom(opens).Draw(t, label+"Open")
		r.Settle = r.Open == "nrt" && r.Conf.Merge != "none" && rapid.IntRange(0, 5).Draw(t, label+"Settle") > 0
		r.fixNothingWritten()
	case "offline":
		order := idx(n)
		if n > 1 {
			order = rapid.Permutation(order).Draw(t, label+"Order")
		}
		var b []Op
		for _, i := range order {
			b = append(b, Op{"ins", i})
		}
		r.Parts = [][][]Op{{b}}
		// 0 … n+1, with the ends (one document per segment; everything in one) preferred
		sizes := []int{0, 0, 1, 2, n / 2, n - 2, n - 1, n, n + 1}
		switch mode {
		case "strict": // one flushed batch at most
			sizes = []int{n - 1, n, n + 1}
		case "merging":
			sizes = []int{0, 0, 1, 2, n / 2, n - 2}
		}
		r.OffBatch = rapid.SampledFrom(sizes).Draw(t, label+"OffBatch")
		if r.OffBatch < 0 {
			r.OffBatch = 0
		}
		r.Open = rapid.SampledFrom([]string{"reopen", "reopen", "nrt", "backup"}).Draw(t, label+"Open")
		if r.Open == "nrt" {
			// the writer opened on the offline build must not merge behind our back: the
			// merge state of an offline side is decided by the number of its segments
			r.Conf.Merge = "none"
		}
	case "multi":
		k := rapid.IntRange(2, 3).Draw(t, label+"K")
		members := make([][]int, k)
		for i := 0; i < n; i++ {
			p := rapid.IntRange(0, k-1).Draw(t, label+"Assign")
			members[p] = append(members[p], i)
		}
		if rapid.IntRange(0, 2).Draw(t, label+"Mem") == 0 {
			r.Conf.Dir = "mem"
		}
		for p := 0; p < k; p++ {
			r.Parts = append(r.Parts, genBatches(t, label+"P"+strconv.Itoa(p), members[p], uniq, p == 0))
		}
		opens := []string{"nrt", "reopen"}
		if r.Conf.Dir == "mem" {
			opens = []string{"nrt"}
		}
		r.Open = rapid.SampledFrom(opens).Draw(t, label+"Open")
		r.fixNothingWritten()
	}
	return r
}

// fixNothingWritten: a writer that never applied a batch has persisted nothing, so there is no
// index to open read-only ("unable to find a usable snapshot"); that is not a build of the
// empty corpus.  Such a part applies one empty batch, which does persist an empty snapshot.
func (r *Recipe) fixNothingWritten() {
	if r.Open != "reopen" {
		return
	}
	for p := range r.Parts {
		if len(r.Parts[p]) == 0 {
			r.Parts[p] = [][]Op{{}}
		}
	}
}

// ---------------------------------------------------------------------------------------------
// queries

type vocab struct {
	p       params
	tokens  []string // analysed tokens of field t present in the corpus (lower case)
	utokens []string // same for field u
	kws     []string
}

func corpusVocab(p params, docs []Doc) vocab {
	v := vocab{p: p}
	seen := map[string]bool{}
	for _, d := range docs {
		for _, t := range d.T {
			for _, w := range strings.Fields(strings.ToLower(t)) {
				if !seen["t:"+w] {
					seen["t:"+w] = true
					v.tokens = append(v.tokens, w)
				}
			}
		}
		for _, u := range d.U {
			for _, w := range strings.Fields(strings.ToLower(u)) {
				if !seen["u:"+w] {
					seen["u:"+w] = true
					v.utokens = append(v.utokens, w)
				}
			}
		}
		for _, k := range d.K {
			if !seen["k:"+k] {
				seen["k:"+k] = true
				v.kws = append(v.kws, k)
			}
		}
	}
	sort.Strings(v.tokens)
	sort.Strings(v.utokens)
	sort.Strings(v.kws)
	return v
}

func (v vocab) word(t *rapid.T, label string) string {
	if len(v.tokens) > 0 && rapid.IntRange(0, 7).Draw(t, label+"Present") > 0 {
		return v.tokens[rapid.IntRange(0, len(v.tokens)-1).Draw(t, label)]
	}
	return strings.ToLower(words[rapid.IntRange(0, len(words)-1).Draw(t, label+"Any")])
}

func (v vocab) uword(t *rapid.T, label string) string {
	if len(v.utokens) > 0 && rapid.IntRange(0, 7).Draw(t, label+"Present") > 0 {
		return v.utokens[rapid.IntRange(0, len(v.utokens)-1).Draw(t, label)]
	}
	return strings.ToLower(words[rapid.IntRange(0, len(words)-1).Draw(t, label+"Any")])
}

// termLeaf is a plain term query on one of the three term-bearing fields.
func (v vocab) termLeaf(t *rapid.T) Q {
	switch rapid.IntRange(0, 5).Draw(t, "termField") {
	case 0, 1, 2:
		return Q{Kind: "term", Field: "u", Text: v.uword(t, "uTerm")}
	case 3, 4:
		return Q{Kind: "term", Field: "k", Text: v.kw(t, "kwTerm")}
	}
	return Q{Kind: "term", Field: "t", Text: v.word(t, "term")}
}

func (v vocab) kw(t *rapid.T, label string) string {
	if len(v.kws) > 0 && rapid.IntRange(0, 7).Draw(t, label+"Present") > 0 {
		return v.kws[rapid.IntRange(0, len(v.kws)-1).Draw(t, label)]
	}
	return kws[rapid.IntRange(0, len(kws)-1).Draw(t, label+"Any")]
}

func genBoost(t *rapid.T) float64 {
	return rapid.SampledFrom([]float64{0, 0, 0, 0, 2, 0.5, 3}).Draw(t, "boost")
}

func genRange(t *rapid.T, v vocab) Q {
	// bounds are whole numbers at least 2 apart or infinite: narrow ranges belong to the known
	// range-enumeration blow-up (C10) and are not generated
	o := math.Floor(v.p.origin)
	q := Q{Kind: "range", Field: "n", LoInc: rapid.Bool().Draw(t, "loInc"), HiInc: rapid.Bool().Draw(t, "hiInc")}
	switch rapid.IntRange(0, 3).Draw(t, "rangeShape") {
	case 0:
		q.Lo, q.Hi = F(math.Inf(-1)), F(o+float64(rapid.IntRange(0, 10).Draw(t, "hi")))
	case 1:
		q.Lo, q.Hi = F(o+float64(rapid.IntRange(0, 10).Draw(t, "lo"))), F(math.Inf(1))
	default:
		lo := rapid.IntRange(-1, 8).Draw(t, "lo")
		hi := rapid.IntRange(lo+2, 11).Draw(t, "hi")
		q.Lo, q.Hi = F(o+float64(lo)), F(o+float64(hi))
	}
	return q
}

func genLeaf(t *rapid.T, v vocab) Q {
	switch k := rapid.IntRange(0, 19).Draw(t, "leafKind"); {
	case k <= 3:
		return Q{Kind: "term", Field: "t", Text: v.word(t, "term"), Boost: genBoost(t)}
	case k <= 5:
		return Q{Kind: "term", Field: "u", Text: v.uword(t, "uTerm"), Boost: genBoost(t)}
	case k <= 7:
		return Q{Kind: "term", Field: "k", Text: v.kw(t, "kwTerm"), Boost: genBoost(t)}
	case k <= 9:
		n := rapid.IntRange(1, 3).Draw(t, "matchWords")
		var ws []string
		for i := 0; i < n; i++ {
			ws = append(ws, v.word(t, "matchWord"))
		}
		return Q{Kind: "match", Field: rapid.SampledFrom([]string{"t", "u"}).Draw(t, "matchField"), Text: strings.Join(ws, " "), And: rapid.Bool().Draw(t, "matchAnd"), Boost: genBoost(t)}
	case k <= 11:
		return Q{Kind: "phrase", Field: "t", Text: v.word(t, "ph1") + " " + v.word(t, "ph2"), Slop: rapid.SampledFrom([]int{0, 0, 1, 2}).Draw(t, "slop")}
	case k <= 13:
		if rapid.Bool().Draw(t, "prefixOnK") {
			w := v.kw(t, "prefixKw")
			return Q{Kind: "prefix", Field: "k", Text: firstRunes(w, 1)}
		}
		w := v.word(t, "prefixWord")
		return Q{Kind: "prefix", Field: rapid.SampledFrom([]string{"t", "u"}).Draw(t, "prefixField"), Text: firstRunes(w, rapid.IntRange(1, 2).Draw(t, "prefixLen"))}
	case k == 14:
		return genRange(t, v)
	case k == 15:
		w := v.word(t, "wildWord")
		return Q{Kind: "wildcard", Field: "t", Text: firstRunes(w, 1) + "*"}
	case k == 16:
		return Q{Kind: "fuzzy", Field: "t", Text: v.word(t, "fuzzyWord"), Fuzz: rapid.IntRange(0, 2).Draw(t, "fuzz")}
	case k == 17:
		a, b := v.kw(t, "trLo"), v.kw(t, "trHi")
		if a > b {
			a, b = b, a
		}
		if a == b {
			b = a + "~"
		}
		return Q{Kind: "trange", Field: "k", Text: a, Text2: b, LoInc: rapid.Bool().Draw(t, "trLoInc"), HiInc: rapid.Bool().Draw(t, "trHiInc")}
	case k == 18:
		return Q{Kind: "all", Boost: genBoost(t)}
	default:
		return Q{Kind: "none"}
	}
}

func firstRunes(s string, n int) string {
	r := []rune(s)
	if len(r) > n {
		r = r[:n]
	}
	return string(r)
}

func genQuery(t *rapid.T, v vocab, depth int) Q {
	k := rapid.IntRange(0, 13).Draw(t, "queryKind")
	if depth >= 2 || k < 4 {
		return genLeaf(t, v)
	}
	if k >= 10 {
		k = 10 + k%2
		// what the conjunction / disjunction optimisations are made for: plain term clauses
		q := Q{Kind: "bool"}
		n := rapid.IntRange(2, 3).Draw(t, "nTermClauses")
		for i := 0; i < n; i++ {
			if k == 10 {
				q.Must = append(q.Must, v.termLeaf(t))
			} else {
				q.Should = append(q.Should, v.termLeaf(t))
			}
		}
		if k == 11 {
			q.MinShould = rapid.IntRange(0, 2).Draw(t, "minShould")
			if rapid.Bool().Draw(t, "withMust") {
				q.Must = append(q.Must, v.termLeaf(t))
			}
		}
		return q
	}
	q := Q{Kind: "bool"}
	nm := rapid.IntRange(0, 2).Draw(t, "nMust")
	ns := rapid.IntRange(0, 3).Draw(t, "nShould")
	nn := rapid.SampledFrom([]int{0, 0, 1}).Draw(t, "nMustNot")
	if nm+ns+nn == 0 {
		ns = 2
	}
	for i := 0; i < nm; i++ {
		q.Must = append(q.Must, genQuery(t, v, depth+1))
	}
	for i := 0; i < ns; i++ {
		q.Should = append(q.Should, genQuery(t, v, depth+1))
	}
	for i := 0; i < nn; i++ {
		q.MustNot = append(q.MustNot, genQuery(t, v, depth+1))
	}
	if ns > 0 {
		q.MinShould = rapid.IntRange(0, ns).Draw(t, "minShould")
	}
	if rapid.IntRange(0, 5).Draw(t, "boolBoost") == 0 {
		q.Boost = 2
	}
	return q
}

var sortKeys = []string{"k", "n", "x", "d", "-k", "-n", "-x", "-d"}

func genSort(t *rapid.T) []string {
	nk := rapid.IntRange(1, 2).Draw(t, "nSortKeys")
	var s []string
	for i := 0; i < nk; i++ {
		s = append(s, rapid.SampledFrom(sortKeys).Draw(t, "sortKey"))
	}
	// a total order (ids as the last key) most of the time; a non-total one otherwise: only
	// the key sequence is comparable then
	switch rapid.IntRange(0, 5).Draw(t, "sortTotal") {
	case 0:
	case 1:
		s = append(s, "-_id")
	default:
		s = append(s, "_id")
	}
	return s
}

func genAggs(t *rapid.T, v vocab) []Agg {
	n := rapid.SampledFrom([]int{0, 1, 1, 2, 3}).Draw(t, "nAggs")
	var as []Agg
	for i := 0; i < n; i++ {
		switch k := rapid.IntRange(0, 9).Draw(t, "aggKind"); {
		case k == 0:
			as = append(as, Agg{Kind: "count"})
		case k <= 2:
			as = append(as, Agg{Kind: "sum", Field: rapid.SampledFrom([]string{"n", "n", "x"}).Draw(t, "sumField")})
		case k == 3:
			as = append(as, Agg{Kind: "min", Field: rapid.SampledFrom([]string{"n", "x"}).Draw(t, "minField")})
		case k == 4:
			as = append(as, Agg{Kind: "max", Field: rapid.SampledFrom([]string{"n", "x"}).Draw(t, "maxField")})
		case k <= 7:
			as = append(as, Agg{Kind: "terms", Field: "k", Size: rapid.SampledFrom([]int{1, 2, 3, 5, 50}).Draw(t, "termsSize")})
		case k == 8:
			o := math.Floor(v.p.origin)
			a := Agg{Kind: "ranges", Field: "n"}
			nr := rapid.IntRange(1, 3).Draw(t, "nRanges")
			for j := 0; j < nr; j++ {
				lo := rapid.IntRange(-1, 9).Draw(t, "rLo")
				hi := rapid.IntRange(lo, 11).Draw(t, "rHi")
				rg := Rng{F(o + float64(lo)), F(o + float64(hi))}
				switch rapid.IntRange(0, 5).Draw(t, "rOpen") {
				case 0:
					rg.Lo = F(math.Inf(-1))
				case 1:
					rg.Hi = F(math.Inf(1))
				}
				a.Ranges = append(a.Ranges, rg)
			}
			as = append(as, a)
		default:
			a := Agg{Kind: "dranges", Field: "d"}
			c := rapid.IntRange(0, 20).Draw(t, "dCut")
			a.DCuts = []int64{v.p.dateBase + int64(c)*v.p.dateStep}
			if rapid.Bool().Draw(t, "dCut2") {
				a.DCuts = append(a.DCuts, a.DCuts[0]+int64(rapid.IntRange(1, 10).Draw(t, "dWidth"))*v.p.dateStep)
			}
			as = append(as, a)
		}
	}
	return as
}

// genReqs draws nq queries, each with an ids request, and in total about nreq requests.
func genReqs(t *rapid.T, v vocab, nDocs, nq int) []Req {
	var reqs []Req
	// the first request is always match-all sorted by id: it is also compared with the corpus
	reqs = append(reqs, Req{Q: Q{Kind: "all"}})
	for i := 0; i < nq; i++ {
		q := genQuery(t, v, 0)
		reqs = append(reqs, Req{Q: q, Aggs: genAggs(t, v)})
		for j := 0; j < 2; j++ {
			r := Req{Q: q}
			switch rapid.IntRange(0, 5).Draw(t, "reqShape") {
			case 0:
				r.Sort = []string{"-_score", "_id"}
			default:
				r.Sort = genSort(t)
			}
			if rapid.IntRange(0, 2).Draw(t, "cut") == 0 {
				r.N = rapid.IntRange(1, nDocs+1).Draw(t, "n")
				r.From = rapid.SampledFrom([]int{0, 0, 1, 3}).Draw(t, "from")
			}
			r.Aggs = genAggs(t, v)
			reqs = append(reqs, r)
		}
	}
	return reqs
}

func genCase(t *rapid.T, nq int) Case {
	p := genParams(t)
	docs, junk := genCorpus(t, p)
	c := Case{Docs: docs, Junk: junk}
	// the score clause is decidable only on some recipe pairs: make sure they are drawn
	// (rapid favours the small values of a range: the unrestricted mode sits there)
	switch k := rapid.IntRange(0, 19).Draw(t, "pairMode"); {
	case k <= 9:
		c.A = genRecipe(t, "a", docs, "free")
		c.B = genRecipe(t, "b", docs, "free")
	case k <= 13: // scored, no deletions, at least one build merges: explanation trees decide
		c.A = genRecipe(t, "a", docs, "merging")
		c.B = genRecipe(t, "b", docs, "scored")
	default: // neither build can hold a merged segment or a deletion: scores must agree
		c.A = genRecipe(t, "a", docs, "strict")
		c.B = genRecipe(t, "b", docs, "strict")
	}
	c.Reqs = genReqs(t, corpusVocab(p, docs), len(docs), nq)
	return c
}
