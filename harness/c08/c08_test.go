// C08  Search answers depend only on the logical documents, not the layout.
//
// c08_test.go: executing requests on both builds, the differential oracle, evidence, replay.
package c08

import (
	"bytes"
	"context"
	"encoding/json"
	"fmt"
	"math"
	"sort"
	"strings"
	"sync"
	"testing"
	"time"

	"github.com/blugelabs/bluge"
	"github.com/blugelabs/bluge/search"
	"github.com/blugelabs/bluge/search/aggregations"
	"pgregory.net/rapid"

	"verifharness/vlib"
)

func TestMain(m *testing.M) { vlib.Main(m) }

var ev = vlib.NewEvidence("C08",
	"one case = a logical corpus (0-15 documents, possibly a multiset; analysed text with positions, keyword, two numeric fields, date; stored values) built by TWO independently drawn recipes "+
		"(writer / offline writer with batch size 0..n+1 / corpus partitioned over 2-3 indexes + MultiSearch; batch partitioning and insertion order; identical rewrites through Update; junk documents inserted and deleted; "+
		"merge policy none/pairs/default/nomem; near-real-time reader, close + OpenReader, Backup + OpenReader; memory / file system; segment version 1/2; the eight DisableOptimize* combinations; score mode none) "+
		"and about 30 generated requests (term, match, phrase, prefix, wildcard, fuzzy, term range, wide numeric range, match-all/none, nested boolean with min-should; id order, 1-2 field sort keys with or without a final _id key, score order; top-N cuts; "+
		"count, sum, min, max, terms with size cut, numeric and date range aggregations) run on both builds side by side; one evaluation = one request compared on both builds; "+
		"non-trivial = the two recipes differ in >= 2 dimensions and the request has >= 1 hit")

const (
	mergeKey  = "merge-rewrites-field-length"
	disjKey   = "unadorned-disjunction-drops-min"
	scoreTol  = 1e-12
	sumRelTol = 1e-9
)

// ---------------------------------------------------------------------------------------------
// requests

func buildQuery(q *Q) bluge.Query {
	switch q.Kind {
	case "term":
		r := bluge.NewTermQuery(q.Text).SetField(q.Field)
		if q.Boost != 0 {
			r.SetBoost(q.Boost)
		}
		return r
	case "match":
		r := bluge.NewMatchQuery(q.Text).SetField(q.Field)
		if q.And {
			r.SetOperator(bluge.MatchQueryOperatorAnd)
		}
		if q.Boost != 0 {
			r.SetBoost(q.Boost)
		}
		return r
	case "phrase":
		return bluge.NewMatchPhraseQuery(q.Text).SetField(q.Field).SetSlop(q.Slop)
	case "prefix":
		return bluge.NewPrefixQuery(q.Text).SetField(q.Field)
	case "wildcard":
		return bluge.NewWildcardQuery(q.Text).SetField(q.Field)
	case "fuzzy":
		return bluge.NewFuzzyQuery(q.Text).SetField(q.Field).SetFuzziness(q.Fuzz)
	case "trange":
		return bluge.NewTermRangeInclusiveQuery(q.Text, q.Text2, q.LoInc, q.HiInc).SetField(q.Field)
	case "range":
		return bluge.NewNumericRangeInclusiveQuery(float64(q.Lo), float64(q.Hi), q.LoInc, q.HiInc).SetField(q.Field)
	case "none":
		return bluge.NewMatchNoneQuery()
	case "bool":
		b := bluge.NewBooleanQuery()
		for i := range q.Must {
			b.AddMust(buildQuery(&q.Must[i]))
		}
		for i := range q.Should {
			b.AddShould(buildQuery(&q.Should[i]))
		}
		for i := range q.MustNot {
			b.AddMustNot(buildQuery(&q.MustNot[i]))
		}
		b.SetMinShould(q.MinShould)
		if q.Boost != 0 {
			b.SetBoost(q.Boost)
		}
		return b
	}
	r := bluge.NewMatchAllQuery()
	if q.Boost != 0 {
		r.SetBoost(q.Boost)
	}
	return r
}

func (q *Q) class() string {
	if q.Kind != "bool" {
		return "query:" + q.Kind
	}
	s := "query:bool"
	if len(q.Must) > 0 {
		s += "+must"
	}
	if len(q.Should) > 0 {
		s += "+should"
		if q.MinShould > 0 {
			s += "(min)"
		}
	}
	if len(q.MustNot) > 0 {
		s += "+not"
	}
	return s
}

// dropsMinClass: the query holds a boolean node with a required part (must / must-not) and two
// or more should clauses of which exactly one is required.  Under score mode none with the
// unadorned disjunction optimisation enabled such a should part is replaced by a term searcher
// whose Min() is 0 (finding #16 of DESIGN section 6, owned by C07).
func (q *Q) dropsMinClass() bool {
	if q.Kind != "bool" {
		return false
	}
	if q.MinShould == 1 && len(q.Should) >= 2 && (len(q.Must) > 0 || len(q.MustNot) > 0) {
		return true
	}
	for _, l := range [][]Q{q.Must, q.Should, q.MustNot} {
		for i := range l {
			if l[i].dropsMinClass() {
				return true
			}
		}
	}
	return false
}

func buildAgg(a *Agg) search.Aggregation {
	switch a.Kind {
	case "sum":
		return aggregations.Sum(search.Field(a.Field))
	case "min":
		return aggregations.Min(search.Field(a.Field))
	case "max":
		return aggregations.Max(search.Field(a.Field))
	case "terms":
		return aggregations.NewTermsAggregation(search.Field(a.Field), a.Size)
	case "ranges":
		r := aggregations.Ranges(search.Field(a.Field))
		for i, rg := range a.Ranges {
			r.AddRange(aggregations.NamedRange(fmt.Sprintf("r%d", i), float64(rg.Lo), float64(rg.Hi)))
		}
		return r
	case "dranges":
		r := aggregations.DateRanges(search.Field(a.Field))
		var prev time.Time
		for i, c := range a.DCuts {
			cut := time.Unix(0, c).UTC()
			r.AddRange(aggregations.NewNamedDateRange(fmt.Sprintf("r%d", i), prev, cut))
			prev = cut
		}
		r.AddRange(aggregations.NewNamedDateRange(fmt.Sprintf("r%d", len(a.DCuts)), prev, time.Time{}))
		return r
	}
	return aggregations.CountMatches()
}

func (r *Req) sortSpec() []string {
	if len(r.Sort) == 0 {
		return []string{"_id"}
	}
	return r.Sort
}

func (r *Req) scoreSorted() bool { return len(r.Sort) > 0 && strings.HasSuffix(r.Sort[0], "_score") }

// idPos is the position of the _id key in the sort specification (-1: none); total reports
// whether it is the last key (the order is total up to identical duplicates).
func (r *Req) idPos() (pos int, total bool) {
	s := r.sortSpec()
	for i, k := range s {
		if k == "_id" || k == "-_id" {
			return i, i == len(s)-1
		}
	}
	return -1, false
}

type hit struct {
	id    string
	keys  [][]byte
	score float64
	expl  *search.Explanation
}

type result struct {
	hits []hit
	aggs *search.Bucket
}

func (s *side) run(site string, r *Req, nDocs int, explain bool) (*result, *vlib.Failure) {
	var res *result
	f := vlib.Watchdog(site, callBound, func() *vlib.Failure {
		n := r.N
		if n == 0 {
			n = nDocs + 5
		}
		tn := bluge.NewTopNSearch(n, buildQuery(&r.Q)).SetFrom(r.From).SortBy(r.sortSpec())
		if s.rec.ScoreNone {
			tn.SetScore("none")
		}
		if explain {
			tn.ExplainScores()
		}
		tn.AddAggregation("count", aggregations.CountMatches())
		for i := range r.Aggs {
			tn.AddAggregation(fmt.Sprintf("a%d", i), buildAgg(&r.Aggs[i]))
		}
		it, err := s.search(tn)
		if err != nil {
			return vlib.Failf("search-error", "%s: %v", site, err)
		}
		res = &result{}
		pos, _ := r.idPos()
		for {
			m, err := it.Next()
			if err != nil {
				return vlib.Failf("search-error", "%s: iterating: %v", site, err)
			}
			if m == nil {
				break
			}
			h := hit{score: m.Score, expl: m.Explanation}
			for _, k := range m.SortValue {
				h.keys = append(h.keys, append([]byte(nil), k...))
			}
			if pos >= 0 && pos < len(h.keys) {
				h.id = string(h.keys[pos])
			}
			res.hits = append(res.hits, h)
		}
		res.aggs = it.Aggregations()
		return nil
	})
	return res, f
}

// ---------------------------------------------------------------------------------------------
// oracle

func closeRel(a, b, tol float64) bool {
	if a == b || (math.IsNaN(a) && math.IsNaN(b)) {
		return true
	}
	if math.IsInf(a, 0) || math.IsInf(b, 0) || math.IsNaN(a) || math.IsNaN(b) {
		return false
	}
	return math.Abs(a-b) <= tol*math.Max(math.Abs(a), math.Abs(b))
}

func bucketCounts(bs []*search.Bucket) (names []string, counts map[string]uint64) {
	counts = map[string]uint64{}
	for _, b := range bs {
		names = append(names, b.Name())
		counts[b.Name()] = b.Count()
	}
	return
}

func compareAgg(a *Agg, name string, ra, rb *search.Bucket, xabs float64) *vlib.Failure {
	ca, cb := ra.Aggregation(name), rb.Aggregation(name)
	if ca == nil || cb == nil {
		return vlib.Failf("agg-missing", "%s(%s): calculator missing on one side (%v / %v)", a.Kind, a.Field, ca != nil, cb != nil)
	}
	switch a.Kind {
	case "count", "sum", "min", "max":
		va, vb := ra.Metric(name), rb.Metric(name)
		ok := va == vb || (math.IsNaN(va) && math.IsNaN(vb))
		if !ok && a.Kind == "sum" && a.Field == "x" {
			// arbitrary floats are summed in hit order, which is layout
			ok = math.Abs(va-vb) <= sumRelTol*xabs
		}
		if !ok {
			return vlib.Failf("agg-mismatch@"+a.Kind, "%s(%s): %v on build A, %v on build B", a.Kind, a.Field, va, vb)
		}
	case "terms":
		ta, okA := ca.(*aggregations.TermsCalculator)
		tb, okB := cb.(*aggregations.TermsCalculator)
		if !okA || !okB {
			return vlib.Failf("agg-missing", "terms: calculators are %T / %T", ca, cb)
		}
		na, ma := bucketCounts(ta.Buckets())
		nb, mb := bucketCounts(tb.Buckets())
		if len(na) != len(nb) {
			return vlib.Failf("agg-mismatch@terms", "terms(%s,size %d): %d buckets %v on build A, %d buckets %v on build B", a.Field, a.Size, len(na), ma, len(nb), mb)
		}
		if len(na) != len(ma) || len(nb) != len(mb) {
			return vlib.Failf("agg-mismatch@terms", "terms(%s): a bucket is returned twice: %v / %v", a.Field, na, nb)
		}
		// the multiset of counts
		var sa, sb []uint64
		min := uint64(math.MaxUint64)
		for _, n := range na {
			sa = append(sa, ma[n])
			if ma[n] < min {
				min = ma[n]
			}
		}
		for _, n := range nb {
			sb = append(sb, mb[n])
		}
		sort.Slice(sa, func(i, j int) bool { return sa[i] < sa[j] })
		sort.Slice(sb, func(i, j int) bool { return sb[i] < sb[j] })
		for i := range sa {
			if sa[i] != sb[i] {
				return vlib.Failf("agg-mismatch@terms", "terms(%s,size %d): bucket counts %v on build A, %v on build B", a.Field, a.Size, ma, mb)
			}
		}
		// as a map; buckets may differ only among the equal counts at the size cut
		for _, n := range na {
			if c, ok := mb[n]; ok {
				if c != ma[n] {
					return vlib.Failf("agg-mismatch@terms", "terms(%s): bucket %q counts %d on build A, %d on build B", a.Field, n, ma[n], c)
				}
			} else if ma[n] != min || len(na) < a.Size {
				return vlib.Failf("agg-mismatch@terms", "terms(%s,size %d): bucket %q (count %d) only on build A: %v / %v", a.Field, a.Size, n, ma[n], ma, mb)
			}
		}
		for _, n := range nb {
			if _, ok := ma[n]; !ok && (mb[n] != min || len(nb) < a.Size) {
				return vlib.Failf("agg-mismatch@terms", "terms(%s,size %d): bucket %q (count %d) only on build B: %v / %v", a.Field, a.Size, n, mb[n], ma, mb)
			}
		}
		if ta.Other() != tb.Other() {
			return vlib.Failf("agg-mismatch@terms", "terms(%s,size %d): Other() = %d on build A, %d on build B", a.Field, a.Size, ta.Other(), tb.Other())
		}
	case "ranges", "dranges":
		ba, okA := ca.(search.BucketCalculator)
		bb, okB := cb.(search.BucketCalculator)
		if !okA || !okB {
			return vlib.Failf("agg-missing", "%s: calculators are %T / %T", a.Kind, ca, cb)
		}
		na, ma := bucketCounts(ba.Buckets())
		nb, mb := bucketCounts(bb.Buckets())
		if fmt.Sprint(na) != fmt.Sprint(nb) {
			return vlib.Failf("agg-mismatch@"+a.Kind, "%s(%s): buckets %v on build A, %v on build B", a.Kind, a.Field, na, nb)
		}
		for _, n := range na {
			if ma[n] != mb[n] {
				return vlib.Failf("agg-mismatch@"+a.Kind, "%s(%s): bucket %s counts %d on build A, %d on build B", a.Kind, a.Field, n, ma[n], mb[n])
			}
		}
	}
	return nil
}

// canonExpl renders an explanation tree with its children in a canonical order; interior
// values and avgdl leaves are left out so that the order does not depend on them.
func canonExpl(e *search.Explanation) string {
	if e == nil {
		return "<nil>"
	}
	if len(e.Children) == 0 {
		if strings.HasPrefix(e.Message, "avgdl,") {
			return e.Message
		}
		return fmt.Sprintf("%s=%v", e.Message, e.Value)
	}
	var cs []string
	for _, c := range e.Children {
		cs = append(cs, canonExpl(c))
	}
	sort.Strings(cs)
	return e.Message + "(" + strings.Join(cs, ";") + ")"
}

type leafDiff struct {
	msg  string
	a, b float64
}

// diffExpl compares two explanation trees leaf by leaf.  shape is non-empty when the trees do
// not have the same form.
func diffExpl(a, b *search.Explanation, diffs *[]leafDiff) (shape string) {
	if a == nil || b == nil {
		if a != b {
			return "one explanation is missing"
		}
		return ""
	}
	if a.Message != b.Message {
		return fmt.Sprintf("node %q against %q", a.Message, b.Message)
	}
	if len(a.Children) != len(b.Children) {
		return fmt.Sprintf("node %q has %d children against %d", a.Message, len(a.Children), len(b.Children))
	}
	if len(a.Children) == 0 {
		if a.Value != b.Value && !(math.IsNaN(a.Value) && math.IsNaN(b.Value)) {
			*diffs = append(*diffs, leafDiff{a.Message, a.Value, b.Value})
		}
		return ""
	}
	ca := append([]*search.Explanation(nil), a.Children...)
	cb := append([]*search.Explanation(nil), b.Children...)
	sort.SliceStable(ca, func(i, j int) bool { return canonExpl(ca[i]) < canonExpl(ca[j]) })
	sort.SliceStable(cb, func(i, j int) bool { return canonExpl(cb[i]) < canonExpl(cb[j]) })
	for i := range ca {
		if s := diffExpl(ca[i], cb[i], diffs); s != "" {
			return s
		}
	}
	return ""
}

// stats of one evaluated pair
type stats struct {
	searches, withHits               int
	scoreMode                        string // strict | loose | none:<reason>
	scoresStrict                     int    // hits whose scores were compared exactly
	scoresLooseEqual                 int
	avgdlKnown                       int // hits whose score differs through the avgdl leaf alone, merged segment present
	avgdlMsg                         string
	excludedDisj                     int
	scoreSortSkipped                 int
	storedDocs                       int
	storedSkip                       string
	iceV2Panic                       string
	classes                          []string
	ntSearches                       int
	sampleReq                        *Req
	sampleHits                       int
	segsA, segsB                     int
	pendingA, pendingB               uint64
	mergedObservedA, mergedObservedB bool
}

func pairScoreMode(a, b *Recipe) string {
	switch {
	case a.ScoreNone || b.ScoreNone:
		return "none:score-mode-none"
	case a.Kind == "multi" || b.Kind == "multi":
		return "none:multi-search"
	case a.hasDeletes() || b.hasDeletes():
		return "none:pending-deletions-possible"
	case a.mergeCapable() || b.mergeCapable():
		return "loose"
	}
	return "strict"
}

// compareScores handles the score clause of an ids request (both results in id order).
func compareScores(c *Case, r *Req, sa, sb *side, ra, rb *result, st *stats) *vlib.Failure {
	switch st.scoreMode {
	case "strict":
		for i := range ra.hits {
			if !closeRel(ra.hits[i].score, rb.hits[i].score, scoreTol) {
				return vlib.Failf("score-mismatch", "document %s: score %v on build A, %v on build B; neither build has merged segments or pending deletions (query %s)",
					ra.hits[i].id, ra.hits[i].score, rb.hits[i].score, vlib.Canon(r.Q))
			}
			st.scoresStrict++
		}
	case "loose":
		differ := false
		for i := range ra.hits {
			if !closeRel(ra.hits[i].score, rb.hits[i].score, scoreTol) {
				differ = true
			}
		}
		if !differ {
			st.scoresLooseEqual += len(ra.hits)
			return nil
		}
		ea, f := sa.run("search-explain", r, len(c.Docs), true)
		if f != nil {
			return f
		}
		eb, f := sb.run("search-explain", r, len(c.Docs), true)
		if f != nil {
			return f
		}
		if len(ea.hits) != len(ra.hits) || len(eb.hits) != len(ra.hits) {
			return vlib.Failf("match-set-mismatch", "the same request with ExplainScores returns %d / %d hits instead of %d", len(ea.hits), len(eb.hits), len(ra.hits))
		}
		for i := range ea.hits {
			if closeRel(ea.hits[i].score, eb.hits[i].score, scoreTol) {
				st.scoresLooseEqual++
				continue
			}
			var diffs []leafDiff
			shape := diffExpl(ea.hits[i].expl, eb.hits[i].expl, &diffs)
			if shape != "" {
				return vlib.Failf("score-mismatch", "document %s: score %v / %v and the explanation trees differ in form: %s (query %s)", ea.hits[i].id, ea.hits[i].score, eb.hits[i].score, shape, vlib.Canon(r.Q))
			}
			if len(diffs) == 0 {
				return vlib.Failf("score-mismatch", "document %s: score %v / %v although every leaf of the two explanation trees is equal (query %s)", ea.hits[i].id, ea.hits[i].score, eb.hits[i].score, vlib.Canon(r.Q))
			}
			for _, d := range diffs {
				if !strings.HasPrefix(d.msg, "avgdl,") {
					return vlib.Failf("score-mismatch", "document %s: score %v / %v, explanation leaf %q is %v on build A and %v on build B (query %s)", ea.hits[i].id, ea.hits[i].score, eb.hits[i].score, d.msg, d.a, d.b, vlib.Canon(r.Q))
				}
			}
			// only avgdl leaves differ; at least one build may hold merged segments (loose mode)
			st.avgdlKnown++
			if st.avgdlMsg == "" {
				st.avgdlMsg = fmt.Sprintf("document %s: score %v / %v, avgdl leaf %v / %v (query %s)", ea.hits[i].id, ea.hits[i].score, eb.hits[i].score, diffs[0].a, diffs[0].b, vlib.Canon(r.Q))
			}
		}
	}
	return nil
}

func compareReq(c *Case, ri int, r *Req, sa, sb *side, st *stats) *vlib.Failure {
	ra, f := sa.run("search-A", r, len(c.Docs), false)
	if f != nil {
		return f
	}
	rb, f := sb.run("search-B", r, len(c.Docs), false)
	if f != nil {
		return f
	}
	st.searches++
	if len(ra.hits) > 0 {
		st.withHits++
	}
	desc := func() string {
		return fmt.Sprintf("request %d (query %s, sort %v, n %d, from %d)", ri, vlib.Canon(r.Q), r.sortSpec(), r.N, r.From)
	}
	// size of the match set
	if ca, cb := ra.aggs.Count(), rb.aggs.Count(); ca != cb {
		return vlib.Failf("match-set-mismatch", "%s: %d matches on build A, %d on build B", desc(), ca, cb)
	}
	if len(ra.hits) != len(rb.hits) {
		return vlib.Failf("match-set-mismatch", "%s: %d hits returned on build A, %d on build B", desc(), len(ra.hits), len(rb.hits))
	}
	pos, total := r.idPos()
	if pos >= 0 && r.N == 0 && r.From == 0 {
		ia, ib := make([]string, len(ra.hits)), make([]string, len(rb.hits))
		for i := range ra.hits {
			ia[i], ib[i] = ra.hits[i].id, rb.hits[i].id
		}
		if uint64(len(ia)) != ra.aggs.Count() {
			return vlib.Failf("match-set-mismatch", "%s: %d hits returned for %d matches although the page holds them all", desc(), len(ia), ra.aggs.Count())
		}
		sort.Strings(ia)
		sort.Strings(ib)
		if strings.Join(ia, "\x00") != strings.Join(ib, "\x00") {
			return vlib.Failf("match-set-mismatch", "%s: build A matches %v, build B matches %v", desc(), ia, ib)
		}
	}
	// sequence of sort keys (score keys are judged by the score clause)
	spec := r.sortSpec()
	for i := range ra.hits {
		ka, kb := ra.hits[i].keys, rb.hits[i].keys
		if len(ka) != len(spec) || len(kb) != len(spec) {
			return vlib.Failf("sort-order-mismatch", "%s: hit %d carries %d / %d sort keys for %d sort fields", desc(), i, len(ka), len(kb), len(spec))
		}
		for j := range spec {
			if strings.HasSuffix(spec[j], "_score") {
				continue
			}
			if !bytes.Equal(ka[j], kb[j]) {
				what := "sort key"
				if total || j == pos {
					what = "document / sort key"
				}
				return vlib.Failf("sort-order-mismatch", "%s: position %d, %s %q: %q on build A, %q on build B", desc(), i, what, spec[j], ka[j], kb[j])
			}
		}
	}
	// aggregations
	for i := range r.Aggs {
		if f := compareAgg(&r.Aggs[i], fmt.Sprintf("a%d", i), ra.aggs, rb.aggs, c.XAbs); f != nil {
			f.Msg = desc() + ": " + f.Msg
			return f
		}
	}
	// scores
	if len(r.Sort) == 0 {
		if f := compareScores(c, r, sa, sb, ra, rb, st); f != nil {
			return f
		}
	} else if r.scoreSorted() && st.scoreMode == "strict" {
		for i := range ra.hits {
			if !closeRel(ra.hits[i].score, rb.hits[i].score, scoreTol) {
				return vlib.Failf("score-mismatch", "%s: position %d of the score order: %v on build A, %v on build B", desc(), i, ra.hits[i].score, rb.hits[i].score)
			}
			st.scoresStrict++
		}
	}
	return nil
}

// storedOf loads the stored fields of every document of the side: one canonical string per
// document (fields by name, values of one field in stored order).
func storedOf(s *side) (docs []string, f *vlib.Failure) {
	f = vlib.Watchdog("stored-fields", callBound, func() *vlib.Failure {
		for _, rd := range s.readers {
			it, err := rd.Search(context.Background(), bluge.NewAllMatches(bluge.NewMatchAllQuery()))
			if err != nil {
				return vlib.Failf("search-error", "match-all for stored fields: %v", err)
			}
			for {
				m, err := it.Next()
				if err != nil {
					return vlib.Failf("search-error", "match-all for stored fields: %v", err)
				}
				if m == nil {
					break
				}
				vals := map[string][]string{}
				if err := rd.VisitStoredFields(m.Number, func(field string, value []byte) bool {
					vals[field] = append(vals[field], string(value))
					return true
				}); err != nil {
					return vlib.Failf("stored-error", "VisitStoredFields(%d): %v", m.Number, err)
				}
				names := make([]string, 0, len(vals))
				for n := range vals {
					names = append(names, n)
				}
				sort.Strings(names)
				var sb strings.Builder
				sb.WriteString(strings.Join(vals["_id"], ","))
				for _, n := range names {
					fmt.Fprintf(&sb, " %s=%q", n, vals[n])
				}
				docs = append(docs, sb.String())
			}
		}
		sort.Strings(docs)
		return nil
	})
	return docs, f
}

// storedSkipReason: stored fields of a version-2 segment must not be read while a writer that
// may merge is open (the read races with the merge's copy of the same buffer and the MERGED
// segment receives garbage: third-party finding icev2-stored-field-cache-race of C15).
func (s *side) storedSkipReason() string {
	if s.rec.Conf.SegVer == 2 && len(s.writers) > 0 && s.rec.Conf.Merge != "none" {
		return "v2-writer-open-with-merging"
	}
	return ""
}

// expectedStored renders what the corpus says each document stores.
func expectedStored(c *Case) []string {
	var docs []string
	for i := range c.Docs {
		d := &c.Docs[i]
		var sb strings.Builder
		sb.WriteString(d.ID)
		fmt.Fprintf(&sb, " _id=%q", []string{d.ID})
		if len(d.D) > 0 {
			var vs []string
			for _, v := range d.D {
				vs = append(vs, string(bluge.NewDateTimeField("d", time.Unix(0, v).UTC()).Value()))
			}
			fmt.Fprintf(&sb, " d=%q", vs)
		}
		if len(d.K) > 0 {
			fmt.Fprintf(&sb, " k=%q", d.K)
		}
		if len(d.N) > 0 {
			var vs []string
			for _, v := range d.N {
				vs = append(vs, string(bluge.NewNumericField("n", v).Value()))
			}
			fmt.Fprintf(&sb, " n=%q", vs)
		}
		if len(d.T) > 0 {
			fmt.Fprintf(&sb, " t=%q", d.T)
		}
		docs = append(docs, sb.String())
	}
	sort.Strings(docs)
	return docs
}

func firstDiff(a, b []string) string {
	for i := 0; i < len(a) || i < len(b); i++ {
		var x, y string
		if i < len(a) {
			x = a[i]
		}
		if i < len(b) {
			y = b[i]
		}
		if x != y {
			return fmt.Sprintf("%q against %q", x, y)
		}
	}
	return ""
}

// prop evaluates one case.
func prop(c *Case, st *stats) *vlib.Failure {
	c.XAbs = 1e-300
	for _, d := range c.Docs {
		for _, x := range d.X {
			c.XAbs += math.Abs(x)
		}
	}
	st.scoreMode = pairScoreMode(&c.A, &c.B)
	sa, f := buildSide(c, &c.A)
	if f != nil {
		f.Msg = "build A (" + c.A.Kind + "): " + f.Msg
		return f
	}
	defer sa.close()
	sb, f := buildSide(c, &c.B)
	if f != nil {
		f.Msg = "build B (" + c.B.Kind + "): " + f.Msg
		return f
	}
	defer sb.close()
	st.segsA, st.segsB, st.pendingA, st.pendingB = sa.segs, sb.segs, sa.pending, sb.pending
	for _, s := range []*side{sa, sb} {
		if f := s.checkLayout(); f != nil {
			return f
		}
		if s.count != uint64(len(c.Docs)) {
			return vlib.Failf("count-mismatch", "%s build: Reader.Count() = %d, the corpus has %d documents", s.rec.Kind, s.count, len(c.Docs))
		}
	}
	if st.scoreMode == "strict" && (sa.pending != 0 || sb.pending != 0) {
		return vlib.Failf("layout-not-enforced", "pending deletions (%d / %d) in a pair without deleting operations", sa.pending, sb.pending)
	}
	disj := disjDefectPresent()
	for ri := range c.Reqs {
		r := &c.Reqs[ri]
		if r.scoreSorted() && st.scoreMode != "strict" {
			// the score order is only defined side by side when the scores are comparable
			st.scoreSortSkipped++
			continue
		}
		if (c.A.Kind == "multi" || c.B.Kind == "multi") && r.scoreSorted() {
			continue
		}
		if disj && r.Q.dropsMinClass() && ((c.A.ScoreNone && !c.A.NoDisjU) || (c.B.ScoreNone && !c.B.NoDisjU)) {
			st.excludedDisj++
			continue
		}
		before := st.withHits
		if f := compareReq(c, ri, r, sa, sb, st); f != nil {
			return f
		}
		if ri == 0 {
			// match-all in id order against the corpus itself (both builds could lose the same document)
			res, f := sa.run("search-A", r, len(c.Docs), false)
			if f != nil {
				return f
			}
			var got, want []string
			for _, h := range res.hits {
				got = append(got, h.id)
			}
			for _, d := range c.Docs {
				want = append(want, d.ID)
			}
			sort.Strings(want)
			if strings.Join(got, "\x00") != strings.Join(want, "\x00") {
				return vlib.Failf("corpus-mismatch", "match-all in id order returns %v, the corpus holds %v", got, want)
			}
		}
		if st.withHits > before {
			st.classes = append(st.classes, r.Q.class()+":hit")
			if st.sampleReq == nil && ri > 0 {
				st.sampleReq = r
			}
		} else {
			st.classes = append(st.classes, r.Q.class())
		}
	}
	// stored fields
	ra, rb := sa.storedSkipReason(), sb.storedSkipReason()
	if ra != "" || rb != "" {
		st.storedSkip = ra
		if ra == "" {
			st.storedSkip = rb
		}
		return nil
	}
	var da, db []string
	for i, s := range []*side{sa, sb} {
		docs, f := storedOf(s)
		if f != nil {
			vlib.ClassifyThirdParty(f)
			if f.Key == vlib.IceV2OffsetsPanicKey && s.rec.Conf.SegVer == 2 {
				st.iceV2Panic = f.Msg
				return nil
			}
			return f
		}
		if i == 0 {
			da = docs
		} else {
			db = docs
		}
	}
	if strings.Join(da, "\x00") != strings.Join(db, "\x00") {
		return vlib.Failf("stored-mismatch", "stored fields differ between the builds: %s", firstDiff(da, db))
	}
	if want := expectedStored(c); strings.Join(da, "\x00") != strings.Join(want, "\x00") {
		return vlib.Failf("stored-mismatch", "stored fields differ from the corpus on both builds: %s", firstDiff(da, want))
	}
	st.storedDocs = len(da)
	return nil
}

// finish turns the tallies of a pair into the verdict for the listed findings.
func finish(st *stats, f *vlib.Failure) *vlib.Failure {
	if f != nil {
		return f
	}
	if st.avgdlKnown > 0 {
		if desc, ok := vlib.IsKnown("C08", mergeKey); ok {
			ev.Known(mergeKey, desc)
		} else {
			return vlib.Failf(mergeKey, "%d score(s) differ through the avgdl statistic alone on a pair with a merge-capable build: %s", st.avgdlKnown, st.avgdlMsg)
		}
	}
	if st.iceV2Panic != "" {
		if desc, ok := vlib.IsKnown("C08", vlib.IceV2OffsetsPanicKey); ok {
			ev.Known(vlib.IceV2OffsetsPanicKey, desc)
		} else {
			return vlib.Failf(vlib.IceV2OffsetsPanicKey, "%s", st.iceV2Panic)
		}
	}
	return nil
}

// ---------------------------------------------------------------------------------------------
// the known score-mode-none defect (#16, owned by C07): present on this tree?

var (
	disjOnce    sync.Once
	disjPresent bool
	disjDetail  string
)

func disjProbeCase() Case {
	docs := []Doc{{ID: "d0", T: []string{"ant bee"}}, {ID: "d1", T: []string{"ant cat"}}, {ID: "d2", T: []string{"ant dog"}}, {ID: "d3", T: []string{"bee"}}}
	all := [][]Op{{{"ins", 0}, {"ins", 1}, {"ins", 2}, {"ins", 3}}}
	q := Q{Kind: "bool", Must: []Q{{Kind: "term", Field: "t", Text: "ant"}},
		Should: []Q{{Kind: "term", Field: "t", Text: "bee"}, {Kind: "term", Field: "t", Text: "cat"}}, MinShould: 1}
	return Case{Docs: docs,
		A:    Recipe{Kind: "writer", Conf: vlib.IdxConf{Dir: "mem", SegVer: 1, Merge: "none"}, Parts: [][][]Op{all}, Open: "nrt"},
		B:    Recipe{Kind: "writer", Conf: vlib.IdxConf{Dir: "mem", SegVer: 1, Merge: "none"}, Parts: [][][]Op{all}, Open: "nrt", ScoreNone: true},
		Reqs: []Req{{Q: Q{Kind: "all"}}, {Q: q}}}
}

// disjDefectPresent runs the canonical member of the class on two identical in-memory builds,
// one scored, one with score mode none.
func disjProbe(c *Case) *vlib.Failure {
	sa, f := buildSide(c, &c.A)
	if f != nil {
		return f
	}
	defer sa.close()
	sb, f := buildSide(c, &c.B)
	if f != nil {
		return f
	}
	defer sb.close()
	var st stats
	st.scoreMode = "none"
	for ri := range c.Reqs {
		if f := compareReq(c, ri, &c.Reqs[ri], sa, sb, &st); f != nil {
			if f.Key == "match-set-mismatch" {
				f.Key = disjKey
			}
			return f
		}
	}
	return nil
}

func disjDefectPresent() bool {
	disjOnce.Do(func() {
		c := disjProbeCase()
		if f := disjProbe(&c); f != nil && f.Key == disjKey {
			disjPresent = true
			disjDetail = f.Msg
		}
	})
	return disjPresent
}

func TestC08DisjunctionMinProbe(t *testing.T) {
	if !disjDefectPresent() {
		t.Log("score mode none keeps the minimum of an optimised should part on this tree")
		return
	}
	vlib.KnownProbe(t, ev, "probe-disj", disjKey, disjProbeCase(), vlib.Failf(disjKey, "score mode none with the unadorned disjunction optimisation: %s", disjDetail))
}

// ---------------------------------------------------------------------------------------------
// the third-party merge finding: same documents, one build merged -> avgdl differs

func mergeProbeCase() Case {
	docs := []Doc{{ID: "d0", T: []string{"ant ant ant bee"}}, {ID: "d1", T: []string{"ant cat"}}, {ID: "d2", T: []string{"bee bee dog eel fox"}}, {ID: "d3", T: []string{"ant"}}}
	order := []Op{{"ins", 0}, {"ins", 1}, {"ins", 2}, {"ins", 3}}
	return Case{Docs: docs,
		A:    Recipe{Kind: "offline", Conf: vlib.IdxConf{Dir: "fs", SegVer: 1, Merge: "none"}, Parts: [][][]Op{{order}}, OffBatch: 5, Open: "reopen"},
		B:    Recipe{Kind: "offline", Conf: vlib.IdxConf{Dir: "fs", SegVer: 1, Merge: "none"}, Parts: [][][]Op{{order}}, OffBatch: 0, Open: "reopen"},
		Reqs: []Req{{Q: Q{Kind: "all"}}, {Q: Q{Kind: "term", Field: "t", Text: "ant"}}}}
}

func TestC08MergeFieldLengthProbe(t *testing.T) {
	c := mergeProbeCase()
	var st stats
	f := vlib.Guard("probe", func() *vlib.Failure { return prop(&c, &st) })
	if f != nil {
		vlib.Report(t, ev, "probe-merge", c, f)
		return
	}
	if st.avgdlKnown == 0 {
		t.Log("a merged offline build scores like the unmerged one on this tree")
		return
	}
	vlib.KnownProbe(t, ev, "probe-merge", mergeKey, c, vlib.Failf(mergeKey, "four documents in one segment against the same four merged from one segment each: %s", st.avgdlMsg))
}

// ---------------------------------------------------------------------------------------------
// the generated pairs

func recipeClasses(side string, r *Recipe, s int, pending uint64) []string {
	cls := []string{}
	for k, v := range r.dims() {
		cls = append(cls, "dim:"+k+"="+v)
	}
	if r.Kind == "offline" {
		switch {
		case r.ops() == 0:
			cls = append(cls, "offline:empty")
		case r.OffBatch == 0:
			cls = append(cls, "offline:batch-size-0")
		case r.OffBatch >= r.ops():
			cls = append(cls, "offline:batch-size>=n")
		}
	}
	cls = append(cls, "merge-policy:"+r.Conf.Merge)
	if r.Conf.Unsafe {
		cls = append(cls, "unsafe-batches")
	}
	if r.Settle {
		cls = append(cls, "nrt:merger-given-time-to-settle")
	}
	if pending > 0 {
		cls = append(cls, "layout:pending-deletions-observed")
	}
	if r.Kind != "offline" && r.mergeCapable() {
		want := 0
		for p := range r.Parts {
			want += r.batchesWithDocs(p)
		}
		if s < want && !r.hasDeletes() {
			cls = append(cls, "layout:merged-segment-observed")
		}
	}
	sort.Strings(cls)
	return cls
}

func runPair(rt vlib.TB, c *Case) {
	var st stats
	f := vlib.Guard("pair", func() *vlib.Failure { return prop(c, &st) })
	f = finish(&st, f)
	canon := vlib.Canon(c)
	nd, _ := diffDims(&c.A, &c.B)
	cls := append(recipeClasses("a", &c.A, st.segsA, st.pendingA), recipeClasses("b", &c.B, st.segsB, st.pendingB)...)
	cls = append(cls, "pair", "scores:"+st.scoreMode, fmt.Sprintf("dims-differing:%d", nd))
	if len(c.Docs) == 0 {
		cls = append(cls, "corpus:empty")
	}
	if len(uniqueIdx(c.Docs)) != len(c.Docs) {
		cls = append(cls, "corpus:duplicate-document")
	}
	if st.storedDocs > 0 {
		cls = append(cls, "stored:compared")
	} else if st.storedSkip != "" {
		cls = append(cls, "stored:skipped-"+st.storedSkip)
	}
	ev.Case(canon, nd >= 2 && st.withHits > 0, cls...)
	// one evaluation per compared request; the pair itself was counted by Case
	if st.searches > 1 {
		ev.Evals(st.searches - 1)
	}
	if nd >= 2 && st.withHits > 1 {
		for i := 1; i < st.withHits; i++ {
			ev.NonTrivial(fmt.Sprintf("%s#%d", canon, i))
		}
	}
	for _, k := range st.classes {
		ev.Class(k, 1)
	}
	ev.AddExtra("requests_compared", st.searches)
	ev.AddExtra("requests_with_hits", st.withHits)
	ev.AddExtra("scores_compared_exactly", st.scoresStrict)
	ev.AddExtra("scores_equal_on_merge_capable_pairs", st.scoresLooseEqual)
	ev.AddExtra("scores_differing_by_avgdl_only", st.avgdlKnown)
	ev.AddExtra("stored_documents_compared", st.storedDocs)
	ev.AddExtra("requests_excluded_"+disjKey, st.excludedDisj)
	ev.AddExtra("score_sorted_requests_skipped_scores_not_comparable", st.scoreSortSkipped)
	if len(c.Docs) <= 6 && st.sampleReq != nil {
		ev.Sample(map[string]interface{}{"docs": c.Docs, "a": c.A, "b": c.B, "one_request": st.sampleReq, "requests": len(c.Reqs),
			"score_mode": st.scoreMode, "segments": []int{st.segsA, st.segsB}, "dims_differing": nd}, nd >= 2 && st.withHits > 0)
	}
	vlib.Report(rt, ev, "pair", c, f)
}

func TestC08Pairs(t *testing.T) {
	ev.Assume("builds with merge policy none (MergePlanOptions.MaxSegmentSize=1, MinSegmentsForInMemoryMerge=1<<30) hold one segment per batch with documents: asserted on every such build (key layout-not-enforced)")
	ev.Assume("numeric range queries use whole-number bounds at least 2 apart or infinite (narrow ranges belong to the known range-enumeration blow-up of C10)")
	ev.Assume("stored fields of version-2 segments are not read while a writer that may merge is open (third-party race, C15)")
	vlib.Check(t, 40, 800, func(rt *rapid.T) {
		c := genCase(rt, 10)
		runPair(rt, &c)
	})
}

func replayPair(raw json.RawMessage) *vlib.Failure {
	var c Case
	if f := vlib.Decode(raw, &c); f != nil {
		return f
	}
	var st stats
	return finish(&st, vlib.Guard("pair", func() *vlib.Failure { return prop(&c, &st) }))
}

var replayFns = map[string]vlib.ReplayFn{
	"pair":        replayPair,
	"probe-merge": replayPair,
	"probe-disj": func(raw json.RawMessage) *vlib.Failure {
		// the probe compares one request directly (the generated pairs set this class aside
		// while the defect is present)
		var c Case
		if f := vlib.Decode(raw, &c); f != nil {
			return f
		}
		return disjProbe(&c)
	},
}

func TestReplay(t *testing.T)  { vlib.ReplayMain(t, ev, replayFns) }
func TestRegress(t *testing.T) { vlib.RegressMain(t, ev, replayFns) }
