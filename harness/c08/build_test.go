// build_test.go: turning a recipe into searchable readers.
package c08

import (
	"context"
	"fmt"
	"os"
	"time"

	"github.com/blugelabs/bluge"
	"github.com/blugelabs/bluge/index"
	"github.com/blugelabs/bluge/search"

	"verifharness/vlib"
)

const callBound = 60 * time.Second

func buildDoc(d *Doc) *bluge.Document {
	bd := bluge.NewDocument(d.ID)
	for _, v := range d.T {
		bd.AddField(bluge.NewTextField("t", v).StoreValue().SearchTermPositions())
	}
	for _, v := range d.U {
		bd.AddField(bluge.NewTextField("u", v))
	}
	for _, v := range d.K {
		bd.AddField(bluge.NewKeywordField("k", v).StoreValue().Sortable().Aggregatable())
	}
	for _, v := range d.N {
		bd.AddField(bluge.NewNumericField("n", v).StoreValue().Sortable().Aggregatable())
	}
	for _, v := range d.X {
		bd.AddField(bluge.NewNumericField("x", v).Sortable().Aggregatable())
	}
	for _, v := range d.D {
		bd.AddField(bluge.NewDateTimeField("d", time.Unix(0, v).UTC()).StoreValue().Sortable().Aggregatable())
	}
	return bd
}

// config builds the bluge configuration of a recipe for a directory.
func (r *Recipe) config(path string, forceFS bool) bluge.Config {
	conf := r.Conf
	if forceFS {
		conf.Dir = "fs"
	}
	cfg := conf.Config(path, nil)
	if r.NoConj {
		cfg = cfg.DisableOptimizeConjunction()
	}
	if r.NoConjU {
		cfg = cfg.DisableOptimizeConjunctionUnadorned()
	}
	if r.NoDisjU {
		cfg = cfg.DisableOptimizeDisjunctionUnadorned()
	}
	return cfg
}

// side is one built recipe: the readers to search and what was measured about the layout.
type side struct {
	rec     *Recipe
	readers []*bluge.Reader
	writers []*bluge.Writer
	paths   []string
	segs    int    // segments in the searched snapshots
	pending uint64 // deleted documents still present in the searched snapshots
	count   uint64 // sum of Reader.Count()
}

func (s *side) close() {
	for _, r := range s.readers {
		if r != nil {
			_ = r.Close()
		}
	}
	for _, w := range s.writers {
		if w != nil {
			_ = vlib.Watchdog("Writer.Close", callBound, func() *vlib.Failure { _ = w.Close(); return nil })
		}
	}
	for _, p := range s.paths {
		_ = os.RemoveAll(p)
	}
}

func (s *side) search(req bluge.SearchRequest) (search.DocumentMatchIterator, error) {
	if len(s.readers) == 1 {
		return s.readers[0].Search(context.Background(), req)
	}
	return bluge.MultiSearch(context.Background(), req, s.readers...)
}

func makeBatch(c *Case, ops []Op) (*index.Batch, *vlib.Failure) {
	b := bluge.NewBatch()
	for _, o := range ops {
		switch o.K {
		case "ins":
			if o.I < 0 || o.I >= len(c.Docs) {
				return nil, vlib.Failf("harness-bad-case", "op %v out of range", o)
			}
			b.Insert(buildDoc(&c.Docs[o.I]))
		case "upd":
			if o.I < 0 || o.I >= len(c.Docs) {
				return nil, vlib.Failf("harness-bad-case", "op %v out of range", o)
			}
			b.Update(bluge.Identifier(c.Docs[o.I].ID), buildDoc(&c.Docs[o.I]))
		case "junk":
			if o.I < 0 || o.I >= len(c.Junk) {
				return nil, vlib.Failf("harness-bad-case", "op %v out of range", o)
			}
			b.Insert(buildDoc(&c.Junk[o.I]))
		case "del":
			if o.I < 0 || o.I >= len(c.Junk) {
				return nil, vlib.Failf("harness-bad-case", "op %v out of range", o)
			}
			b.Delete(bluge.Identifier(c.Junk[o.I].ID))
		default:
			return nil, vlib.Failf("harness-bad-case", "unknown op %q", o.K)
		}
	}
	return b, nil
}

// runWriter opens a writer on cfg and applies the batches; in unsafe mode it waits for the
// last batch to be reported persisted when wait is set (needed before close + reopen).
func runWriter(c *Case, cfg bluge.Config, batches [][]Op, unsafe, wait bool) (*bluge.Writer, *vlib.Failure) {
	var w *bluge.Writer
	if f := vlib.Guard("OpenWriter", func() *vlib.Failure {
		var err error
		w, err = bluge.OpenWriter(cfg)
		if err != nil {
			return vlib.Failf("open-writer-error", "OpenWriter: %v", err)
		}
		return nil
	}); f != nil {
		return nil, f
	}
	var last chan error
	for bi, ops := range batches {
		b, f := makeBatch(c, ops)
		if f != nil {
			_ = w.Close()
			return nil, f
		}
		if unsafe {
			ch := make(chan error, 1)
			b.SetPersistedCallback(func(err error) { ch <- err })
			last = ch
		}
		if f := vlib.Guard("Writer.Batch", func() *vlib.Failure {
			if err := w.Batch(b); err != nil {
				return vlib.Failf("batch-error", "batch %d: %v", bi, err)
			}
			return nil
		}); f != nil {
			_ = w.Close()
			return nil, f
		}
	}
	if wait && last != nil {
		select {
		case err := <-last:
			if err != nil {
				_ = w.Close()
				return nil, vlib.Failf("persist-callback-error", "persisted callback: %v", err)
			}
		case <-time.After(callBound):
			return nil, vlib.Failf("hang@persisted-callback", "persisted callback of the last unsafe batch not invoked within %v", callBound)
		}
	}
	return w, nil
}

func openReader(site string, cfg bluge.Config) (*bluge.Reader, *vlib.Failure) {
	var r *bluge.Reader
	f := vlib.Guard(site, func() *vlib.Failure {
		var err error
		r, err = bluge.OpenReader(cfg)
		if err != nil {
			return vlib.Failf("open-reader-error@"+site, "OpenReader: %v", err)
		}
		return nil
	})
	return r, f
}

// backupAndOpen copies the reader's snapshot with Reader.Backup into a fresh directory (which
// must exist) and opens that directory read-only.
func backupAndOpen(s *side, r *Recipe, from *bluge.Reader) (*bluge.Reader, *vlib.Failure) {
	bdir := vlib.NewScratchDir("c08bak")
	s.paths = append(s.paths, bdir)
	if err := os.MkdirAll(bdir, 0o755); err != nil {
		return nil, vlib.Failf("harness-io", "mkdir %s: %v", bdir, err)
	}
	if f := vlib.Guard("Reader.Backup", func() *vlib.Failure {
		if err := from.Backup(bdir, nil); err != nil {
			return vlib.Failf("backup-error", "Backup: %v", err)
		}
		return nil
	}); f != nil {
		return nil, f
	}
	return openReader("OpenReader(backup)", r.config(bdir, true))
}

func closeWriter(w *bluge.Writer) *vlib.Failure {
	return vlib.Guard("Writer.Close", func() *vlib.Failure {
		if err := w.Close(); err != nil {
			return vlib.Failf("close-error", "Writer.Close: %v", err)
		}
		return nil
	})
}

// buildPart builds index p of the recipe and appends its reader to s.
func buildPart(c *Case, r *Recipe, p int, s *side) *vlib.Failure {
	path := ""
	if r.Conf.Dir == "fs" || r.Kind == "offline" {
		path = vlib.NewScratchDir("c08")
		s.paths = append(s.paths, path)
	}
	cfg := r.config(path, r.Kind == "offline")
	if r.Kind == "offline" {
		var ow *bluge.OfflineWriter
		if f := vlib.Guard("OpenOfflineWriter", func() *vlib.Failure {
			var err error
			ow, err = bluge.OpenOfflineWriter(cfg, r.OffBatch, 10)
			if err != nil {
				return vlib.Failf("open-offline-error", "OpenOfflineWriter: %v", err)
			}
			return nil
		}); f != nil {
			return f
		}
		for _, ops := range r.Parts[p] {
			for _, o := range ops {
				if o.K != "ins" || o.I < 0 || o.I >= len(c.Docs) {
					return vlib.Failf("harness-bad-case", "offline recipe with op %v", o)
				}
				if f := vlib.Guard("OfflineWriter.Insert", func() *vlib.Failure {
					if err := ow.Insert(buildDoc(&c.Docs[o.I])); err != nil {
						return vlib.Failf("offline-insert-error", "Insert: %v", err)
					}
					return nil
				}); f != nil {
					return f
				}
			}
		}
		if f := vlib.Guard("OfflineWriter.Close", func() *vlib.Failure {
			if err := ow.Close(); err != nil {
				return vlib.Failf("offline-close-error", "OfflineWriter.Close: %v", err)
			}
			return nil
		}); f != nil {
			return f
		}
		switch r.Open {
		case "nrt":
			// the offline build accepts a writer
			w, f := runWriter(c, cfg, nil, false, false)
			if f != nil {
				f.Msg = "writer on the offline build: " + f.Msg
				return f
			}
			s.writers = append(s.writers, w)
			rd, err := w.Reader()
			if err != nil {
				return vlib.Failf("reader-error", "Writer.Reader: %v", err)
			}
			s.readers = append(s.readers, rd)
		case "backup":
			rd, f := openReader("OpenReader(offline)", cfg)
			if f != nil {
				return f
			}
			rd2, f := backupAndOpen(s, r, rd)
			_ = rd.Close()
			if f != nil {
				return f
			}
			s.readers = append(s.readers, rd2)
		default:
			rd, f := openReader("OpenReader(offline)", cfg)
			if f != nil {
				return f
			}
			s.readers = append(s.readers, rd)
		}
		return nil
	}
	w, f := runWriter(c, cfg, r.Parts[p], r.Conf.Unsafe, r.Open == "reopen")
	if f != nil {
		return f
	}
	switch r.Open {
	case "reopen":
		if f := closeWriter(w); f != nil {
			return f
		}
		rd, f := openReader("OpenReader(reopen)", cfg)
		if f != nil {
			return f
		}
		s.readers = append(s.readers, rd)
	case "backup":
		rd, err := w.Reader()
		if err != nil {
			_ = w.Close()
			return vlib.Failf("reader-error", "Writer.Reader: %v", err)
		}
		rd2, f := backupAndOpen(s, r, rd)
		_ = rd.Close()
		if f2 := closeWriter(w); f == nil {
			f = f2
		}
		if f != nil {
			return f
		}
		s.readers = append(s.readers, rd2)
	default:
		s.writers = append(s.writers, w)
		if r.mergeCapable() && r.Settle {
			settle(w)
		}
		rd, err := w.Reader()
		if err != nil {
			return vlib.Failf("reader-error", "Writer.Reader: %v", err)
		}
		s.readers = append(s.readers, rd)
	}
	return nil
}

// settle gives the background merger of a merge-capable writer a bounded chance to finish
// before the reader is taken (the layout after the last merge introduction is a layout of its
// own: offsets and deletion bitmaps are rebuilt there).  It only influences which layout is
// observed, never the verdict: at most 30 looks 2 ms apart, done when the segment list was
// the same four times in a row.
func settle(w *bluge.Writer) {
	last, same := "", 0
	for i := 0; i < 30 && same < 4; i++ {
		rd, err := w.Reader()
		if err != nil {
			return
		}
		cur := ""
		for _, seg := range rd.VerifSnapshot().Segments() {
			cur += fmt.Sprintf("%d,", seg.ID())
		}
		_ = rd.Close()
		if cur == last {
			same++
		} else {
			last, same = cur, 0
		}
		time.Sleep(2 * time.Millisecond)
	}
}

// buildSide builds every index of the recipe and measures the layout of what will be searched.
func buildSide(c *Case, r *Recipe) (*side, *vlib.Failure) {
	s := &side{rec: r}
	f := vlib.Watchdog("build-"+r.Kind, 2*callBound, func() *vlib.Failure {
		for p := range r.Parts {
			if f := buildPart(c, r, p, s); f != nil {
				return f
			}
		}
		for _, rd := range s.readers {
			snap := rd.VerifSnapshot()
			for _, seg := range snap.Segments() {
				s.segs++
				if d := seg.Deleted(); d != nil {
					s.pending += d.GetCardinality()
				}
			}
			n, err := rd.Count()
			if err != nil {
				return vlib.Failf("count-error", "Reader.Count: %v", err)
			}
			s.count += n
		}
		return nil
	})
	if f != nil {
		s.close()
		return nil, f
	}
	return s, nil
}

// expectedSegments: with merging switched off and no deletions every batch holding a document
// is one segment; anything else means the configuration did not enforce the layout the score
// clause relies on.
func (s *side) checkLayout() *vlib.Failure {
	r := s.rec
	if r.mergeCapable() {
		return nil
	}
	if r.Kind == "offline" {
		if want := r.offlineSegments(); s.segs != want {
			return vlib.Failf("layout-not-enforced", "offline build with %d flushed batch(es) is searched as %d segment(s)", want, s.segs)
		}
		return nil
	}
	want := 0
	for p := range r.Parts {
		want += r.batchesWithDocs(p)
	}
	if !r.hasDeletes() {
		if s.segs != want || s.pending != 0 {
			return vlib.Failf("layout-not-enforced", "merge policy none, %d batches with documents, no deletions: %d segments, %d pending deletions in the searched snapshot", want, s.segs, s.pending)
		}
	} else if s.segs > want {
		return vlib.Failf("layout-not-enforced", "merge policy none, %d batches with documents: %d segments", want, s.segs)
	}
	return nil
}

var _ = fmt.Sprint
