// C15  Writer and Reader are safe for concurrent use and Close terminates.
//
// The package is built with -race.  Every generated concurrent program runs in a CHILD process
// (this binary re-executed) whose race reports go to a log file (GORACE=log_path) that the
// parent parses: the Go race detector is the monitor, the parent is the judge.
package c15

import (
	"bufio"
	"context"
	"encoding/json"
	"fmt"
	"io"
	"os"
	"os/exec"
	"path/filepath"
	"regexp"
	"runtime"
	"sort"
	"strings"
	"sync"
	"testing"
	"time"

	"github.com/blugelabs/bluge"
	"github.com/blugelabs/bluge/index"
	"github.com/blugelabs/bluge/search"
	"github.com/blugelabs/bluge/search/aggregations"
	"pgregory.net/rapid"

	"verifharness/vlib"
)

func init() { vlib.RegisterChild("c15prog", childMain) }

func TestMain(m *testing.M) { vlib.Main(m) }

func TestZZStopServer(t *testing.T) {
	if srv != nil {
		srv.kill()
		srv = nil
	}
}

var ev = vlib.NewEvidence("C15",
	"generated concurrent programs (2-12 goroutines: batch writers over 6 shared ids, goroutines taking/using/closing readers, 1-4 searchers sharing ONE reader and running scored, "+
		"unscored (optimised conjunction/disjunction), sorted, aggregating and stored-field-loading searches, memory statistics), seeded micro-delays; Close is issued after all callers "+
		"returned - in half of the programs while a merge or persist is parked at a gate that is then opened. Each program runs in a child process built with the Go race detector; "+
		"the parent parses the race log: any report with a bluge frame is a violation (reports wholly inside the bundled ice/v2 + zstd stored-field path are the listed third-party "+
		"finding); Close must return within 60 s and the index must reopen with everything acknowledged. non-trivial = >= 2 goroutines used the same reader concurrently while >= 1 batch "+
		"and >= 1 merge or persist ran")

// Prog is one concurrent program.
type Prog struct {
	Conf       vlib.IdxConf       `json:"conf"`
	Seed       []vlib.BatchSpec   `json:"seed"`
	Writers    [][]vlib.BatchSpec `json:"writers"`
	Searchers  int                `json:"searchers"`
	Rounds     int                `json:"rounds"`
	Takers     int                `json:"reader_takers"`
	StoredLoad bool               `json:"stored_field_loads"`
	GatedClose string             `json:"gated_close"` // "" | "merger:ev7" | "persister:persist.snp:begin" | "persister:load.seg:end"
	Delays     []int              `json:"delays_us"`
}

func gen(t *rapid.T) Prog {
	p := Prog{Conf: vlib.IdxConf{Dir: "fs", SegVer: rapid.SampledFrom([]int{1, 1, 1, 2}).Draw(t, "segVer"),
		Unsafe: rapid.Bool().Draw(t, "unsafe"), Merge: rapid.SampledFrom([]string{"default", "pairs"}).Draw(t, "merge")}}
	g := vlib.NewHistGen(6)
	for i := 0; i < 3; i++ {
		var b vlib.BatchSpec
		for _, id := range g.IDPool[i*2 : i*2+2] {
			b.Ops = append(b.Ops, vlib.Op{Kind: "update", ID: id, Doc: g.Doc(t, id)})
		}
		p.Seed = append(p.Seed, b)
	}
	nw := rapid.IntRange(1, 5).Draw(t, "writers")
	for w := 0; w < nw; w++ {
		nb := rapid.IntRange(1, 5).Draw(t, "batches")
		var bs []vlib.BatchSpec
		for i := 0; i < nb; i++ {
			bs = append(bs, g.Batch(t, 3))
		}
		p.Writers = append(p.Writers, bs)
	}
	p.Searchers = rapid.IntRange(1, 4).Draw(t, "searchers")
	p.Rounds = rapid.IntRange(2, 8).Draw(t, "rounds")
	p.Takers = rapid.IntRange(0, 3).Draw(t, "takers")
	p.StoredLoad = rapid.Bool().Draw(t, "stored")
	p.GatedClose = rapid.SampledFrom([]string{"", "", "merger:ev7", "persister:persist.snp:begin", "persister:load.seg:end", "merger:persist.seg:end", "intro-persist-window", "intro-persist-window", "intro-merge-window", "intro-merge-window"}).Draw(t, "gatedClose")
	if strings.HasPrefix(p.GatedClose, "persister") || p.GatedClose == "intro-persist-window" {
		p.Conf.Unsafe = true
	}
	if p.Conf.Unsafe && (p.GatedClose == "" || strings.HasPrefix(p.GatedClose, "merger")) && rapid.Bool().Draw(t, "nap") {
		// a low file threshold makes the persister pause for a lagging merger (only with unsafe
		// batches: a safe batch would wait for the paused persister while the merger is parked)
		p.Conf.NapFiles = rapid.IntRange(1, 4).Draw(t, "napFiles")
	}
	n := rapid.IntRange(4, 16).Draw(t, "nDelays")
	for i := 0; i < n; i++ {
		p.Delays = append(p.Delays, rapid.SampledFrom([]int{0, 0, 1, 10, 50, 200, 1000}).Draw(t, "delay"))
	}
	return p
}

// ChildResult is what the child reports.
type ChildResult struct {
	Failure      *vlib.Failure `json:"failure,omitempty"`
	SharedUses   int           `json:"shared_reader_concurrent_uses"`
	Batches      int           `json:"batches"`
	BgSteps      int           `json:"background_steps"`
	GateParked   bool          `json:"gate_parked"`
	CloseSeconds float64       `json:"close_seconds"`
	ProgSeconds  float64       `json:"prog_seconds"`
}

func queries() []func() bluge.SearchRequest {
	t := func(w string) bluge.Query { return bluge.NewTermQuery(w).SetField("t") }
	return []func() bluge.SearchRequest{
		func() bluge.SearchRequest { return bluge.NewTopNSearch(10, t("alpha")) },
		func() bluge.SearchRequest {
			return bluge.NewTopNSearch(10, bluge.NewBooleanQuery().AddMust(t("alpha"), t("beta"))).SetScore("none")
		},
		func() bluge.SearchRequest {
			return bluge.NewTopNSearch(10, bluge.NewBooleanQuery().AddShould(t("gamma"), t("delta"), t("zeta"))).SetScore("none")
		},
		func() bluge.SearchRequest {
			return bluge.NewTopNSearch(10, bluge.NewBooleanQuery().AddMust(t("alpha"), t("beta")))
		},
		func() bluge.SearchRequest { return bluge.NewTopNSearch(20, bluge.NewMatchAllQuery()).SortBy([]string{"k", "-_id"}) },
		func() bluge.SearchRequest {
			r := bluge.NewAllMatches(bluge.NewMatchAllQuery())
			r.AddAggregation("s", aggregations.Sum(search.Field("n")))
			return r
		},
		func() bluge.SearchRequest { return bluge.NewTopNSearch(10, bluge.NewMatchPhraseQuery("beta gamma").SetField("t")) },
		func() bluge.SearchRequest { return bluge.NewTopNSearch(10, bluge.NewPrefixQuery("a").SetField("k")) },
	}
}

// childMain serves programs: one line "caseFile resultFile indexDir" per request on stdin, one
// line "DONE" per answer on stdout.  One child runs many programs because a race-instrumented
// test binary needs seconds to start.
func childMain() {
	in := bufio.NewScanner(os.Stdin)
	in.Buffer(make([]byte, 1<<16), 1<<20)
	for in.Scan() {
		parts := strings.Fields(in.Text())
		if len(parts) != 3 {
			continue
		}
		var p Prog
		b, err := os.ReadFile(parts[0])
		if err == nil {
			err = json.Unmarshal(b, &p)
		}
		res := ChildResult{}
		if err != nil {
			res.Failure = vlib.Failf("harness-child", "%v", err)
		} else {
			os.Setenv("C15_DIR", parts[2])
			t0 := time.Now()
			res.Failure = vlib.Guard("program", func() *vlib.Failure { return runProg(p, &res) })
			res.ProgSeconds = time.Since(t0).Seconds()
		}
		out, _ := json.Marshal(res)
		_ = os.WriteFile(parts[1], out, 0o644)
		fmt.Println("DONE")
	}
	os.Exit(0)
}

func runProg(p Prog, res *ChildResult) *vlib.Failure {
	dir := os.Getenv("C15_DIR")
	gates := vlib.NewGates()
	introWindow := p.GatedClose == "intro-persist-window"
	mergeIntroWindow := p.GatedClose == "intro-merge-window"
	if mergeIntroWindow {
		// Close while the introducer is applying a MERGE introduction: the merger is parked with its
		// task ready (event 7) during the program; after all callers returned the introducer is
		// held inside introduceMerge (at a wrapped segment's Count), the merger is released, then
		// Close is issued
		gates.Hold("merger:ev7")
	} else if introWindow {
		// Close while the introducer is applying a persist introduction: the persister is parked
		// after loading the persisted copy, then released while the introducer is held inside
		// introducePersist (at the wrapped segment's Count), then Close is issued
		// round 1 of the persister is parked before its snapshot write so that the batches of the
		// program pile up unpersisted; round 2 then persists >= 2 segments in one introduction
		gates.Hold("persister:persist.snp:begin")
		p.Conf.Merge = "nomem"
	} else if p.GatedClose != "" {
		gates.Hold(p.GatedClose)
	}
	bgSteps := 0
	var bgMu sync.Mutex
	rr, f := vlib.StartRecordedRun(p.Conf, dir, nil, func(ic index.Config, d *vlib.RecDir) index.Config {
		ic = gates.Install(ic, d, introWindow || mergeIntroWindow)
		inner := d.Gate
		d.Gate = func(phase string, e *vlib.DirEvent) {
			if phase == "end" && e.Op == "persist" {
				bgMu.Lock()
				bgSteps++
				bgMu.Unlock()
			}
			inner(phase, e)
		}
		return ic
	})
	if f != nil {
		return f
	}
	defer gates.OpenAll()
	m := vlib.NewModel()
	for _, b := range p.Seed {
		if f := rr.Batch(b); f != nil {
			return f
		}
		m.Apply(b)
	}
	shared, f := rr.X.Reader()
	if f != nil {
		return f
	}
	delay := func(i int) {
		if d := p.Delays[i%len(p.Delays)]; d > 0 {
			time.Sleep(time.Duration(d) * time.Microsecond)
		}
	}
	var wg sync.WaitGroup
	var mu sync.Mutex
	var fails []*vlib.Failure
	fail := func(f *vlib.Failure) { mu.Lock(); fails = append(fails, f); mu.Unlock() }
	inShared := 0
	start := make(chan struct{})
	// writers: each goroutine has its own ids? no - they conflict on purpose; content is checked at the end only for acked-ness
	for w, bs := range p.Writers {
		wg.Add(1)
		go func(w int, bs []vlib.BatchSpec) {
			defer wg.Done()
			<-start
			for i, b := range bs {
				delay(w*5 + i)
				batch := vlib.BuildBatch(b)
				if err := rr.X.W.Batch(batch); err != nil {
					fail(vlib.Failf("batch-error", "writer %d: %v", w, err))
					return
				}
				mu.Lock()
				res.Batches++
				mu.Unlock()
				_ = rr.X.W.VerifIndexWriter().MemoryUsed()
			}
		}(w, bs)
	}
	qs := queries()
	for s := 0; s < p.Searchers; s++ {
		wg.Add(1)
		go func(s int) {
			defer wg.Done()
			<-start
			for r := 0; r < p.Rounds; r++ {
				delay(50 + s*3 + r)
				mu.Lock()
				inShared++
				if inShared >= 2 {
					res.SharedUses++
				}
				mu.Unlock()
				req := qs[(s+r)%len(qs)]()
				it, err := shared.Search(context.Background(), req)
				if err != nil {
					fail(vlib.Failf("search-error", "searcher %d: %v", s, err))
				} else {
					for {
						dm, err := it.Next()
						if err != nil {
							fail(vlib.Failf("search-error", "searcher %d next: %v", s, err))
							break
						}
						if dm == nil {
							break
						}
						if p.StoredLoad {
							_ = dm.VisitStoredFields(func(field string, value []byte) bool { return true })
						}
					}
				}
				mu.Lock()
				inShared--
				mu.Unlock()
			}
		}(s)
	}
	for k := 0; k < p.Takers; k++ {
		wg.Add(1)
		go func(k int) {
			defer wg.Done()
			<-start
			for r := 0; r < p.Rounds; r++ {
				delay(90 + k*7 + r)
				rd, err := rr.X.W.Reader()
				if err != nil {
					fail(vlib.Failf("reader-error", "%v", err))
					return
				}
				if _, err := rd.Count(); err != nil {
					fail(vlib.Failf("count-error", "%v", err))
				}
				it, err := rd.Search(context.Background(), qs[(k+r)%len(qs)]())
				if err == nil {
					for {
						dm, err := it.Next()
						if err != nil || dm == nil {
							break
						}
					}
				}
				_ = rd.Close()
			}
		}(k)
	}
	done := make(chan struct{})
	go func() { wg.Wait(); close(done) }()
	close(start)
	if mergeIntroWindow {
		if pk := gates.WaitParked("merger:ev7", 500*time.Millisecond); pk != nil {
			res.GateParked = true
		}
	} else if p.GatedClose != "" && !introWindow {
		if pk := gates.WaitParked(p.GatedClose, 500*time.Millisecond); pk != nil {
			res.GateParked = true
		}
	}
	select {
	case <-done:
	case <-time.After(vlib.CallBound):
		return vlib.Failf("hang@concurrent-program", "callers did not return within %v:\n%s", vlib.CallBound, allStacks())
	}
	if len(fails) > 0 {
		return fails[0]
	}
	_ = shared.Close()
	// Close while a merge / persist is in progress (parked), which is then allowed to go on
	bgMu.Lock()
	res.BgSteps = bgSteps
	bgMu.Unlock()
	if introWindow {
		if pk0 := gates.WaitParked("persister:persist.snp:begin", time.Second); pk0 != nil {
			gates.Hold("persister:load.seg:end")
			gates.Unhold("persister:persist.snp:begin")
			gates.Release(pk0)
			if pk := gates.WaitParked("persister:load.seg:end", time.Second); pk != nil {
				gates.Hold("introducer/persist:count")
				gates.Unhold("persister:load.seg:end")
				gates.Release(pk)
				if gates.WaitParked("introducer/persist:count", time.Second) != nil {
					res.GateParked = true
				}
			}
		}
	}
	if mergeIntroWindow {
		if pk := gates.WaitParked("merger:ev7", 200*time.Millisecond); pk != nil {
			gates.Hold("introducer/merge:count")
			gates.Unhold("merger:ev7")
			gates.Release(pk)
			res.GateParked = gates.WaitParked("introducer/merge:count", time.Second) != nil
		}
	}
	closeDone := make(chan *vlib.Failure, 1)
	t0 := time.Now()
	go func() { closeDone <- rr.X.Close() }()
	time.Sleep(2 * time.Millisecond)
	gates.OpenAll()
	select {
	case f := <-closeDone:
		if f != nil {
			return f
		}
	case <-time.After(vlib.CallBound + 5*time.Second):
		return vlib.Failf("hang@Writer.Close", "Close did not return:\n%s", allStacks())
	}
	res.CloseSeconds = time.Since(t0).Seconds()
	// every item loaded through the directory was released exactly once, whatever the writer was
	// doing when Close arrived (all readers of this program are closed by now)
	if op, cl, dbl := rr.Dir.OpenHandles(); op != cl || dbl != 0 {
		return vlib.Failf("handle-pairing-after-close", "Close (gate %q) returned but of %d items loaded through the directory %d were closed once and %d more than once", p.GatedClose, op, cl, dbl)
	}
	if ents, err := os.ReadDir("/proc/self/fd"); err == nil {
		for _, e := range ents {
			if t, err := os.Readlink(filepath.Join("/proc/self/fd", e.Name())); err == nil && strings.HasPrefix(t, dir+"/") {
				return vlib.Failf("descriptor-leak-after-close", "Close (gate %q) returned but %s is still open", p.GatedClose, t)
			}
		}
	}
	if os.Getenv("C15_DBG") != "" {
		fmt.Println(strings.Join(gates.LogTail(200), "\n"))
	}
	// reopen: every acknowledged batch of safe mode is there; the state is some interleaving
	// of the writers' batches - here only "reopens and answers" plus per-id sanity is checked
	// (atomicity/linearizability is C05's subject)
	x2, f := vlib.OpenIdx(p.Conf, dir, nil)
	if f != nil {
		f.Key = "reopen-failed"
		return f
	}
	defer x2.Close()
	o, f := x2.ObserveNow(vlib.NewHistGen(6).IDPool)
	if f != nil {
		return f
	}
	if !p.Conf.Unsafe {
		// safe mode: everything was acknowledged, so for every id the surviving version must be
		// the last version written by SOME writer order: at least, an id whose every batch was an
		// update must have exactly one live document
		onlyUpdates := map[string]bool{}
		for _, b := range p.Seed {
			for _, op := range b.Ops {
				onlyUpdates[op.ID] = true
			}
		}
		for _, bs := range p.Writers {
			for _, b := range bs {
				for _, op := range b.Ops {
					if op.Kind != "update" {
						onlyUpdates[op.ID] = false
					}
				}
			}
		}
		for id, only := range onlyUpdates {
			if only && len(o.ByID[id]) != 1 {
				return vlib.Failf("acknowledged-update-lost", "after Close and reopen id %q (only ever written through acknowledged Updates) has %d live documents: %v", id, len(o.ByID[id]), o.ByID[id])
			}
		}
	}
	return nil
}

func allStacks() string {
	buf := make([]byte, 1<<20)
	n := runtime.Stack(buf, true)
	s := string(buf[:n])
	if len(s) > 6000 {
		s = s[:6000]
	}
	return s
}

// ---------------------------------------------------------------------------------------------
// race log parsing

type raceReport struct {
	text   string
	stacks [][]string // function names of the two access stacks
}

var frameRe = regexp.MustCompile(`(?m)^  (\S+)\(.*\)$`)

func parseRaceLog(text string) []raceReport {
	var out []raceReport
	for _, blk := range strings.Split(text, "==================") {
		if !strings.Contains(blk, "WARNING: DATA RACE") {
			continue
		}
		r := raceReport{text: blk}
		// access stacks are the paragraphs before the first "Goroutine ... created at:"
		head := blk
		if i := strings.Index(blk, "\nGoroutine "); i >= 0 {
			head = blk[:i]
		}
		for _, para := range strings.Split(head, "\n\n") {
			var fns []string
			for _, m := range frameRe.FindAllStringSubmatch(para, -1) {
				fns = append(fns, m[1])
			}
			if len(fns) > 0 {
				r.stacks = append(r.stacks, fns)
			}
		}
		out = append(out, r)
	}
	return out
}

func topFrame(st []string) string {
	for _, f := range st {
		if strings.HasPrefix(f, "runtime.") || strings.HasPrefix(f, "sync/atomic.") || strings.HasPrefix(f, "internal/") {
			continue
		}
		return f
	}
	if len(st) > 0 {
		return st[0]
	}
	return "?"
}

func firstNonStd(st []string) string {
	for _, f := range st {
		pkg := f
		if i := strings.Index(pkg, "/"); i >= 0 {
			pkg = pkg[:i]
		}
		if strings.Contains(pkg, ".") && !strings.HasPrefix(f, "runtime.") { // "github.com/..." vs "bytes.(*Reader)..."
			if strings.Contains(pkg, ".com") || strings.Contains(pkg, ".net") || strings.Contains(pkg, ".org") || strings.Contains(pkg, ".io") {
				return f
			}
		}
		if strings.HasPrefix(f, "verifharness/") {
			return f
		}
	}
	return ""
}

// inThirdPartyStoredPath: the access happened inside ice/v2's stored-field reading (or the
// zstd decoder / standard-library helpers called from it): the first non-standard-library
// frame belongs to ice/v2 or klauspost/compress/zstd and an ice/v2 frame is on the stack.
func inThirdPartyStoredPath(st []string) bool {
	top := firstNonStd(st)
	if !(strings.Contains(top, "github.com/blugelabs/ice/v2.") || strings.Contains(top, "github.com/klauspost/compress/zstd")) {
		return false
	}
	for _, f := range st {
		if strings.Contains(f, "github.com/blugelabs/ice/v2.") {
			return true
		}
	}
	return false
}

func classifyRace(r raceReport) (key string, bluge bool) {
	all := strings.Join(func() []string {
		var a []string
		for _, s := range r.stacks {
			a = append(a, s...)
		}
		return a
	}(), "\n")
	hasBluge := strings.Contains(r.text, "github.com/blugelabs/bluge") || strings.Contains(r.text, "github.com/blugelabs/ice")
	if len(r.stacks) >= 2 && inThirdPartyStoredPath(r.stacks[0]) && inThirdPartyStoredPath(r.stacks[1]) {
		return vlib.IceV2RaceKey, true
	}
	_ = all
	tops := []string{}
	for _, s := range r.stacks {
		tops = append(tops, topFrame(s))
	}
	sort.Strings(tops)
	return "data-race:" + strings.Join(tops, "|"), hasBluge
}

type runStats struct {
	res     ChildResult
	races   int
	known   int
	crashed bool
}

type server struct {
	cmd     *exec.Cmd
	stdin   io.WriteCloser
	lines   chan string
	raceLog string
	logOff  int64
	out     *strings.Builder
	mu      sync.Mutex
}

var srv *server

func startServer() (*server, error) {
	base := vlib.NewScratchDir("c15srv")
	_ = os.MkdirAll(base, 0o755)
	s := &server{raceLog: filepath.Join(base, "race"), out: &strings.Builder{}, lines: make(chan string, 16)}
	s.cmd = exec.Command(os.Args[0])
	s.cmd.Env = append(os.Environ(), "VERIF_CHILD=c15prog", "GORACE=log_path="+s.raceLog+" exitcode=0 halt_on_error=0 history_size=3", "VERIF_FRAG=")
	var err error
	if s.stdin, err = s.cmd.StdinPipe(); err != nil {
		return nil, err
	}
	stdout, err := s.cmd.StdoutPipe()
	if err != nil {
		return nil, err
	}
	s.cmd.Stderr = &lockedWriter{s: s}
	if err := s.cmd.Start(); err != nil {
		return nil, err
	}
	go func() {
		sc := bufio.NewScanner(stdout)
		sc.Buffer(make([]byte, 1<<16), 1<<22)
		for sc.Scan() {
			line := sc.Text()
			if line == "DONE" {
				s.lines <- line
			} else {
				s.mu.Lock()
				if s.out.Len() < 1<<20 {
					s.out.WriteString(line + "\n")
				}
				s.mu.Unlock()
			}
		}
		close(s.lines)
	}()
	return s, nil
}

type lockedWriter struct{ s *server }

func (w *lockedWriter) Write(p []byte) (int, error) {
	w.s.mu.Lock()
	if w.s.out.Len() < 1<<20 {
		w.s.out.Write(p)
	}
	w.s.mu.Unlock()
	return len(p), nil
}

func (s *server) output() string {
	s.mu.Lock()
	defer s.mu.Unlock()
	o := s.out.String()
	if len(o) > 6000 {
		o = o[len(o)-6000:]
	}
	return o
}

func (s *server) kill() {
	_ = s.stdin.Close()
	_ = s.cmd.Process.Kill()
	_, _ = s.cmd.Process.Wait()
}

// newRaceText returns what the child's race log gained since the last call.
func (s *server) newRaceText() string {
	var sb strings.Builder
	logs, _ := filepath.Glob(s.raceLog + ".*")
	for _, lf := range logs {
		b, err := os.ReadFile(lf)
		if err != nil {
			continue
		}
		if int64(len(b)) > s.logOff {
			sb.Write(b[s.logOff:])
			s.logOff = int64(len(b))
		}
	}
	return sb.String()
}

func prop(p Prog, st *runStats) *vlib.Failure {
	scratch := vlib.NewScratchDir("c15")
	_ = os.MkdirAll(scratch, 0o755)
	defer os.RemoveAll(scratch)
	caseFile := filepath.Join(scratch, "case.json")
	resFile := filepath.Join(scratch, "result.json")
	b, _ := json.Marshal(p)
	_ = os.WriteFile(caseFile, b, 0o644)
	if srv == nil {
		var err error
		if srv, err = startServer(); err != nil {
			return vlib.Failf("harness-child", "start: %v", err)
		}
	}
	s := srv
	if _, err := fmt.Fprintf(s.stdin, "%s %s %s\n", caseFile, resFile, filepath.Join(scratch, "idx")); err != nil {
		srv = nil
		return vlib.Failf("harness-child", "write to child: %v", err)
	}
	select {
	case _, ok := <-s.lines:
		if !ok {
			// the child died while running this program
			srv = nil
			st.crashed = true
			_, _ = s.cmd.Process.Wait()
			out := s.output()
			if strings.Contains(out, "blugelabs/bluge") || strings.Contains(out, "blugelabs/ice") {
				key := "process-died"
				if strings.Contains(out, "concurrent map") {
					key = "process-died:concurrent-map-access"
				}
				return vlib.Failf(key, "child process died while running the program:\n%s", out)
			}
			return vlib.Failf("harness-child", "child died without a bluge frame: %s", out)
		}
	case <-time.After(4 * time.Minute):
		s.kill()
		srv = nil
		return vlib.Failf("hang@child", "child did not finish the program in 4 minutes")
	}
	rb, err := os.ReadFile(resFile)
	if err != nil {
		return vlib.Failf("harness-child", "no result: %v; output %s", err, s.output())
	}
	_ = json.Unmarshal(rb, &st.res)
	// race reports that appeared while this program ran
	var firstOther *vlib.Failure
	for _, r := range parseRaceLog(s.newRaceText()) {
		st.races++
		key, hasBluge := classifyRace(r)
		if !hasBluge {
			if firstOther == nil {
				firstOther = vlib.Failf("harness-race", "race without a bluge frame:\n%s", r.text)
			}
			continue
		}
		if _, ok := vlib.IsKnown("C15", key); ok {
			st.known++
			ev.Known(key, "data race inside the bundled ice/v2 stored-field path")
			continue
		}
		txt := r.text
		if len(txt) > 4000 {
			txt = txt[:4000]
		}
		// the detector reports each racing pair once per process: restart the child so that the
		// shrunk case can show it again
		s.kill()
		srv = nil
		return vlib.Failf(key, "data race reported by the Go race detector:\n%s", txt)
	}
	if st.res.Failure != nil {
		return st.res.Failure
	}
	if firstOther != nil {
		return firstOther
	}
	return nil
}

func TestC15Programs(t *testing.T) {
	vlib.Check(t, 10, 150, func(rt *rapid.T) {
		p := gen(rt)
		var st runStats
		f := prop(p, &st)
		nt := st.res.SharedUses > 0 && st.res.Batches > 0 && st.res.BgSteps > 0
		cls := []string{fmt.Sprintf("segver:%d", p.Conf.SegVer)}
		if p.GatedClose != "" {
			cls = append(cls, "close-with-gate:"+p.GatedClose)
			if st.res.GateParked {
				cls = append(cls, "gate-parked-at-close")
			}
		}
		if p.StoredLoad {
			cls = append(cls, "stored-field-loads")
		}
		if p.Conf.NapFiles > 0 {
			cls = append(cls, "persister-pauses-for-merger")
		}
		ev.Case(vlib.Canon(p), nt, cls...)
		ev.AddExtra("race_reports_seen", st.races)
		ev.AddExtra("child_program_milliseconds", int(st.res.ProgSeconds*1000))
		ev.AddExtra("race_reports_third_party_known", st.known)
		if len(p.Writers) <= 2 && p.Searchers <= 2 {
			ev.Sample(map[string]interface{}{"prog": p, "result": st.res}, nt)
		}
		if f != nil && f.Key == "harness-race" {
			rt.Fatalf("vlib.harnessBug: %s", f.Msg)
		}
		vlib.Report(rt, ev, "program", p, f)
	})
}

var replayFns = map[string]vlib.ReplayFn{
	"program": func(raw json.RawMessage) *vlib.Failure {
		var p Prog
		if f := vlib.Decode(raw, &p); f != nil {
			return f
		}
		var st runStats
		return prop(p, &st)
	},
}

func TestReplay(t *testing.T)  { vlib.ReplayMain(t, ev, replayFns) }
func TestRegress(t *testing.T) { vlib.RegressMain(t, ev, replayFns) }
