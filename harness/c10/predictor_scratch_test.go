//go:build c10scratch

package c10

// Validation of the step predictor against the implementation (not part of the check: needs a
// scratch copy of the repository with one extra file, see NOTES.md "predictor validation"):
//
//	search/searcher/zz_c10scratch.go:
//	  package searcher
//	  func C10ScratchRanges(min, max int64) (starts, ends [][]byte, steps int) {
//	      for _, r := range splitInt64Range(min, max, 4) { starts = append(starts, r.startTerm); ends = append(ends, r.endTerm) }
//	      return
//	  }
//	  func C10ScratchSteps(min, max int64) (n int) {
//	      splitInt64Range(min, max, 4).Enumerate(func([]byte) bool { n++; return false }); return
//	  }

import (
	"bytes"
	"testing"

	"github.com/blugelabs/bluge/search/searcher"
)

func TestScratchPredictor(t *testing.T) {
	sets := [][]int64{intBoundaries(), nil}
	for _, f := range floatBoundaries() {
		sets[1] = append(sets[1], sortableOfFloat(f))
	}
	pairs, counted, maxCounted := 0, 0, int64(0)
	for _, set := range sets {
		for _, a := range set {
			for _, b := range set {
				rs := ownSplit(a, b)
				starts, ends, _ := searcher.C10ScratchRanges(a, b)
				if len(rs) != len(starts) {
					t.Fatalf("[%d,%d]: own split has %d sub-ranges, implementation %d", a, b, len(rs), len(starts))
				}
				for i, r := range rs {
					lo, hi := ownEncode(int64(r.Lo^1<<63), r.Shift), ownEncode(int64(r.Hi^1<<63), r.Shift)
					if !bytes.Equal(lo, starts[i]) || !bytes.Equal(hi, ends[i]) {
						t.Fatalf("[%d,%d] sub-range %d: own %x..%x, implementation %x..%x", a, b, i, lo, hi, starts[i], ends[i])
					}
				}
				pairs++
				steps, _, _, _ := predict(a, b)
				if steps <= 3000 || (steps <= 2000000 && pairs%7 == 0) {
					got := searcher.C10ScratchSteps(a, b)
					if int64(got) != steps {
						t.Fatalf("[%d,%d]: predicted %d look-ups, counted %d", a, b, steps, got)
					}
					counted++
					if steps > maxCounted {
						maxCounted = steps
					}
				}
			}
		}
	}
	t.Logf("%d ordered pairs: sub-ranges identical to the implementation's; look-ups counted for %d of them (largest %d), all equal to the prediction", pairs, counted, maxCounted)
}
