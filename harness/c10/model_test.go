package c10

// The harness's own statement of the numeric model: total order on finite floats, the sortable
// integer image, the 7-bit prefix coding, and the precision-step split of an interval with the
// number of candidate byte strings the searcher's base-256 walk visits for it.  Nothing in this
// file calls into bluge.

import (
	"math"
	"math/big"
)

// totalLess is the order of the property on finite floats: numeric order, with -0 below +0.
func totalLess(a, b float64) bool {
	if a < b {
		return true
	}
	if a > b {
		return false
	}
	// equal as numbers: identical, or the two zeros
	return math.Signbit(a) && !math.Signbit(b)
}

// sortableOfFloat maps a float to the int64 whose signed order is the total order (own
// formulation: go through the unsigned order-preserving image, then re-centre).
func sortableOfFloat(f float64) int64 {
	b := math.Float64bits(f)
	var u uint64
	if b>>63 == 1 {
		u = ^b // negative: every bit flipped, larger magnitude sorts lower
	} else {
		u = b | 1<<63
	}
	return int64(u ^ 1<<63)
}

func floatOfSortable(s int64) float64 {
	u := uint64(s) ^ 1<<63
	if u>>63 == 1 {
		return math.Float64frombits(u &^ (1 << 63))
	}
	return math.Float64frombits(^u)
}

// ord is the unsigned image of an int64 that the prefix coding spells out (offset binary).
func ord(v int64) uint64 { return uint64(v) ^ 1<<63 }

// codeLen is the number of 7-bit payload bytes of a term at the given shift.
func codeLen(shift uint) int { return int(63-shift)/7 + 1 }

// ownEncode spells the term of v at shift: marker byte, then the remaining 64-shift bits in 7-bit
// groups, most significant group first (the top group is partial).
func ownEncode(v int64, shift uint) []byte {
	n := codeLen(shift)
	out := make([]byte, n+1)
	out[0] = 0x20 + byte(shift)
	u := ord(v) >> shift
	for i := 0; i < n; i++ {
		group := uint(n-1-i) * 7
		out[1+i] = byte((u >> group) & 0x7f)
	}
	return out
}

// truncated is the value a term at shift stands for (low bits cleared).
func truncated(v int64, shift uint) int64 {
	return int64(uint64(v) &^ (uint64(1)<<shift - 1))
}

// subRange is one member of the decomposition: all values whose bits above Shift lie in
// [Lo>>Shift, Hi>>Shift] (Lo, Hi in the unsigned image).
type subRange struct {
	Shift  uint
	Lo, Hi uint64
}

const precisionStep = 4

// ownSplit decomposes the closed interval [lo,hi] (signed sortable values) the way a
// precision-step trie does: ragged ends are covered at the current level by at most one
// partial block each, the aligned middle moves one level up.  Returned in the order lower
// edge, upper edge per level, the remaining centre last.
func ownSplit(lo, hi int64) []subRange {
	if lo > hi {
		return nil
	}
	a, b := ord(lo), ord(hi)
	var out []subRange
	for shift := uint(0); ; shift += precisionStep {
		block := uint64(1)<<precisionStep - 1
		blockMask := block << shift
		ragLo := a&blockMask != 0
		ragHi := b&blockMask != blockMask
		last := shift+precisionStep >= 64
		var na, nb uint64
		wrapped := false
		if !last {
			width := uint64(1) << (shift + precisionStep)
			na = a
			if ragLo {
				na = a + width
				if na < a {
					wrapped = true
				}
			}
			na &^= blockMask
			nb = b
			if ragHi {
				nb = b - width
				if nb > b {
					wrapped = true
				}
			}
			nb &^= blockMask
		}
		if last || wrapped || na > nb {
			out = append(out, subRange{shift, a, b})
			return out
		}
		if ragLo {
			out = append(out, subRange{shift, a, a | blockMask})
		}
		if ragHi {
			out = append(out, subRange{shift, b &^ blockMask, b})
		}
		a, b = na, nb
	}
}

// payloadNumber reads the payload of the term of unsigned image u at shift as the base-256
// number the searcher increments.
func payloadNumber(u uint64, shift uint) *big.Int {
	n := codeLen(shift)
	u >>= shift
	x := new(big.Int)
	for i := 0; i < n; i++ {
		group := uint(n-1-i) * 7
		x.Lsh(x, 8)
		x.Or(x, big.NewInt(int64((u>>group)&0x7f)))
	}
	return x
}

// walkSteps is the number of byte strings visited from the first to the last term of r by a
// base-256 successor function (each is looked up in the dictionary).
func walkSteps(r subRange) *big.Int {
	d := new(big.Int).Sub(payloadNumber(r.Hi, r.Shift), payloadNumber(r.Lo, r.Shift))
	return d.Add(d, big.NewInt(1))
}

// termCount is the number of values at the range's level, i.e. what a base-128 walk costs.
func termCount(r subRange) uint64 { return r.Hi>>r.Shift - r.Lo>>r.Shift + 1 }

const stepLimit = 200000

// predict returns the predicted number of dictionary look-ups of the range search for the
// closed sortable interval [lo,hi] (saturating at MaxInt64), the number of genuine terms,
// the number of sub-ranges and of distinct levels.
func predict(lo, hi int64) (steps int64, terms uint64, ranges, levels int) {
	rs := ownSplit(lo, hi)
	total := new(big.Int)
	seen := map[uint]bool{}
	for _, r := range rs {
		total.Add(total, walkSteps(r))
		terms += termCount(r)
		seen[r.Shift] = true
	}
	if total.IsInt64() {
		steps = total.Int64()
	} else {
		steps = math.MaxInt64
	}
	return steps, terms, len(rs), len(seen)
}

// covers reports whether value v (signed sortable) is matched by the decomposition, i.e. one
// of the sub-ranges contains its truncation at that level.
func covers(rs []subRange, v int64) bool {
	u := ord(v)
	for _, r := range rs {
		t := u >> r.Shift
		if t >= r.Lo>>r.Shift && t <= r.Hi>>r.Shift {
			return true
		}
	}
	return false
}
