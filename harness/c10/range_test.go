package c10

// Part 2: range exactness and numeric sorting through the public API.

import (
	"context"
	"fmt"
	"math"
	"os"
	"os/exec"
	"sort"
	"strings"
	"sync"
	"sync/atomic"
	"testing"
	"time"

	"github.com/blugelabs/bluge"
	"pgregory.net/rapid"

	"verifharness/vlib"
)

const blowupKey = "range-enumeration-blowup"

// RangeCase is one interval query.  Kind "num": Lo/Hi are the harness's sortable images of
// float64 end points (the images of -Inf/+Inf are legal and mean that infinity is passed);
// kind "date": Lo/Hi are nanoseconds since the epoch and LoUnb/HiUnb pass the zero time.
// Docs, when present, is the content of a freshly built index (one document per entry, each
// with one or more values in the same representation); otherwise the static boundary corpus.
type RangeCase struct {
	Kind   string    `json:"kind"`
	Lo     int64     `json:"lo"`
	Hi     int64     `json:"hi"`
	LoUnb  bool      `json:"lo_unbounded,omitempty"`
	HiUnb  bool      `json:"hi_unbounded,omitempty"`
	LoOpen bool      `json:"lo_open,omitempty"`
	HiOpen bool      `json:"hi_open,omitempty"`
	Sort   string    `json:"sort,omitempty"` // "", "asc", "desc": additionally request the hits sorted by the field
	Docs   [][]int64 `json:"docs,omitempty"`
	Note   string    `json:"note,omitempty"`
}

func (c RangeCase) render() string {
	end := func(v int64, unb bool) string {
		if c.Kind == "num" {
			if unb {
				return "unbounded"
			}
			return fmt.Sprintf("%v[%#x]", floatOfSortable(v), math.Float64bits(floatOfSortable(v)))
		}
		if unb {
			return "unbounded"
		}
		return fmt.Sprintf("%dns", v)
	}
	l, r := "[", "]"
	if c.LoOpen {
		l = "("
	}
	if c.HiOpen {
		r = ")"
	}
	return fmt.Sprintf("%s %s%s, %s%s", c.Kind, l, end(c.Lo, c.LoUnb), end(c.Hi, c.HiUnb), r)
}

// ---- the oracle: direct evaluation

func numLoImage() int64 { return sortableOfFloat(math.Inf(-1)) }
func numHiImage() int64 { return sortableOfFloat(math.Inf(1)) }

// inInterval evaluates membership of one stored value.
func (c RangeCase) inInterval(v int64) bool {
	if c.Kind == "num" {
		x := floatOfSortable(v)
		lo, hi := math.Inf(-1), math.Inf(1)
		if !c.LoUnb {
			lo = floatOfSortable(c.Lo)
		}
		if !c.HiUnb {
			hi = floatOfSortable(c.Hi)
		}
		if c.LoOpen {
			if !totalLess(lo, x) {
				return false
			}
		} else if totalLess(x, lo) {
			return false
		}
		if c.HiOpen {
			if !totalLess(x, hi) {
				return false
			}
		} else if totalLess(hi, x) {
			return false
		}
		return true
	}
	if !c.LoUnb {
		if c.LoOpen && !(c.Lo < v) || !c.LoOpen && v < c.Lo {
			return false
		}
	}
	if !c.HiUnb {
		if c.HiOpen && !(v < c.Hi) || !c.HiOpen && c.Hi < v {
			return false
		}
	}
	return true
}

// effective returns the closed sortable-integer interval the case amounts to (ok=false: empty).
func (c RangeCase) effective() (lo, hi int64, ok bool) {
	lo, hi = math.MinInt64, math.MaxInt64
	if c.Kind == "num" {
		if !c.LoUnb && c.Lo >= numHiImage() || !c.HiUnb && c.Hi <= numLoImage() {
			// +Inf as lower end or -Inf as upper end: no finite value qualifies
			return 0, 0, false
		}
	}
	if !c.LoUnb && !(c.Kind == "num" && c.Lo <= numLoImage()) {
		lo = c.Lo
		if c.LoOpen {
			if lo == math.MaxInt64 {
				return 0, 0, false
			}
			lo++
		}
	}
	if !c.HiUnb && !(c.Kind == "num" && c.Hi >= numHiImage()) {
		hi = c.Hi
		if c.HiOpen {
			if hi == math.MinInt64 {
				return 0, 0, false
			}
			hi--
		}
	}
	return lo, hi, lo <= hi
}

// costBound predicts the number of candidate look-ups the searcher performs for the case and
// the number of precision levels of its decomposition (validated against the implementation,
// see NOTES.md "predictor validation").
func (c RangeCase) costBound() (steps int64, levels int) {
	lo, hi, ok := c.effective()
	if !ok {
		return 0, 0
	}
	steps, _, _, levels = predict(lo, hi)
	return steps, levels
}

// ---- corpus

type docInfo struct {
	ID     string
	Values []int64 // representation of the case kind
}

type corpus struct {
	w       *bluge.Writer
	r       *bluge.Reader
	byNum   map[uint64]*docInfo // doc number in r -> document
	numDocs []*docInfo          // documents with field "f"
	dateDoc []*docInfo          // documents with field "d"
	count   int
}

func (cp *corpus) close() {
	if cp.r != nil {
		_ = cp.r.Close()
	}
	if cp.w != nil {
		_ = cp.w.Close()
	}
}

const watchdogSearch = 45 * time.Second

// hung is set once a call into bluge did not return: the spinning goroutine cannot be stopped,
// so no further query is issued by this process (shrinking ends at once with the same verdict).
var hung atomic.Value // *vlib.Failure

func guarded(site string, f func() *vlib.Failure) *vlib.Failure {
	if h, _ := hung.Load().(*vlib.Failure); h != nil {
		// reported once; later cases (rapid's shrinking attempts) are not evaluated, so the
		// replay file keeps the case that hung
		ev.Class("not-evaluated-after-hang", 1)
		return nil
	}
	r := vlib.Watchdog(site, watchdogSearch, f)
	if r != nil && strings.HasPrefix(r.Key, "hang@") {
		hung.Store(r)
	}
	return r
}

func makeField(kind string, v int64) *bluge.TermField {
	if kind == "num" {
		return bluge.NewNumericField("f", floatOfSortable(v))
	}
	return bluge.NewDateTimeField("d", time.Unix(0, v))
}

// buildCorpus indexes the documents in several batches (several segments) and maps the
// reader's document numbers back to them.
func buildCorpus(numDocs, dateDocs []*docInfo, batches int) (*corpus, *vlib.Failure) {
	cp := &corpus{byNum: map[uint64]*docInfo{}, numDocs: numDocs, dateDoc: dateDocs}
	f := guarded("index-build", func() *vlib.Failure {
		w, err := bluge.OpenWriter(bluge.InMemoryOnlyConfig())
		if err != nil {
			return vlib.Failf("harness-index", "OpenWriter: %v", err)
		}
		cp.w = w
		type item struct {
			kind string
			d    *docInfo
		}
		var all []item
		for _, d := range numDocs {
			all = append(all, item{"num", d})
		}
		for _, d := range dateDocs {
			all = append(all, item{"date", d})
		}
		byID := map[string]*docInfo{}
		if batches < 1 {
			batches = 1
		}
		for b := 0; b < batches; b++ {
			batch := bluge.NewBatch()
			n := 0
			for i, it := range all {
				if i%batches != b {
					continue
				}
				doc := bluge.NewDocument(it.d.ID)
				for _, v := range it.d.Values {
					doc.AddField(makeField(it.kind, v))
				}
				batch.Update(doc.ID(), doc)
				byID[it.d.ID] = it.d
				n++
			}
			if n == 0 {
				continue
			}
			if err := w.Batch(batch); err != nil {
				return vlib.Failf("harness-index", "Batch: %v", err)
			}
		}
		r, err := w.Reader()
		if err != nil {
			return vlib.Failf("harness-index", "Reader: %v", err)
		}
		cp.r = r
		it, err := r.Search(context.Background(), bluge.NewAllMatches(bluge.NewMatchAllQuery()))
		if err != nil {
			return vlib.Failf("harness-index", "match-all: %v", err)
		}
		for {
			m, err := it.Next()
			if err != nil {
				return vlib.Failf("harness-index", "match-all next: %v", err)
			}
			if m == nil {
				break
			}
			var id string
			err = r.VisitStoredFields(m.Number, func(field string, value []byte) bool {
				if field == "_id" {
					id = string(value)
				}
				return true
			})
			if err != nil {
				return vlib.Failf("harness-index", "stored fields: %v", err)
			}
			d := byID[id]
			if d == nil {
				return vlib.Failf("harness-index", "unknown document %q in the index", id)
			}
			if _, dup := cp.byNum[m.Number]; dup {
				return vlib.Failf("harness-index", "document number %d twice", m.Number)
			}
			cp.byNum[m.Number] = d
		}
		cp.count = len(cp.byNum)
		if cp.count != len(all) {
			return vlib.Failf("harness-index", "%d documents indexed, %d visible", len(all), cp.count)
		}
		return nil
	})
	if f != nil {
		cp.close()
		return nil, f
	}
	return cp, nil
}

var (
	staticOnce sync.Once
	staticCp   *corpus
	staticFail *vlib.Failure
)

// staticCorpus: one document per boundary value (float set in field f, int set as instants in
// field d), plus multi-valued documents combining boundary values, in 4 batches.
func staticCorpus() (*corpus, *vlib.Failure) {
	staticOnce.Do(func() {
		bf, bi := floatBoundaries(), intBoundaries()
		var nd, dd []*docInfo
		for i, x := range bf {
			nd = append(nd, &docInfo{ID: fmt.Sprintf("f%d", i), Values: []int64{sortableOfFloat(x)}})
		}
		for j := 0; j < len(bf); j += 3 {
			vals := []int64{sortableOfFloat(bf[j]), sortableOfFloat(bf[(j*37+11)%len(bf)])}
			if j%2 == 0 {
				vals = append(vals, sortableOfFloat(bf[(j*101+5)%len(bf)]))
			}
			nd = append(nd, &docInfo{ID: fmt.Sprintf("mf%d", j), Values: vals})
		}
		for i, v := range bi {
			dd = append(dd, &docInfo{ID: fmt.Sprintf("d%d", i), Values: []int64{v}})
		}
		for j := 0; j < len(bi); j += 3 {
			vals := []int64{bi[j], bi[(j*37+11)%len(bi)]}
			if j%2 == 0 {
				vals = append(vals, bi[(j*101+5)%len(bi)])
			}
			dd = append(dd, &docInfo{ID: fmt.Sprintf("md%d", j), Values: vals})
		}
		staticCp, staticFail = buildCorpus(nd, dd, 4)
	})
	return staticCp, staticFail
}

// ---- running one case

type rangeStats struct {
	expected, total int
	steps           int64
	levels          int
	skipped         bool
	sorted          bool
}

func (c RangeCase) query() bluge.Query {
	if c.Kind == "num" {
		lo, hi := math.Inf(-1), math.Inf(1)
		if !c.LoUnb {
			lo = floatOfSortable(c.Lo)
		}
		if !c.HiUnb {
			hi = floatOfSortable(c.Hi)
		}
		return bluge.NewNumericRangeInclusiveQuery(lo, hi, !c.LoOpen, !c.HiOpen).SetField("f")
	}
	var s, e time.Time
	if !c.LoUnb {
		s = time.Unix(0, c.Lo)
	}
	if !c.HiUnb {
		e = time.Unix(0, c.Hi)
	}
	return bluge.NewDateRangeInclusiveQuery(s, e, !c.LoOpen, !c.HiOpen).SetField("d")
}

func (c RangeCase) valid() bool {
	if c.Kind != "num" && c.Kind != "date" {
		return false
	}
	if c.Kind == "num" {
		// ends must be images of floats that are not NaN
		if !c.LoUnb && (c.Lo < numLoImage() || c.Lo > numHiImage()) || !c.HiUnb && (c.Hi < numLoImage() || c.Hi > numHiImage()) {
			return false
		}
		for _, d := range c.Docs {
			for _, v := range d {
				if v <= numLoImage() || v >= numHiImage() {
					return false
				}
			}
		}
	}
	return true
}

// propRange evaluates one case.  st may be nil.
func propRange(c RangeCase, st *rangeStats) *vlib.Failure {
	if st == nil {
		st = &rangeStats{}
	}
	if !c.valid() {
		return nil
	}
	st.steps, st.levels = c.costBound()
	if st.steps > stepLimit && blowupPresent() {
		st.skipped = true
		return vlib.Failf(blowupKey, "%s: predicted %d candidate look-ups (> %d); not executed", c.render(), st.steps, stepLimit)
	}
	var cp *corpus
	var docs []*docInfo
	if c.Docs != nil {
		for i, vs := range c.Docs {
			if len(vs) == 0 {
				continue
			}
			docs = append(docs, &docInfo{ID: fmt.Sprintf("x%d", i), Values: vs})
		}
		var f *vlib.Failure
		if c.Kind == "num" {
			cp, f = buildCorpus(docs, nil, 1+len(docs)%3)
		} else {
			cp, f = buildCorpus(nil, docs, 1+len(docs)%3)
		}
		if f != nil {
			return f
		}
		defer cp.close()
	} else {
		var f *vlib.Failure
		cp, f = staticCorpus()
		if f != nil {
			return f
		}
		docs = cp.numDocs
		if c.Kind == "date" {
			docs = cp.dateDoc
		}
	}
	want := map[*docInfo]bool{}
	for _, d := range docs {
		for _, v := range d.Values {
			if c.inInterval(v) {
				want[d] = true
				break
			}
		}
	}
	st.expected, st.total = len(want), len(docs)
	return guarded("range-search", func() *vlib.Failure {
		var req bluge.SearchRequest
		field := "f"
		if c.Kind == "date" {
			field = "d"
		}
		switch c.Sort {
		case "asc":
			req = bluge.NewTopNSearch(cp.count+1, c.query()).SortBy([]string{field})
		case "desc":
			req = bluge.NewTopNSearch(cp.count+1, c.query()).SortBy([]string{"-" + field})
		default:
			req = bluge.NewAllMatches(c.query())
		}
		it, err := cp.r.Search(context.Background(), req)
		if err != nil {
			return vlib.Failf("range-search-error", "%s: Search: %v", c.render(), err)
		}
		got := map[*docInfo]bool{}
		var prev int64
		n := 0
		for {
			m, err := it.Next()
			if err != nil {
				return vlib.Failf("range-search-error", "%s: Next: %v", c.render(), err)
			}
			if m == nil {
				break
			}
			d := cp.byNum[m.Number]
			if d == nil {
				return vlib.Failf("range-extra-hit", "%s: hit with unknown document number %d", c.render(), m.Number)
			}
			if got[d] {
				return vlib.Failf("range-duplicate-hit", "%s: document %s returned twice", c.render(), d.ID)
			}
			got[d] = true
			if !want[d] {
				return vlib.Failf("range-extra-hit", "%s: document %s with value(s) %s is returned but lies outside", c.render(), d.ID, c.renderValues(d.Values))
			}
			if c.Sort != "" {
				st.sorted = true
				if len(m.SortValue) != 1 {
					return vlib.Failf("sort-order", "%s: hit %s carries %d sort values", c.render(), d.ID, len(m.SortValue))
				}
				key, ok := ownDecode(m.SortValue[0])
				if !ok {
					return vlib.Failf("sort-order", "%s: hit %s: sort value %x is not a shift-0 term", c.render(), d.ID, m.SortValue[0])
				}
				var img int64
				belongs := false
				for _, v := range d.Values {
					if v == key {
						belongs = true
					}
				}
				if !belongs {
					return vlib.Failf("sort-order", "%s: hit %s: sort value %x decodes to %d which is none of its values %v", c.render(), d.ID, m.SortValue[0], key, d.Values)
				}
				img = key
				if n > 0 && (c.Sort == "asc" && img < prev || c.Sort == "desc" && img > prev) {
					return vlib.Failf("sort-order", "%s sorted %s: hit %d (%s, key %s) follows key %s", c.render(), c.Sort, n, d.ID, c.renderValues([]int64{img}), c.renderValues([]int64{prev}))
				}
				prev = img
			}
			n++
		}
		for _, d := range docs {
			if want[d] && !got[d] {
				return vlib.Failf("range-missing-hit", "%s: document %s with value(s) %s lies inside but is not returned (%d of %d expected hits returned)", c.render(), d.ID, c.renderValues(d.Values), len(got), len(want))
			}
		}
		return nil
	})
}

func (c RangeCase) renderValues(vs []int64) string {
	var parts []string
	for _, v := range vs {
		if c.Kind == "num" {
			x := floatOfSortable(v)
			parts = append(parts, fmt.Sprintf("%v[%#x]", x, math.Float64bits(x)))
		} else {
			parts = append(parts, fmt.Sprintf("%dns", v))
		}
	}
	return strings.Join(parts, ",")
}

// ownDecode reads a shift-0 term back into the signed value (own statement of the coding).
func ownDecode(term []byte) (int64, bool) {
	if len(term) != 11 || term[0] != 0x20 {
		return 0, false
	}
	var u uint64
	for _, b := range term[1:] {
		if b > 0x7f {
			return 0, false
		}
		u = u<<7 | uint64(b)
	}
	return int64(u ^ 1<<63), true
}

// ---- generators

func addSat(v, d int64) int64 {
	if d > 0 && v > math.MaxInt64-d {
		return math.MaxInt64
	}
	if d < 0 && v < math.MinInt64-d {
		return math.MinInt64
	}
	return v + d
}

func clampNum(v int64) int64 {
	if v < numLoImage() {
		return numLoImage()
	}
	if v > numHiImage() {
		return numHiImage()
	}
	return v
}

// genEnd draws one end point in the representation of kind.
func genEnd(t *rapid.T, kind string, label string) int64 {
	var v int64
	k := rapid.IntRange(0, 9).Draw(t, label+"Kind")
	if kind == "num" {
		bf := floatBoundaries()
		switch {
		case k <= 3:
			v = sortableOfFloat(rapid.SampledFrom(bf).Draw(t, label+"Boundary"))
		case k <= 6:
			v = sortableOfFloat(rapid.SampledFrom(bf).Draw(t, label+"Boundary"))
			v = addSat(v, rapid.Int64Range(-20, 20).Draw(t, label+"Ulps"))
		case k == 7:
			v = sortableOfFloat(rapid.Float64().Draw(t, label+"Float"))
		case k == 8:
			v = rapid.Int64Range(numLoImage(), numHiImage()).Draw(t, label+"Image")
		default:
			// an infinity passed as an ordinary end (either side)
			if rapid.Bool().Draw(t, label+"PosInf") {
				v = numHiImage()
			} else {
				v = numLoImage()
			}
		}
		return clampNum(v)
	}
	bi := intBoundaries()
	switch {
	case k <= 3:
		v = rapid.SampledFrom(bi).Draw(t, label+"Boundary")
	case k <= 6:
		v = addSat(rapid.SampledFrom(bi).Draw(t, label+"Boundary"), rapid.Int64Range(-20, 20).Draw(t, label+"Delta"))
	case k == 7:
		// an everyday instant: 1970..2100 at second / millisecond / nanosecond granularity
		sec := rapid.Int64Range(-1e9, 4.1e9).Draw(t, label+"Sec")
		v = sec * 1e9
		switch rapid.IntRange(0, 2).Draw(t, label+"Gran") {
		case 1:
			v += rapid.Int64Range(0, 999).Draw(t, label+"Ms") * 1e6
		case 2:
			v += rapid.Int64Range(0, 999999999).Draw(t, label+"Ns")
		}
	case k == 8:
		v = rapid.Int64().Draw(t, label+"Any")
	default:
		// landmarks of the value space: the int64 extremes and the instants whose float64
		// interpretation is an infinity
		v = rapid.SampledFrom([]int64{math.MinInt64, math.MinInt64 + 1, math.MaxInt64 - 1, math.MaxInt64,
			numLoImage() - 1, numLoImage(), numLoImage() + 1, numHiImage() - 1, numHiImage(), numHiImage() + 1, -1, 0}).Draw(t, label+"Landmark")
	}
	return v
}

func genRangeEnds(t *rapid.T, kind string) RangeCase {
	c := RangeCase{Kind: kind}
	c.Lo = genEnd(t, kind, "lo")
	switch rapid.IntRange(0, 9).Draw(t, "relation") {
	case 0:
		c.Hi = c.Lo // degenerate
	case 1, 2, 3:
		// a narrow window above (or, inverted, below) the first end
		c.Hi = addSat(c.Lo, rapid.Int64Range(-3, 60).Draw(t, "width"))
	case 4, 5:
		// a window of 2^k +- a little
		k := rapid.UintRange(1, 62).Draw(t, "widthLog")
		c.Hi = addSat(c.Lo, addSat(int64(1)<<k, rapid.Int64Range(-2, 2).Draw(t, "widthAdj")))
	default:
		c.Hi = genEnd(t, kind, "hi")
		if c.Hi < c.Lo && rapid.IntRange(0, 3).Draw(t, "keepInverted") != 0 {
			c.Lo, c.Hi = c.Hi, c.Lo
		}
	}
	if kind == "num" {
		c.Lo, c.Hi = clampNum(c.Lo), clampNum(c.Hi)
	}
	c.LoOpen = rapid.Bool().Draw(t, "loOpen")
	c.HiOpen = rapid.Bool().Draw(t, "hiOpen")
	c.LoUnb = rapid.IntRange(0, 7).Draw(t, "loUnb") == 0
	c.HiUnb = rapid.IntRange(0, 7).Draw(t, "hiUnb") == 0
	switch rapid.IntRange(0, 7).Draw(t, "sort") {
	case 0:
		c.Sort = "asc"
	case 1:
		c.Sort = "desc"
	}
	return c
}

// genFreshDocs places values on and beside the two ends, plus a few anywhere.
func genFreshDocs(t *rapid.T, c RangeCase) [][]int64 {
	n := rapid.IntRange(1, 14).Draw(t, "ndocs")
	val := func(label string) int64 {
		var v int64
		switch rapid.IntRange(0, 7).Draw(t, label+"Where") {
		case 0, 1, 2:
			v = addSat(c.Lo, rapid.Int64Range(-2, 2).Draw(t, label+"D"))
		case 3, 4, 5:
			v = addSat(c.Hi, rapid.Int64Range(-2, 2).Draw(t, label+"D"))
		case 6:
			// between the ends
			lo, hi := c.Lo, c.Hi
			if lo > hi {
				lo, hi = hi, lo
			}
			v = rapid.Int64Range(lo, hi).Draw(t, label+"Mid")
		default:
			v = genEnd(t, c.Kind, label)
		}
		if c.Kind == "num" {
			// stored values are finite floats
			if v <= numLoImage() {
				v = numLoImage() + 1
			}
			if v >= numHiImage() {
				v = numHiImage() - 1
			}
		}
		return v
	}
	docs := make([][]int64, n)
	for i := range docs {
		k := 1
		if rapid.IntRange(0, 4).Draw(t, "multi") == 0 {
			k = rapid.IntRange(2, 3).Draw(t, "nvals")
		}
		for j := 0; j < k; j++ {
			docs[i] = append(docs[i], val(fmt.Sprintf("v%d_%d", i, j)))
		}
	}
	return docs
}

func (c RangeCase) classes(st *rangeStats) []string {
	cls := []string{"range", "range:" + c.Kind}
	if c.Docs != nil {
		cls = append(cls, "range:fresh-index")
	} else {
		cls = append(cls, "range:boundary-corpus")
	}
	switch {
	case st.skipped:
		cls = append(cls, "range:not-executed-blowup-class")
		return cls
	case st.expected == 0:
		cls = append(cls, "range:hits-none")
	case st.expected == st.total:
		cls = append(cls, "range:hits-all")
	default:
		cls = append(cls, "range:hits-some")
	}
	if c.LoUnb || c.HiUnb {
		cls = append(cls, "range:unbounded-end")
	}
	if !c.LoUnb && !c.HiUnb {
		switch {
		case c.Lo == c.Hi:
			cls = append(cls, "range:degenerate")
		case c.Lo > c.Hi:
			cls = append(cls, "range:inverted")
		}
	}
	cls = append(cls, fmt.Sprintf("range:ends-%s%s", map[bool]string{false: "closed", true: "open"}[c.LoOpen], map[bool]string{false: "closed", true: "open"}[c.HiOpen]))
	if st.sorted {
		cls = append(cls, "range:sorted-"+c.Sort)
	}
	cls = append(cls, fmt.Sprintf("range:levels=%d", st.levels))
	switch {
	case st.steps > 10000:
		cls = append(cls, "range:steps>1e4")
	case st.steps > 100:
		cls = append(cls, "range:steps>1e2")
	}
	return cls
}

func (c RangeCase) touchesExtreme() bool {
	if c.LoUnb || c.HiUnb {
		return true
	}
	if c.Kind == "num" {
		return c.Lo <= numLoImage()+1 || c.Hi >= numHiImage()-1 || c.Lo >= numHiImage()-1 || c.Hi <= numLoImage()+1
	}
	return c.Lo <= math.MinInt64+1 || c.Hi >= math.MaxInt64-1 || c.Lo >= math.MaxInt64-1 || c.Hi <= math.MinInt64+1
}

func runRangeCase(rt *rapid.T, c RangeCase) {
	c.Note = c.render()
	var st rangeStats
	f := propRange(c, &st)
	nt := !st.skipped && (st.levels >= 2 || c.touchesExtreme())
	ev.Case(vlib.Canon(c), nt, c.classes(&st)...)
	kind := "range-corpus-" + c.Kind
	if c.Docs != nil {
		kind = "range-fresh-" + c.Kind
	}
	if st.expected > 0 && st.expected < st.total {
		sampleOnce(kind, map[string]interface{}{"kind": "range", "case": c, "expected_hits": st.expected, "documents": st.total, "predicted_lookups": st.steps, "levels": st.levels}, nt)
	}
	vlib.Report(rt, ev, "range", c, f)
}

func TestC10RangeBoundaryCorpus(t *testing.T) {
	ev.Assume("indexed numeric values are finite float64 (no NaN, no infinity); date values are any int64 nanosecond count; interval ends may additionally be +-Inf (numeric) or the zero time (date) meaning unbounded")
	ev.Assume("the precision step of numeric and date fields is the library default 4 (the searcher hard-codes it); geo fields (step 9) are covered for the encoding only, geo queries belong to C07")
	ev.Assume("intervals whose predicted candidate look-ups exceed 2e5 are executed only when the child-process probe of the known finding range-enumeration-blowup returns within 5 s; the prediction (own precision-step split) was compared with the implementation's sub-ranges and counted look-ups on 1.68 million boundary pairs in a scratch copy (identical)")
	ev.Assume("for a document with several values the sort key may be any one of its values (the property does not say which); ties are not ordered")
	if _, f := staticCorpus(); f != nil {
		vlib.Report(t, ev, "range", RangeCase{Note: "building the boundary corpus"}, f)
		return
	}
	vlib.Check(t, 2500, 25000, func(rt *rapid.T) {
		kind := rapid.SampledFrom([]string{"num", "date"}).Draw(rt, "kind")
		runRangeCase(rt, genRangeEnds(rt, kind))
	})
}

func TestC10RangeFreshIndex(t *testing.T) {
	vlib.Check(t, 600, 5000, func(rt *rapid.T) {
		kind := rapid.SampledFrom([]string{"num", "date"}).Draw(rt, "kind")
		c := genRangeEnds(rt, kind)
		c.Docs = genFreshDocs(rt, c)
		runRangeCase(rt, c)
	})
}

// ---- the known finding: deterministic probe in a child process

var (
	blowupOnce  sync.Once
	blowupState bool
	blowupNote  string
)

const probeMode = "c10-blowup-probe"

func init() {
	vlib.RegisterChild(probeMode, func() {
		// DateRange[epoch-1s, epoch+1s] over three instants
		docs := []*docInfo{{ID: "a", Values: []int64{-5e8}}, {ID: "b", Values: []int64{0}}, {ID: "c", Values: []int64{5e8}}, {ID: "z", Values: []int64{2e9}}}
		cp, f := buildCorpus(nil, docs, 1)
		if f != nil {
			fmt.Println("PROBE-ERROR", f.Error())
			os.Exit(4)
		}
		c := RangeCase{Kind: "date", Lo: -1e9, Hi: 1e9}
		it, err := cp.r.Search(context.Background(), bluge.NewAllMatches(c.query()))
		if err != nil {
			fmt.Println("PROBE-ERROR", err)
			os.Exit(4)
		}
		var ids []string
		for {
			m, err := it.Next()
			if err != nil || m == nil {
				break
			}
			ids = append(ids, cp.byNum[m.Number].ID)
		}
		sort.Strings(ids)
		fmt.Println("PROBE-HITS", strings.Join(ids, ","))
		os.Exit(0)
	})
}

// blowupPresent runs the canonical member of the known class in a child process with a 5 s
// bound, once per process.  While it does not return, the predicted class is not executed.
func blowupPresent() bool {
	blowupOnce.Do(func() {
		if os.Getenv("C10_ASSUME_BLOWUP") != "" {
			blowupState = os.Getenv("C10_ASSUME_BLOWUP") == "1"
			return
		}
		self, err := os.Executable()
		if err != nil {
			self = os.Args[0]
		}
		cmd := exec.Command(self)
		cmd.Env = append(os.Environ(), "VERIF_CHILD="+probeMode, "VERIF_FRAG=")
		var out strings.Builder
		cmd.Stdout = &out
		cmd.Stderr = &out
		if err := cmd.Start(); err != nil {
			blowupNote = "cannot start the probe child: " + err.Error()
			blowupState = true // be careful: do not execute the class
			return
		}
		done := make(chan error, 1)
		go func() { done <- cmd.Wait() }()
		select {
		case err := <-done:
			blowupNote = strings.TrimSpace(out.String())
			if err != nil {
				blowupNote += " (" + err.Error() + ")"
			}
			blowupState = false
		case <-time.After(5 * time.Second):
			_ = cmd.Process.Kill()
			<-done
			blowupState = true
			blowupNote = "no return within 5s"
		}
	})
	return blowupState
}

func TestC10BlowupProbe(t *testing.T) {
	shard, _ := vlib.Shard()
	present := blowupPresent()
	if shard != 0 {
		return
	}
	c := RangeCase{Kind: "date", Lo: -1e9, Hi: 1e9, Docs: [][]int64{{-5e8}, {0}, {5e8}, {2e9}}}
	c.Note = c.render()
	steps, _ := c.costBound()
	ev.Evals(1)
	if present {
		vlib.KnownProbe(t, ev, "range", blowupKey, c, vlib.Failf(blowupKey,
			"%s on a 4-document index did not return within 5 s in a child process (predicted %d candidate look-ups for 3 matching terms): termRange.Enumerate steps through the 7-bit coded terms with a base-256 increment", c.render(), steps))
		return
	}
	ev.Class("known-probe-returned:"+blowupKey, 1)
	if !strings.Contains(blowupNote, "PROBE-HITS a,b,c") || strings.Contains(blowupNote, "PROBE-ERROR") {
		vlib.Report(t, ev, "range", c, vlib.Failf("range-probe-answer", "%s in the child process: want hits a,b,c; output %q", c.render(), blowupNote))
	}
}
