package c10

import (
	"context"
	"fmt"
	"math"
	"os"
	"testing"
	"time"

	"github.com/blugelabs/bluge"
	"github.com/blugelabs/bluge/numeric"
)

func TestExplore(t *testing.T) {
	if os.Getenv("C10_EXPLORE") == "" {
		t.Skip()
	}
	bi, bf := intBoundaries(), floatBoundaries()
	fmt.Println("ints", len(bi), "floats", len(bf))
	p := numeric.MustNewPrefixCodedInt64(5, 63)
	s, err := p.Shift()
	fmt.Println("shift63:", p, s, err)
	v, err := p.Int64()
	fmt.Println("int64 at 63:", v, err)

	// count blow-up class among pairs
	blow, tot := 0, 0
	hist := map[int]int{}
	for _, a := range bf {
		for _, b := range bf {
			if !totalLess(a, b) {
				continue
			}
			st, _, _, _ := predict(sortableOfFloat(a), sortableOfFloat(b))
			tot++
			if st > stepLimit {
				blow++
			}
			hist[int(math.Log10(float64(st)))]++
		}
	}
	fmt.Println("float pairs", tot, "blowup", blow, hist)
	blow, tot = 0, 0
	hist = map[int]int{}
	for _, a := range bi {
		for _, b := range bi {
			if a >= b {
				continue
			}
			st, _, _, _ := predict(a, b)
			tot++
			if st > stepLimit {
				blow++
			}
			hist[int(math.Log10(float64(st)))]++
		}
	}
	fmt.Println("int pairs", tot, "blowup", blow, hist)

	cfg := bluge.InMemoryOnlyConfig()
	w, err := bluge.OpenWriter(cfg)
	if err != nil {
		t.Fatal(err)
	}
	defer w.Close()
	b := bluge.NewBatch()
	for i, v := range bi {
		d := bluge.NewDocument(fmt.Sprintf("d%d", i))
		d.AddField(bluge.NewDateTimeField("d", time.Unix(0, v)))
		b.Update(d.ID(), d)
	}
	for i, v := range bf {
		d := bluge.NewDocument(fmt.Sprintf("f%d", i))
		d.AddField(bluge.NewNumericField("f", v))
		b.Update(d.ID(), d)
	}
	t0 := time.Now()
	if err := w.Batch(b); err != nil {
		t.Fatal(err)
	}
	fmt.Println("batch", time.Since(t0))
	r, err := w.Reader()
	if err != nil {
		t.Fatal(err)
	}
	defer r.Close()
	run := func(lo, hi int64) (int, time.Duration) {
		q := bluge.NewDateRangeInclusiveQuery(time.Unix(0, lo), time.Unix(0, hi), true, true).SetField("d")
		t0 := time.Now()
		it, err := r.Search(context.Background(), bluge.NewAllMatches(q))
		if err != nil {
			t.Fatal(err)
		}
		n := 0
		for {
			m, err := it.Next()
			if err != nil {
				t.Fatal(err)
			}
			if m == nil {
				break
			}
			n++
		}
		return n, time.Since(t0)
	}
	for _, pr := range [][2]int64{{1, 5}, {100, 1 << 20}, {-(1 << 50), 1 << 50}, {-86400e9, 86400e9}, {-(1 << 46), 1 << 46}, {1<<35 - 1000, 1<<35 + 1000}, {1<<42 - 5, 1<<42 + 5}, {1<<49 - 1, 1 << 49}} {
		st, terms, nr, lv := predict(pr[0], pr[1])
		if st > 50000000 {
			fmt.Println(pr, "predicted", st, "skip")
			continue
		}
		n, d := run(pr[0], pr[1])
		fmt.Printf("%v predicted steps=%d terms=%d ranges=%d levels=%d hits=%d took %v (%.1f ns/step)\n", pr, st, terms, nr, lv, n, d, float64(d.Nanoseconds())/float64(st))
	}
	st, _, _, _ := predict(-1e9, 1e9)
	fmt.Println("canonical probe predicted steps", st)
}
