package c10

// Boundary sets: the structured values on which off-by-one errors of the encoding and of the
// range decomposition sit.  Pure functions, no randomness: the sets are the same in every run.

import (
	"math"
	"sort"
)

// intBoundaries is the int64 boundary set (also used as nanosecond instants for date fields).
func intBoundaries() []int64 {
	set := map[int64]struct{}{}
	add := func(v int64) { set[v] = struct{}{} }
	near := func(v int64) {
		add(v)
		if v > math.MinInt64 {
			add(v - 1)
		}
		if v < math.MaxInt64 {
			add(v + 1)
		}
	}
	// extremes
	for d := int64(0); d < 3; d++ {
		add(math.MinInt64 + d)
		add(math.MaxInt64 - d)
	}
	// sign change and the first 4-bit / 7-bit blocks
	for v := int64(-17); v <= 17; v++ {
		add(v)
	}
	// powers of two +-1, both signs: covers every 7-bit group boundary at every shift
	for k := uint(0); k <= 62; k++ {
		near(int64(1) << k)
		near(-(int64(1) << k))
	}
	// every 4-bit precision-step boundary k*2^s +- 1 for block positions s = 0,4,..,60
	for s := uint(0); s <= 60; s += 4 {
		for _, k := range []int64{1, 7, 8, 15} {
			if s == 60 && k >= 8 {
				continue // beyond int64
			}
			near(k << s)
			near(-(k << s))
		}
	}
	// a block filled with ones below a set bit: x*2^(s+4) + 15*2^s (upper ragged edges)
	for s := uint(0); s <= 52; s += 4 {
		near(int64(1)<<(s+8) | int64(15)<<s)
		near(-(int64(1)<<(s+8) | int64(15)<<s))
	}
	// 7-bit groups filled with ones: 127*2^(7j), and the geo step (9 bits)
	for j := uint(0); j <= 8; j++ {
		near(int64(127) << (7 * j))
		near(-(int64(127) << (7 * j)))
	}
	for s := uint(0); s <= 54; s += 9 {
		near(int64(511) << s)
	}
	// images of float landmarks (a date field may hold any int64): +-Inf, +-MaxFloat64, +-1, the
	// quiet/signalling NaN borders
	for _, f := range []float64{math.Inf(1), math.Inf(-1), math.MaxFloat64, -math.MaxFloat64, 1, -1, 2, -2,
		math.SmallestNonzeroFloat64, -math.SmallestNonzeroFloat64} {
		near(sortableOfFloat(f))
	}
	near(0x7ff8000000000000)
	near(-0x7ff8000000000000)
	// instants people use: +-1 s, +-1 day, 2^35 ns (the 34 s roll-over), year 2000, 2038
	for _, v := range []int64{1e9, 86400e9, 1 << 35, 3 << 35, 946684800e9, 2147483647e9, 1600000000e9} {
		near(v)
		near(-v)
	}
	out := make([]int64, 0, len(set))
	for v := range set {
		out = append(out, v)
	}
	sort.Slice(out, func(i, j int) bool { return out[i] < out[j] })
	return out
}

// floatBoundaries is the finite float64 boundary set.
func floatBoundaries() []float64 {
	set := map[uint64]struct{}{}
	add := func(f float64) {
		if math.IsNaN(f) || math.IsInf(f, 0) {
			return
		}
		set[math.Float64bits(f)] = struct{}{}
	}
	near := func(f float64) {
		add(f)
		add(math.Nextafter(f, math.Inf(1)))
		add(math.Nextafter(f, math.Inf(-1)))
	}
	both := func(f float64) {
		near(f)
		near(-f)
	}
	negZero := math.Copysign(0, -1)
	near(0)
	near(negZero)
	// subnormals, smallest normal, largest finite
	both(math.SmallestNonzeroFloat64)
	both(2 * math.SmallestNonzeroFloat64)
	smallestNormal := math.Float64frombits(0x0010000000000000)
	both(smallestNormal)
	both(math.Float64frombits(0x000fffffffffffff)) // largest subnormal
	both(math.Float64frombits(0x0008000000000000)) // mid subnormal
	both(math.MaxFloat64)
	// powers of two
	for _, e := range []int{-1074, -1073, -1072, -1060, -1050, -1030, -1023, -1022, -1021, -1000, -500, -100, -53, -52, -20, -10, -4, -3, -2, -1,
		0, 1, 2, 3, 4, 5, 6, 7, 8, 10, 16, 20, 31, 32, 35, 52, 53, 54, 62, 63, 64, 100, 500, 1000, 1022, 1023} {
		both(math.Ldexp(1, e))
	}
	// small integers and everyday numbers
	for i := 1; i <= 17; i++ {
		both(float64(i))
	}
	for _, f := range []float64{0.1, 0.5, 1.5, 3.14, 100, 255, 256, 1000, 65535, 65536, 1e6, 1e9, 1e15, 9007199254740991, 9007199254740993, 1e18, 1e19, 1e100, 1e300, 1e-5, 1e-300, 1e-310} {
		both(f)
	}
	// every 4-bit block boundary of the bit pattern: block at s set to k on top of 1.0 and of 2^-1022
	for _, base := range []uint64{0x3ff0000000000000, 0x0010000000000000} {
		for s := uint(0); s <= 48; s += 4 {
			for _, k := range []uint64{1, 8, 15} {
				both(math.Float64frombits(base | k<<s))
			}
		}
	}
	// exponent blocks (bits 52..62)
	for s := uint(52); s <= 60; s += 4 {
		for _, k := range []uint64{1, 7, 8, 15} {
			if s == 60 && k > 7 {
				continue
			}
			both(math.Float64frombits(k << s))
			both(math.Float64frombits(k<<s | 0x000fffffffffffff))
		}
	}
	// 7-bit group boundaries of the bit pattern
	for j := uint(1); j <= 8; j++ {
		both(math.Float64frombits(0x3ff0000000000000 | uint64(1)<<(7*j)))
		both(math.Float64frombits(0x3ff0000000000000 | (uint64(1)<<(7*j) - 1)))
	}
	out := make([]float64, 0, len(set))
	for b := range set {
		out = append(out, math.Float64frombits(b))
	}
	sort.Slice(out, func(i, j int) bool { return totalLess(out[i], out[j]) })
	return out
}

// geoBoundaryPoints are lon/lat pairs whose morton hashes exercise the 9-bit geo step.
func geoBoundaryPoints() [][2]float64 {
	lons := []float64{-180, -179.99999999, -90, -1e-7, math.Copysign(0, -1), 0, 1e-7, 45, 90, 179.99999999, 180}
	lats := []float64{-90, -89.99999999, -45, -1e-7, 0, 1e-7, 45, 89.99999999, 90}
	var out [][2]float64
	for _, lo := range lons {
		for _, la := range lats {
			out = append(out, [2]float64{lo, la})
		}
	}
	return out
}
