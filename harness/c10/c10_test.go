// C10  Numeric encoding preserves order; range decomposition is exact.
package c10

import (
	"bytes"
	"encoding/json"
	"fmt"
	"math"
	"strings"
	"sync"
	"testing"
	"time"

	"github.com/blugelabs/bluge"
	"github.com/blugelabs/bluge/numeric"
	"github.com/blugelabs/bluge/numeric/geo"
	segment "github.com/blugelabs/bluge_segment_api"
	"pgregory.net/rapid"

	"verifharness/vlib"
)

func TestMain(m *testing.M) { vlib.Main(m) }

var ev = vlib.NewEvidence("C10",
	"codec: all ordered pairs of the int64 boundary set at all 64 shifts and of the float64 boundary set (exhaustive sub-space, counted under exhaustive_*), plus generated pairs of arbitrary values; non-trivial = the two values differ and lie on both sides of a 4-bit or 7-bit structure boundary (their truncations differ at shift s but agree at s+4, or the pair straddles the sign change); geo hashes: generated lon/lat and 32-bit halves, non-trivial = both halves use their upper 16 bits. "+
		"ranges: generated intervals (each end closed/open/unbounded, ordered/inverted/degenerate; ends at boundary values, a few steps beside them, arbitrary) run as NumericRange/DateRange queries on an index holding every boundary value (single- and multi-valued documents, several segments) or on a freshly built index whose values sit on and beside the ends, hit set compared with direct evaluation under the total order; non-trivial = the interval decomposes into sub-ranges on >= 2 precision levels or touches an extreme/unbounded end")

// sampleOnce keeps at most one non-trivial sample per kind, so that the few sample slots of the
// evidence show every kind of case.
var (
	sampleMu   sync.Mutex
	sampleSeen = map[string]int{}
)

func sampleOnce(kind string, v interface{}, nontrivial bool) {
	if !nontrivial {
		return
	}
	// the driver shows six samples taken round-robin from the shards: even shards contribute
	// codec and corpus cases, odd shards fresh-index cases first
	if shard, n := vlib.Shard(); n > 1 && (shard%2 == 1) != strings.HasPrefix(kind, "range-fresh") {
		return
	}
	sampleMu.Lock()
	n := sampleSeen[kind]
	sampleSeen[kind]++
	sampleMu.Unlock()
	if n == 0 {
		ev.Sample(v, true)
	}
}

// -------------------------------------------------------------------------------------------
// Part 1: the codec (pure)

type IntPair struct {
	A     int64 `json:"a"`
	B     int64 `json:"b"`
	Shift uint  `json:"shift"`
}

type FloatPair struct {
	A uint64 `json:"a_bits"`
	B uint64 `json:"b_bits"`
}

func sign(x int) int {
	switch {
	case x < 0:
		return -1
	case x > 0:
		return 1
	}
	return 0
}

func cmpInt(a, b int64) int {
	switch {
	case a < b:
		return -1
	case a > b:
		return 1
	}
	return 0
}

// checkIntValue: round trip of one value at one shift.
func checkIntValue(v int64, s uint) *vlib.Failure {
	p, err := numeric.NewPrefixCodedInt64(v, s)
	if err != nil {
		return vlib.Failf("prefix-encode-error", "NewPrefixCodedInt64(%d,%d): %v", v, s, err)
	}
	gs, err := p.Shift()
	if err != nil || gs != s {
		return vlib.Failf("prefix-shift", "NewPrefixCodedInt64(%d,%d)=%x: Shift() = %d, %v; want %d", v, s, []byte(p), gs, err, s)
	}
	back, err := p.Int64()
	if err != nil || back != truncated(v, s) {
		return vlib.Failf("prefix-roundtrip", "NewPrefixCodedInt64(%d,%d)=%x: Int64() = %d, %v; want %d", v, s, []byte(p), back, err, truncated(v, s))
	}
	// the preallocating constructor is the same function of (v,s)
	buf := make([]byte, 16)
	for i := range buf {
		buf[i] = 0xaa
	}
	q, _, err := numeric.NewPrefixCodedInt64Prealloc(v, s, buf)
	if err != nil || !bytes.Equal(p, q) {
		return vlib.Failf("prefix-prealloc-differs", "NewPrefixCodedInt64Prealloc(%d,%d) = %x, %v; plain constructor gives %x", v, s, []byte(q), err, []byte(p))
	}
	return nil
}

// checkIntPair: at shift s the encodings compare like the truncated values.
func checkIntPair(a, b int64, s uint, ea, eb []byte) *vlib.Failure {
	want := cmpInt(truncated(a, s), truncated(b, s))
	got := sign(bytes.Compare(ea, eb))
	if want != got {
		return vlib.Failf("prefix-order", "shift %d: a=%d b=%d truncated compare %d, encodings %x vs %x compare %d", s, a, b, want, ea, eb, got)
	}
	return nil
}

func propIntPair(c IntPair) *vlib.Failure {
	return vlib.Guard("numeric.PrefixCoded", func() *vlib.Failure {
		if c.Shift > 63 {
			return nil
		}
		if f := checkIntValue(c.A, c.Shift); f != nil {
			return f
		}
		if f := checkIntValue(c.B, c.Shift); f != nil {
			return f
		}
		return checkIntPair(c.A, c.B, c.Shift, numeric.MustNewPrefixCodedInt64(c.A, c.Shift), numeric.MustNewPrefixCodedInt64(c.B, c.Shift))
	})
}

func finite(f float64) bool { return !math.IsNaN(f) && !math.IsInf(f, 0) }

func checkFloatValue(x float64) *vlib.Failure {
	i := numeric.Float64ToInt64(x)
	back := numeric.Int64ToFloat64(i)
	if math.Float64bits(back) != math.Float64bits(x) {
		return vlib.Failf("float-roundtrip", "Int64ToFloat64(Float64ToInt64(%v [%#x])) = %v [%#x]", x, math.Float64bits(x), back, math.Float64bits(back))
	}
	return nil
}

func propFloatPair(c FloatPair) *vlib.Failure {
	return vlib.Guard("numeric.Float64ToInt64", func() *vlib.Failure {
		a, b := math.Float64frombits(c.A), math.Float64frombits(c.B)
		if !finite(a) || !finite(b) {
			return nil
		}
		if f := checkFloatValue(a); f != nil {
			return f
		}
		if f := checkFloatValue(b); f != nil {
			return f
		}
		ia, ib := numeric.Float64ToInt64(a), numeric.Float64ToInt64(b)
		less := totalLess(a, b)
		if less != (ia < ib) {
			return vlib.Failf("float-order", "a=%v [%#x] b=%v [%#x]: a sorts before b = %v, images %d < %d = %v", a, c.A, b, c.B, less, ia, ib, ia < ib)
		}
		ea, eb := numeric.MustNewPrefixCodedInt64(ia, 0), numeric.MustNewPrefixCodedInt64(ib, 0)
		if less != (bytes.Compare(ea, eb) < 0) {
			return vlib.Failf("float-order", "a=%v [%#x] b=%v [%#x]: a sorts before b = %v, encodings %x vs %x", a, c.A, b, c.B, less, []byte(ea), []byte(eb))
		}
		if (c.A == c.B) != bytes.Equal(ea, eb) {
			return vlib.Failf("float-order", "a=%v [%#x] b=%v [%#x]: equality of encodings %x vs %x", a, c.A, b, c.B, []byte(ea), []byte(eb))
		}
		// the indexed field value is that encoding
		fa := bluge.NewNumericField("f", a).Value()
		if !bytes.Equal(fa, ea) {
			return vlib.Failf("field-encoding", "NewNumericField(%v).Value() = %x, want %x", a, fa, []byte(ea))
		}
		// and decodes back to the same float
		da, err := bluge.DecodeNumericFloat64(fa)
		if err != nil || math.Float64bits(da) != c.A {
			return vlib.Failf("float-roundtrip", "DecodeNumericFloat64(NewNumericField(%v [%#x]).Value()) = %v [%#x], %v", a, c.A, da, math.Float64bits(da), err)
		}
		return nil
	})
}

// straddles reports the structure levels at which a and b are separated: the lowest shift
// (multiple of 4) at which the truncations agree is > 0, or the signs differ.
func intPairNontrivial(a, b int64) bool {
	if a == b {
		return false
	}
	if (a < 0) != (b < 0) {
		return true
	}
	x := uint64(a) ^ uint64(b)
	// highest differing bit at position >= 4 means the pair lies in different 4-bit blocks
	return x >= 16
}

func TestC10CodecExhaustive(t *testing.T) {
	shard, nshards := vlib.Shard()
	bi := intBoundaries()
	bf := floatBoundaries()
	ev.Extra("exhaustive_boundary_set_sizes", fmt.Sprintf("%d int64 values, %d float64 values", len(bi), len(bf)))
	ev.Extra("exhaustive_core", "every ordered pair of the int64 boundary set at every shift 0..63 and every ordered pair of the float64 boundary set is evaluated (rows are divided among the shards; the exhaustive_* counters are sums over all shards)")
	// encodings of every boundary value at every shift, each one checked for its round trip
	enc := make([][][]byte, len(bi))
	for i, v := range bi {
		enc[i] = make([][]byte, 64)
		for s := uint(0); s < 64; s++ {
			if f := vlib.Guard("numeric.PrefixCoded", func() *vlib.Failure { return checkIntValue(v, s) }); f != nil {
				vlib.Report(t, ev, "codec-int", IntPair{v, v, s}, f)
				return
			}
			enc[i][s] = numeric.MustNewPrefixCodedInt64(v, s)
			if i%nshards == shard {
				ev.AddExtra("exhaustive_int_roundtrips", 1)
			}
		}
	}
	pairs, nt := 0, 0
	for i, a := range bi {
		if i%nshards != shard {
			continue
		}
		for j, b := range bi {
			for s := uint(0); s < 64; s++ {
				if f := checkIntPair(a, b, s, enc[i][s], enc[j][s]); f != nil {
					vlib.Report(t, ev, "codec-int", IntPair{a, b, s}, f)
					return
				}
			}
			pairs++
			if intPairNontrivial(a, b) {
				nt++
			}
		}
	}
	ev.Evals(pairs * 64)
	ev.AddExtra("exhaustive_int_pairs", pairs)
	ev.AddExtra("exhaustive_int_pair_shift_comparisons", pairs*64)
	ev.Class("exhaustive:int-pairs-across-a-block-or-sign-boundary", nt)
	// floats
	fpairs, adj := 0, 0
	for i, a := range bf {
		if i%nshards != shard {
			continue
		}
		for _, b := range bf {
			c := FloatPair{math.Float64bits(a), math.Float64bits(b)}
			if f := propFloatPair(c); f != nil {
				vlib.Report(t, ev, "codec-float", c, f)
				return
			}
			fpairs++
		}
	}
	ev.Evals(fpairs)
	ev.AddExtra("exhaustive_float_pairs", fpairs)
	// -0 immediately below +0, and consecutive floats are consecutive images (no value in between)
	if shard == 0 {
		nz, pz := math.Copysign(0, -1), 0.0
		if f := vlib.Guard("numeric.Float64ToInt64", func() *vlib.Failure {
			if d := numeric.Float64ToInt64(pz) - numeric.Float64ToInt64(nz); d != 1 {
				return vlib.Failf("zero-adjacency", "Float64ToInt64(+0) - Float64ToInt64(-0) = %d, want 1", d)
			}
			for _, x := range bf {
				up := math.Nextafter(x, math.Inf(1))
				if x == 0 && !math.Signbit(x) || !finite(up) {
					continue
				}
				if math.Signbit(x) && x == 0 {
					up = 0 // the successor of -0 in the total order is +0
				}
				adj++
				if d := numeric.Float64ToInt64(up) - numeric.Float64ToInt64(x); d != 1 {
					return vlib.Failf("float-order", "images of %v and its successor %v differ by %d, want 1", x, up, d)
				}
			}
			return nil
		}); f != nil {
			vlib.Report(t, ev, "codec-float", FloatPair{math.Float64bits(nz), math.Float64bits(pz)}, f)
			return
		}
		ev.AddExtra("exhaustive_float_successor_checks", adj)
	}
}

func genInt64(t *rapid.T, bi []int64, label string) int64 {
	switch rapid.IntRange(0, 5).Draw(t, label+"Kind") {
	case 0:
		return rapid.SampledFrom(bi).Draw(t, label+"Boundary")
	case 1:
		v := rapid.SampledFrom(bi).Draw(t, label+"Boundary")
		d := rapid.Int64Range(-40, 40).Draw(t, label+"Delta")
		if (d > 0 && v > math.MaxInt64-d) || (d < 0 && v < math.MinInt64-d) {
			return v
		}
		return v + d
	case 2:
		// a few random bits set
		var v uint64
		n := rapid.IntRange(1, 5).Draw(t, label+"Bits")
		for i := 0; i < n; i++ {
			v |= 1 << rapid.UintRange(0, 63).Draw(t, label+"Bit")
		}
		if rapid.Bool().Draw(t, label+"Invert") {
			v = ^v
		}
		return int64(v)
	default:
		return rapid.Int64().Draw(t, label)
	}
}

func genFiniteBits(t *rapid.T, bf []float64, label string) uint64 {
	for {
		var b uint64
		switch rapid.IntRange(0, 4).Draw(t, label+"Kind") {
		case 0:
			b = math.Float64bits(rapid.SampledFrom(bf).Draw(t, label+"Boundary"))
		case 1:
			s := sortableOfFloat(rapid.SampledFrom(bf).Draw(t, label+"Boundary"))
			s += rapid.Int64Range(-40, 40).Draw(t, label+"Ulps")
			b = math.Float64bits(floatOfSortable(s))
		case 2:
			b = math.Float64bits(rapid.Float64().Draw(t, label+"Float"))
		default:
			b = rapid.Uint64().Draw(t, label+"Bits")
		}
		if finite(math.Float64frombits(b)) {
			return b
		}
	}
}

func TestC10CodecGenerated(t *testing.T) {
	bi := intBoundaries()
	bf := floatBoundaries()
	vlib.Check(t, 20000, 400000, func(rt *rapid.T) {
		if rapid.Bool().Draw(rt, "floats") {
			a := genFiniteBits(rt, bf, "a")
			var b uint64
			if rapid.IntRange(0, 2).Draw(rt, "near") == 0 {
				s := sortableOfFloat(math.Float64frombits(a)) + rapid.Int64Range(-3, 3).Draw(rt, "ulps")
				b = math.Float64bits(floatOfSortable(s))
				if !finite(math.Float64frombits(b)) {
					b = a
				}
			} else {
				b = genFiniteBits(rt, bf, "b")
			}
			c := FloatPair{a, b}
			f := propFloatPair(c)
			fa, fb := math.Float64frombits(a), math.Float64bits(math.Float64frombits(b))
			_ = fb
			nt := a != b && (math.Signbit(fa) != math.Signbit(math.Float64frombits(b)) || (a^b) >= 16)
			ev.Case(vlib.Canon(c), nt, "codec-float")
			sampleOnce("codec-float", map[string]interface{}{"kind": "codec-float", "a": fa, "b": math.Float64frombits(b), "case": c}, nt)
			vlib.Report(rt, ev, "codec-float", c, f)
			return
		}
		a := genInt64(rt, bi, "a")
		var b int64
		switch rapid.IntRange(0, 3).Draw(rt, "rel") {
		case 0:
			b = a ^ int64(uint64(1)<<rapid.UintRange(0, 63).Draw(rt, "flip"))
		case 1:
			d := rapid.Int64Range(-20, 20).Draw(rt, "delta")
			b = a
			if !((d > 0 && a > math.MaxInt64-d) || (d < 0 && a < math.MinInt64-d)) {
				b = a + d
			}
		default:
			b = genInt64(rt, bi, "b")
		}
		c := IntPair{a, b, rapid.UintRange(0, 63).Draw(rt, "shift")}
		f := propIntPair(c)
		nt := truncated(a, c.Shift) != truncated(b, c.Shift) && intPairNontrivial(a>>c.Shift, b>>c.Shift)
		ev.Case(vlib.Canon(c), nt, "codec-int", fmt.Sprintf("codec-int:shift%%4=%d", c.Shift%4))
		sampleOnce("codec-int", map[string]interface{}{"kind": "codec-int", "case": c}, nt)
		vlib.Report(rt, ev, "codec-int", c, f)
	})
}

// -------------------------------------------------------------------------------------------
// geo hashes: the morton interleave round-trips, and a geo point's tokens (9-bit step, shifts
// 0..63) are the prefix codings of its hash

type GeoCase struct {
	Lon float64 `json:"lon"`
	Lat float64 `json:"lat"`
	X   uint64  `json:"x"` // 32-bit halves for the interleave round trip
	Y   uint64  `json:"y"`
}

func propGeo(c GeoCase) *vlib.Failure {
	return vlib.Guard("geo", func() *vlib.Failure {
		x, y := c.X&0xffffffff, c.Y&0xffffffff
		h := numeric.Interleave(x, y)
		if gx, gy := numeric.Deinterleave(h), numeric.Deinterleave(h>>1); gx != x || gy != y {
			return vlib.Failf("interleave-roundtrip", "Interleave(%#x,%#x) = %#x de-interleaves to %#x,%#x", x, y, h, gx, gy)
		}
		// the own statement of bit interleaving: bit i of x at 2i, bit i of y at 2i+1
		var want uint64
		for i := uint(0); i < 32; i++ {
			want |= (x >> i & 1) << (2 * i)
			want |= (y >> i & 1) << (2*i + 1)
		}
		if h != want {
			return vlib.Failf("interleave-roundtrip", "Interleave(%#x,%#x) = %#x, bitwise interleaving is %#x", x, y, h, want)
		}
		if c.Lon < -180 || c.Lon > 180 || c.Lat < -90 || c.Lat > 90 || math.IsNaN(c.Lon) || math.IsNaN(c.Lat) {
			return nil
		}
		// the hash of a point survives the sortable encoding at shift 0 and, truncated, at every geo shift
		mh := geo.MortonHash(c.Lon, c.Lat)
		fld := bluge.NewGeoPointField("g", c.Lon, c.Lat)
		p := numeric.PrefixCoded(fld.Value())
		back, err := p.Int64()
		if err != nil || uint64(back) != mh {
			return vlib.Failf("geo-roundtrip", "geo point (%v,%v): hash %#x, field value %x decodes to %#x, %v", c.Lon, c.Lat, mh, fld.Value(), uint64(back), err)
		}
		return checkTokens(fld, back, 9, fmt.Sprintf("geo point (%v,%v)", c.Lon, c.Lat))
	})
}

// checkTokens: the tokens a numeric-like field contributes to the index are exactly the codings
// of its value at shift 0, step, 2*step, ... < 64, and each decodes to the truncated value.
func checkTokens(fld *bluge.TermField, v int64, step uint, what string) *vlib.Failure {
	fld.Analyze(0)
	got := map[string]int{}
	fld.EachTerm(func(ft segment.FieldTerm) { got[string(ft.Term())]++ })
	n := 0
	for s := uint(0); s < 64; s += step {
		n++
		want := numeric.MustNewPrefixCodedInt64(v, s)
		if got[string(want)] != 1 {
			return vlib.Failf("index-tokens", "%s: value %d: token for shift %d (%x) present %d times among %d tokens", what, v, s, []byte(want), got[string(want)], len(got))
		}
		gs, err := want.Shift()
		if err != nil || gs != s {
			return vlib.Failf("prefix-shift", "%s: indexed token %x of value %d at shift %d: Shift() = %d, %v", what, []byte(want), v, s, gs, err)
		}
		back, err := want.Int64()
		if err != nil || back != truncated(v, s) {
			return vlib.Failf("prefix-roundtrip", "%s: indexed token %x of value %d at shift %d decodes to %d, %v; want %d", what, []byte(want), v, s, back, err, truncated(v, s))
		}
	}
	if len(got) != n {
		return vlib.Failf("index-tokens", "%s: value %d: %d distinct tokens, want %d (one per shift step %d)", what, v, len(got), n, step)
	}
	return nil
}

type TokenCase struct {
	Kind  string `json:"kind"` // "num" (V = float bits) | "date" (V = ns)
	Value int64  `json:"value"`
}

func propTokens(c TokenCase) *vlib.Failure {
	return vlib.Guard("field.Analyze", func() *vlib.Failure {
		switch c.Kind {
		case "num":
			x := math.Float64frombits(uint64(c.Value))
			if !finite(x) {
				return nil
			}
			return checkTokens(bluge.NewNumericField("f", x), numeric.Float64ToInt64(x), 4, fmt.Sprintf("numeric field %v", x))
		default:
			tm := time.Unix(0, c.Value)
			fld := bluge.NewDateTimeField("d", tm)
			back, err := bluge.DecodeDateTime(fld.Value())
			if err != nil || back.UnixNano() != c.Value {
				return vlib.Failf("date-roundtrip", "DecodeDateTime(NewDateTimeField(%d ns).Value()) = %v (%d ns), %v", c.Value, back, back.UnixNano(), err)
			}
			return checkTokens(fld, c.Value, 4, fmt.Sprintf("date field %d ns", c.Value))
		}
	})
}

func TestC10TokensAndGeo(t *testing.T) {
	shard, nshards := vlib.Shard()
	n := 0
	for i, v := range intBoundaries() {
		if i%nshards != shard {
			continue
		}
		c := TokenCase{"date", v}
		if vlib.Report(t, ev, "tokens", c, propTokens(c)) {
			return
		}
		n++
	}
	for i, x := range floatBoundaries() {
		if i%nshards != shard {
			continue
		}
		c := TokenCase{"num", int64(math.Float64bits(x))}
		if vlib.Report(t, ev, "tokens", c, propTokens(c)) {
			return
		}
		n++
	}
	ev.Evals(n)
	ev.AddExtra("exhaustive_boundary_values_token_sets", n)
	g := 0
	for i, p := range geoBoundaryPoints() {
		if i%nshards != shard {
			continue
		}
		c := GeoCase{Lon: p[0], Lat: p[1], X: uint64(i) * 0x9e3779b9, Y: ^uint64(i)}
		if vlib.Report(t, ev, "geo", c, propGeo(c)) {
			return
		}
		g++
	}
	ev.Evals(g)
	ev.AddExtra("geo_boundary_points", g)
	vlib.Check(t, 3000, 60000, func(rt *rapid.T) {
		c := GeoCase{X: rapid.Uint64().Draw(rt, "x"), Y: rapid.Uint64().Draw(rt, "y")}
		if rapid.Bool().Draw(rt, "edge") {
			c.Lon = rapid.SampledFrom([]float64{-180, -90, 0, 90, 180}).Draw(rt, "lonEdge") + rapid.Float64Range(-1e-6, 1e-6).Draw(rt, "lonEps")
			c.Lat = rapid.SampledFrom([]float64{-90, -45, 0, 45, 90}).Draw(rt, "latEdge") + rapid.Float64Range(-1e-6, 1e-6).Draw(rt, "latEps")
			c.Lon = math.Max(-180, math.Min(180, c.Lon))
			c.Lat = math.Max(-90, math.Min(90, c.Lat))
		} else {
			c.Lon = rapid.Float64Range(-180, 180).Draw(rt, "lon")
			c.Lat = rapid.Float64Range(-90, 90).Draw(rt, "lat")
		}
		f := propGeo(c)
		// non-trivial: both interleaved halves use their upper 16 bits (the hash spreads over
		// more than four 9-bit geo levels)
		ev.Case(vlib.Canon(c), c.X&0xffffffff >= 1<<16 && c.Y&0xffffffff >= 1<<16, "geo")
		vlib.Report(rt, ev, "geo", c, f)
	})
}

// -------------------------------------------------------------------------------------------

var replayFns = map[string]vlib.ReplayFn{
	"codec-int": func(raw json.RawMessage) *vlib.Failure {
		var c IntPair
		if f := vlib.Decode(raw, &c); f != nil {
			return f
		}
		return propIntPair(c)
	},
	"codec-float": func(raw json.RawMessage) *vlib.Failure {
		var c FloatPair
		if f := vlib.Decode(raw, &c); f != nil {
			return f
		}
		return propFloatPair(c)
	},
	"tokens": func(raw json.RawMessage) *vlib.Failure {
		var c TokenCase
		if f := vlib.Decode(raw, &c); f != nil {
			return f
		}
		return propTokens(c)
	},
	"geo": func(raw json.RawMessage) *vlib.Failure {
		var c GeoCase
		if f := vlib.Decode(raw, &c); f != nil {
			return f
		}
		return propGeo(c)
	},
	"range": func(raw json.RawMessage) *vlib.Failure {
		var c RangeCase
		if f := vlib.Decode(raw, &c); f != nil {
			return f
		}
		return propRange(c, nil)
	},
}

func TestReplay(t *testing.T)  { vlib.ReplayMain(t, ev, replayFns) }
func TestRegress(t *testing.T) { vlib.RegressMain(t, ev, replayFns) }
