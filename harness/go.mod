module verifharness

go 1.23

toolchain go1.23.5

require (
	github.com/RoaringBitmap/roaring v0.9.4
	github.com/anishathalye/porcupine v1.3.0
	github.com/axiomhq/hyperloglog v0.0.0-20191112132149-a4c4c47bc57f
	github.com/blugelabs/bluge v0.0.0
	github.com/blugelabs/bluge_segment_api v0.2.0
	github.com/blugelabs/ice v1.0.0
	github.com/blugelabs/ice/v2 v2.0.1
	golang.org/x/text v0.3.0
	pgregory.net/rapid v1.3.0
)

require (
	github.com/bits-and-blooms/bitset v1.2.0 // indirect
	github.com/blevesearch/go-porterstemmer v1.0.3 // indirect
	github.com/blevesearch/mmap-go v1.0.4 // indirect
	github.com/blevesearch/segment v0.9.0 // indirect
	github.com/blevesearch/snowballstem v0.9.0 // indirect
	github.com/blevesearch/vellum v1.0.7 // indirect
	github.com/caio/go-tdigest v3.1.0+incompatible // indirect
	github.com/dgryski/go-metro v0.0.0-20180109044635-280f6062b5bc // indirect
	github.com/golang/snappy v0.0.1 // indirect
	github.com/klauspost/compress v1.15.2 // indirect
	golang.org/x/sys v0.0.0-20220520151302-bc2c85ada10a // indirect
)

replace github.com/blugelabs/bluge => /repo
