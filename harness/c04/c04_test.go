// C04  A Reader is an immutable point-in-time view until it is closed.
package c04

import (
	"encoding/json"
	"fmt"
	"os"
	"path/filepath"
	"strings"
	"testing"
	"time"

	"github.com/blugelabs/bluge"
	"github.com/blugelabs/bluge/index"
	"pgregory.net/rapid"

	"verifharness/vlib"
)

func TestMain(m *testing.M) { vlib.Main(m) }

var ev = vlib.NewEvidence("C04",
	"scripted-gate scenarios with up to 4 readers of different ages held open: client batches, reader acquisition/use/close and the phases of a parked file merge, in-memory merge or "+
		"persist (advanced one phase at a time) are interleaved by rapid; then the writer is closed with readers still held and every file of the directory is unlinked. Every use of a held "+
		"reader (count, match-all, id lookups, stored fields, document values through a sum aggregation and a field sort, dictionary scans, six scored searches) must equal its first "+
		"observation and the abstract index at acquisition. non-trivial = a held reader was re-observed after >= 1 batch that removed one of its documents AND >= 1 background step "+
		"(merge/persist phase advanced, writer closed or files unlinked)")

var chains = map[string][]string{
	"merger":    {"merger:merge", "merger:persist.seg:end", "merger:ev7", "merger:ev8"},
	"persister": {"persister:persist.seg:begin", "persister:persist.seg:end", "persister:load.seg:end", "persister:persist.snp:begin", "persister:persist.snp:end", "persister:remove.snp:begin", "persister:remove.seg:begin"},
	"memmerge":  {"persister:merge", "persister:persist.seg:end", "persister:load.seg:end", "persister:persist.snp:begin", "persister:persist.snp:end"},
	"free":      {},
}

// Action is one scripted step.
type Action struct {
	Kind  string          `json:"kind"` // batch | take | use | close | advance | delete-all
	Batch *vlib.BatchSpec `json:"batch,omitempty"`
	K     int             `json:"k,omitempty"`
}

// Case is one scenario.
type Case struct {
	Conf       vlib.IdxConf     `json:"conf"`
	Chain      string           `json:"chain"`
	Start      int              `json:"start"`
	Seed       []vlib.BatchSpec `json:"seed"`
	Steps      []Action         `json:"steps"`
	UnlinkAll  bool             `json:"unlink_all"`
	CloseFirst bool             `json:"close_writer_with_readers_held"`
}

func gen(t *rapid.T) Case {
	c := Case{Chain: rapid.SampledFrom([]string{"merger", "merger", "persister", "memmerge", "free"}).Draw(t, "chain")}
	c.Conf = vlib.IdxConf{Dir: "fs", SegVer: rapid.SampledFrom([]int{1, 1, 1, 2}).Draw(t, "segVer"),
		Merge:     rapid.SampledFrom([]string{"default", "pairs"}).Draw(t, "merge"),
		Unsafe:    rapid.Bool().Draw(t, "unsafe"),
		Retention: rapid.SampledFrom([]int{1, 1, 2}).Draw(t, "retention")}
	if c.Chain == "persister" || c.Chain == "memmerge" {
		c.Conf.Unsafe = true
	}
	if n := len(chains[c.Chain]); n > 1 {
		c.Start = rapid.IntRange(0, n-2).Draw(t, "start")
	}
	g := vlib.NewHistGen(6)
	nSeed := rapid.IntRange(2, 5).Draw(t, "nSeed")
	for i := 0; i < nSeed; i++ {
		var b vlib.BatchSpec
		n := rapid.IntRange(1, 3).Draw(t, "seedOps")
		ids := rapid.Permutation(append([]string(nil), g.IDPool...)).Draw(t, "seedIds")[:n]
		for _, id := range ids {
			b.Ops = append(b.Ops, vlib.Op{Kind: "update", ID: id, Doc: g.Doc(t, id)})
		}
		c.Seed = append(c.Seed, b)
	}
	n := rapid.IntRange(3, 14).Draw(t, "nSteps")
	for i := 0; i < n; i++ {
		k := rapid.SampledFrom([]string{"batch", "batch", "batch", "take", "take", "use", "use", "close", "advance", "advance", "delete-all"}).Draw(t, "action")
		a := Action{Kind: k}
		switch k {
		case "batch":
			b := g.Batch(t, 3)
			a.Batch = &b
		case "use", "close":
			a.K = rapid.IntRange(0, 3).Draw(t, "which")
		}
		c.Steps = append(c.Steps, a)
	}
	c.CloseFirst = rapid.IntRange(0, 3).Draw(t, "closeFirst") > 0
	c.UnlinkAll = rapid.Bool().Draw(t, "unlink")
	return c
}

type held struct {
	r        *bluge.Reader
	model    *vlib.Model
	first    string // canonical first observation
	age      int    // number of batches applied when it was taken
	lostDoc  bool   // a later batch removed one of its documents
	bgSteps  int    // background steps since acquisition
	reobs    int
	takenAt  string
	nontriv  bool
	liveKeys map[string]bool
}

type stats struct {
	parked, ntReaders, readersTaken, reobservations, afterClose, afterUnlink int
	reached                                                                  []string
}

func prop(c Case, st *stats) (fail *vlib.Failure) {
	dir := vlib.NewScratchDir("c04")
	defer os.RemoveAll(dir)
	gates := vlib.NewGates()
	chain := chains[c.Chain]
	cur := c.Start
	if len(chain) > 0 {
		gates.Hold(chain[cur])
	}
	rr, f := vlib.StartRecordedRun(c.Conf, dir, nil, func(ic index.Config, d *vlib.RecDir) index.Config {
		return gates.Install(ic, d, false)
	})
	if f != nil {
		return f
	}
	m := vlib.NewModel()
	noStored := c.Conf.SegVer == 2 // never load stored fields of a version-2 segment while merges may run (vlib.Idx.NoStored)
	nBatches := 0
	closed := false
	var readers []*held
	defer func() {
		gates.OpenAll()
		for _, h := range readers {
			if h.r != nil {
				_ = h.r.Close()
			}
		}
		if !closed {
			_ = rr.Finish(false)
		}
		if fail != nil {
			fail.Msg += " | gate log tail: " + strings.Join(gates.LogTail(30), "; ")
		}
	}()
	bg := func() {
		for _, h := range readers {
			if h.r != nil {
				h.bgSteps++
			}
		}
	}
	apply := func(b vlib.BatchSpec) *vlib.Failure {
		if f := rr.Batch(b); f != nil {
			return f
		}
		if e := rr.Rec.CallErr[len(rr.Rec.CallErr)-1]; e != "" {
			return vlib.Failf("batch-error", "batch returned %s", e)
		}
		for _, op := range b.Ops {
			if op.Kind == "update" || op.Kind == "delete" {
				for _, h := range readers {
					if h.r != nil && h.liveKeys[op.ID] {
						h.lostDoc = true
					}
				}
			}
		}
		m.Apply(b)
		nBatches++
		return nil
	}
	use := func(h *held, site string) *vlib.Failure {
		return rr.X.TolerateIceV2(site, ev, func() *vlib.Failure {
			var fo *vlib.FullObs
			var err error
			if f := vlib.Watchdog("use-reader", vlib.CallBound, func() *vlib.Failure { fo, err = vlib.ObserveFull(h.r, h.model.SortedIDs(), noStored); return nil }); f != nil {
				return f
			}
			if err != nil {
				return vlib.Failf("held-reader-error", "%s: reader taken %s fails: %v", site, h.takenAt, err)
			}
			if f := vlib.CompareModel(site+" (reader taken "+h.takenAt+")", h.model, fo.Obs); f != nil {
				f.Key = "held-reader-changed:" + f.Key
				return f
			}
			canon := vlib.Canon(fo)
			if h.first == "" {
				h.first = canon
				return nil
			}
			if canon != h.first {
				return vlib.Failf("held-reader-changed", "%s: reader taken %s answers differently from its first use:\nfirst: %s\nnow:   %s", site, h.takenAt, clip(h.first), clip(canon))
			}
			h.reobs++
			st.reobservations++
			if h.lostDoc && h.bgSteps > 0 {
				h.nontriv = true
			}
			return nil
		})
	}
	take := func(site string) *vlib.Failure {
		open := 0
		for _, h := range readers {
			if h.r != nil {
				open++
			}
		}
		if open >= 4 {
			return nil
		}
		r, f := rr.X.Reader()
		if f != nil {
			return f
		}
		h := &held{r: r, model: m.Clone(), age: nBatches, takenAt: site, liveKeys: map[string]bool{}}
		for _, d := range m.Live {
			h.liveKeys[d.ID] = true
		}
		readers = append(readers, h)
		st.readersTaken++
		return use(h, site)
	}
	nth := func(k int) *held {
		var open []*held
		for _, h := range readers {
			if h.r != nil {
				open = append(open, h)
			}
		}
		if len(open) == 0 {
			return nil
		}
		return open[k%len(open)]
	}

	// drive to the hold point
	var parked *vlib.Parked
	if c.Chain == "memmerge" && c.Start == 0 {
		gates.Hold("persister:persist.seg:begin")
		for _, b := range c.Seed {
			if f := apply(b); f != nil {
				return f
			}
		}
		p0 := gates.WaitParked("persister:persist.seg:begin", 300*time.Millisecond)
		gates.Unhold("persister:persist.seg:begin")
		if p0 != nil {
			gates.Release(p0)
		}
		parked = gates.WaitParked(chain[cur], 500*time.Millisecond)
	} else {
		for i, b := range c.Seed {
			if f := apply(b); f != nil {
				return f
			}
			if i == 0 {
				if f := take("after first seed batch"); f != nil {
					return f
				}
			}
			if len(chain) > 0 && parked == nil {
				parked = gates.WaitParked(chain[cur], 30*time.Millisecond)
			}
		}
		if len(chain) > 0 && parked == nil {
			parked = gates.WaitParked(chain[cur], 300*time.Millisecond)
		}
	}
	if parked != nil {
		st.parked++
		st.reached = append(st.reached, chain[cur])
	}
	for i, a := range c.Steps {
		site := fmt.Sprintf("step %d (%s)", i, a.Kind)
		switch a.Kind {
		case "batch":
			if f := apply(*a.Batch); f != nil {
				return f
			}
		case "delete-all":
			var bb vlib.BatchSpec
			for _, id := range m.SortedIDs() {
				bb.Ops = append(bb.Ops, vlib.Op{Kind: "delete", ID: id})
			}
			if f := apply(bb); f != nil {
				return f
			}
		case "take":
			if f := take(site); f != nil {
				return f
			}
		case "use":
			if h := nth(a.K); h != nil {
				if f := use(h, site); f != nil {
					return f
				}
			}
		case "close":
			if h := nth(a.K); h != nil {
				if h.nontriv {
					st.ntReaders++
				}
				if err := h.r.Close(); err != nil {
					return vlib.Failf("reader-close-error", "%s: %v", site, err)
				}
				h.r = nil
			}
		case "advance":
			if parked == nil {
				// free running: give the background goroutines a moment
				gates.WaitStable(5*time.Millisecond, 200*time.Millisecond)
				bg()
				continue
			}
			if cur+1 < len(chain) {
				gates.Hold(chain[cur+1])
			}
			gates.Unhold(chain[cur])
			gates.Release(parked)
			parked = nil
			bg()
			if cur+1 < len(chain) {
				cur++
				parked = gates.WaitParked(chain[cur], 2*time.Second)
				if parked != nil {
					st.reached = append(st.reached, chain[cur])
				}
			}
		}
	}
	// every held reader once more, then the end game
	for _, h := range readers {
		if h.r != nil {
			if f := use(h, "before end game"); f != nil {
				return f
			}
		}
	}
	gates.OpenAll()
	gates.WaitStable(20*time.Millisecond, 3*time.Second)
	bg()
	for _, h := range readers {
		if h.r != nil {
			if f := use(h, "after all gates opened"); f != nil {
				return f
			}
		}
	}
	if c.CloseFirst {
		closed = true
		if f := rr.Finish(true); f != nil {
			return f
		}
		bg()
		for _, h := range readers {
			if h.r != nil {
				st.afterClose++
				if f := use(h, "after Writer.Close"); f != nil {
					return f
				}
			}
		}
		if c.UnlinkAll {
			ents, _ := os.ReadDir(dir)
			for _, e := range ents {
				_ = os.Remove(filepath.Join(dir, e.Name()))
			}
			bg()
			for _, h := range readers {
				if h.r != nil {
					st.afterUnlink++
					if f := use(h, "after unlinking every file"); f != nil {
						return f
					}
				}
			}
		}
	}
	for _, h := range readers {
		if h.r != nil {
			if h.nontriv {
				st.ntReaders++
			}
			if err := h.r.Close(); err != nil {
				return vlib.Failf("reader-close-error", "final close: %v", err)
			}
			h.r = nil
		}
	}
	return nil
}

func clip(s string) string {
	if len(s) > 1500 {
		return s[:1500] + "…"
	}
	return s
}

func TestC04HeldReaders(t *testing.T) {
	vlib.Check(t, 30, 400, func(rt *rapid.T) {
		c := gen(rt)
		var st stats
		f := vlib.Guard("scenario", func() *vlib.Failure { return prop(c, &st) })
		nt := st.ntReaders > 0
		cls := []string{"chain:" + c.Chain, fmt.Sprintf("segver:%d", c.Conf.SegVer)}
		if st.parked > 0 {
			cls = append(cls, "parked")
		}
		for _, r := range st.reached {
			cls = append(cls, "reached:"+r)
		}
		if st.afterClose > 0 {
			cls = append(cls, "used-after-writer-close")
		}
		if st.afterUnlink > 0 {
			cls = append(cls, "used-after-unlink")
		}
		ev.Case(vlib.Canon(c), nt, cls...)
		ev.AddExtra("readers_taken", st.readersTaken)
		ev.AddExtra("reobservations_of_held_readers", st.reobservations)
		ev.AddExtra("nontrivial_readers", st.ntReaders)
		if len(c.Steps) <= 6 {
			ev.Sample(map[string]interface{}{"case": c, "reached": st.reached, "readers": st.readersTaken}, nt)
		}
		vlib.Report(rt, ev, "held", c, f)
	})
}

var replayFns = map[string]vlib.ReplayFn{
	"failintro": func(raw json.RawMessage) *vlib.Failure {
		var c FailIntroCase
		if f := vlib.Decode(raw, &c); f != nil {
			return f
		}
		return propFailIntro(c)
	},
	"storm": func(raw json.RawMessage) *vlib.Failure {
		var c StormCase
		if f := vlib.Decode(raw, &c); f != nil {
			return f
		}
		var uses int64
		return propStorm(c, &uses)
	},
	"held": func(raw json.RawMessage) *vlib.Failure {
		var c Case
		if f := vlib.Decode(raw, &c); f != nil {
			return f
		}
		var st stats
		return prop(c, &st)
	},
}

func TestReplay(t *testing.T)  { vlib.ReplayMain(t, ev, replayFns) }
func TestRegress(t *testing.T) { vlib.RegressMain(t, ev, replayFns) }
