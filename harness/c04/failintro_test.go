package c04

import (
	"fmt"
	"os"
	"strings"
	"testing"
	"time"

	"github.com/blugelabs/bluge"
	"github.com/blugelabs/bluge/index"
	"pgregory.net/rapid"

	"verifharness/vlib"
)

// FailIntroCase: a batch whose introduction fails (the segment plugin reports an error while the
// introducer re-checks a segment the batch had not seen) must leave every open reader intact,
// also after later batches retire the segments those readers refer to.
type FailIntroCase struct {
	SegVer   int  `json:"seg_ver"`
	SeedDocs int  `json:"seed_docs"`
	Unsafe   bool `json:"unsafe"`
	After    int  `json:"batches_after"`
}

func propFailIntro(c FailIntroCase) (fail *vlib.Failure) {
	dir := vlib.NewScratchDir("c04fi")
	defer os.RemoveAll(dir)
	gates := vlib.NewGates()
	conf := vlib.IdxConf{Dir: "fs", SegVer: c.SegVer, Unsafe: c.Unsafe, Merge: "none"}
	rr, f := vlib.StartRecordedRun(conf, dir, nil, func(ic index.Config, d *vlib.RecDir) index.Config { return gates.Install(ic, d, true) })
	if f != nil {
		return f
	}
	closed := false
	defer func() {
		gates.OpenAll()
		if !closed {
			_ = rr.Finish(false)
		}
		if fail != nil {
			fail.Msg += " | gate log tail: " + strings.Join(gates.LogTail(30), "; ")
		}
	}()
	m := vlib.NewModel()
	ver := 0
	doc := func(id string) *vlib.DocSpec { ver++; return &vlib.DocSpec{ID: id, Ver: ver, T: []string{"alpha beta"}} }
	apply := func(b vlib.BatchSpec) *vlib.Failure {
		if f := rr.Batch(b); f != nil {
			return f
		}
		if e := rr.Rec.CallErr[len(rr.Rec.CallErr)-1]; e != "" {
			return vlib.Failf("batch-error", "batch returned %s", e)
		}
		m.Apply(b)
		return nil
	}
	var seed vlib.BatchSpec
	var seedIDs []string
	for i := 0; i < c.SeedDocs; i++ {
		id := fmt.Sprintf("s%d", i)
		seedIDs = append(seedIDs, id)
		seed.Ops = append(seed.Ops, vlib.Op{Kind: "update", ID: id, Doc: doc(id)})
	}
	if f := apply(seed); f != nil {
		return f
	}
	if f := rr.WaitCallbacks(); f != nil { // the seed segment is file backed now
		return f
	}
	time.Sleep(5 * time.Millisecond)
	held, f := rr.X.Reader()
	if f != nil {
		return f
	}
	defer held.Close()
	heldModel := m.Clone()
	noStored := conf.SegVer == 2
	use := func(site string) *vlib.Failure {
		return vlib.Guard("use-held", func() *vlib.Failure {
			var o *vlib.Obs
			var err error
			if noStored {
				o, err = vlib.ObserveNoStored(held, heldModel.SortedIDs())
			} else {
				o, err = vlib.Observe(held, heldModel.SortedIDs())
			}
			if err != nil {
				return vlib.Failf("held-reader-error", "%s: %v", site, err)
			}
			if f := vlib.CompareModel(site+" (held reader)", heldModel, o); f != nil {
				f.Key = "held-reader-changed:" + f.Key
				return f
			}
			return nil
		})
	}
	// B1 and B2 are prepared against the same root; B1 is introduced first, so B2's introduction
	// has to re-check B1's segment, and that re-check fails
	gates.HoldFirst("client:docsMatchingTerms")
	b1 := vlib.BatchSpec{Ops: []vlib.Op{{Kind: "update", ID: "x", Doc: doc("x")}}}
	b2 := vlib.BatchSpec{Ops: []vlib.Op{{Kind: "update", ID: "y", Doc: doc("y")}}}
	errs := make([]error, 2)
	done := []chan struct{}{make(chan struct{}), make(chan struct{})}
	for i, b := range []vlib.BatchSpec{b1, b2} {
		go func(i int, b vlib.BatchSpec) {
			defer close(done[i])
			errs[i] = rr.X.W.Batch(vlib.BuildBatch(b))
		}(i, b)
		if !gates.WaitPasses("client:docsMatchingTerms", i+1, 2*time.Second) {
			return vlib.Failf("harness-drive", "batch %d did not reach the stale-root window", i)
		}
	}
	time.Sleep(2 * time.Millisecond)
	parked := gates.ParkedList()
	if len(parked) != 2 {
		return vlib.Failf("harness-drive", "%d batches parked, want 2", len(parked))
	}
	gates.Unhold("client:docsMatchingTerms") // later batches run on fresh goroutines and must not park
	gates.Release(parked[0])
	released := 0
	select {
	case <-done[0]:
	case <-done[1]:
		released = 1
	case <-time.After(vlib.CallBound):
		return vlib.Failf("hang@Batch", "released batch did not return")
	}
	if errs[released] != nil {
		return vlib.Failf("batch-error", "first released batch: %v", errs[released])
	}
	if released == 0 {
		m.Apply(b1)
	} else {
		m.Apply(b2)
	}
	gates.FailNext("introducer:docsMatchingTerms")
	gates.Release(parked[1])
	other := 1 - released
	select {
	case <-done[other]:
	case <-time.After(vlib.CallBound):
		return vlib.Failf("hang@Batch", "batch whose introduction fails did not return")
	}
	if errs[other] == nil {
		return vlib.Failf("introduction-error-swallowed", "the introducer's re-check failed but Batch returned nil")
	}
	// the failed batch is not applied
	if f := rr.X.CheckModel("after the failed introduction", m, ev); f != nil {
		return f
	}
	if f := use("after the failed introduction"); f != nil {
		return f
	}
	// retire the seed segment (every seed document rewritten), then more batches
	var rewrite vlib.BatchSpec
	for _, id := range seedIDs {
		rewrite.Ops = append(rewrite.Ops, vlib.Op{Kind: "update", ID: id, Doc: doc(id)})
	}
	if f := apply(rewrite); f != nil {
		return f
	}
	for i := 0; i < c.After; i++ {
		if f := apply(vlib.BatchSpec{Ops: []vlib.Op{{Kind: "update", ID: "z", Doc: doc("z")}}}); f != nil {
			return f
		}
	}
	if f := rr.WaitCallbacks(); f != nil {
		return f
	}
	time.Sleep(10 * time.Millisecond)
	for k := 0; k < 3; k++ {
		if f := use("after the seed segment was retired"); f != nil {
			return f
		}
	}
	if f := rr.X.CheckModel("end", m, ev); f != nil {
		return f
	}
	_ = held.Close()
	closed = true
	return rr.Finish(true)
}

func TestC04FailedIntroduction(t *testing.T) {
	vlib.Check(t, 6, 60, func(rt *rapid.T) {
		c := FailIntroCase{SegVer: rapid.SampledFrom([]int{1, 1, 2}).Draw(rt, "segVer"), SeedDocs: rapid.IntRange(1, 4).Draw(rt, "seedDocs"),
			Unsafe: rapid.Bool().Draw(rt, "unsafe"), After: rapid.IntRange(0, 3).Draw(rt, "after")}
		f := vlib.Guard("failintro", func() *vlib.Failure { return propFailIntro(c) })
		if f != nil && f.Key == "harness-drive" {
			ev.Case(vlib.Canon(c), false, "failed-introduction:not-driven")
			return
		}
		ev.Case(vlib.Canon(c), true, "failed-introduction")
		ev.Sample(map[string]interface{}{"kind": "failed-introduction", "case": c}, false)
		vlib.Report(rt, ev, "failintro", c, f)
	})
}

var _ = bluge.NewBatch
