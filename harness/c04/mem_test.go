// C04 on the in-memory directory: the gate scenarios of c04_test.go run on the file-system
// directory (their gates sit in a recording wrapper of it).  Here readers are held on an
// InMemoryOnlyConfig index while batches, persists, merges (two segments per task) and the
// clean-up of superseded items go on; every held reader is re-observed after every batch and
// once more after the writer was closed (since seeded change C04-5: an in-memory directory that
// re-used the buffer of a removed item under a reader still holding it).
package c04

import (
	"encoding/json"
	"fmt"
	"testing"
	"time"

	"github.com/blugelabs/bluge"
	"pgregory.net/rapid"

	"verifharness/vlib"
)

// MemCase is a history with reader acquisitions on the in-memory directory.
type MemCase struct {
	Conf  vlib.IdxConf `json:"conf"`
	Steps []Action     `json:"steps"` // batch | take
}

func genMem(t *rapid.T) MemCase {
	c := MemCase{Conf: vlib.IdxConf{Dir: "mem", SegVer: rapid.SampledFrom([]int{1, 1, 2}).Draw(t, "segVer"),
		Merge: rapid.SampledFrom([]string{"pairs", "pairs", "default"}).Draw(t, "merge"), Unsafe: rapid.Bool().Draw(t, "unsafe"), Retention: 1}}
	g := vlib.NewHistGen(6)
	n := rapid.IntRange(4, 16).Draw(t, "nSteps")
	for i := 0; i < n; i++ {
		if i > 0 && rapid.IntRange(0, 3).Draw(t, "take") == 0 {
			c.Steps = append(c.Steps, Action{Kind: "take"})
			continue
		}
		b := g.Batch(t, 3)
		c.Steps = append(c.Steps, Action{Kind: "batch", Batch: &b})
	}
	return c
}

type memHeld struct {
	r     *bluge.Reader
	model *vlib.Model
	first string
	at    int
}

func propMem(c MemCase, reobs *int) *vlib.Failure {
	x, f := vlib.OpenIdx(c.Conf, "", nil)
	if f != nil {
		return f
	}
	defer x.Destroy()
	m := vlib.NewModel()
	var held []*memHeld
	defer func() {
		for _, h := range held {
			_ = h.r.Close()
		}
	}()
	noStored := c.Conf.SegVer == 2
	use := func(h *memHeld, site string) *vlib.Failure {
		return x.TolerateIceV2(site, ev, func() *vlib.Failure {
			var fo *vlib.FullObs
			var err error
			if f := vlib.Watchdog("use-reader", vlib.CallBound, func() *vlib.Failure { fo, err = vlib.ObserveFull(h.r, h.model.SortedIDs(), noStored); return nil }); f != nil {
				return f
			}
			if err != nil {
				return vlib.Failf("held-reader-error", "%s: reader taken at step %d (in-memory directory) fails: %v", site, h.at, err)
			}
			if f := vlib.CompareModel(fmt.Sprintf("%s (reader taken at step %d, in-memory directory)", site, h.at), h.model, fo.Obs); f != nil {
				f.Key = "held-reader-changed:" + f.Key
				return f
			}
			canon := vlib.Canon(fo)
			if h.first == "" {
				h.first = canon
			} else if canon != h.first {
				return vlib.Failf("held-reader-changed", "%s: reader taken at step %d answers differently from its first use", site, h.at)
			} else {
				*reobs++
			}
			return nil
		})
	}
	for i, s := range c.Steps {
		switch s.Kind {
		case "take":
			if len(held) >= 4 {
				_ = held[0].r.Close()
				held = held[1:]
			}
			r, f := x.Reader()
			if f != nil {
				return f
			}
			h := &memHeld{r: r, model: m.Clone(), at: i}
			held = append(held, h)
			if f := use(h, fmt.Sprintf("step %d (take)", i)); f != nil {
				return f
			}
		case "batch":
			if f := x.Batch(*s.Batch); f != nil {
				return f
			}
			m.Apply(*s.Batch)
			if c.Conf.Unsafe {
				if f := x.WaitPersisted(); f != nil {
					return f
				}
			}
			time.Sleep(2 * time.Millisecond) // lets merger and clean-up act (only a nudge, never a verdict)
			for _, h := range held {
				if f := use(h, fmt.Sprintf("step %d (after batch)", i)); f != nil {
					return f
				}
			}
		}
	}
	if f := x.Close(); f != nil {
		return f
	}
	for _, h := range held {
		if f := use(h, "after Writer.Close"); f != nil {
			return f
		}
	}
	return nil
}

func TestC04MemHeld(t *testing.T) {
	vlib.Check(t, 25, 300, func(rt *rapid.T) {
		c := genMem(rt)
		reobs := 0
		f := vlib.Guard("mem-held", func() *vlib.Failure { return propMem(c, &reobs) })
		ev.Case(vlib.Canon(c), reobs >= 3, "mem-held")
		ev.AddExtra("mem_held_reobservations", reobs)
		vlib.Report(rt, ev, "memheld", c, f)
	})
}

func init() {
	replayFns["memheld"] = func(raw json.RawMessage) *vlib.Failure {
		var c MemCase
		if f := vlib.Decode(raw, &c); f != nil {
			return f
		}
		n := 0
		return propMem(c, &n)
	}
}
