package c04

import (
	"context"
	"fmt"
	"os"
	"sync"
	"sync/atomic"
	"testing"
	"time"

	"github.com/blugelabs/bluge"
	"pgregory.net/rapid"

	"verifharness/vlib"
)

// StormCase: many goroutines obtain, use and close readers while one writer keeps replacing
// the root (unsafe batches, so that persists and merges run behind it).  Every reader is used
// three times; its answers must agree with each other (it is a point-in-time view) and it must
// never fault.  The window this aims at is the acquisition itself: the root must be pinned
// before it can be retired by a concurrent root swap.
type StormCase struct {
	SegVer   int `json:"seg_ver"`
	Takers   int `json:"takers"`
	Rounds   int `json:"rounds"`
	Batches  int `json:"batches"`
	DocsEach int `json:"docs_per_batch"`
}

func genStorm(t *rapid.T) StormCase {
	return StormCase{SegVer: 1, Takers: rapid.SampledFrom([]int{32, 64, 128}).Draw(t, "takers"),
		Rounds: rapid.IntRange(60, 200).Draw(t, "rounds"), Batches: rapid.IntRange(100, 300).Draw(t, "batches"),
		DocsEach: rapid.IntRange(1, 3).Draw(t, "docs")}
}

func propStorm(c StormCase, uses *int64) *vlib.Failure {
	dir := vlib.NewScratchDir("c04storm")
	defer os.RemoveAll(dir)
	x, f := vlib.OpenIdx(vlib.IdxConf{Dir: "fs", SegVer: c.SegVer, Unsafe: true, Merge: "default"}, dir, nil)
	if f != nil {
		return f
	}
	defer x.Destroy()
	ids := []string{"a", "b", "c", "d", "e", "f"}
	ver := 0
	write := func() *vlib.Failure {
		var b vlib.BatchSpec
		for k := 0; k < c.DocsEach; k++ {
			ver++
			id := ids[ver%len(ids)]
			b.Ops = append(b.Ops, vlib.Op{Kind: "update", ID: id, Doc: &vlib.DocSpec{ID: id, Ver: ver, T: []string{"alpha beta"}}})
		}
		return x.Batch(b)
	}
	for i := 0; i < 3; i++ {
		if f := write(); f != nil {
			return f
		}
	}
	var mu sync.Mutex
	var first *vlib.Failure
	fail := func(f *vlib.Failure) {
		mu.Lock()
		if first == nil {
			first = f
		}
		mu.Unlock()
	}
	stop := make(chan struct{})
	var wg sync.WaitGroup
	for g := 0; g < c.Takers; g++ {
		wg.Add(1)
		go func(g int) {
			defer wg.Done()
			for r := 0; r < c.Rounds; r++ {
				select {
				case <-stop:
					return
				default:
				}
				rd, err := x.W.Reader()
				if err != nil {
					fail(vlib.Failf("reader-error", "%v", err))
					return
				}
				if g%8 == 0 {
					// some readers are held a little longer and used thrice
					var firstObs string
					for u := 0; u < 3; u++ {
						f := vlib.Guard("storm-use", func() *vlib.Failure {
							cnt, err := rd.Count()
							if err != nil {
								return vlib.Failf("held-reader-error", "Count: %v", err)
							}
							it, err := rd.Search(context.Background(), bluge.NewAllMatches(bluge.NewMatchAllQuery()))
							if err != nil {
								return vlib.Failf("held-reader-error", "search: %v", err)
							}
							obs := fmt.Sprintf("count=%d;", cnt)
							n := 0
							for {
								m, err := it.Next()
								if err != nil {
									return vlib.Failf("held-reader-error", "next: %v", err)
								}
								if m == nil {
									break
								}
								n++
								var id, v string
								if err := m.VisitStoredFields(func(field string, value []byte) bool {
									if field == "_id" {
										id = string(value)
									}
									if field == "ver" {
										v = string(value)
									}
									return true
								}); err != nil {
									return vlib.Failf("held-reader-error", "stored fields: %v", err)
								}
								obs += id + "#" + v + ","
							}
							if uint64(n) != cnt {
								return vlib.Failf("held-reader-changed", "Count()=%d but match-all yields %d on one reader", cnt, n)
							}
							if firstObs == "" {
								firstObs = obs
							} else if obs != firstObs {
								return vlib.Failf("held-reader-changed", "one reader answered %q, then %q", firstObs, obs)
							}
							return nil
						})
						atomic.AddInt64(uses, 1)
						if f != nil {
							fail(f)
							_ = rd.Close()
							return
						}
					}
				} else if _, err := rd.Count(); err != nil {
					fail(vlib.Failf("held-reader-error", "Count: %v", err))
				}
				if err := rd.Close(); err != nil {
					fail(vlib.Failf("reader-close-error", "%v", err))
					return
				}
			}
		}(g)
	}
	for i := 0; i < c.Batches; i++ {
		if f := write(); f != nil {
			fail(f)
			break
		}
	}
	done := make(chan struct{})
	go func() { wg.Wait(); close(done) }()
	select {
	case <-done:
	case <-time.After(5 * vlib.CallBound):
		close(stop)
		return vlib.Failf("hang@reader-storm", "reader goroutines did not finish")
	}
	if first != nil {
		return first
	}
	// final state: each id exactly once (only Updates)
	o, f := x.ObserveNow(ids)
	if f != nil {
		return f
	}
	for _, id := range ids {
		if len(o.ByID[id]) != 1 {
			return vlib.Failf("id-lookup-mismatch", "after the storm id %q has %d live documents", id, len(o.ByID[id]))
		}
	}
	return nil
}

func TestC04ReaderStorm(t *testing.T) {
	vlib.Check(t, 3, 20, func(rt *rapid.T) {
		c := genStorm(rt)
		var uses int64
		f := vlib.Guard("storm", func() *vlib.Failure { return propStorm(c, &uses) })
		ev.Case(vlib.Canon(c), true, "reader-storm")
		ev.AddExtra("storm_uses_of_held_readers", int(uses))
		ev.Sample(map[string]interface{}{"kind": "reader-storm", "case": c}, false)
		vlib.Report(rt, ev, "storm", c, f)
	})
}
