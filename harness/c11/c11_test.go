// C11  No needed file is ever removed; handles and the lock are released.
package c11

import (
	"bytes"
	"encoding/binary"
	"encoding/json"
	"fmt"
	"hash/crc32"
	"os"
	"path/filepath"
	"sort"
	"strings"
	"sync"
	"testing"
	"time"

	"github.com/blugelabs/bluge"
	"github.com/blugelabs/bluge/index"
	"pgregory.net/rapid"

	"verifharness/vlib"
)

func TestMain(m *testing.M) { vlib.Main(m) }

var ev = vlib.NewEvidence("C11",
	"generated batch histories on the real file-system directory behind a recording wrapper (retention N in {1,2,3}, safe/unsafe, merge policies, held readers, "+
		"second-writer attempts, read-only opens while the writer runs, reopen); the invariants are evaluated on EVERY prefix of the recorded directory trace: "+
		"(i) after k snapshot commits at least min(N,k) snapshots on disk are loadable with all their segment files, (ii) a removed segment file is referenced neither by one of the N "+
		"newest loadable snapshots nor by the writer's root at that moment, a removed snapshot is not among the N newest loadable ones, (iii) held readers still answer afterwards, "+
		"(iv) at the end every loaded item was closed exactly once and no descriptor under the directory is open, (v) reopen succeeds at once and a second writer is refused. "+
		"evaluations = trace prefixes checked; non-trivial = distinct prefixes ending in a Remove while >= 1 reader of an older epoch was held")

// ---------------------------------------------------------------------------------------------
// snapshot file parsing (decoder of the repository + CRC check; C12 validates that decoder)

type snapInfo struct {
	ok   bool
	segs []uint64
}

func parseSnapshot(b []byte) snapInfo {
	if len(b) < 4 {
		return snapInfo{}
	}
	body, tail := b[:len(b)-4], b[len(b)-4:]
	if crc32.ChecksumIEEE(body) != binary.BigEndian.Uint32(tail) {
		return snapInfo{}
	}
	s := index.VerifNewSnapshot(0, nil)
	if _, err := s.ReadFrom(bytes.NewReader(body)); err != nil {
		return snapInfo{}
	}
	var si snapInfo
	si.ok = true
	for _, x := range s.VerifSegmentInfo() {
		si.segs = append(si.segs, x.ID)
	}
	return si
}

// ---------------------------------------------------------------------------------------------

type Step struct {
	Kind  string          `json:"kind"` // batch | take | close-reader | second-writer | open-reader | reopen | settle
	Batch *vlib.BatchSpec `json:"batch,omitempty"`
}

type Case struct {
	Conf  vlib.IdxConf `json:"conf"`
	Steps []Step       `json:"steps"`
}

func gen(t *rapid.T) Case {
	c := Case{Conf: vlib.IdxConf{Dir: "fs", SegVer: rapid.SampledFrom([]int{1, 1, 2}).Draw(t, "segVer"),
		Unsafe:    rapid.Bool().Draw(t, "unsafe"),
		Merge:     rapid.SampledFrom([]string{"default", "default", "pairs", "nomem"}).Draw(t, "merge"),
		Retention: rapid.SampledFrom([]int{1, 2, 3}).Draw(t, "retention")}}
	g := vlib.NewHistGen(6)
	n := rapid.IntRange(4, 24).Draw(t, "nSteps")
	for i := 0; i < n; i++ {
		k := rapid.SampledFrom([]string{"batch", "batch", "batch", "batch", "batch", "take", "close-reader", "second-writer", "open-reader", "reopen", "settle"}).Draw(t, "kind")
		s := Step{Kind: k}
		if k == "batch" {
			b := g.Batch(t, 3)
			s.Batch = &b
		}
		c.Steps = append(c.Steps, s)
	}
	return c
}

type rootAt struct {
	stamp int64
	segs  map[uint64]bool
}

type stats struct {
	prefixes, removes, segRemoves, snapRemoves, ntRemoves, secondWriter, openReaders, reopens, openRaced int
	ntKeys                                                                                 []string
}

func fdsUnder(dir string) []string {
	var out []string
	ents, err := os.ReadDir("/proc/self/fd")
	if err != nil {
		return nil
	}
	for _, e := range ents {
		t, err := os.Readlink(filepath.Join("/proc/self/fd", e.Name()))
		if err == nil && strings.HasPrefix(t, dir+"/") {
			out = append(out, t)
		}
	}
	return out
}

func prop(c Case, st *stats) (fail *vlib.Failure) {
	dir := vlib.NewScratchDir("c11")
	defer os.RemoveAll(dir)
	n := c.Conf.Retention
	if n < 1 {
		n = 1
	}
	var mu sync.Mutex
	var roots []rootAt // root segment ids observed at the begin of every remove
	var rr *vlib.RecordedRun
	heldOlder := func() bool { return false }
	var removeWithHeld []int64 // Begin stamps of removes that happened while an older reader was held
	tweak := func(ic index.Config, d *vlib.RecDir) index.Config {
		d.Gate = func(phase string, e *vlib.DirEvent) {
			if phase == "begin" && e.Op == "remove" && rr != nil && rr.X != nil && rr.X.W != nil {
				r, err := rr.X.W.Reader()
				if err == nil {
					segs := map[uint64]bool{}
					for _, s := range r.VerifSnapshot().Segments() {
						segs[s.ID()] = true
					}
					_ = r.Close()
					mu.Lock()
					roots = append(roots, rootAt{stamp: d.Clock.Now(), segs: segs})
					if heldOlder() {
						removeWithHeld = append(removeWithHeld, d.Clock.Now())
					}
					mu.Unlock()
				}
			}
		}
		return ic
	}
	rr0, f := vlib.StartRecordedRun(c.Conf, dir, nil, tweak)
	if f != nil {
		return f
	}
	rr = rr0
	m := vlib.NewModel()
	type heldR struct {
		r     *bluge.Reader
		model *vlib.Model
		epoch uint64
	}
	var held []*heldR
	curEpoch := func() uint64 {
		r, err := rr.X.W.Reader()
		if err != nil {
			return 0
		}
		defer r.Close()
		return r.VerifSnapshot().VerifEpoch()
	}
	heldOlder = func() bool {
		// called under mu from the gate; held is only mutated by the client goroutine between
		// directory operations of its own calls, a stale view only affects classification
		return len(held) > 0
	}
	closed := false
	defer func() {
		for _, h := range held {
			_ = h.r.Close()
		}
		if !closed {
			_ = rr.Finish(false)
		}
	}()
	useHeld := func(site string) *vlib.Failure {
		for _, h := range held {
			h := h
			f := rr.X.TolerateIceV2(site, ev, func() *vlib.Failure {
				var o *vlib.Obs
				var err error
				if rr.X.NoStored() {
					o, err = vlib.ObserveNoStored(h.r, h.model.SortedIDs())
				} else {
					o, err = vlib.Observe(h.r, h.model.SortedIDs())
				}
				if err != nil {
					return vlib.Failf("held-reader-error", "%s: held reader fails: %v", site, err)
				}
				if f := vlib.CompareModel(site+" (held reader)", h.model, o); f != nil {
					f.Key = "held-reader-disturbed:" + f.Key
					return f
				}
				return nil
			})
			if f != nil {
				return f
			}
		}
		return nil
	}
	settle := func() {
		// wait until the persister and merger are idle: no directory operation for a while
		last := rr.Dir.Clock.Now()
		quiet := 0
		for i := 0; i < 400 && quiet < 4; i++ {
			time.Sleep(5 * time.Millisecond)
			now := rr.Dir.Clock.Now()
			if now == last {
				quiet++
			} else {
				quiet, last = 0, now
			}
		}
	}
	for i, s := range c.Steps {
		site := fmt.Sprintf("step %d (%s)", i, s.Kind)
		switch s.Kind {
		case "batch":
			if f := rr.Batch(*s.Batch); f != nil {
				return f
			}
			if e := rr.Rec.CallErr[len(rr.Rec.CallErr)-1]; e != "" {
				return vlib.Failf("batch-error", "%s: %s", site, e)
			}
			m.Apply(*s.Batch)
		case "take":
			if len(held) < 3 {
				r, f := rr.X.Reader()
				if f != nil {
					return f
				}
				held = append(held, &heldR{r: r, model: m.Clone(), epoch: r.VerifSnapshot().VerifEpoch()})
			}
		case "close-reader":
			if len(held) > 0 {
				if err := held[0].r.Close(); err != nil {
					return vlib.Failf("reader-close-error", "%v", err)
				}
				held = held[1:]
			}
		case "second-writer":
			st.secondWriter++
			cfg := c.Conf.Config(dir, nil)
			var w2 *bluge.Writer
			var err error
			if f := vlib.Watchdog("second OpenWriter", vlib.CallBound, func() *vlib.Failure { w2, err = bluge.OpenWriter(cfg); return nil }); f != nil {
				return f
			}
			if err == nil {
				_ = w2.Close()
				return vlib.Failf("second-writer-admitted", "%s: a second writer opened the locked directory", site)
			}
			// the first writer must be unharmed
			if f := rr.X.CheckModel(site+": first writer after refused second writer", m, ev); f != nil {
				return f
			}
		case "open-reader":
			if len(m.Docs) == 0 {
				continue
			}
			st.openReaders++
			// a read-only open from a second configuration while the writer may be cleaning up
			d2 := vlib.NewRecDir(dir, nil)
			cfg := c.Conf.Config(dir, func(ic index.Config, base func() index.Directory) index.Config {
				ic.DirectoryFunc = func() index.Directory { return d2 }
				return ic
			})
			var r2 *bluge.Reader
			var err error
			// OpenReader lists the snapshots and then loads the newest one: when clean-up removes it
			// in between (retention 1) the open fails although the directory was never without a
			// loadable snapshot.  The property promises nothing for a reader that is still being
			// opened, so a failed open is repeated (and counted); only a persistent failure is judged.
			for attempt := 0; attempt < 4; attempt++ {
				if f := vlib.Watchdog("OpenReader", vlib.CallBound, func() *vlib.Failure { r2, err = bluge.OpenReader(cfg); return nil }); f != nil {
					return f
				}
				if err == nil {
					break
				}
				st.openRaced++
				if op, cl, dbl := d2.OpenHandles(); op != cl || dbl != 0 {
					return vlib.Failf("reader-handle-leak", "%s: failed read-only open (err=%v) loaded %d items, closed %d once, %d more than once", site, err, op, cl, dbl)
				}
			}
			if err == nil {
				var o *vlib.Obs
				if rr.X.NoStored() {
					o, err = vlib.ObserveNoStored(r2, m.SortedIDs())
				} else {
					o, err = vlib.Observe(r2, m.SortedIDs())
				}
				_ = r2.Close()
				if err != nil {
					return vlib.Failf("open-reader-unusable", "%s: %v", site, err)
				}
				if p, why := vlib.MatchState(m.States, o.Keys(), 0, len(m.States)-1); why != "" {
					return vlib.Failf("open-reader-not-prefix", "%s: read-only open shows %v which is no state of the history (%s, p=%d)", site, o.Keys(), why, p)
				}
			} else if !c.Conf.Unsafe {
				// in safe mode at least the snapshot of the last acknowledged batch exists and is
				// retained until a newer one is complete
				return vlib.Failf("open-reader-failed", "%s: OpenReader fails while the writer runs: %v", site, err)
			}
			op, cl, dbl := d2.OpenHandles()
			if op != cl || dbl != 0 {
				return vlib.Failf("reader-handle-leak", "%s: read-only open (err=%v) loaded %d items, closed %d once, %d more than once", site, err, op, cl, dbl)
			}
		case "reopen":
			if len(held) > 0 {
				continue // Close with held readers is C04's subject; here pairing is checked per writer life
			}
			st.reopens++
			if f := rr.Reopen(); f != nil {
				if f.Key == "open-writer-error" {
					f.Key = "reopen-failed"
				}
				return f
			}
			if f := rr.X.CheckModel(site, m, ev); f != nil {
				return f
			}
		case "settle":
			settle()
		}
		if f := useHeld(site); f != nil {
			return f
		}
	}
	_ = curEpoch
	if f := useHeld("before close"); f != nil {
		return f
	}
	for _, h := range held {
		if err := h.r.Close(); err != nil {
			return vlib.Failf("reader-close-error", "%v", err)
		}
	}
	held = nil
	closed = true
	if f := rr.Finish(true); f != nil {
		return f
	}
	// (iv) pairing of loads and closes, descriptors
	op, cl, dbl := rr.Dir.OpenHandles()
	if op != cl || dbl != 0 {
		return vlib.Failf("handle-pairing", "after all readers and the writer were closed: %d items loaded, %d closed once, %d closed more than once", op, cl, dbl)
	}
	if fds := fdsUnder(dir); len(fds) > 0 {
		return vlib.Failf("descriptor-leak", "descriptors still open under the index directory after Close: %v", fds)
	}
	// (v) the lock is released: reopen at once
	if len(m.Docs) > 0 {
		x2, f := vlib.OpenIdx(c.Conf, dir, nil)
		if f != nil {
			f.Key = "reopen-failed"
			return f
		}
		f = x2.CheckModel("reopened after Close", m, ev)
		if f2 := x2.Close(); f == nil {
			f = f2
		}
		if f != nil {
			return f
		}
	}
	// (i) (ii): every prefix of the trace
	return checkTrace(rr.Rec.Trace, rr.Rec.Blobs, n, roots, removeWithHeld, st)
}

func checkTrace(trace []*vlib.DirEvent, blobs map[string][]byte, n int, roots []rootAt, removeWithHeld []int64, st *stats) *vlib.Failure {
	parsed := map[string]snapInfo{}
	info := func(h string) snapInfo {
		if si, ok := parsed[h]; ok {
			return si
		}
		si := parseSnapshot(blobs[h])
		parsed[h] = si
		return si
	}
	loadable := func(files map[string]string) (names []string, segsOf map[string][]uint64) {
		segsOf = map[string][]uint64{}
		for name, h := range files {
			if !strings.HasSuffix(name, index.ItemKindSnapshot) {
				continue
			}
			si := info(h)
			if !si.ok {
				continue
			}
			all := true
			for _, s := range si.segs {
				if _, ok := files[vlib.FileName(index.ItemKindSegment, s)]; !ok {
					all = false
					break
				}
			}
			if all {
				names = append(names, name)
				segsOf[name] = si.segs
			}
		}
		sort.Sort(sort.Reverse(sort.StringSlice(names))) // newest epoch first (fixed-width hex names)
		return
	}
	commits := 0
	var prev map[string]string
	held := map[int64]bool{}
	for _, s := range removeWithHeld {
		held[s] = true
	}
	ri := 0
	for i, e := range trace {
		if e.After == nil {
			continue
		}
		if e.Op == "setup" {
			if prev == nil {
				prev = e.After
			}
			continue
		}
		st.prefixes++
		if e.Op == "persist" && e.Kind == index.ItemKindSnapshot && e.Err == "" {
			commits++
		}
		// (ii) judged on the content BEFORE the removal
		if e.Op == "remove" && e.Err == "" && prev != nil {
			st.removes++
			names, segsOf := loadable(prev)
			if len(names) > n {
				names = names[:n]
			}
			if e.Kind == index.ItemKindSegment {
				st.segRemoves++
				for _, sn := range names {
					for _, s := range segsOf[sn] {
						if s == e.ID {
							return vlib.Failf("needed-segment-removed", "trace prefix %d: segment %s removed while retained snapshot %s (one of the %d newest loadable) lists it", i, e.Name, sn, n)
						}
					}
				}
				// the writer's root at that moment
				for ri < len(roots) && roots[ri].stamp < e.Begin-2 {
					ri++
				}
				for k := ri; k < len(roots) && roots[k].stamp <= e.Begin; k++ {
					if roots[k].segs[e.ID] {
						return vlib.Failf("live-segment-removed", "trace prefix %d: segment %s removed while the writer's root refers to it", i, e.Name)
					}
				}
			} else {
				st.snapRemoves++
				for _, sn := range names {
					if sn == e.Name {
						// removing one of the N newest loadable snapshots is only legal when more than N remain loadable afterwards
						after, _ := loadable(e.After)
						if len(after) < n && len(after) < commits {
							return vlib.Failf("retained-snapshot-removed", "trace prefix %d: snapshot %s removed although it was among the %d newest loadable ones; %d remain", i, e.Name, n, len(after))
						}
					}
				}
			}
			nt := false
			for b := e.Begin - 3; b <= e.Begin; b++ {
				if held[b] {
					nt = true
				}
			}
			if nt {
				st.ntRemoves++
				st.ntKeys = append(st.ntKeys, fmt.Sprintf("%d|%s", i, e.Name))
			}
		}
		// (i) after this operation
		want := commits
		if want > n {
			want = n
		}
		names, _ := loadable(e.After)
		if len(names) < want {
			return vlib.Failf("too-few-loadable-snapshots", "trace prefix %d (after %s %s): %d snapshot commits so far, retention %d, but only %d loadable snapshots with all segment files on disk: %v; files %v",
				i, e.Op, e.Name, commits, n, len(names), names, vlib.SortedNames(e.After))
		}
		prev = e.After
	}
	return nil
}

func TestC11Trace(t *testing.T) {
	vlib.Check(t, 40, 400, func(rt *rapid.T) {
		c := gen(rt)
		var st stats
		f := vlib.Guard("run", func() *vlib.Failure { return prop(c, &st) })
		cls := []string{fmt.Sprintf("retention:%d", c.Conf.Retention), "merge:" + c.Conf.Merge, "runs"}
		if c.Conf.Unsafe {
			cls = append(cls, "unsafe")
		} else {
			cls = append(cls, "safe")
		}
		canon := vlib.Canon(c)
		ev.Case(canon, false, cls...)
		if st.prefixes > 1 {
			ev.Evals(st.prefixes - 1)
		}
		for _, k := range st.ntKeys {
			ev.NonTrivial(canon + "|" + k)
		}
		ev.AddExtra("trace_prefixes_checked", st.prefixes)
		ev.AddExtra("removes_checked", st.removes)
		ev.AddExtra("segment_removes", st.segRemoves)
		ev.AddExtra("snapshot_removes", st.snapRemoves)
		ev.AddExtra("removes_with_older_reader_held", st.ntRemoves)
		ev.AddExtra("second_writer_attempts", st.secondWriter)
		ev.AddExtra("readonly_opens_while_writer_runs", st.openReaders)
		ev.AddExtra("reopens", st.reopens)
		ev.AddExtra("readonly_opens_that_raced_cleanup_and_were_repeated", st.openRaced)
		if len(c.Steps) <= 8 {
			ev.Sample(map[string]interface{}{"case": c, "prefixes": st.prefixes, "removes": st.removes}, st.ntRemoves > 0)
		}
		vlib.Report(rt, ev, "trace", c, f)
	})
}

var replayFns = map[string]vlib.ReplayFn{
	"race": func(raw json.RawMessage) *vlib.Failure {
		var c RaceCase
		if f := vlib.Decode(raw, &c); f != nil {
			return f
		}
		parked := false
		return propRace(c, &parked)
	},
	"trace": func(raw json.RawMessage) *vlib.Failure {
		var c Case
		if f := vlib.Decode(raw, &c); f != nil {
			return f
		}
		var st stats
		return prop(c, &st)
	},
}

func TestReplay(t *testing.T)  { vlib.ReplayMain(t, ev, replayFns) }
func TestRegress(t *testing.T) { vlib.RegressMain(t, ev, replayFns) }
