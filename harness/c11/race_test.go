package c11

import (
	"fmt"
	"os"
	"strings"
	"testing"
	"time"

	"github.com/blugelabs/bluge"
	"github.com/blugelabs/bluge/index"
	"pgregory.net/rapid"

	"verifharness/vlib"
)

// RaceCase: a read-only open is parked between two of its segment loads while the writer
// supersedes and cleans up the snapshot it is loading.
type RaceCase struct {
	SegVer    int `json:"seg_ver"`
	Segments  int `json:"segments"`   // segments listed by the snapshot the reader starts to load (2..4)
	ParkAt    int `json:"park_at"`    // the reader is parked before loading its ParkAt-th segment (1-based, >= 2)
	Retention int `json:"retention"`  // 1..2
	Extra     int `json:"extra"`      // further superseding batches
}

func genRace(t *rapid.T) RaceCase {
	c := RaceCase{SegVer: rapid.SampledFrom([]int{1, 2}).Draw(t, "segVer"), Segments: rapid.IntRange(2, 4).Draw(t, "segments"),
		Retention: rapid.IntRange(1, 2).Draw(t, "retention"), Extra: rapid.IntRange(0, 2).Draw(t, "extra")}
	c.ParkAt = rapid.IntRange(2, c.Segments).Draw(t, "parkAt")
	return c
}

func propRace(c RaceCase, parked *bool) (fail *vlib.Failure) {
	dir := vlib.NewScratchDir("c11r")
	defer os.RemoveAll(dir)
	conf := vlib.IdxConf{Dir: "fs", SegVer: c.SegVer, Merge: "none", Retention: c.Retention}
	x, f := vlib.OpenIdx(conf, dir, nil)
	if f != nil {
		return f
	}
	defer x.Destroy()
	m := vlib.NewModel()
	ver := 0
	write := func(ids ...string) *vlib.Failure {
		var b vlib.BatchSpec
		for _, id := range ids {
			ver++
			b.Ops = append(b.Ops, vlib.Op{Kind: "update", ID: id, Doc: &vlib.DocSpec{ID: id, Ver: ver, T: []string{"alpha"}}})
		}
		if f := x.Batch(b); f != nil {
			return f
		}
		m.Apply(b)
		return nil
	}
	var ids []string
	for i := 0; i < c.Segments; i++ {
		id := fmt.Sprintf("s%d", i)
		ids = append(ids, id)
		if f := write(id); f != nil {
			return f
		}
	}
	// the racing reader: its own directory instance, gated at its segment loads
	gates := vlib.NewGates()
	d2 := vlib.NewRecDir(dir, nil)
	loads := 0
	d2.Gate = func(phase string, e *vlib.DirEvent) {
		if phase == "begin" && e.Op == "load" && e.Kind == index.ItemKindSegment {
			loads++
			if loads == c.ParkAt {
				gates.Arrive("reader:load")
			}
		}
	}
	gates.Hold("reader:load")
	cfg := conf.Config(dir, func(ic index.Config, base func() index.Directory) index.Config {
		ic.DirectoryFunc = func() index.Directory { return d2 }
		return ic
	})
	type res struct {
		r   *bluge.Reader
		err error
	}
	done := make(chan res, 1)
	go func() {
		r, err := bluge.OpenReader(cfg)
		done <- res{r, err}
	}()
	p := gates.WaitParked("reader:load", 2*time.Second)
	*parked = p != nil
	// supersede every segment the reader is loading and let the writer clean up
	for k := 0; k <= c.Extra+c.Retention; k++ {
		if f := write(ids...); f != nil {
			gates.OpenAll()
			return f
		}
		time.Sleep(10 * time.Millisecond)
	}
	time.Sleep(30 * time.Millisecond)
	gates.OpenAll()
	var rs res
	select {
	case rs = <-done:
	case <-time.After(vlib.CallBound):
		return vlib.Failf("hang@OpenReader", "racing OpenReader did not return")
	}
	if rs.err == nil {
		o, err := vlib.Observe(rs.r, m.SortedIDs())
		_ = rs.r.Close()
		if err != nil {
			return vlib.Failf("open-reader-unusable", "racing reader opened but fails: %v", err)
		}
		if _, why := vlib.MatchState(m.States, o.Keys(), 0, len(m.States)-1); why != "" {
			return vlib.Failf("open-reader-not-prefix", "racing reader shows %v: %s", o.Keys(), why)
		}
	}
	op, cl, dbl := d2.OpenHandles()
	if op != cl || dbl != 0 {
		return vlib.Failf("reader-handle-leak", "read-only open that raced with clean-up (result: err=%v) loaded %d items but closed only %d (%d closed twice): the handles of the segments it had already loaded when a later segment was gone are never released; descriptors still open: %v",
			rs.err, op, cl, dbl, fdsUnder(dir))
	}
	if f := x.Close(); f != nil {
		return f
	}
	if fds := fdsUnder(dir); len(fds) > 0 {
		return vlib.Failf("descriptor-leak", "descriptors still open under the index directory: %v", fds)
	}
	return nil
}

func TestC11ReaderRacesCleanup(t *testing.T) {
	vlib.Check(t, 15, 150, func(rt *rapid.T) {
		c := genRace(rt)
		parked := false
		f := vlib.Guard("race", func() *vlib.Failure { return propRace(c, &parked) })
		cls := []string{"reader-races-cleanup"}
		if parked {
			cls = append(cls, "reader-parked-between-segment-loads")
		}
		ev.Case(vlib.Canon(c), parked, cls...)
		ev.Sample(map[string]interface{}{"kind": "reader-races-cleanup", "case": c}, parked)
		vlib.Report(rt, ev, "race", c, f)
	})
}

var _ = strings.Contains
