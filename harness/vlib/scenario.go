package vlib

import (
	"time"

	"github.com/blugelabs/bluge/index"
)

// WindowScenario drives a background step of the writer to a hold point, lets batches land
// while it is parked there, then lets everything run to completion.  It is the recorded-run
// counterpart of the gate scenarios of C04/C06, used by the crash-image checks so that crash
// points INSIDE such a window (in-memory merge being written, file merge about to be
// introduced, snapshot write pending) are enumerated as well.
type WindowScenario struct {
	Hold   string      `json:"hold"`   // "persister:merge" (in-memory merge), "merger:merge", "merger:ev7", "persister:persist.snp:begin", "persister:load.seg:end"
	Seed   []BatchSpec `json:"seed"`   // applied before / while driving to the hold point
	Window []BatchSpec `json:"window"` // applied while the step is parked
	After  []BatchSpec `json:"after"`  // applied after all gates were opened
}

// RunWindowScenario executes the scenario on rr (already started with gates installed through
// the returned tweak of NewWindowGates).  It returns whether the hold point was reached.
func RunWindowScenario(rr *RecordedRun, gates *Gates, sc WindowScenario, apply func(BatchSpec) *Failure) (parked bool, f *Failure) {
	var pk *Parked
	if sc.Hold == "persister:merge" {
		// an in-memory merge needs >= 2 unpersisted segments in the snapshot the persister picks
		// up: keep it at its first segment write until the whole seed is applied
		gates.Hold("persister:persist.seg:begin")
		gates.Hold(sc.Hold)
		for _, b := range sc.Seed {
			if f := apply(b); f != nil {
				return false, f
			}
		}
		p0 := gates.WaitParked("persister:persist.seg:begin", 300*time.Millisecond)
		gates.Unhold("persister:persist.seg:begin")
		if p0 != nil {
			gates.Release(p0)
		}
		pk = gates.WaitParked(sc.Hold, 500*time.Millisecond)
	} else {
		gates.Hold(sc.Hold)
		for _, b := range sc.Seed {
			if f := apply(b); f != nil {
				return false, f
			}
			if pk == nil {
				pk = gates.WaitParked(sc.Hold, 30*time.Millisecond)
			}
		}
		if pk == nil {
			pk = gates.WaitParked(sc.Hold, 300*time.Millisecond)
		}
	}
	for _, b := range sc.Window {
		if f := apply(b); f != nil {
			return pk != nil, f
		}
	}
	gates.OpenAll()
	for _, b := range sc.After {
		if f := apply(b); f != nil {
			return pk != nil, f
		}
	}
	gates.WaitStable(20*time.Millisecond, 3*time.Second)
	return pk != nil, nil
}

// WindowTweak returns the configuration tweak that installs gates on a recorded run.
func WindowTweak(gates *Gates) func(ic index.Config, d *RecDir) index.Config {
	return func(ic index.Config, d *RecDir) index.Config { return gates.Install(ic, d, false) }
}

// WindowHolds lists the hold points a WindowScenario may use.
var WindowHolds = []string{"persister:merge", "persister:merge", "persister:merge", "merger:merge", "merger:ev7", "persister:persist.snp:begin", "persister:load.seg:end", "merger:persist.seg:end"}
