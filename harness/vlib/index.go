package vlib

import (
	"fmt"
	"os"
	"sync"
	"time"

	"github.com/blugelabs/bluge"
	"github.com/blugelabs/bluge/index"
)

// Idx wraps a writer on a generated configuration together with the model it must follow.
type Idx struct {
	Conf   IdxConf
	Path   string
	Wrap   func(ic index.Config, base func() index.Directory) index.Config
	W      *bluge.Writer
	cfg    bluge.Config
	mu     sync.Mutex
	lastCB chan error // persisted-callback of the last unsafe batch
}

// CallBound is the liveness bound for a single client call (normal: milliseconds).
const CallBound = 60 * time.Second

// OpenIdx opens a writer.
func OpenIdx(conf IdxConf, path string, wrap func(ic index.Config, base func() index.Directory) index.Config) (*Idx, *Failure) {
	x := &Idx{Conf: conf, Path: path, Wrap: wrap}
	if f := x.open(); f != nil {
		return nil, f
	}
	return x, nil
}

func (x *Idx) open() *Failure {
	x.cfg = x.Conf.Config(x.Path, x.Wrap)
	var err error
	f := Watchdog("OpenWriter", CallBound, func() *Failure {
		x.W, err = bluge.OpenWriter(x.cfg)
		return nil
	})
	if f != nil {
		return f
	}
	if err != nil {
		return Failf("open-writer-error", "OpenWriter: %v", err)
	}
	return nil
}

// Config returns the configuration in use (for OpenReader).
func (x *Idx) Config() bluge.Config { return x.cfg }

// Batch applies one batch.  In unsafe mode a persisted-callback is attached and remembered so
// that WaitPersisted can wait for durability.
func (x *Idx) Batch(b BatchSpec) *Failure {
	batch := BuildBatch(b)
	var cb chan error
	if x.Conf.Unsafe {
		cb = make(chan error, 1)
		batch.SetPersistedCallback(func(err error) { cb <- err })
	}
	var err error
	f := Watchdog("Batch", CallBound, func() *Failure {
		err = x.W.Batch(batch)
		return nil
	})
	if f != nil {
		return f
	}
	if err != nil {
		return Failf("batch-error", "Batch returned %v", err)
	}
	if cb != nil {
		x.mu.Lock()
		x.lastCB = cb
		x.mu.Unlock()
	}
	return nil
}

// WaitPersisted waits until the last unsafe batch has been reported persisted.
func (x *Idx) WaitPersisted() *Failure {
	x.mu.Lock()
	cb := x.lastCB
	x.lastCB = nil
	x.mu.Unlock()
	if cb == nil {
		return nil
	}
	select {
	case err := <-cb:
		if err != nil {
			return Failf("persist-callback-error", "persisted callback reported %v", err)
		}
		return nil
	case <-time.After(CallBound):
		return Failf("hang@persisted-callback", "persisted callback of the last unsafe batch not invoked within %v", CallBound)
	}
}

// NoStored reports whether observations made while this writer is open must not load stored
// fields: with segment version 2 a stored-field read that races with a background merge of the
// same segment makes the MERGE copy garbage into the new segment (ice/v2 keeps one stored-field
// decompression buffer per segment, shared by searches and by the merge's document copy), i.e.
// the harness's own read would corrupt the index.  That class (segment version 2 x merging
// enabled x stored-field reads while the writer runs) is excluded by construction and shown by
// the dedicated C15 probe instead.
func (x *Idx) NoStored() bool { return x.Conf.SegVer == 2 && x.Conf.Merge != "none" }

// Reader takes a near-real-time reader.
func (x *Idx) Reader() (*bluge.Reader, *Failure) {
	r, err := x.W.Reader()
	if err != nil {
		return nil, Failf("reader-error", "Writer.Reader: %v", err)
	}
	return r, nil
}

// ObserveNow takes a reader, observes, closes it.
func (x *Idx) ObserveNow(ids []string) (*Obs, *Failure) {
	r, f := x.Reader()
	if f != nil {
		return nil, f
	}
	defer r.Close()
	var o *Obs
	var err error
	if f := Watchdog("observe", CallBound, func() *Failure {
		if x.NoStored() {
			o, err = ObserveNoStored(r, ids)
		} else {
			o, err = Observe(r, ids)
		}
		return nil
	}); f != nil {
		return nil, f
	}
	if err != nil {
		return nil, Failf("observe-error", "%v", err)
	}
	return o, nil
}

// Close closes the writer (bounded).
func (x *Idx) Close() *Failure {
	if x.W == nil {
		return nil
	}
	var err error
	f := Watchdog("Writer.Close", CallBound, func() *Failure { err = x.W.Close(); return nil })
	x.W = nil
	if f != nil {
		return f
	}
	if err != nil {
		return Failf("close-error", "Writer.Close: %v", err)
	}
	return nil
}

// Reopen closes the writer and opens it again on the same directory.
func (x *Idx) Reopen() *Failure {
	if f := x.WaitPersisted(); f != nil {
		return f
	}
	if f := x.Close(); f != nil {
		return f
	}
	return x.open()
}

// OpenReaderObserve opens the directory read-only, observes and closes.
func (x *Idx) OpenReaderObserve(ids []string) (*Obs, *Failure) {
	var r *bluge.Reader
	var err error
	if f := Watchdog("OpenReader", CallBound, func() *Failure { r, err = bluge.OpenReader(x.cfg); return nil }); f != nil {
		return nil, f
	}
	if err != nil {
		return nil, Failf("open-reader-error", "OpenReader: %v", err)
	}
	defer r.Close()
	o, err := Observe(r, ids)
	if err != nil {
		return nil, Failf("observe-error", "%v", err)
	}
	return o, nil
}

// Destroy removes the directory.
func (x *Idx) Destroy() {
	if x.W != nil {
		_ = x.Close()
	}
	if x.Path != "" {
		_ = os.RemoveAll(x.Path)
	}
}

var _ = fmt.Sprint

// IceV2RaceKey is the key of the third-party finding: the ice/v2 segment keeps one
// decompression buffer per segment for stored fields (read.go storedFieldChunkUncompressed),
// written by every stored-field read, so a stored-field load racing with a background merge of
// the same segment (or with another search) transiently returns garbage or a zstd error
// ("CRC check failed").  Segment version 1 is unaffected.
const IceV2RaceKey = "icev2-stored-field-cache-race"

// CheckModel observes through a fresh reader and compares with the model.  With segment
// version 2 and merging enabled a failing observation is repeated: the ice/v2 race is
// transient, so an observation that succeeds on retry is counted as the listed third-party
// finding, while a persistent mismatch is reported as it is.
func (x *Idx) CheckModel(site string, m *Model, ev *Evidence) *Failure {
	return x.checkWith(site, ev, func() *Failure {
		o, f := x.ObserveNow(m.SortedIDs())
		if f != nil {
			return f
		}
		return CompareModel(site, m, o)
	})
}

func (x *Idx) checkWith(site string, ev *Evidence, once func() *Failure) *Failure {
	f := once()
	if f == nil || x.Conf.SegVer != 2 {
		return f
	}
	if _, known := IsKnown(ev.Property, IceV2RaceKey); !known {
		return f
	}
	for i := 0; i < 3; i++ {
		time.Sleep(20 * time.Millisecond)
		if f2 := once(); f2 == nil {
			ev.Known(IceV2RaceKey, "transient stored-field read failure on an ice/v2 segment: "+oneLine(f.Msg))
			return nil
		}
	}
	return f
}

// TolerateIceV2 runs an arbitrary observation with the same retry rule as CheckModel.
func (x *Idx) TolerateIceV2(site string, ev *Evidence, once func() *Failure) *Failure {
	return x.checkWith(site, ev, once)
}
