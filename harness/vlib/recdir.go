package vlib

import (
	"crypto/sha1"
	"encoding/hex"
	"errors"
	"fmt"
	"io"
	"os"
	"path/filepath"
	"sort"
	"sync"
	"sync/atomic"

	"github.com/blugelabs/bluge/index"
	segment "github.com/blugelabs/bluge_segment_api"
)

// Clock is the global sequence counter that orders directory operations, client calls and
// acknowledgements of one run.
type Clock struct{ n int64 }

// Tick returns the next stamp.
func (c *Clock) Tick() int64 { return atomic.AddInt64(&c.n, 1) }

// Now returns the last stamp handed out.
func (c *Clock) Now() int64 { return atomic.LoadInt64(&c.n) }

// DirEvent is one recorded directory operation.
type DirEvent struct {
	Begin, End int64
	Op         string // setup lock unlock list load persist remove sync
	Kind       string // item kind (".snp" / ".seg")
	ID         uint64
	Name       string            // file name of the item
	Data       []byte            // persist: bytes the WriterTo wrote (possibly partial on failure)
	Err        string            // error returned to bluge ("" = success)
	Injected   bool              // the error was injected by the harness
	After      map[string]string // mutating ops: file name -> content hash after the operation
	Goroutine  string            // "client" or "background" (by registration)
}

// Mutating reports whether the event can change the directory content.
func (e *DirEvent) Mutating() bool { return e.Op == "persist" || e.Op == "remove" }

// Fault decides whether an operation fails.  It is consulted under the directory mutex.
type Fault struct {
	// Match selects the operation (op, kind, id, ordinal number of this op kind, global ordinal of mutating+load ops).
	Match func(op, kind string, id uint64, seq int) bool
	// Place: "before" (fail before any byte / before the call), "partial" (persist: fail after
	// Bytes bytes were written), "after" (persist: fail after the last byte was written, before
	// sync/close; other ops: perform the call, then report failure).
	Place string
	Bytes int
	Err   error
}

// RecDir wraps a directory: serialises and records its operations, keeps the bytes of every
// file version in a content-addressed store, and offers gate and fault seams.
type RecDir struct {
	Inner index.Directory
	Path  string // directory of the inner FileSystemDirectory ("" for others)
	Clock *Clock

	mu     sync.Mutex
	Events []*DirEvent
	Blobs  map[string][]byte
	opSeq  int

	// Gate, if set, is called before (phase "begin") and after (phase "end") every operation,
	// outside the directory mutex for "begin" so that a parked operation does not block others.
	Gate func(phase string, e *DirEvent)
	// Faults are consulted in order for every operation.
	FaultFn func(op, kind string, id uint64, seq int) *Fault

	closers      int64
	closed       int64
	doubleClosed int64
	CloseLog  []string
	closeLogM sync.Mutex
}

// NewRecDir wraps a FileSystemDirectory at path.
func NewRecDir(path string, clock *Clock) *RecDir {
	if clock == nil {
		clock = &Clock{}
	}
	return &RecDir{Inner: index.NewFileSystemDirectory(path), Path: path, Clock: clock, Blobs: map[string][]byte{}}
}

func fileName(kind string, id uint64) string { return fmt.Sprintf("%012x", id) + kind }

// FileName is the name the file-system directory gives an item.
func FileName(kind string, id uint64) string { return fileName(kind, id) }

func hashBytes(b []byte) string {
	h := sha1.Sum(b)
	return hex.EncodeToString(h[:8])
}

// Snapshot reads the directory content from disk (file name -> hash), storing blobs.
func (d *RecDir) listing() map[string]string {
	out := map[string]string{}
	if d.Path == "" {
		return out
	}
	ents, err := os.ReadDir(d.Path)
	if err != nil {
		return out
	}
	for _, e := range ents {
		if e.IsDir() {
			continue
		}
		b, err := os.ReadFile(filepath.Join(d.Path, e.Name()))
		if err != nil {
			continue
		}
		h := hashBytes(b)
		if _, ok := d.Blobs[h]; !ok {
			d.Blobs[h] = b
		}
		out[e.Name()] = h
	}
	return out
}

// Listing returns the current directory content (name -> hash).
func (d *RecDir) Listing() map[string]string {
	d.mu.Lock()
	defer d.mu.Unlock()
	return d.listing()
}

func (d *RecDir) begin(op, kind string, id uint64) (*DirEvent, *Fault) {
	e := &DirEvent{Op: op, Kind: kind, ID: id}
	if kind != "" {
		e.Name = fileName(kind, id)
	}
	if d.Gate != nil {
		d.Gate("begin", e)
	}
	d.mu.Lock()
	e.Begin = d.Clock.Tick()
	d.opSeq++
	var f *Fault
	if d.FaultFn != nil {
		f = d.FaultFn(op, kind, id, d.opSeq)
	}
	return e, f
}

func (d *RecDir) end(e *DirEvent, err error, injected bool) {
	if err != nil {
		e.Err = err.Error()
	}
	e.Injected = injected
	if e.Mutating() {
		e.After = d.listing()
	}
	e.End = d.Clock.Tick()
	d.Events = append(d.Events, e)
	d.mu.Unlock()
	if d.Gate != nil {
		d.Gate("end", e)
	}
}

func (d *RecDir) Setup(readOnly bool) error {
	e, f := d.begin("setup", "", 0)
	if f != nil && f.Place == "before" {
		d.end(e, f.Err, true)
		return f.Err
	}
	err := d.Inner.Setup(readOnly)
	// record the initial content as the "after" of setup so that image 0 is well defined
	e.After = d.listing()
	d.end(e, err, false)
	return err
}

func (d *RecDir) List(kind string) ([]uint64, error) {
	e, f := d.begin("list", kind, 0)
	if f != nil {
		d.end(e, f.Err, true)
		return nil, f.Err
	}
	ids, err := d.Inner.List(kind)
	d.end(e, err, false)
	return ids, err
}

type countingCloser struct {
	d    *RecDir
	c    io.Closer
	name string
	n    int32
}

func (c *countingCloser) Close() error {
	k := atomic.AddInt32(&c.n, 1)
	c.d.closeLogM.Lock()
	c.d.CloseLog = append(c.d.CloseLog, fmt.Sprintf("close %s #%d", c.name, k))
	c.d.closeLogM.Unlock()
	if k == 1 {
		atomic.AddInt64(&c.d.closed, 1)
	} else {
		atomic.AddInt64(&c.d.doubleClosed, 1)
	}
	if c.c != nil {
		return c.c.Close()
	}
	return nil
}

func (d *RecDir) Load(kind string, id uint64) (*segment.Data, io.Closer, error) {
	e, f := d.begin("load", kind, id)
	if f != nil {
		d.end(e, f.Err, true)
		return nil, nil, f.Err
	}
	data, closer, err := d.Inner.Load(kind, id)
	if err == nil {
		atomic.AddInt64(&d.closers, 1)
		closer = &countingCloser{d: d, c: closer, name: e.Name}
	}
	d.end(e, err, false)
	return data, closer, err
}

// OpenHandles returns (#closers handed out, #closed once, #closed more than once).
func (d *RecDir) OpenHandles() (opened, closed, double int64) {
	return atomic.LoadInt64(&d.closers), atomic.LoadInt64(&d.closed), atomic.LoadInt64(&d.doubleClosed)
}

// ErrInjected is the default injected error.
var ErrInjected = errors.New("verif: injected I/O error")

type teeWriterTo struct {
	w      index.WriterTo
	buf    []byte
	failAt int // -1: never; otherwise fail when this many bytes have been written
	err    error
	failed bool
}

type teeWriter struct {
	t *teeWriterTo
	w io.Writer
}

func (tw *teeWriter) Write(p []byte) (int, error) {
	t := tw.t
	if t.failAt >= 0 && len(t.buf)+len(p) > t.failAt {
		k := t.failAt - len(t.buf)
		if k < 0 {
			k = 0
		}
		n, err := tw.w.Write(p[:k])
		t.buf = append(t.buf, p[:n]...)
		if err == nil {
			err = t.err
			t.failed = true
		}
		return n, err
	}
	n, err := tw.w.Write(p)
	t.buf = append(t.buf, p[:n]...)
	return n, err
}

func (t *teeWriterTo) WriteTo(w io.Writer, closeCh chan struct{}) (int64, error) {
	n, err := t.w.WriteTo(&teeWriter{t: t, w: w}, closeCh)
	if err == nil && t.failAt >= 0 && !t.failed {
		// "after the last byte": the write completed, report failure before sync/close
		t.failed = true
		return n, t.err
	}
	return n, err
}

func (d *RecDir) Persist(kind string, id uint64, w index.WriterTo, closeCh chan struct{}) error {
	e, f := d.begin("persist", kind, id)
	if f != nil && f.Place == "before" {
		d.end(e, f.Err, true)
		return f.Err
	}
	t := &teeWriterTo{w: w, failAt: -1}
	if f != nil {
		t.err = f.Err
		switch f.Place {
		case "partial":
			t.failAt = f.Bytes
		case "after":
			t.failAt = 1 << 40
		}
	}
	err := d.Inner.Persist(kind, id, t, closeCh)
	e.Data = t.buf
	d.end(e, err, t.failed)
	return err
}

func (d *RecDir) Remove(kind string, id uint64) error {
	e, f := d.begin("remove", kind, id)
	if f != nil && f.Place == "before" {
		d.end(e, f.Err, true)
		return f.Err
	}
	err := d.Inner.Remove(kind, id)
	if f != nil && err == nil {
		d.end(e, f.Err, true)
		return f.Err
	}
	d.end(e, err, false)
	return err
}

func (d *RecDir) Stats() (uint64, uint64) { return d.Inner.Stats() }

func (d *RecDir) Sync() error {
	e, _ := d.begin("sync", "", 0)
	err := d.Inner.Sync()
	d.end(e, err, false)
	return err
}

func (d *RecDir) Lock() error {
	e, _ := d.begin("lock", "", 0)
	err := d.Inner.Lock()
	d.end(e, err, false)
	return err
}

func (d *RecDir) Unlock() error {
	e, _ := d.begin("unlock", "", 0)
	err := d.Inner.Unlock()
	d.end(e, err, false)
	return err
}

// Trace returns a copy of the recorded events (call when the writer is closed or quiescent).
func (d *RecDir) Trace() []*DirEvent {
	d.mu.Lock()
	defer d.mu.Unlock()
	return append([]*DirEvent(nil), d.Events...)
}

// SortedNames lists the names of a listing.
func SortedNames(l map[string]string) []string {
	r := make([]string, 0, len(l))
	for n := range l {
		r = append(r, n)
	}
	sort.Strings(r)
	return r
}
