package vlib

import (
	"io"
	"log"
	"sync"
	"time"

	"github.com/blugelabs/bluge/index"
)

func init() {
	// bluge reports unloadable snapshots with log.Printf; crash images produce thousands of them
	log.SetOutput(io.Discard)
}

// RecordedRun executes batches one after the other on a writer whose directory is wrapped by a
// RecDir, recording call and acknowledgement stamps.
type RecordedRun struct {
	Conf IdxConf
	Path string
	Dir  *RecDir
	X    *Idx
	Rec  *RunRecord
	mu   sync.Mutex
	// AsyncErrs collects errors reported through index.Config.AsyncError
	AsyncErrs []string
	pending   sync.WaitGroup
}

// StartRecordedRun opens the writer.  tweak may adjust the index configuration further (event
// callback, gates).
func StartRecordedRun(conf IdxConf, path string, clock *Clock, tweak func(ic index.Config, d *RecDir) index.Config) (*RecordedRun, *Failure) {
	conf.Dir = "fs"
	rr := &RecordedRun{Conf: conf, Path: path, Rec: &RunRecord{}}
	rr.Dir = NewRecDir(path, clock)
	wrap := func(ic index.Config, base func() index.Directory) index.Config {
		ic.DirectoryFunc = func() index.Directory { return rr.Dir }
		ic.AsyncError = func(err error) {
			rr.mu.Lock()
			rr.AsyncErrs = append(rr.AsyncErrs, err.Error())
			rr.mu.Unlock()
		}
		if tweak != nil {
			ic = tweak(ic, rr.Dir)
		}
		return ic
	}
	x, f := OpenIdx(conf, path, wrap)
	if f != nil {
		return nil, f
	}
	rr.X = x
	return rr, nil
}

// Batch issues one batch and records stamps.  A returned error is recorded, not a failure.
func (rr *RecordedRun) Batch(b BatchSpec) *Failure {
	clock := rr.Dir.Clock
	batch := BuildBatch(b)
	j := len(rr.Rec.Batches)
	rr.mu.Lock()
	rr.Rec.Batches = append(rr.Rec.Batches, b)
	rr.Rec.CallBegin = append(rr.Rec.CallBegin, 0)
	rr.Rec.CallEnd = append(rr.Rec.CallEnd, 0)
	rr.Rec.CallErr = append(rr.Rec.CallErr, "")
	rr.Rec.Ack = append(rr.Rec.Ack, 0)
	rr.mu.Unlock()
	if rr.Conf.Unsafe {
		rr.pending.Add(1)
		var once sync.Once
		batch.SetPersistedCallback(func(err error) {
			st := clock.Tick()
			once.Do(func() {
				rr.mu.Lock()
				if err == nil {
					rr.Rec.Ack[j] = st
				}
				rr.mu.Unlock()
				rr.pending.Done()
			})
		})
	}
	var err error
	rr.mu.Lock()
	rr.Rec.CallBegin[j] = clock.Tick()
	rr.mu.Unlock()
	f := Watchdog("Batch", CallBound, func() *Failure {
		err = rr.X.W.Batch(batch)
		return nil
	})
	st := clock.Tick()
	rr.mu.Lock()
	rr.Rec.CallEnd[j] = st
	if err != nil {
		rr.Rec.CallErr[j] = err.Error()
	} else if !rr.Conf.Unsafe && f == nil {
		rr.Rec.Ack[j] = st
	}
	rr.mu.Unlock()
	return f
}

// WaitCallbacks waits (bounded) until every unsafe batch issued so far was reported persisted.
func (rr *RecordedRun) WaitCallbacks() *Failure {
	if !rr.Conf.Unsafe {
		return nil
	}
	done := make(chan struct{})
	go func() { rr.pending.Wait(); close(done) }()
	select {
	case <-done:
		return nil
	case <-time.After(CallBound):
		return Failf("hang@persisted-callback", "persisted callbacks still outstanding %v after the last batch", CallBound)
	}
}

// Reopen waits for durability of everything issued, closes the writer and opens it again on
// the same (recording) directory.
func (rr *RecordedRun) Reopen() *Failure {
	if f := rr.WaitCallbacks(); f != nil {
		return f
	}
	return rr.X.Reopen()
}

// Finish waits (bounded) for outstanding persisted-callbacks, closes the writer and collects
// the trace.
func (rr *RecordedRun) Finish(waitCallbacks bool) *Failure {
	if waitCallbacks && rr.Conf.Unsafe {
		done := make(chan struct{})
		go func() { rr.pending.Wait(); close(done) }()
		select {
		case <-done:
		case <-time.After(CallBound):
			return Failf("hang@persisted-callback", "persisted callbacks still outstanding %v after the last batch", CallBound)
		}
	}
	f := rr.X.Close()
	rr.Rec.Trace = rr.Dir.Trace()
	rr.Rec.Blobs = rr.Dir.Blobs
	return f
}

// Lock / Unlock guard AsyncErrs and the record while the run is active.
func (rr *RecordedRun) Lock()   { rr.mu.Lock() }
func (rr *RecordedRun) Unlock() { rr.mu.Unlock() }
