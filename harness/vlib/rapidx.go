package vlib

import (
	"flag"
	"fmt"
	"strconv"
	"testing"

	"pgregory.net/rapid"
)

// Scale returns the case count for this tier (VERIF_SCALE_PCT scales both, for sensitivity runs).
func Scale(quick, thorough int) int {
	n := quick
	if Thorough() {
		n = thorough
	}
	pct := EnvInt("VERIF_SCALE_PCT", 100)
	n = n * pct / 100
	if n < 1 {
		n = 1
	}
	return n
}

// Check runs a rapid property with the shard's seed and a per-tier number of cases *per shard*.
func Check(t *testing.T, quick, thorough int, prop func(*rapid.T)) {
	t.Helper()
	_ = flag.Set("rapid.checks", strconv.Itoa(Scale(quick, thorough)))
	_ = flag.Set("rapid.seed", strconv.FormatUint(Seed(), 10))
	_ = flag.Set("rapid.nofailfile", "true")
	_ = flag.Set("rapid.shrinktime", fmt.Sprintf("%ds", EnvInt("VERIF_SHRINK_S", 15)))
	rapid.Check(t, prop)
}

// KnownProbe reports the outcome of a deterministic probe for a specific finding.  present:
// the defect showed on this tree.  Listed as known: a VERIF-KNOWN line (the driver prints the
// KNOWN-FINDING line).  Not listed: violation.
func KnownProbe(t TB, ev *Evidence, test, key string, c interface{}, f *Failure) {
	if f == nil {
		return
	}
	f.Key = key
	if desc, ok := IsKnown(ev.Property, key); ok {
		fmt.Printf("VERIF-KNOWN property=%s key=%s %s\n", ev.Property, key, desc)
		ev.Class("known-probe:"+key, 1)
		return
	}
	Report(t, ev, test, c, f)
}
