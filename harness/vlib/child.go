package vlib

import "os"

// childHandlers maps a VERIF_CHILD mode to its entry point (registered by the packages that
// re-execute their own test binary as a child process).
var childHandlers = map[string]func(){}

// RegisterChild registers a child mode.
func RegisterChild(mode string, f func()) { childHandlers[mode] = f }

// ChildMain runs the child mode named by $VERIF_CHILD, if any.
func ChildMain() bool {
	mode := os.Getenv("VERIF_CHILD")
	if mode == "" {
		return false
	}
	if f, ok := childHandlers[mode]; ok {
		f()
		return true
	}
	os.Stderr.WriteString("unknown VERIF_CHILD mode " + mode + "\n")
	os.Exit(3)
	return true
}
