package vlib

import (
	"fmt"
	"runtime"
	"strings"
	"sync"
	"time"

	"github.com/RoaringBitmap/roaring"
	"github.com/blugelabs/bluge/index"
	segment "github.com/blugelabs/bluge_segment_api"
	iceV1 "github.com/blugelabs/ice"
	iceV2 "github.com/blugelabs/ice/v2"
)

// Role tells which of bluge's goroutines is running, by inspecting the stack: "merger",
// "persister", "introducer" or "client".
func Role() string {
	var pcs [64]uintptr
	n := runtime.Callers(2, pcs[:])
	frames := runtime.CallersFrames(pcs[:n])
	for {
		fr, more := frames.Next()
		switch {
		case strings.HasSuffix(fr.Function, "(*Writer).mergerLoop"):
			return "merger"
		case strings.HasSuffix(fr.Function, "(*Writer).persisterLoop"):
			return "persister"
		case strings.HasSuffix(fr.Function, "(*Writer).introducerLoop"):
			return "introducer"
		}
		if !more {
			break
		}
	}
	return "client"
}

// Parked is a goroutine blocked at a gate point.
type Parked struct {
	Point string
	Seq   int
	ch    chan struct{}
}

// Gates lets a check park bluge's background goroutines at named points and release them in
// an order of its choosing.  Points are named "<role>:<what>", e.g. "merger:persist.seg:begin",
// "persister:persist.snp:end", "merger:ev7" (event kind 7), "client:docsMatchingTerms".
type Gates struct {
	mu      sync.Mutex
	cond    *sync.Cond
	holds   map[string]bool
	once    map[string]bool         // points that park a goroutine only on its first arrival
	seen    map[string]map[int]bool // point -> goroutine ids that already arrived
	parked  []*Parked
	passes  map[string]int
	fails   map[string]int
	total   int
	seq     int
	open    bool
	Log     []string
	logging bool
}

// NewGates creates a controller with all gates passing.
func NewGates() *Gates {
	g := &Gates{holds: map[string]bool{}, passes: map[string]int{}, logging: true, once: map[string]bool{}, seen: map[string]map[int]bool{}}
	g.cond = sync.NewCond(&g.mu)
	return g
}

func (g *Gates) logf(format string, a ...interface{}) {
	if g.logging && len(g.Log) < 4000 {
		g.Log = append(g.Log, fmt.Sprintf(format, a...))
	}
}

// Arrive is called by instrumented code at a gate point.
func (g *Gates) Arrive(point string) {
	gid := 0
	g.mu.Lock()
	if g.once[point] {
		g.mu.Unlock()
		gid = goid()
		g.mu.Lock()
	}
	g.passes[point]++
	g.total++
	again := false
	if g.once[point] {
		if g.seen[point] == nil {
			g.seen[point] = map[int]bool{}
		}
		again = g.seen[point][gid]
		g.seen[point][gid] = true
	}
	if g.open || !g.holds[point] || again {
		g.logf("pass %s", point)
		g.cond.Broadcast()
		g.mu.Unlock()
		return
	}
	g.seq++
	p := &Parked{Point: point, Seq: g.seq, ch: make(chan struct{})}
	g.parked = append(g.parked, p)
	g.logf("park %s #%d", point, p.Seq)
	g.cond.Broadcast()
	g.mu.Unlock()
	<-p.ch
}

// Hold makes the given points park arriving goroutines.
func (g *Gates) Hold(points ...string) {
	g.mu.Lock()
	for _, p := range points {
		g.holds[p] = true
	}
	g.mu.Unlock()
}

// FailNext makes the next arrival at point fail (only points that can fail: "<role>:docsMatchingTerms").
func (g *Gates) FailNext(point string) {
	g.mu.Lock()
	if g.fails == nil {
		g.fails = map[string]int{}
	}
	g.fails[point]++
	g.mu.Unlock()
}

func (g *Gates) takeFail(point string) bool {
	g.mu.Lock()
	defer g.mu.Unlock()
	if g.fails[point] > 0 {
		g.fails[point]--
		g.logf("fail %s", point)
		return true
	}
	return false
}

// HoldFirst makes the given points park every goroutine on its first arrival only.
func (g *Gates) HoldFirst(points ...string) {
	g.mu.Lock()
	for _, p := range points {
		g.holds[p] = true
		g.once[p] = true
	}
	g.mu.Unlock()
}

func goid() int {
	var buf [64]byte
	n := runtime.Stack(buf[:], false)
	// "goroutine 123 [running]:"
	id := 0
	for _, c := range buf[len("goroutine "):n] {
		if c < '0' || c > '9' {
			break
		}
		id = id*10 + int(c-'0')
	}
	return id
}

// Unhold lets the given points pass again (already parked goroutines stay parked).
func (g *Gates) Unhold(points ...string) {
	g.mu.Lock()
	for _, p := range points {
		delete(g.holds, p)
	}
	g.mu.Unlock()
}

// ParkedList returns the goroutines currently parked.
func (g *Gates) ParkedList() []*Parked {
	g.mu.Lock()
	defer g.mu.Unlock()
	return append([]*Parked(nil), g.parked...)
}

// waitCond waits until pred holds or the timeout expires (the clock is only used to wait).
func (g *Gates) waitCond(timeout time.Duration, pred func() bool) bool {
	deadline := time.Now().Add(timeout)
	timer := time.AfterFunc(timeout, func() {
		g.mu.Lock()
		g.cond.Broadcast()
		g.mu.Unlock()
	})
	defer timer.Stop()
	g.mu.Lock()
	defer g.mu.Unlock()
	for !pred() {
		if !time.Now().Before(deadline) {
			return false
		}
		g.cond.Wait()
	}
	return true
}

// WaitParked waits until a goroutine is parked at point.
func (g *Gates) WaitParked(point string, timeout time.Duration) *Parked {
	var found *Parked
	g.waitCond(timeout, func() bool {
		for _, p := range g.parked {
			if p.Point == point {
				found = p
				return true
			}
		}
		return false
	})
	return found
}

// WaitPasses waits until point has been reached at least n times.
func (g *Gates) WaitPasses(point string, n int, timeout time.Duration) bool {
	return g.waitCond(timeout, func() bool { return g.passes[point] >= n })
}

// Passes returns how often point was reached.
func (g *Gates) Passes(point string) int {
	g.mu.Lock()
	defer g.mu.Unlock()
	return g.passes[point]
}

// Total returns the number of gate arrivals so far.
func (g *Gates) Total() int {
	g.mu.Lock()
	defer g.mu.Unlock()
	return g.total
}

// Release lets one parked goroutine continue.
func (g *Gates) Release(p *Parked) {
	g.mu.Lock()
	for i, q := range g.parked {
		if q == p {
			g.parked = append(g.parked[:i], g.parked[i+1:]...)
			g.logf("release %s #%d", p.Point, p.Seq)
			close(p.ch)
			break
		}
	}
	g.mu.Unlock()
}

// OpenAll releases everything and disables all holds for good.
func (g *Gates) OpenAll() {
	g.mu.Lock()
	g.open = true
	for _, p := range g.parked {
		close(p.ch)
	}
	g.parked = nil
	g.logf("open all")
	g.cond.Broadcast()
	g.mu.Unlock()
}

// WaitStable waits until the arrival counter and the parked set have not changed for quiet.
func (g *Gates) WaitStable(quiet, max time.Duration) {
	deadline := time.Now().Add(max)
	last, lastParked := -1, -1
	stableSince := time.Now()
	for time.Now().Before(deadline) {
		g.mu.Lock()
		t, np := g.total, len(g.parked)
		g.mu.Unlock()
		if t != last || np != lastParked {
			last, lastParked = t, np
			stableSince = time.Now()
		} else if time.Since(stableSince) >= quiet {
			return
		}
		time.Sleep(quiet / 4)
	}
}

// LogTail returns the last n log lines.
func (g *Gates) LogTail(n int) []string {
	g.mu.Lock()
	defer g.mu.Unlock()
	if len(g.Log) > n {
		return append([]string(nil), g.Log[len(g.Log)-n:]...)
	}
	return append([]string(nil), g.Log...)
}

// ---------------------------------------------------------------------------------------------
// installation on an index configuration

type gatedSegment struct {
	segment.Segment
	g *Gates
}

func (s *gatedSegment) DocsMatchingTerms(terms []segment.Term) (*roaring.Bitmap, error) {
	role := Role()
	s.g.Arrive(role + ":docsMatchingTerms")
	if s.g.takeFail(role + ":docsMatchingTerms") {
		return nil, ErrInjected
	}
	return s.Segment.DocsMatchingTerms(terms)
}

func (s *gatedSegment) Count() uint64 {
	r := Role()
	if r == "introducer" {
		// name the introduction that is being applied
		r = "introducer/" + introKind()
	}
	s.g.Arrive(r + ":count")
	return s.Segment.Count()
}

func introKind() string {
	var pcs [48]uintptr
	n := runtime.Callers(2, pcs[:])
	frames := runtime.CallersFrames(pcs[:n])
	for {
		fr, more := frames.Next()
		switch {
		case strings.HasSuffix(fr.Function, "(*Writer).introducePersist"):
			return "persist"
		case strings.HasSuffix(fr.Function, "(*Writer).introduceMerge"):
			return "merge"
		case strings.HasSuffix(fr.Function, "(*Writer).introduceSegment"):
			return "segment"
		}
		if !more {
			return "other"
		}
	}
}

func unwrapSeg(s segment.Segment) segment.Segment {
	if gs, ok := s.(*gatedSegment); ok {
		return gs.Segment
	}
	return s
}

// Install wires the controller into an index configuration: event callback, directory gate
// (if d != nil) and, when wrapSegments is set, a segment plugin whose segments announce
// DocsMatchingTerms and whose Merge announces itself.
func (g *Gates) Install(ic index.Config, d *RecDir, wrapSegments bool) index.Config {
	ic.EventCallback = func(e index.Event) {
		g.Arrive(fmt.Sprintf("%s:ev%d", Role(), e.Kind))
	}
	if d != nil {
		d.Gate = func(phase string, e *DirEvent) {
			switch e.Op {
			case "persist", "load", "remove":
				g.Arrive(fmt.Sprintf("%s:%s%s:%s", Role(), e.Op, e.Kind, phase))
			}
		}
	}
	type fns struct {
		New   func([]segment.Document, func(string, int) float32) (segment.Segment, uint64, error)
		Load  func(*segment.Data) (segment.Segment, error)
		Merge func([]segment.Segment, []*roaring.Bitmap, int) segment.Merger
	}
	base := map[uint32]fns{
		iceV1.Version: {iceV1.New, iceV1.Load, iceV1.Merge},
		iceV2.Version: {iceV2.New, iceV2.Load, iceV2.Merge},
	}
	for ver, f := range base {
		f := f
		typ := iceV1.Type
		if ver == iceV2.Version {
			typ = iceV2.Type
		}
		p := &index.SegmentPlugin{Type: typ, Version: ver}
		p.New = func(docs []segment.Document, nc func(string, int) float32) (segment.Segment, uint64, error) {
			s, n, err := f.New(docs, nc)
			if err == nil && wrapSegments {
				s = &gatedSegment{Segment: s, g: g}
			}
			return s, n, err
		}
		p.Load = func(data *segment.Data) (segment.Segment, error) {
			s, err := f.Load(data)
			if err == nil && wrapSegments {
				s = &gatedSegment{Segment: s, g: g}
			}
			return s, err
		}
		p.Merge = func(segs []segment.Segment, drops []*roaring.Bitmap, bufSize int) segment.Merger {
			g.Arrive(Role() + ":merge")
			un := make([]segment.Segment, len(segs))
			for i, s := range segs {
				un[i] = unwrapSeg(s)
			}
			return f.Merge(un, drops, bufSize)
		}
		ic = ic.WithSegmentPlugin(p)
	}
	return ic
}
