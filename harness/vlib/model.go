package vlib

import (
	"context"
	"fmt"
	"os"
	"path/filepath"
	"sort"
	"strconv"
	"strings"
	"sync/atomic"

	"github.com/blugelabs/bluge"
	"github.com/blugelabs/bluge/index"
	"github.com/blugelabs/bluge/index/mergeplan"
	"pgregory.net/rapid"
)

// ---------------------------------------------------------------------------------------------
// documents, operations, batches

// DocSpec is the logical content of one document.  Ver is a tag unique within a history, stored
// in the document, so that two index states are equal iff their (id,ver) multisets are.
type DocSpec struct {
	ID  string    `json:"id"`
	Ver int       `json:"ver"`
	T   []string  `json:"t,omitempty"` // values of text field "t" (analysed, stored, with positions)
	K   []string  `json:"k,omitempty"` // values of keyword field "k" (sortable, aggregatable, stored)
	N   []float64 `json:"n,omitempty"` // values of numeric field "n" (sortable, aggregatable)
}

// Key is the identity of a document version.
func (d DocSpec) Key() string { return d.ID + "#" + strconv.Itoa(d.Ver) }

// Op is one batch operation: "insert", "update" (id = Doc.ID) or "delete".
type Op struct {
	Kind string   `json:"op"`
	ID   string   `json:"id"`
	Doc  *DocSpec `json:"doc,omitempty"`
}

// BatchSpec is one batch.
type BatchSpec struct {
	Ops []Op `json:"ops"`
}

// BuildDoc turns a DocSpec into a bluge document.
func BuildDoc(d DocSpec) *bluge.Document {
	doc := bluge.NewDocument(d.ID)
	doc.AddField(bluge.NewStoredOnlyField("ver", []byte(strconv.Itoa(d.Ver))))
	// the version tag as a document value too: observations that must not touch stored fields
	// (segment version 2 while merges may run, see IceV2RaceKey) read id and version from sort keys
	doc.AddField(bluge.NewKeywordField("v", strconv.Itoa(d.Ver)).Sortable())
	for _, t := range d.T {
		doc.AddField(bluge.NewTextField("t", t).StoreValue().SearchTermPositions())
	}
	for _, k := range d.K {
		doc.AddField(bluge.NewKeywordField("k", k).StoreValue().Sortable().Aggregatable())
	}
	for _, n := range d.N {
		doc.AddField(bluge.NewNumericField("n", n).StoreValue().Sortable().Aggregatable())
	}
	return doc
}

// BuildBatch turns a BatchSpec into an index batch.
func BuildBatch(b BatchSpec) *index.Batch {
	batch := bluge.NewBatch()
	for _, op := range b.Ops {
		switch op.Kind {
		case "insert":
			batch.Insert(BuildDoc(*op.Doc))
		case "update":
			batch.Update(bluge.Identifier(op.ID), BuildDoc(*op.Doc))
		case "delete":
			batch.Delete(bluge.Identifier(op.ID))
		}
	}
	return batch
}

// ---------------------------------------------------------------------------------------------
// the abstract index

// Model is the abstract index: a multiset of live documents.  States[i] is the sorted key list
// after i batches (States[0] = initial state).
type Model struct {
	Live   []DocSpec
	States [][]string
	Docs   map[string]DocSpec // every document version ever added, by key
	IDs    map[string]bool    // every id ever named
}

// NewModel returns the empty abstract index.
func NewModel() *Model {
	m := &Model{Docs: map[string]DocSpec{}, IDs: map[string]bool{}}
	m.States = append(m.States, m.Keys())
	return m
}

// Apply applies one batch: remove every live document whose id the batch names (update or
// delete), then add the documents of its inserts and updates.
func (m *Model) Apply(b BatchSpec) {
	names := map[string]bool{}
	for _, op := range b.Ops {
		m.IDs[op.ID] = true
		if op.Kind == "update" || op.Kind == "delete" {
			names[op.ID] = true
		}
	}
	kept := m.Live[:0:0]
	for _, d := range m.Live {
		if !names[d.ID] {
			kept = append(kept, d)
		}
	}
	for _, op := range b.Ops {
		if op.Kind == "insert" || op.Kind == "update" {
			kept = append(kept, *op.Doc)
			m.Docs[op.Doc.Key()] = *op.Doc
		}
	}
	m.Live = kept
	m.States = append(m.States, m.Keys())
}

// Keys returns the sorted (id#ver) list of the live documents.
func (m *Model) Keys() []string {
	r := make([]string, 0, len(m.Live))
	for _, d := range m.Live {
		r = append(r, d.Key())
	}
	sort.Strings(r)
	return r
}

// Clone copies the model (used by checks that fork histories).
func (m *Model) Clone() *Model {
	c := &Model{Live: append([]DocSpec(nil), m.Live...), Docs: map[string]DocSpec{}, IDs: map[string]bool{}}
	for k, v := range m.Docs {
		c.Docs[k] = v
	}
	for k := range m.IDs {
		c.IDs[k] = true
	}
	for _, s := range m.States {
		c.States = append(c.States, s)
	}
	return c
}

// SortedIDs lists every id ever named.
func (m *Model) SortedIDs() []string {
	r := make([]string, 0, len(m.IDs))
	for id := range m.IDs {
		r = append(r, id)
	}
	sort.Strings(r)
	return r
}

// ---------------------------------------------------------------------------------------------
// observation of an implementation reader

// ObsDoc is one document as seen through a reader.
type ObsDoc struct {
	ID  string   `json:"id"`
	Ver string   `json:"ver"`
	T   []string `json:"t,omitempty"`
	K   []string `json:"k,omitempty"`
	N   int      `json:"n,omitempty"` // number of stored numeric values
}

// Obs is everything C01 compares.
type Obs struct {
	NoStored bool             `json:"no_stored,omitempty"` // ids and versions read from sort keys, stored fields not loaded
	Count uint64              `json:"count"`
	Docs  []ObsDoc            `json:"docs"`  // match-all enumeration, sorted by id#ver
	ByID  map[string][]string `json:"by_id"` // _id term lookup -> sorted vers
}

// Keys returns the sorted id#ver list of the enumeration.
func (o *Obs) Keys() []string {
	r := make([]string, 0, len(o.Docs))
	for _, d := range o.Docs {
		r = append(r, d.ID+"#"+d.Ver)
	}
	sort.Strings(r)
	return r
}

func loadDoc(r *bluge.Reader, number uint64) (ObsDoc, error) {
	var d ObsDoc
	err := r.VisitStoredFields(number, func(field string, value []byte) bool {
		switch field {
		case "_id":
			d.ID = string(value)
		case "ver":
			d.Ver = string(value)
		case "t":
			d.T = append(d.T, string(value))
		case "k":
			d.K = append(d.K, string(value))
		case "n":
			d.N++
		}
		return true
	})
	return d, err
}

// ObserveNoStored is Observe without loading stored fields: ids and version tags come from the
// sort keys of a search sorted by _id and v (document values).
func ObserveNoStored(r *bluge.Reader, ids []string) (*Obs, error) {
	o := &Obs{ByID: map[string][]string{}, NoStored: true}
	var err error
	if o.Count, err = r.Count(); err != nil {
		return nil, fmt.Errorf("count: %w", err)
	}
	run := func(q bluge.Query) ([]ObsDoc, error) {
		it, err := r.Search(context.Background(), bluge.NewTopNSearch(100000, q).SortBy([]string{"_id", "v"}))
		if err != nil {
			return nil, err
		}
		var docs []ObsDoc
		for {
			m, err := it.Next()
			if err != nil {
				return nil, err
			}
			if m == nil {
				return docs, nil
			}
			if len(m.SortValue) != 2 {
				return nil, fmt.Errorf("sorted search returned %d sort values", len(m.SortValue))
			}
			docs = append(docs, ObsDoc{ID: string(m.SortValue[0]), Ver: string(m.SortValue[1])})
		}
	}
	if o.Docs, err = run(bluge.NewMatchAllQuery()); err != nil {
		return nil, fmt.Errorf("match-all (sorted): %w", err)
	}
	sort.Slice(o.Docs, func(i, j int) bool {
		a, b := o.Docs[i], o.Docs[j]
		if a.ID != b.ID {
			return a.ID < b.ID
		}
		return a.Ver < b.Ver
	})
	for _, id := range ids {
		docs, err := run(bluge.NewTermQuery(id).SetField("_id"))
		if err != nil {
			return nil, fmt.Errorf("_id lookup %q: %w", id, err)
		}
		var vers []string
		for _, d := range docs {
			if d.ID != id {
				return nil, fmt.Errorf("_id lookup %q returned document with id %q", id, d.ID)
			}
			vers = append(vers, d.Ver)
		}
		sort.Strings(vers)
		if len(vers) > 0 {
			o.ByID[id] = vers
		}
	}
	return o, nil
}

// Observe reads count, the match-all enumeration with stored fields, and the _id lookups.
func Observe(r *bluge.Reader, ids []string) (*Obs, error) {
	o := &Obs{ByID: map[string][]string{}}
	var err error
	if o.Count, err = r.Count(); err != nil {
		return nil, fmt.Errorf("count: %w", err)
	}
	it, err := r.Search(context.Background(), bluge.NewAllMatches(bluge.NewMatchAllQuery()))
	if err != nil {
		return nil, fmt.Errorf("match-all: %w", err)
	}
	for {
		m, err := it.Next()
		if err != nil {
			return nil, fmt.Errorf("match-all next: %w", err)
		}
		if m == nil {
			break
		}
		d, err := loadDoc(r, m.Number)
		if err != nil {
			return nil, fmt.Errorf("stored fields of %d: %w", m.Number, err)
		}
		o.Docs = append(o.Docs, d)
	}
	sort.Slice(o.Docs, func(i, j int) bool {
		a, b := o.Docs[i], o.Docs[j]
		if a.ID != b.ID {
			return a.ID < b.ID
		}
		return a.Ver < b.Ver
	})
	for _, id := range ids {
		it, err := r.Search(context.Background(), bluge.NewAllMatches(bluge.NewTermQuery(id).SetField("_id")))
		if err != nil {
			return nil, fmt.Errorf("_id lookup %q: %w", id, err)
		}
		var vers []string
		for {
			m, err := it.Next()
			if err != nil {
				return nil, fmt.Errorf("_id lookup next: %w", err)
			}
			if m == nil {
				break
			}
			d, err := loadDoc(r, m.Number)
			if err != nil {
				return nil, err
			}
			if d.ID != id {
				return nil, fmt.Errorf("_id lookup %q returned document with id %q", id, d.ID)
			}
			vers = append(vers, d.Ver)
		}
		sort.Strings(vers)
		if len(vers) > 0 {
			o.ByID[id] = vers
		}
	}
	return o, nil
}

// CompareKeys compares an observed key list with a model state.
func CompareKeys(site string, want, got []string) *Failure {
	if len(want) == len(got) {
		same := true
		for i := range want {
			if want[i] != got[i] {
				same = false
				break
			}
		}
		if same {
			return nil
		}
	}
	missing, extra := diffKeys(want, got)
	key := "content-mismatch"
	switch {
	case len(missing) > 0 && len(extra) == 0:
		key = "document-lost"
	case len(extra) > 0 && len(missing) == 0:
		key = "document-extra"
	}
	return Failf(key, "%s: model has %d docs, index %d; missing from index %v; unexpected in index %v", site, len(want), len(got), clip(missing), clip(extra))
}

func clip(s []string) []string {
	if len(s) > 12 {
		return append(append([]string{}, s[:12]...), "…")
	}
	return s
}

func diffKeys(want, got []string) (missing, extra []string) {
	cnt := map[string]int{}
	for _, k := range want {
		cnt[k]++
	}
	for _, k := range got {
		cnt[k]--
	}
	for k, n := range cnt {
		for ; n > 0; n-- {
			missing = append(missing, k)
		}
		for ; n < 0; n++ {
			extra = append(extra, k)
		}
	}
	sort.Strings(missing)
	sort.Strings(extra)
	return
}

// CompareModel checks a full observation against the model: count, enumeration, lookups by id
// and stored values.
func CompareModel(site string, m *Model, o *Obs) *Failure {
	want := m.Keys()
	if f := CompareKeys(site+" (match-all)", want, o.Keys()); f != nil {
		return f
	}
	if int(o.Count) != len(want) {
		return Failf("count-mismatch", "%s: Count()=%d, model has %d live documents", site, o.Count, len(want))
	}
	// stored field values
	for _, d := range o.Docs {
		spec, ok := m.Docs[d.ID+"#"+d.Ver]
		if !ok {
			return Failf("document-extra", "%s: unknown document %s#%s", site, d.ID, d.Ver)
		}
		if o.NoStored {
			continue
		}
		if !eqStrings(spec.T, d.T) || !eqStrings(spec.K, d.K) || len(spec.N) != d.N {
			return Failf("stored-field-mismatch", "%s: document %s stored t=%q k=%q n=%d, model t=%q k=%q n=%d", site, spec.Key(), d.T, d.K, d.N, spec.T, spec.K, len(spec.N))
		}
	}
	// lookups by id
	wantByID := map[string][]string{}
	for _, d := range m.Live {
		wantByID[d.ID] = append(wantByID[d.ID], strconv.Itoa(d.Ver))
	}
	for id := range wantByID {
		sort.Strings(wantByID[id])
	}
	for _, id := range m.SortedIDs() {
		if !eqStrings(wantByID[id], o.ByID[id]) {
			return Failf("id-lookup-mismatch", "%s: lookup of id %q returns versions %v, model has %v", site, id, o.ByID[id], wantByID[id])
		}
	}
	return nil
}

func eqStrings(a, b []string) bool {
	if len(a) != len(b) {
		return false
	}
	for i := range a {
		if a[i] != b[i] {
			return false
		}
	}
	return true
}

// ---------------------------------------------------------------------------------------------
// configuration

// IdxConf is the generated index configuration of a case.
type IdxConf struct {
	Dir       string `json:"dir"`       // "mem" | "fs"
	SegVer    int    `json:"seg_ver"`   // 1 | 2
	Unsafe    bool   `json:"unsafe"`    // unsafe batches
	Merge     string `json:"merge"`     // "default" | "none" | "pairs"
	Retention int    `json:"retention"` // snapshots kept by the deletion policy (0 = default 1)
	// NapFiles > 0 sets PersisterNapUnderNumFiles (default 1000): with that many files on disk the
	// persister pauses until the merger has caught up
	NapFiles int `json:"nap_files,omitempty"`
}

// MergeOptions maps the merge policy name to planner options.
func (c IdxConf) apply(ic index.Config) index.Config {
	ic.SegmentVersion = uint32(c.SegVer)
	if c.SegVer == 0 {
		ic.SegmentVersion = 1
	}
	ic.UnsafeBatch = c.Unsafe
	switch c.Merge {
	case "none":
		ic.MergePlanOptions.MaxSegmentSize = 1
		ic.MinSegmentsForInMemoryMerge = 1 << 30
	case "pairs":
		// merge two segments at a time, as soon as there are two
		o := mergeplan.DefaultMergePlanOptions
		o.SegmentsPerMergeTask = 2
		o.MaxSegmentsPerTier = 2
		ic.MergePlanOptions = o
	case "nomem":
		ic.MinSegmentsForInMemoryMerge = 1 << 30
	}
	if c.NapFiles > 0 {
		ic.PersisterNapUnderNumFiles = c.NapFiles
	}
	if c.Retention > 1 {
		n := c.Retention
		ic.DeletionPolicyFunc = func() index.DeletionPolicy { return index.NewKeepNLatestDeletionPolicy(n) }
	}
	return ic
}

// Config builds the bluge configuration; path is used for "fs".  wrap, if not nil, may replace
// the directory (recording / gating / fault wrappers) and adjust the index configuration.
func (c IdxConf) Config(path string, wrap func(ic index.Config, base func() index.Directory) index.Config) bluge.Config {
	var cfg bluge.Config
	var base func() index.Directory
	if c.Dir == "fs" {
		cfg = bluge.DefaultConfig(path)
		base = func() index.Directory { return index.NewFileSystemDirectory(path) }
	} else {
		cfg = bluge.InMemoryOnlyConfig()
		base = nil
	}
	ic := c.apply(cfg.VerifIndexConfig())
	if wrap != nil {
		ic = wrap(ic, base)
	}
	return cfg.VerifWithIndexConfig(ic)
}

// GenIdxConf draws a configuration.
func GenIdxConf(t *rapid.T, allowMem bool) IdxConf {
	c := IdxConf{Dir: "fs", SegVer: rapid.SampledFrom([]int{1, 1, 2}).Draw(t, "segVer"),
		Unsafe: rapid.Bool().Draw(t, "unsafe"),
		Merge:  rapid.SampledFrom([]string{"default", "default", "pairs", "none", "nomem"}).Draw(t, "merge")}
	if allowMem && rapid.IntRange(0, 2).Draw(t, "memDir") == 0 {
		c.Dir = "mem"
	}
	return c
}

// ---------------------------------------------------------------------------------------------
// history generation

// HistGen generates documents and batches over a small id pool with unique version tags.
type HistGen struct {
	IDPool  []string
	nextVer int
}

// NewHistGen creates a generator with n ids.
func NewHistGen(n int) *HistGen {
	g := &HistGen{}
	for i := 0; i < n; i++ {
		g.IDPool = append(g.IDPool, "d"+strconv.Itoa(i))
	}
	return g
}

var words = []string{"alpha", "beta", "gamma", "delta", "épsilon", "zeta"}
var kws = []string{"a", "ab", "abc", "b", "ba", "ü", "zz"}

// Doc draws a document for id.
func (g *HistGen) Doc(t *rapid.T, id string) *DocSpec {
	g.nextVer++
	d := &DocSpec{ID: id, Ver: g.nextVer}
	nt := rapid.IntRange(0, 2).Draw(t, "nText")
	for i := 0; i < nt; i++ {
		nw := rapid.IntRange(1, 5).Draw(t, "nWords")
		var ws []string
		for j := 0; j < nw; j++ {
			ws = append(ws, rapid.SampledFrom(words).Draw(t, "word"))
		}
		d.T = append(d.T, strings.Join(ws, " "))
	}
	if rapid.Bool().Draw(t, "hasK") {
		d.K = append(d.K, rapid.SampledFrom(kws).Draw(t, "kw"))
	}
	if rapid.Bool().Draw(t, "hasN") {
		d.N = append(d.N, float64(rapid.IntRange(-3, 12).Draw(t, "num")))
	}
	return d
}

// SetNextVer lets a continuation generator start above the versions already used.
func (g *HistGen) SetNextVer(v int) { g.nextVer = v }

// NextVer returns the last version tag handed out.
func (g *HistGen) NextVer() int { return g.nextVer }

// Batch draws a batch of 0..maxOps operations with distinct ids (a batch naming one id twice is
// outside the property's quantifier).
func (g *HistGen) Batch(t *rapid.T, maxOps int) BatchSpec {
	var b BatchSpec
	if rapid.IntRange(0, 13).Draw(t, "wipe") == 0 {
		// delete every id of the pool: empties every segment at once (skipped-merge and
		// dropped-segment paths)
		for _, id := range g.IDPool {
			b.Ops = append(b.Ops, Op{Kind: "delete", ID: id})
		}
		return b
	}
	n := rapid.IntRange(0, maxOps).Draw(t, "nOps")
	if n > len(g.IDPool) {
		n = len(g.IDPool)
	}
	if n == 0 {
		return b
	}
	ids := rapid.Permutation(append([]string(nil), g.IDPool...)).Draw(t, "ids")[:n]
	deleteOnly := rapid.IntRange(0, 7).Draw(t, "deleteOnly") == 0
	for _, id := range ids {
		kind := "delete"
		if !deleteOnly {
			kind = rapid.SampledFrom([]string{"insert", "update", "update", "update", "delete"}).Draw(t, "kind")
		}
		op := Op{Kind: kind, ID: id}
		if kind != "delete" {
			op.Doc = g.Doc(t, id)
		}
		b.Ops = append(b.Ops, op)
	}
	return b
}

// ---------------------------------------------------------------------------------------------
// scratch directories

var dirSeq int64

// ScratchBase returns the base directory for index directories of this process (tmpfs when
// available: mmap and flock work there and fsync is free).
func ScratchBase() string {
	base := "/dev/shm"
	if st, err := os.Stat(base); err != nil || !st.IsDir() {
		base = os.Getenv("VERIF_SCRATCH")
		if base == "" {
			base = os.TempDir()
		}
	}
	return filepath.Join(base, "verif-"+strconv.Itoa(os.Getpid()))
}

// NewScratchDir returns a fresh, not yet existing directory path.
func NewScratchDir(prefix string) string {
	n := atomic.AddInt64(&dirSeq, 1)
	p := filepath.Join(ScratchBase(), fmt.Sprintf("%s-%d", prefix, n))
	_ = os.MkdirAll(filepath.Dir(p), 0o755)
	return p
}

// CleanScratch removes everything this process created under ScratchBase.
func CleanScratch() { _ = os.RemoveAll(ScratchBase()) }
