// Package vlib holds the machinery shared by the per-property checks.
package vlib

import (
	_ "github.com/anishathalye/porcupine" // keep in go.mod
)
