package vlib

import (
	"encoding/json"
	"fmt"
	"os"
	"path/filepath"
	"sort"
	"sync/atomic"
	"testing"
)

// ReplayFn decodes a case from its JSON form and evaluates the property on it (no rapid).
type ReplayFn func(raw json.RawMessage) *Failure

// Decode is a helper for ReplayFn implementations.
func Decode(raw json.RawMessage, c interface{}) *Failure {
	if err := json.Unmarshal(raw, c); err != nil {
		return Failf("harness-bad-replay", "cannot decode case: %v", err)
	}
	return nil
}

func replayFile(t *testing.T, ev *Evidence, path string, fns map[string]ReplayFn, times int) {
	b, err := os.ReadFile(path)
	if err != nil {
		t.Fatalf("replay %s: %v", path, err)
	}
	var r Replay
	if err := json.Unmarshal(b, &r); err != nil {
		t.Fatalf("replay %s: %v", path, err)
	}
	fn, ok := fns[r.Test]
	if !ok {
		t.Fatalf("replay %s: unknown test %q", path, r.Test)
	}
	for i := 0; i < times; i++ {
		f := Guard("replay", func() *Failure { return fn(r.Case) })
		ev.Evals(1)
		ev.Class("replayed", 1)
		if f == nil {
			continue
		}
		if desc, ok := IsKnown(ev.Property, f.Key); ok {
			ev.Known(f.Key, desc)
			continue
		}
		fmt.Printf("VERIF-VIOLATION property=%s key=%s replay=%s msg=%s\n", ev.Property, f.Key, path, oneLine(f.Msg))
		atomic.AddInt32(&violations, 1)
		t.Errorf("%s: %s: %s", path, f.Key, f.Msg)
		return
	}
}

// ReplayMain implements TestReplay: re-executes $VERIF_REPLAY (VERIF_REPLAY_TIMES times for
// schedule-dependent checks).
func ReplayMain(t *testing.T, ev *Evidence, fns map[string]ReplayFn) {
	p := os.Getenv("VERIF_REPLAY")
	if p == "" {
		t.Skip("no VERIF_REPLAY")
	}
	replayFile(t, ev, p, fns, EnvInt("VERIF_REPLAY_TIMES", 1))
}

// RegressMain implements TestRegress: re-executes every saved case under $VERIF_REGRESS_DIR.
func RegressMain(t *testing.T, ev *Evidence, fns map[string]ReplayFn) {
	dir := os.Getenv("VERIF_REGRESS_DIR")
	if dir == "" {
		t.Skip("no VERIF_REGRESS_DIR")
	}
	files, _ := filepath.Glob(filepath.Join(dir, "*.json"))
	sort.Strings(files)
	for _, f := range files {
		replayFile(t, ev, f, fns, 1)
	}
}
