package vlib

import (
	"encoding/json"
	"fmt"
	"hash/fnv"
	"os"
	"path/filepath"
	"sort"
	"strconv"
	"strings"
	"sync"
	"testing"
	"time"
)

// Evidence accumulates what one shard of a check explored.  It is written as a fragment
// (JSON) by Flush; the driver merges the fragments of all shards into /verif/evidence/Cnn.json.
type Evidence struct {
	mu        sync.Mutex
	Property  string
	Rule      string
	evals     int
	hashes    map[uint64]struct{} // distinct non-trivial cases
	hashCap   int
	overflow  int
	classes   map[string]int
	samples   []interface{}
	ntSamples []interface{}
	known     map[string]int
	knownDesc map[string]string
	extra     map[string]interface{}
	assume    []string
	start     time.Time
}

var (
	evMu  sync.Mutex
	evAll []*Evidence
)

// NewEvidence creates (and registers for Flush) the evidence collector of a property.
func NewEvidence(property, rule string) *Evidence {
	e := &Evidence{Property: property, Rule: rule, hashes: map[uint64]struct{}{}, hashCap: 400000,
		classes: map[string]int{}, known: map[string]int{}, knownDesc: map[string]string{},
		extra: map[string]interface{}{}, start: time.Now()}
	evMu.Lock()
	evAll = append(evAll, e)
	evMu.Unlock()
	return e
}

// Hash64 hashes the canonical form of a case.
func Hash64(canon string) uint64 {
	h := fnv.New64a()
	_, _ = h.Write([]byte(canon))
	return h.Sum64()
}

// Canon renders any JSON-serialisable value canonically (encoding/json sorts map keys).
func Canon(v interface{}) string {
	b, err := json.Marshal(v)
	if err != nil {
		return fmt.Sprintf("%#v", v)
	}
	return string(b)
}

// Case records one generated case: canon identifies it (distinctness), nontrivial is the
// property's stated rule evaluated on this case, classes feed the histogram.
func (e *Evidence) Case(canon string, nontrivial bool, classes ...string) {
	e.mu.Lock()
	defer e.mu.Unlock()
	e.evals++
	for _, c := range classes {
		e.classes[c]++
	}
	if nontrivial {
		e.classes["nontrivial"]++
		if len(e.hashes) < e.hashCap {
			e.hashes[Hash64(canon)] = struct{}{}
		} else {
			e.overflow++
		}
	}
}

// NonTrivial records a distinct non-trivial item that is not a generated case of its own (e.g.
// one crash image of a run) without counting an evaluation.
func (e *Evidence) NonTrivial(canon string) {
	e.mu.Lock()
	defer e.mu.Unlock()
	e.classes["nontrivial"]++
	if len(e.hashes) < e.hashCap {
		e.hashes[Hash64(canon)] = struct{}{}
	} else {
		e.overflow++
	}
}

// Evals adds evaluations that are not distinct cases of their own (e.g. queries of one corpus).
func (e *Evidence) Evals(n int) {
	e.mu.Lock()
	e.evals += n
	e.mu.Unlock()
}

// Class bumps a histogram class.
func (e *Evidence) Class(name string, n int) {
	e.mu.Lock()
	e.classes[name] += n
	e.mu.Unlock()
}

// Sample keeps a few cases verbatim (non-trivial ones preferred).
func (e *Evidence) Sample(v interface{}, nontrivial bool) {
	e.mu.Lock()
	defer e.mu.Unlock()
	if nontrivial {
		if len(e.ntSamples) < 4 {
			e.ntSamples = append(e.ntSamples, v)
		}
	} else if len(e.samples) < 2 {
		e.samples = append(e.samples, v)
	}
}

// Extra stores an additional key in the coverage object.
func (e *Evidence) Extra(k string, v interface{}) {
	e.mu.Lock()
	e.extra[k] = v
	e.mu.Unlock()
}

// AddExtra adds n to a numeric extra key.
func (e *Evidence) AddExtra(k string, n int) {
	e.mu.Lock()
	cur, _ := e.extra[k].(int)
	e.extra[k] = cur + n
	e.mu.Unlock()
}

// Assume records an assumption of the check.
func (e *Evidence) Assume(s string) {
	e.mu.Lock()
	for _, a := range e.assume {
		if a == s {
			e.mu.Unlock()
			return
		}
	}
	e.assume = append(e.assume, s)
	e.mu.Unlock()
}

// Known records one occurrence of a listed known finding.
func (e *Evidence) Known(key, desc string) {
	e.mu.Lock()
	e.known[key]++
	if _, ok := e.knownDesc[key]; !ok {
		e.knownDesc[key] = desc
	}
	e.mu.Unlock()
}

type fragment struct {
	Property   string                 `json:"property"`
	Rule       string                 `json:"rule"`
	Evals      int                    `json:"evaluations"`
	Hashes     []string               `json:"hashes"`
	Overflow   int                    `json:"overflow"`
	Classes    map[string]int         `json:"classes"`
	Samples    []interface{}          `json:"samples"`
	Known      map[string]int         `json:"known"`
	KnownDesc  map[string]string      `json:"known_desc"`
	Extra      map[string]interface{} `json:"extra"`
	Assume     []string               `json:"assumptions"`
	WallS      float64                `json:"wall_s"`
	Violations int                    `json:"violations"`
}

var violations int32

// Flush writes all registered collectors to $VERIF_FRAG (one file per property: the path
// gets "-<property>" appended when more than one collector exists).
func Flush() {
	path := os.Getenv("VERIF_FRAG")
	if path == "" {
		return
	}
	evMu.Lock()
	defer evMu.Unlock()
	for _, e := range evAll {
		e.mu.Lock()
		f := fragment{Property: e.Property, Rule: e.Rule, Evals: e.evals, Overflow: e.overflow,
			Classes: e.classes, Known: e.known, KnownDesc: e.knownDesc, Extra: e.extra, Assume: e.assume,
			WallS: time.Since(e.start).Seconds(), Violations: int(violations)}
		for h := range e.hashes {
			f.Hashes = append(f.Hashes, strconv.FormatUint(h, 16))
		}
		sort.Strings(f.Hashes)
		f.Samples = append(append([]interface{}{}, e.ntSamples...), e.samples...)
		e.mu.Unlock()
		p := path
		if len(evAll) > 1 {
			p = strings.TrimSuffix(path, ".json") + "-" + e.Property + ".json"
		}
		b, _ := json.Marshal(f)
		_ = os.MkdirAll(filepath.Dir(p), 0o755)
		_ = os.WriteFile(p, b, 0o644)
	}
}

// Main is the TestMain of every check package.
func Main(m *testing.M) {
	if ChildMain() {
		return
	}
	code := m.Run()
	Flush()
	CleanScratch()
	os.Exit(code)
}

// Tier returns "quick" or "thorough".
func Tier() string {
	if os.Getenv("VERIF_TIER") == "thorough" {
		return "thorough"
	}
	return "quick"
}

// Thorough reports whether the thorough tier is running.
func Thorough() bool { return Tier() == "thorough" }

// Shard returns the shard index and the shard count of this process.
func Shard() (int, int) {
	i, _ := strconv.Atoi(os.Getenv("VERIF_SHARD"))
	n, _ := strconv.Atoi(os.Getenv("VERIF_SHARDS"))
	if n <= 0 {
		n = 1
	}
	return i, n
}

// Seed returns the seed of this shard (never 0).
func Seed() uint64 {
	s, _ := strconv.ParseUint(os.Getenv("VERIF_SHARD_SEED"), 10, 64)
	if s == 0 {
		s = 1
	}
	return s
}

// EnvInt reads an integer knob (used by the driver to scale case counts per tier).
func EnvInt(name string, def int) int {
	if v := os.Getenv(name); v != "" {
		if n, err := strconv.Atoi(v); err == nil {
			return n
		}
	}
	return def
}
