package vlib

import (
	"context"
	"fmt"
	"sort"

	"github.com/blugelabs/bluge"
	"github.com/blugelabs/bluge/search"
	"github.com/blugelabs/bluge/search/aggregations"
)

// FullObs extends Obs with everything C04 compares between two uses of one reader: document
// values (through a sum aggregation and a field sort), a dictionary scan and a few searches
// with scores.
type FullObs struct {
	Obs     *Obs                `json:"obs"`
	SumN    float64             `json:"sum_n"`
	CountN  uint64              `json:"count_agg"`
	SortedK []string            `json:"sorted_k"` // "id#ver|sortkeys" in result order of a search sorted by k, _id
	DictK   []string            `json:"dict_k"`   // "term:count" of the dictionary of field k
	DictT   []string            `json:"dict_t"`
	Queries map[string][]string `json:"queries"` // query name -> "id#ver@score" in rank order
	Fields  []string            `json:"fields"`
}

// ObserveFull performs the complete observation of a reader.  noStored: never load stored
// fields (ids and versions from sort keys; see Idx.NoStored).
func ObserveFull(r *bluge.Reader, ids []string, noStored bool) (*FullObs, error) {
	fo := &FullObs{Queries: map[string][]string{}}
	var err error
	if noStored {
		fo.Obs, err = ObserveNoStored(r, ids)
	} else {
		fo.Obs, err = Observe(r, ids)
	}
	if err != nil {
		return nil, err
	}
	idVer := func(r *bluge.Reader, number uint64) (string, error) {
		if noStored {
			return fmt.Sprintf("doc%d", number), nil // doc numbers are stable for one reader
		}
		d, err := loadDoc(r, number)
		if err != nil {
			return "", err
		}
		return d.ID + "#" + d.Ver, nil
	}
	ctx := context.Background()
	// document values through aggregations
	req := bluge.NewAllMatches(bluge.NewMatchAllQuery())
	req.AddAggregation("sum", aggregations.Sum(search.Field("n")))
	req.AddAggregation("cnt", aggregations.CountMatches())
	it, err := r.Search(ctx, req)
	if err != nil {
		return nil, fmt.Errorf("aggregation search: %w", err)
	}
	for {
		m, err := it.Next()
		if err != nil {
			return nil, fmt.Errorf("aggregation search next: %w", err)
		}
		if m == nil {
			break
		}
	}
	fo.SumN = it.Aggregations().Metric("sum")
	fo.CountN = it.Aggregations().Count()
	// document values through a field sort
	top := bluge.NewTopNSearch(10000, bluge.NewMatchAllQuery()).SortBy([]string{"k", "_id"})
	it, err = r.Search(ctx, top)
	if err != nil {
		return nil, fmt.Errorf("sorted search: %w", err)
	}
	for {
		m, err := it.Next()
		if err != nil {
			return nil, fmt.Errorf("sorted search next: %w", err)
		}
		if m == nil {
			break
		}
		iv, err := idVer(r, m.Number)
		if err != nil {
			return nil, err
		}
		s := iv + "|"
		for _, sv := range m.SortValue {
			s += fmt.Sprintf("%q,", sv)
		}
		fo.SortedK = append(fo.SortedK, s)
	}
	// dictionary scans
	for _, fld := range []string{"k", "t"} {
		di, err := r.DictionaryIterator(fld, nil, nil, nil)
		if err != nil {
			return nil, fmt.Errorf("dictionary %s: %w", fld, err)
		}
		var terms []string
		for {
			e, err := di.Next()
			if err != nil {
				return nil, fmt.Errorf("dictionary %s next: %w", fld, err)
			}
			if e == nil {
				break
			}
			terms = append(terms, fmt.Sprintf("%s:%d", e.Term(), e.Count()))
		}
		_ = di.Close()
		if fld == "k" {
			fo.DictK = terms
		} else {
			fo.DictT = terms
		}
	}
	// a few searches (scores included: they depend on the reader's statistics only)
	qs := map[string]bluge.Query{
		"term-alpha":   bluge.NewTermQuery("alpha").SetField("t"),
		"phrase":       bluge.NewMatchPhraseQuery("beta gamma").SetField("t"),
		"bool":         bluge.NewBooleanQuery().AddMust(bluge.NewTermQuery("delta").SetField("t")).AddMustNot(bluge.NewTermQuery("a").SetField("k")),
		"prefix-k":     bluge.NewPrefixQuery("a").SetField("k"),
		"range-n":      bluge.NewNumericRangeInclusiveQuery(0, 8, true, true).SetField("n"),
		"disj-unscore": bluge.NewBooleanQuery().AddShould(bluge.NewTermQuery("zeta").SetField("t"), bluge.NewTermQuery("b").SetField("k")),
	}
	names := make([]string, 0, len(qs))
	for n := range qs {
		names = append(names, n)
	}
	sort.Strings(names)
	for _, n := range names {
		it, err := r.Search(ctx, bluge.NewTopNSearch(10000, qs[n]))
		if err != nil {
			return nil, fmt.Errorf("query %s: %w", n, err)
		}
		var hits []string
		for {
			m, err := it.Next()
			if err != nil {
				return nil, fmt.Errorf("query %s next: %w", n, err)
			}
			if m == nil {
				break
			}
			iv, err := idVer(r, m.Number)
			if err != nil {
				return nil, err
			}
			hits = append(hits, fmt.Sprintf("%s@%v", iv, m.Score))
		}
		fo.Queries[n] = hits
	}
	if fo.Fields, err = r.Fields(); err != nil {
		return nil, fmt.Errorf("fields: %w", err)
	}
	sort.Strings(fo.Fields)
	return fo, nil
}
