package vlib

import (
	"fmt"
	"os"
	"path/filepath"
	"sort"
	"strings"

	"github.com/blugelabs/bluge"
	"github.com/blugelabs/bluge/index"
)

// Interval is a half-open range of crash instants [Lo,Hi) in clock stamps (Hi = maxStamp for
// "until the end of time").
type Interval struct{ Lo, Hi int64 }

const maxStamp = int64(1) << 62

// Image is the storage state of one crash instant.
type Image struct {
	Files     map[string]string // file name -> blob hash
	Kind      string            // boundary | torn-prefix | torn-zero | torn-stale | torn-empty
	Event     int               // boundary: index of the last completed event; torn: the event in flight
	Intervals []Interval
	Note      string
}

// Key is the content identity of the image.
func (im *Image) Key() string {
	var sb strings.Builder
	for _, n := range SortedNames(im.Files) {
		sb.WriteString(n)
		sb.WriteByte('=')
		sb.WriteString(im.Files[n])
		sb.WriteByte(';')
	}
	return sb.String()
}

// ImageOpts bounds the torn-variant enumeration.
type ImageOpts struct {
	AllPrefixesUpTo int  // every prefix length for files up to this size (bytes)
	NoTorn          bool // boundary images only
}

func prefixSet(n int, all int) []int {
	if n <= all {
		r := make([]int, 0, n)
		for i := 0; i < n; i++ {
			r = append(r, i)
		}
		return r
	}
	set := map[int]bool{0: true, 1: true, 2: true, n / 2: true}
	for k := 1; k <= 5; k++ {
		if n-k >= 0 {
			set[n-k] = true
		}
	}
	for p := 4096; p < n; p += 4096 {
		set[p] = true
		set[p-1] = true
	}
	r := make([]int, 0, len(set))
	for p := range set {
		if p >= 0 && p < n {
			r = append(r, p)
		}
	}
	sort.Ints(r)
	return r
}

func cloneFiles(m map[string]string) map[string]string {
	r := make(map[string]string, len(m))
	for k, v := range m {
		r[k] = v
	}
	return r
}

// BuildImages derives, post hoc, every crash image of a recorded run: the content after each
// mutating operation (boundary images) and the torn variants of each persist in flight on top
// of the content before it.  Images with equal content are merged (their intervals are kept).
func BuildImages(trace []*DirEvent, blobs map[string][]byte, opt ImageOpts) []*Image {
	byKey := map[string]*Image{}
	var order []*Image
	add := func(files map[string]string, kind string, ev int, iv Interval, note string) {
		im := &Image{Files: files, Kind: kind, Event: ev, Note: note}
		k := im.Key()
		if old, ok := byKey[k]; ok {
			old.Intervals = append(old.Intervals, iv)
			return
		}
		im.Intervals = []Interval{iv}
		byKey[k] = im
		order = append(order, im)
	}
	put := func(b []byte) string {
		h := hashBytes(b)
		if _, ok := blobs[h]; !ok {
			blobs[h] = b
		}
		return h
	}
	// mutating events (and the setup event, which defines the initial content)
	var mut []int
	for i, e := range trace {
		if e.After != nil {
			mut = append(mut, i)
		}
	}
	for mi, i := range mut {
		e := trace[i]
		hi := maxStamp
		if mi+1 < len(mut) {
			hi = trace[mut[mi+1]].Begin
		}
		add(cloneFiles(e.After), "boundary", i, Interval{e.End, hi}, fmt.Sprintf("after %s %s", e.Op, e.Name))
		if opt.NoTorn || e.Op != "persist" || mi == 0 {
			continue
		}
		base := trace[mut[mi-1]].After
		iv := Interval{e.Begin, e.End}
		data := e.Data
		var old []byte
		hadOld := false
		if h, ok := base[e.Name]; ok {
			old, hadOld = blobs[h], true
		}
		// did the completed operation replace the old file, or write over it?
		overwrote := false
		if hadOld && e.Err == "" && len(old) > len(data) {
			if h, ok := e.After[e.Name]; ok {
				cur := blobs[h]
				if len(cur) == len(old) && string(cur[:len(data)]) == string(data) && string(cur[len(data):]) == string(old[len(data):]) {
					overwrote = true
				}
			}
		}
		all := opt.AllPrefixesUpTo
		if e.Kind == index.ItemKindSnapshot && all < 1024 {
			all = 1024 // snapshot files are tiny: every prefix
		}
		for _, p := range prefixSet(len(data), all) {
			f := cloneFiles(base)
			f[e.Name] = put(append([]byte(nil), data[:p]...))
			kind := "torn-prefix"
			if p == 0 {
				kind = "torn-empty"
			}
			add(f, kind, i, iv, fmt.Sprintf("%s torn at %d/%d", e.Name, p, len(data)))
			if overwrote && p < len(old) {
				f2 := cloneFiles(base)
				f2[e.Name] = put(append(append([]byte(nil), data[:p]...), old[p:]...))
				add(f2, "torn-stale", i, iv, fmt.Sprintf("%s torn at %d/%d + stale tail of the previous file (%d bytes)", e.Name, p, len(data), len(old)))
			}
		}
		if len(data) > 0 {
			f := cloneFiles(base)
			f[e.Name] = put(make([]byte, len(data)))
			add(f, "torn-zero", i, iv, fmt.Sprintf("%s zero-filled %d bytes", e.Name, len(data)))
		}
		// operation in flight but nothing visible yet (file not created / old file still intact)
		add(cloneFiles(base), "boundary", mut[mi-1], Interval{e.Begin, e.End}, "operation in flight, nothing visible yet")
	}
	return order
}

// Materialize writes an image into dir (created fresh).
func Materialize(im *Image, blobs map[string][]byte, dir string) error {
	_ = os.RemoveAll(dir)
	if err := os.MkdirAll(dir, 0o755); err != nil {
		return err
	}
	for name, h := range im.Files {
		if err := os.WriteFile(filepath.Join(dir, name), blobs[h], 0o600); err != nil {
			return err
		}
	}
	return nil
}

// RunRecord is what a recorded run of batches looked like from the client side.
type RunRecord struct {
	Batches   []BatchSpec
	CallBegin []int64 // stamp before the Batch call
	CallEnd   []int64 // stamp after it returned
	CallErr   []string
	Ack       []int64 // stamp of the acknowledgement (safe: CallEnd when nil was returned; unsafe: callback(nil)); 0 = none
	Trace     []*DirEvent
	Blobs     map[string][]byte
	// HadSnapshot: a loadable snapshot existed before this run started (continuation phases)
	HadSnapshot bool
}

// StateRange computes, for a crash interval, the admissible range of recovered model states:
// at least every batch acknowledged before the latest instant of the interval, at most the
// batches whose call had begun before it.
func (r *RunRecord) StateRange(iv Interval) (lo, hi int) {
	for j := range r.Batches {
		if r.Ack[j] != 0 && r.Ack[j] < iv.Hi {
			if j+1 > lo {
				lo = j + 1
			}
		}
		if r.CallBegin[j] < iv.Hi {
			hi = j + 1
		}
	}
	return
}

// SnapshotEverCompleted reports whether a snapshot persist had completed before the interval's
// latest instant, or the initial content already held a snapshot file.
func (r *RunRecord) SnapshotEverCompleted(iv Interval) bool {
	if r.HadSnapshot {
		return true
	}
	for _, e := range r.Trace {
		if e.Op == "persist" && e.Kind == index.ItemKindSnapshot && e.Err == "" && e.End <= iv.Lo {
			return true
		}
	}
	return false
}

// Recovered is the outcome of opening one image.
type Recovered struct {
	OpenErr string
	Obs     *Obs
	State   int // index of the matching model state, -1 if none
}

// OpenImage materialises an image and opens it read-only.
func OpenImage(conf IdxConf, im *Image, blobs map[string][]byte, dir string, ids []string) (*Recovered, *Failure) {
	if err := Materialize(im, blobs, dir); err != nil {
		return nil, Failf("harness-materialize", "%v", err)
	}
	c := conf
	c.Dir = "fs"
	cfg := c.Config(dir, nil)
	rec := &Recovered{State: -1}
	f := Watchdog("OpenReader(image)", CallBound, func() *Failure {
		r, err := bluge.OpenReader(cfg)
		if err != nil {
			rec.OpenErr = err.Error()
			return nil
		}
		defer r.Close()
		o, err := Observe(r, ids)
		if err != nil {
			return Failf("recovered-reader-unusable", "image (%s): reader opened but observation failed: %v", im.Note, err)
		}
		rec.Obs = o
		return nil
	})
	return rec, f
}

// MatchState finds the model state equal to the observed keys within [lo,hi]; if none matches
// there it looks outside to classify the failure.
func MatchState(states [][]string, keys []string, lo, hi int) (int, string) {
	eq := func(a, b []string) bool { return eqStrings(a, b) }
	// prefer the newest admissible state (several states can be equal)
	for p := hi; p >= lo; p-- {
		if p < len(states) && eq(states[p], keys) {
			return p, ""
		}
	}
	for p := range states {
		if eq(states[p], keys) {
			if p < lo {
				return p, "acknowledged-batch-lost"
			}
			return p, "batch-visible-before-issued"
		}
	}
	return -1, "not-a-prefix-state"
}

// CheckRecovered applies the prefix oracle of C02/C03 to one opened image.
func CheckRecovered(run *RunRecord, m *Model, im *Image, rec *Recovered) (state int, f *Failure) {
	state = -1
	for _, iv := range im.Intervals {
		lo, hi := run.StateRange(iv)
		if rec.Obs == nil {
			if run.SnapshotEverCompleted(iv) {
				return -1, Failf("recovery-open-failed", "image %s [%s, crash interval %d..%d]: a snapshot had been completed but OpenReader fails: %s", im.Kind, im.Note, iv.Lo, iv.Hi, rec.OpenErr)
			}
			continue
		}
		keys := rec.Obs.Keys()
		p, why := MatchState(m.States, keys, lo, hi)
		if why != "" {
			return p, Failf(why, "image %s [%s, crash interval %d..%d]: recovered %v which is %s; admissible states S_%d..S_%d (last acknowledged batch %d); S_%d=%v", im.Kind, im.Note, iv.Lo, iv.Hi, clip(keys), describeState(p), lo, hi, lo, lo, clip(m.States[lo]))
		}
		state = p
	}
	if rec.Obs != nil {
		// internal consistency of the recovered reader: count, stored fields, id lookups
		if int(rec.Obs.Count) != len(rec.Obs.Docs) {
			return state, Failf("count-mismatch", "image %s [%s]: Count()=%d but match-all yields %d", im.Kind, im.Note, rec.Obs.Count, len(rec.Obs.Docs))
		}
		byID := map[string][]string{}
		for _, d := range rec.Obs.Docs {
			spec, ok := m.Docs[d.ID+"#"+d.Ver]
			if !ok {
				return state, Failf("document-extra", "image %s [%s]: unknown document %s#%s", im.Kind, im.Note, d.ID, d.Ver)
			}
			if !eqStrings(spec.T, d.T) || !eqStrings(spec.K, d.K) || len(spec.N) != d.N {
				return state, Failf("stored-field-mismatch", "image %s [%s]: document %s stored fields differ from what was written", im.Kind, im.Note, spec.Key())
			}
			byID[d.ID] = append(byID[d.ID], d.Ver)
		}
		for id, vers := range byID {
			sort.Strings(vers)
			if !eqStrings(vers, rec.Obs.ByID[id]) {
				return state, Failf("id-lookup-mismatch", "image %s [%s]: lookup of %q gives %v, enumeration has %v", im.Kind, im.Note, id, rec.Obs.ByID[id], vers)
			}
		}
		for id, vers := range rec.Obs.ByID {
			if len(byID[id]) == 0 && len(vers) > 0 {
				return state, Failf("id-lookup-mismatch", "image %s [%s]: lookup of %q gives %v but the enumeration has none", im.Kind, im.Note, id, vers)
			}
		}
	}
	return state, nil
}

func describeState(p int) string {
	if p < 0 {
		return "no state of the applied batch sequence (partial batch, resurrected, duplicated or lost document)"
	}
	return fmt.Sprintf("state S_%d", p)
}
