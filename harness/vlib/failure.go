package vlib

import (
	"bufio"
	"encoding/json"
	"fmt"
	"os"
	"path/filepath"
	"runtime/debug"
	"strings"
	"sync"
	"sync/atomic"
	"time"
)

// Failure is a refuted property instance.  Key names the root-cause class (call site and
// input class); KNOWN_FINDINGS.txt lists keys, never whole properties.
type Failure struct {
	Key string `json:"key"`
	Msg string `json:"msg"`
}

func (f *Failure) Error() string { return f.Key + ": " + f.Msg }

// Failf builds a Failure.
func Failf(key, format string, args ...interface{}) *Failure {
	return &Failure{Key: key, Msg: fmt.Sprintf(format, args...)}
}

// TB is the subset of testing.TB / *rapid.T used by Report.
type TB interface {
	Fatalf(format string, args ...interface{})
	Logf(format string, args ...interface{})
}

var (
	knownOnce sync.Once
	knownKeys map[string]string // "Cnn/key" -> description
)

func verifRoot() string {
	if r := os.Getenv("VERIF_ROOT"); r != "" {
		return r
	}
	return "/verif"
}

func loadKnown() {
	knownKeys = map[string]string{}
	f, err := os.Open(filepath.Join(verifRoot(), "KNOWN_FINDINGS.txt"))
	if err != nil {
		return
	}
	defer f.Close()
	sc := bufio.NewScanner(f)
	for sc.Scan() {
		line := strings.TrimSpace(sc.Text())
		if !strings.HasPrefix(line, "known:") {
			continue // "fixed:" lines suppress nothing
		}
		var prop, key string
		rest := strings.Fields(strings.TrimPrefix(line, "known:"))
		desc := []string{}
		for _, w := range rest {
			switch {
			case strings.HasPrefix(w, "property=") && prop == "":
				prop = strings.TrimPrefix(w, "property=")
			case strings.HasPrefix(w, "key=") && key == "":
				key = strings.TrimPrefix(w, "key=")
			default:
				desc = append(desc, w)
			}
		}
		if prop != "" && key != "" {
			knownKeys[prop+"/"+key] = strings.Join(desc, " ")
		}
	}
}

// IsKnown reports whether (property, key) is a listed known finding.
func IsKnown(property, key string) (string, bool) {
	knownOnce.Do(loadKnown)
	d, ok := knownKeys[property+"/"+key]
	return d, ok
}

// IceV2OffsetsPanicKey: third-party defect in github.com/blugelabs/ice/v2 read.go
// getDocStoredOffsets: the two length varints of a stored entry are sliced with
// MaxVarintLen64 bytes each, which runs past the decompressed chunk for the last document of a
// segment whose stored entries are short ("slice bounds out of range [:n] with capacity m").
const IceV2OffsetsPanicKey = "icev2-stored-offsets-panic"

// ClassifyThirdParty re-keys failures whose root cause is a specific, identified defect of a
// bundled third-party library, so that they can be listed (per property) as known findings
// without hiding anything else.
func ClassifyThirdParty(f *Failure) {
	if f == nil {
		return
	}
	if strings.HasPrefix(f.Key, "panic@") && strings.Contains(f.Msg, "slice bounds out of range") &&
		strings.Contains(f.Msg, "ice/v2.(*Segment).getDocStoredOffsets") {
		f.Key = IceV2OffsetsPanicKey
	}
}

// Replay is the JSON document written for a failing case.
type Replay struct {
	Property string          `json:"property"`
	Test     string          `json:"test"`
	Key      string          `json:"key"`
	Msg      string          `json:"msg"`
	Case     json.RawMessage `json:"case"`
}

// ReplayPath returns the path of the replay file this shard writes for (property, test).
func ReplayPath(property, test string) string {
	dir := os.Getenv("VERIF_REPLAY_DIR")
	if dir == "" {
		dir = filepath.Join(verifRoot(), "replays")
	}
	sh, _ := Shard()
	return filepath.Join(dir, fmt.Sprintf("%s-%s-s%d-%d.json", property, test, Seed(), sh))
}

// Report handles the verdict of one case.  nil failure: nothing.  Known key: counted, the
// search continues (returns false).  Otherwise the case is written as a replay file (the last
// write wins, so after shrinking the file holds the minimal case), a VERIF-VIOLATION line is
// printed and t fails.
func Report(t TB, ev *Evidence, test string, c interface{}, f *Failure) bool {
	if f == nil {
		return false
	}
	ClassifyThirdParty(f)
	if desc, ok := IsKnown(ev.Property, f.Key); ok {
		ev.Known(f.Key, desc)
		return false
	}
	if os.Getenv("VERIF_REPLAY") != "" {
		// replaying: no new file
		fmt.Printf("VERIF-VIOLATION property=%s key=%s replay=%s msg=%s\n", ev.Property, f.Key, os.Getenv("VERIF_REPLAY"), oneLine(f.Msg))
		atomic.AddInt32(&violations, 1)
		t.Fatalf("%s: %s", f.Key, f.Msg)
		return true
	}
	p := ReplayPath(ev.Property, test)
	cb, _ := json.Marshal(c)
	rb, _ := json.MarshalIndent(Replay{Property: ev.Property, Test: test, Key: f.Key, Msg: f.Msg, Case: cb}, "", " ")
	_ = os.MkdirAll(filepath.Dir(p), 0o755)
	_ = os.WriteFile(p, rb, 0o644)
	fmt.Printf("VERIF-VIOLATION property=%s key=%s replay=%s msg=%s\n", ev.Property, f.Key, p, oneLine(f.Msg))
	atomic.AddInt32(&violations, 1)
	t.Fatalf("%s: %s", f.Key, f.Msg)
	return true
}

func oneLine(s string) string {
	s = strings.ReplaceAll(s, "\n", " | ")
	if len(s) > 600 {
		s = s[:600] + "…"
	}
	return s
}

// LoadReplay reads $VERIF_REPLAY into c; ok is false when no replay was requested.
func LoadReplay(test string, c interface{}) (ok bool, err error) {
	p := os.Getenv("VERIF_REPLAY")
	if p == "" {
		return false, nil
	}
	b, err := os.ReadFile(p)
	if err != nil {
		return false, err
	}
	var r Replay
	if err := json.Unmarshal(b, &r); err != nil {
		return false, err
	}
	if r.Test != test {
		return false, nil
	}
	return true, json.Unmarshal(r.Case, c)
}

// Guard runs f, converting a panic into a Failure (key "panic@<site>").
func Guard(site string, f func() *Failure) (fail *Failure) {
	defer func() {
		if r := recover(); r != nil {
			fail = &Failure{Key: "panic@" + site, Msg: fmt.Sprintf("panic: %v\n%s", r, trimStack(debug.Stack()))}
		}
	}()
	return f()
}

func trimStack(b []byte) string {
	s := string(b)
	if len(s) > 3000 {
		s = s[:3000]
	}
	return s
}

// SlowCalls counts calls that needed longer than their bound but did return within the grace
// period (a loaded machine, not a hang).
var SlowCalls int64

// Watchdog runs f on its own goroutine and waits at most d, plus a grace period of 4 x d during
// which a late return is accepted (and counted in SlowCalls): a call that returns late on an
// overloaded machine is not a hang; a deadlocked or spinning call never returns and is
// reported as "hang@<site>" after 5 x d.  The goroutine cannot be stopped, so the caller
// should end the process soon after reporting.
func Watchdog(site string, d time.Duration, f func() *Failure) *Failure {
	ch := make(chan *Failure, 1)
	go func() { ch <- Guard(site, f) }()
	select {
	case r := <-ch:
		return r
	case <-time.After(d):
	}
	select {
	case r := <-ch:
		atomic.AddInt64(&SlowCalls, 1)
		return r
	case <-time.After(4 * d):
		return &Failure{Key: "hang@" + site, Msg: fmt.Sprintf("no return within %v (bound %v plus grace period)", 5*d, d)}
	}
}
