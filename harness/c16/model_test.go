// C16  Aggregations are exact over the whole match set.
//
// model.go: the JSON-serialisable case (corpus history, queries, aggregation trees, request
// settings) and the reference model (live documents, query evaluation).
package c16

import (
	"strings"
	"encoding/json"
	"fmt"
	"math"
	"sort"
	"strconv"
)

// Field schema of every generated corpus.
//
//	n1  numeric, single-valued, exactly-summable grid (lo + k/4)
//	n2  numeric, multi-valued (0-3 distinct values), same kind of grid
//	w   numeric, 0-2 distinct positive values from {0.5,1,2,3,4}: the weight field
//	x   numeric, 0-2 arbitrary finite floats: the tolerance class
//	d1  date, single-valued;  d2 date, multi-valued (0-3 distinct)
//	k1  keyword, single-valued, aggregatable;  k2 keyword, multi-valued (0-3 distinct), aggregatable
//	t   keyword without doc values, 1-2 values, only used by queries
var (
	numFields  = []string{"n1", "n2", "w", "x"}
	dateFields = []string{"d1", "d2"}
	kwFields   = []string{"k1", "k2"}
	allFields  = []string{"n1", "n2", "w", "x", "d1", "d2", "k1", "k2"}
)

func fieldKind(f string) string {
	switch f {
	case "n1", "n2", "w", "x":
		return "num"
	case "d1", "d2":
		return "date"
	case "k1", "k2":
		return "kw"
	}
	return ""
}

// F is a float64 that survives JSON also when it is infinite (range bounds).
type F float64

func (f F) MarshalJSON() ([]byte, error) {
	v := float64(f)
	switch {
	case math.IsInf(v, 1):
		return []byte(`"+inf"`), nil
	case math.IsInf(v, -1):
		return []byte(`"-inf"`), nil
	case math.IsNaN(v):
		return []byte(`"nan"`), nil
	}
	return []byte(strconv.FormatFloat(v, 'g', -1, 64)), nil
}

func (f *F) UnmarshalJSON(b []byte) error {
	var s string
	if len(b) > 0 && b[0] == '"' {
		if err := json.Unmarshal(b, &s); err != nil {
			return err
		}
		switch s {
		case "+inf":
			*f = F(math.Inf(1))
		case "-inf":
			*f = F(math.Inf(-1))
		case "nan":
			*f = F(math.NaN())
		default:
			return fmt.Errorf("bad float %q", s)
		}
		return nil
	}
	v, err := strconv.ParseFloat(string(b), 64)
	*f = F(v)
	return err
}

type Doc struct {
	ID   string               `json:"id"`
	Num  map[string][]float64 `json:"num,omitempty"`
	Date map[string][]int64   `json:"date,omitempty"` // unix nanoseconds
	Kw   map[string][]string  `json:"kw,omitempty"`   // k1, k2, t
}

func (d *Doc) has(f string) bool {
	switch fieldKind(f) {
	case "num":
		return len(d.Num[f]) > 0
	case "date":
		return len(d.Date[f]) > 0
	case "kw":
		return len(d.Kw[f]) > 0
	}
	return false
}

type Op struct {
	Del bool `json:"del,omitempty"` // delete Doc.ID; otherwise update (insert or replace) Doc
	Doc Doc  `json:"doc"`
}

type Query struct {
	Kind      string  `json:"kind"` // all | term | range | bool
	Field     string  `json:"field,omitempty"`
	Term      string  `json:"term,omitempty"`
	Lo        F       `json:"lo,omitempty"`
	Hi        F       `json:"hi,omitempty"`
	LoInc     bool    `json:"lo_inc,omitempty"`
	HiInc     bool    `json:"hi_inc,omitempty"`
	Must      []Query `json:"must,omitempty"`
	Should    []Query `json:"should,omitempty"`
	MustNot   []Query `json:"must_not,omitempty"`
	MinShould int     `json:"min_should,omitempty"`
}

type Rng struct {
	Lo F `json:"lo"`
	Hi F `json:"hi"`
}

// DRng is a date range; an unbounded end is the zero time.Time for bluge.
type DRng struct {
	Start   int64 `json:"start"`
	End     int64 `json:"end"`
	NoStart bool  `json:"no_start,omitempty"`
	NoEnd   bool  `json:"no_end,omitempty"`
}

type Agg struct {
	Kind    string    `json:"kind"` // count sum min max avg wavg card quant terms ranges dranges
	Field   string    `json:"field,omitempty"`
	Weight  string    `json:"weight,omitempty"`
	Ps      []float64 `json:"ps,omitempty"`
	Size    int       `json:"size,omitempty"`
	Ranges  []Rng     `json:"ranges,omitempty"`
	DRanges []DRng    `json:"dranges,omitempty"`
	Sub     []Agg     `json:"sub,omitempty"` // nested metrics of a bucket aggregation
	// Filter: the node reads its field through a filtering source (aggregations.FilterText /
	// FilterNumeric / FilterDate, or search.FilterText when Alt is set); the weight of a weighted
	// average is never filtered
	Filter *Flt `json:"filter,omitempty"`
}

// Flt keeps the values v of the node's field with v >= bound ("ge"), v < bound ("lt"), v != bound
// ("ne", keywords only) or with the prefix Str ("prefix", keywords only).
type Flt struct {
	Op   string `json:"op"`
	Num  F      `json:"num,omitempty"`
	Str  string `json:"str,omitempty"`
	Date int64  `json:"date,omitempty"`
	Alt  bool   `json:"alt,omitempty"`
}

func (f *Flt) keepStr(v string) bool {
	switch f.Op {
	case "ge":
		return v >= f.Str
	case "lt":
		return v < f.Str
	case "ne":
		return v != f.Str
	case "prefix":
		return strings.HasPrefix(v, f.Str)
	}
	return true
}

func (f *Flt) keepNum(v float64) bool {
	if f.Op == "lt" {
		return v < float64(f.Num)
	}
	return v >= float64(f.Num)
}

func (f *Flt) keepDate(v int64) bool {
	if f.Op == "lt" {
		return v < f.Date
	}
	return v >= f.Date
}

// kw, num, date: the values of the node's own field that reach the node
func (a *Agg) kw(d *Doc) []string {
	vs := d.Kw[a.Field]
	if a.Filter == nil {
		return vs
	}
	var r []string
	for _, v := range vs {
		if a.Filter.keepStr(v) {
			r = append(r, v)
		}
	}
	return r
}

func (a *Agg) num(d *Doc) []float64 {
	vs := d.Num[a.Field]
	if a.Filter == nil {
		return vs
	}
	var r []float64
	for _, v := range vs {
		if a.Filter.keepNum(v) {
			r = append(r, v)
		}
	}
	return r
}

func (a *Agg) date(d *Doc) []int64 {
	vs := d.Date[a.Field]
	if a.Filter == nil {
		return vs
	}
	var r []int64
	for _, v := range vs {
		if a.Filter.keepDate(v) {
			r = append(r, v)
		}
	}
	return r
}

func (a Agg) isBucket() bool { return a.Kind == "terms" || a.Kind == "ranges" || a.Kind == "dranges" }

// ownFields lists the fields this node reads itself (not its children).
func (a Agg) ownFields() []string {
	var r []string
	if a.Field != "" {
		r = append(r, a.Field)
	}
	if a.Weight != "" {
		r = append(r, a.Weight)
	}
	return r
}

// treeFields lists every field use of the tree, with repetitions.
func (a Agg) treeFields() []string {
	r := a.ownFields()
	for _, s := range a.Sub {
		r = append(r, s.treeFields()...)
	}
	return r
}

type Setting struct {
	Kind     string   `json:"kind"` // all | topn | after | before
	N        int      `json:"n,omitempty"`
	From     int      `json:"from,omitempty"`
	Sort     []string `json:"sort,omitempty"` // empty: the default order (score descending)
	AfterIdx int      `json:"after_idx,omitempty"`
}

type Req struct {
	Q        Query     `json:"q"`
	Aggs     []Agg     `json:"aggs"`
	Settings []Setting `json:"settings"`
}

type Case struct {
	SegV2   bool   `json:"seg_v2,omitempty"`
	Batches [][]Op `json:"batches"`
	Reqs    []Req  `json:"reqs"`
}

// live replays the history on the model: id -> last written document, deleted ids gone.
// The result is sorted by id (the order carries no meaning).
func (c *Case) live() []*Doc {
	m := map[string]*Doc{}
	for bi := range c.Batches {
		for oi := range c.Batches[bi] {
			op := &c.Batches[bi][oi]
			if op.Del {
				delete(m, op.Doc.ID)
			} else {
				m[op.Doc.ID] = &op.Doc
			}
		}
	}
	ids := make([]string, 0, len(m))
	for id := range m {
		ids = append(ids, id)
	}
	sort.Strings(ids)
	r := make([]*Doc, 0, len(ids))
	for _, id := range ids {
		r = append(r, m[id])
	}
	return r
}

// eval is the reference evaluator of the (deliberately simple) query language.
func (q *Query) eval(d *Doc) bool {
	switch q.Kind {
	case "all":
		return true
	case "term":
		for _, v := range d.Kw[q.Field] {
			if v == q.Term {
				return true
			}
		}
		return false
	case "range":
		lo, hi := float64(q.Lo), float64(q.Hi)
		for _, v := range d.Num[q.Field] {
			okLo := v > lo || (q.LoInc && v == lo)
			okHi := v < hi || (q.HiInc && v == hi)
			if okLo && okHi {
				return true
			}
		}
		return false
	case "bool":
		for i := range q.Must {
			if !q.Must[i].eval(d) {
				return false
			}
		}
		for i := range q.MustNot {
			if q.MustNot[i].eval(d) {
				return false
			}
		}
		n := 0
		for i := range q.Should {
			if q.Should[i].eval(d) {
				n++
			}
		}
		return n >= q.MinShould
	}
	return false
}

func (q *Query) kindClass() string {
	if q.Kind != "bool" {
		return "query:" + q.Kind
	}
	s := "query:bool"
	if len(q.Must) > 0 {
		s += "+must"
	}
	if len(q.Should) > 0 {
		s += "+should"
	}
	if len(q.MustNot) > 0 {
		s += "+not"
	}
	return s
}
