// C16  Aggregations are exact over the whole match set.
//
// c16_test.go: index construction, request execution, the oracle (recomputation over the model's
// matched documents), evidence accounting and replay.
package c16

import (
	"context"
	"encoding/json"
	"fmt"
	"math"
	"sort"
	"strings"
	"testing"
	"time"

	"github.com/axiomhq/hyperloglog"
	"github.com/blugelabs/bluge"
	"github.com/blugelabs/bluge/search"
	"github.com/blugelabs/bluge/search/aggregations"
	"pgregory.net/rapid"

	"verifharness/vlib"
)

func TestMain(m *testing.M) { vlib.Main(m) }

var ev = vlib.NewEvidence("C16",
	"corpora: in-memory index (merging off, segment version 1 or 2), 5-60 documents written in 2-6 batches with deletions and replacements, "+
		"numeric (single/multi-valued, exactly summable grid; one field of arbitrary floats), date and keyword fields, each missing in about a quarter of the documents; "+
		"3-5 (query, aggregation tree) pairs per corpus, each executed under 3-7 request settings (AllMatches, TopN with every (n, from) incl. n=0, sort orders, After/Before keys); "+
		"every execution is one evaluation, judged against a recomputation over the model's matched documents. "+
		"non-trivial = the query matches >= 3 documents, >= 1 matched document lacks an aggregated field, and n+from < #matches (AllMatches executions are never counted as non-trivial)")

const callTimeout = 60 * time.Second

// ---------------------------------------------------------------------------------------------
// building the real objects

func buildDoc(d *Doc) *bluge.Document {
	bd := bluge.NewDocument(d.ID)
	for _, f := range numFields {
		for _, v := range d.Num[f] {
			bd.AddField(bluge.NewNumericField(f, v))
		}
	}
	for _, f := range dateFields {
		for _, v := range d.Date[f] {
			bd.AddField(bluge.NewDateTimeField(f, time.Unix(0, v).UTC()))
		}
	}
	for _, f := range kwFields {
		for _, v := range d.Kw[f] {
			bd.AddField(bluge.NewKeywordField(f, v).Aggregatable().Sortable())
		}
	}
	for _, v := range d.Kw["t"] {
		bd.AddField(bluge.NewKeywordField("t", v))
	}
	return bd
}

func buildQuery(q *Query) bluge.Query {
	switch q.Kind {
	case "term":
		return bluge.NewTermQuery(q.Term).SetField(q.Field)
	case "range":
		return bluge.NewNumericRangeInclusiveQuery(float64(q.Lo), float64(q.Hi), q.LoInc, q.HiInc).SetField(q.Field)
	case "bool":
		b := bluge.NewBooleanQuery()
		for i := range q.Must {
			b.AddMust(buildQuery(&q.Must[i]))
		}
		for i := range q.Should {
			b.AddShould(buildQuery(&q.Should[i]))
		}
		for i := range q.MustNot {
			b.AddMustNot(buildQuery(&q.MustNot[i]))
		}
		b.SetMinShould(q.MinShould)
		return b
	}
	return bluge.NewMatchAllQuery()
}

func buildAgg(a *Agg) search.Aggregation {
	fs := search.Field(a.Field)
	var src search.NumericValuesSource = fs
	var tsrc search.TextValuesSource = fs
	var dsrc search.DateValuesSource = fs
	if fl := a.Filter; fl != nil {
		src = aggregations.FilterNumeric(fs, fl.keepNum)
		dsrc = aggregations.FilterDate(fs, func(t time.Time) bool { return fl.keepDate(t.UnixNano()) })
		keep := func(b []byte) bool { return fl.keepStr(string(b)) }
		if fl.Alt {
			tsrc = search.FilterText(fs, keep)
		} else {
			tsrc = aggregations.FilterText(fs, keep)
		}
	}
	switch a.Kind {
	case "sum":
		return aggregations.Sum(src)
	case "min":
		return aggregations.Min(src)
	case "max":
		return aggregations.Max(src)
	case "avg":
		return aggregations.Avg(src)
	case "wavg":
		return aggregations.WeightedAvg(src, search.Field(a.Weight))
	case "card":
		return aggregations.Cardinality(tsrc)
	case "quant":
		return aggregations.Quantiles(src)
	case "terms":
		t := aggregations.NewTermsAggregation(tsrc, a.Size)
		for i := range a.Sub {
			t.AddAggregation(fmt.Sprintf("m%d", i), buildAgg(&a.Sub[i]))
		}
		return t
	case "ranges":
		r := aggregations.Ranges(src)
		for i, rg := range a.Ranges {
			r.AddRange(aggregations.NamedRange(fmt.Sprintf("r%d", i), float64(rg.Lo), float64(rg.Hi)))
		}
		for i := range a.Sub {
			r.AddAggregation(fmt.Sprintf("m%d", i), buildAgg(&a.Sub[i]))
		}
		return r
	case "dranges":
		r := aggregations.DateRanges(dsrc)
		for i, rg := range a.DRanges {
			var s, e time.Time
			if !rg.NoStart {
				s = time.Unix(0, rg.Start).UTC()
			}
			if !rg.NoEnd {
				e = time.Unix(0, rg.End).UTC()
			}
			r.AddRange(aggregations.NewNamedDateRange(fmt.Sprintf("r%d", i), s, e))
		}
		for i := range a.Sub {
			r.AddAggregation(fmt.Sprintf("m%d", i), buildAgg(&a.Sub[i]))
		}
		return r
	}
	return aggregations.CountMatches()
}

type index struct {
	w        *bluge.Writer
	r        *bluge.Reader
	segments int
}

func (ix *index) close() {
	if ix.r != nil {
		_ = ix.r.Close()
	}
	if ix.w != nil {
		_ = ix.w.Close()
	}
}

func openIndex(c *Case) (*index, *vlib.Failure) {
	ix := &index{}
	f := vlib.Watchdog("index-build", callTimeout, func() *vlib.Failure {
		cfg := bluge.InMemoryOnlyConfig()
		if c.SegV2 {
			cfg = cfg.WithSegmentVersion(2)
		}
		// no merging: the segment layout is the batch layout (deterministic replay)
		ic := cfg.VerifIndexConfig()
		ic.MergePlanOptions.MaxSegmentSize = 1
		ic.MinSegmentsForInMemoryMerge = 1 << 30
		cfg = cfg.VerifWithIndexConfig(ic)
		w, err := bluge.OpenWriter(cfg)
		if err != nil {
			return vlib.Failf("harness-open-writer", "%v", err)
		}
		ix.w = w
		for bi, ops := range c.Batches {
			b := bluge.NewBatch()
			for i := range ops {
				if ops[i].Del {
					b.Delete(bluge.Identifier(ops[i].Doc.ID))
				} else {
					d := buildDoc(&ops[i].Doc)
					b.Update(d.ID(), d)
				}
			}
			if err := w.Batch(b); err != nil {
				return vlib.Failf("batch-error", "batch %d: %v", bi, err)
			}
		}
		r, err := w.Reader()
		if err != nil {
			return vlib.Failf("reader-error", "%v", err)
		}
		ix.r = r
		ix.segments = len(r.VerifSnapshot().VerifSegmentInfo())
		return nil
	})
	if f != nil {
		// on a hang the goroutine still owns the writer; do not close it
		if !strings.HasPrefix(f.Key, "hang@") {
			ix.close()
		}
		return nil, f
	}
	return ix, nil
}

// outcome of one executed search
type outcome struct {
	hits int
	keys [][][]byte // sort keys of the hits (only when asked for)
	aggs *search.Bucket
}

// drain consumes the iterator (AllMatches computes its aggregations while iterating).  No stored
// fields are read: see TestProbeIceV2StoredFields.
func drain(it search.DocumentMatchIterator, wantKeys bool) (*outcome, error) {
	o := &outcome{}
	m, err := it.Next()
	for err == nil && m != nil {
		o.hits++
		if wantKeys {
			k := make([][]byte, len(m.SortValue))
			for i, b := range m.SortValue {
				k[i] = append([]byte(nil), b...)
			}
			o.keys = append(o.keys, k)
		}
		m, err = it.Next()
	}
	if err != nil {
		return nil, err
	}
	o.aggs = it.Aggregations()
	return o, nil
}

// matchedIDs asks the index for the match set of a query: a search without aggregations
// sorted by _id, the ids are the sort keys.
func matchedIDs(ix *index, live int, q *Query) (ids []string, fail *vlib.Failure) {
	fail = vlib.Watchdog("search-ids", callTimeout, func() *vlib.Failure {
		it, err := ix.r.Search(context.Background(), bluge.NewTopNSearch(live+5, buildQuery(q)).SortBy([]string{"_id"}))
		if err != nil {
			return vlib.Failf("search-error", "id search: %v", err)
		}
		o, err := drain(it, true)
		if err != nil {
			return vlib.Failf("search-error", "id search: %v", err)
		}
		for _, k := range o.keys {
			ids = append(ids, string(k[0]))
		}
		return nil
	})
	return ids, fail
}

// execute runs one (query, aggregations, setting) on the reader.  skipped is true when an
// After/Before setting has no key to page from (the query matches nothing).
func execute(ix *index, live int, rq *Req, s *Setting) (o *outcome, skipped bool, fail *vlib.Failure) {
	site := "search-" + s.Kind
	fail = vlib.Watchdog(site, callTimeout, func() *vlib.Failure {
		var req bluge.SearchRequest
		if s.Kind == "all" {
			req = bluge.NewAllMatches(buildQuery(&rq.Q))
		} else {
			tn := bluge.NewTopNSearch(s.N, buildQuery(&rq.Q))
			if len(s.Sort) > 0 {
				tn.SortBy(s.Sort)
			}
			switch s.Kind {
			case "topn":
				tn.SetFrom(s.From)
			case "after", "before":
				// the paging key is the sort key of a real hit of the same request without
				// aggregations (what a paging client holds)
				pre := bluge.NewTopNSearch(live+5, buildQuery(&rq.Q))
				if len(s.Sort) > 0 {
					pre.SortBy(s.Sort)
				}
				it, err := ix.r.Search(context.Background(), pre)
				if err != nil {
					return vlib.Failf("search-error", "paging-key search: %v", err)
				}
				po, err := drain(it, true)
				if err != nil {
					return vlib.Failf("search-error", "paging-key search: %v", err)
				}
				if len(po.keys) == 0 {
					skipped = true
					return nil
				}
				key := po.keys[s.AfterIdx%len(po.keys)]
				if s.Kind == "after" {
					tn.After(key)
				} else {
					tn.Before(key)
				}
			}
			req = tn
		}
		for i := range rq.Aggs {
			req.AddAggregation(fmt.Sprintf("a%d", i), buildAgg(&rq.Aggs[i]))
		}
		it, err := ix.r.Search(context.Background(), req)
		if err != nil {
			return vlib.Failf("search-error", "%v", err)
		}
		o, err = drain(it, false)
		if err != nil {
			return vlib.Failf("search-error", "iterating: %v", err)
		}
		return nil
	})
	return o, skipped, fail
}

// ---------------------------------------------------------------------------------------------
// oracle

const relTol = 1e-9

func exactField(f string) bool { return f != "x" }

func sameFloat(a, b float64) bool {
	return a == b || (math.IsNaN(a) && math.IsNaN(b))
}

func metricValue(calc search.Calculator, path string) (float64, *vlib.Failure) {
	m, ok := calc.(search.MetricCalculator)
	if !ok {
		return 0, vlib.Failf("agg-missing", "%s: calculator is %T, not a metric", path, calc)
	}
	return m.Value(), nil
}

// checkMetric judges one metric against the multiset of documents that reached it.
func checkMetric(a *Agg, calc search.Calculator, docs []*Doc, path string, st *stats) *vlib.Failure {
	if calc == nil {
		return vlib.Failf("agg-missing", "%s: no calculator under this name", path)
	}
	switch a.Kind {
	case "count":
		got, f := metricValue(calc, path)
		if f != nil {
			return f
		}
		if got != float64(len(docs)) {
			return vlib.Failf("count", "%s: count %v, the model has %d documents here", path, got, len(docs))
		}
	case "sum", "min", "max", "avg":
		got, f := metricValue(calc, path)
		if f != nil {
			return f
		}
		var sum, abs float64
		mn, mx := math.Inf(1), math.Inf(-1)
		n := 0
		for _, d := range docs {
			for _, v := range a.num(d) {
				sum += v
				abs += math.Abs(v)
				mn, mx = math.Min(mn, v), math.Max(mx, v)
				n++
			}
		}
		if n == 0 {
			st.emptyMetric++
			if a.Kind == "sum" && got != 0 {
				return vlib.Failf("sum", "%s: sum over no values is %v", path, got)
			}
			return nil // min/max/avg of nothing: not defined by the property
		}
		var want, tol float64
		switch a.Kind {
		case "sum":
			want, tol = sum, relTol*abs
		case "min":
			want = mn
		case "max":
			want = mx
		case "avg":
			want, tol = sum/float64(n), relTol*abs/float64(n)
		}
		if exactField(a.Field) {
			tol = 0
		}
		if !(math.Abs(got-want) <= tol) {
			return vlib.Failf(a.Kind, "%s: %s(%s) = %v, recomputation over %d values of %d documents gives %v (tolerance %g)",
				path, a.Kind, a.Field, got, n, len(docs), want, tol)
		}
	case "wavg":
		got, f := metricValue(calc, path)
		if f != nil {
			return f
		}
		var num, den, abs float64
		n := 0
		for _, d := range docs {
			w := 1.0 // a document without a weight counts with weight 1
			if ws := d.Num[a.Weight]; len(ws) > 0 {
				w = ws[0]
				for _, x := range ws {
					w = math.Min(w, x) // the smallest value of a multi-valued weight field
				}
				if len(ws) > 1 {
					st.multiWeight++
				}
			} else if len(d.Num[a.Field]) > 0 {
				st.missingWeight++
			}
			for _, v := range a.num(d) {
				num += v * w
				den += w
				abs += math.Abs(v * w)
				n++
			}
		}
		if n == 0 || den == 0 {
			st.emptyMetric++
			return nil
		}
		want := num / den
		tol := 0.0
		if !exactField(a.Field) {
			tol = relTol * abs / math.Abs(den)
		}
		if !(math.Abs(got-want) <= tol) {
			return vlib.Failf("wavg", "%s: wavg(%s by %s) = %v, recomputation over %d values gives %v/%v = %v (tolerance %g)",
				path, a.Field, a.Weight, got, n, num, den, want, tol)
		}
	case "card":
		got, f := metricValue(calc, path)
		if f != nil {
			return f
		}
		sk := hyperloglog.New16()
		distinct := map[string]bool{}
		for _, d := range docs {
			for _, v := range a.kw(d) {
				sk.Insert([]byte(v))
				distinct[v] = true
			}
		}
		want := float64(sk.Estimate())
		if got != want {
			return vlib.Failf("cardinality", "%s: cardinality(%s) = %v, a fresh sketch fed the matched values estimates %v (%d distinct values)",
				path, a.Field, got, want, len(distinct))
		}
	case "quant":
		qc, ok := calc.(*aggregations.QuantilesCalculator)
		if !ok {
			return vlib.Failf("agg-missing", "%s: calculator is %T, not quantiles", path, calc)
		}
		mn, mx := math.Inf(1), math.Inf(-1)
		n := 0
		for _, d := range docs {
			for _, v := range a.num(d) {
				mn, mx = math.Min(mn, v), math.Max(mx, v)
				n++
			}
		}
		if n == 0 {
			st.emptyMetric++
			return nil
		}
		scale := math.Max(math.Abs(mn), math.Abs(mx))
		prev := math.Inf(-1)
		for _, p := range a.Ps {
			q, err := qc.Quantile(p)
			if err != nil {
				return vlib.Failf("quantile", "%s: Quantile(%v): %v", path, p, err)
			}
			if !(q >= mn-relTol*scale && q <= mx+relTol*scale) {
				return vlib.Failf("quantile", "%s: quantile(%s, %v) = %v outside [%v, %v] of the %d matched values", path, a.Field, p, q, mn, mx, n)
			}
			if !(q >= prev-relTol*scale) {
				return vlib.Failf("quantile", "%s: quantile(%s, %v) = %v is below the quantile of a smaller rank (%v)", path, a.Field, p, q, prev)
			}
			prev = q
		}
	default:
		return vlib.Failf("harness-bad-case", "%s: %q is not a metric", path, a.Kind)
	}
	return nil
}

func checkSubs(a *Agg, b *search.Bucket, docs []*Doc, path string, st *stats) *vlib.Failure {
	// the implicit count of every bucket
	if got := b.Count(); got != uint64(len(docs)) {
		key := a.Kind + "-bucket-count"
		return vlib.Failf(key, "%s: bucket %q counts %d, direct counting gives %d", path, b.Name(), got, len(docs))
	}
	for i := range a.Sub {
		name := fmt.Sprintf("m%d", i)
		if f := checkMetric(&a.Sub[i], b.Aggregation(name), docs, path+"["+b.Name()+"]/"+name+":"+a.Sub[i].Kind, st); f != nil {
			f.Key = "nested-" + f.Key
			return f
		}
		st.nestedChecked++
	}
	return nil
}

// checkAgg judges one top-level aggregation against the matched documents.
func checkAgg(a *Agg, calc search.Calculator, docs []*Doc, path string, st *stats) *vlib.Failure {
	if calc == nil {
		return vlib.Failf("agg-missing", "%s: no calculator under this name", path)
	}
	switch a.Kind {
	case "terms":
		tc, ok := calc.(*aggregations.TermsCalculator)
		if !ok {
			return vlib.Failf("agg-missing", "%s: calculator is %T, not terms", path, calc)
		}
		byTerm := map[string][]*Doc{}
		multi := false
		for _, d := range docs {
			vs := a.kw(d)
			if len(vs) > 1 {
				multi = true
			}
			for _, v := range vs {
				byTerm[v] = append(byTerm[v], d)
			}
		}
		bs := tc.Buckets()
		want := a.Size
		if len(byTerm) < want {
			want = len(byTerm)
		}
		if len(bs) != want {
			return vlib.Failf("terms-bucket-number", "%s: %d buckets returned for size %d and %d distinct terms", path, len(bs), a.Size, len(byTerm))
		}
		returned := map[string]bool{}
		sum, smallest := 0, math.MaxInt
		for _, b := range bs {
			members, ok := byTerm[b.Name()]
			if !ok {
				return vlib.Failf("terms-foreign-bucket", "%s: bucket %q is not a value of %s in any matched document", path, b.Name(), a.Field)
			}
			if returned[b.Name()] {
				return vlib.Failf("terms-duplicate-bucket", "%s: bucket %q returned twice", path, b.Name())
			}
			returned[b.Name()] = true
			if f := checkSubs(a, b, members, path, st); f != nil {
				return f
			}
			sum += len(members)
			if len(members) < smallest {
				smallest = len(members)
			}
		}
		for term, members := range byTerm {
			if !returned[term] && len(members) > smallest {
				return vlib.Failf("terms-not-top", "%s: term %q with %d matches is not returned although a returned bucket has only %d", path, term, len(members), smallest)
			}
		}
		if a.Field == "k1" && !multi && a.Filter == nil {
			// single-valued field: the remainder accounts for every match not in a returned bucket
			if got := tc.Other(); got != len(docs)-sum {
				return vlib.Failf("terms-other", "%s: Other() = %d, matches %d - returned %d = %d", path, got, len(docs), sum, len(docs)-sum)
			}
			st.otherChecked++
		}
		st.bucketsChecked += len(bs)
	case "ranges":
		bc, ok := calc.(search.BucketCalculator)
		if !ok {
			return vlib.Failf("agg-missing", "%s: calculator is %T, not buckets", path, calc)
		}
		bs := bc.Buckets()
		if len(bs) != len(a.Ranges) {
			return vlib.Failf("ranges-bucket-number", "%s: %d buckets for %d ranges", path, len(bs), len(a.Ranges))
		}
		for i, rg := range a.Ranges {
			if want := fmt.Sprintf("r%d", i); bs[i].Name() != want {
				return vlib.Failf("ranges-bucket-number", "%s: bucket %d is named %q, want %q", path, i, bs[i].Name(), want)
			}
			// one entry per value occurrence inside [lo, hi)
			var members []*Doc
			for _, d := range docs {
				k := 0
				for _, v := range a.num(d) {
					if v >= float64(rg.Lo) && v < float64(rg.Hi) {
						members = append(members, d)
						k++
					}
				}
				if k > 1 {
					st.multiOccurrence++
				}
			}
			if f := checkSubs(a, bs[i], members, path, st); f != nil {
				return f
			}
		}
		st.bucketsChecked += len(bs)
	case "dranges":
		bc, ok := calc.(search.BucketCalculator)
		if !ok {
			return vlib.Failf("agg-missing", "%s: calculator is %T, not buckets", path, calc)
		}
		bs := bc.Buckets()
		if len(bs) != len(a.DRanges) {
			return vlib.Failf("dranges-bucket-number", "%s: %d buckets for %d ranges", path, len(bs), len(a.DRanges))
		}
		for i, rg := range a.DRanges {
			if want := fmt.Sprintf("r%d", i); bs[i].Name() != want {
				return vlib.Failf("dranges-bucket-number", "%s: bucket %d is named %q, want %q", path, i, bs[i].Name(), want)
			}
			var members []*Doc
			for _, d := range docs {
				k := 0
				for _, v := range a.date(d) {
					if (rg.NoStart || v >= rg.Start) && (rg.NoEnd || v < rg.End) {
						members = append(members, d)
						k++
					}
				}
				if k > 1 {
					st.multiOccurrence++
				}
			}
			if f := checkSubs(a, bs[i], members, path, st); f != nil {
				return f
			}
		}
		st.bucketsChecked += len(bs)
	default:
		return checkMetric(a, calc, docs, path, st)
	}
	return nil
}

// ---------------------------------------------------------------------------------------------
// the property

type stats struct {
	searches, nontrivial, skipped                            int
	classes                                                  map[string]int
	emptyMetric, multiWeight, missingWeight, multiOccurrence int
	nestedChecked, bucketsChecked, otherChecked              int
	aggsChecked                                              int
	segments, liveDocs, deletedOrReplaced                    int
	execs                                                    []execRec
}

type execRec struct {
	key string
	nt  bool
}

func (st *stats) class(c string) { st.classes[c]++ }

func fieldReadTwice(aggs []Agg) bool {
	seen := map[string]int{}
	for _, a := range aggs {
		for _, f := range a.treeFields() {
			seen[f]++
			if seen[f] > 1 {
				return true
			}
		}
	}
	return false
}

func sortFields(s []string) []string {
	var r []string
	for _, k := range s {
		r = append(r, strings.TrimLeft(k, "+-"))
	}
	return r
}

func aggClasses(aggs []Agg, st *stats) {
	exact, tol := false, false
	for _, a := range aggs {
		st.class("agg:" + a.Kind)
		if len(a.Sub) > 0 {
			st.class("agg:" + a.Kind + "+nested")
		}
		for _, s := range a.Sub {
			st.class("nested:" + s.Kind)
			if s.Filter != nil {
				st.class("filtered-source:nested-" + s.Kind)
			}
		}
		if a.Filter != nil {
			st.class("filtered-source:" + a.Kind)
		}
		for _, f := range a.treeFields() {
			if f == "x" {
				tol = true
			} else {
				exact = true
			}
		}
	}
	if exact {
		st.class("values:exact-class")
	}
	if tol {
		st.class("values:tolerance-class")
	}
}

func prop(c *Case, st *stats) *vlib.Failure {
	if st.classes == nil {
		st.classes = map[string]int{}
	}
	live := c.live()
	writes := 0
	for _, b := range c.Batches {
		writes += len(b)
	}
	st.liveDocs, st.deletedOrReplaced = len(live), writes-len(live)
	ix, f := openIndex(c)
	if f != nil {
		return f
	}
	defer ix.close()
	st.segments = ix.segments
	for ri := range c.Reqs {
		rq := &c.Reqs[ri]
		var matched []*Doc
		for _, d := range live {
			if rq.Q.eval(d) {
				matched = append(matched, d)
			}
		}
		// the model's evaluation of the query against the index's
		got, f := matchedIDs(ix, len(live), &rq.Q)
		if f != nil {
			return f
		}
		want := make([]string, len(matched))
		for i, d := range matched {
			want[i] = d.ID
		}
		sort.Strings(want)
		sort.Strings(got)
		if strings.Join(got, ",") != strings.Join(want, ",") {
			return vlib.Failf("match-set", "request %d: the index matches ids %v, the model's evaluation of the query gives %v", ri, got, want)
		}
		fields := distinctFields(rq.Aggs)
		lacks := false
		for _, d := range matched {
			for _, fl := range fields {
				if !d.has(fl) {
					lacks = true
				}
			}
		}
		twice := fieldReadTwice(rq.Aggs)
		for si := range rq.Settings {
			s := &rq.Settings[si]
			o, skipped, f := execute(ix, len(live), rq, s)
			if f != nil {
				f.Msg = fmt.Sprintf("request %d setting %d (%s): %s", ri, si, vlib.Canon(s), f.Msg)
				return f
			}
			if skipped {
				st.skipped++
				continue
			}
			st.searches++
			// classes of this execution
			st.class("setting:" + s.Kind)
			st.class(rq.Q.kindClass())
			aggClasses(rq.Aggs, st)
			if twice {
				st.class("field-twice:two-aggregations-read-the-same-field")
			}
			sortsOnAgg := false
			if s.Kind != "all" {
				for _, sf := range sortFields(s.Sort) {
					for _, fl := range fields {
						if sf == fl {
							sortsOnAgg = true
						}
					}
				}
				if sortsOnAgg {
					st.class("field-twice:request-sorts-on-an-aggregated-field")
				}
				if len(s.Sort) == 0 {
					st.class("sort:default")
				} else {
					st.class(fmt.Sprintf("sort:%d-keys", len(s.Sort)))
				}
				if s.N == 0 {
					st.class("n=0")
				}
				if s.From > 0 {
					st.class("from>0")
				}
				if s.N+s.From > 10 {
					st.class("n+from>10(heap-store)")
				}
			}
			if !twice && !sortsOnAgg {
				st.class("field-twice:none")
			}
			switch {
			case len(matched) == 0:
				st.class("matches:0")
			case len(matched) < 3:
				st.class("matches:1-2")
			default:
				st.class("matches:>=3")
			}
			if lacks {
				st.class("a-match-lacks-an-aggregated-field")
			}
			nt := len(matched) >= 3 && lacks && s.Kind != "all" && s.N+s.From < len(matched)
			if nt {
				st.nontrivial++
			}
			st.execs = append(st.execs, execRec{fmt.Sprintf("%d/%d", ri, si), nt})
			if s.Kind == "all" || s.Kind == "topn" {
				wantHits := len(matched)
				if s.Kind == "topn" {
					wantHits -= s.From
					if wantHits < 0 {
						wantHits = 0
					}
					if wantHits > s.N {
						wantHits = s.N
					}
				}
				if o.hits != wantHits {
					return vlib.Failf("page-size", "request %d setting %d (%s): %d hits returned, %d matches", ri, si, vlib.Canon(s), o.hits, len(matched))
				}
			}
			if o.aggs == nil {
				return vlib.Failf("agg-missing", "request %d setting %d: Aggregations() is nil", ri, si)
			}
			for ai := range rq.Aggs {
				name := fmt.Sprintf("a%d", ai)
				path := fmt.Sprintf("request %d setting %d (%s) %s:%s", ri, si, vlib.Canon(s), name, rq.Aggs[ai].Kind)
				if f := checkAgg(&rq.Aggs[ai], o.aggs.Aggregation(name), matched, path, st); f != nil {
					f.Msg += fmt.Sprintf(" | %d matches, field read twice by aggregations: %v, sort on aggregated field: %v", len(matched), twice, sortsOnAgg)
					return f
				}
				st.aggsChecked++
			}
		}
	}
	return nil
}

func account(c *Case, st *stats) {
	canon := vlib.Hash64(vlib.Canon(c))
	// one evidence case per executed search: identified by (corpus hash, request, setting)
	for _, e := range st.execs {
		ev.Case(fmt.Sprintf("%x/%s", canon, e.key), e.nt)
	}
	for k, n := range st.classes {
		ev.Class(k, n)
	}
	ev.Class("corpora", 1)
	ev.Class(fmt.Sprintf("segments:%s", bucketOf(st.segments)), 1)
	if st.deletedOrReplaced > 0 {
		ev.Class("corpora-with-deleted-or-replaced-documents", 1)
	}
	if c.SegV2 {
		ev.Class("corpora-segment-version-2", 1)
	}
	ev.AddExtra("searches_skipped_no_paging_key", st.skipped)
	ev.AddExtra("top_level_aggregations_checked", st.aggsChecked)
	ev.AddExtra("buckets_checked", st.bucketsChecked)
	ev.AddExtra("nested_metrics_checked", st.nestedChecked)
	ev.AddExtra("terms_other_checked", st.otherChecked)
	ev.AddExtra("metrics_over_no_values_not_judged", st.emptyMetric)
	ev.AddExtra("convention_weight_of_multivalued_weight_field_is_smallest", st.multiWeight)
	ev.AddExtra("convention_missing_weight_is_1", st.missingWeight)
	ev.AddExtra("convention_range_bucket_counts_value_occurrences", st.multiOccurrence)
}

func bucketOf(n int) string {
	switch {
	case n <= 1:
		return "1"
	case n <= 3:
		return "2-3"
	default:
		return ">=4"
	}
}

func TestC16Aggregations(t *testing.T) {
	ev.Assume("the query language of the generator (match-all, term, wide numeric range, boolean combinations of term/match-all leaves) is evaluated by the harness's own model; AllMatches executions cross-check that evaluation")
	ev.Assume("conventions adopted where the property is silent: weight of a document without weight value = 1, weight of a multi-valued weight field = its smallest value, a range bucket receives a document once per value inside the range; min/max/avg/quantiles over no values are not judged")
	vlib.Check(t, 150, 2500, func(rt *rapid.T) {
		c := genCase(rt)
		var st stats
		f := prop(&c, &st)
		account(&c, &st)
		if st.nontrivial > 0 || len(c.live()) <= 12 {
			ev.Sample(sampleOf(&c, &st), st.nontrivial > 0)
		}
		vlib.Report(rt, ev, "aggs", c, f)
	})
}

// sampleOf keeps a readable digest of a case (the corpora are too large to keep verbatim).
func sampleOf(c *Case, st *stats) interface{} {
	r0 := c.Reqs[0]
	docs := c.live()
	var first []*Doc
	if len(docs) > 3 {
		first = docs[:3]
	} else {
		first = docs
	}
	return map[string]interface{}{
		"live_documents": st.liveDocs, "segments": st.segments, "deleted_or_replaced": st.deletedOrReplaced,
		"first_documents": first, "requests": len(c.Reqs), "first_request": r0,
		"searches": st.searches, "nontrivial_searches": st.nontrivial,
	}
}

var replayFns = map[string]vlib.ReplayFn{
	"aggs": func(raw json.RawMessage) *vlib.Failure {
		var c Case
		if f := vlib.Decode(raw, &c); f != nil {
			return f
		}
		var st stats
		return prop(&c, &st)
	},
}

func TestReplay(t *testing.T)  { vlib.ReplayMain(t, ev, replayFns) }
func TestRegress(t *testing.T) { vlib.RegressMain(t, ev, replayFns) }
