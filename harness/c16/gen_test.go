// gen_test.go: rapid generators of corpora, queries, aggregation trees and request settings.
package c16

import (
	"unicode/utf8"
	"math"
	"os"
	"sort"
	"strconv"

	"pgregory.net/rapid"
)

type params struct {
	origin   map[string]float64 // grid origin of n1, n2
	steps    map[string]int     // number of quarter steps of the grid
	dateBase int64
	dateStep int64
	k1Vocab  []string
	k2Vocab  []string
	tVocab   []string
	xVals    []float64 // x values present in the corpus (bounds that coincide with values)
}

var weightDomain = []float64{0.5, 1, 2, 3, 4}

var oddWords = []string{"x y", "é", "A", "a.b", "ß-1", "日本"}

func genParams(t *rapid.T) *params {
	p := &params{origin: map[string]float64{}, steps: map[string]int{"n1": 40, "n2": 24}}
	// origins: all-negative, straddling zero and all-positive grids occur (a Max that starts
	// at 0 is wrong only on all-negative value sets, a Min that starts at 0 only on all-positive)
	origins := []float64{-50, -12, -5, -1, 0, 1, 3, 100}
	p.origin["n1"] = rapid.SampledFrom(origins).Draw(t, "n1Origin")
	p.origin["n2"] = rapid.SampledFrom(origins).Draw(t, "n2Origin")
	p.dateBase = rapid.SampledFrom([]int64{
		1577836800000000000,  // 2020-01-01
		-315619200000000000,  // 1960-01-01
		-3600000000000 * 20,  // just before the epoch: the grid straddles 1970-01-01
		4102444800000000000,  // 2100-01-01
		951782400000000000,   // 2000-02-29
	}).Draw(t, "dateBase")
	p.dateStep = rapid.SampledFrom([]int64{1, 1000000000, 3600000000000, 86400000000000}).Draw(t, "dateStep")
	nk1 := rapid.IntRange(2, 8).Draw(t, "k1VocabSize")
	for i := 0; i < nk1; i++ {
		p.k1Vocab = append(p.k1Vocab, string(rune('a'+i)))
	}
	if rapid.IntRange(0, 3).Draw(t, "k1Odd") == 0 {
		p.k1Vocab = append(p.k1Vocab, oddWords[:3]...)
	}
	nk2 := rapid.SampledFrom([]int{3, 5, 8, 20, 40}).Draw(t, "k2VocabSize")
	for i := 0; i < nk2; i++ {
		p.k2Vocab = append(p.k2Vocab, "w"+strconv.Itoa(i))
	}
	if rapid.IntRange(0, 3).Draw(t, "k2Odd") == 0 {
		p.k2Vocab = append(p.k2Vocab, oddWords...)
	}
	p.tVocab = []string{"red", "green", "blue"}
	return p
}

func (p *params) gridValue(t *rapid.T, f, label string) float64 {
	return p.origin[f] + float64(rapid.IntRange(0, p.steps[f]).Draw(t, label))/4
}

// skewed index: small indices are much more frequent (terms with different counts)
func skewed(t *rapid.T, n int, label string) int {
	a := rapid.IntRange(0, n-1).Draw(t, label)
	b := rapid.IntRange(0, n-1).Draw(t, label+"'")
	if b < a {
		return b
	}
	return a
}

func genDoc(t *rapid.T, p *params, id string) Doc {
	d := Doc{ID: id, Num: map[string][]float64{}, Date: map[string][]int64{}, Kw: map[string][]string{}}
	// a document lacks most optional fields now and then
	sparse := rapid.IntRange(0, 5).Draw(t, "sparse") == 0
	cnt := func(max int, label string) int {
		n := rapid.IntRange(0, max+1).Draw(t, label) // 0 → missing, max+1 → 1
		if n > max {
			n = 1
		}
		if sparse && rapid.Bool().Draw(t, label+"Drop") {
			n = 0
		}
		return n
	}
	addNum := func(f string, v float64) {
		for _, o := range d.Num[f] {
			if o == v {
				return
			}
		}
		d.Num[f] = append(d.Num[f], v)
	}
	if cnt(1, "n1Count") > 0 {
		addNum("n1", p.gridValue(t, "n1", "n1"))
	}
	for i, n := 0, cnt(3, "n2Count"); i < n; i++ {
		addNum("n2", p.gridValue(t, "n2", "n2"))
	}
	for i, n := 0, cnt(2, "wCount"); i < n; i++ {
		addNum("w", rapid.SampledFrom(weightDomain).Draw(t, "w"))
	}
	for i, n := 0, cnt(2, "xCount"); i < n; i++ {
		var v float64
		switch rapid.IntRange(0, 3).Draw(t, "xKind") {
		case 0:
			v = rapid.Float64Range(-1e6, 1e6).Draw(t, "x")
		case 1:
			v = rapid.Float64Range(-1, 1).Draw(t, "xSmall")
		case 2:
			v = rapid.Float64Range(1e-12, 1e12).Draw(t, "xPos")
		default:
			v = float64(rapid.IntRange(-3, 3).Draw(t, "xInt")) / 3
		}
		if v == 0 {
			v = 0 // no negative zero: it would be a second representation of an equal value
		}
		addNum("x", v)
	}
	addDate := func(f string, v int64) {
		for _, o := range d.Date[f] {
			if o == v {
				return
			}
		}
		d.Date[f] = append(d.Date[f], v)
	}
	if cnt(1, "d1Count") > 0 {
		addDate("d1", p.dateBase+int64(rapid.IntRange(0, 50).Draw(t, "d1"))*p.dateStep)
	}
	for i, n := 0, cnt(3, "d2Count"); i < n; i++ {
		addDate("d2", p.dateBase+int64(rapid.IntRange(0, 50).Draw(t, "d2"))*p.dateStep)
	}
	addKw := func(f, v string) {
		for _, o := range d.Kw[f] {
			if o == v {
				return
			}
		}
		d.Kw[f] = append(d.Kw[f], v)
	}
	if cnt(1, "k1Count") > 0 {
		addKw("k1", p.k1Vocab[skewed(t, len(p.k1Vocab), "k1")])
	}
	for i, n := 0, cnt(3, "k2Count"); i < n; i++ {
		addKw("k2", p.k2Vocab[skewed(t, len(p.k2Vocab), "k2")])
	}
	addKw("t", p.tVocab[skewed(t, 3, "t")])
	if rapid.IntRange(0, 2).Draw(t, "t2") == 0 {
		addKw("t", p.tVocab[rapid.IntRange(0, 2).Draw(t, "t2v")])
	}
	for k, v := range d.Num {
		if len(v) == 0 {
			delete(d.Num, k)
		}
	}
	return d
}

// genHistory: D documents inserted over nb batches; later batches also delete or replace
// documents of earlier ones (every id at most once per batch), so that the reader sees several
// segments, obsoleted documents and deletions.
func genHistory(t *rapid.T, p *params) [][]Op {
	var nd int
	switch rapid.IntRange(0, 9).Draw(t, "sizeKind") {
	case 0:
		nd = rapid.IntRange(5, 8).Draw(t, "ndocs")
	case 1, 2:
		nd = rapid.IntRange(40, 60).Draw(t, "ndocs")
	default:
		nd = rapid.IntRange(8, 40).Draw(t, "ndocs")
	}
	nb := rapid.IntRange(2, 6).Draw(t, "nbatches")
	batches := make([][]Op, nb)
	var earlier []string // ids inserted by earlier batches and still live in the model
	next := 0
	for b := 0; b < nb; b++ {
		touched := map[string]bool{}
		var ins int
		if b == nb-1 {
			ins = nd - next
		} else {
			ins = rapid.IntRange(0, (nd-next+1)*2/(nb-b)).Draw(t, "inserts")
			if ins > nd-next {
				ins = nd - next
			}
		}
		if b > 0 && len(earlier) > 0 {
			nx := rapid.IntRange(0, 4).Draw(t, "rewrites")
			for i := 0; i < nx && len(earlier) > 0; i++ {
				k := rapid.IntRange(0, len(earlier)-1).Draw(t, "victim")
				id := earlier[k]
				if touched[id] {
					continue
				}
				touched[id] = true
				if rapid.Bool().Draw(t, "delete") {
					batches[b] = append(batches[b], Op{Del: true, Doc: Doc{ID: id}})
					earlier = append(earlier[:k:k], earlier[k+1:]...)
				} else {
					batches[b] = append(batches[b], Op{Doc: genDoc(t, p, id)})
				}
			}
		}
		var fresh []string
		for i := 0; i < ins; i++ {
			id := "d" + strconv.Itoa(next)
			next++
			batches[b] = append(batches[b], Op{Doc: genDoc(t, p, id)})
			fresh = append(fresh, id)
		}
		earlier = append(earlier, fresh...)
	}
	// drop empty batches
	out := batches[:0]
	for _, b := range batches {
		if len(b) > 0 {
			out = append(out, b)
		}
	}
	return out
}

func genLeaf(t *rapid.T, p *params, allowAll bool) Query {
	k := rapid.IntRange(0, 9).Draw(t, "leafKind")
	switch {
	case allowAll && k == 0:
		return Query{Kind: "all"}
	case k <= 5:
		return Query{Kind: "term", Field: "t", Term: p.tVocab[rapid.IntRange(0, 2).Draw(t, "tTerm")]}
	case k <= 7:
		return Query{Kind: "term", Field: "k1", Term: p.k1Vocab[skewed(t, len(p.k1Vocab), "k1Term")]}
	default:
		return Query{Kind: "term", Field: "k2", Term: p.k2Vocab[skewed(t, len(p.k2Vocab), "k2Term")]}
	}
}

// genRangeQuery: bounds are whole numbers at least 2 apart or infinite (see the pitfall about
// narrow numeric ranges: the candidate-term enumeration of a narrow range may spin).
func genRangeQuery(t *rapid.T, p *params) Query {
	f := rapid.SampledFrom([]string{"n1", "n2"}).Draw(t, "rangeField")
	o := math.Floor(p.origin[f])
	span := float64(p.steps[f] / 4)
	q := Query{Kind: "range", Field: f, LoInc: rapid.Bool().Draw(t, "loInc"), HiInc: rapid.Bool().Draw(t, "hiInc")}
	switch rapid.IntRange(0, 3).Draw(t, "rangeShape") {
	case 0:
		q.Lo, q.Hi = F(math.Inf(-1)), F(o+float64(rapid.IntRange(0, int(span)).Draw(t, "hi")))
	case 1:
		q.Lo, q.Hi = F(o+float64(rapid.IntRange(0, int(span)).Draw(t, "lo"))), F(math.Inf(1))
	default:
		lo := rapid.IntRange(-1, int(span)-2).Draw(t, "lo")
		hi := rapid.IntRange(lo+2, int(span)+1).Draw(t, "hi")
		q.Lo, q.Hi = F(o+float64(lo)), F(o+float64(hi))
	}
	return q
}

func genQuery(t *rapid.T, p *params) Query {
	switch k := rapid.IntRange(0, 9).Draw(t, "queryKind"); {
	case k <= 2:
		return Query{Kind: "all"}
	case k <= 5:
		return genLeaf(t, p, false)
	case k == 6:
		return genRangeQuery(t, p)
	default:
		// boolean combinations of term / match-all leaves only
		q := Query{Kind: "bool"}
		nm := rapid.IntRange(0, 2).Draw(t, "nMust")
		ns := rapid.IntRange(0, 2).Draw(t, "nShould")
		nn := rapid.IntRange(0, 1).Draw(t, "nMustNot")
		if nm+ns+nn == 0 {
			ns = 2
		}
		for i := 0; i < nm; i++ {
			q.Must = append(q.Must, genLeaf(t, p, true))
		}
		for i := 0; i < ns; i++ {
			q.Should = append(q.Should, genLeaf(t, p, false))
		}
		for i := 0; i < nn; i++ {
			q.MustNot = append(q.MustNot, genLeaf(t, p, false))
		}
		if ns > 0 {
			lo := 0
			if nm == 0 {
				lo = 1
			}
			q.MinShould = rapid.IntRange(lo, ns).Draw(t, "minShould")
		}
		return q
	}
}

// ---------------------------------------------------------------------------------------------
// aggregation trees

type aggGen struct {
	t    *rapid.T
	p    *params
	same bool           // fields may be read more than once (and at least one is, in the end)
	used map[string]int // field -> number of uses so far
}

func (g *aggGen) pick(kind, label string, exclude ...string) string {
	var cand []string
	for _, f := range allFields {
		if fieldKind(f) != kind {
			continue
		}
		skip := false
		for _, e := range exclude {
			if e == f {
				skip = true
			}
		}
		if skip || (!g.same && g.used[f] > 0) {
			continue
		}
		cand = append(cand, f)
	}
	if len(cand) == 0 {
		return ""
	}
	f := cand[rapid.IntRange(0, len(cand)-1).Draw(g.t, label)]
	g.used[f]++
	return f
}

var quantilePoints = []float64{0, 0.01, 0.1, 0.25, 0.5, 0.75, 0.9, 0.99, 1}

func (g *aggGen) quantiles() []float64 {
	n := rapid.IntRange(2, 5).Draw(g.t, "nQuantiles")
	seen := map[float64]bool{}
	var ps []float64
	for i := 0; i < n; i++ {
		p := quantilePoints[rapid.IntRange(0, len(quantilePoints)-1).Draw(g.t, "quantile")]
		if !seen[p] {
			seen[p] = true
			ps = append(ps, p)
		}
	}
	sort.Float64s(ps)
	return ps
}

// metricOn builds a metric of a suitable kind over field f (already accounted in used).
func (g *aggGen) metricOn(f string) Agg {
	switch fieldKind(f) {
	case "num":
		k := rapid.SampledFrom([]string{"sum", "sum", "min", "max", "avg", "quant"}).Draw(g.t, "numMetric")
		a := Agg{Kind: k, Field: f}
		if k == "quant" {
			a.Ps = g.quantiles()
		}
		return a
	case "kw":
		return Agg{Kind: "card", Field: f}
	}
	return Agg{Kind: "count"}
}

func (g *aggGen) metric() Agg {
	switch k := rapid.IntRange(0, 11).Draw(g.t, "metricKind"); {
	case k == 0:
		return Agg{Kind: "count"}
	case k <= 6:
		f := g.pick("num", "metricField")
		if f == "" {
			return Agg{Kind: "count"}
		}
		return g.metricOn(f)
	case k <= 8:
		f := g.pick("num", "wavgField")
		if f == "" {
			return Agg{Kind: "count"}
		}
		if g.same && rapid.IntRange(0, 5).Draw(g.t, "selfWeight") == 0 && f != "x" {
			g.used[f]++
			return Agg{Kind: "wavg", Field: f, Weight: f}
		}
		// weights are never taken from x (sign changes would make the denominator cancel)
		var w string
		if (g.same || g.used["w"] == 0) && f != "w" && rapid.IntRange(0, 3).Draw(g.t, "weightIsW") > 0 {
			w = "w"
			g.used["w"]++
		} else {
			w = g.pick("num", "weightField", "x", f)
		}
		if w == "" {
			return Agg{Kind: "avg", Field: f}
		}
		return Agg{Kind: "wavg", Field: f, Weight: w}
	default:
		f := g.pick("kw", "cardField")
		if f == "" {
			return Agg{Kind: "count"}
		}
		return Agg{Kind: "card", Field: f}
	}
}

func (g *aggGen) numBound(f, label string) F {
	switch rapid.IntRange(0, 9).Draw(g.t, label+"Kind") {
	case 0:
		return F(math.Inf(-1))
	case 1:
		return F(math.Inf(1))
	}
	switch f {
	case "w":
		return F(rapid.SampledFrom([]float64{0, 0.5, 1, 1.5, 2, 3, 4, 5}).Draw(g.t, label))
	case "x":
		if len(g.p.xVals) > 0 && rapid.Bool().Draw(g.t, label+"Existing") {
			return F(g.p.xVals[rapid.IntRange(0, len(g.p.xVals)-1).Draw(g.t, label+"Idx")])
		}
		return F(rapid.Float64Range(-1e6, 1e6).Draw(g.t, label))
	}
	return F(g.p.origin[f] + float64(rapid.IntRange(-2, g.p.steps[f]+2).Draw(g.t, label))/4)
}

func (g *aggGen) subs() []Agg {
	n := rapid.SampledFrom([]int{0, 0, 1, 1, 2}).Draw(g.t, "nNested")
	var s []Agg
	for i := 0; i < n; i++ {
		s = append(s, g.metric())
	}
	return s
}

func (g *aggGen) rangesOn(f string) Agg {
	a := Agg{Kind: "ranges", Field: f}
	n := rapid.IntRange(1, 4).Draw(g.t, "nRanges")
	for i := 0; i < n; i++ {
		lo, hi := g.numBound(f, "rlo"), g.numBound(f, "rhi")
		if hi < lo && rapid.IntRange(0, 7).Draw(g.t, "keepInverted") > 0 {
			lo, hi = hi, lo
		}
		a.Ranges = append(a.Ranges, Rng{lo, hi})
	}
	return a
}

func (g *aggGen) drangesOn(f string) Agg {
	a := Agg{Kind: "dranges", Field: f}
	n := rapid.IntRange(1, 4).Draw(g.t, "nDateRanges")
	for i := 0; i < n; i++ {
		s := int64(rapid.IntRange(-2, 52).Draw(g.t, "dstart"))
		e := int64(rapid.IntRange(-2, 52).Draw(g.t, "dend"))
		if e < s && rapid.IntRange(0, 7).Draw(g.t, "keepInvertedDate") > 0 {
			s, e = e, s
		}
		r := DRng{Start: g.p.dateBase + s*g.p.dateStep, End: g.p.dateBase + e*g.p.dateStep}
		switch rapid.IntRange(0, 7).Draw(g.t, "dOpen") {
		case 0:
			r.NoStart, r.Start = true, 0
		case 1:
			r.NoEnd, r.End = true, 0
		}
		a.DRanges = append(a.DRanges, r)
	}
	return a
}

func (g *aggGen) termsOn(f string) Agg {
	return Agg{Kind: "terms", Field: f, Size: rapid.SampledFrom([]int{0, 1, 1, 2, 2, 3, 3, 4, 5, 6, 10, 100}).Draw(g.t, "termsSize")}
}

func (g *aggGen) bucket() Agg {
	var a Agg
	switch rapid.IntRange(0, 5).Draw(g.t, "bucketKind") {
	case 0, 1, 2:
		f := g.pick("kw", "termsField")
		if f == "" {
			return g.metric()
		}
		a = g.termsOn(f)
	case 3, 4:
		f := g.pick("num", "rangesField")
		if f == "" {
			return g.metric()
		}
		a = g.rangesOn(f)
	default:
		f := g.pick("date", "dateRangesField")
		if f == "" {
			return g.metric()
		}
		a = g.drangesOn(f)
	}
	a.Sub = g.subs()
	return a
}

// genAggs draws the aggregation trees of one request.  same=false: every field is read by at
// most one node of the request; same=true: at least one field is read by two nodes.
func genAggs(t *rapid.T, p *params, same bool) []Agg {
	aggs := genAggs0(t, p, same)
	g := &aggGen{t: t, p: p}
	for i := range aggs {
		g.addFilters(&aggs[i])
	}
	return aggs
}

func genAggs0(t *rapid.T, p *params, same bool) []Agg {
	g := &aggGen{t: t, p: p, same: same, used: map[string]int{}}
	n := rapid.IntRange(1, 4).Draw(t, "nAggs")
	var aggs []Agg
	for i := 0; i < n; i++ {
		if rapid.IntRange(0, 8).Draw(t, "topKind") < 4 {
			aggs = append(aggs, g.metric())
		} else {
			aggs = append(aggs, g.bucket())
		}
	}
	if !same {
		return aggs
	}
	twice := false
	var usedFields []string
	for _, f := range allFields {
		if g.used[f] >= 2 {
			twice = true
		}
		if g.used[f] >= 1 {
			usedFields = append(usedFields, f)
		}
	}
	if twice {
		return aggs
	}
	if len(usedFields) == 0 {
		f := allFields[rapid.IntRange(0, len(allFields)-1).Draw(t, "forcedField")]
		g.used[f]++
		aggs = append(aggs, g.readerOf(f, false))
		usedFields = []string{f}
	}
	f := usedFields[rapid.IntRange(0, len(usedFields)-1).Draw(t, "fieldReadTwice")]
	g.used[f]++
	// as a nested metric of an existing bucket aggregation, or as a sibling
	var buckets []int
	for i, a := range aggs {
		if a.isBucket() && len(a.Sub) < 3 {
			buckets = append(buckets, i)
		}
	}
	if len(buckets) > 0 && fieldKind(f) != "date" && rapid.Bool().Draw(t, "nestTheSecondReader") {
		i := buckets[rapid.IntRange(0, len(buckets)-1).Draw(t, "hostBucket")]
		aggs[i].Sub = append(append([]Agg(nil), aggs[i].Sub...), g.metricOn(f))
		return aggs
	}
	return append(aggs, g.readerOf(f, true))
}

// addFilters lets about every fifth node read its field through a filtering source.
func (g *aggGen) addFilters(a *Agg) {
	for i := range a.Sub {
		// a.Sub may share its backing array with another tree
		if i == 0 {
			a.Sub = append([]Agg(nil), a.Sub...)
		}
		g.addFilters(&a.Sub[i])
	}
	if a.Field == "" || rapid.IntRange(0, 4).Draw(g.t, "filtered") != 0 {
		return
	}
	fl := &Flt{Op: rapid.SampledFrom([]string{"ge", "lt"}).Draw(g.t, "filterOp")}
	switch fieldKind(a.Field) {
	case "num":
		b := g.numBound(a.Field, "filterBound")
		if math.IsInf(float64(b), 0) {
			b = F(g.p.origin["n1"])
		}
		fl.Num = b
	case "date":
		fl.Date = g.p.dateBase + int64(rapid.IntRange(-2, 52).Draw(g.t, "filterDate"))*g.p.dateStep
	default:
		vocab := g.p.k2Vocab
		switch a.Field {
		case "k1":
			vocab = g.p.k1Vocab
		case "t":
			vocab = g.p.tVocab
		}
		fl.Op = rapid.SampledFrom([]string{"ge", "lt", "ne", "prefix", "ge"}).Draw(g.t, "filterTextOp")
		fl.Str = vocab[rapid.IntRange(0, len(vocab)-1).Draw(g.t, "filterWord")]
		if fl.Op == "prefix" && len(fl.Str) > 1 && rapid.Bool().Draw(g.t, "shortPrefix") {
			_, sz := utf8.DecodeRuneInString(fl.Str)
			fl.Str = fl.Str[:sz]
		}
		fl.Alt = rapid.Bool().Draw(g.t, "filterAlt")
	}
	a.Filter = fl
}

// readerOf builds some aggregation that reads field f.
func (g *aggGen) readerOf(f string, mayNest bool) Agg {
	switch fieldKind(f) {
	case "num":
		if rapid.IntRange(0, 3).Draw(g.t, "readerIsRanges") == 0 {
			return g.rangesOn(f)
		}
		return g.metricOn(f)
	case "date":
		return g.drangesOn(f)
	default:
		if rapid.Bool().Draw(g.t, "readerIsTerms") {
			return g.termsOn(f)
		}
		return Agg{Kind: "card", Field: f}
	}
}

// ---------------------------------------------------------------------------------------------
// request settings

// C16_NO_TWICE=1 (development aid): never generate a request that needs a field twice, to look
// for violations behind the double delivery of doc values.
var noTwice = os.Getenv("C16_NO_TWICE") != ""

var sizes = []int{1, 0, 2, 3, 5, 0, 1, 9, 10, 11, 12, 100}
var froms = []int{0, 1, 2, 0, 5, 9, 0, 10, 11, 15}

func genSort(t *rapid.T, aggFields []string, onAgg bool) []string {
	inAgg := map[string]bool{}
	for _, f := range aggFields {
		inAgg[f] = true
	}
	var free []string
	for _, f := range allFields {
		if !inAgg[f] {
			free = append(free, f)
		}
	}
	free = append(free, "_id", "_score")
	dir := func(f string) string {
		if f != "_score" && rapid.Bool().Draw(t, "desc") {
			return "-" + f
		}
		return f
	}
	var s []string
	if onAgg && len(aggFields) > 0 {
		s = append(s, dir(aggFields[rapid.IntRange(0, len(aggFields)-1).Draw(t, "sortAggField")]))
	}
	n := rapid.IntRange(0, 2).Draw(t, "nSortKeys")
	if !onAgg && n == 0 && rapid.Bool().Draw(t, "explicitSort") {
		n = 1
	}
	for i := 0; i < n; i++ {
		s = append(s, dir(free[rapid.IntRange(0, len(free)-1).Draw(t, "sortField")]))
	}
	if onAgg && len(s) > 1 && rapid.Bool().Draw(t, "aggKeyLast") {
		s[0], s[len(s)-1] = s[len(s)-1], s[0]
	}
	return s
}

func genSetting(t *rapid.T, aggFields []string) Setting {
	var s Setting
	// (rapid favours small draws: the frequent kinds come first)
	switch k := rapid.IntRange(0, 19).Draw(t, "settingKind"); {
	case k <= 10:
		s.Kind = "topn"
		s.N = rapid.SampledFrom(sizes).Draw(t, "n")
		s.From = rapid.SampledFrom(froms).Draw(t, "from")
	case k <= 14:
		s.Kind = "after"
		s.N = rapid.SampledFrom(sizes).Draw(t, "n")
		s.AfterIdx = rapid.IntRange(0, 59).Draw(t, "afterIdx")
	case k <= 17:
		s.Kind = "before"
		s.N = rapid.SampledFrom(sizes).Draw(t, "n")
		s.AfterIdx = rapid.IntRange(0, 59).Draw(t, "afterIdx")
	default:
		return Setting{Kind: "all"}
	}
	// "the request sorts on an aggregated field": probability one half
	onAgg := rapid.Bool().Draw(t, "sortOnAggregatedField") && !noTwice
	s.Sort = genSort(t, aggFields, onAgg)
	return s
}

func distinctFields(aggs []Agg) []string {
	seen := map[string]bool{}
	for _, a := range aggs {
		for _, f := range a.treeFields() {
			seen[f] = true
		}
	}
	var r []string
	for _, f := range allFields {
		if seen[f] {
			r = append(r, f)
		}
	}
	return r
}

func genReq(t *rapid.T, p *params) Req {
	var r Req
	r.Q = genQuery(t, p)
	// "two aggregations read the same field": probability one half
	same := rapid.Bool().Draw(t, "twoAggregationsReadTheSameField") && !noTwice
	r.Aggs = genAggs(t, p, same)
	fields := distinctFields(r.Aggs)
	n := rapid.IntRange(3, 7).Draw(t, "nSettings")
	for i := 0; i < n; i++ {
		r.Settings = append(r.Settings, genSetting(t, fields))
	}
	return r
}

func genCase(t *rapid.T) Case {
	p := genParams(t)
	c := Case{SegV2: rapid.IntRange(0, 2).Draw(t, "segmentVersion2") == 0}
	c.Batches = genHistory(t, p)
	for _, d := range c.live() {
		p.xVals = append(p.xVals, d.Num["x"]...)
	}
	n := rapid.IntRange(3, 5).Draw(t, "nRequests")
	for i := 0; i < n; i++ {
		c.Reqs = append(c.Reqs, genReq(t, p))
	}
	return c
}
