package c16

import (
	"context"
	"encoding/json"
	"fmt"
	"os"
	"testing"

	"github.com/blugelabs/bluge"

	"verifharness/vlib"
)

// TestProbeIceV2StoredFields (only with C16_PROBE_ICEV2=1) documents an observation outside C16:
// on a segment of version 2 (third-party module blugelabs/ice/v2 v2.0.1) reading the stored
// fields of the last document of a segment can panic in (*Segment).getDocStoredOffsets
// ("slice bounds out of range [:138] with capacity 136"): the two length varints are sliced
// with MaxVarintLen64 bytes each beyond the end of the uncompressed chunk.  The corpus is the
// one of testdata/other/icev2-stored-field-panic.json.  The C16 check itself reads no stored
// fields (ids are taken from the sort key of an _id-sorted search), so it is not affected.
func TestProbeIceV2StoredFields(t *testing.T) {
	if os.Getenv("C16_PROBE_ICEV2") == "" {
		t.Skip("set C16_PROBE_ICEV2=1")
	}
	b, err := os.ReadFile("testdata/other/icev2-stored-field-panic.json")
	if err != nil {
		t.Fatal(err)
	}
	var r vlib.Replay
	var c Case
	if err := json.Unmarshal(b, &r); err != nil {
		t.Fatal(err)
	}
	if err := json.Unmarshal(r.Case, &c); err != nil {
		t.Fatal(err)
	}
	ix, f := openIndex(&c)
	if f != nil {
		t.Fatal(f)
	}
	defer ix.close()
	f = vlib.Guard("stored-fields", func() *vlib.Failure {
		it, err := ix.r.Search(context.Background(), bluge.NewAllMatches(bluge.NewMatchAllQuery()))
		if err != nil {
			return vlib.Failf("search-error", "%v", err)
		}
		m, err := it.Next()
		for err == nil && m != nil {
			_ = m.VisitStoredFields(func(string, []byte) bool { return true })
			m, err = it.Next()
		}
		return nil
	})
	if f != nil {
		fmt.Println("observed:", f.Key, f.Msg[:200])
		t.Logf("observed: %s", f.Error())
	} else {
		t.Log("no panic on this tree")
	}
}
