package c12

// Worlds: directories produced by real bluge writers, captured as bytes.  A world holds an
// OLDER intact snapshot (with its segment files) and a NEWER intact snapshot written by a
// second writer session on the same directory; the rejection tests replace one of them by a
// damaged file.

import (
	"context"
	"fmt"
	"os"
	"path/filepath"
	"sort"
	"strconv"
	"strings"
	"time"

	"github.com/blugelabs/bluge"
	"github.com/blugelabs/bluge/index"

	"verifharness/vlib"
)

type DocOp struct {
	Del bool `json:"del,omitempty"`
	ID  int  `json:"id"`
}

type WorldRecipe struct {
	Phase1     [][]DocOp `json:"phase1"`
	Phase2     [][]DocOp `json:"phase2"`
	NoMerge    bool      `json:"no_merge"`
	SegVersion uint32    `json:"seg_version"` // 1 or 2
}

// World is a captured directory (JSON-serialisable, a few tens of KiB).
type World struct {
	Recipe   WorldRecipe       `json:"recipe"`
	Files    map[string][]byte `json:"files"`     // segment files and every captured snapshot file
	OldEpoch uint64            `json:"old_epoch"` // newest snapshot after phase 1
	NewEpoch uint64            `json:"new_epoch"` // newest snapshot after phase 2
	OldDocs  []string          `json:"old_docs"`  // live document ids the index showed after phase 1
	NewDocs  []string          `json:"new_docs"`
}

func itemName(kind string, id uint64) string { return fmt.Sprintf("%012x%s", id, kind) }

func (w *World) snap(epoch uint64) []byte { return w.Files[itemName(index.ItemKindSnapshot, epoch)] }

func scratchRoot() string {
	if st, err := os.Stat("/dev/shm"); err == nil && st.IsDir() {
		return "/dev/shm"
	}
	if d := os.Getenv("VERIF_SCRATCH"); d != "" {
		return d
	}
	return os.TempDir()
}

func fsConfig(dir string, mmap bool, r WorldRecipe) bluge.Config {
	cfg := bluge.DefaultConfigWithDirectory(func() index.Directory {
		d := index.NewFileSystemDirectory(dir)
		if mmap {
			d.SetLoadMMapFunc(index.LoadMMapAlways)
		} else {
			d.SetLoadMMapFunc(index.LoadMMapNever)
		}
		return d
	})
	if r.SegVersion != 0 {
		cfg = cfg.WithSegmentVersion(r.SegVersion)
	}
	if r.NoMerge {
		ic := cfg.VerifIndexConfig()
		ic.MergePlanOptions.MaxSegmentSize = 1
		ic.MinSegmentsForInMemoryMerge = 1 << 30
		cfg = cfg.VerifWithIndexConfig(ic)
	}
	return cfg
}

func docID(i int) string { return "d" + strconv.Itoa(i) }

func applyBatches(w *bluge.Writer, batches [][]DocOp) error {
	for _, ops := range batches {
		b := bluge.NewBatch()
		for _, op := range ops {
			id := docID(op.ID)
			if op.Del {
				b.Delete(bluge.Identifier(id))
			} else {
				doc := bluge.NewDocument(id).AddField(bluge.NewTextField("body", "snapshot world document "+id).StoreValue())
				b.Update(doc.ID(), doc)
			}
		}
		if err := w.Batch(b); err != nil {
			return err
		}
	}
	return nil
}

// liveDocs lists the _id of every live document of a reader, sorted.
func liveDocs(r *bluge.Reader) ([]string, error) {
	it, err := r.Search(context.Background(), bluge.NewAllMatches(bluge.NewMatchAllQuery()))
	if err != nil {
		return nil, err
	}
	var ids []string
	for {
		m, err := it.Next()
		if err != nil {
			return nil, err
		}
		if m == nil {
			break
		}
		var id string
		if err := m.VisitStoredFields(func(field string, value []byte) bool {
			if field == "_id" {
				id = string(value)
			}
			return true
		}); err != nil {
			return nil, err
		}
		ids = append(ids, id)
	}
	sort.Strings(ids)
	return ids, nil
}

func readDirFiles(dir string) (map[string][]byte, []uint64, error) {
	ents, err := os.ReadDir(dir)
	if err != nil {
		return nil, nil, err
	}
	files := map[string][]byte{}
	var epochs []uint64
	for _, e := range ents {
		ext := filepath.Ext(e.Name())
		if ext != index.ItemKindSnapshot && ext != index.ItemKindSegment {
			continue
		}
		b, err := os.ReadFile(filepath.Join(dir, e.Name()))
		if err != nil {
			return nil, nil, err
		}
		files[e.Name()] = b
		if ext == index.ItemKindSnapshot {
			ep, err := strconv.ParseUint(strings.TrimSuffix(e.Name(), ext), 16, 64)
			if err != nil {
				return nil, nil, err
			}
			epochs = append(epochs, ep)
		}
	}
	sort.Slice(epochs, func(i, j int) bool { return epochs[i] < epochs[j] })
	return files, epochs, nil
}

// buildWorld runs the two writer sessions.  Everything is sequential; background merging is
// either disabled or left at its defaults, so which files exist can differ from run to run:
// the captured bytes, not the recipe, are what the cases are judged on.
func buildWorld(r WorldRecipe) (*World, error) {
	dir, err := os.MkdirTemp(scratchRoot(), "c12-world-")
	if err != nil {
		return nil, err
	}
	defer os.RemoveAll(dir)
	w := &World{Recipe: r, Files: map[string][]byte{}}
	phase := func(batches [][]DocOp) (map[string][]byte, uint64, []string, error) {
		var files map[string][]byte
		var epoch uint64
		var docs []string
		f := vlib.Watchdog("world-writer", 120*time.Second, func() *vlib.Failure {
			wr, err := bluge.OpenWriter(fsConfig(dir, true, r))
			if err != nil {
				return vlib.Failf("world", "OpenWriter: %v", err)
			}
			if err := applyBatches(wr, batches); err != nil {
				return vlib.Failf("world", "Batch: %v", err)
			}
			rd, err := wr.Reader()
			if err != nil {
				return vlib.Failf("world", "Reader: %v", err)
			}
			docs, err = liveDocs(rd)
			_ = rd.Close()
			if err != nil {
				return vlib.Failf("world", "listing: %v", err)
			}
			if err := wr.Close(); err != nil {
				return vlib.Failf("world", "Close: %v", err)
			}
			var epochs []uint64
			files, epochs, err = readDirFiles(dir)
			if err != nil || len(epochs) == 0 {
				return vlib.Failf("world", "no snapshot after a writer session (%v)", err)
			}
			epoch = epochs[len(epochs)-1]
			return nil
		})
		if f != nil {
			return nil, 0, nil, fmt.Errorf("%s", f.Msg)
		}
		return files, epoch, docs, nil
	}
	f1, e1, d1, err := phase(r.Phase1)
	if err != nil {
		return nil, err
	}
	f2, e2, d2, err := phase(r.Phase2)
	if err != nil {
		return nil, err
	}
	if e2 <= e1 {
		return nil, fmt.Errorf("second session did not produce a newer snapshot (%d then %d)", e1, e2)
	}
	w.OldEpoch, w.NewEpoch, w.OldDocs, w.NewDocs = e1, e2, d1, d2
	keep := map[string]bool{itemName(index.ItemKindSnapshot, e1): true, itemName(index.ItemKindSnapshot, e2): true}
	for _, src := range []struct {
		files map[string][]byte
		epoch uint64
	}{{f1, e1}, {f2, e2}} {
		v := judge(src.files[itemName(index.ItemKindSnapshot, src.epoch)])
		if !v.Valid {
			return nil, fmt.Errorf("the harness's decoder does not accept the writer's snapshot %d: crc=%v struct=%v blob=%v", src.epoch, v.CRCOK, v.Struct, v.BlobErr)
		}
		for _, e := range v.Entries {
			keep[itemName(index.ItemKindSegment, e.ID)] = true
		}
	}
	for name := range keep {
		b1, in1 := f1[name]
		b2, in2 := f2[name]
		switch {
		case in2:
			if in1 && filepath.Ext(name) == index.ItemKindSegment && string(b1) != string(b2) {
				return nil, fmt.Errorf("segment file %s changed between the sessions", name)
			}
			w.Files[name] = b2
		case in1:
			w.Files[name] = b1
		default:
			return nil, fmt.Errorf("file %s named by a snapshot is missing", name)
		}
	}
	return w, nil
}

// materialise writes the world (with some snapshot files replaced/added) into a fresh directory.
func (w *World) materialise(dir string, snaps map[uint64][]byte) error {
	for name, b := range w.Files {
		if filepath.Ext(name) == index.ItemKindSnapshot {
			continue
		}
		if err := os.WriteFile(filepath.Join(dir, name), b, 0o644); err != nil {
			return err
		}
	}
	for ep, b := range snaps {
		if err := os.WriteFile(filepath.Join(dir, itemName(index.ItemKindSnapshot, ep)), b, 0o644); err != nil {
			return err
		}
	}
	return nil
}

// memDirOf serves the world's segment files from memory.
func (w *World) memDirOf(snaps map[uint64][]byte) *memDir {
	d := &memDir{snaps: snaps, segs: map[uint64][]byte{}}
	for name, b := range w.Files {
		if filepath.Ext(name) == index.ItemKindSegment {
			id, _ := strconv.ParseUint(strings.TrimSuffix(name, index.ItemKindSegment), 16, 64)
			d.segs[id] = b
		}
	}
	return d
}
