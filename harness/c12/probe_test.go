package c12

import (
	"testing"
	"time"
	"os"
	"sort"
	"github.com/blugelabs/bluge"
)

func TestProbeWorld(t *testing.T) {
	r := WorldRecipe{NoMerge: true, SegVersion: 1}
	for b := 0; b < 4; b++ {
		var ops []DocOp
		for i := 0; i < 5; i++ {
			ops = append(ops, DocOp{ID: b*5 + i})
		}
		r.Phase1 = append(r.Phase1, ops)
	}
	r.Phase2 = [][]DocOp{{{Del: true, ID: 1}, {Del: true, ID: 7}, {ID: 100}}, {{ID: 3}, {Del: true, ID: 19}}}
	t0 := time.Now()
	w, err := buildWorld(r)
	if err != nil {
		t.Fatal(err)
	}
	t.Logf("world in %v: old %d new %d olddocs %d newdocs %d", time.Since(t0), w.OldEpoch, w.NewEpoch, len(w.OldDocs), len(w.NewDocs))
	var names []string
	for n, b := range w.Files {
		names = append(names, n+":"+itoa(len(b)))
	}
	sort.Strings(names)
	t.Log(names)
	for _, ep := range []uint64{w.OldEpoch, w.NewEpoch} {
		v := judge(w.snap(ep))
		for _, s := range v.State {
			t.Logf("epoch %d: seg %d %s v%d deleted %v", ep, s.ID, s.Type, s.Version, s.Deleted)
		}
	}
	// timing of fs open
	dir, _ := os.MkdirTemp(scratchRoot(), "c12-probe-")
	defer os.RemoveAll(dir)
	bad := append([]byte(nil), w.snap(w.NewEpoch)...)
	bad[5] ^= 1
	t0 = time.Now()
	N := 200
	for i := 0; i < N; i++ {
		d, _ := os.MkdirTemp(dir, "c")
		if err := w.materialise(d, map[uint64][]byte{w.OldEpoch: w.snap(w.OldEpoch), w.NewEpoch: bad}); err != nil {
			t.Fatal(err)
		}
		rd, err := bluge.OpenReader(fsConfig(d, i%2 == 0, w.Recipe))
		if err != nil {
			t.Fatal(err)
		}
		docs, _ := liveDocs(rd)
		if len(docs) != len(w.OldDocs) {
			t.Fatalf("docs %v", docs)
		}
		rd.Close()
		os.RemoveAll(d)
	}
	t.Logf("reader case: %v", time.Since(t0)/time.Duration(N))
	t0 = time.Now()
	for i := 0; i < N; i++ {
		d, _ := os.MkdirTemp(dir, "c")
		if err := w.materialise(d, map[uint64][]byte{w.OldEpoch: w.snap(w.OldEpoch), w.NewEpoch: bad}); err != nil {
			t.Fatal(err)
		}
		wr, err := bluge.OpenWriter(fsConfig(d, i%2 == 0, w.Recipe))
		if err != nil {
			t.Fatal(err)
		}
		rd, _ := wr.Reader()
		docs, _ := liveDocs(rd)
		if len(docs) != len(w.OldDocs) {
			t.Fatalf("docs %v", docs)
		}
		rd.Close()
		wr.Close()
		if i == 0 {
			ents, _ := os.ReadDir(d)
			for _, e := range ents { t.Log("after writer:", e.Name()) }
		}
		os.RemoveAll(d)
	}
	t.Logf("writer case: %v", time.Since(t0)/time.Duration(N))
}

func itoa(i int) string { return string(rune('0'+i/10000%10)) + string(rune('0'+i/1000%10)) + string(rune('0'+i/100%10)) + string(rune('0'+i/10%10)) + string(rune('0'+i%10)) }
