package c12

// Independent re-statement of the snapshot file format (written from the layout described in
// the property, not from the code under test):
//
//	file    = body crc32(body) (4 bytes, big endian, IEEE polynomial)
//	body    = uvarint(1) uvarint(count) entry*count
//	entry   = uvarint(len(type)) type  version(4 bytes big endian)  uvarint(id)  uvarint(len(blob)) blob
//	blob    = portable roaring bitmap serialisation of the deleted set ("" = no deletions)
//
// plus an independent reader/writer of the portable roaring format, so that the deleted sets
// can be compared without going through the library the implementation uses.

import (
	"encoding/binary"
	"errors"
	"fmt"
	"hash/crc32"
	"math/bits"
	"sort"
)

// ---------------------------------------------------------------------------------------------
// varints

func putUvarint(dst []byte, v uint64) []byte {
	for v >= 0x80 {
		dst = append(dst, byte(v)|0x80)
		v >>= 7
	}
	return append(dst, byte(v))
}

var errShort = errors.New("ends inside a field")
var errOverflow = errors.New("uvarint longer than 64 bits")

// getUvarint reads one uvarint at b[p:].  Non-minimal forms are accepted (they denote the
// same number), more than 64 bits are not.
func getUvarint(b []byte, p int) (v uint64, np int, err error) {
	var shift uint
	for i := 0; ; i++ {
		if p+i >= len(b) {
			return 0, p, errShort
		}
		c := b[p+i]
		if i == 9 && c > 1 {
			return 0, p, errOverflow
		}
		if c < 0x80 {
			return v | uint64(c)<<shift, p + i + 1, nil
		}
		v |= uint64(c&0x7f) << shift
		shift += 7
		if i == 9 {
			return 0, p, errOverflow
		}
	}
}

// ---------------------------------------------------------------------------------------------
// roaring, portable format

const (
	cookieRun   = 12347
	cookieNoRun = 12346
)

// RCont is one 2^16 chunk of a bitmap in the form it is serialised.
type RCont struct {
	Key  uint16
	Kind string   // "array" (card <= 4096), "bitmap" (card > 4096), "run"
	Vals []uint16 // array, bitmap: the sorted low halves
	Runs [][2]int // run: [first, last] inclusive, sorted, non-adjacent
}

func (c RCont) card() int {
	if c.Kind == "run" {
		n := 0
		for _, r := range c.Runs {
			n += r[1] - r[0] + 1
		}
		return n
	}
	return len(c.Vals)
}

func (c RCont) appendValues(out []uint32) []uint32 {
	hi := uint32(c.Key) << 16
	if c.Kind == "run" {
		for _, r := range c.Runs {
			for v := r[0]; v <= r[1]; v++ {
				out = append(out, hi|uint32(v))
			}
		}
		return out
	}
	for _, v := range c.Vals {
		out = append(out, hi|uint32(v))
	}
	return out
}

// encodeRoaring writes containers (sorted by key, non-empty) in the portable format.
func encodeRoaring(cs []RCont) []byte {
	hasRun := false
	for _, c := range cs {
		if c.Kind == "run" {
			hasRun = true
		}
	}
	var b []byte
	le16 := func(v int) { b = append(b, byte(v), byte(v>>8)) }
	le32 := func(v int) { b = append(b, byte(v), byte(v>>8), byte(v>>16), byte(v>>24)) }
	if hasRun {
		le16(cookieRun)
		le16(len(cs) - 1)
		flags := make([]byte, (len(cs)+7)/8)
		for i, c := range cs {
			if c.Kind == "run" {
				flags[i/8] |= 1 << (uint(i) % 8)
			}
		}
		b = append(b, flags...)
	} else {
		le32(cookieNoRun)
		le32(len(cs))
	}
	for _, c := range cs {
		le16(int(c.Key))
		le16(c.card() - 1)
	}
	size := func(c RCont) int {
		switch c.Kind {
		case "run":
			return 2 + 4*len(c.Runs)
		case "bitmap":
			return 8192
		}
		return 2 * len(c.Vals)
	}
	if !hasRun || len(cs) >= 4 {
		off := len(b) + 4*len(cs)
		for _, c := range cs {
			le32(off)
			off += size(c)
		}
	}
	for _, c := range cs {
		switch c.Kind {
		case "run":
			le16(len(c.Runs))
			for _, r := range c.Runs {
				le16(r[0])
				le16(r[1] - r[0])
			}
		case "bitmap":
			words := make([]uint64, 1024)
			for _, v := range c.Vals {
				words[v>>6] |= 1 << (v & 63)
			}
			for _, w := range words {
				b = binary.LittleEndian.AppendUint64(b, w)
			}
		default:
			for _, v := range c.Vals {
				le16(int(v))
			}
		}
	}
	return b
}

// decodeRoaring reads a portable-format blob.  err != nil: not decodable at all.  canon is
// false when the blob decodes but is not what a serialiser writes (unsorted or duplicate
// keys/values, wrong cardinality in the header, touching or overlapping runs, wrong offsets,
// bytes left over): such blobs are outside what this harness judges.
func decodeRoaring(b []byte) (set []uint32, kinds []string, canon bool, err error) {
	p := 0
	need := func(n int) error {
		if n < 0 || p+n > len(b) {
			return errShort
		}
		return nil
	}
	u16 := func() int { v := int(b[p]) | int(b[p+1])<<8; p += 2; return v }
	u32 := func() uint32 { v := binary.LittleEndian.Uint32(b[p:]); p += 4; return v }
	if err = need(4); err != nil {
		return
	}
	cookie := u32()
	var size int
	var flags []byte
	switch {
	case cookie&0xffff == cookieRun:
		size = int(cookie>>16) + 1
		if err = need((size + 7) / 8); err != nil {
			return
		}
		flags = b[p : p+(size+7)/8]
		p += (size + 7) / 8
	case cookie == cookieNoRun:
		if err = need(4); err != nil {
			return
		}
		s := u32()
		if s > 1<<16 {
			return nil, nil, false, fmt.Errorf("more than 65536 containers")
		}
		size = int(s)
	default:
		return nil, nil, false, fmt.Errorf("bad cookie %#x", cookie)
	}
	if err = need(4 * size); err != nil {
		return
	}
	keys, cards := make([]int, size), make([]int, size)
	total := 0
	for i := 0; i < size; i++ {
		keys[i] = u16()
		cards[i] = u16() + 1
		total += cards[i]
	}
	if total > 4*len(b)+65536 {
		total = 4*len(b) + 65536 // the header is not to be trusted with more
	}
	set = make([]uint32, 0, total)
	canon = true
	for i := 1; i < size; i++ {
		if keys[i] <= keys[i-1] {
			canon = false
		}
	}
	var offs []uint32
	if flags == nil || size >= 4 {
		if err = need(4 * size); err != nil {
			return
		}
		for i := 0; i < size; i++ {
			offs = append(offs, u32())
		}
	}
	for i := 0; i < size; i++ {
		if offs != nil && int(offs[i]) != p {
			canon = false
		}
		hi := uint32(keys[i]) << 16
		isRun := flags != nil && flags[i/8]&(1<<(uint(i)%8)) != 0
		switch {
		case isRun:
			kinds = append(kinds, "run")
			if err = need(2); err != nil {
				return
			}
			nr := u16()
			if err = need(4 * nr); err != nil {
				return
			}
			if nr == 0 {
				canon = false
			}
			prevLast, n := -2, 0
			for j := 0; j < nr; j++ {
				first := u16()
				last := first + u16()
				if last > 0xffff {
					canon = false
					last = 0xffff
				}
				if first <= prevLast+1 {
					canon = false
				}
				prevLast = last
				for v := first; v <= last; v++ {
					set = append(set, hi|uint32(v))
				}
				n += last - first + 1
			}
			if n != cards[i] {
				canon = false
			}
		case cards[i] > 4096:
			kinds = append(kinds, "bitmap")
			if err = need(8192); err != nil {
				return
			}
			n := 0
			for w := 0; w < 1024; w++ {
				x := binary.LittleEndian.Uint64(b[p+8*w:])
				for x != 0 {
					bit := bits.TrailingZeros64(x)
					x &^= 1 << uint(bit)
					set = append(set, hi|uint32(w*64+bit))
					n++
				}
			}
			p += 8192
			if n != cards[i] {
				canon = false
			}
		default:
			kinds = append(kinds, "array")
			if err = need(2 * cards[i]); err != nil {
				return
			}
			prev := -1
			for j := 0; j < cards[i]; j++ {
				v := u16()
				if v <= prev {
					canon = false
				}
				prev = v
				set = append(set, hi|uint32(v))
			}
		}
	}
	if p != len(b) {
		canon = false
	}
	if !canon {
		sort.Slice(set, func(i, j int) bool { return set[i] < set[j] })
	}
	return set, kinds, canon, nil
}

// ---------------------------------------------------------------------------------------------
// snapshot files

// Entry is one segment of a snapshot as persisted.
type Entry struct {
	ID      uint64
	Type    string
	Version uint32
	Blob    []byte // serialised deleted set, empty = none
}

func encodeBody(es []Entry) []byte {
	b := putUvarint(nil, 1)
	b = putUvarint(b, uint64(len(es)))
	for _, e := range es {
		b = putUvarint(b, uint64(len(e.Type)))
		b = append(b, e.Type...)
		b = binary.BigEndian.AppendUint32(b, e.Version)
		b = putUvarint(b, e.ID)
		b = putUvarint(b, uint64(len(e.Blob)))
		b = append(b, e.Blob...)
	}
	return b
}

func withCRC(body []byte) []byte {
	out := append([]byte(nil), body...)
	return binary.BigEndian.AppendUint32(out, crc32.ChecksumIEEE(body))
}

func encodeFile(es []Entry) []byte { return withCRC(encodeBody(es)) }

// fieldSpan locates one field of a decoded body (used to aim mutations and to classify them).
type fieldSpan struct {
	Name     string // "format", "count", "typelen", "type", "version", "id", "dellen", "blob"
	Seg      int
	From, To int
}

// decodeBody decodes a body strictly: every field must be present and the entries must end
// exactly at the end of the body.  spans is filled as far as decoding got.
func decodeBody(b []byte) (es []Entry, spans []fieldSpan, err error) {
	p := 0
	varint := func(name string, seg int) (uint64, error) {
		v, np, e := getUvarint(b, p)
		if e != nil {
			return 0, fmt.Errorf("%s of entry %d at offset %d: %w", name, seg, p, e)
		}
		spans = append(spans, fieldSpan{name, seg, p, np})
		p = np
		return v, nil
	}
	bytesN := func(name string, seg int, n uint64) ([]byte, error) {
		if n > uint64(len(b)-p) {
			return nil, fmt.Errorf("%s of entry %d at offset %d: %d bytes announced, %d left: %w", name, seg, p, n, len(b)-p, errShort)
		}
		spans = append(spans, fieldSpan{name, seg, p, p + int(n)})
		out := b[p : p+int(n)]
		p += int(n)
		return out, nil
	}
	format, err := varint("format", -1)
	if err != nil {
		return nil, spans, err
	}
	if format != 1 {
		return nil, spans, fmt.Errorf("format version %d", format)
	}
	count, err := varint("count", -1)
	if err != nil {
		return nil, spans, err
	}
	for i := uint64(0); i < count; i++ {
		if p >= len(b) {
			return nil, spans, fmt.Errorf("entry %d of %d at offset %d: %w", i, count, p, errShort)
		}
		var e Entry
		n, err := varint("typelen", int(i))
		if err != nil {
			return nil, spans, err
		}
		t, err := bytesN("type", int(i), n)
		if err != nil {
			return nil, spans, err
		}
		e.Type = string(t)
		v, err := bytesN("version", int(i), 4)
		if err != nil {
			return nil, spans, err
		}
		e.Version = binary.BigEndian.Uint32(v)
		if e.ID, err = varint("id", int(i)); err != nil {
			return nil, spans, err
		}
		if n, err = varint("dellen", int(i)); err != nil {
			return nil, spans, err
		}
		if e.Blob, err = bytesN("blob", int(i), n); err != nil {
			return nil, spans, err
		}
		es = append(es, e)
	}
	if p != len(b) {
		return nil, spans, fmt.Errorf("%d bytes after the last entry", len(b)-p)
	}
	return es, spans, nil
}

// SegState is the meaning of one entry.
type SegState struct {
	ID      uint64
	Type    string
	Version uint32
	Deleted []uint32 // sorted
}

// verdict of the harness's decoder about a whole file.
type verdict struct {
	CRCOK    bool    // length >= 4 and the trailer is the CRC of everything before it
	Struct   error   // nil: the body decodes strictly
	Entries  []Entry // when Struct == nil
	Spans    []fieldSpan
	State    []SegState // when Valid
	BlobErr  error      // some blob is not decodable by the harness's roaring reader
	NonCanon bool       // some blob decodes but is not in serialiser form
	Valid    bool       // CRCOK && Struct == nil && every blob decodes canonically
}

// Unjudged: intact checksum and framing, but a deleted-set blob that only the roaring library
// can be asked about.  Acceptance or rejection of such a file is not judged (safety still is).
func (v verdict) Unjudged() bool {
	return v.CRCOK && v.Struct == nil && (v.BlobErr != nil || v.NonCanon)
}

func judge(file []byte) verdict {
	var v verdict
	if len(file) < 4 {
		v.Struct = errShort
		return v
	}
	body := file[:len(file)-4]
	v.CRCOK = crc32.ChecksumIEEE(body) == binary.BigEndian.Uint32(file[len(file)-4:])
	v.Entries, v.Spans, v.Struct = decodeBody(body)
	if v.Struct != nil {
		return v
	}
	for _, e := range v.Entries {
		s := SegState{ID: e.ID, Type: e.Type, Version: e.Version}
		if len(e.Blob) > 0 {
			set, _, canon, err := decodeRoaring(e.Blob)
			if err != nil {
				v.BlobErr = err
			} else if !canon {
				v.NonCanon = true
			}
			s.Deleted = set
		}
		v.State = append(v.State, s)
	}
	v.Valid = v.CRCOK && v.BlobErr == nil && !v.NonCanon
	return v
}

func sameState(a, b []SegState) string {
	if len(a) != len(b) {
		return fmt.Sprintf("%d segments vs %d", len(a), len(b))
	}
	for i := range a {
		x, y := a[i], b[i]
		if x.ID != y.ID || x.Type != y.Type || x.Version != y.Version {
			return fmt.Sprintf("segment %d: (id %d, type %q, version %d) vs (id %d, type %q, version %d)", i, x.ID, x.Type, x.Version, y.ID, y.Type, y.Version)
		}
		if len(x.Deleted) != len(y.Deleted) {
			return fmt.Sprintf("segment %d: %d deleted vs %d deleted", i, len(x.Deleted), len(y.Deleted))
		}
		for j := range x.Deleted {
			if x.Deleted[j] != y.Deleted[j] {
				return fmt.Sprintf("segment %d: deleted sets differ at position %d: %d vs %d", i, j, x.Deleted[j], y.Deleted[j])
			}
		}
	}
	return ""
}
