package c12

// Isolation: cases that may take the process down when the loader is wrong (unmapped memory
// formatted into an error, allocation by a hostile length) are evaluated in a child process:
// the test binary re-executed with VERIF_CHILD=c12-cases.  The child prints BEGIN i / END i
// {json} around every case, so a death is attributed to the case in flight.

import (
	"bufio"
	"bytes"
	"encoding/json"
	"fmt"
	"io"
	"log"
	"os"
	"os/exec"
	"path/filepath"
	"strconv"
	"strings"
	"syscall"
	"time"

	"verifharness/vlib"
)

func init() { vlib.RegisterChild("c12-cases", childMain) }

type job struct {
	Worlds []*World     `json:"worlds"`
	Cases  []RejectCase `json:"cases"`
}

type childResult struct {
	Info caseInfo      `json:"info"`
	Fail *vlib.Failure `json:"fail"`
}

const childASLimit = 4 << 30

func childMain() {
	log.SetOutput(io.Discard)
	// an absurd allocation must be a prompt, attributable death, not a slow walk into swap
	_ = syscall.Setrlimit(syscall.RLIMIT_AS, &syscall.Rlimit{Cur: childASLimit, Max: childASLimit})
	raw, err := os.ReadFile(os.Getenv("C12_JOB"))
	if err != nil {
		fmt.Println("JOBERROR", err)
		os.Exit(4)
	}
	var j job
	if err := json.Unmarshal(raw, &j); err != nil {
		fmt.Println("JOBERROR", err)
		os.Exit(4)
	}
	out := bufio.NewWriter(os.Stdout)
	start, _ := strconv.Atoi(os.Getenv("C12_START"))
	failures := 0
	for i := start; i < len(j.Cases); i++ {
		c := j.Cases[i]
		if c.World == nil && c.WorldIdx > 0 {
			c.World = j.Worlds[c.WorldIdx-1]
		}
		fmt.Fprintf(out, "BEGIN %d\n", i)
		out.Flush()
		info, f := evalReject(c)
		b, _ := json.Marshal(childResult{Info: info, Fail: f})
		fmt.Fprintf(out, "END %d %s\n", i, b)
		out.Flush()
		if f != nil {
			if _, known := vlib.IsKnown("C12", f.Key); !known {
				failures++
			}
		}
		if failures >= 3 {
			// the parent stops at the first unknown failure; on a broken tree every further case can
			// cost seconds (gigabyte allocations), so do not grind through thousands of them
			break
		}
	}
	fmt.Fprintln(out, "DONE")
	out.Flush()
	os.Exit(0)
}

// runIsolated evaluates the cases in child processes and returns one result per case.  A case
// during which the child died gets a Failure with key child-died@<path>; the remaining cases
// continue in a fresh child (at most three deaths; the first one already fails the test).
func runIsolated(worlds []*World, cases []RejectCase) ([]childResult, error) {
	dir := os.Getenv("VERIF_SCRATCH")
	if dir == "" {
		dir = os.TempDir()
	}
	f, err := os.CreateTemp(dir, "c12-job-*.json")
	if err != nil {
		return nil, err
	}
	defer os.Remove(f.Name())
	slim := make([]RejectCase, len(cases))
	for i, c := range cases {
		slim[i] = c
		if c.World != nil {
			for wi, w := range worlds {
				if w == c.World {
					slim[i].World, slim[i].WorldIdx = nil, wi+1
				}
			}
		}
	}
	if err := json.NewEncoder(f).Encode(job{Worlds: worlds, Cases: slim}); err != nil {
		return nil, err
	}
	f.Close()
	// directories of the file-system cases live under one root that is removed afterwards, also
	// when a child died in the middle of a case
	fsRoot, err := os.MkdirTemp(scratchRoot(), "c12-iso-")
	if err != nil {
		return nil, err
	}
	defer os.RemoveAll(fsRoot)
	results := make([]childResult, len(cases))
	self, err := os.Executable()
	if err != nil {
		self = os.Args[0]
	}
	if !filepath.IsAbs(self) {
		if s := os.Getenv("VERIF_SELF"); s != "" {
			self = s
		}
	}
	start, deaths := 0, 0
	limit := 4 * time.Minute
	if vlib.Thorough() {
		limit = 15 * time.Minute
	}
	for start < len(cases) && deaths < 3 {
		cmd := exec.Command(self)
		cmd.Env = append(os.Environ(), "VERIF_CHILD=c12-cases", "C12_JOB="+f.Name(), "C12_START="+strconv.Itoa(start), "C12_FSROOT="+fsRoot, "VERIF_FRAG=", "GOTRACEBACK=single")
		var stdout, stderr bytes.Buffer
		cmd.Stdout, cmd.Stderr = &stdout, &stderr
		done := make(chan error, 1)
		if err := cmd.Start(); err != nil {
			return nil, err
		}
		go func() { done <- cmd.Wait() }()
		var werr error
		timedOut := false
		select {
		case werr = <-done:
		case <-time.After(limit):
			_ = cmd.Process.Kill()
			werr = <-done
			timedOut = true
		}
		inflight, finished := -1, false
		for _, line := range strings.Split(stdout.String(), "\n") {
			switch {
			case strings.HasPrefix(line, "BEGIN "):
				inflight, _ = strconv.Atoi(strings.TrimPrefix(line, "BEGIN "))
			case strings.HasPrefix(line, "END "):
				rest := strings.TrimPrefix(line, "END ")
				sp := strings.IndexByte(rest, ' ')
				if sp < 0 {
					continue
				}
				i, _ := strconv.Atoi(rest[:sp])
				var r childResult
				if err := json.Unmarshal([]byte(rest[sp+1:]), &r); err != nil {
					return nil, fmt.Errorf("child result %d: %v", i, err)
				}
				if i >= 0 && i < len(results) {
					results[i] = r
				}
				if i == inflight {
					inflight = -1
				}
				start = i + 1
			case line == "DONE":
				finished = true
			case strings.HasPrefix(line, "JOBERROR"):
				return nil, fmt.Errorf("child: %s", line)
			}
		}
		if finished {
			break
		}
		if inflight < 0 {
			return nil, fmt.Errorf("child ended without a case in flight (start %d, err %v): %s", start, werr, tail(stderr.String(), 2000))
		}
		c := cases[inflight]
		site := c.Path
		if c.Path == "fs" {
			site = "OpenReader"
			if c.Writer {
				site = "OpenWriter"
			}
			if c.MMap {
				site += "/mmap"
			} else {
				site += "/no-mmap"
			}
		}
		key := "child-died@" + site
		msg := fmt.Sprintf("the process died (%v) while handling: %s\n%s", werr, describeMut(c.Mut), tail(stderr.String(), 2500))
		if timedOut {
			key = "hang@" + site
		}
		results[inflight] = childResult{Fail: &vlib.Failure{Key: key, Msg: msg}}
		start = inflight + 1
		deaths++
	}
	return results, nil
}

func tail(s string, n int) string {
	// keep the head of a crash report (signal, faulting frame), it is what names the cause
	if len(s) > n {
		return s[:n]
	}
	return s
}
