package c12

import (
	"bytes"
	"fmt"
	"io"
	"runtime"
	"runtime/metrics"
	"sort"
	"sync/atomic"
	"time"

	segment "github.com/blugelabs/bluge_segment_api"

	"github.com/blugelabs/bluge/index"

	"verifharness/vlib"
)

// ---------------------------------------------------------------------------------------------
// a read-only directory held in memory (written for this check, not bluge's own)

type memDir struct {
	snaps   map[uint64][]byte
	segs    map[uint64][]byte
	anySeg  []byte // when non-nil every segment id exists with this content
	opened  int
	closed  int
	loadLog []string
}

type memCloser struct{ d *memDir }

func (c memCloser) Close() error { c.d.closed++; return nil }

func (d *memDir) Setup(readOnly bool) error { return nil }
func (d *memDir) List(kind string) ([]uint64, error) {
	var ids []uint64
	switch kind {
	case index.ItemKindSnapshot:
		for id := range d.snaps {
			ids = append(ids, id)
		}
	case index.ItemKindSegment:
		for id := range d.segs {
			ids = append(ids, id)
		}
	}
	sort.Slice(ids, func(i, j int) bool { return ids[i] > ids[j] })
	return ids, nil
}
func (d *memDir) Load(kind string, id uint64) (*segment.Data, io.Closer, error) {
	var b []byte
	var ok bool
	switch kind {
	case index.ItemKindSnapshot:
		b, ok = d.snaps[id]
	case index.ItemKindSegment:
		if b, ok = d.segs[id]; !ok && d.anySeg != nil {
			b, ok = d.anySeg, true
		}
	}
	if !ok {
		return nil, nil, fmt.Errorf("memDir: no item %s %d", kind, id)
	}
	if b == nil {
		b = []byte{}
	}
	d.opened++
	return segment.NewDataBytes(b), memCloser{d}, nil
}
func (d *memDir) Persist(kind string, id uint64, w index.WriterTo, closeCh chan struct{}) error {
	return fmt.Errorf("memDir is read-only")
}
func (d *memDir) Remove(kind string, id uint64) error { return fmt.Errorf("memDir is read-only") }
func (d *memDir) Stats() (uint64, uint64)             { return 0, 0 }
func (d *memDir) Sync() error                         { return nil }
func (d *memDir) Lock() error                         { return nil }
func (d *memDir) Unlock() error                       { return nil }

// ---------------------------------------------------------------------------------------------

type typeVer struct {
	Type string
	Ver  uint32
}

// loadResult is what the real loader did with a directory.
type loadResult struct {
	Err   string     // OpenReader failed
	Epoch uint64     // epoch of the snapshot it exposes
	State []SegState // segments of that snapshot
	Alloc uint64     // bytes allocated during the call
}

// stubPlugins registers a loadable stand-in for every (type, version) named; the stand-in
// accepts any segment file.
func stubPlugins(cfg index.Config, tvs []typeVer) index.Config {
	for _, tv := range tvs {
		tv := tv
		cfg = cfg.WithSegmentPlugin(&index.SegmentPlugin{Type: tv.Type, Version: tv.Ver,
			Load: func(*segment.Data) (segment.Segment, error) {
				return &stubSegment{typ: tv.Type, ver: tv.Ver, n: 0}, nil
			}})
	}
	return cfg
}

// measure returns the bytes allocated while f ran (f must be repeatable).  The cheap reading
// (runtime/metrics, no stop-the-world) can lag by what the per-P allocation caches have not
// flushed yet - large allocations are always counted at once -, so a reading that would matter
// (above a quarter MiB) is confirmed by running f again between two exact runtime.ReadMemStats
// calls; the exact figure is the one that is judged.
var allocSample = []metrics.Sample{{Name: "/gc/heap/allocs:bytes"}}

func heapAllocs() uint64 {
	metrics.Read(allocSample)
	return allocSample[0].Value.Uint64()
}

func measure(f func()) uint64 {
	a := heapAllocs()
	f()
	d := heapAllocs() - a
	if d < 256<<10 {
		return d
	}
	var x, y runtime.MemStats
	runtime.ReadMemStats(&x)
	f()
	runtime.ReadMemStats(&y)
	return y.TotalAlloc - x.TotalAlloc
}

// openMem runs the real loader (index.OpenReader: list, newest first, loadSnapshot with CRC
// validation, fall back) on an in-memory directory.
func openMem(d *memDir, tvs []typeVer) (res loadResult, fail *vlib.Failure) {
	fail = guarded("index.OpenReader", func() *vlib.Failure {
		cfg := stubPlugins(index.DefaultConfigWithDirectory(func() index.Directory { return d }), tvs)
		var snap *index.Snapshot
		var err error
		res.Alloc = measure(func() {
			if snap != nil {
				_ = snap.Close() // second, exact measurement run
			}
			snap, err = index.OpenReader(cfg)
		})
		if err != nil {
			res.Err = err.Error()
			return nil
		}
		res.Epoch = snap.VerifEpoch()
		res.State = infoState(snap.VerifSegmentInfo())
		if err := snap.Close(); err != nil {
			return vlib.Failf("close-error", "closing the loaded snapshot: %v", err)
		}
		return nil
	})
	return res, fail
}

// decodeDirect runs the exported decoder the way loadSnapshot feeds it (everything but the
// 4-byte trailer).
type directResult struct {
	Err   string
	N     int64
	State []SegState
	Alloc uint64
}

func decodeDirect(file []byte) (res directResult, fail *vlib.Failure) {
	body := file
	if len(body) >= 4 {
		body = body[:len(body)-4]
	} else {
		body = nil
	}
	fail = guarded("Snapshot.ReadFrom", func() *vlib.Failure {
		var snap *index.Snapshot
		var err error
		res.Alloc = measure(func() {
			snap = index.VerifNewSnapshot(1, nil)
			res.N, err = snap.ReadFrom(bytes.NewReader(body))
		})
		if err != nil {
			res.Err = err.Error()
			return nil
		}
		res.State = infoState(snap.VerifSegmentInfo())
		return nil
	})
	return res, fail
}

// guarded runs one call into bluge: a panic becomes a Failure; the site is remembered so that
// the per-case watchdog (watched) can name where a hang happened.
var currentSite atomic.Value

func guarded(site string, f func() *vlib.Failure) *vlib.Failure {
	currentSite.Store(site)
	return vlib.Guard(site, f)
}

// watched runs the evaluation of one case under one watchdog.
func watched(f func() *vlib.Failure) *vlib.Failure {
	currentSite.Store("harness")
	r := vlib.Watchdog("case", 180*time.Second, f)
	if r != nil && r.Key == "hang@case" {
		r.Key = "hang@" + currentSite.Load().(string)
	}
	return r
}

// allocBound: what decoding an n-byte file may allocate.  The decoder spends up to ~4.4 KiB on an
// entry of 16 bytes (two growing buffers of 512+1536 bytes for the type string and the deleted
// set, the segment record, the bitmap object): a valid file of many tiny entries costs ~275 times
// its size.  That is proportional; "out of proportion" is what a trusted length field causes
// (megabytes to terabytes from a file of a few dozen bytes).  See NOTES.md.
func allocBound(n int) uint64 { return 512*uint64(n) + 1<<20 }

func typeVers(es []Entry) []typeVer {
	seen := map[typeVer]bool{}
	var out []typeVer
	for _, e := range es {
		tv := typeVer{e.Type, e.Version}
		if !seen[tv] {
			seen[tv] = true
			out = append(out, tv)
		}
	}
	return out
}
