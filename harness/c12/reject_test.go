package c12

import (
	"context"
	"encoding/binary"
	"fmt"
	"hash/crc32"
	"os"
	"reflect"
	"sort"
	"strings"
	"time"

	"github.com/blugelabs/bluge"

	"verifharness/vlib"
)

// ---------------------------------------------------------------------------------------------
// mutations

// Mut is one damage applied to a snapshot file.
type Mut struct {
	Kind string `json:"kind"` // none | trunc (keep Pos bytes) | flip (bit Bit of byte Pos) | tail (append Data) | splice (replace [Pos,To) by Data)
	Pos  int    `json:"pos,omitempty"`
	To   int    `json:"to,omitempty"`
	Bit  int    `json:"bit,omitempty"`
	Data []byte `json:"data,omitempty"`
	// FixCRC: afterwards overwrite the last four bytes with the checksum of what precedes them
	// (damage that only the decoder's structure checks can reject)
	FixCRC bool   `json:"fix_crc,omitempty"`
	Note   string `json:"note,omitempty"`
}

func (m Mut) apply(file []byte) []byte {
	out := append([]byte(nil), file...)
	switch m.Kind {
	case "trunc":
		if m.Pos >= 0 && m.Pos <= len(out) {
			out = out[:m.Pos]
		}
	case "flip":
		if m.Pos >= 0 && m.Pos < len(out) {
			out[m.Pos] ^= 1 << uint(m.Bit&7)
		}
	case "tail":
		out = append(out, m.Data...)
	case "splice":
		if m.Pos >= 0 && m.Pos <= m.To && m.To <= len(out) {
			out = append(append(append([]byte(nil), out[:m.Pos]...), m.Data...), out[m.To:]...)
		}
	}
	if m.FixCRC && len(out) >= 4 {
		binary.BigEndian.PutUint32(out[len(out)-4:], crc32.ChecksumIEEE(out[:len(out)-4]))
	}
	return out
}

func isLengthField(name string) bool { return name == "count" || name == "typelen" || name == "dellen" }

// hitsLength: does the damage touch a length field of the base file (for truncation: does the
// decoder's input now end inside one)?
func (m Mut) hitsLength(spans []fieldSpan) bool {
	in := func(p int) bool {
		for _, s := range spans {
			if isLengthField(s.Name) && p >= s.From && p < s.To {
				return true
			}
		}
		return false
	}
	switch m.Kind {
	case "flip":
		return in(m.Pos)
	case "splice":
		for p := m.Pos; p < m.To || p == m.Pos; p++ {
			if in(p) {
				return true
			}
		}
	case "trunc":
		// the loader hands file[:Pos-4] to the decoder
		end := m.Pos - 4
		for _, s := range spans {
			if isLengthField(s.Name) && end > s.From && end < s.To {
				return true
			}
		}
	}
	return false
}

// hostile varints
var hostileVarints = [][]byte{
	putUvarint(nil, 1<<64-1),
	putUvarint(nil, 1<<63),
	putUvarint(nil, 1<<63-1),
	putUvarint(nil, 1<<40),
	putUvarint(nil, 1<<32),
	putUvarint(nil, 1<<31),
	putUvarint(nil, 1<<31-1),
	putUvarint(nil, 1<<24),
	{0xff, 0xff, 0xff, 0xff, 0xff, 0xff, 0xff, 0xff, 0xff, 0xff},       // ten bytes, not terminated
	{0x80, 0x80, 0x80, 0x80, 0x80, 0x80, 0x80, 0x80, 0x80, 0x80, 0x01}, // eleven bytes
	{0x80, 0x80, 0x80, 0x80, 0x80, 0x80, 0x80, 0x80, 0x80, 0x02},       // 65 bits
	{0x81, 0x00}, // non-minimal 1
}

// ---------------------------------------------------------------------------------------------
// a rejection case

type RejectCase struct {
	Snap  *SnapCase `json:"snap,omitempty"`  // base file = WriteTo of this generated snapshot
	Raw   []byte    `json:"raw,omitempty"`   // or: these bytes (a real writer's file)
	World *World    `json:"world,omitempty"` // real directory; nil = stand-in segments that always load
	// Layout: where the damaged file X sits relative to intact ones.
	//   new  [older intact, X]          old  [X, newer intact]
	//   two  [older intact, X, X']      (X' = X truncated by one byte)
	Layout string `json:"layout"`
	Mut    Mut    `json:"mut"`
	// Path: mem (real loader on an in-memory directory) | fs (bluge.OpenReader / OpenWriter on a
	// file-system directory; only evaluated in a child process)
	Path     string `json:"path"`
	MMap     bool   `json:"mmap,omitempty"`
	Writer   bool   `json:"writer,omitempty"`
	WorldIdx int    `json:"world_idx,omitempty"` // job files: index into the job's world table
	Isolate  bool   `json:"isolate,omitempty"`   // replay in a child process
}

// caseInfo is what evaluation measured about a case (for the evidence).
type caseInfo struct {
	Len        int      `json:"len"`
	Verdict    string   `json:"verdict"` // valid | unjudged | bad-crc-only | malformed
	NonTrivial bool     `json:"nt"`
	Classes    []string `json:"classes"`
}

// one-entry cache: consecutive cases share their base file
var baseCache struct {
	snap *SnapCase
	file []byte
	v    verdict
}

func (c RejectCase) baseFile() ([]byte, *vlib.Failure) {
	if c.Snap == nil {
		return c.Raw, nil
	}
	if baseCache.snap == c.Snap {
		return baseCache.file, nil
	}
	file, f := c.baseFileUncached()
	if f == nil {
		baseCache.snap, baseCache.file, baseCache.v = c.Snap, file, judge(file)
	}
	return file, f
}

func (c RejectCase) baseVerdict(base []byte) verdict {
	if c.Snap != nil && baseCache.snap == c.Snap {
		return baseCache.v
	}
	return judge(base)
}

func (c RejectCase) baseFileUncached() ([]byte, *vlib.Failure) {
	b := buildCase(*c.Snap)
	if b.harnessE != nil {
		return nil, vlib.Failf("harness-bug", "%v", b.harnessE)
	}
	entries := append([]Entry(nil), b.entries...)
	for i := range entries {
		if b.opaque[i] {
			entries[i].Blob, _ = b.infos[i].Deleted.ToBytes()
		}
	}
	// the harness's encoder; TestC12RoundTrip establishes that WriteTo writes the same bytes
	return encodeFile(entries), nil
}

var stubOlder = encodeFile([]Entry{{ID: 41, Type: "ice", Version: 1}, {ID: 42, Type: "ice", Version: 1, Blob: encodeRoaring([]RCont{{Key: 0, Kind: "array", Vals: []uint16{3, 5}}})}})
var stubNewer = encodeFile([]Entry{{ID: 43, Type: "ice", Version: 2}})

func rejectionKey(v verdict) string {
	switch {
	case v.Struct == nil && !v.CRCOK:
		return "accepted-bad-crc"
	case v.Struct == nil:
		return "accepted-unjudged"
	case strings.Contains(v.Struct.Error(), "after the last entry"):
		if v.CRCOK {
			return "accepted-trailing-bytes"
		}
		return "accepted-bad-crc"
	case v.CRCOK && strings.Contains(v.Struct.Error(), "format version"):
		return "accepted-unknown-format"
	case v.CRCOK:
		return "accepted-incomplete-structure"
	}
	return "accepted-malformed"
}

// evalReject evaluates one case.  Pure function of the case and of /repo.
func evalReject(c RejectCase) (info caseInfo, fail *vlib.Failure) {
	fail = watched(func() *vlib.Failure {
		var f *vlib.Failure
		info, f = evalRejectUnwatched(c)
		return f
	})
	return info, fail
}

func evalRejectUnwatched(c RejectCase) (info caseInfo, fail *vlib.Failure) {
	base, f := c.baseFile()
	if f != nil {
		return info, f
	}
	bv := c.baseVerdict(base)
	if !bv.Valid {
		return info, vlib.Failf("harness-bug", "base file is not valid: crc=%v struct=%v", bv.CRCOK, bv.Struct)
	}
	x := c.Mut.apply(base)
	v := judge(x)
	info.Len = len(x)
	switch {
	case v.Valid:
		info.Verdict = "valid"
	case v.Unjudged():
		info.Verdict = "unjudged"
	case v.Struct == nil:
		info.Verdict = "bad-crc-only"
	default:
		info.Verdict = "malformed"
	}
	hits := c.Mut.hitsLength(bv.Spans)
	info.NonTrivial = !v.Valid && !v.Unjudged() && (v.Struct == nil || hits)
	info.Classes = []string{"reject", "reject:path:" + c.Path, "reject:mut:" + c.Mut.Kind, "reject:verdict:" + info.Verdict, "reject:layout:" + c.Layout, "reject:" + sizeClass(len(x))}
	if c.Mut.FixCRC {
		info.Classes = append(info.Classes, "reject:crc-repaired")
	}
	if hits {
		info.Classes = append(info.Classes, "reject:hits-length-field")
	}
	if c.World != nil {
		info.Classes = append(info.Classes, "reject:real-world")
	}
	if c.Snap == nil {
		info.Classes = append(info.Classes, "reject:base:real-writer-file")
	} else {
		info.Classes = append(info.Classes, "reject:base:generated")
	}

	// ---- the exported decoder on its own (no checksum at this level)
	var directTypes []SegState // what the implementation's decoder made of the bytes
	if c.Path == "mem" {
		dr, f := decodeDirect(x)
		if f != nil {
			return info, f
		}
		if dr.Alloc > allocBound(len(x)) {
			return info, vlib.Failf("alloc@ReadFrom", "decoding a %d-byte file allocated %d bytes (bound %d)", len(x), dr.Alloc, allocBound(len(x)))
		}
		if dr.Err == "" && v.Struct == nil && v.BlobErr == nil && !v.NonCanon {
			if d := sameState(dr.State, v.State); d != "" {
				return info, vlib.Failf("decoded-other-state@ReadFrom", "ReadFrom decodes something else than the bytes say: %s", d)
			}
		}
		if dr.Err != "" && v.Struct == nil && v.BlobErr == nil && !v.NonCanon {
			return info, vlib.Failf("valid-rejected@ReadFrom", "ReadFrom rejects a well-formed body: %s", dr.Err)
		}
		if dr.Err == "" && len(x) >= 4 && dr.N == int64(len(x)-4) && v.Struct != nil {
			// (a decoder that stops early leaves the rest to the loader's length check; one that
			// claims to have consumed a malformed body to its end has misread it)
			return info, vlib.Failf("decoded-malformed@ReadFrom", "ReadFrom decodes all %d bytes of a body that is not well-formed (%v) into %d segments; damage: %s", len(x)-4, v.Struct, len(dr.State), describeMut(c.Mut))
		}
		directTypes = dr.State
	}

	// ---- directory layout
	var older, newer []byte // intact neighbours
	var olderEpoch, xEpoch, newerEpoch uint64
	if c.World != nil {
		older, newer = c.World.snap(c.World.OldEpoch), c.World.snap(c.World.NewEpoch)
		olderEpoch, newerEpoch = c.World.OldEpoch, c.World.NewEpoch
	} else {
		older, newer = stubOlder, stubNewer
		olderEpoch, newerEpoch = 5, 9
	}
	snaps := map[uint64][]byte{}
	switch c.Layout {
	case "old":
		xEpoch = olderEpoch
		snaps[xEpoch], snaps[newerEpoch] = x, newer
	case "two":
		xEpoch = olderEpoch + 1
		if c.World != nil {
			xEpoch = newerEpoch
		}
		snaps[olderEpoch], snaps[xEpoch] = older, x
		x2 := x
		if len(x2) > 0 {
			x2 = x2[:len(x2)-1]
		}
		snaps[xEpoch+1] = x2
	default:
		xEpoch = olderEpoch + 1
		if c.World != nil {
			xEpoch = newerEpoch
		}
		snaps[olderEpoch], snaps[xEpoch] = older, x
	}

	// ---- what must come out: the newest file that is a valid encoding of loadable segments
	type cand struct {
		epoch    uint64
		v        verdict
		loadable string // yes | no | maybe
	}
	var cands []cand
	for ep, b := range snaps {
		cv := judge(b)
		cd := cand{epoch: ep, v: cv, loadable: "no"}
		switch {
		case cv.Valid && c.World == nil:
			cd.loadable = "yes" // every type is registered, every segment id exists
		case cv.Valid:
			// a real directory: certainly loadable if it is one of the writer's own files; a valid file
			// naming other segments, types or deleted sets may or may not load
			cd.loadable = "maybe"
			if string(b) == string(older) || string(b) == string(newer) {
				cd.loadable = "yes"
			}
		case cv.Unjudged():
			cd.loadable = "maybe"
		}
		cands = append(cands, cd)
	}
	sort.Slice(cands, func(i, j int) bool { return cands[i].epoch > cands[j].epoch })
	checkOutcome := func(site string, opened bool, openErr string, epoch uint64, state []SegState) *vlib.Failure {
		if !opened {
			for _, cd := range cands {
				if cd.loadable == "yes" {
					return vlib.Failf("fallback-failed@"+site, "open failed although the snapshot of epoch %d is intact: %s", cd.epoch, openErr)
				}
			}
			return nil
		}
		for _, cd := range cands {
			if cd.epoch > epoch {
				if cd.loadable == "yes" {
					return vlib.Failf("valid-rejected@"+site, "epoch %d was exposed although the newer snapshot of epoch %d is intact", epoch, cd.epoch)
				}
				continue
			}
			// cd.epoch == epoch: the file the loader accepted
			if cd.loadable == "no" {
				return vlib.Failf(rejectionKey(cd.v)+"@"+site, "a %d-byte file that is not a snapshot encoding (crc ok=%v, structure: %v) was accepted as epoch %d with %d segments; damage: %s",
					len(snaps[cd.epoch]), cd.v.CRCOK, cd.v.Struct, epoch, len(state), describeMut(c.Mut))
			}
			if cd.v.Valid && state != nil {
				if d := sameState(state, cd.v.State); d != "" {
					return vlib.Failf("loaded-other-state@"+site, "the file of epoch %d was loaded as something else than it encodes: %s", epoch, d)
				}
			}
			return nil
		}
		return vlib.Failf("unknown-epoch@"+site, "the loader exposes epoch %d, no such file was in the directory", epoch)
	}

	total := 0
	for _, b := range snaps {
		total += len(b)
	}
	switch c.Path {
	case "mem":
		var d *memDir
		var tvs []typeVer
		if c.World != nil {
			d = c.World.memDirOf(snaps)
		} else {
			d = &memDir{snaps: snaps, anySeg: []byte("stub")}
			// every type named by any file is loadable here, whether the harness's or the
			// implementation's decoder is asked: only the loader's own checks can reject a file
			for _, cd := range cands {
				tvs = append(tvs, typeVers(cd.v.Entries)...)
			}
			for _, st := range directTypes {
				tvs = append(tvs, typeVer{st.Type, st.Version})
			}
		}
		lr, f := openMem(d, tvs)
		if f != nil {
			return info, f
		}
		// loading the intact neighbour costs something too; 1 MiB of slack covers it (measured: < 40 KiB)
		if lr.Alloc > allocBound(total) {
			return info, vlib.Failf("alloc@loader", "opening a directory with %d bytes of snapshot files allocated %d bytes (bound %d)", total, lr.Alloc, allocBound(total))
		}
		if f := checkOutcome("loader", lr.Err == "", lr.Err, lr.Epoch, lr.State); f != nil {
			return info, f
		}
	case "fs":
		if c.World == nil {
			return info, vlib.Failf("harness-bug", "fs path needs a real world")
		}
		// A file that IS a valid encoding, but of a state no writer produced for these segment files
		// (checksum-repaired damage: another deleted set, another id), is outside the property; on
		// this path it would be handed to searches and background merges that rightly choke on it
		// (bits beyond the segment's documents).  Not opened at all; the in-memory path judges what
		// the loader exposes for such files.
		for _, cd := range cands {
			if cd.loadable == "maybe" {
				info.Classes = append(info.Classes, "reject:fs-not-opened:valid-foreign-state")
				return info, nil
			}
		}
		if f := evalFS(c, snaps, checkOutcome); f != nil {
			return info, f
		}
	default:
		return info, vlib.Failf("harness-bug", "unknown path %q", c.Path)
	}
	return info, nil
}

func describeMut(m Mut) string {
	s := m.Kind
	switch m.Kind {
	case "trunc":
		s += fmt.Sprintf(" to %d bytes", m.Pos)
	case "flip":
		s += fmt.Sprintf(" bit %d of byte %d", m.Bit, m.Pos)
	case "tail":
		s += fmt.Sprintf(" of %d bytes", len(m.Data))
	case "splice":
		s += fmt.Sprintf(" [%d,%d) with % x", m.Pos, m.To, trunc(m.Data, 16))
	}
	if m.FixCRC {
		s += ", checksum repaired"
	}
	if m.Note != "" {
		s += " (" + m.Note + ")"
	}
	return s
}

func trunc(b []byte, n int) []byte {
	if len(b) > n {
		return b[:n]
	}
	return b
}

// evalFS: the public API on a file-system directory.  Runs in a child process (a loader bug
// here can take the process down).
func evalFS(c RejectCase, snaps map[uint64][]byte, checkOutcome func(site string, opened bool, openErr string, epoch uint64, state []SegState) *vlib.Failure) *vlib.Failure {
	root := os.Getenv("C12_FSROOT")
	if root == "" {
		root = scratchRoot()
	}
	dir, err := os.MkdirTemp(root, "c12-fs-")
	if err != nil {
		return vlib.Failf("harness-infra", "mkdir: %v", err)
	}
	defer os.RemoveAll(dir)
	if err := c.World.materialise(dir, snaps); err != nil {
		return vlib.Failf("harness-infra", "materialise: %v", err)
	}
	w := c.World
	docsOf := func(epoch uint64) ([]string, bool) {
		b := snaps[epoch]
		switch {
		case string(b) == string(w.snap(w.OldEpoch)):
			return w.OldDocs, true
		case string(b) == string(w.snap(w.NewEpoch)):
			return w.NewDocs, true
		}
		return nil, false
	}
	site := "OpenReader"
	if c.Writer {
		site = "OpenWriter"
	}
	if c.MMap {
		site += "/mmap"
	} else {
		site += "/no-mmap"
	}
	return vlib.Watchdog(site, 120*time.Second, func() *vlib.Failure {
		cfg := fsConfig(dir, c.MMap, w.Recipe)
		var rd *bluge.Reader
		var wr *bluge.Writer
		var err error
		if c.Writer {
			wr, err = bluge.OpenWriter(cfg)
			if err == nil {
				rd, err = wr.Reader()
				if err != nil {
					_ = wr.Close()
					return vlib.Failf("reader-error@"+site, "Writer.Reader: %v", err)
				}
			}
		} else {
			rd, err = bluge.OpenReader(cfg)
		}
		if err != nil {
			return checkOutcome(site, false, err.Error(), 0, nil)
		}
		defer func() {
			_ = rd.Close()
			if wr != nil {
				_ = wr.Close()
			}
		}()
		snap := rd.VerifSnapshot()
		epoch := snap.VerifEpoch()
		var state []SegState
		if !c.Writer {
			state = infoState(snap.VerifSegmentInfo())
		}
		// (a writer may already have merged in the background: its segments are not compared,
		// its documents are)
		if c.Writer {
			// the writer's root epoch moves with every introduction; identify the loaded file by content
			epoch = 0
			docs, err := liveDocs(rd)
			if err != nil {
				return vlib.Failf("search-error@"+site, "listing documents: %v", err)
			}
			// expected: the newest loadable epoch
			var want []string
			var wantEpoch uint64
			found := false
			var eps []uint64
			for ep := range snaps {
				eps = append(eps, ep)
			}
			sort.Slice(eps, func(i, j int) bool { return eps[i] > eps[j] })
			for _, ep := range eps {
				if d, ok := docsOf(ep); ok {
					want, wantEpoch, found = d, ep, true
					break
				}
				if jv := judge(snaps[ep]); jv.Valid || jv.Unjudged() {
					return nil // a valid foreign file above the intact one: not judged on this path
				}
			}
			if !found {
				return vlib.Failf("unknown-epoch@"+site, "OpenWriter succeeded without any intact snapshot")
			}
			if !reflect.DeepEqual(docs, want) && !(len(docs) == 0 && len(want) == 0) {
				return vlib.Failf("wrong-content@"+site, "the writer shows %d documents %v, the intact snapshot of epoch %d holds %d %v", len(docs), trimList(docs), wantEpoch, len(want), trimList(want))
			}
			return nil
		}
		if f := checkOutcome(site, true, "", epoch, state); f != nil {
			return f
		}
		if want, ok := docsOf(epoch); ok {
			docs, err := liveDocs(rd)
			if err != nil {
				return vlib.Failf("search-error@"+site, "listing documents: %v", err)
			}
			if !reflect.DeepEqual(docs, want) && !(len(docs) == 0 && len(want) == 0) {
				return vlib.Failf("wrong-content@"+site, "the reader shows %d documents %v, the snapshot of epoch %d holds %d %v", len(docs), trimList(docs), epoch, len(want), trimList(want))
			}
		}
		return nil
	})
}

func trimList(s []string) []string {
	if len(s) > 12 {
		return append(append([]string(nil), s[:12]...), "…")
	}
	return s
}

var _ = context.Background
