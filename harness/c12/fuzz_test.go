package c12

import (
	"encoding/binary"
	"encoding/json"
	"fmt"
	"hash/crc32"
	"os"
	"path/filepath"
	"sort"
	"strconv"
	"strings"
	"testing"

	"verifharness/vlib"
)

// fuzzOne judges arbitrary bytes twice: as they are (a file whose trailer is almost never the
// right checksum: the loader must reject it safely), and with the right checksum appended (only
// the decoder's structure checks stand between the bytes and acceptance: whatever is accepted
// must be exactly what the independent decoder reads from the same bytes).
func fuzzOne(data []byte) (*vlib.Failure, []caseInfo) {
	var infos []caseInfo
	sealed := binary.BigEndian.AppendUint32(append([]byte(nil), data...), crc32.ChecksumIEEE(data))
	for _, x := range [][]byte{data, sealed} {
		c := RejectCase{Raw: stubNewer, Layout: "new", Path: "mem", Mut: Mut{Kind: "splice", Pos: 0, To: len(stubNewer), Data: x}}
		info, f := evalRejectUnwatched(c)
		infos = append(infos, info)
		if f != nil {
			if _, known := vlib.IsKnown("C12", f.Key); known {
				continue
			}
			return f, infos
		}
	}
	return nil, infos
}

func fuzzSeeds() [][]byte {
	arr := encodeRoaring([]RCont{{Key: 0, Kind: "array", Vals: []uint16{1, 2, 9}}})
	run := encodeRoaring([]RCont{{Key: 1, Kind: "run", Runs: [][2]int{{0, 99}, {200, 700}, {65000, 65535}}}})
	seeds := [][]byte{
		encodeBody(nil),
		encodeFile(nil),
		encodeBody([]Entry{{ID: 1, Type: "ice", Version: 1}}),
		encodeFile([]Entry{{ID: 1, Type: "ice", Version: 2}, {ID: 1<<64 - 1, Type: "ice", Version: 1, Blob: arr}}),
		encodeBody([]Entry{{ID: 128, Type: "", Version: 0xffffffff, Blob: run}, {ID: 0, Type: "a-rather-long-segment-type-name", Version: 128}}),
		encodeBody([]Entry{{ID: 7, Type: "x", Version: 1, Blob: encodeRoaring(nil)}}),
	}
	body := encodeBody([]Entry{{ID: 3, Type: "ice", Version: 1, Blob: arr}})
	spans := judge(withCRC(body)).Spans
	for _, s := range spans {
		if isLengthField(s.Name) {
			for _, h := range [][]byte{hostileVarints[0], hostileVarints[3], hostileVarints[5], hostileVarints[8]} {
				seeds = append(seeds, Mut{Kind: "splice", Pos: s.From, To: s.To, Data: h}.apply(body))
			}
		}
	}
	seeds = append(seeds,
		append(putUvarint(nil, 1), hostileVarints[0]...),
		[]byte{1, 1, 0, 0, 0, 0, 1, 5, 8, 0x3a, 0x30, 0, 0, 0xff, 0xff, 0xff, 0xff},
		[]byte{1, 1, 0, 0, 0, 0, 1, 5, 4, 0x3b, 0x30, 0xff, 0xff},
	)
	return seeds
}

// FuzzSnapshotDecode: native coverage-guided fuzzing of the decoder and the loader (thorough
// tier; the driver runs it with -fuzz).
func FuzzSnapshotDecode(f *testing.F) {
	for _, s := range fuzzSeeds() {
		f.Add(s)
	}
	f.Fuzz(func(t *testing.T, data []byte) {
		if len(data) > 1<<16 {
			return
		}
		if fail, _ := fuzzOne(data); fail != nil {
			fmt.Printf("VERIF-VIOLATION property=C12 key=%s replay=fuzz msg=%s\n", fail.Key, strings.ReplaceAll(fail.Msg, "\n", " | "))
			t.Fatalf("%s: %s", fail.Key, fail.Msg)
		}
	})
}

func corpusDir() string {
	root := os.Getenv("VERIF_ROOT")
	if root == "" {
		root = "/verif"
	}
	return filepath.Join(root, "harness", "c12", "testdata", "fuzz", "FuzzSnapshotDecode")
}

// readCorpusFile parses the toolchain's corpus file format ("go test fuzz v1", one []byte).
func readCorpusFile(p string) ([]byte, error) {
	raw, err := os.ReadFile(p)
	if err != nil {
		return nil, err
	}
	lines := strings.Split(strings.TrimSpace(string(raw)), "\n")
	if len(lines) != 2 || !strings.HasPrefix(lines[0], "go test fuzz v1") {
		return nil, fmt.Errorf("not a one-value corpus file")
	}
	l := strings.TrimSpace(lines[1])
	if !strings.HasPrefix(l, "[]byte(") || !strings.HasSuffix(l, ")") {
		return nil, fmt.Errorf("not a []byte value")
	}
	s, err := strconv.Unquote(l[len("[]byte(") : len(l)-1])
	return []byte(s), err
}

// TestC12FuzzCorpus: the committed corpus (seeds and any crasher kept from earlier campaigns)
// and the in-code seeds go through the fuzz oracle in every tier.
func TestC12FuzzCorpus(t *testing.T) {
	inputs := fuzzSeeds()
	files, _ := filepath.Glob(filepath.Join(corpusDir(), "*"))
	sort.Strings(files)
	for _, p := range files {
		b, err := readCorpusFile(p)
		if err != nil {
			t.Logf("skipping %s: %v", p, err)
			continue
		}
		inputs = append(inputs, b)
	}
	for _, in := range inputs {
		fail, infos := fuzzOne(in)
		for _, info := range infos {
			cls := append([]string{"fuzz-corpus"}, info.Classes...)
			ev.Case(fmt.Sprintf("corpus|%x|%d", vlib.Hash64(string(in)), info.Len), info.NonTrivial, cls...)
		}
		if fail != nil {
			vlib.Report(t, ev, "fuzzbytes", FuzzBytes{Data: in}, fail)
			return
		}
	}
	ev.AddExtra("fuzz_corpus_inputs", len(inputs))
}

type FuzzBytes struct {
	Data []byte `json:"data"`
}

// TestWriteCorpus (only with C12_WRITE_CORPUS=1) regenerates the committed seed corpus.
func TestWriteCorpus(t *testing.T) {
	if os.Getenv("C12_WRITE_CORPUS") == "" {
		t.Skip("C12_WRITE_CORPUS not set")
	}
	dir := corpusDir()
	if err := os.MkdirAll(dir, 0o755); err != nil {
		t.Fatal(err)
	}
	seeds := fuzzSeeds()
	for _, w := range theWorlds(t)[:1] {
		seeds = append(seeds, w.snap(w.NewEpoch))
	}
	for i, s := range seeds {
		content := fmt.Sprintf("go test fuzz v1\n[]byte(%s)\n", strconv.Quote(string(s)))
		if err := os.WriteFile(filepath.Join(dir, fmt.Sprintf("seed-%02d", i)), []byte(content), 0o644); err != nil {
			t.Fatal(err)
		}
	}
}

func init() {
	replayFns["fuzzbytes"] = func(raw json.RawMessage) *vlib.Failure {
		var c FuzzBytes
		if f := vlib.Decode(raw, &c); f != nil {
			return f
		}
		f, _ := fuzzOne(c.Data)
		return f
	}
}
