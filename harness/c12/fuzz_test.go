package c12

import (
	"encoding/binary"
	"encoding/json"
	"fmt"
	"hash/crc32"
	"os"
	"path/filepath"
	"sort"
	"strconv"
	"strings"
	"testing"

	"verifharness/vlib"
)

// fuzzOne judges arbitrary bytes twice: as they are (a file whose trailer is almost never the
// right checksum: the loader must reject it safely), and with the right checksum appended (only
// the decoder's structure checks stand between the bytes and acceptance: whatever is accepted
// must be exactly what the independent decoder reads from the same bytes).
func fuzzOne(data []byte) (*vlib.Failure, []caseInfo) {
	var infos []caseInfo
	sealed := binary.BigEndian.AppendUint32(append([]byte(nil), data...), crc32.ChecksumIEEE(data))
	for _, x := range [][]byte{data, sealed} {
		c := RejectCase{Raw: stubNewer, Layout: "new", Path: "mem", Mut: Mut{Kind: "splice", Pos: 0, To: len(stubNewer), Data: x}}
		info, f := evalRejectUnwatched(c)
		infos = append(infos, info)
		if f != nil {
			if _, known := vlib.IsKnown("C12", f.Key); known {
				continue
			}
			return f, infos
		}
	}
	return nil, infos
}

func fuzzSeeds() [][]byte {
	arr := encodeRoaring([]RCont{{Key: 0, Kind: "array", Vals: []uint16{1, 2, 9}}})
	run := encodeRoaring([]RCont{{Key: 1, Kind: "run", Runs: [][2]int{{0, 99}, {200, 700}, {65000, 65535}}}})
	seeds := [][]byte{
		encodeBody(nil),
		encodeFile(nil),
		encodeBody([]Entry{{ID: 1, Type: "ice", Version: 1}}),
		encodeFile([]Entry{{ID: 1, Type: "ice", Version: 2}, {ID: 1<<64 - 1, Type: "ice", Version: 1, Blob: arr}}),
		encodeBody([]Entry{{ID: 128, Type: "", Version: 0xffffffff, Blob: run}, {ID: 0, Type: "a-rather-long-segment-type-name", Version: 128}}),
		encodeBody([]Entry{{ID: 7, Type: "x", Version: 1, Blob: encodeRoaring(nil)}}),
	}
	body := encodeBody([]Entry{{ID: 3, Type: "ice", Version: 1, Blob: arr}})
	spans := judge(withCRC(body)).Spans
	for _, s := range spans {
		if isLengthField(s.Name) {
			for _, h := range [][]byte{hostileVarints[0], hostileVarints[3], hostileVarints[5], hostileVarints[8]} {
				seeds = append(seeds, Mut{Kind: "splice", Pos: s.From, To: s.To, Data: h}.apply(body))
			}
		}
	}
	seeds = append(seeds,
		append(putUvarint(nil, 1), hostileVarints[0]...),
		[]byte{1, 1, 0, 0, 0, 0, 1, 5, 8, 0x3a, 0x30, 0, 0, 0xff, 0xff, 0xff, 0xff},
		[]byte{1, 1, 0, 0, 0, 0, 1, 5, 4, 0x3b, 0x30, 0xff, 0xff},
	)
	return seeds
}

// FuzzSnapshotDecode: native coverage-guided fuzzing of the decoder and the loader (thorough
// tier; the driver runs it with -fuzz).
func FuzzSnapshotDecode(f *testing.F) {
	for _, s := range fuzzSeeds() {
		f.Add(s)
	}
	f.Fuzz(func(t *testing.T, data []byte) {
		if len(data) > 1<<16 {
			return
		}
		if fail, _ := fuzzOne(data); fail != nil {
			fmt.Printf("VERIF-VIOLATION property=C12 key=%s replay=fuzz msg=%s\n", fail.Key, strings.ReplaceAll(fail.Msg, "\n", " | "))
			t.Fatalf("%s: %s", fail.Key, fail.Msg)
		}
	})
}

func corpusDir() string {
	root := os.Getenv("VERIF_ROOT")
	if root == "" {
		root = "/verif"
	}
	return filepath.Join(root, "harness", "c12", "testdata", "fuzz", "FuzzSnapshotDecode")
}

// readCorpusFile parses the toolchain's corpus file format ("go test fuzz v1", one []byte).
func readCorpusFile(p string) ([]byte, error) {
	raw, err := os.ReadFile(p)
	if err != nil {
		return nil, err
	}
	lines := strings.Split(strings.TrimSpace(string(raw)), "\n")
	if len(lines) != 2 || !strings.HasPrefix(lines[0], "go test fuzz v1") {
		return nil, fmt.Errorf("not a one-value corpus file")
	}
	l := strings.TrimSpace(lines[1])
	if !strings.HasPrefix(l, "[]byte(") || !strings.HasSuffix(l, ")") {
		return nil, fmt.Errorf("not a []byte value")
	}
	s, err := strconv.Unquote(l[len("[]byte(") : len(l)-1])
	return []byte(s), err
}

// TestC12FuzzCorpus: the committed corpus (seeds and any crasher kept from earlier campaigns)
// and the in-code seeds go through the fuzz oracle in every tier.
func TestC12FuzzCorpus(t *testing.T) {
	inputs := fuzzSeeds()
	files, _ := filepath.Glob(filepath.Join(corpusDir(), "*"))
	sort.Strings(files)
	for _, p := range files {
		b, err := readCorpusFile(p)
		if err != nil {
			t.Logf("skipping %s: %v", p, err)
			continue
		}
		inputs = append(inputs, b)
	}
	for _, in := range inputs {
		fail, infos := fuzzOne(in)
		for _, info := range infos {
			cls := append([]string{"fuzz-corpus"}, info.Classes...)
			ev.Case(fmt.Sprintf("corpus|%x|%d", vlib.Hash64(string(in)), info.Len), info.NonTrivial, cls...)
		}
		if fail != nil {
			vlib.Report(t, ev, "fuzzbytes", FuzzBytes{Data: in}, fail)
			return
		}
	}
	ev.AddExtra("fuzz_corpus_inputs", len(inputs))
}

type FuzzBytes struct {
	Data []byte `json:"data"`
}

// TestWriteCorpus (only with C12_WRITE_CORPUS=1) regenerates the committed seed corpus.
func TestWriteCorpus(t *testing.T) {
	if os.Getenv("C12_WRITE_CORPUS") == "" {
		t.Skip("C12_WRITE_CORPUS not set")
	}
	dir := corpusDir()
	if err := os.MkdirAll(dir, 0o755); err != nil {
		t.Fatal(err)
	}
	seeds := fuzzSeeds()
	for _, w := range theWorlds(t)[:1] {
		seeds = append(seeds, w.snap(w.NewEpoch))
	}
	for i, s := range seeds {
		content := fmt.Sprintf("go test fuzz v1\n[]byte(%s)\n", strconv.Quote(string(s)))
		if err := os.WriteFile(filepath.Join(dir, fmt.Sprintf("seed-%02d", i)), []byte(content), 0o644); err != nil {
			t.Fatal(err)
		}
	}
}

func init() {
	replayFns["fuzzbytes"] = func(raw json.RawMessage) *vlib.Failure {
		var c FuzzBytes
		if f := vlib.Decode(raw, &c); f != nil {
			return f
		}
		f, _ := fuzzOne(c.Data)
		return f
	}
}

// TestWriteRegress (only with C12_WRITE_REGRESS=1) regenerates testdata/regress: one small case
// per defect or mutant class that this check has caught, kept as a permanent regression.
func TestWriteRegress(t *testing.T) {
	if os.Getenv("C12_WRITE_REGRESS") == "" {
		t.Skip("C12_WRITE_REGRESS not set")
	}
	dir := filepath.Join(filepath.Dir(filepath.Dir(filepath.Dir(corpusDir()))), "testdata", "regress")
	if err := os.MkdirAll(dir, 0o755); err != nil {
		t.Fatal(err)
	}
	one := SnapCase{Epoch: 2, Segs: []SegSpec{{ID: 7, Type: []byte("ice"), Version: 1, Del: BMSpec{Mode: "conts", Conts: []ContSpec{{Key: 0, Kind: "array", Start: 1, N: 3, Step: 2}}}}}}
	empty := SnapCase{Epoch: 2}
	oneFile, _ := RejectCase{Snap: &one}.baseFile()
	spans := judge(oneFile).Spans
	var typelen, typ fieldSpan
	for _, s := range spans {
		if s.Name == "typelen" {
			typelen = s
		}
		if s.Name == "type" {
			typ = s
		}
	}
	// a snapshot whose last entry leaves fewer than ten bytes for the last peek
	short := SnapCase{Epoch: 1, Segs: []SegSpec{{ID: 1, Type: []byte("ice"), Version: 1}, {ID: 2, Type: []byte("x"), Version: 3}}}
	// an entry with a 10-byte type name whose version starts at body offset 4094
	straddle := SnapCase{Epoch: 1}
	sum := 2 // format + count (fewer than 128 entries)
	for sum+67 < 4094-15-7 {
		straddle.Segs = append(straddle.Segs, SegSpec{ID: 5, Type: []byte(strings.Repeat("f", 60)), Version: 9})
		sum += 67
	}
	fill := 4094 - 11 - sum - 7 // the aimed entry's type length byte sits at 4094-11
	straddle.Segs = append(straddle.Segs, SegSpec{ID: 5, Type: []byte(strings.Repeat("p", fill)), Version: 7},
		SegSpec{ID: 1 << 40, Type: []byte("long-type."), Version: 0x01020304}, SegSpec{ID: 9, Type: []byte("ice"), Version: 1})
	if f, file, _ := propRoundTrip(straddle); f != nil || !versionStraddles(judge(file)) {
		t.Fatalf("straddle recipe is off: %v", f)
	}
	cases := []struct {
		name, test, note string
		c                interface{}
	}{
		{"incomplete-structure-5-byte-file", "reject", "format version + matching checksum, no segment count (fix 73da088)",
			RejectCase{Snap: &empty, Layout: "new", Path: "mem", Mut: Mut{Kind: "trunc", Pos: 5, FixCRC: true}}},
		{"incomplete-structure-cut-before-dellen", "reject", "cut before the last deleted-set length, checksum repaired (fix 73da088)",
			RejectCase{Snap: &short, Layout: "new", Path: "mem", Mut: Mut{Kind: "trunc", Pos: 23, FixCRC: true}}},
		{"trailing-bytes", "reject", "four bytes between the last segment and a matching trailer (fix f61b6fd)",
			RejectCase{Snap: &one, Layout: "new", Path: "mem", Mut: Mut{Kind: "tail", Data: []byte{0, 0, 0, 0}, FixCRC: true}}},
		{"trailing-bytes-beyond-buffer", "reject", "a copy of the file and 4 KiB after the last segment, trailer = CRC of everything (more than the decoder buffers)",
			RejectCase{Snap: &one, Layout: "two", Path: "mem", Mut: Mut{Kind: "tail", Data: append(append([]byte(nil), oneFile...), make([]byte, 4096)...), FixCRC: true}}},
		{"hostile-typelen-content-dropped", "reject", "type length 2^63 with nothing behind it, checksum repaired (mutant m13)",
			RejectCase{Snap: &one, Layout: "new", Path: "mem", Mut: Mut{Kind: "splice", Pos: typelen.From, To: typ.To, Data: putUvarint(nil, 1<<63), FixCRC: true}, Isolate: true}},
		{"hostile-dellen", "reject", "deleted-set length 2^40 (revert of d2f92b9: fatal allocation)",
			RejectCase{Snap: &one, Layout: "new", Path: "mem", Mut: Mut{Kind: "splice", Pos: spans[len(spans)-2].From, To: spans[len(spans)-2].To, Data: putUvarint(nil, 1<<40)}, Isolate: true}},
		{"crc-last-byte", "reject", "bit flip in the last byte of the trailer (mutants m7, m10)",
			RejectCase{Snap: &one, Layout: "new", Path: "mem", Mut: Mut{Kind: "flip", Pos: len(oneFile) - 1, Bit: 0}}},
		{"damaged-older-intact-newer", "reject", "the damaged file is the older one",
			RejectCase{Snap: &one, Layout: "old", Path: "mem", Mut: Mut{Kind: "flip", Pos: 3, Bit: 6}}},
		{"short-last-entry", "roundtrip", "fewer than ten bytes remain at the last peek (fix 8a4be88)", short},
		{"version-straddles-4096", "roundtrip", "4-byte version across the decoder's buffer, type name longer than 5 bytes (fix 361c932)", straddle},
	}
	for _, k := range cases {
		cb, _ := json.Marshal(k.c)
		rb, _ := json.MarshalIndent(vlib.Replay{Property: "C12", Test: k.test, Key: "regress", Msg: k.note, Case: cb}, "", " ")
		if err := os.WriteFile(filepath.Join(dir, k.name+".json"), rb, 0o644); err != nil {
			t.Fatal(err)
		}
	}
}
