package c12

import (
	"encoding/json"
	"fmt"
	"sync"
	"testing"

	"pgregory.net/rapid"

	"verifharness/vlib"
)

// ---------------------------------------------------------------------------------------------
// worlds of this process

var (
	worldsOnce sync.Once
	worlds     []*World
	worldsErr  error
)

func genWorldRecipe(t *rapid.T) WorldRecipe {
	r := WorldRecipe{NoMerge: rapid.IntRange(0, 3).Draw(t, "noMerge") > 0, SegVersion: uint32(rapid.IntRange(1, 2).Draw(t, "segVersion"))}
	next := 0
	nb := rapid.IntRange(2, 7).Draw(t, "batches1")
	for b := 0; b < nb; b++ {
		var ops []DocOp
		n := rapid.IntRange(1, 8).Draw(t, "docs")
		for i := 0; i < n; i++ {
			ops = append(ops, DocOp{ID: next})
			next++
		}
		if b > 0 && rapid.Bool().Draw(t, "del1") {
			ops = append(ops, DocOp{Del: true, ID: rapid.IntRange(0, next-1).Draw(t, "delID")})
		}
		r.Phase1 = append(r.Phase1, ops)
	}
	nb = rapid.IntRange(1, 5).Draw(t, "batches2")
	for b := 0; b < nb; b++ {
		var ops []DocOp
		nd := rapid.IntRange(1, 4).Draw(t, "dels")
		for i := 0; i < nd; i++ {
			ops = append(ops, DocOp{Del: true, ID: rapid.IntRange(0, next-1).Draw(t, "delID")})
		}
		if rapid.Bool().Draw(t, "more") {
			ops = append(ops, DocOp{ID: next})
			next++
		}
		if rapid.IntRange(0, 2).Draw(t, "update") == 0 {
			ops = append(ops, DocOp{ID: rapid.IntRange(0, next-1).Draw(t, "updID")})
		}
		r.Phase2 = append(r.Phase2, ops)
	}
	return r
}

func theWorlds(t testing.TB) []*World {
	worldsOnce.Do(func() {
		n := 2
		if vlib.Thorough() {
			n = 4
		}
		gen := rapid.Custom(genWorldRecipe)
		for i := 0; i < n; i++ {
			r := gen.Example(int(vlib.Seed()%1000003)*8 + i)
			if i == 0 {
				r.NoMerge = true // at least one world keeps its deleted bitmaps
			}
			w, err := buildWorld(r)
			if err != nil {
				worldsErr = err
				return
			}
			worlds = append(worlds, w)
		}
	})
	if worldsErr != nil {
		fmt.Println("harness infrastructure: cannot build a world: " + worldsErr.Error())
		t.Fatalf("vlib.harnessBug: cannot build a world: %v", worldsErr)
	}
	return worlds
}

// ---------------------------------------------------------------------------------------------
// mutation generators

func genMut(t *rapid.T, file []byte, spans []fieldSpan) Mut {
	n := len(file)
	var lengthSpans, allSpans []fieldSpan
	for _, s := range spans {
		if isLengthField(s.Name) {
			lengthSpans = append(lengthSpans, s)
		}
		if s.To > s.From {
			allSpans = append(allSpans, s)
		}
	}
	pickSpan := func(ss []fieldSpan, label string) fieldSpan {
		// first, last and a random one are equally likely: the ends of the file matter most
		switch rapid.IntRange(0, 3).Draw(t, label+"Which") {
		case 0:
			return ss[0]
		case 1:
			return ss[len(ss)-1]
		}
		return ss[rapid.IntRange(0, len(ss)-1).Draw(t, label)]
	}
	fix := rapid.IntRange(0, 3).Draw(t, "fixCRC") == 0
	switch rapid.IntRange(0, 11).Draw(t, "mutKind") {
	case 0, 1:
		return Mut{Kind: "trunc", Pos: rapid.IntRange(0, n-1).Draw(t, "truncTo"), FixCRC: fix}
	case 2, 3:
		return Mut{Kind: "flip", Pos: rapid.IntRange(0, n-1).Draw(t, "flipPos"), Bit: rapid.IntRange(0, 7).Draw(t, "flipBit"), FixCRC: fix}
	case 4, 5:
		s := pickSpan(lengthSpans, "lenSpan")
		return Mut{Kind: "flip", Pos: rapid.IntRange(s.From, s.To-1).Draw(t, "flipPos"), Bit: rapid.IntRange(0, 7).Draw(t, "flipBit"), FixCRC: fix, Note: "in " + s.Name}
	case 6:
		k := rapid.SampledFrom([]int{1, 2, 3, 4, 5, 6, 7, 8, 9, 4096}).Draw(t, "tailLen")
		data := make([]byte, k)
		switch rapid.IntRange(0, 2).Draw(t, "tailFill") {
		case 1:
			for i := range data {
				data[i] = 0xff
			}
		case 2:
			for i := range data {
				data[i] = file[i%n]
			}
		}
		return Mut{Kind: "tail", Data: data, FixCRC: fix}
	case 7:
		// a whole field replaced by other bytes of the same or another length
		s := pickSpan(allSpans, "span")
		data := rapid.SliceOfN(rapid.Byte(), 0, 12).Draw(t, "spliceData")
		return Mut{Kind: "splice", Pos: s.From, To: s.To, Data: data, FixCRC: fix, Note: "replace " + s.Name}
	case 8:
		// an entry removed or doubled while the count stays
		var entries [][2]int
		from := -1
		for _, s := range spans {
			if s.Name == "typelen" {
				from = s.From
			}
			if s.Name == "blob" && from >= 0 {
				entries = append(entries, [2]int{from, s.To})
			}
		}
		if len(entries) == 0 {
			return Mut{Kind: "trunc", Pos: rapid.IntRange(0, n-1).Draw(t, "truncTo"), FixCRC: true}
		}
		e := entries[rapid.IntRange(0, len(entries)-1).Draw(t, "entry")]
		if rapid.Bool().Draw(t, "double") {
			return Mut{Kind: "splice", Pos: e[1], To: e[1], Data: append([]byte(nil), file[e[0]:e[1]]...), FixCRC: true, Note: "entry doubled, count unchanged"}
		}
		return Mut{Kind: "splice", Pos: e[0], To: e[1], FixCRC: true, Note: "entry removed, count unchanged"}
	case 9:
		// moderately large lengths that do not endanger the process when trusted
		s := pickSpan(lengthSpans, "lenSpan")
		v := rapid.SampledFrom([]uint64{uint64(n), uint64(n) + 1, 4096, 65536, 1 << 20, 1 << 24}).Draw(t, "bigLen")
		return Mut{Kind: "splice", Pos: s.From, To: s.To, Data: putUvarint(nil, v), FixCRC: fix, Note: "large " + s.Name}
	case 10:
		return Mut{Kind: "none"}
	default:
		// cut inside or right after a chosen field, checksum repaired: only structure can tell
		s := pickSpan(allSpans, "span")
		return Mut{Kind: "trunc", Pos: rapid.IntRange(s.From, s.To).Draw(t, "cut") + 4, FixCRC: true, Note: "cut at " + s.Name}
	}
}

// record counts one evaluated case.  Distinctness: base file bytes (hashed), world, layout,
// damage and path identify a case.
func record(c RejectCase, info caseInfo) {
	base, _ := c.baseFile()
	wkey := ""
	if c.World != nil {
		wkey = fmt.Sprintf("w%d-%d-%d", c.World.OldEpoch, c.World.NewEpoch, len(c.World.Files))
	}
	canon := fmt.Sprintf("%x|%s|%s|%s|%v|%v|", vlib.Hash64(string(base)), wkey, c.Layout, c.Path, c.MMap, c.Writer) + vlib.Canon(c.Mut)
	ev.Case(canon, info.NonTrivial, info.Classes...)
}

// ---------------------------------------------------------------------------------------------
// sampled damage, real loader in process

type SampledCase struct {
	Base RejectCase `json:"base"` // Mut unset
	Muts []Mut      `json:"muts"`
}

func TestC12RejectSampled(t *testing.T) {
	ws := theWorlds(t)
	vlib.Check(t, 200, 1000, func(rt *rapid.T) {
		var c RejectCase
		c.Path = "mem"
		switch rapid.IntRange(0, 9).Draw(rt, "baseKind") {
		case 0, 1, 2:
			w := ws[rapid.IntRange(0, len(ws)-1).Draw(rt, "world")]
			c.World = w
			c.Raw = w.snap(w.NewEpoch)
			if rapid.IntRange(0, 3).Draw(rt, "olderAsBase") == 0 {
				c.Raw = w.snap(w.OldEpoch)
			}
		case 3:
			w := ws[rapid.IntRange(0, len(ws)-1).Draw(rt, "world")]
			c.World = w
			s := genSnap(rt, 40)
			c.Snap = &s
		default:
			s := genSnap(rt, 60)
			c.Snap = &s
		}
		c.Layout = rapid.SampledFrom([]string{"new", "new", "new", "old", "two"}).Draw(rt, "layout")
		base, f := c.baseFile()
		if f != nil {
			vlib.Report(rt, ev, "reject", c, f)
			return
		}
		bv := judge(base)
		k := rapid.IntRange(8, 40).Draw(rt, "nmuts")
		for i := 0; i < k; i++ {
			c.Mut = genMut(rt, base, bv.Spans)
			info, f := evalReject(c)
			record(c, info)
			if info.NonTrivial || info.Verdict == "valid" {
				ev.Sample(map[string]interface{}{"kind": "reject", "damage": describeMut(c.Mut), "file_bytes": info.Len, "verdict": info.Verdict, "layout": c.Layout, "real_world": c.World != nil}, info.NonTrivial)
			}
			if vlib.Report(rt, ev, "reject", c, f) {
				return
			}
		}
	})
}

// ---------------------------------------------------------------------------------------------
// enumerated damage: every truncation, every bit flip, tails, with and without repaired checksum

func enumMuts(file []byte, flipStride, fixStride int) []Mut {
	n := len(file)
	var ms []Mut
	for p := 0; p < n; p++ {
		ms = append(ms, Mut{Kind: "trunc", Pos: p})
	}
	for p := 4; p < n; p++ {
		if p%fixStride == 0 || n <= 700 {
			ms = append(ms, Mut{Kind: "trunc", Pos: p, FixCRC: true})
		}
	}
	i := 0
	for p := 0; p < n; p++ {
		for b := 0; b < 8; b++ {
			if i%flipStride == 0 {
				ms = append(ms, Mut{Kind: "flip", Pos: p, Bit: b})
			}
			if p < n-4 && i%(flipStride*fixStride) == 0 {
				ms = append(ms, Mut{Kind: "flip", Pos: p, Bit: b, FixCRC: true})
			}
			i++
		}
	}
	for k := 1; k <= 9; k++ {
		z := make([]byte, k)
		ms = append(ms, Mut{Kind: "tail", Data: z}, Mut{Kind: "tail", Data: z, FixCRC: true})
		o := make([]byte, k)
		for j := range o {
			o[j] = 0xff - byte(j)
		}
		ms = append(ms, Mut{Kind: "tail", Data: o})
	}
	big := make([]byte, 4096)
	ms = append(ms, Mut{Kind: "tail", Data: big}, Mut{Kind: "tail", Data: big, FixCRC: true})
	own := make([]byte, 4096)
	for j := range own {
		own[j] = file[j%n]
	}
	ms = append(ms, Mut{Kind: "tail", Data: own}, Mut{Kind: "tail", Data: append(append([]byte(nil), file...), own...), FixCRC: true})
	ms = append(ms, Mut{Kind: "none"})
	return ms
}

// enumBases: the files whose every damage is enumerated by this shard.
func enumBases(t testing.TB) []RejectCase {
	ws := theWorlds(t)
	var out []RejectCase
	for _, w := range ws {
		out = append(out, RejectCase{World: w, Raw: w.snap(w.NewEpoch), Layout: "new", Path: "mem"},
			RejectCase{World: w, Raw: w.snap(w.OldEpoch), Layout: "old", Path: "mem"})
	}
	gen := rapid.Custom(func(rt *rapid.T) SnapCase { return genSnap(rt, 300) })
	seed := int(vlib.Seed() % 1000003)
	// small, medium (crossing 4096) and, in the thorough tier, large (crossing 8192) generated files
	wantSmall, wantMid, wantBig := 4, 1, 0
	if vlib.Thorough() {
		wantSmall, wantMid, wantBig = 5, 1, 1
	}
	for i := 0; i < 4000 && wantSmall+wantMid+wantBig > 0; i++ {
		s := gen.Example(seed*4096 + i)
		c := RejectCase{Snap: &s, Layout: []string{"new", "two", "old"}[i%3], Path: "mem"}
		b, f := c.baseFile()
		if f != nil {
			continue
		}
		switch n := len(b); {
		case n <= 600 && len(s.Segs) > 0 && wantSmall > 0:
			wantSmall--
		case n > 4200 && n < 7000 && wantMid > 0:
			wantMid--
		case n > 8300 && n < 12000 && wantBig > 0:
			wantBig--
		default:
			continue
		}
		out = append(out, c)
	}
	return out
}

func TestC12RejectEnumerated(t *testing.T) {
	for bi, base := range enumBases(t) {
		file, f := base.baseFile()
		if f != nil {
			vlib.Report(t, ev, "reject", base, f)
			return
		}
		flipStride, fixStride := 1, 4
		if len(file) > 700 {
			flipStride, fixStride = 32, 16
			if vlib.Thorough() {
				flipStride, fixStride = 1, 8
				if len(file) > 8192 {
					flipStride = 2
				}
			}
		}
		stats := map[string]int{}
		for _, m := range enumMuts(file, flipStride, fixStride) {
			c := base
			c.Mut = m
			info, f := evalReject(c)
			record(c, info)
			stats[info.Verdict]++
			if vlib.Report(t, ev, "reject", c, f) {
				return
			}
		}
		ev.AddExtra("enumerated_base_files", 1)
		if flipStride == 1 {
			ev.AddExtra("files_with_every_bit_flipped", 1)
		}
		t.Logf("base %d: %d bytes, verdicts %v", bi, len(file), stats)
	}
}

// ---------------------------------------------------------------------------------------------
// isolated: hostile constants through the in-memory loader, everything through the file system

func hostileMuts(file []byte, spans []fieldSpan) []Mut {
	var ms []Mut
	// every length position of the first, a middle and the last entry, plus the count
	segs := map[int]bool{-1: true, 0: true}
	maxSeg := 0
	for _, s := range spans {
		if s.Seg > maxSeg {
			maxSeg = s.Seg
		}
	}
	segs[maxSeg], segs[maxSeg/2] = true, true
	for _, s := range spans {
		if !segs[s.Seg] || !(isLengthField(s.Name) || s.Name == "id" || s.Name == "format") {
			continue
		}
		for _, h := range hostileVarints {
			ms = append(ms, Mut{Kind: "splice", Pos: s.From, To: s.To, Data: h, Note: "hostile " + s.Name},
				Mut{Kind: "splice", Pos: s.From, To: s.To, Data: h, FixCRC: true, Note: "hostile " + s.Name})
		}
	}
	// a huge length whose content is absent altogether (length field and content replaced by the
	// length alone): whatever follows must not be taken for the rest of the entry
	for i, s := range spans {
		if !segs[s.Seg] || (s.Name != "typelen" && s.Name != "dellen") || i+1 >= len(spans) {
			continue
		}
		content := spans[i+1] // "type" after "typelen", "blob" after "dellen"
		for _, h := range hostileVarints[:9] {
			ms = append(ms, Mut{Kind: "splice", Pos: s.From, To: content.To, Data: h, Note: "hostile " + s.Name + ", content dropped"},
				Mut{Kind: "splice", Pos: s.From, To: content.To, Data: h, FixCRC: true, Note: "hostile " + s.Name + ", content dropped"})
		}
	}
	// hostile lengths inside the deleted-set blob (the bitmap library's header)
	for _, s := range spans {
		if s.Name == "blob" && s.To-s.From >= 8 && segs[s.Seg] {
			for _, h := range [][]byte{{0x3a, 0x30, 0, 0, 0xff, 0xff, 0xff, 0xff}, {0x3a, 0x30, 0, 0, 0, 0, 1, 0}, {0x3b, 0x30, 0xff, 0xff}} {
				ms = append(ms, Mut{Kind: "splice", Pos: s.From, To: s.From + len(h), Data: h, FixCRC: true, Note: "hostile container count"})
			}
		}
	}
	// garbage that starts like a snapshot
	for _, h := range hostileVarints {
		ms = append(ms, Mut{Kind: "splice", Pos: 1, To: len(file), Data: append(append([]byte(nil), h...), 0, 0, 0, 0), Note: "count only"})
	}
	return ms
}

func fsSite(c RejectCase) string {
	s := "reader"
	if c.Writer {
		s = "writer"
	}
	if c.MMap {
		return s + "+mmap"
	}
	return s + "+no-mmap"
}

func TestC12Isolated(t *testing.T) {
	ws := theWorlds(t)
	var cases []RejectCase
	// (a) hostile constants, in-memory loader
	for _, base := range enumBases(t) {
		file, f := base.baseFile()
		if f != nil {
			continue
		}
		if len(file) > 7000 {
			continue
		}
		for _, m := range hostileMuts(file, judge(file).Spans) {
			c := base
			c.Mut = m
			cases = append(cases, c)
		}
	}
	nHostile := len(cases)
	// (b) file system, mmap and plain reads, reader and writer
	budget := vlib.Scale(1000, 6000)
	var fsCases []RejectCase
	for wi, w := range ws {
		for li, layout := range []string{"new", "old", "two"} {
			raw := w.snap(w.NewEpoch)
			if layout == "old" {
				raw = w.snap(w.OldEpoch)
			}
			spans := judge(raw).Spans
			ms := enumMuts(raw, 1, 4)
			ms = append(ms, hostileMuts(raw, spans)...)
			for mi, m := range ms {
				if m.Kind == "tail" && len(m.Data) > 5000 {
					continue
				}
				// each damage goes through one of the four open modes, rotating
				k := mi + li + wi
				fsCases = append(fsCases, RejectCase{World: w, Raw: raw, Layout: layout, Mut: m, Path: "fs", MMap: k%2 == 0, Writer: k%4 >= 2})
			}
		}
	}
	// large generated files, damaged, above a real older snapshot
	big := rapid.Custom(func(rt *rapid.T) SampledCase {
		s := genSnap(rt, 300)
		c := RejectCase{Snap: &s, Layout: "new", Path: "fs"}
		b, _ := c.baseFile()
		sc := SampledCase{Base: c}
		if len(b) < 4200 {
			return sc
		}
		spans := judge(b).Spans
		for i := 0; i < 24; i++ {
			sc.Muts = append(sc.Muts, genMut(rt, b, spans))
		}
		return sc
	})
	seed := int(vlib.Seed() % 1000003)
	for i, got := 0, 0; i < 400 && got < 6; i++ {
		sc := big.Example(seed*512 + i)
		if len(sc.Muts) == 0 {
			continue
		}
		got++
		for mi, m := range sc.Muts {
			c := sc.Base
			c.World = ws[(i+mi)%len(ws)]
			c.Mut = m
			c.MMap, c.Writer = mi%2 == 0, mi%4 >= 2
			fsCases = append(fsCases, c)
		}
	}
	// keep within the budget: a deterministic, evenly spread selection that depends on the seed
	if len(fsCases) > budget {
		step := float64(len(fsCases)) / float64(budget)
		off := float64(seed%97) / 97 * step
		var sel []RejectCase
		for x := off; int(x) < len(fsCases); x += step {
			sel = append(sel, fsCases[int(x)])
		}
		fsCases = sel
	}
	cases = append(cases, fsCases...)
	results, err := runIsolated(ws, cases)
	if err != nil {
		fmt.Println("harness infrastructure: " + err.Error())
		t.Fatalf("vlib.harnessBug: %v", err)
	}
	for i, r := range results {
		c := cases[i]
		c.Isolate = true
		if r.Info.Classes != nil {
			record(c, r.Info)
			if c.Path == "fs" {
				ev.Class("reject:fs:"+fsSite(c), 1)
			}
		}
		if i < nHostile {
			ev.Class("reject:hostile-constant", 1)
		}
		if vlib.Report(t, ev, "reject", c, r.Fail) {
			return
		}
	}
	ev.AddExtra("isolated_cases", len(cases))
}

// ---------------------------------------------------------------------------------------------

func replayReject(raw json.RawMessage) *vlib.Failure {
	var c RejectCase
	if f := vlib.Decode(raw, &c); f != nil {
		return f
	}
	if c.Path == "fs" || c.Isolate {
		var ws []*World
		if c.World != nil {
			ws = []*World{c.World}
		}
		rs, err := runIsolated(ws, []RejectCase{c})
		if err != nil {
			return vlib.Failf("harness-infra", "%v", err)
		}
		return rs[0].Fail
	}
	_, f := evalReject(c)
	return f
}

func init() { replayFns["reject"] = replayReject }
