package c12

import (
	"bytes"
	"fmt"
	"math/bits"
	"reflect"
	"sort"
	"unsafe"

	"github.com/RoaringBitmap/roaring"
	segment "github.com/blugelabs/bluge_segment_api"
	"pgregory.net/rapid"

	"github.com/blugelabs/bluge/index"
)

// ---------------------------------------------------------------------------------------------
// case description (JSON-serialisable; everything is a recipe, bitmaps are never stored bit by bit)

// ContSpec describes one roaring container explicitly (kind and content).
type ContSpec struct {
	Key    uint16   `json:"key"`
	Kind   string   `json:"kind"` // array | bitmap | run
	Start  int      `json:"start"`
	N      int      `json:"n"`                 // array/bitmap: number of progression values; run: number of runs
	Step   int      `json:"step"`              // distance of progression values / of run starts
	RunLen int      `json:"run_len,omitempty"` // run: length of each run (< Step)
	Extra  []uint16 `json:"extra,omitempty"`   // array/bitmap: additional single values
}

// BMOp is one public-API call on a roaring bitmap.
type BMOp struct {
	Op   string `json:"op"` // add (A + i*Step, i < N) | range [A,B) | remove [A,B)
	A    uint32 `json:"a"`
	B    uint32 `json:"b,omitempty"`
	N    uint32 `json:"n,omitempty"`
	Step uint32 `json:"step,omitempty"`
}

// BMSpec describes the deleted set of one segment.
type BMSpec struct {
	Mode   string     `json:"mode,omitempty"` // "" no bitmap | empty (non-nil, no bits) | conts | ops
	Conts  []ContSpec `json:"conts,omitempty"`
	Ops    []BMOp     `json:"ops,omitempty"`
	RunOpt bool       `json:"run_opt,omitempty"` // ops: RunOptimize() at the end
}

type SegSpec struct {
	ID      uint64 `json:"id"`
	Type    []byte `json:"type"` // arbitrary bytes (base64 in JSON)
	Version uint32 `json:"version"`
	Del     BMSpec `json:"del"`
}

type SnapCase struct {
	Epoch uint64    `json:"epoch"`
	Segs  []SegSpec `json:"segs"`
	Note  string    `json:"note,omitempty"`
}

// expand turns a container recipe into its content.
func (c ContSpec) expand() RCont {
	rc := RCont{Key: c.Key, Kind: c.Kind}
	if c.Kind == "run" {
		for i := 0; i < c.N; i++ {
			first := c.Start + i*c.Step
			last := first + c.RunLen - 1
			if first > 0xffff {
				break
			}
			if last > 0xffff {
				last = 0xffff
			}
			rc.Runs = append(rc.Runs, [2]int{first, last})
		}
		return rc
	}
	var seen [1024]uint64
	for i := 0; i < c.N; i++ {
		v := c.Start + i*c.Step
		if v > 0xffff {
			break
		}
		seen[v>>6] |= 1 << uint(v&63)
	}
	for _, v := range c.Extra {
		seen[v>>6] |= 1 << uint(v&63)
	}
	for i, x := range seen {
		for x != 0 {
			b := bits.TrailingZeros64(x)
			x &^= 1 << uint(b)
			rc.Vals = append(rc.Vals, uint16(i*64+b))
		}
	}
	// the kind follows from the cardinality in the portable format
	if len(rc.Vals) > 4096 {
		rc.Kind = "bitmap"
	} else {
		rc.Kind = "array"
	}
	return rc
}

// chunkSet is the harness's own model of a set of uint32 (64 KiB-chunked bit vectors).
type chunkSet map[uint16]*[1024]uint64

func (c chunkSet) add(v uint32) {
	w := c[uint16(v>>16)]
	if w == nil {
		w = new([1024]uint64)
		c[uint16(v>>16)] = w
	}
	w[(v&0xffff)>>6] |= 1 << (v & 63)
}
func (c chunkSet) remove(v uint32) {
	if w := c[uint16(v>>16)]; w != nil {
		w[(v&0xffff)>>6] &^= 1 << (v & 63)
	}
}
func (c chunkSet) slice() []uint32 {
	keys := make([]int, 0, len(c))
	for k := range c {
		keys = append(keys, int(k))
	}
	sort.Ints(keys)
	n := 0
	for _, w := range c {
		for _, x := range w {
			n += bits.OnesCount64(x)
		}
	}
	out := make([]uint32, 0, n)
	for _, k := range keys {
		w := c[uint16(k)]
		for i, x := range w {
			for x != 0 {
				b := bits.TrailingZeros64(x)
				x &^= 1 << uint(b)
				out = append(out, uint32(k)<<16|uint32(i*64+b))
			}
		}
	}
	return out
}

// built is a SnapCase made concrete.
type built struct {
	infos    []index.VerifSegmentInfo // what goes into the implementation
	state    []SegState               // what the case means (computed without roaring)
	entries  []Entry                  // for the harness's encoder; Blob nil where the blob is taken from roaring (ops mode)
	opaque   []bool                   // entries whose blob bytes come from roaring's serialiser
	kinds    map[string]int           // container kinds generated explicitly
	maxBits  int
	harnessE error // the recipe is inconsistent (harness bug)
}

func buildCase(c SnapCase) built {
	var b built
	b.kinds = map[string]int{}
	for _, s := range c.Segs {
		info := index.VerifSegmentInfo{ID: s.ID, Type: string(s.Type), Version: s.Version}
		st := SegState{ID: s.ID, Type: string(s.Type), Version: s.Version}
		e := Entry{ID: s.ID, Type: string(s.Type), Version: s.Version}
		opaque := false
		switch s.Del.Mode {
		case "":
		case "empty":
			info.Deleted = roaring.New()
			e.Blob = encodeRoaring(nil)
		case "conts":
			var cs []RCont
			for _, cs0 := range s.Del.Conts {
				rc := cs0.expand()
				if rc.card() == 0 {
					continue
				}
				cs = append(cs, rc)
				b.kinds[rc.Kind]++
			}
			sort.Slice(cs, func(i, j int) bool { return cs[i].Key < cs[j].Key })
			total := 0
			for _, rc := range cs {
				total += rc.card()
			}
			st.Deleted = make([]uint32, 0, total)
			for _, rc := range cs {
				st.Deleted = rc.appendValues(st.Deleted)
			}
			e.Blob = encodeRoaring(cs)
			// hand the set to the implementation as a library bitmap; the library is only asked to
			// parse what the harness's encoder wrote, and is cross-checked right here
			bm := roaring.New()
			if _, err := bm.ReadFrom(bytes.NewReader(e.Blob)); err != nil {
				b.harnessE = fmt.Errorf("harness roaring encoder: library cannot parse: %v", err)
				return b
			}
			got := bm.ToArray()
			if len(got) != len(st.Deleted) {
				b.harnessE = fmt.Errorf("harness roaring encoder: library sees %d bits, recipe has %d", len(got), len(st.Deleted))
				return b
			}
			for i := range got {
				if got[i] != st.Deleted[i] {
					b.harnessE = fmt.Errorf("harness roaring encoder: bit %d differs", i)
					return b
				}
			}
			info.Deleted = bm
		case "ops":
			bm := roaring.New()
			model := chunkSet{}
			for _, op := range s.Del.Ops {
				switch op.Op {
				case "add":
					for i := uint32(0); i < op.N; i++ {
						v := uint64(op.A) + uint64(i)*uint64(op.Step)
						if v > 0xffffffff {
							break
						}
						bm.Add(uint32(v))
						model.add(uint32(v))
					}
				case "range":
					bm.AddRange(uint64(op.A), uint64(op.B))
					for v := uint64(op.A); v < uint64(op.B); v++ {
						model.add(uint32(v))
					}
				case "remove":
					bm.RemoveRange(uint64(op.A), uint64(op.B))
					for v := uint64(op.A); v < uint64(op.B); v++ {
						model.remove(uint32(v))
					}
				}
			}
			if s.Del.RunOpt {
				bm.RunOptimize()
			}
			st.Deleted = model.slice()
			info.Deleted = bm
			opaque = true
		}
		if len(st.Deleted) > b.maxBits {
			b.maxBits = len(st.Deleted)
		}
		b.infos = append(b.infos, info)
		b.state = append(b.state, st)
		b.entries = append(b.entries, e)
		b.opaque = append(b.opaque, opaque)
	}
	return b
}

// ---------------------------------------------------------------------------------------------
// making an encodable *index.Snapshot
//
// index.VerifNewSnapshot leaves segmentSnapshot.segment nil, but WriteTo asks that object for
// Type() and Version().  Until the hook attaches a segment itself, the harness attaches a stub
// through reflection (see NOTES.md, "hook gap").

type stubSegment struct {
	segment.Segment
	typ string
	ver uint32
	n   uint64
}

func (s *stubSegment) Type() string    { return s.typ }
func (s *stubSegment) Version() uint32 { return s.ver }
func (s *stubSegment) Count() uint64   { return s.n }
func (s *stubSegment) Size() int       { return 0 }

func newSnapshot(epoch uint64, infos []index.VerifSegmentInfo) *index.Snapshot {
	snap := index.VerifNewSnapshot(epoch, infos)
	sv := reflect.ValueOf(snap).Elem().FieldByName("segment")
	for i := 0; i < sv.Len(); i++ {
		ss := sv.Index(i).Elem()
		f := ss.FieldByName("segment")
		f = reflect.NewAt(f.Type(), unsafe.Pointer(f.UnsafeAddr())).Elem()
		if !f.IsNil() {
			continue // the hook already attached one
		}
		w := reflect.New(f.Type().Elem())
		w.Elem().FieldByName("Segment").Set(reflect.ValueOf(&stubSegment{typ: infos[i].Type, ver: infos[i].Version}))
		f.Set(w)
	}
	return snap
}

func infoState(infos []index.VerifSegmentInfo) []SegState {
	out := make([]SegState, 0, len(infos))
	for _, in := range infos {
		s := SegState{ID: in.ID, Type: in.Type, Version: in.Version}
		if in.Deleted != nil {
			s.Deleted = safeToArray(in.Deleted)
		}
		out = append(out, s)
	}
	return out
}

// ---------------------------------------------------------------------------------------------
// generators

var anchorIDs = []uint64{0, 1, 127, 128, 1 << 32, 1 << 63, 1<<64 - 1, 16383, 16384, 1<<56 - 1, 1 << 56}

func genID(t *rapid.T) uint64 {
	switch rapid.IntRange(0, 5).Draw(t, "idKind") {
	case 0, 1, 2:
		return rapid.SampledFrom(anchorIDs).Draw(t, "idAnchor")
	case 3:
		return rapid.Uint64Range(0, 300).Draw(t, "idSmall")
	default:
		return rapid.Uint64().Draw(t, "idAny")
	}
}

// genType: producible = only what the bundled plugins write ("ice", versions 1 and 2).
func genType(t *rapid.T, producible bool, minLen int) ([]byte, uint32) {
	if producible {
		return []byte("ice"), uint32(rapid.IntRange(1, 2).Draw(t, "iceVersion"))
	}
	var n int
	switch rapid.IntRange(0, 3).Draw(t, "typeLenKind") {
	case 0:
		n = rapid.IntRange(0, 2).Draw(t, "typeLenShort")
	case 1:
		n = rapid.IntRange(3, 5).Draw(t, "typeLenMid")
	default:
		n = rapid.IntRange(6, 40).Draw(t, "typeLenLong")
	}
	if n < minLen {
		n = minLen
	}
	typ := make([]byte, n)
	for i := range typ {
		typ[i] = rapid.SampledFrom([]byte{'a', 'i', 'c', 'e', 'Z', '_', '0', 0, 0x7f, 0x80, 0xff, 0xc3, ' ', '\n'}).Draw(t, "typeByte")
	}
	ver := rapid.SampledFrom([]uint32{0, 1, 2, 128, 255, 256, 0x01020304, 0x80000000, 0xffffffff, 0x00ff00ff}).Draw(t, "version")
	return typ, ver
}

func genCont(t *rapid.T, key uint16) ContSpec {
	c := ContSpec{Key: key}
	switch rapid.IntRange(0, 9).Draw(t, "contKind") {
	case 0, 1, 2, 3:
		c.Kind = "array"
		c.Start = rapid.IntRange(0, 65535).Draw(t, "start")
		c.N = rapid.SampledFrom([]int{1, 1, 2, 3, 10, 100, 1000, 4095, 4096}).Draw(t, "n")
		c.Step = rapid.IntRange(1, 16).Draw(t, "step")
		if c.N >= 4095 {
			c.Start = rapid.IntRange(0, 10).Draw(t, "startLow")
			c.Step = rapid.IntRange(1, 15).Draw(t, "stepSmall")
		}
	case 4, 5:
		c.Kind = "bitmap"
		c.Start = rapid.IntRange(0, 100).Draw(t, "start")
		c.N = rapid.SampledFrom([]int{4097, 5000, 30000, 50000, 65536}).Draw(t, "n")
		c.Step = 1
		if c.N <= 30000 {
			c.Step = rapid.IntRange(1, 2).Draw(t, "step")
		}
	default:
		c.Kind = "run"
		c.N = rapid.SampledFrom([]int{1, 1, 2, 5, 50, 2000}).Draw(t, "nruns")
		c.RunLen = rapid.SampledFrom([]int{1, 2, 10, 1000, 65536}).Draw(t, "runLen")
		c.Step = c.RunLen + rapid.IntRange(1, 40).Draw(t, "gap")
		c.Start = rapid.IntRange(0, 300).Draw(t, "start")
		if c.RunLen == 65536 {
			c.Start, c.N = 0, 1
		}
	}
	if c.Kind != "run" && rapid.IntRange(0, 3).Draw(t, "extra") == 0 {
		c.Extra = []uint16{0, 65535, uint16(rapid.IntRange(0, 65535).Draw(t, "extraVal"))}
	}
	return c
}

func genBM(t *rapid.T, big bool) BMSpec {
	k := rapid.IntRange(0, 11).Draw(t, "delKind")
	switch {
	case k <= 4:
		return BMSpec{}
	case k == 5:
		return BMSpec{Mode: "empty"}
	case k <= 8:
		b := BMSpec{Mode: "conts"}
		n := rapid.SampledFrom([]int{1, 1, 1, 2, 3, 5}).Draw(t, "nconts")
		key := 0
		for i := 0; i < n; i++ {
			key += rapid.SampledFrom([]int{0, 1, 1, 2, 100, 60000}).Draw(t, "keyGap")
			if i > 0 && key == int(b.Conts[len(b.Conts)-1].Key) {
				key++
			}
			if key > 65535 {
				break
			}
			c := genCont(t, uint16(key))
			if !big && (c.Kind == "bitmap" || c.N > 300 || c.N*c.RunLen > 3000) {
				if c.Kind == "run" {
					c.N, c.RunLen, c.Step = 3, 40, 50
				} else {
					c.Kind, c.N, c.Step = "array", 5, 3
				}
			}
			b.Conts = append(b.Conts, c)
		}
		return b
	default:
		b := BMSpec{Mode: "ops", RunOpt: rapid.Bool().Draw(t, "runOpt")}
		n := rapid.IntRange(1, 4).Draw(t, "nops")
		for i := 0; i < n; i++ {
			base := rapid.SampledFrom([]uint32{0, 1, 65535, 65536, 1 << 20, 1<<32 - 70000}).Draw(t, "opBase")
			off := uint32(rapid.IntRange(0, 3000).Draw(t, "opOff"))
			switch rapid.IntRange(0, 3).Draw(t, "opKind") {
			case 0, 1:
				cnt := []uint32{1, 7, 300, 5000}
				if big {
					cnt = append(cnt, 60000)
				}
				b.Ops = append(b.Ops, BMOp{Op: "add", A: base + off, N: rapid.SampledFrom(cnt).Draw(t, "opN"), Step: uint32(rapid.IntRange(1, 5).Draw(t, "opStep"))})
			case 2:
				ln := []uint32{1, 50, 5000}
				if big {
					ln = append(ln, 100000)
				}
				l := rapid.SampledFrom(ln).Draw(t, "opLen")
				a := base + off
				e := uint64(a) + uint64(l)
				if e > 0xffffffff {
					e = 0xffffffff
				}
				b.Ops = append(b.Ops, BMOp{Op: "range", A: a, B: uint32(e)})
			default:
				a := base + off
				e := uint64(a) + uint64(rapid.IntRange(1, 200).Draw(t, "rmLen"))
				if e > 0xffffffff {
					e = 0xffffffff
				}
				b.Ops = append(b.Ops, BMOp{Op: "remove", A: a, B: uint32(e)})
			}
		}
		return b
	}
}

func genSeg(t *rapid.T, producible, big bool) SegSpec {
	typ, ver := genType(t, producible, 0)
	return SegSpec{ID: genID(t), Type: typ, Version: ver, Del: genBM(t, big)}
}

func entryLen(s SegSpec) int {
	b := buildCase(SnapCase{Segs: []SegSpec{s}})
	e := b.entries[0]
	if b.opaque[0] {
		e.Blob, _ = b.infos[0].Deleted.ToBytes()
	}
	return len(encodeBody([]Entry{e})) - 2
}

// genSnap draws one snapshot.  maxSegs bounds the segment count (300 in the round-trip test,
// smaller where every byte of the file is mutated afterwards).
func genSnap(t *rapid.T, maxSegs int) SnapCase {
	c := SnapCase{Epoch: rapid.SampledFrom([]uint64{1, 2, 77, 1 << 40}).Draw(t, "epoch")}
	producible := rapid.IntRange(0, 2).Draw(t, "producible") > 0
	shape := rapid.IntRange(0, 9).Draw(t, "shape")
	if shape >= 7 && maxSegs >= 250 {
		// aimed: an entry with a long type name whose fields straddle the decoder's 4096-byte buffer
		c.Note = "aimed-4096"
		L := rapid.IntRange(6, 40).Draw(t, "aimTypeLen")
		r := rapid.IntRange(-12, 12).Draw(t, "aimShift")
		if rapid.Bool().Draw(t, "aimVersion") {
			r = rapid.IntRange(1, 3).Draw(t, "aimShiftVersion")
		}
		target := 4096 - 1 - L - r // offset of the type-length byte of the aimed entry
		tail := rapid.IntRange(0, 6).Draw(t, "aimTail")
		sum := 0 // bytes of the entries so far
		for 3+sum < target-140 {
			s := genSeg(t, false, false)
			if len(s.Type) < 6 && rapid.Bool().Draw(t, "longer") {
				s.Type = append(s.Type, []byte("-longer")...)
			}
			l := entryLen(s)
			if l > 120 {
				s.Del = BMSpec{}
				l = entryLen(s)
			}
			c.Segs = append(c.Segs, s)
			sum += l
		}
		for target-(3+sum)-7 > 100 {
			c.Segs = append(c.Segs, SegSpec{ID: 5, Type: bytes.Repeat([]byte{'f'}, 60), Version: 9})
			sum += 67
		}
		head := 2
		if len(c.Segs)+2+tail >= 128 {
			head = 3
		}
		// filler entry: typelen(1) + type + version(4) + id(1) + dellen(1)
		if fill := target - (head + sum) - 7; fill >= 0 {
			c.Segs = append(c.Segs, SegSpec{ID: 5, Type: bytes.Repeat([]byte{'p'}, fill), Version: 7})
		} else {
			c.Segs = append(c.Segs, SegSpec{ID: 5, Type: []byte("p"), Version: 7})
		}
		typ, ver := genType(t, false, 0)
		for len(typ) < L {
			typ = append(typ, 'L')
		}
		typ = typ[:L]
		if ver == 0 {
			ver = 0x01020304
		}
		c.Segs = append(c.Segs, SegSpec{ID: genID(t), Type: typ, Version: ver, Del: genBM(t, false)})
		for i := 0; i < tail; i++ {
			c.Segs = append(c.Segs, genSeg(t, false, false))
		}
		return c
	}
	var n int
	switch {
	case shape == 0:
		n = rapid.IntRange(0, 2).Draw(t, "n")
	case shape <= 3:
		n = rapid.IntRange(1, 12).Draw(t, "n")
	case shape <= 5:
		n = rapid.IntRange(10, 120).Draw(t, "n")
	default:
		n = rapid.IntRange(100, 300).Draw(t, "n")
	}
	if n > maxSegs {
		n = maxSegs
	}
	// large deleted sets are expensive to model; most snapshots have none, some one or two
	bigBudget := rapid.SampledFrom([]int{0, 0, 0, 0, 0, 1, 1, 2}).Draw(t, "bigBudget")
	for i := 0; i < n; i++ {
		big := bigBudget > 0 && rapid.IntRange(0, 3).Draw(t, "big") == 0
		s := genSeg(t, producible, big)
		if big {
			bigBudget--
		}
		c.Segs = append(c.Segs, s)
	}
	// the last entry decides what the decoder sees at the end of the file
	if n > 0 && !producible && rapid.IntRange(0, 2).Draw(t, "shortTail") == 0 {
		last := &c.Segs[n-1]
		last.Type = last.Type[:min(len(last.Type), rapid.IntRange(0, 2).Draw(t, "tailTypeLen"))]
		last.ID = rapid.Uint64Range(0, 127).Draw(t, "tailID")
		last.Del = BMSpec{}
		c.Note = "short-last-entry"
	}
	return c
}

// safeToArray: a bitmap parsed from a damaged blob (wrong cardinality in its header) can make
// the library's own accessors panic; that is the library's business and only happens for blobs
// this harness does not judge.  Such a set is reported as a single impossible marker value pair.
func safeToArray(bm *roaring.Bitmap) (out []uint32) {
	defer func() {
		if recover() != nil {
			out = []uint32{0xffffffff, 0xffffffff}
		}
	}()
	return bm.ToArray()
}
