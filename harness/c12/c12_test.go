// C12  Snapshot files round-trip and every damaged file is rejected safely.
package c12

import (
	"bytes"
	"encoding/json"
	"fmt"
	"io"
	"log"
	"runtime"
	"runtime/debug"
	"testing"

	"pgregory.net/rapid"

	"verifharness/vlib"
)

func TestMain(m *testing.M) {
	// bluge reports every rejected snapshot with log.Printf; hundreds of thousands of rejections
	// are the point of this check
	log.SetOutput(io.Discard)
	// the allocation bound is measured with runtime.ReadMemStats (stops the world twice per
	// call): few Ps keep that cheap; the shards are processes, parallelism comes from them
	runtime.GOMAXPROCS(4)
	debug.SetGCPercent(400)
	vlib.Main(m)
}

var ev = vlib.NewEvidence("C12",
	"round trip: generated snapshots (0-300 segments, anchor and random ids, bundled type ice v1/v2 and arbitrary type strings of 0-40 bytes, deleted sets none/empty/array/bitmap/run containers up to 100k bits, files crossing 4096 and 8192 bytes, entries aimed at the decoder's 4096-byte buffer) and snapshot files of real writer runs, judged against an independent encoder and decoder, through the exported decoder and through the real loader. "+
		"rejection: every truncation, every single-bit flip (sampled for large files in the quick tier), appended tails, hostile length constants and checksum-repaired structural damage of such files, judged by the independent decoder + CRC, through the exported decoder, through the real loader on an in-memory directory, and through bluge.OpenReader/OpenWriter on a file-system directory with and without mmap in a child process. "+
		"non-trivial = a damaged file whose body still decodes (only the CRC can reject it) or whose damage lies in a length field (count, type length, deleted-set length, a varint turned non-terminating)")

// ---------------------------------------------------------------------------------------------
// round trip

func propRoundTrip(c SnapCase) (f *vlib.Failure, file []byte, b built) {
	f = watched(func() *vlib.Failure {
		var f *vlib.Failure
		f, file, b = propRoundTripUnwatched(c)
		return f
	})
	return f, file, b
}

func propRoundTripUnwatched(c SnapCase) (f *vlib.Failure, file []byte, b built) {
	b = buildCase(c)
	if b.harnessE != nil {
		return vlib.Failf("harness-bug", "%v", b.harnessE), nil, b
	}
	// implementation: encode
	var buf bytes.Buffer
	var n int64
	if f := guarded("Snapshot.WriteTo", func() *vlib.Failure {
		var err error
		n, err = newSnapshot(c.Epoch, b.infos).WriteTo(&buf, nil)
		if err != nil {
			return vlib.Failf("write-error", "WriteTo: %v", err)
		}
		return nil
	}); f != nil {
		return f, nil, b
	}
	file = buf.Bytes()
	if n != int64(len(file)) {
		return vlib.Failf("write-count", "WriteTo reported %d bytes, wrote %d", n, len(file)), file, b
	}
	// independent encoder: same bytes
	entries := append([]Entry(nil), b.entries...)
	for i := range entries {
		if b.opaque[i] {
			// deleted set built through the library's API: its serialisation is taken as given, the
			// framing around it is not
			entries[i].Blob, _ = b.infos[i].Deleted.ToBytes()
		}
	}
	want := encodeFile(entries)
	if !bytes.Equal(file, want) {
		p := 0
		for p < len(file) && p < len(want) && file[p] == want[p] {
			p++
		}
		return vlib.Failf("encoding-differs", "WriteTo wrote %d bytes, the format description gives %d; first difference at offset %d", len(file), len(want), p), file, b
	}
	// independent decoder: the file means what the case says
	v := judge(file)
	if !v.Valid {
		return vlib.Failf("harness-bug", "harness decoder rejects the implementation's file: crc=%v struct=%v blob=%v noncanon=%v", v.CRCOK, v.Struct, v.BlobErr, v.NonCanon), file, b
	}
	if d := sameState(v.State, b.state); d != "" {
		return vlib.Failf("harness-bug", "harness decoder disagrees with the recipe: %s", d), file, b
	}
	// implementation: exported decoder
	dr, f := decodeDirect(file)
	if f != nil {
		return f, file, b
	}
	if dr.Err != "" {
		return vlib.Failf("valid-rejected@ReadFrom", "ReadFrom rejects a file WriteTo produced (%d segments, %d bytes): %s", len(c.Segs), len(file), dr.Err), file, b
	}
	if d := sameState(dr.State, b.state); d != "" {
		return vlib.Failf("roundtrip-differs@ReadFrom", "written and read back differ: %s", d), file, b
	}
	if dr.N != int64(len(file)-4) {
		return vlib.Failf("read-count", "ReadFrom reports %d bytes read of a %d-byte body", dr.N, len(file)-4), file, b
	}
	if dr.Alloc > allocBound(len(file)) {
		return vlib.Failf("alloc@ReadFrom", "decoding %d bytes allocated %d", len(file), dr.Alloc), file, b
	}
	// implementation: the real loader (CRC validation, plugin lookup, segment load)
	d := &memDir{snaps: map[uint64][]byte{c.Epoch: file}, anySeg: []byte("stub")}
	lr, f := openMem(d, typeVers(entries))
	if f != nil {
		return f, file, b
	}
	if lr.Err != "" {
		return vlib.Failf("valid-rejected@loader", "the loader rejects a file WriteTo produced (%d segments, %d bytes): %s", len(c.Segs), len(file), lr.Err), file, b
	}
	if lr.Epoch != c.Epoch {
		return vlib.Failf("roundtrip-differs@loader", "loaded epoch %d, file is epoch %d", lr.Epoch, c.Epoch), file, b
	}
	if d := sameState(lr.State, b.state); d != "" {
		return vlib.Failf("roundtrip-differs@loader", "written and loaded differ: %s", d), file, b
	}
	if d.opened != d.closed {
		return vlib.Failf("handle-leak@loader", "%d items opened, %d closed after Close", d.opened, d.closed), file, b
	}
	return nil, file, b
}

func sizeClass(n int) string {
	switch {
	case n < 4096:
		return "size<4096"
	case n < 8192:
		return "size:4096-8191"
	default:
		return "size>=8192"
	}
}

// versionStraddles: some entry with a type name longer than 5 bytes has its 4-byte version
// across offset 4096 of the body (the place where a short buffered read shows).
func versionStraddles(v verdict) bool {
	for _, s := range v.Spans {
		if s.Name == "version" && s.From < 4096 && s.To > 4096 && len(v.Entries) > s.Seg && len(v.Entries[s.Seg].Type) > 5 {
			return true
		}
	}
	return false
}

func TestC12RoundTrip(t *testing.T) {
	vlib.Check(t, 400, 2500, func(rt *rapid.T) {
		c := genSnap(rt, 300)
		f, file, b := propRoundTrip(c)
		cls := []string{"roundtrip", "roundtrip:" + sizeClass(len(file))}
		producible := true
		short := false
		for i, s := range c.Segs {
			if string(s.Type) != "ice" || s.Version < 1 || s.Version > 2 {
				producible = false
			}
			if i == len(c.Segs)-1 && len(s.Type) < 3 && s.ID < 128 && s.Del.Mode == "" {
				short = true
			}
		}
		if producible {
			cls = append(cls, "roundtrip:producible-types")
		} else {
			cls = append(cls, "roundtrip:arbitrary-types")
		}
		if short {
			cls = append(cls, "roundtrip:last-entry-shorter-than-a-peek")
		}
		for k, n := range b.kinds {
			ev.Class("roundtrip:container:"+k, n)
		}
		if b.maxBits >= 50000 {
			cls = append(cls, "roundtrip:deleted>=50k-bits")
		}
		if file != nil && versionStraddles(judge(file)) {
			cls = append(cls, "roundtrip:version-straddles-4096")
		}
		// the round-trip half has no damaged file; its cases count as evaluations, the
		// non-trivial rule belongs to the rejection half
		ev.Case(vlib.Canon(c), false, cls...)
		if len(c.Segs) <= 3 && b.maxBits < 50 {
			ev.Sample(map[string]interface{}{"kind": "roundtrip", "case": c, "file_bytes": len(file)}, false)
		}
		vlib.Report(rt, ev, "roundtrip", c, f)
	})
}

var replayFns = map[string]vlib.ReplayFn{
	"roundtrip": func(raw json.RawMessage) *vlib.Failure {
		var c SnapCase
		if f := vlib.Decode(raw, &c); f != nil {
			return f
		}
		f, _, _ := propRoundTrip(c)
		return f
	},
}

func TestReplay(t *testing.T)  { vlib.ReplayMain(t, ev, replayFns) }
func TestRegress(t *testing.T) { vlib.RegressMain(t, ev, replayFns) }

var _ = fmt.Sprint
